import J5V.Rules.Compile
/-!
# The reader: `lib/j5schema/schema_from_proto.go`

`readField` mirrors, for one field, `messageProperties` (repeated branch and plain branch),
`buildSchemaProperty`, `buildSchema`, `buildScalarType`, `buildFromStringProto`, `wktSchema`,
`buildMessageFieldSchema`, `buildEnumFieldSchema` and `buildEnum`, over the annotation record
`Annot` — as repaired by the `fix:` commits (bool const, bytes rules, uint64 / oneof / item list
rules, tenant key, custom key precedence, required arrays, fixed64 no longer float).
-/
namespace J5V.Rules
open J5V.Go

/-- `protoFieldExtensions` -/
structure Exts where
  validate : Option FieldC
  list : Option ListExt
  j5 : Option J5Ext
  deriving Repr

def trimSuffix (suf s : String) : String :=
  if hasSuffix suf s then String.ofList (s.toList.take (s.length - suf.length)) else s

/-- `buildEnum`: short option names and numbers, and the prefix, from the compiled enum values. -/
structure EnumRead where
  pfx : String
  options : List (String × Int)
  /-- `commentDescription(option)` per value, by the value's INDEX in the descriptor -/
  descs : List String
  deriving Repr, DecidableEq

/-- the leading comment at source path `[…, 2, i]` -/
def commentAt (cs : List (Nat × String)) (i : Nat) : String :=
  match cs.find? (fun c => c.1 == i) with
  | some c => c.2
  | none => ""

def buildEnum (values : List (String × Int)) (comments : List (Nat × String)) : Outcome EnumRead :=
  match values with
  | [] => .panic "index out of range: enum without values"
  | (first, _) :: _ =>
    if !hasSuffix "UNSPECIFIED" first then .err "enum does not have an unspecified value"
    else
      let pre := trimSuffix "UNSPECIFIED" first
      .ok { pfx := pre, options := values.map fun (n, k) => (trimPrefix pre n, k),
            descs := (List.range values.length).map (commentAt comments) }

def optionByNumber (opts : List (String × Int)) (n : Int) : Option String :=
  match opts.find? (fun o => o.2 == n) with
  | some o => some o.1
  | none => none

def namesOf (opts : List (String × Int)) : List Int → Outcome (List String)
  | [] => .ok []
  | n :: rest =>
    match optionByNumber opts n with
    | none => .err "enum value not found"
    | some name =>
      match namesOf opts rest with
      | .ok ns => .ok (name :: ns)
      | .err t => .err t
      | .panic w => .panic w

/-- NotIn: an unknown number 0 is skipped (`_UNSPECIFIED` excluded already) -/
def namesOfNotIn (opts : List (String × Int)) : List Int → Outcome (List String)
  | [] => .ok []
  | n :: rest =>
    match optionByNumber opts n with
    | none => if n == 0 then namesOfNotIn opts rest else .err "enum value not found"
    | some name =>
      match namesOfNotIn opts rest with
      | .ok ns => .ok (name :: ns)
      | .err t => .err t
      | .panic w => .panic w

/-- the canonical declaration the reader reconstructs for an enum -/
def readDecl (name desc : String) (r : EnumRead) : EnumDecl :=
  { name := name, declPrefix := some r.pfx, defaultPrefix := r.pfx, options := r.options.map (·.1),
    description := desc, descs := r.descs }

def wellKnownStringPattern (p : String) : Option String :=
  if p = "^\\d{4}-\\d{2}-\\d{2}$" then some "date"
  else if p = "^\\d(.?\\d)?$" then some "number"
  else if p = id62Pattern then some "id62"
  else none

def Exts.itemC (e : Exts) : Option ItemC :=
  match e.validate with
  | some { typ := .item c, .. } => some c
  | _ => none

def Exts.repeatedC (e : Exts) : Option RepeatedC :=
  match e.validate with
  | some { typ := .repeated r, .. } => some r
  | _ => none

def Exts.mapC (e : Exts) : Option MapC :=
  match e.validate with
  | some { typ := .map m, .. } => some m
  | _ => none

/-- `ext.validate != nil && ext.validate.Type != nil` -/
def Exts.hasType (e : Exts) : Bool :=
  match e.validate with
  | some { typ := .item .none, .. } => false
  | some _ => true
  | none => false

def keyFormatOfString : String → Option KeyFormat → Option KeyFormat
  | "uuid", _ => some .uuid
  | "id62", _ => some .id62
  | "natural_key", cur => (match cur with | none => some .informal | some f => some f)
  | _, cur => cur

/-- `buildFromStringProto` -/
def buildFromStringProto (ext : Exts) (psm : Option PsmKey) : Outcome Schema :=
  -- b1eebc1: a field marked as a J5 string, or as a key with its own (custom) pattern, keeps its
  -- pattern; formats / keys are inferred from well-known patterns only for other fields
  let own : Bool := match ext.j5 with | some .string => true | some (.key (some _)) => true | _ => false
  -- validate part
  let step1 : Outcome (Option String × Option StringRules × Bool) :=
    if ext.hasType then
      match ext.itemC with
      | some (.string c) =>
        let (fmt, pat) : Option String × Option String :=
          match c.pattern with
          | none => (none, none)
          | some p => (match (if own then none else wellKnownStringPattern p) with | some f => (some f, none) | none => (none, some p))
        let fmt := if c.uuid then some "uuid" else fmt
        .ok (fmt, some { minLength := c.minLen, maxLength := c.maxLen, pattern := pat }, c.uuid)
      | _ => .err "constraint for string is of another type"
    else .ok (none, none, false)
  match step1 with
  | .err t => .err t
  | .panic w => .panic w
  | .ok (fmt, rules, looks) =>
    -- list rules: foreign key slots
    let step2 : Outcome (Option String × ListRules × Bool) :=
      match ext.list with
      | some (.foreignKey .uniqueString p) =>
        if fmt.isSome then .err "string format is not compatible with list.unique_string"
        else .ok (some "natural_key", some p, true)
      | some (.foreignKey .id62 p) =>
        if fmt.isSome && fmt != some "id62" then .err "string format is not compatible with list.id62"
        else .ok (some "id62", some p, true)
      | some (.foreignKey .uuid p) =>
        if fmt.isSome && fmt != some "uuid" then .err "string format is not compatible with list.uuid"
        else .ok (some "uuid", some p, true)
      | _ => .ok (fmt, none, looks)
    match step2 with
    | .err t => .err t
    | .panic w => .panic w
    | .ok (fmt, fkRules, looks) =>
      -- open text
      let step3 : Outcome ListRules :=
        match ext.list with
        | some (.openText p) =>
          if fmt.isSome then .err "open_text and format do not match"
          else if psm.isSome then .err "open_text and key constraint do not match"
          else .ok (some p)
        | _ => .ok none
      match step3 with
      | .err t => .err t
      | .panic w => .panic w
      | .ok openText =>
        let keyOpt : Option (Option String) := match ext.j5 with | some (.key p) => some p | _ => none
        let looks := looks || fkRules.isSome || psm.isSome || fmt == some "id62" || keyOpt.isSome
        if !looks then .ok (.string fmt rules openText)
        else
          let format0 : Option KeyFormat := match keyOpt with | some (some p) => some (.custom p) | _ => none
          let entity : Option EntityKey := psm.map fun k =>
            { tenantKey := k.tenantType,
              typ := if k.primaryKey then .primary true
                     else match k.foreignKey with | some r => .foreign r | none => .none }
          let format := match fmt with | some f => keyFormatOfString f format0 | none => format0
          .ok (.key format entity fkRules)

def readIntRules (ub : UpperB) (lb : LowerB) : IntRules :=
  let (mx, emx) : Option Int × Option Bool :=
    match ub with | .none => (none, none) | .lt a => (some a, some true) | .lte a => (some a, none)
  let (mn, emn) : Option Int × Option Bool :=
    match lb with | .none => (none, none) | .gt a => (some a, some true) | .gte a => (some a, none)
  { minimum := mn, maximum := mx, exclusiveMinimum := emn, exclusiveMaximum := emx }

/-- `int64(x)` of the rule value when read back (only uint64 can wrap) -/
def readCast (f : IntFormat) (x : Int) : Int :=
  match f with
  | .u64 => wrapSigned 64 x
  | _ => x

def mapUB (f : Int → Int) : UpperB → UpperB
  | .none => .none | .lt a => .lt (f a) | .lte a => .lte (f a)
def mapLB (f : Int → Int) : LowerB → LowerB
  | .none => .none | .gt a => .gt (f a) | .gte a => .gte (f a)

def listPayload (slot : ListExt → Option LRPayload) (l : Option ListExt) : ListRules := l.bind slot

/-- `buildSchema`: message / enum / scalar dispatch on the proto kind -/
def buildSchema (kind : ProtoKind) (ext : Exts) (psm : Option PsmKey) : Outcome Schema :=
  match kind with
  | .string => buildFromStringProto ext psm
  | .bool =>
    let rules : Option BoolRules :=
      match ext.itemC with
      | some (.bool (some k)) => some { const := some k }
      | _ => none
    .ok (.bool rules (listPayload (fun | .bool p => some p | _ => none) ext.list))
  | .int fmt =>
    let rules : Option IntRules :=
      match ext.itemC with
      | some (.int f ub lb) => if f = fmt then some (readIntRules (mapUB (readCast fmt) ub) (mapLB (readCast fmt) lb)) else none
      | _ => none
    .ok (.integer fmt rules (listPayload (fun | .int f p => if f = fmt then some p else none | _ => none) ext.list))
  | .float => .ok (.float false (listPayload (fun | .float p => some p | _ => none) ext.list))
  | .double => .ok (.float true (listPayload (fun | .double p => some p | _ => none) ext.list))
  | .bytes =>
    let rules : BytesRules :=
      match ext.itemC with
      | some (.bytes mn mx) => { minLength := mn, maxLength := mx }
      | _ => {}
    .ok (.bytes (some rules))
  | .enum decl =>
    match buildEnum decl.values decl.comments with
    | .err t => .err t
    | .panic w => .panic w
    | .ok er =>
      let lr := listPayload (fun | .enum p => some p | _ => none) ext.list
      match ext.itemC with
      | some (.enum _ inn notIn) =>
        (match namesOf er.options inn with
         | .err t => .err t
         | .panic w => .panic w
         | .ok a =>
           match namesOfNotIn er.options notIn with
           | .err t => .err t
           | .panic w => .panic w
           | .ok b => .ok (.enum (readDecl decl.name decl.description er) (some { inn := a, notIn := b }) lr))
      | _ => .ok (.enum (readDecl decl.name decl.description er) none lr)
  | .message m =>
    let flatten : Bool := match ext.j5 with | some (.object f) => f | _ => false
    match m with
    | .timestamp =>
      let hasRules := match ext.itemC with | some .timestamp => true | _ => false
      .ok (.timestamp hasRules (listPayload (fun | .timestamp p => some p | _ => none) ext.list))
    | .date =>
      let rules : Option TextBoundRules := match ext.j5 with | some (.date r) => some r | _ => none
      .ok (.date rules (listPayload (fun | .date p => some p | _ => none) ext.list))
    | .decimal =>
      let rules : Option TextBoundRules := match ext.j5 with | some (.decimal r) => some r | _ => none
      .ok (.decimal rules (listPayload (fun | .decimal p => some p | _ => none) ext.list))
    | .any =>
      let (od, types) : Bool × List String := match ext.j5 with | some (.any od ts) => (od, ts) | _ => (false, [])
      .ok (.any od types (listPayload (fun | .any p => some p | _ => none) ext.list))
    | .oneof name => .ok (.oneof name false (listPayload (fun | .oneof p => some p | _ => none) ext.list))
    | .object name => .ok (.object name flatten false)

/-- `getProtoFieldExtensions`: a missing validate annotation reads as an empty one -/
def topExts (a : Annot) : Exts :=
  { validate := some (a.validate.getD {}), list := a.list, j5 := a.j5 }

/-- one field of `messageProperties` -/
def readField (a : Annot) : Outcome Property :=
  let ext := topExts a
  let required := (match ext.validate with | some c => c.required == some true | none => false)
  if a.repeated then
    let sf : Option String := match a.j5 with | some (.array sf) => sf | _ => none
    let (rules, childValidate) : Option ArrayRules × Option FieldC :=
      match ext.repeatedC with
      | some r => (some { minItems := r.minItems, maxItems := r.maxItems, uniqueItems := r.unique },
                   r.items.map fun c => { required := none, typ := .item c })
      | none => (none, none)
    match buildSchema a.kind { validate := childValidate, list := a.list, j5 := none } a.psmKey with
    | .err t => .err t
    | .panic w => .panic w
    | .ok s =>
      .ok { name := a.jsonName, number := a.number, description := a.description,
            required := required, explicitlyOptional := false, schema := .array s rules sf }
  else if a.isMap then
    let sf : Option String := match a.j5 with | some (.map sf) => sf | _ => none
    let (rules, childValidate) : Option MapRules × Option FieldC :=
      match ext.mapC with
      | some m => (some { minPairs := m.minPairs, maxPairs := m.maxPairs },
                   m.values.map fun c => { required := none, typ := .item c })
      | none => (none, none)
    -- `buildSchema(childContext, field.MapValue(), childExt)`: no list rules, no j5 annotation
    match buildSchema a.kind { validate := childValidate, list := none, j5 := none } a.psmKey with
    | .err t => .err t
    | .panic w => .panic w
    | .ok s =>
      .ok { name := a.jsonName, number := a.number, description := a.description,
            required := required, explicitlyOptional := false, schema := .map s rules sf }
  else
    match buildSchema a.kind ext a.psmKey with
    | .err t => .err t
    | .panic w => .panic w
    | .ok s =>
      .ok { name := a.jsonName, number := a.number, description := a.description,
            required := required, explicitlyOptional := !required && a.proto3Optional, schema := .single s }

end J5V.Rules
