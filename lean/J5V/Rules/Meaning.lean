import J5V.Rules.Compile
import J5V.Rules.Validate
/-!
# What the j5s rules mean (`j5Accepts`) and which declarations are admissible (`WFRules`)

Written from the rule field names and comments of `proto/j5/j5/schema/v1/schema.proto`
(`minimum` / `maximum` with `exclusive_*` flags in the JSON-Schema sense the swagger export and the
repo's own reader test assume; `min_length` etc.; `KeyFormat`; `EnumField.Rules.in / not_in`;
`ArrayField.Rules`) and README ("a primary key is always required").
Independent of the compiler: nothing here mentions lt/lte/gt/gte or protovalidate.
-/
namespace J5V.Rules

/-- numbers of the declared enum options: declaration order from 1, `UNSPECIFIED` = 0 -/
def EnumDecl.defined (e : EnumDecl) : List Int := e.values.map (·.2)

/-- the number a rule name denotes (names may be written with or without the enum prefix) -/
def EnumDecl.numberOf (e : EnumDecl) (name : String) : Option Int :=
  lookupName e.valMap (addPrefix e.pfx name)

def intOk (r : IntRules) (v : Int) : Bool :=
  optAll r.minimum (fun m => if r.exclusiveMinimum == some true then decide (m < v) else decide (m ≤ v)) &&
  optAll r.maximum (fun m => if r.exclusiveMaximum == some true then decide (v < m) else decide (v ≤ m))

/-- does one value satisfy the rules of the (item) schema? -/
def j5Item (M : Matcher) (s : Schema) (v : Scalar) : Bool :=
  match s, v with
  | .string _ rules _, .str x =>
    optAll rules fun r =>
      optAll r.minLength (fun n => decide (n ≤ x.length)) &&
      optAll r.maxLength (fun n => decide (x.length ≤ n)) &&
      optAll r.pattern (fun p => M.run p x)
  | .integer _ rules _, .int n => optAll rules fun r => intOk r n
  | .bool rules _, .bool b => optAll rules fun r => optAll r.const (fun k => k == b)
  | .bytes rules, .bytes b =>
    optAll rules fun r =>
      optAll r.minLength (fun n => decide (n ≤ b.length)) && optAll r.maxLength (fun n => decide (b.length ≤ n))
  | .key format _ _, .str x =>
    (match format with
     | none => true
     | some .informal => true
     | some .id62 => id62Shape x
     | some .uuid => uuidShape x
     | some (.custom p) => M.run p x)
  | .enum decl rules _, .enum n =>
    decl.defined.contains n &&
    optAll rules fun r =>
      (r.inn.isEmpty || r.inn.any (fun name => decl.numberOf name == some n)) &&
      !r.notIn.any (fun name => decl.numberOf name == some n)
  | .float _ _, .float _ => true
  | s, .msg => s.isMessage
  | _, _ => false

def Property.primaryKey (p : Property) : Bool :=
  match p.schema with
  | .map _ _ _ => false     -- values of a map are not the field's own key
  | _ =>
    match p.schema.item with
    | .key _ (some e) _ => (match e.typ with | .primary b => b | _ => false)
    | _ => false

/-- required as declared; a primary key is always required -/
def Property.effRequired (p : Property) : Bool := p.required || p.primaryKey

/-- whether the compiled field distinguishes "unset" from "zero". Message fields do; plain scalars
and arrays do not. For `? type` it depends on a fact about the compiler, `optPres`: since c0f36ba the
compiler adds the synthetic oneof of a proto3 `optional` field, so the linked field has presence
(`optPres = true`); before, `proto3_optional` was set without it (`optPres = false`, fixed finding
`optional-field-without-presence`). The harness measures the fact on the real compiler and ships
it with every op; every theorem holds for both values. -/
def Property.hasPresence (p : Property) (optPres : Bool) : Bool :=
  match p.schema with
  | .single s => s.isMessage || (optPres && p.explicitlyOptional)
  | .array _ _ _ => false
  | .map _ _ _ => false

/-- what the declaration says: `? type` (explicitlyOptional) makes absence distinguishable -/
def Property.declaredPresence (p : Property) : Bool :=
  match p.schema with
  | .single s => s.isMessage || p.explicitlyOptional
  | .array _ _ _ => false
  | .map _ _ _ => false

/-- the meaning of the whole declaration for one candidate field value -/
def j5Accepts (M : Matcher) (optPres : Bool) (p : Property) (v : FieldVal) : Bool :=
  match p.schema, v with
  | .single _, .absent => !p.effRequired
  | .single s, .single x =>
    -- without presence the zero value is "not there"
    (!p.effRequired || p.hasPresence optPres || !x.isZero) && j5Item M s x
  | .array s rules _, .list xs =>
    (!p.effRequired || !xs.isEmpty) &&
    optAll rules (fun r =>
      optAll r.minItems (fun n => decide (n ≤ xs.length)) &&
      optAll r.maxItems (fun n => decide (xs.length ≤ n)) &&
      (!(r.uniqueItems == some true) || allDistinct xs)) &&
    xs.all (j5Item M s)
  -- a map value is given by the list of its values (keys are plain strings without rules)
  | .map s rules _, .list xs =>
    (!p.effRequired || !xs.isEmpty) &&
    optAll rules (fun r =>
      optAll r.minPairs (fun n => decide (n ≤ xs.length)) &&
      optAll r.maxPairs (fun n => decide (xs.length ≤ n))) &&
    xs.all (j5Item M s)
  | _, _ => false

/-! ## typing of candidate values -/

def Scalar.hasKind : Scalar → Schema → Bool
  | .str _, .string _ _ _ => true
  | .str _, .key _ _ _ => true
  | .int n, .integer f _ _ => f.inRange n
  | .bool _, .bool _ _ => true
  | .bytes _, .bytes _ => true
  | .enum _, .enum _ _ _ => true
  | .float _, .float _ _ => true
  | .msg, s => s.isMessage
  | _, _ => false

/-- a message of the compiled type: `.absent` only where the field has presence -/
def WellTyped (optPres : Bool) (p : Property) (v : FieldVal) : Bool :=
  match p.schema, v with
  | .single _, .absent => p.hasPresence optPres
  | .single s, .single x => x.hasKind s
  | .array s _ _, .list xs => xs.all (·.hasKind s)
  | .map s _ _, .list xs => xs.all (·.hasKind s)
  | _, _ => false

/-! ## admissible declarations -/

def intRulesWF (fmt : IntFormat) (r : IntRules) : Bool :=
  -- bounds representable in the field's type (the Go casts are then lossless)
  optAll r.minimum fmt.inRange && optAll r.maximum fmt.inRange &&
  -- an exclusive flag only together with its bound
  (r.exclusiveMinimum.isNone || r.minimum.isSome) && (r.exclusiveMaximum.isNone || r.maximum.isSome) &&
  -- lower bound not above upper bound (protovalidate gives reversed bounds another meaning)
  (match r.minimum, r.maximum with
   | some a, some b => decide (a ≤ b)
   | _, _ => true)

def enumRulesWF (decl : EnumDecl) (r : EnumRules) : Bool :=
  r.inn.all (fun n => (decl.numberOf n).isSome) && r.notIn.all (fun n => (decl.numberOf n).isSome)

/-- the default filters of an enum field's list rules name options of the enum (the compiler
rejects the declaration otherwise; same spellings as in / notIn) -/
def enumFiltersWF (decl : EnumDecl) (lr : ListRules) : Bool :=
  (lrDefaultFilters lr).all (fun n => (decl.numberOf n).isSome)

def schemaWF : Schema → Bool
  | .integer fmt (some r) _ => intRulesWF fmt r
  | .enum decl rules lr =>
    (match rules with
     | some r => enumRulesWF decl r
     | none => true) && enumFiltersWF decl lr
  | _ => true

/-- The declarations C12 quantifies over. -/
def WFRules (p : Property) : Bool :=
  schemaWF p.schema.item &&
  !(p.explicitlyOptional && p.effRequired) &&
  (match p.schema with
   | .array s (some r) _ => !(r.uniqueItems == some true && s.isMessage) && !p.explicitlyOptional
   | .array _ none _ => !p.explicitlyOptional
   | .map _ _ _ => !p.explicitlyOptional
   | _ => true)

end J5V.Rules
