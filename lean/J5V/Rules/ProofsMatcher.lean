import J5V.Rules.Wire
/-!
# The driver's matcher implements the published id62 pattern

`Wire.smallMatcher` (the regex class used by the correspondence runs) satisfies the hypothesis
`MatcherOK` of the C12 theorems: on `^[0-9A-Za-z]{22}$` it decides exactly `id62Shape`.
-/
namespace J5V.Rules.Wire
open J5V.Rules

def id62Re : SmallRe :=
  { anchorL := true, anchorR := true, isClass := true, lit := [],
    ranges := [('0', '9'), ('A', 'Z'), ('a', 'z')], min := 22, max := some 22 }

theorem parse_id62 : parseSmallRe id62Pattern = some id62Re := by decide

theorem runLen_eq_length (re : SmallRe) (s : List Char) : (runLen re s == s.length) = s.all re.inClass := by
  induction s with
  | nil => rfl
  | cons c rest ih =>
    simp only [runLen, List.length_cons, List.all_cons]
    cases h : re.inClass c
    · simp
    · simp only [if_true, Bool.true_and, ← ih]
      cases h2 : (runLen re rest == rest.length) <;> simp_all <;> omega

theorem char_le_iff (a b : Char) : a ≤ b ↔ a.toNat ≤ b.toNat := by
  rw [Char.le_def, UInt32.le_iff_toNat_le]; rfl

theorem inClass_id62 (c : Char) : id62Re.inClass c = isAlnumChar c := by
  simp only [SmallRe.inClass, id62Re, List.any_cons, List.any_nil, Bool.or_false, isAlnumChar, char_le_iff]
  have h0 : ('0' : Char).toNat = 48 := by decide
  have h9 : ('9' : Char).toNat = 57 := by decide
  have hA : ('A' : Char).toNat = 65 := by decide
  have hZ : ('Z' : Char).toNat = 90 := by decide
  have ha : ('a' : Char).toNat = 97 := by decide
  have hz : ('z' : Char).toNat = 122 := by decide
  simp only [h0, h9, hA, hZ, ha, hz, ge_iff_le]
  cases h1 : decide (48 ≤ c.toNat) <;> cases h2 : decide (c.toNat ≤ 57) <;>
  cases h3 : decide (65 ≤ c.toNat) <;> cases h4 : decide (c.toNat ≤ 90) <;>
  cases h5 : decide (97 ≤ c.toNat) <;> cases h6 : decide (c.toNat ≤ 122) <;> simp_all

/-- the driver's matcher implements the published id62 pattern: it satisfies the hypothesis of C12 -/
theorem smallMatcher_id62 (x : List Char) : smallMatcher.run id62Pattern x = id62Shape x := by
  simp only [smallMatcher, parse_id62, SmallRe.matches, id62Re, Bool.not_true, Bool.false_eq_true, if_false]
  have := runLen_eq_length id62Re x
  simp only [id62Re] at this
  rw [this]
  have hc : x.all (SmallRe.inClass id62Re) = x.all isAlnumChar := by
    congr 1; funext c; exact inClass_id62 c
  simp only [id62Re] at hc
  rw [hc, id62Shape]
  cases h : x.all isAlnumChar <;> simp
  rw [Bool.eq_iff_iff]
  simp only [Bool.and_eq_true, decide_eq_true_eq, beq_iff_eq]
  omega

end J5V.Rules.Wire
