import J5V.Rules.Norm
import J5V.Rules.ProofsC12
/-!
# Lemmas for C04 (schema round-trip)
-/
namespace J5V.Rules
open J5V.Go

/-- the extension set the reader sees for the item type: the validate constraint `vo` (the item
constraint, or an empty constraint when only `required` was set), the list annotation, and the
j5 annotation (`none` for array items: the array annotation replaced it). -/
def extsOf (a : ItemAnnot) (r : Option Bool) (vo : Option ItemC) (j : Option J5Ext) : Exts :=
  { validate := vo.map fun ic => { required := r, typ := .item ic }, list := a.list, j5 := j }

@[simp] theorem list_extsOf (a : ItemAnnot) (r : Option Bool) (vo : Option ItemC) (j : Option J5Ext) :
    (extsOf a r vo j).list = a.list := rfl

@[simp] theorem j5_extsOf (a : ItemAnnot) (r : Option Bool) (vo : Option ItemC) (j : Option J5Ext) :
    (extsOf a r vo j).j5 = j := rfl

@[simp] theorem itemC_extsOf (a : ItemAnnot) (r : Option Bool) (vo : Option ItemC) (j : Option J5Ext) :
    (extsOf a r vo j).itemC = vo := by
  cases vo <;> rfl

@[simp] theorem hasType_extsOf (a : ItemAnnot) (r : Option Bool) (vo : Option ItemC) (j : Option J5Ext) :
    (extsOf a r vo j).hasType = (match vo with | some .none => false | some _ => true | none => false) := by
  cases vo with
  | none => rfl
  | some ic => cases ic <;> rfl

def ubOf (r : IntRules) : UpperB :=
  match r.maximum with
  | none => .none
  | some m => if r.exclusiveMaximum = some true then .lt m else .lte m

def lbOf (r : IntRules) : LowerB :=
  match r.minimum with
  | none => .none
  | some m => if r.exclusiveMinimum = some true then .gt m else .gte m

theorem compileInt_closed (fmt : IntFormat) (r : IntRules) (h : intRulesWF fmt r = true) :
    compileInt fmt r = .ok (.int fmt (ubOf r) (lbOf r)) := by
  obtain ⟨mn, mx, emn, emx⟩ := r
  simp only [intRulesWF, Bool.and_eq_true, Bool.or_eq_true] at h
  obtain ⟨⟨⟨⟨hmn, hmx⟩, he1⟩, he2⟩, _⟩ := h
  have c1 : ∀ m, mn = some m → castTo fmt m = m := by
    intro m hm; subst hm; exact castTo_inRange fmt m (by simpa [optAll] using hmn)
  have c2 : ∀ m, mx = some m → castTo fmt m = m := by
    intro m hm; subst hm; exact castTo_inRange fmt m (by simpa [optAll] using hmx)
  have hf1 := boundFits_of_inRange fmt mn hmn
  have hf2 := boundFits_of_inRange fmt mx hmx
  cases mn <;> cases mx <;> cases emn <;> cases emx <;> simp_all [compileInt, ubOf, lbOf]

theorem readCast_id (fmt : IntFormat) (m : Int) (h : int64Range m = true) (h2 : fmt.inRange m = true) :
    readCast fmt m = m := by
  cases fmt <;> simp only [readCast]
  rw [inRange_iff] at h2
  simp only [IntFormat.lo, IntFormat.hi] at h2
  simp only [int64Range, Bool.and_eq_true, decide_eq_true_eq] at h
  simp only [wrapSigned]
  split <;> omega

theorem readInt_closed (fmt : IntFormat) (r : IntRules) (h : intRulesWF fmt r = true)
    (h1 : optAll r.minimum int64Range = true) (h2 : optAll r.maximum int64Range = true) :
    readIntRules (mapUB (readCast fmt) (ubOf r)) (mapLB (readCast fmt) (lbOf r)) = normIntRules r := by
  obtain ⟨mn, mx, emn, emx⟩ := r
  simp only [intRulesWF, Bool.and_eq_true, Bool.or_eq_true] at h
  obtain ⟨⟨⟨⟨hmn, hmx⟩, he1⟩, he2⟩, _⟩ := h
  have c1 : ∀ m, mn = some m → readCast fmt m = m := by
    intro m hm; subst hm; exact readCast_id fmt m (by simpa [optAll] using h1) (by simpa [optAll] using hmn)
  have c2 : ∀ m, mx = some m → readCast fmt m = m := by
    intro m hm; subst hm; exact readCast_id fmt m (by simpa [optAll] using h2) (by simpa [optAll] using hmx)
  cases mn <;> cases mx <;> (rcases emn with _ | _ | _) <;> (rcases emx with _ | _ | _) <;>
    simp_all [ubOf, lbOf, mapUB, mapLB, readIntRules, normIntRules, normExcl]


/-! ## strings, enum names -/

theorem hasPrefix_append (pre s : String) : hasPrefix pre (pre ++ s) = true := by
  simp [hasPrefix, String.toList_append]
theorem trimPrefix_append (pre s : String) : trimPrefix pre (pre ++ s) = s := by
  simp only [trimPrefix, hasPrefix_append, String.toList_append, if_true]
  rw [← String.length_toList, List.drop_left, String.ofList_toList]
theorem hasSuffix_append (pre suf : String) : hasSuffix suf (pre ++ suf) = true := by
  simp [hasSuffix, String.toList_append]
theorem trimSuffix_append (pre suf : String) : trimSuffix suf (pre ++ suf) = pre := by
  simp only [trimSuffix, hasSuffix_append, String.toList_append, if_true, String.length_append, Nat.add_sub_cancel]
  rw [← String.length_toList, List.take_left, String.ofList_toList]

theorem lookupName_cons (n : String) (k : Int) (tl : List (String × Int)) (x : String) :
    lookupName ((n, k) :: tl) x = if n == x then some k else lookupName tl x := by
  simp only [lookupName, List.find?_cons]
  cases h : (n == x) <;> simp

theorem optionByNumber_cons (n : String) (k : Int) (tl : List (String × Int)) (v : Int) :
    optionByNumber ((n, k) :: tl) v = if k == v then some n else optionByNumber tl v := by
  simp only [optionByNumber, List.find?_cons]
  cases h : (k == v) <;> simp

theorem lookup_numberFrom_ge (pre x : String) : ∀ (opts : List String) (k : Nat) (v : Int),
    lookupName (numberFrom pre k opts) x = some v → (k : Int) ≤ v := by
  intro opts
  induction opts with
  | nil => intro k v h; simp [numberFrom, lookupName] at h
  | cons o rest ih =>
    intro k v h
    simp only [numberFrom, lookupName_cons] at h
    split at h
    · cases h; exact Int.le_refl _
    · have := ih (k + 1) v h
      omega

theorem byNumber_numberFrom (pre x : String) (f : String → String) : ∀ (opts : List String) (k : Nat) (v : Int),
    lookupName (numberFrom pre k opts) x = some v →
    optionByNumber ((numberFrom pre k opts).map fun nk => (f nk.1, nk.2)) v = some (f x) := by
  intro opts
  induction opts with
  | nil => intro k v h; simp [numberFrom, lookupName] at h
  | cons o rest ih =>
    intro k v h
    simp only [numberFrom, lookupName_cons] at h
    simp only [numberFrom, List.map_cons, optionByNumber_cons]
    split at h
    · rename_i heq
      cases h
      have : addPrefix pre o = x := by simpa using heq
      simp [this]
    · have hge := lookup_numberFrom_ge pre x rest (k + 1) v h
      have hne : ((k : Int) == v) = false := by
        simp only [beq_eq_false_iff_ne, ne_eq]; omega
      simp only [hne, Bool.false_eq_true, if_false]
      exact ih (k + 1) v h

theorem eq_append_of_hasPrefix (pre o : String) (h : hasPrefix pre o = true) :
    o = pre ++ String.ofList (o.toList.drop pre.length) := by
  unfold hasPrefix at h
  obtain ⟨t, ht⟩ := List.isPrefixOf_iff_prefix.mp h
  apply String.toList_inj.mp
  rw [String.toList_append, String.toList_ofList, ← String.length_toList, ← ht, List.drop_left]

/-- an explicit `UNSPECIFIED` (with or without the prefix) is named exactly like the implicit one -/
theorem addPrefix_unspecified (pre o : String) (h : trimPrefix pre o = "UNSPECIFIED") :
    addPrefix pre o = pre ++ "UNSPECIFIED" := by
  unfold trimPrefix at h
  unfold addPrefix
  by_cases hp : hasPrefix pre o = true
  · rw [if_pos hp] at h ⊢
    have := eq_append_of_hasPrefix pre o hp
    rw [h] at this
    exact this
  · rw [if_neg hp] at h ⊢
    rw [h]

/-- the compiled values of any enum declaration: the zero value, then the declared options
(without an explicit leading UNSPECIFIED) numbered from 1 -/
theorem values_general (d : EnumDecl) :
    d.values = (d.pfx ++ "UNSPECIFIED", 0) :: numberFrom d.pfx 1 d.rest := by
  obtain ⟨name, dp, dflt, opts, desc, descs⟩ := d
  cases opts with
  | nil => unfold EnumDecl.values EnumDecl.rest; simp [numberFrom]
  | cons o rest =>
    unfold EnumDecl.values EnumDecl.rest
    simp only
    by_cases h : (trimPrefix (EnumDecl.pfx ⟨name, dp, dflt, o :: rest, desc, descs⟩) o == "UNSPECIFIED") = true
    · rw [if_pos h, if_pos h, addPrefix_unspecified _ o (by simpa using h)]
    · rw [if_neg h, if_neg h]

theorem numberOf_read (d : EnumDecl) (n : String) (k : Int)
    (h : d.numberOf n = some k) :
    optionByNumber (d.values.map fun nk => (trimPrefix d.pfx nk.1, nk.2)) k = some (normEnumName d n) := by
  unfold EnumDecl.numberOf EnumDecl.valMap at h
  rw [values_general d] at h ⊢
  simp only [lookupName_cons] at h
  simp only [List.map_cons, optionByNumber_cons]
  unfold normEnumName
  split at h
  · rename_i heq
    cases h
    have : d.pfx ++ "UNSPECIFIED" = addPrefix d.pfx n := by simpa using heq
    rw [if_pos (by decide), this]
  · rename_i hne1
    have hge := lookup_numberFrom_ge d.pfx _ d.rest 1 k h
    have hne : ((0 : Int) == k) = false := by
      simp only [beq_eq_false_iff_ne, ne_eq]; omega
    simp only [hne, Bool.false_eq_true, if_false]
    exact byNumber_numberFrom d.pfx _ (trimPrefix d.pfx) d.rest 1 k h

/-! ### option descriptions: filed under the value's number, read by the value's index -/

theorem commentAt_nil (i : Nat) : commentAt [] i = "" := rfl

theorem commentAt_cons (k : Nat) (d : String) (tl : List (Nat × String)) (i : Nat) :
    commentAt ((k, d) :: tl) i = if k == i then d else commentAt tl i := by
  simp only [commentAt, List.find?_cons]
  cases h : (k == i) <;> simp

theorem commentAt_lt (l : List String) : ∀ (k i : Nat), i < k → commentAt (commentsFrom k l) i = "" := by
  induction l with
  | nil => intro k i _; rfl
  | cons d r ih =>
    intro k i h
    simp only [commentsFrom]
    by_cases hd : d = ""
    · simp only [hd, if_true, List.nil_append]
      exact ih (k + 1) i (by omega)
    · simp only [hd, if_false, List.cons_append, List.nil_append, commentAt_cons]
      have : (k == i) = false := by simp only [beq_eq_false_iff_ne, ne_eq]; omega
      simp only [this, Bool.false_eq_true, if_false]
      exact ih (k + 1) i (by omega)

/-- reading the comments back by index gives every option its own description -/
theorem map_commentAt (l : List String) : ∀ k : Nat,
    (List.range' k l.length).map (commentAt (commentsFrom k l)) = l := by
  induction l with
  | nil => intro k; rfl
  | cons d r ih =>
    intro k
    simp only [List.length_cons, List.range'_succ, List.map_cons]
    have hhead : commentAt (commentsFrom k (d :: r)) k = d := by
      simp only [commentsFrom]
      by_cases hd : d = ""
      · simp only [hd, if_true, List.nil_append]
        exact commentAt_lt r (k + 1) k (by omega)
      · simp only [hd, if_false, List.cons_append, List.nil_append, commentAt_cons, beq_self_eq_true, if_true]
    have htail : (List.range' (k + 1) r.length).map (commentAt (commentsFrom k (d :: r))) =
        (List.range' (k + 1) r.length).map (commentAt (commentsFrom (k + 1) r)) := by
      apply List.map_congr_left
      intro i hi
      have hge : k + 1 ≤ i := (List.mem_range'_1.mp hi).1
      simp only [commentsFrom]
      by_cases hd : d = ""
      · simp only [hd, if_true, List.nil_append]
      · simp only [hd, if_false, List.cons_append, List.nil_append, commentAt_cons]
        have : (k == i) = false := by simp only [beq_eq_false_iff_ne, ne_eq]; omega
        simp only [this, Bool.false_eq_true, if_false]
    rw [hhead, htail, ih (k + 1)]

theorem numberFrom_length (pre : String) (l : List String) : ∀ k, (numberFrom pre k l).length = l.length := by
  induction l with
  | nil => intro k; rfl
  | cons o r ih => intro k; simp [numberFrom, ih]

theorem optDescs_length (d : EnumDecl) : d.optDescs.length = d.options.length := by
  simp [EnumDecl.optDescs]

theorem rest_length (d : EnumDecl) :
    d.rest.length + (if d.isExplicit then 1 else 0) = d.options.length := by
  obtain ⟨name, dp, dflt, opts, desc, descs⟩ := d
  cases opts with
  | nil => simp [EnumDecl.rest, EnumDecl.isExplicit]
  | cons o r =>
    unfold EnumDecl.rest EnumDecl.isExplicit
    simp only
    split <;> simp_all

/-- the descriptions the reader finds for the compiled values are the declared ones -/
theorem descs_read (d : EnumDecl) :
    (List.range d.values.length).map (commentAt d.comments) = d.valueDescs := by
  have hl := rest_length d
  have ho := optDescs_length d
  rw [values_general d]
  simp only [List.length_cons, numberFrom_length]
  unfold EnumDecl.comments EnumDecl.valueDescs
  cases he : d.isExplicit with
  | true =>
    simp only [he, if_true] at hl ⊢
    have : d.rest.length + 1 = d.optDescs.length := by omega
    rw [this, List.range_eq_range', map_commentAt]
  | false =>
    simp only [he, Bool.false_eq_true, if_false, Nat.add_zero] at hl ⊢
    have : d.rest.length = d.optDescs.length := by omega
    rw [this, List.range_succ_eq_map, List.map_cons, List.map_map]
    have h0 : commentAt (commentsFrom 1 d.optDescs) 0 = "" := commentAt_lt _ 1 0 (by omega)
    rw [h0]
    have h1 := map_commentAt d.optDescs 1
    rw [List.range'_eq_map_range, List.map_map] at h1
    have h2 : (commentAt (commentsFrom 1 d.optDescs) ∘ fun x => 1 + x) =
        (commentAt (commentsFrom 1 d.optDescs) ∘ Nat.succ) := by
      funext x; simp [Function.comp_def, Nat.add_comm]
    rw [h2] at h1
    rw [h1]

theorem buildEnum_plain (d : EnumDecl) :
    buildEnum d.values d.comments = .ok { pfx := d.pfx, options := d.values.map fun nk => (trimPrefix d.pfx nk.1, nk.2),
                                           descs := d.valueDescs } := by
  have hd := descs_read d
  rw [values_general d] at hd ⊢
  simp only [buildEnum, hasSuffix_append, trimSuffix_append, Bool.not_true, Bool.false_eq_true, if_false, hd]

theorem readDecl_norm (d : EnumDecl) :
    readDecl d.name d.description { pfx := d.pfx, options := d.values.map fun nk => (trimPrefix d.pfx nk.1, nk.2),
                                    descs := d.valueDescs } = normDecl d := by
  simp [readDecl, normDecl, List.map_map, Function.comp_def]

theorem names_read (d : EnumDecl) (names : List String)
    (h : names.all (fun n => (d.numberOf n).isSome) = true) :
    ∃ a, mapValues d names = .ok a ∧
      namesOf (d.values.map fun nk => (trimPrefix d.pfx nk.1, nk.2)) a = .ok (names.map (normEnumName d)) ∧
      namesOfNotIn (d.values.map fun nk => (trimPrefix d.pfx nk.1, nk.2)) a = .ok (names.map (normEnumName d)) := by
  induction names with
  | nil => exact ⟨[], rfl, rfl, rfl⟩
  | cons x rest ih =>
    simp only [List.all_cons, Bool.and_eq_true] at h
    obtain ⟨hx, hrest⟩ := h
    obtain ⟨a, ha, h1, h2⟩ := ih hrest
    cases hv : d.numberOf x with
    | none => simp [hv] at hx
    | some v =>
      have hv' : lookupName d.valMap (addPrefix d.pfx x) = some v := hv
      have hr := numberOf_read d x v hv
      exact ⟨v :: a, by simp only [mapValues, hv', ha],
        by simp only [namesOf, hr, h1, List.map_cons],
        by simp only [namesOfNotIn, hr, h2, List.map_cons]⟩


/-! ## keys -/

theorem wk_id62 : wellKnownStringPattern id62Pattern = some "id62" := by decide

def slotOf : Option KeyFormat → FkSlot
  | some .id62 => .id62
  | some .uuid => .uuid
  | _ => .uniqueString

theorem keyListExt_ok (format : Option KeyFormat) (p : LRPayload) :
    keyListExt format p = .ok (.foreignKey (slotOf format) p) := by
  cases format with
  | none => rfl
  | some f => cases f <;> rfl

theorem buildField_key (format : Option KeyFormat) (entity : Option EntityKey) (lr : ListRules) :
    buildField (.key format entity lr) = .ok
      { kind := .string, j5 := some (.key (keyExtPattern format)),
        list := lr.map fun p => .foreignKey (slotOf format) p,
        psmKey := entity.map entityPsm,
        validate := format.map fun f => ItemC.string (keyStringC f) } := by
  cases lr with
  | none => rfl
  | some p => simp only [buildField, keyListExt_ok]; rfl

/-- a well-known pattern other than the id62 one leaves the key format alone -/
theorem wk_other (p : String) (f : String) (h : wellKnownStringPattern p = some f) (hp : p ≠ id62Pattern)
    (cur : Option KeyFormat) : keyFormatOfString f cur = cur := by
  unfold wellKnownStringPattern at h
  split at h
  · cases h; rfl
  · split at h
    · cases h; rfl
    · simp at h

theorem key_rt (inArray : Bool) (format : Option KeyFormat) (entity : Option EntityKey) (lr : ListRules)
    (hwf : schemaWFField inArray (.key format entity lr) = true)
    (r : Option Bool) (vo : Option ItemC) (j : Option J5Ext)
    (hvo : vo = (format.map fun f => ItemC.string (keyStringC f)) ∨ (format = none ∧ vo = some .none))
    (hj : j = if inArray then none else some (.key (keyExtPattern format))) :
    buildFromStringProto
      { validate := vo.map fun ic => { required := r, typ := .item ic },
        list := lr.map fun p => .foreignKey (slotOf format) p, j5 := j }
      (entity.map entityPsm) = .ok (normSchema inArray (.key format entity lr)) := by
  subst hj
  have hent : ∀ e : EntityKey,
      ({ tenantKey := (entityPsm e).tenantType,
         typ := if (entityPsm e).primaryKey then EntityKeyType.primary true
                else match (entityPsm e).foreignKey with | some r => .foreign r | none => .none } : EntityKey)
        = normEntity e := by
    intro e
    obtain ⟨t, tk⟩ := e
    cases t with
    | none => rfl
    | primary b => cases b <;> rfl
    | foreign r => rfl
  rcases hvo with hvo | ⟨h1, hvo⟩ <;> subst hvo
  · cases format with
    | none =>
      cases inArray <;> cases lr <;> cases entity <;>
        simp_all [buildFromStringProto, normSchema, normKeyFormat, slotOf, keyExtPattern, Exts.hasType, Exts.itemC,
          keyFormatOfString, schemaWFField] <;> (try exact hent _)
    | some f =>
      cases f with
      | informal =>
        cases inArray <;> cases lr <;> cases entity <;>
          simp_all [buildFromStringProto, normSchema, normKeyFormat, slotOf, keyExtPattern, Exts.hasType, Exts.itemC,
            keyFormatOfString, schemaWFField, keyStringC] <;> (try exact hent _)
      | uuid =>
        cases inArray <;> cases lr <;> cases entity <;>
          simp_all [buildFromStringProto, normSchema, normKeyFormat, slotOf, keyExtPattern, Exts.hasType, Exts.itemC,
            keyFormatOfString, schemaWFField, keyStringC] <;> (try exact hent _)
      | id62 =>
        cases inArray <;> cases lr <;> cases entity <;>
          simp_all [buildFromStringProto, normSchema, normKeyFormat, slotOf, keyExtPattern, Exts.hasType, Exts.itemC,
            keyFormatOfString, schemaWFField, keyStringC, wk_id62] <;> (try exact hent _)
      | custom p =>
        by_cases hp : p = id62Pattern
        · subst hp
          cases inArray <;> cases lr <;> cases entity <;>
            simp_all [buildFromStringProto, normSchema, normKeyFormat, slotOf, keyExtPattern, Exts.hasType, Exts.itemC,
              keyFormatOfString, schemaWFField, keyStringC, wk_id62] <;> (try exact hent _)
        · cases hwk : wellKnownStringPattern p with
          | none =>
            cases inArray <;> cases lr <;> cases entity <;>
              simp_all [buildFromStringProto, normSchema, normKeyFormat, slotOf, keyExtPattern, Exts.hasType, Exts.itemC,
                keyFormatOfString, schemaWFField, keyStringC] <;> (try exact hent _)
          | some f =>
            have hk := wk_other p f hwk hp
            cases inArray <;> cases lr <;> cases entity <;>
              simp_all [buildFromStringProto, normSchema, normKeyFormat, slotOf, keyExtPattern, Exts.hasType, Exts.itemC,
                schemaWFField, keyStringC, keyFormatOfString] <;> (try exact hent _)
  · subst h1
    cases inArray <;> cases lr <;> cases entity <;>
      simp_all [buildFromStringProto, normSchema, normKeyFormat, slotOf, keyExtPattern, Exts.hasType, Exts.itemC,
        keyFormatOfString, schemaWFField] <;> (try exact hent _)


/-! ## the item schema is read back in normal form -/

theorem buildSchema_rt (inArray : Bool) (s : Schema) (hwf : schemaWFField inArray s = true)
    (a : ItemAnnot) (ha : buildField s = .ok a) (r : Option Bool) (vo : Option ItemC) (j : Option J5Ext)
    (hvo : vo = a.validate ∨ (a.validate = none ∧ vo = some .none))
    (hj : j = if inArray then none else a.j5) :
    buildSchema a.kind (extsOf a r vo j) a.psmKey = .ok (normSchema inArray s) := by
  cases s with
  | float is64 lr =>
    simp only [buildField, Outcome.ok.injEq] at ha
    subst ha
    cases is64 <;> cases lr <;> simp [buildSchema, listPayload, normSchema]
  | bool rules lr =>
    simp only [buildField, Outcome.ok.injEq] at ha
    subst ha
    rcases hvo with hvo | ⟨h1, hvo⟩ <;> subst hvo
    · cases rules with
      | none => cases lr <;> simp [buildSchema, listPayload, normSchema]
      | some r =>
        obtain ⟨c⟩ := r
        cases c <;> cases lr <;> simp [buildSchema, listPayload, normSchema]
    · cases rules with
      | none => cases lr <;> simp [buildSchema, listPayload, normSchema]
      | some r => simp at h1
  | bytes rules =>
    simp only [buildField, Outcome.ok.injEq] at ha
    subst ha
    rcases hvo with hvo | ⟨h1, hvo⟩ <;> subst hvo
    · cases rules <;> simp [buildSchema, normSchema]
    · cases rules with
      | none => simp [buildSchema, normSchema]
      | some r => simp at h1
  | date rules lr =>
    simp only [buildField, Outcome.ok.injEq] at ha
    subst ha
    subst hj
    cases inArray <;> cases rules <;> cases lr <;> simp_all [buildSchema, listPayload, normSchema, schemaWFField]
  | decimal rules lr =>
    simp only [buildField, Outcome.ok.injEq] at ha
    subst ha
    subst hj
    cases inArray <;> cases rules <;> cases lr <;> simp_all [buildSchema, listPayload, normSchema, schemaWFField]
  | timestamp hasRules lr =>
    simp only [buildField, Outcome.ok.injEq] at ha
    subst ha
    rcases hvo with hvo | ⟨h1, hvo⟩ <;> subst hvo
    · cases hasRules <;> cases lr <;> simp [buildSchema, listPayload, normSchema]
    · cases hasRules <;> cases lr <;> simp_all [buildSchema, listPayload, normSchema]
  | oneof ref hasRules lr =>
    simp only [buildField, Outcome.ok.injEq] at ha
    subst ha
    cases lr <;> simp [buildSchema, listPayload, normSchema]
  | object ref flatten hasRules =>
    simp only [buildField, Outcome.ok.injEq] at ha
    subst ha
    subst hj
    cases inArray <;> simp_all [buildSchema, normSchema, schemaWFField]
  | any od types lr =>
    simp only [buildField, Outcome.ok.injEq] at ha
    subst ha
    subst hj
    cases inArray <;> cases lr <;> simp_all [buildSchema, listPayload, normSchema, schemaWFField]
  | integer fmt rules lr =>
    cases rules with
    | none =>
      simp only [buildField, Outcome.ok.injEq] at ha
      subst ha
      rcases hvo with hvo | ⟨h1, hvo⟩ <;> subst hvo <;> cases lr <;> simp [buildSchema, listPayload, normSchema]
    | some ir =>
      simp only [schemaWFField, Bool.and_eq_true] at hwf
      obtain ⟨⟨hw, h1⟩, h2⟩ := hwf
      simp only [buildField, compileInt_closed fmt ir hw, Outcome.ok.injEq] at ha
      subst ha
      rcases hvo with hvo | ⟨h1', hvo⟩ <;> subst hvo
      · cases lr <;> simp [buildSchema, listPayload, normSchema, readInt_closed fmt ir hw h1 h2]
      · simp at h1'
  | string fmt rules lr =>
    simp only [buildField, Outcome.ok.injEq] at ha
    subst ha
    subst hj
    simp only [schemaWFField, Bool.and_eq_true, Option.isNone_iff_eq_none] at hwf
    obtain ⟨hf, hp⟩ := hwf
    subst hf
    rcases hvo with hvo | ⟨h1, hvo⟩ <;> subst hvo
    · cases rules with
      | none => cases inArray <;> cases lr <;> simp [buildSchema, buildFromStringProto, normSchema]
      | some sr =>
        obtain ⟨mn, mx, pat⟩ := sr
        cases pat with
        | none => cases inArray <;> cases lr <;> simp [buildSchema, buildFromStringProto, normSchema]
        | some p =>
          cases inArray with
          | false => cases lr <;> simp [buildSchema, buildFromStringProto, normSchema]
          | true =>
            have hwk : wellKnownStringPattern p = none := by simpa using hp
            cases lr <;> simp [buildSchema, buildFromStringProto, normSchema, hwk]
    · cases rules with
      | none => cases inArray <;> cases lr <;> simp [buildSchema, buildFromStringProto, normSchema]
      | some sr => simp at h1
  | key format entity lr =>
    rw [buildField_key] at ha
    simp only [Outcome.ok.injEq] at ha
    subst ha
    exact key_rt inArray format entity lr hwf r vo j
      (by rcases hvo with h | ⟨h1, h2⟩
          · exact Or.inl h
          · refine Or.inr ⟨?_, h2⟩
            cases format <;> simp_all)
      hj
  | enum d rules lr =>
    simp only [schemaWFField, Bool.and_eq_true] at hwf
    obtain ⟨hr, hf⟩ := hwf
    obtain ⟨f, hfv, _, _⟩ := mapValues_ok d (lrDefaultFilters lr) hf
    cases rules with
    | none =>
      simp only [buildField, mapValues, hfv, Outcome.ok.injEq] at ha
      subst ha
      rcases hvo with hvo | ⟨h1, hvo⟩
      · subst hvo
        cases lr <;>
          simp [buildSchema, buildEnum_plain d, readDecl_norm, namesOf, namesOfNotIn, listPayload, normSchema]
      · simp at h1
    | some er =>
      simp only [enumRulesWF, Bool.and_eq_true] at hr
      obtain ⟨a1, ha1, hn1, _⟩ := names_read d er.inn hr.1
      obtain ⟨a2, ha2, _, hn2⟩ := names_read d er.notIn hr.2
      simp only [buildField, ha1, ha2, hfv, Outcome.ok.injEq] at ha
      subst ha
      rcases hvo with hvo | ⟨h1, hvo⟩
      · subst hvo
        cases lr <;>
          simp [buildSchema, buildEnum_plain d, readDecl_norm, hn1, hn2, listPayload, normSchema]
      · simp at h1

/-! ## field level -/

theorem schemaWF_of_field (b : Bool) (s : Schema) (h : schemaWFField b s = true) : schemaWF s = true := by
  cases s with
  | integer fmt rules lr =>
    cases rules with
    | none => rfl
    | some r => simp only [schemaWFField, Bool.and_eq_true] at h; exact h.1.1
  | enum d rules lr =>
    simp only [schemaWFField, Bool.and_eq_true] at h
    simp only [schemaWF, Bool.and_eq_true]
    exact h
  | _ => rfl

def dummyMatcher : Matcher := ⟨fun p x => if p = id62Pattern then id62Shape x else false⟩

theorem buildField_ok (b : Bool) (s : Schema) (h : schemaWFField b s = true) :
    ∃ a, buildField s = .ok a ∧ psmPrimaryKey a.psmKey = schemaPrimary s := by
  obtain ⟨a, ha, hp, _⟩ := item_equiv dummyMatcher (by intro x; simp [dummyMatcher]) s (schemaWF_of_field b s h)
  exact ⟨a, ha, hp⟩

theorem hasItemConstraint_eq (s : Schema) (a : ItemAnnot) (ha : buildField s = .ok a) :
    hasItemConstraint s = a.validate.isSome := by
  cases s with
  | key format entity lr =>
    rw [buildField_key] at ha
    simp only [Outcome.ok.injEq] at ha
    subst ha
    cases format <;> rfl
  | integer fmt rules lr =>
    cases rules with
    | none => simp only [buildField, Outcome.ok.injEq] at ha; subst ha; rfl
    | some r =>
      simp only [buildField] at ha
      split at ha <;> simp_all [hasItemConstraint]
      subst ha; rfl
  | enum d rules lr =>
    simp only [buildField] at ha
    split at ha <;> try (simp at ha)
    split at ha <;> simp_all [hasItemConstraint]
    subst ha; rfl
  | string f rules lr => simp only [buildField, Outcome.ok.injEq] at ha; subst ha; cases rules <;> rfl
  | bool rules lr => simp only [buildField, Outcome.ok.injEq] at ha; subst ha; cases rules <;> rfl
  | bytes rules => simp only [buildField, Outcome.ok.injEq] at ha; subst ha; cases rules <;> rfl
  | float is64 lr => simp only [buildField, Outcome.ok.injEq] at ha; subst ha; rfl
  | object r f hr => simp only [buildField, Outcome.ok.injEq] at ha; subst ha; cases hr <;> rfl
  | oneof r hr lr => simp only [buildField, Outcome.ok.injEq] at ha; subst ha; cases hr <;> rfl
  | timestamp hr lr => simp only [buildField, Outcome.ok.injEq] at ha; subst ha; cases hr <;> rfl
  | date rules lr => simp only [buildField, Outcome.ok.injEq] at ha; subst ha; rfl
  | decimal rules lr => simp only [buildField, Outcome.ok.injEq] at ha; subst ha; rfl
  | any od t lr => simp only [buildField, Outcome.ok.injEq] at ha; subst ha; rfl

/-- without list rules on the (item) schema the writer emits no list annotation -/
theorem buildField_list_none (s : Schema) (a : ItemAnnot) (ha : buildField s = .ok a)
    (h : s.listRules = none) : a.list = none := by
  cases s with
  | key format entity lr =>
    rw [buildField_key] at ha
    simp only [Outcome.ok.injEq] at ha
    subst ha
    simp only [Schema.listRules] at h
    subst h; rfl
  | integer fmt rules lr =>
    simp only [Schema.listRules] at h
    subst h
    cases rules with
    | none => simp only [buildField, Outcome.ok.injEq] at ha; subst ha; rfl
    | some r =>
      simp only [buildField] at ha
      split at ha <;> simp_all
      subst ha; rfl
  | enum d rules lr =>
    simp only [Schema.listRules] at h
    subst h
    simp only [buildField] at ha
    split at ha <;> try (simp at ha)
    split at ha <;> simp_all
    subst ha; rfl
  | string f rules lr => simp only [Schema.listRules] at h; subst h; simp only [buildField, Outcome.ok.injEq] at ha; subst ha; rfl
  | bool rules lr => simp only [Schema.listRules] at h; subst h; simp only [buildField, Outcome.ok.injEq] at ha; subst ha; rfl
  | bytes rules => simp only [buildField, Outcome.ok.injEq] at ha; subst ha; rfl
  | float is64 lr => simp only [Schema.listRules] at h; subst h; simp only [buildField, Outcome.ok.injEq] at ha; subst ha; rfl
  | object r f hr => simp only [buildField, Outcome.ok.injEq] at ha; subst ha; rfl
  | oneof r hr lr => simp only [Schema.listRules] at h; subst h; simp only [buildField, Outcome.ok.injEq] at ha; subst ha; rfl
  | timestamp hr lr => simp only [Schema.listRules] at h; subst h; simp only [buildField, Outcome.ok.injEq] at ha; subst ha; rfl
  | date rules lr => simp only [Schema.listRules] at h; subst h; simp only [buildField, Outcome.ok.injEq] at ha; subst ha; rfl
  | decimal rules lr => simp only [Schema.listRules] at h; subst h; simp only [buildField, Outcome.ok.injEq] at ha; subst ha; rfl
  | any od t lr => simp only [Schema.listRules] at h; subst h; simp only [buildField, Outcome.ok.injEq] at ha; subst ha; rfl

theorem field_roundtrip (p : Property) (h : WFField p = true) : roundtrip p = .ok (normField p) := by
  simp only [WFField, Bool.and_eq_true, Bool.not_eq_true'] at h
  obtain ⟨⟨⟨hs, hml⟩, hnot⟩, harr⟩ := h
  obtain ⟨a, ha, hprim⟩ := buildField_ok _ _ hs
  have hreq : (p.required || (!p.schema.isMap && psmPrimaryKey a.psmKey)) = p.effRequired := by
    rw [hprim, ← primaryKey_eq]; rfl
  obtain ⟨name, num, req, opt, desc, schema⟩ := p
  cases schema with
  | single s =>
    simp only [FieldSchema.item, FieldSchema.isArray, FieldSchema.isMap, Bool.or_self, Bool.not_false,
      Bool.true_and] at hs ha hreq
    have hrt := fun r vo j hvo hj => buildSchema_rt false s hs a ha r vo j hvo hj
    simp only [roundtrip, writeField, FieldSchema.item, FieldSchema.isArray, FieldSchema.isMap, Bool.not_false,
      Bool.true_and, ha, hreq, hnot, readField, Bool.false_eq_true, if_false]
    cases hv : a.validate with
    | none =>
      cases hr : (Property.effRequired ⟨name, num, req, opt, desc, .single s⟩) with
      | false =>
        have := hrt none (some .none) a.j5 (Or.inr ⟨hv, rfl⟩) rfl
        simp only [extsOf, Option.map_some] at this
        simp [topExts, fieldValidate, hv, fieldJ5, this, normField, normFieldSchema, hr]
      | true =>
        have := hrt (some true) (some .none) a.j5 (Or.inr ⟨hv, rfl⟩) rfl
        simp only [extsOf, Option.map_some] at this
        have hopt : opt = false := by simp_all
        subst hopt
        simp [topExts, fieldValidate, hv, fieldJ5, setRequired, this, normField, normFieldSchema, hr]
    | some ic =>
      cases hr : (Property.effRequired ⟨name, num, req, opt, desc, .single s⟩) with
      | false =>
        have := hrt none (some ic) a.j5 (Or.inl hv.symm) rfl
        simp only [extsOf, Option.map_some] at this
        simp [topExts, fieldValidate, hv, fieldJ5, this, normField, normFieldSchema, hr]
      | true =>
        have := hrt (some true) (some ic) a.j5 (Or.inl hv.symm) rfl
        simp only [extsOf, Option.map_some] at this
        have hopt : opt = false := by simp_all
        subst hopt
        simp [topExts, fieldValidate, hv, fieldJ5, setRequired, this, normField, normFieldSchema, hr]
  | array s rules sf =>
    simp only [FieldSchema.item, FieldSchema.isArray, FieldSchema.isMap, Bool.or_false, Bool.not_false,
      Bool.true_and] at hs ha hreq harr
    have hopt : opt = false := by simpa using harr
    subst hopt
    have hic := hasItemConstraint_eq s a ha
    have hrt := fun r vo hvo => buildSchema_rt true s hs a ha r vo none hvo rfl
    simp only [roundtrip, writeField, FieldSchema.item, FieldSchema.isArray, FieldSchema.isMap, Bool.not_false,
      Bool.true_and, ha, hreq, readField, Bool.false_and, Bool.false_eq_true, if_false, if_true]
    cases hv : a.validate with
    | none =>
      have h0 := hrt none none (Or.inl hv.symm)
      simp only [extsOf, Option.map_none] at h0
      cases rules with
      | none =>
        cases hr : (Property.effRequired ⟨name, num, req, false, desc, .array s none sf⟩) <;>
          simp [topExts, fieldValidate, wrapArray, hv, fieldJ5, setRequired, Exts.repeatedC, h0, normField,
            normFieldSchema, hr, hic]
      | some ar =>
        cases hr : (Property.effRequired ⟨name, num, req, false, desc, .array s (some ar) sf⟩) <;>
          simp [topExts, fieldValidate, wrapArray, hv, fieldJ5, setRequired, Exts.repeatedC, h0, normField,
            normFieldSchema, hr, hic]
    | some ic =>
      have h0 := hrt none (some ic) (Or.inl hv.symm)
      simp only [extsOf, Option.map_some] at h0
      cases rules with
      | none =>
        cases hr : (Property.effRequired ⟨name, num, req, false, desc, .array s none sf⟩) <;>
          simp [topExts, fieldValidate, wrapArray, hv, fieldJ5, setRequired, Exts.repeatedC, h0, normField,
            normFieldSchema, hr, hic]
      | some ar =>
        cases hr : (Property.effRequired ⟨name, num, req, false, desc, .array s (some ar) sf⟩) <;>
          simp [topExts, fieldValidate, wrapArray, hv, fieldJ5, setRequired, Exts.repeatedC, h0, normField,
            normFieldSchema, hr, hic]
  | map s rules sf =>
    simp only [FieldSchema.item, FieldSchema.isArray, FieldSchema.isMap, Bool.false_or, Bool.true_and,
      Bool.not_true, Bool.false_and, Bool.or_false] at hs ha harr hml
    have hopt : opt = false := by simpa using harr
    subst hopt
    have hr : ∀ r' : Option MapRules, Property.effRequired ⟨name, num, req, false, desc, .map s r' sf⟩ = req := by
      intro r'; simp [Property.effRequired, Property.primaryKey]
    have hic := hasItemConstraint_eq s a ha
    have hl : a.list = none := buildField_list_none s a ha (by simpa using hml)
    have hrt := fun r vo hvo => buildSchema_rt true s hs a ha r vo none hvo rfl
    simp only [roundtrip, writeField, FieldSchema.item, FieldSchema.isArray, FieldSchema.isMap, Bool.not_true,
      Bool.false_and, Bool.or_false, ha, readField, Bool.false_eq_true, if_false, if_true]
    cases hv : a.validate with
    | none =>
      have h0 := hrt none none (Or.inl hv.symm)
      simp only [extsOf, Option.map_none, hl] at h0
      cases rules with
      | none =>
        cases req <;>
          simp [topExts, fieldValidate, wrapMap, hv, fieldJ5, setRequired, Exts.mapC, h0, normField,
            normFieldSchema, hr, hic]
      | some ar =>
        cases req <;>
          simp [topExts, fieldValidate, wrapMap, hv, fieldJ5, setRequired, Exts.mapC, h0, normField,
            normFieldSchema, hr, hic]
    | some ic =>
      have h0 := hrt none (some ic) (Or.inl hv.symm)
      simp only [extsOf, Option.map_some, hl] at h0
      cases rules with
      | none =>
        cases req <;>
          simp [topExts, fieldValidate, wrapMap, hv, fieldJ5, setRequired, Exts.mapC, h0, normField,
            normFieldSchema, hr, hic]
      | some ar =>
        cases req <;>
          simp [topExts, fieldValidate, wrapMap, hv, fieldJ5, setRequired, Exts.mapC, h0, normField,
            normFieldSchema, hr, hic]


/-! ## the normal form means the same -/

def Schema.isEnum : Schema → Bool
  | .enum _ _ _ => true
  | _ => false

theorem intOk_norm (r : IntRules) (v : Int) : intOk (normIntRules r) v = intOk r v := by
  obtain ⟨mn, mx, emn, emx⟩ := r
  cases mn <;> cases mx <;> (rcases emn with _ | _ | _) <;> (rcases emx with _ | _ | _) <;>
    simp [intOk, normIntRules, normExcl, optAll]

theorem j5Item_norm (M : Matcher) (hM : ∀ x, M.run id62Pattern x = id62Shape x) (s : Schema)
    (hne : s.isEnum = false) (b : Bool) (x : Scalar) : j5Item M (normSchema b s) x = j5Item M s x := by
  cases s with
  | enum d r lr => simp [Schema.isEnum] at hne
  | integer fmt rules lr =>
    cases x <;> cases rules <;> simp [normSchema, j5Item, optAll, intOk_norm, Schema.isMessage]
  | bool rules lr =>
    cases x <;> simp [normSchema, j5Item, optAll, Schema.isMessage]
    cases rules with
    | none => rfl
    | some r => obtain ⟨c⟩ := r; cases c <;> simp [optAll]
  | bytes rules =>
    cases x <;> cases rules <;> simp [normSchema, j5Item, optAll, Schema.isMessage]
  | key format entity lr =>
    cases x <;> simp [normSchema, j5Item, Schema.isMessage]
    cases format with
    | none => cases lr <;> simp [normKeyFormat]
    | some f =>
      cases f with
      | custom p =>
        by_cases hp : p = id62Pattern
        · subst hp; cases b <;> simp [normKeyFormat, hM]
        · simp [normKeyFormat, hp]
      | informal => cases lr <;> simp [normKeyFormat]
      | uuid => simp [normKeyFormat]
      | id62 => simp [normKeyFormat]
  | string f r lr => cases x <;> simp [normSchema, j5Item, Schema.isMessage]
  | float b lr => cases x <;> simp [normSchema, j5Item, Schema.isMessage]
  | object r f h => cases x <;> simp [normSchema, j5Item, Schema.isMessage]
  | oneof r h lr => cases x <;> simp [normSchema, j5Item, Schema.isMessage]
  | timestamp h lr => cases x <;> simp [normSchema, j5Item, Schema.isMessage]
  | date r lr => cases x <;> simp [normSchema, j5Item, Schema.isMessage]
  | decimal r lr => cases x <;> simp [normSchema, j5Item, Schema.isMessage]
  | any o t lr => cases x <;> simp [normSchema, j5Item, Schema.isMessage]

theorem isMessage_norm (b : Bool) (s : Schema) : (normSchema b s).isMessage = s.isMessage := by
  cases s <;> rfl

theorem primaryKey_norm (p : Property) : (normField p).primaryKey = p.primaryKey := by
  obtain ⟨name, num, req, opt, desc, schema⟩ := p
  cases schema with
  | single s =>
    cases s <;> try rfl
    rename_i f e lr
    cases e with
    | none => rfl
    | some e => obtain ⟨t, tk⟩ := e; cases t <;> try rfl
                rename_i b; cases b <;> rfl
  | array s r sf =>
    cases s <;> try rfl
    rename_i f e lr
    cases e with
    | none => rfl
    | some e => obtain ⟨t, tk⟩ := e; cases t <;> try rfl
                rename_i b; cases b <;> rfl
  | map s r sf => rfl

theorem j5Accepts_norm (M : Matcher) (hM : ∀ x, M.run id62Pattern x = id62Shape x) (optPres : Bool)
    (p : Property) (hne : p.schema.item.isEnum = false) (v : FieldVal) :
    j5Accepts M optPres (normField p) v = j5Accepts M optPres p v := by
  have hpk := primaryKey_norm p
  obtain ⟨name, num, req, opt, desc, schema⟩ := p
  have hreq : (normField ⟨name, num, req, opt, desc, schema⟩).effRequired =
      (Property.effRequired ⟨name, num, req, opt, desc, schema⟩) := by
    simp only [Property.effRequired, hpk]
    simp [normField, Property.effRequired]
  cases schema with
  | single s =>
    simp only [FieldSchema.item] at hne
    cases v with
    | absent => simp only [j5Accepts, normField, normFieldSchema] at hreq ⊢; simp [hreq]
    | single x =>
      have hi := j5Item_norm M hM s hne false x
      simp only [j5Accepts, normField, normFieldSchema, Property.hasPresence, isMessage_norm] at hreq ⊢
      simp [hreq, hi]
    | list xs => rfl
  | array s rules sf =>
    simp only [FieldSchema.item] at hne
    cases v with
    | absent => rfl
    | single x => rfl
    | list xs =>
      have hi : xs.all (j5Item M (normSchema true s)) = xs.all (j5Item M s) := by
        congr 1; funext x; exact j5Item_norm M hM s hne true x
      simp only [j5Accepts, normField, normFieldSchema] at hreq ⊢
      rw [hreq, hi]
      cases rules with
      | some r => rfl
      | none => cases hasItemConstraint s <;> simp [optAll]
  | map s rules sf =>
    simp only [FieldSchema.item] at hne
    cases v with
    | absent => rfl
    | single x => rfl
    | list xs =>
      have hi : xs.all (j5Item M (normSchema true s)) = xs.all (j5Item M s) := by
        congr 1; funext x; exact j5Item_norm M hM s hne true x
      simp only [j5Accepts, normField, normFieldSchema] at hreq ⊢
      rw [hreq, hi]
      cases rules with
      | some r => rfl
      | none => cases hasItemConstraint s <;> simp [optAll]


end J5V.Rules
