import J5V.Rules.Meaning
/-!
# Lemmas for C12 (validation equivalence)
-/
namespace J5V.Rules
open J5V.Go

/-! ## integer casts are lossless on in-range bounds -/

theorem inRange_iff (f : IntFormat) (v : Int) : f.inRange v = true ↔ f.lo ≤ v ∧ v ≤ f.hi := by
  unfold IntFormat.inRange
  simp only [Bool.and_eq_true, decide_eq_true_eq]

theorem castTo_inRange (f : IntFormat) (x : Int) (h : f.inRange x = true) : castTo f x = x := by
  rw [inRange_iff] at h
  cases f <;> simp only [IntFormat.lo, IntFormat.hi] at h <;> simp only [castTo, wrapSigned]
  · split <;> omega
  · omega
  · omega

theorem boundFits_of_inRange (f : IntFormat) (b : Option Int) (h : optAll b f.inRange = true) :
    boundFits f b = true := by
  cases b with
  | none => rfl
  | some v =>
    have hv : f.inRange v = true := by simpa [optAll] using h
    rw [inRange_iff] at hv
    cases f <;> simp only [IntFormat.lo, IntFormat.hi] at hv <;>
      simp only [boundFits, Bool.and_eq_true, decide_eq_true_eq] <;> omega

/-! ## integers -/

theorem compileInt_ok (fmt : IntFormat) (r : IntRules) (h : intRulesWF fmt r = true) :
    ∃ ub lb, compileInt fmt r = .ok (.int fmt ub lb) ∧ ∀ v, evalInt ub lb v = intOk r v := by
  obtain ⟨mn, mx, emn, emx⟩ := r
  simp only [intRulesWF, Bool.and_eq_true, Bool.or_eq_true] at h
  obtain ⟨⟨⟨⟨hmn, hmx⟩, he1⟩, he2⟩, hord⟩ := h
  have hf1 := boundFits_of_inRange fmt mn hmn
  have hf2 := boundFits_of_inRange fmt mx hmx
  cases mn with
  | none =>
    have he1' : emn = none := by cases emn <;> simp_all
    subst he1'
    cases mx with
    | none =>
      have he2' : emx = none := by cases emx <;> simp_all
      subst he2'
      exact ⟨.none, .none, by simp [compileInt, hf1, hf2], by intro v; simp [evalInt, intOk, optAll]⟩
    | some b =>
      have hb : castTo fmt b = b := castTo_inRange fmt b (by simpa [optAll] using hmx)
      by_cases hx : emx = some true
      · subst hx
        exact ⟨.lt b, .none, by simp [compileInt, hb, hf1, hf2], by intro v; simp [evalInt, intOk, optAll]⟩
      · refine ⟨.lte b, .none, by simp [compileInt, hb, hx, hf1, hf2], ?_⟩
        intro v
        cases emx with
        | none => simp [evalInt, intOk, optAll]
        | some t => cases t <;> simp_all [evalInt, intOk, optAll]
  | some a =>
    have ha : castTo fmt a = a := castTo_inRange fmt a (by simpa [optAll] using hmn)
    cases mx with
    | none =>
      have he2' : emx = none := by cases emx <;> simp_all
      subst he2'
      by_cases hn : emn = some true
      · subst hn
        exact ⟨.none, .gt a, by simp [compileInt, ha, hf1, hf2], by intro v; simp [evalInt, intOk, optAll]⟩
      · refine ⟨.none, .gte a, by simp [compileInt, ha, hn, hf1, hf2], ?_⟩
        intro v
        cases emn with
        | none => simp [evalInt, intOk, optAll]
        | some t => cases t <;> simp_all [evalInt, intOk, optAll]
    | some b =>
      have hb : castTo fmt b = b := castTo_inRange fmt b (by simpa [optAll] using hmx)
      have hab : a ≤ b := by simpa using hord
      by_cases hn : emn = some true <;> by_cases hx : emx = some true
      · subst hn; subst hx
        exact ⟨.lt b, .gt a, by simp [compileInt, ha, hb, hf1, hf2], by intro v; simp [evalInt, intOk, optAll, hab]⟩
      · subst hn
        refine ⟨.lte b, .gt a, by simp [compileInt, ha, hb, hx, hf1, hf2], ?_⟩
        intro v
        cases emx with
        | none => simp [evalInt, intOk, optAll, hab]
        | some t => cases t <;> simp_all [evalInt, intOk, optAll]
      · subst hx
        refine ⟨.lt b, .gte a, by simp [compileInt, ha, hb, hn, hf1, hf2], ?_⟩
        intro v
        cases emn with
        | none => simp [evalInt, intOk, optAll, hab]
        | some t => cases t <;> simp_all [evalInt, intOk, optAll]
      · refine ⟨.lte b, .gte a, by simp [compileInt, ha, hb, hn, hx, hf1, hf2], ?_⟩
        intro v
        cases emn with
        | none =>
          cases emx with
          | none => simp [evalInt, intOk, optAll, hab]
          | some t => cases t <;> simp_all [evalInt, intOk, optAll]
        | some s =>
          cases s <;> cases emx with
          | none => simp_all [evalInt, intOk, optAll]
          | some t => cases t <;> simp_all [evalInt, intOk, optAll]


/-! ## enums -/

theorem mapValues_ok (e : EnumDecl) (names : List String)
    (h : names.all (fun n => (e.numberOf n).isSome) = true) :
    ∃ a, mapValues e names = .ok a ∧ a.isEmpty = names.isEmpty ∧
      ∀ n : Int, a.contains n = names.any (fun name => e.numberOf name == some n) := by
  induction names with
  | nil => exact ⟨[], rfl, rfl, by intro n; rfl⟩
  | cons x rest ih =>
    simp only [List.all_cons, Bool.and_eq_true] at h
    obtain ⟨hx, hrest⟩ := h
    obtain ⟨a, ha, _, hc⟩ := ih hrest
    cases hv : e.numberOf x with
    | none => simp [hv] at hx
    | some v =>
      have hv' : lookupName e.valMap (addPrefix e.pfx x) = some v := hv
      refine ⟨v :: a, ?_, rfl, ?_⟩
      · simp only [mapValues, hv', ha]
      · intro n
        simp only [List.contains_cons, List.any_cons, hc n]
        congr 1
        cases hnv : (n == v) <;> cases hvn : (some v == some n) <;> simp_all

/-- `mapValues` fails (with an error, never a panic) exactly when some name is not an option -/
theorem mapValues_isErr (e : EnumDecl) (names : List String) :
    (mapValues e names).isErr = !names.all (fun n => (e.numberOf n).isSome) ∧
    (mapValues e names).isPanic = false := by
  induction names with
  | nil => exact ⟨rfl, rfl⟩
  | cons x rest ih =>
    cases hv : e.numberOf x with
    | none =>
      have hv' : lookupName e.valMap (addPrefix e.pfx x) = none := hv
      simp [mapValues, hv', hv, Outcome.isErr, Outcome.isPanic]
    | some v =>
      have hv' : lookupName e.valMap (addPrefix e.pfx x) = some v := hv
      obtain ⟨h1, h2⟩ := ih
      cases hr : mapValues e rest with
      | ok vs => simp [mapValues, hv', hv, hr, Outcome.isErr, Outcome.isPanic] at h1 ⊢; exact h1
      | err t => simp [mapValues, hv', hv, hr, Outcome.isErr, Outcome.isPanic] at h1 ⊢; exact h1
      | panic w => simp [hr, Outcome.isPanic] at h2

/-- the enum branch of the compiler rejects exactly the inadmissible declarations: a name in
`in` / `notIn` or a default filter of the list rules that is not an option of the enum
(b6c593a added the default filters) -/
theorem buildField_enum_isErr (d : EnumDecl) (rules : Option EnumRules) (lr : ListRules) :
    (buildField (.enum d rules lr)).isErr = !schemaWF (.enum d rules lr) := by
  have hf := mapValues_isErr d (lrDefaultFilters lr)
  cases rules with
  | none =>
    simp only [buildField, schemaWF, enumFiltersWF, Bool.true_and]
    cases hm : mapValues d (lrDefaultFilters lr) <;> simp_all [Outcome.isErr, Outcome.isPanic]
  | some r =>
    have h1 := mapValues_isErr d r.inn
    have h2 := mapValues_isErr d r.notIn
    simp only [buildField, schemaWF, enumFiltersWF, enumRulesWF]
    cases hm1 : mapValues d r.inn <;> cases hm2 : mapValues d r.notIn <;>
      cases hm : mapValues d (lrDefaultFilters lr) <;> simp_all [Outcome.isErr, Outcome.isPanic]

def definedOfSchema : Schema → List Int
  | .enum d _ _ => d.defined
  | _ => []

def evalOpt (M : Matcher) (defined : List Int) (o : Option ItemC) (x : Scalar) : Bool :=
  match o with
  | none => true
  | some ic => evalItem M defined ic x

def schemaPrimary : Schema → Bool
  | .key _ (some e) _ => (match e.typ with | .primary b => b | _ => false)
  | _ => false

abbrev psmPrimary := psmPrimaryKey

/-- item level: the constraint `buildField` emits accepts exactly the values the rules allow -/
theorem item_equiv (M : Matcher) (hM : ∀ x, M.run id62Pattern x = id62Shape x)
    (s : Schema) (hwf : schemaWF s = true) :
    ∃ a, buildField s = .ok a ∧ psmPrimary a.psmKey = schemaPrimary s ∧
      ∀ x, x.hasKind s = true → evalOpt M (definedOfSchema s) a.validate x = j5Item M s x := by
  cases s with
  | string fmt rules lr =>
    refine ⟨_, rfl, rfl, ?_⟩
    intro x hx
    cases x <;> simp [Scalar.hasKind, Schema.isMessage] at hx
    cases rules <;> simp [evalOpt, evalItem, evalString, j5Item, optAll]
  | integer fmt rules lr =>
    cases rules with
    | none =>
      refine ⟨_, rfl, rfl, ?_⟩
      intro x hx
      cases x <;> simp [Scalar.hasKind, Schema.isMessage] at hx
      simp [evalOpt, j5Item, optAll]
    | some r =>
      obtain ⟨ub, lb, hc, he⟩ := compileInt_ok fmt r (by simpa [schemaWF] using hwf)
      refine ⟨{ kind := .int fmt, j5 := some .integer, list := lr.map (.int fmt), psmKey := none,
                validate := some (.int fmt ub lb) }, by simp only [buildField, hc], rfl, ?_⟩
      intro x hx
      cases x <;> simp [Scalar.hasKind, Schema.isMessage] at hx
      simp [evalOpt, evalItem, j5Item, optAll, he]
  | float is64 lr =>
    refine ⟨_, rfl, rfl, ?_⟩
    intro x hx
    cases x <;> simp [Scalar.hasKind, Schema.isMessage] at hx
    simp [evalOpt, j5Item]
  | bool rules lr =>
    refine ⟨_, rfl, rfl, ?_⟩
    intro x hx
    cases x <;> simp [Scalar.hasKind, Schema.isMessage] at hx
    cases rules <;> simp [evalOpt, evalItem, j5Item, optAll]
  | bytes rules =>
    refine ⟨_, rfl, rfl, ?_⟩
    intro x hx
    cases x <;> simp [Scalar.hasKind, Schema.isMessage] at hx
    cases rules <;> simp [evalOpt, evalItem, j5Item, optAll]
  | key format entity lr =>
    have hv : ∀ x, x.hasKind (.key format entity lr) = true →
        evalOpt M [] (format.map fun f => ItemC.string (keyStringC f)) x = j5Item M (.key format entity lr) x := by
      intro x hx
      cases x <;> simp [Scalar.hasKind, Schema.isMessage] at hx
      cases format with
      | none => simp [evalOpt, j5Item]
      | some f =>
        cases f <;> simp [evalOpt, evalItem, evalString, keyStringC, j5Item, optAll, hM]
    have hp : psmPrimary (entity.map entityPsm) = schemaPrimary (.key format entity lr) := by
      cases entity with
      | none => rfl
      | some e =>
        obtain ⟨t, tk⟩ := e
        cases t <;> simp [psmPrimaryKey, schemaPrimary, entityPsm]
    cases lr with
    | none => exact ⟨_, rfl, hp, hv⟩
    | some p =>
      have hk : ∃ l, keyListExt format p = .ok l := by
        cases format with
        | none => exact ⟨_, rfl⟩
        | some f => cases f <;> exact ⟨_, rfl⟩
      obtain ⟨l, hl⟩ := hk
      exact ⟨{ kind := .string, j5 := some (.key (keyExtPattern format)),
               list := some l, psmKey := entity.map entityPsm,
               validate := format.map fun f => ItemC.string (keyStringC f) },
             by simp only [buildField, hl], hp, hv⟩
  | enum decl rules lr =>
    have hf : enumFiltersWF decl lr = true := by
      cases rules <;> simp only [schemaWF, Bool.and_eq_true] at hwf <;> first | exact hwf.2 | simpa using hwf
    obtain ⟨f, hfv, _, _⟩ := mapValues_ok decl (lrDefaultFilters lr) hf
    cases rules with
    | none =>
      refine ⟨{ kind := .enum decl, j5 := some .enum, list := lr.map .enum, psmKey := none,
                validate := some (.enum (some true) [] []) }, by simp only [buildField, hfv], rfl, ?_⟩
      intro x hx
      cases x <;> simp [Scalar.hasKind, Schema.isMessage] at hx
      simp [evalOpt, evalItem, evalEnum, j5Item, optAll, definedOfSchema]
    | some r =>
      simp only [schemaWF, enumRulesWF, Bool.and_eq_true] at hwf
      obtain ⟨a, ha, hae, hac⟩ := mapValues_ok decl r.inn hwf.1.1
      obtain ⟨b, hb, _, hbc⟩ := mapValues_ok decl r.notIn hwf.1.2
      refine ⟨{ kind := .enum decl, j5 := some .enum, list := lr.map .enum, psmKey := none,
                validate := some (.enum (some true) a b) }, by simp only [buildField, ha, hb, hfv], rfl, ?_⟩
      intro x hx
      cases x <;> simp [Scalar.hasKind, Schema.isMessage] at hx
      simp only [evalOpt, evalItem, evalEnum, hac, hbc, hae, j5Item, optAll, definedOfSchema]
      simp [Bool.and_assoc]
  | object ref flatten hasRules =>
    refine ⟨_, rfl, rfl, ?_⟩
    intro x hx
    cases x <;> simp [Scalar.hasKind, Schema.isMessage] at hx
    cases hasRules <;> simp [evalOpt, evalItem, j5Item, Schema.isMessage]
  | oneof ref hasRules lr =>
    refine ⟨_, rfl, rfl, ?_⟩
    intro x hx
    cases x <;> simp [Scalar.hasKind, Schema.isMessage] at hx
    cases hasRules <;> simp [evalOpt, evalItem, j5Item, Schema.isMessage]
  | timestamp hasRules lr =>
    refine ⟨_, rfl, rfl, ?_⟩
    intro x hx
    cases x <;> simp [Scalar.hasKind, Schema.isMessage] at hx
    cases hasRules <;> simp [evalOpt, evalItem, j5Item, Schema.isMessage]
  | date rules lr =>
    refine ⟨_, rfl, rfl, ?_⟩
    intro x hx
    cases x <;> simp [Scalar.hasKind, Schema.isMessage] at hx
    simp [evalOpt, j5Item, Schema.isMessage]
  | decimal rules lr =>
    refine ⟨_, rfl, rfl, ?_⟩
    intro x hx
    cases x <;> simp [Scalar.hasKind, Schema.isMessage] at hx
    simp [evalOpt, j5Item, Schema.isMessage]
  | any od types lr =>
    refine ⟨_, rfl, rfl, ?_⟩
    intro x hx
    cases x <;> simp [Scalar.hasKind, Schema.isMessage] at hx
    simp [evalOpt, j5Item, Schema.isMessage]


/-! ## field level -/

theorem all_congr_mem {α} (l : List α) (p q : α → Bool) (h : ∀ x ∈ l, p x = q x) : l.all p = l.all q := by
  induction l with
  | nil => rfl
  | cons a t ih =>
    simp only [List.all_cons]
    rw [h a (by simp), ih (fun x hx => h x (by simp [hx]))]


def singleFC (vo : Option ItemC) (req : Bool) : Option FieldC :=
  if req then setRequired (vo.map fun c => { required := none, typ := .item c })
  else vo.map fun c => { required := none, typ := .item c }

def arrayFC (vo : Option ItemC) (rules : Option ArrayRules) (req : Bool) : Option FieldC :=
  if req then setRequired (wrapArray vo rules) else wrapArray vo rules

theorem pv_single (M : Matcher) (defined : List Int) (vo : Option ItemC) (req pres : Bool) (x : Scalar) :
    pvField M defined (singleFC vo req) pres (.single x) =
      ofBool ((!req || pres || !x.isZero) && evalOpt M defined vo x) := by
  cases req <;> cases vo <;> cases pres <;> cases hz : x.isZero <;>
    simp [singleFC, setRequired, pvField, fieldHas, hz, evalOpt, ofBool] <;> rfl

theorem pv_single_absent (M : Matcher) (defined : List Int) (vo : Option ItemC) (req : Bool) :
    pvField M defined (singleFC vo req) true .absent = ofBool (!req) := by
  cases req <;> cases vo <;> simp [singleFC, setRequired, pvField, fieldHas, ofBool]

theorem pv_array (M : Matcher) (defined : List Int) (vo : Option ItemC) (rules : Option ArrayRules)
    (req : Bool) (xs : List Scalar)
    (hne : ¬ ((rules.bind (·.uniqueItems)) == some true && xs.any isMsgScalar) = true) :
    pvField M defined (arrayFC vo rules req) false (.list xs) =
      ofBool ((!req || !xs.isEmpty) &&
        optAll rules (fun r =>
          optAll r.minItems (fun n => decide (n ≤ xs.length)) &&
          optAll r.maxItems (fun n => decide (xs.length ≤ n)) &&
          (!(r.uniqueItems == some true) || allDistinct xs)) &&
        xs.all (evalOpt M defined vo)) := by
  cases rules with
  | none =>
    cases vo with
    | none =>
      cases req <;> cases he : xs.isEmpty <;>
        simp [arrayFC, wrapArray, setRequired, pvField, fieldHas, he, optAll, evalOpt, ofBool]
    | some ic =>
      cases req <;> cases he : xs.isEmpty <;>
        simp [arrayFC, wrapArray, setRequired, pvField, fieldHas, he, optAll, evalOpt, ofBool, evalRepeated]
  | some r =>
    have hne' : ¬ (r.uniqueItems == some true && xs.any isMsgScalar) = true := by simpa using hne
    cases vo with
    | none =>
      cases req <;> cases he : xs.isEmpty <;>
        simp [arrayFC, wrapArray, setRequired, pvField, fieldHas, he, optAll, evalOpt, ofBool, evalRepeated, hne']
    | some ic =>
      cases req <;> cases he : xs.isEmpty <;>
        simp [arrayFC, wrapArray, setRequired, pvField, fieldHas, he, optAll, evalOpt, ofBool, evalRepeated, hne']


def mapFC (vo : Option ItemC) (rules : Option MapRules) (req : Bool) : Option FieldC :=
  if req then setRequired (wrapMap vo rules) else wrapMap vo rules

theorem pv_map (M : Matcher) (defined : List Int) (vo : Option ItemC) (rules : Option MapRules)
    (req : Bool) (xs : List Scalar) :
    pvField M defined (mapFC vo rules req) false (.list xs) =
      ofBool ((!req || !xs.isEmpty) &&
        optAll rules (fun r =>
          optAll r.minPairs (fun n => decide (n ≤ xs.length)) &&
          optAll r.maxPairs (fun n => decide (xs.length ≤ n))) &&
        xs.all (evalOpt M defined vo)) := by
  cases rules with
  | none =>
    cases vo with
    | none =>
      cases req <;> cases he : xs.isEmpty <;>
        simp [mapFC, wrapMap, setRequired, pvField, fieldHas, he, optAll, evalOpt, ofBool]
    | some ic =>
      cases req <;> cases he : xs.isEmpty <;>
        simp [mapFC, wrapMap, setRequired, pvField, fieldHas, he, optAll, evalOpt, ofBool, evalMap]
  | some r =>
    cases vo with
    | none =>
      cases req <;> cases he : xs.isEmpty <;>
        simp [mapFC, wrapMap, setRequired, pvField, fieldHas, he, optAll, evalOpt, ofBool, evalMap]
    | some ic =>
      cases req <;> cases he : xs.isEmpty <;>
        simp [mapFC, wrapMap, setRequired, pvField, fieldHas, he, optAll, evalOpt, ofBool, evalMap]

theorem fieldValidate_eq (schema : FieldSchema) (v : Option ItemC) (req : Bool) :
    fieldValidate schema v req =
      match schema with
      | .single _ => singleFC v req
      | .array _ rules _ => arrayFC v rules req
      | .map _ rules _ => mapFC v rules req := by
  cases schema <;> cases req <;> rfl

theorem primaryKey_eq (p : Property) :
    p.primaryKey = (!p.schema.isMap && schemaPrimary p.schema.item) := by
  unfold Property.primaryKey schemaPrimary
  cases p.schema <;> rfl

/-- the emitted constraint in closed form -/
theorem compileRules_eq (p : Property) (a : ItemAnnot) (ha : buildField p.schema.item = .ok a)
    (hprim : psmPrimaryKey a.psmKey = schemaPrimary p.schema.item)
    (hnot : (p.explicitlyOptional && p.effRequired) = false) :
    compileRules p = .ok (match p.schema with
      | .single _ => singleFC a.validate p.effRequired
      | .array _ rules _ => arrayFC a.validate rules p.effRequired
      | .map _ rules _ => mapFC a.validate rules p.effRequired) := by
  have hreq : (p.required || (!p.schema.isMap && psmPrimaryKey a.psmKey)) = p.effRequired := by
    rw [hprim, ← primaryKey_eq]; rfl
  simp only [compileRules, writeField, ha, hreq, hnot, fieldValidate_eq]
  rfl

end J5V.Rules
