/-!
# Schema-name collisions in the `SchemaCache` (core only)

`splitDescriptorName` joins nested names with `_`, so a message `Bar` nested in `Foo` and a
top-level message `Foo_Bar` (or an enum `E` nested in `Foo` and a message `Foo_E`) have one schema
name. Since `af1da62` a `RefSchema` records the descriptor it was registered for (`claim`) and a
second descriptor is a schema error. This is the model of that rule on the fixed descriptor family
of the harness (`clash` ops of stream `conc.seq`, see PROTOCOL-conc.md):

    request 0  Foo      (has a field of the nested type: needs the name for the nested descriptor)
    request 1  Foo.Bar  (the nested message itself; variant `m` only)
    request 2  Foo_Bar  (the top-level message)
    request 3  Holder   (has a field of the top-level type)
    request 4  Other    request 5  Other2 (has a field of type Other)

The cache model `J5V.Conc.Cache` identifies a schema with its descriptor (its keys are node
indices), i.e. it assumes the names are distinct; this file is about what happens when they are not.
-/
namespace J5V.Conc.Clash

/-- `built`: registered keys (0 Foo, 1 the colliding name, 2 Holder, 3 Other, 4 Other2);
`owner`: the descriptor that claimed the colliding name (`true` = the nested one) -/
structure St where
  built : List Nat
  owner : Option Bool
  deriving DecidableEq, Repr, Inhabited

def init : St := ⟨[], none⟩

def add (b : List Nat) (ks : List Nat) : List Nat :=
  ks.foldl (fun b k => if b.contains k then b else b ++ [k]) b

/-- `(*SchemaCache).Schema` on the family: the new state (unchanged when the build fails: the
roll-back removes what the call registered) and whether the call succeeded -/
def req (s : St) (r : Nat) : St × Bool :=
  match r with
  | 0 =>
    if s.built.contains 0 then (s, true)
    else if s.owner == some false then (s, false)
    else (⟨add s.built [0, 1], some true⟩, true)
  | 1 => if s.owner == some false then (s, false) else (⟨add s.built [1], some true⟩, true)
  | 2 => if s.owner == some true then (s, false) else (⟨add s.built [1], some false⟩, true)
  | 3 =>
    if s.built.contains 2 then (s, true)
    else if s.owner == some true then (s, false)
    else (⟨add s.built [2, 1], some false⟩, true)
  | 4 => (⟨add s.built [3], s.owner⟩, true)
  | 5 => (⟨add s.built [4, 3], s.owner⟩, true)
  | _ => (s, false)

def run (rs : List Nat) : St := rs.foldl (fun s r => (req s r).1) init

/-- the request needs the colliding name for the nested / for the top-level descriptor -/
def touchesN (r : Nat) : Bool := r == 0 || r == 1
def touchesT (r : Nat) : Bool := r == 2 || r == 3

/-- the result line of one `clash` op -/
def runOp (rs : List Nat) : String :=
  let rec go (s : St) (rs : List Nat) (acc : List String) : List String × St :=
    match rs with
    | [] => (acc.reverse, s)
    | r :: rest =>
      let x := req s r
      go x.1 rest ((if x.2 then "ok" else "err") :: acc)
  let (outs, s) := go init rs []
  let ks := s.built.mergeSort (· ≤ ·)
  " | ".intercalate (outs ++ ["keys " ++ " ".intercalate (ks.map (fun k => toString k ++ "+"))])

end J5V.Conc.Clash
