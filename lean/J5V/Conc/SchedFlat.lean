import J5V.Conc.SchedProofs
/-! Deadlock freedom of flat locking (core only): with reader/writer locks that give waiting writers
preference (a pending writer blocks new readers, as in Go), a program in which no thread acquires a
lock while it holds one — in either mode — always has a thread that can move, and every run can be
completed. -/
namespace J5V.Conc.Sched

/-- what a thread holds is what its remaining program expects (`flat`); owners, readers and
announced writers are live threads; an announced writer is still waiting at its `lock`; read
locks are held at most once per thread -/
def FInv (s : State) : Prop :=
  (∀ (i : Nat) (t : Thread), s.rem[i]? = some t →
      ∃ h : Option (Nat × Bool), flat h t = true ∧ (∀ l, s.owner l = some i ↔ h = some (l, false)) ∧
        (∀ l, i ∈ s.readers l ↔ h = some (l, true))) ∧
  (∀ (l u : Nat), s.owner l = some u → ∃ tu : Thread, s.rem[u]? = some tu) ∧
  (∀ (l u : Nat), u ∈ s.readers l → ∃ tu : Thread, s.rem[u]? = some tu) ∧
  (∀ (l u : Nat), s.pending l = some u → s.owner l = none ∧ ∃ r, s.rem[u]? = some (.lock l :: r)) ∧
  (∀ l, (s.readers l).Nodup)

theorem finv_init (p : Prog) (h : NoNesting p) : FInv (init p) := by
  refine ⟨?_, ?_, ?_, ?_, ?_⟩
  · intro i t ht
    exact ⟨none, h t (List.mem_of_getElem? ht), by simp [init], by simp [init]⟩
  · intro l u hu; simp [init] at hu
  · intro l u hu; simp [init] at hu
  · intro l u hu; simp [init] at hu
  · intro l; simp [init]

theorem flat_lock (h : Option (Nat × Bool)) (l : Nat) (r : Thread) (hf : flat h (.lock l :: r) = true) :
    h = none ∧ flat (some (l, false)) r = true := by
  cases h <;> simp [flat] at hf ⊢
  exact hf

theorem flat_rlock (h : Option (Nat × Bool)) (l : Nat) (r : Thread) (hf : flat h (.rlock l :: r) = true) :
    h = none ∧ flat (some (l, true)) r = true := by
  cases h <;> simp [flat] at hf ⊢
  exact hf

theorem flat_unlock (h : Option (Nat × Bool)) (l : Nat) (r : Thread) (hf : flat h (.unlock l :: r) = true) :
    h = some (l, false) ∧ flat none r = true := by
  cases h with
  | none => simp [flat] at hf
  | some p =>
    obtain ⟨l', rd⟩ := p
    simp only [flat, Bool.and_eq_true, Bool.not_eq_true', decide_eq_true_eq] at hf
    obtain ⟨⟨rfl, rfl⟩, hr⟩ := hf
    exact ⟨rfl, hr⟩

theorem flat_runlock (h : Option (Nat × Bool)) (l : Nat) (r : Thread) (hf : flat h (.runlock l :: r) = true) :
    h = some (l, true) ∧ flat none r = true := by
  cases h with
  | none => simp [flat] at hf
  | some p =>
    obtain ⟨l', rd⟩ := p
    simp only [flat, Bool.and_eq_true, decide_eq_true_eq] at hf
    obtain ⟨⟨rfl, rfl⟩, hr⟩ := hf
    exact ⟨rfl, hr⟩

theorem flat_other (h : Option (Nat × Bool)) (a : Action) (r : Thread)
    (ha : a.access ≠ none ∨ a = .tau) (hf : flat h (a :: r) = true) : flat h r = true := by
  cases a with
  | read x => cases h <;> simpa [flat] using hf
  | write x => cases h <;> simpa [flat] using hf
  | tau => cases h <;> simpa [flat] using hf
  | lock l => simp [Action.access] at ha
  | unlock l => simp [Action.access] at ha
  | rlock l => simp [Action.access] at ha
  | runlock l => simp [Action.access] at ha

/-- the frame of a fired step of thread `j`: what has to be shown about the new state -/
theorem finv_frame (s s' : State) (j : Nat) (a : Action) (r : Thread) (h : FInv s)
    (hj : s.rem[j]? = some (a :: r)) (hrem : s'.rem = s.rem.set j r)
    (hA : ∃ h' : Option (Nat × Bool), flat h' r = true ∧ (∀ l, s'.owner l = some j ↔ h' = some (l, false)) ∧
        (∀ l, j ∈ s'.readers l ↔ h' = some (l, true)))
    (ho : ∀ i, i ≠ j → ∀ l, s'.owner l = some i ↔ s.owner l = some i)
    (hr : ∀ i, i ≠ j → ∀ l, i ∈ s'.readers l ↔ i ∈ s.readers l)
    (hp : ∀ l u, s'.pending l = some u → s.pending l = some u ∧ u ≠ j ∧ s'.owner l = none)
    (hn : ∀ l, (s'.readers l).Nodup) : FInv s' := by
  obtain ⟨h1, h2, h3, h4, _⟩ := h
  have live : ∀ u, (∃ tu, s.rem[u]? = some tu) ∨ u = j → ∃ tu, s'.rem[u]? = some tu := by
    intro u hu
    rw [hrem]
    rcases hu with ⟨tu, htu⟩ | rfl
    · exact getElem?_set_isSome _ _ _ _ _ htu
    · exact getElem?_set_isSome _ _ _ _ _ hj
  refine ⟨?_, ?_, ?_, ?_, hn⟩
  · intro i t ht
    rw [hrem] at ht
    rcases getElem?_set_cases _ _ _ _ _ ht with ⟨rfl, rfl⟩ | ⟨hij, hi⟩
    · exact hA
    · obtain ⟨hh, hf, hoo, hrr⟩ := h1 i t hi
      exact ⟨hh, hf, fun l => (ho i hij l).trans (hoo l), fun l => (hr i hij l).trans (hrr l)⟩
  · intro l u hu
    by_cases huj : u = j
    · exact live u (Or.inr huj)
    · exact live u (Or.inl (h2 l u ((ho u huj l).mp hu)))
  · intro l u hu
    by_cases huj : u = j
    · exact live u (Or.inr huj)
    · exact live u (Or.inl (h3 l u ((hr u huj l).mp hu)))
  · intro l u hu
    obtain ⟨hpu, huj, hown⟩ := hp l u hu
    obtain ⟨_, r', hr'⟩ := h4 l u hpu
    refine ⟨hown, r', ?_⟩
    rw [hrem, List.getElem?_set_ne (Ne.symm huj)]
    exact hr'

theorem finv_step (wv : WriteFn) (s : State) (j : Nat) (h : FInv s) : FInv (step wv s j) := by
  rcases step_cases wv s j with h0 | ⟨a, r, hj, hc, hs⟩ | ⟨a, r, hj, hc, hs⟩
  · rw [h0]; exact h
  · rw [hs]
    have h' := h
    obtain ⟨h1, h2, h3, h4, h5⟩ := h
    obtain ⟨hh, hf, hoo, hrr⟩ := h1 j _ hj
    -- an announced writer is not thread `j`, unless `j` is just taking that lock
    have pend : ∀ l u, s.pending l = some u → u = j → a = .lock l := by
      intro l u hu huj
      subst huj
      obtain ⟨_, r', hr'⟩ := h4 l u hu
      rw [hj] at hr'
      simp only [Option.some.injEq, List.cons.injEq] at hr'
      exact hr'.1
    cases a with
    | lock l =>
      simp only [canFire, Bool.and_eq_true, Bool.or_eq_true, decide_eq_true_eq] at hc
      obtain ⟨⟨hfree, hnord⟩, hpd⟩ := hc
      obtain ⟨rfl, hf'⟩ := flat_lock hh l r hf
      refine finv_frame s _ j _ r h' hj (by simp) ⟨some (l, false), hf', ?_, ?_⟩ ?_ ?_ ?_ ?_
      · intro l2
        by_cases hl2 : l2 = l
        · subst hl2; simp [fire]
        · have := hoo l2
          simp only [reduceCtorEq, iff_false] at this
          simp [fire, upd, hl2, this]
          exact fun e => hl2 e.symm
      · intro l2
        have := hrr l2
        simp only [reduceCtorEq, iff_false] at this
        simp [fire, this]
      · intro i hij l2
        by_cases hl2 : l2 = l
        · subst hl2; simp [fire, hfree, Ne.symm hij]
        · simp [fire, upd, hl2]
      · intro i _ l2; simp [fire]
      · intro l2 u hu
        by_cases hl2 : l2 = l
        · subst hl2; simp [fire] at hu
        · have hu' : s.pending l2 = some u := by simpa [fire, upd, hl2] using hu
          refine ⟨hu', ?_, ?_⟩
          · intro huj
            have := pend l2 u hu' huj
            simp only [Action.lock.injEq] at this
            exact hl2 this.symm
          · simpa [fire, upd, hl2] using (h4 l2 u hu').1
      · intro l2; simpa [fire] using h5 l2
    | unlock l =>
      simp only [canFire, decide_eq_true_eq] at hc
      obtain ⟨rfl, hf'⟩ := flat_unlock hh l r hf
      refine finv_frame s _ j _ r h' hj (by simp) ⟨none, hf', ?_, ?_⟩ ?_ ?_ ?_ ?_
      · intro l2
        by_cases hl2 : l2 = l
        · subst hl2; simp [fire]
        · have := hoo l2
          simp only [Option.some.injEq, Prod.mk.injEq, and_true] at this
          simp [fire, upd, hl2, this]
          exact fun e => hl2 e.symm
      · intro l2
        have := hrr l2
        simp only [Option.some.injEq, Prod.mk.injEq, Bool.false_eq_true, and_false, iff_false] at this
        simp [fire, this]
      · intro i hij l2
        by_cases hl2 : l2 = l
        · subst hl2; simp [fire, hc, Ne.symm hij]
        · simp [fire, upd, hl2]
      · intro i _ l2; simp [fire]
      · intro l2 u hu
        have hu' : s.pending l2 = some u := by simpa [fire] using hu
        refine ⟨hu', ?_, ?_⟩
        · intro huj; have := pend l2 u hu' huj; cases this
        · by_cases hl2 : l2 = l
          · subst hl2; simp [fire]
          · simpa [fire, upd, hl2] using (h4 l2 u hu').1
      · intro l2; simpa [fire] using h5 l2
    | rlock l =>
      simp only [canFire, Bool.and_eq_true, decide_eq_true_eq] at hc
      obtain ⟨hfree, hnopd⟩ := hc
      obtain ⟨rfl, hf'⟩ := flat_rlock hh l r hf
      have hjnot : ∀ l2, j ∉ s.readers l2 := by
        intro l2; have := hrr l2; simpa using this
      refine finv_frame s _ j _ r h' hj (by simp) ⟨some (l, true), hf', ?_, ?_⟩ ?_ ?_ ?_ ?_
      · intro l2
        have := hoo l2
        simp only [reduceCtorEq, iff_false] at this
        simp [fire, this]
      · intro l2
        by_cases hl2 : l2 = l
        · subst hl2; simp [fire]
        · simp [fire, upd, hl2, hjnot l2]
          exact fun e => hl2 e.symm
      · intro i _ l2; simp [fire]
      · intro i hij l2
        by_cases hl2 : l2 = l
        · subst hl2; simp [fire, hij]
        · simp [fire, upd, hl2]
      · intro l2 u hu
        have hu' : s.pending l2 = some u := by simpa [fire] using hu
        refine ⟨hu', ?_, ?_⟩
        · intro huj; have := pend l2 u hu' huj; cases this
        · simpa [fire] using (h4 l2 u hu').1
      · intro l2
        by_cases hl2 : l2 = l
        · subst hl2; simpa [fire] using ⟨hjnot l2, h5 l2⟩
        · simpa [fire, upd, hl2] using h5 l2
    | runlock l =>
      simp only [canFire, decide_eq_true_eq] at hc
      obtain ⟨rfl, hf'⟩ := flat_runlock hh l r hf
      refine finv_frame s _ j _ r h' hj (by simp) ⟨none, hf', ?_, ?_⟩ ?_ ?_ ?_ ?_
      · intro l2
        have := hoo l2
        simp only [Option.some.injEq, Prod.mk.injEq, Bool.true_eq_false, and_false, iff_false] at this
        simp [fire, this]
      · intro l2
        by_cases hl2 : l2 = l
        · subst hl2; simp [fire, (h5 l2).mem_erase_iff]
        · have := hrr l2
          simp only [Option.some.injEq, Prod.mk.injEq, and_true] at this
          simp [fire, upd, hl2, this]
          exact fun e => hl2 e.symm
      · intro i _ l2; simp [fire]
      · intro i hij l2
        by_cases hl2 : l2 = l
        · subst hl2; simp [fire, List.mem_erase_of_ne hij]
        · simp [fire, upd, hl2]
      · intro l2 u hu
        have hu' : s.pending l2 = some u := by simpa [fire] using hu
        refine ⟨hu', ?_, ?_⟩
        · intro huj; have := pend l2 u hu' huj; cases this
        · simpa [fire] using (h4 l2 u hu').1
      · intro l2
        by_cases hl2 : l2 = l
        · subst hl2; simpa [fire] using (h5 l2).erase j
        · simpa [fire, upd, hl2] using h5 l2
    | read x =>
      refine finv_frame s _ j _ r h' hj (by simp)
        ⟨hh, flat_other hh _ r (by simp [Action.access]) hf, by simpa [fire] using hoo, by simpa [fire] using hrr⟩
        (by intro i _ l2; simp [fire]) (by intro i _ l2; simp [fire]) ?_ (by intro l2; simpa [fire] using h5 l2)
      intro l2 u hu
      have hu' : s.pending l2 = some u := by simpa [fire] using hu
      exact ⟨hu', fun huj => (by have := pend l2 u hu' huj; cases this), by simpa [fire] using (h4 l2 u hu').1⟩
    | write x =>
      refine finv_frame s _ j _ r h' hj (by simp)
        ⟨hh, flat_other hh _ r (by simp [Action.access]) hf, by simpa [fire] using hoo, by simpa [fire] using hrr⟩
        (by intro i _ l2; simp [fire]) (by intro i _ l2; simp [fire]) ?_ (by intro l2; simpa [fire] using h5 l2)
      intro l2 u hu
      have hu' : s.pending l2 = some u := by simpa [fire] using hu
      exact ⟨hu', fun huj => (by have := pend l2 u hu' huj; cases this), by simpa [fire] using (h4 l2 u hu').1⟩
    | tau =>
      refine finv_frame s _ j _ r h' hj (by simp)
        ⟨hh, flat_other hh _ r (by simp) hf, by simpa [fire] using hoo, by simpa [fire] using hrr⟩
        (by intro i _ l2; simp [fire]) (by intro i _ l2; simp [fire]) ?_ (by intro l2; simpa [fire] using h5 l2)
      intro l2 u hu
      have hu' : s.pending l2 = some u := by simpa [fire] using hu
      exact ⟨hu', fun huj => (by have := pend l2 u hu' huj; cases this), by simpa [fire] using (h4 l2 u hu').1⟩
  · -- blocked: at most the announcement of a writer
    rw [hs]
    cases a with
    | lock l =>
      simp only [announce]
      split
      · rename_i hcond
        obtain ⟨h1, h2, h3, h4, h5⟩ := h
        refine ⟨h1, h2, h3, ?_, h5⟩
        intro l2 u hu
        by_cases hl2 : l2 = l
        · subst hl2
          simp only [upd_same, Option.some.injEq] at hu
          subst hu
          exact ⟨hcond.1, r, hj⟩
        · simp only [upd, hl2, if_false] at hu
          exact h4 l2 u hu
      · exact h
    | _ => exact h

theorem finv_runFrom (wv : WriteFn) (sched : List Nat) (s : State) (h : FInv s) :
    FInv (runFrom wv s sched) := by
  induction sched generalizing s with
  | nil => exact h
  | cons j rest ih => exact ih _ (finv_step wv s j h)

/-- the writer of a lock can move -/
theorem finv_writer_enabled (s : State) (h : FInv s) (l u : Nat) (hu : s.owner l = some u) : Enabled s u := by
  obtain ⟨h1, h2, _⟩ := h
  obtain ⟨tu, htu⟩ := h2 l u hu
  obtain ⟨hh, hf, hoo, _⟩ := h1 u tu htu
  have : hh = some (l, false) := (hoo l).mp hu
  subst this
  cases tu with
  | nil => simp [flat] at hf
  | cons b r' =>
    cases b with
    | lock l' => simp [flat] at hf
    | rlock l' => simp [flat] at hf
    | runlock l' => simp [flat] at hf
    | unlock l' =>
      obtain ⟨he, _⟩ := flat_unlock _ l' r' hf
      simp only [Option.some.injEq, Prod.mk.injEq, and_true] at he
      subst he
      exact ⟨_, _, htu, by simp [canFire, hu]⟩
    | read x => exact ⟨_, _, htu, rfl⟩
    | write x => exact ⟨_, _, htu, rfl⟩
    | tau => exact ⟨_, _, htu, rfl⟩

/-- a reader of a lock can move -/
theorem finv_reader_enabled (s : State) (h : FInv s) (l u : Nat) (hu : u ∈ s.readers l) : Enabled s u := by
  obtain ⟨h1, _, h3, _⟩ := h
  obtain ⟨tu, htu⟩ := h3 l u hu
  obtain ⟨hh, hf, _, hrr⟩ := h1 u tu htu
  have : hh = some (l, true) := (hrr l).mp hu
  subst this
  cases tu with
  | nil => simp [flat] at hf
  | cons b r' =>
    cases b with
    | lock l' => simp [flat] at hf
    | rlock l' => simp [flat] at hf
    | unlock l' => simp [flat] at hf
    | runlock l' =>
      obtain ⟨he, _⟩ := flat_runlock _ l' r' hf
      simp only [Option.some.injEq, Prod.mk.injEq, and_true] at he
      subst he
      exact ⟨_, _, htu, by simp [canFire, hu]⟩
    | read x => exact ⟨_, _, htu, rfl⟩
    | write x => exact ⟨_, _, htu, rfl⟩
    | tau => exact ⟨_, _, htu, rfl⟩

/-- somebody can always move towards handing over a lock that is asked for -/
theorem finv_lock_progress (s : State) (h : FInv s) (l : Nat)
    (hnone : s.owner l = none → s.readers l = [] → s.pending l = none → False) : ∃ u, Enabled s u := by
  cases hown : s.owner l with
  | some u => exact ⟨u, finv_writer_enabled s h l u hown⟩
  | none =>
    cases hrd : s.readers l with
    | cons u rest => exact ⟨u, finv_reader_enabled s h l u (by simp [hrd])⟩
    | nil =>
      cases hpd : s.pending l with
      | none => exact absurd hpd (fun hp => hnone hown hrd hp)
      | some w =>
        obtain ⟨_, r, hr⟩ := h.2.2.2.1 l w hpd
        exact ⟨w, _, _, hr, by simp [canFire, hown, hrd, hpd]⟩

theorem finv_enabled (s : State) (h : FInv s) (hnd : ¬ AllDone s) : ∃ i, Enabled s i := by
  unfold AllDone at hnd
  simp only [Classical.not_forall] at hnd
  obtain ⟨i, t, ht, hne⟩ := hnd
  cases t with
  | nil => exact absurd rfl hne
  | cons a r =>
    obtain ⟨hh, hf, hoo, hrr⟩ := h.1 i _ ht
    cases a with
    | lock l =>
      apply Classical.byContradiction
      intro hno
      apply hno
      apply finv_lock_progress s h l
      intro h1 h2 h3
      exact hno ⟨i, _, _, ht, by simp [canFire, h1, h2, h3]⟩
    | rlock l =>
      apply Classical.byContradiction
      intro hno
      apply hno
      apply finv_lock_progress s h l
      intro h1 _ h3
      exact hno ⟨i, _, _, ht, by simp [canFire, h1, h3]⟩
    | unlock l =>
      obtain ⟨rfl, _⟩ := flat_unlock hh l r hf
      exact ⟨i, _, _, ht, by simpa [canFire] using (hoo l).mpr rfl⟩
    | runlock l =>
      obtain ⟨rfl, _⟩ := flat_runlock hh l r hf
      exact ⟨i, _, _, ht, by simpa [canFire] using (hrr l).mpr rfl⟩
    | read x => exact ⟨i, _, _, ht, rfl⟩
    | write x => exact ⟨i, _, _, ht, rfl⟩
    | tau => exact ⟨i, _, _, ht, rfl⟩

theorem enabled_iff (s : State) (i : Nat) : Enabled s i ↔ enabledB s i = true := by
  unfold Enabled enabledB
  cases h : s.rem[i]? with
  | none => simp
  | some t =>
    cases t with
    | nil => simp
    | cons a r => simp

theorem allDone_of_check (s : State) (h : s.rem.all List.isEmpty = true) : AllDone s := by
  intro i t hi
  rw [List.all_eq_true] at h
  have := h t (List.mem_of_getElem? hi)
  cases t with
  | nil => rfl
  | cons a r => simp at this

/-- the computable check really is a deadlock -/
theorem stuck_of_check (s : State) (h : stuckB s = true) : ¬ AllDone s ∧ ∀ i, ¬ Enabled s i := by
  simp only [stuckB, Bool.and_eq_true, Bool.not_eq_true', List.all_eq_true, List.mem_range] at h
  obtain ⟨h1, h2⟩ := h
  refine ⟨?_, ?_⟩
  · intro hd
    have : s.rem.all List.isEmpty = true := by
      rw [List.all_eq_true]
      intro t ht
      obtain ⟨i, hi⟩ := List.getElem?_of_mem ht
      rw [hd i t hi]; rfl
    rw [this] at h1; cases h1
  · intro i hi
    have hb := (enabled_iff s i).mp hi
    obtain ⟨a, r, hr, _⟩ := hi
    have hlt : i < s.rem.length := by
      rcases Nat.lt_or_ge i s.rem.length with h' | h'
      · exact h'
      · rw [List.getElem?_eq_none h'] at hr; cases hr
    rw [h2 i hlt] at hb; cases hb

/-! ## … and every run can be completed -/

def totalRem (s : State) : Nat := (s.rem.map List.length).sum

theorem sum_length_set {α : Type} (xs : List (List α)) (i : Nat) (a : α) (r : List α)
    (h : xs[i]? = some (a :: r)) :
    ((xs.set i r).map List.length).sum + 1 = (xs.map List.length).sum := by
  induction xs generalizing i with
  | nil => simp at h
  | cons x xs ih =>
    cases i with
    | zero =>
      simp only [List.getElem?_cons_zero, Option.some.injEq] at h
      subst h
      simp only [List.set_cons_zero, List.map_cons, List.sum_cons, List.length_cons]
      omega
    | succ i =>
      simp only [List.getElem?_cons_succ] at h
      have := ih i h
      simp only [List.set_cons_succ, List.map_cons, List.sum_cons]
      omega

theorem enabled_step_rem (wv : WriteFn) (s : State) (i : Nat) (h : Enabled s i) :
    ∃ a r, s.rem[i]? = some (a :: r) ∧ (step wv s i).rem = s.rem.set i r := by
  obtain ⟨a, r, hr, hen⟩ := h
  exact ⟨a, r, hr, by rw [step_fire wv s i a r hr hen]; simp⟩

theorem enabled_step_totalRem (wv : WriteFn) (s : State) (i : Nat) (h : Enabled s i) :
    totalRem (step wv s i) + 1 = totalRem s := by
  obtain ⟨a, r, hr, hstep⟩ := enabled_step_rem wv s i h
  unfold totalRem
  rw [hstep]
  exact sum_length_set s.rem i a r hr

theorem finv_can_finish (wv : WriteFn) (n : Nat) :
    ∀ s : State, FInv s → totalRem s = n → ∃ more : List Nat, AllDone (runFrom wv s more) := by
  induction n with
  | zero =>
    intro s hf hn
    refine ⟨[], ?_⟩
    apply Classical.byContradiction
    intro hnd
    obtain ⟨i, hi⟩ := finv_enabled s hf hnd
    have := enabled_step_totalRem wv s i hi
    omega
  | succ n ih =>
    intro s hf hn
    by_cases hd : AllDone s
    · exact ⟨[], hd⟩
    · obtain ⟨i, hi⟩ := finv_enabled s hf hd
      have hlen := enabled_step_totalRem wv s i hi
      obtain ⟨more, hmore⟩ := ih (step wv s i) (finv_step wv s i hf) (by omega)
      exact ⟨i :: more, hmore⟩

end J5V.Conc.Sched
