import J5V.Conc.SchedProofs
/-! Serialisability (core only): when every operation is one critical section of the mutex `l`,
every schedule is a sequential execution of whole operations (plus a proper prefix of one). -/
namespace J5V.Conc.Sched

/-- between operations: nobody holds `l` in any way -/
def BInv (l : Nat) (s : State) : Prop :=
  s.owner l = none ∧ s.readers l = [] ∧ s.pending l = none ∧
    ∀ (j : Nat) (t : Thread), s.rem[j]? = some t → opsShape l false t = true

/-- thread `i` is inside an operation -/
def MInv (l : Nat) (s : State) (i : Nat) : Prop :=
  s.owner l = some i ∧ s.readers l = [] ∧ s.pending l = none ∧
    (∃ t : Thread, s.rem[i]? = some t ∧ opsShape l true t = true) ∧
    ∀ (j : Nat) (t : Thread), j ≠ i → s.rem[j]? = some t → opsShape l false t = true

theorem stepN_succ_right (wv : WriteFn) (s : State) (i k : Nat) :
    stepN wv s i (k + 1) = step wv (stepN wv s i k) i := by
  induction k generalizing s with
  | zero => rfl
  | succ k ih => simp only [stepN] at ih ⊢; exact ih _

theorem getD_of_getElem? {α : Type} (xs : List α) (i : Nat) (t d : α) (h : xs[i]? = some t) :
    xs.getD i d = t := by
  simp [List.getD_eq_getElem?_getD, h]

theorem opsShape_true_cons (l : Nat) (t : Thread) (h : opsShape l true t = true) :
    ∃ b r, t = b :: r ∧
      ((b = .unlock l ∧ opsShape l false r = true) ∨
       ((b.access ≠ none ∨ b = .tau) ∧ opsShape l true r = true)) := by
  cases t with
  | nil => simp [opsShape] at h
  | cons b r =>
    refine ⟨b, r, rfl, ?_⟩
    cases b with
    | lock l' => simp [opsShape] at h
    | rlock l' => simp [opsShape] at h
    | runlock l' => simp [opsShape] at h
    | unlock l' =>
      simp [opsShape] at h
      left; exact ⟨by rw [h.1], h.2⟩
    | read x => right; exact ⟨by simp [Action.access], by simpa [opsShape] using h⟩
    | write x => right; exact ⟨by simp [Action.access], by simpa [opsShape] using h⟩
    | tau => right; exact ⟨by simp, by simpa [opsShape] using h⟩

theorem opLen_pos_of_inside (l : Nat) (t : Thread) (h : opsShape l true t = true) : 0 < opLen t := by
  obtain ⟨b, r, rfl, _⟩ := opsShape_true_cons l t h
  cases b <;> simp [opLen]

theorem opsShape_false_cons (l : Nat) (a : Action) (r : Thread) (h : opsShape l false (a :: r) = true) :
    a = .lock l ∧ opsShape l true r = true := by
  cases a <;> simp [opsShape] at h
  exact ⟨by rw [h.1], h.2⟩

/-- an access or a local step of thread `t` touches neither the locks nor other threads -/
theorem fire_plain (wv : WriteFn) (s : State) (t : Nat) (b : Action) (r : Thread)
    (hb : b.access ≠ none ∨ b = .tau) :
    (fire wv s t b r).owner = s.owner ∧ (fire wv s t b r).readers = s.readers ∧
    (fire wv s t b r).pending = s.pending ∧ canFire s t b = true ∧ opLen (b :: r) = opLen r + 1 := by
  cases b with
  | read x => exact ⟨rfl, rfl, rfl, rfl, rfl⟩
  | write x => exact ⟨rfl, rfl, rfl, rfl, rfl⟩
  | tau => exact ⟨rfl, rfl, rfl, rfl, rfl⟩
  | lock l => simp [Action.access] at hb
  | unlock l => simp [Action.access] at hb
  | rlock l => simp [Action.access] at hb
  | runlock l => simp [Action.access] at hb

/-- a state reachable by any schedule: a sequential state, or one plus a proper prefix of one
operation of one thread -/
def Good (wv : WriteFn) (l : Nat) (s s' : State) : Prop :=
  (BInv l s' ∧ ∃ order : List Nat, s' = order.foldl (stepOp wv) s) ∨
  (∃ (i : Nat) (s0 : State) (order : List Nat) (k : Nat),
      BInv l s0 ∧ s0 = order.foldl (stepOp wv) s ∧ s' = stepN wv s0 i k ∧ 0 < k ∧
      opLen (s'.rem.getD i []) + k = opLen (s0.rem.getD i []) ∧ 0 < opLen (s'.rem.getD i []) ∧
      MInv l s' i)

theorem good_step (wv : WriteFn) (l : Nat) (s s' : State) (t : Nat) (h : Good wv l s s') :
    Good wv l s (step wv s' t) := by
  rcases h with ⟨⟨hown, hnord, hnopd, hshape⟩, order, hord⟩ |
    ⟨i, s0, order, k, hb0, hs0, hs', hk, hlen, hpos, hown, hnord, hnopd, ⟨ti, hti, hshi⟩, hoth⟩
  · -- sequential state
    cases hr : s'.rem[t]? with
    | none => left; simp only [step, hr]; exact ⟨⟨hown, hnord, hnopd, hshape⟩, order, hord⟩
    | some tt =>
      cases tt with
      | nil => left; simp only [step, hr]; exact ⟨⟨hown, hnord, hnopd, hshape⟩, order, hord⟩
      | cons a r =>
        obtain ⟨rfl, hr'⟩ := opsShape_false_cons l a r (hshape t _ hr)
        right
        have hstep : step wv s' t = fire wv s' t (.lock l) r :=
          step_fire wv s' t _ r hr (by simp [canFire, hown, hnord, hnopd])
        have hget : (s'.rem.set t r)[t]? = some r := set_self_getElem? _ _ _ _ hr
        refine ⟨t, s', order, 1, ⟨hown, hnord, hnopd, hshape⟩, hord, rfl, Nat.one_pos, ?_, ?_, ?_⟩
        · rw [hstep]
          simp only [fire_rem, getD_of_getElem? _ _ _ _ hget, getD_of_getElem? _ _ _ _ hr, opLen]
        · rw [hstep]
          simp only [fire_rem, getD_of_getElem? _ _ _ _ hget]
          exact opLen_pos_of_inside l r hr'
        · rw [hstep]
          refine ⟨by simp [fire], by simpa [fire] using hnord, by simp [fire], ⟨r, by simpa using hget, hr'⟩, ?_⟩
          intro j tj hj hjt
          simp only [fire_rem] at hjt
          rcases getElem?_set_cases _ _ _ _ _ hjt with ⟨e, _⟩ | ⟨_, hjt'⟩
          · exact absurd e hj
          · exact hshape j tj hjt'
  · -- inside an operation of thread i
    by_cases hti' : t = i
    · subst hti'
      obtain ⟨b, r, rfl, hcase⟩ := opsShape_true_cons l ti hshi
      have hget : (s'.rem.set t r)[t]? = some r := set_self_getElem? _ _ _ _ hti
      have hnext : step wv s' t = stepN wv s0 t (k + 1) := by rw [stepN_succ_right, ← hs']
      rcases hcase with ⟨rfl, hr'⟩ | ⟨hplain, hr'⟩
      · -- the unlock: the operation is complete
        left
        have hstep : step wv s' t = fire wv s' t (.unlock l) r :=
          step_fire wv s' t _ r hti (by simp [canFire, hown])
        refine ⟨?_, order ++ [t], ?_⟩
        · rw [hstep]
          refine ⟨by simp [fire], by simpa [fire] using hnord, by simpa [fire] using hnopd, ?_⟩
          intro j tj hjt
          simp only [fire_rem] at hjt
          rcases getElem?_set_cases _ _ _ _ _ hjt with ⟨_, rfl⟩ | ⟨hne, hjt'⟩
          · exact hr'
          · exact hoth j tj hne hjt'
        · rw [List.foldl_append, ← hs0]
          simp only [List.foldl_cons, List.foldl_nil, stepOp]
          rw [hnext]
          simp only [getD_of_getElem? _ _ _ _ hti, opLen] at hlen
          rw [← hlen, Nat.add_comm]
      · -- an access or a local step: still inside
        right
        obtain ⟨fo, frd, fpd, fcan, hlen'⟩ := fire_plain wv s' t b r hplain
        have hstep : step wv s' t = fire wv s' t b r := step_fire wv s' t b r hti fcan
        refine ⟨t, s0, order, k + 1, hb0, hs0, hnext, Nat.succ_pos _, ?_, ?_, ?_⟩
        · rw [hstep]
          simp only [fire_rem, getD_of_getElem? _ _ _ _ hget]
          simp only [getD_of_getElem? _ _ _ _ hti, hlen'] at hlen
          omega
        · rw [hstep]
          simp only [fire_rem, getD_of_getElem? _ _ _ _ hget]
          exact opLen_pos_of_inside l r hr'
        · rw [hstep]
          refine ⟨by rw [fo]; exact hown, by rw [frd]; exact hnord, by rw [fpd]; exact hnopd,
            ⟨r, by simpa using hget, hr'⟩, ?_⟩
          intro j tj hj hjt
          simp only [fire_rem] at hjt
          rcases getElem?_set_cases _ _ _ _ _ hjt with ⟨e, _⟩ | ⟨_, hjt'⟩
          · exact absurd e hj
          · exact hoth j tj hj hjt'
    · -- another thread: finished or blocked on the lock
      have hnoop : step wv s' t = s' := by
        cases hr : s'.rem[t]? with
        | none => simp only [step, hr]
        | some tt =>
          cases tt with
          | nil => simp only [step, hr]
          | cons a r =>
            obtain ⟨rfl, _⟩ := opsShape_false_cons l a r (hoth t _ hti' hr)
            rw [step_blocked wv s' t _ r hr (by simp [canFire, hown])]
            simp [announce, hown]
      rw [hnoop]
      right
      exact ⟨i, s0, order, k, hb0, hs0, hs', hk, hlen, hpos, hown, hnord, hnopd, ⟨ti, hti, hshi⟩, hoth⟩

theorem good_runFrom (wv : WriteFn) (l : Nat) (s : State) (sched : List Nat) (s' : State)
    (h : Good wv l s s') : Good wv l s (runFrom wv s' sched) := by
  induction sched generalizing s' with
  | nil => exact h
  | cons t rest ih => exact ih _ (good_step wv l s s' t h)

theorem binv_init (l : Nat) (p : Prog) (h : OpsProg l p) : BInv l (init p) :=
  ⟨rfl, rfl, rfl, fun _ t ht => h t (List.mem_of_getElem? ht)⟩

theorem good_run (wv : WriteFn) (l : Nat) (p : Prog) (h : OpsProg l p) (sched : List Nat) :
    Good wv l (init p) (run wv p sched) :=
  good_runFrom wv l (init p) sched (init p) (Or.inl ⟨binv_init l p h, [], rfl⟩)

end J5V.Conc.Sched
