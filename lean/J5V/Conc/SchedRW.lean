import J5V.Conc.SchedProofs
/-! Reader/writer operations (core only): when every operation is a write section or a read-only
read section of `l`, write sections run in isolation (while a thread is inside one, no step of
another thread touches the memory or anybody's observations) and read sections see one snapshot
of the memory (nothing is written while a read lock is held). -/
namespace J5V.Conc.Sched

theorem disc_rwOps (l : Nat) : Disc l (rwOpsShape l) where
  lock := by intro m r h; cases m <;> simp_all [rwOpsShape]
  unlock := by intro m r h; cases m <;> simp_all [rwOpsShape]
  rlock := by intro m r h; cases m <;> simp_all [rwOpsShape]
  runlock := by intro m r h; cases m <;> simp_all [rwOpsShape]
  other := by
    intro m a r h1 h2 h3 h4 h
    cases m <;> cases a <;> simp_all [rwOpsShape]

/-- the shape is an instance of the reader/writer discipline -/
theorem rwOps_guarded (l : Nat) (m : Mode) (t : Thread) (h : rwOpsShape l m t = true) :
    pubGuardedFrom l (fun _ => false) m t = true := by
  induction t generalizing m with
  | nil => cases m <;> simp_all [rwOpsShape, pubGuardedFrom]
  | cons a r ih =>
    cases m <;> cases a <;> simp_all [rwOpsShape, pubGuardedFrom]

theorem rwOpsProg_guarded (l : Nat) (p : Prog) (h : RWOpsProg l p) : RWGuardedBy l p :=
  fun t ht => rwOps_guarded l .N t (h t ht)

/-- while thread `i` is inside a write section, a step of any other thread changes neither the
memory nor anybody's observations -/
theorem rw_write_isolated (wv : WriteFn) (l : Nat) (s : State) (h : GIx l (rwOpsShape l) s) (i j : Nat)
    (hi : s.owner l = some i) (hij : j ≠ i) : (step wv s j).mem = s.mem ∧ (step wv s j).logs = s.logs := by
  rcases step_cases wv s j with h0 | ⟨a, r, ha, hc, hs⟩ | ⟨a, r, _, _, hs⟩
  · rw [h0]; exact ⟨rfl, rfl⟩
  · have hN : modeOf l s j = .N :=
      (modeOf_N ..).mpr ⟨by rw [hi]; simpa using Ne.symm hij, by rw [h.2.1 i hi]; simp⟩
    have hsh := h.1 j _ ha
    rw [hN] at hsh
    rw [hs]
    cases a with
    | lock l' =>
      simp only [rwOpsShape, Bool.and_eq_true, decide_eq_true_eq] at hsh
      obtain ⟨rfl, _⟩ := hsh
      simp [canFire, hi] at hc
    | rlock l' =>
      simp only [rwOpsShape, Bool.and_eq_true, decide_eq_true_eq] at hsh
      obtain ⟨rfl, _⟩ := hsh
      simp [canFire, hi] at hc
    | tau => exact ⟨rfl, rfl⟩
    | unlock l' => simp [rwOpsShape] at hsh
    | runlock l' => simp [rwOpsShape] at hsh
    | read x => simp [rwOpsShape] at hsh
    | write x => simp [rwOpsShape] at hsh
  · rw [hs]
    obtain ⟨pd, hpd⟩ := announce_eq s j a
    rw [hpd]; exact ⟨rfl, rfl⟩

/-- while somebody holds a read lock, no step of any thread changes the memory -/
theorem rw_read_snapshot (wv : WriteFn) (l : Nat) (s : State) (h : GIx l (rwOpsShape l) s) (j : Nat)
    (hr : s.readers l ≠ []) : (step wv s j).mem = s.mem := by
  apply step_mem_of_not_write
  intro x r hx
  have hsh := h.1 j _ hx
  cases hm : modeOf l s j with
  | W => exact hr (h.2.1 j ((modeOf_W ..).mp hm))
  | R => rw [hm] at hsh; simp [rwOpsShape] at hsh
  | N => rw [hm] at hsh; simp [rwOpsShape] at hsh

end J5V.Conc.Sched
