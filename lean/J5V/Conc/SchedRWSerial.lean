import J5V.Conc.SchedRW
import J5V.Conc.SchedSerial
/-! Serialisability of reader/writer operations (core only): when every operation is a write
section, a read-only read section or a local step, the result of every schedule — memory, every
thread's observations, what is left of every thread — is the result of running the operations one
at a time in the order in which they completed. Read sections may overlap; they commute because a
reader touches only its own program counter and log, and nothing is written while it is inside. -/
namespace J5V.Conc.Sched

/-- the two states look the same to thread `j` -/
structure Agree (j : Nat) (a b : State) : Prop where
  rem : a.rem[j]? = b.rem[j]?
  logs : a.logs j = b.logs j
  mem : a.mem = b.mem
  owner : a.owner = b.owner
  readers : a.readers = b.readers
  pending : a.pending = b.pending

theorem canFire_agree (j : Nat) (a b : State) (h : Agree j a b) (act : Action) :
    canFire a j act = canFire b j act := by
  cases act <;> simp [canFire, h.owner, h.readers, h.pending]

theorem step_agree (wv : WriteFn) (a b : State) (j : Nat) (h : Agree j a b) :
    Agree j (step wv a j) (step wv b j) := by
  cases ha : a.rem[j]? with
  | none =>
    have hb : b.rem[j]? = none := by rw [← h.rem]; exact ha
    simp only [step, ha, hb]; exact h
  | some t =>
    have hb : b.rem[j]? = some t := by rw [← h.rem]; exact ha
    cases t with
    | nil => simp only [step, ha, hb]; exact h
    | cons act r =>
      have hcf := canFire_agree j a b h act
      cases hc : canFire a j act with
      | true =>
        rw [step_fire wv a j act r ha hc, step_fire wv b j act r hb (by rw [← hcf]; exact hc)]
        have hrem : (fire wv a j act r).rem[j]? = (fire wv b j act r).rem[j]? := by
          simp only [fire_rem]
          rw [set_self_getElem? _ _ _ _ ha, set_self_getElem? _ _ _ _ hb]
        refine ⟨hrem, ?_, ?_, ?_, ?_, ?_⟩ <;> cases act <;>
          simp [fire, h.logs, h.mem, h.owner, h.readers, h.pending]
      | false =>
        rw [step_blocked wv a j act r ha hc, step_blocked wv b j act r hb (by rw [← hcf]; exact hc)]
        cases act with
        | lock l =>
          simp only [announce]
          by_cases hcond : a.owner l = none ∧ a.pending l = none
          · have hcond' : b.owner l = none ∧ b.pending l = none := by rw [← h.owner, ← h.pending]; exact hcond
            rw [if_pos hcond, if_pos hcond']
            exact ⟨h.rem, h.logs, h.mem, h.owner, h.readers, by simp [h.pending]⟩
          · have hcond' : ¬ (b.owner l = none ∧ b.pending l = none) := by rw [← h.owner, ← h.pending]; exact hcond
            rw [if_neg hcond, if_neg hcond']
            exact h
        | _ => exact h

theorem stepN_agree (wv : WriteFn) (j k : Nat) (a b : State) (h : Agree j a b) :
    Agree j (stepN wv a j k) (stepN wv b j k) := by
  induction k generalizing a b with
  | zero => exact h
  | succ k ih => exact ih _ _ (step_agree wv a b j h)

/-- a step of thread `t` does not touch what another thread has left to do or has read -/
theorem step_other (wv : WriteFn) (a : State) (t j : Nat) (hjt : j ≠ t) :
    (step wv a t).rem[j]? = a.rem[j]? ∧ (step wv a t).logs j = a.logs j := by
  rcases step_cases wv a t with h0 | ⟨act, r, _, _, hs⟩ | ⟨act, r, _, _, hs⟩
  · rw [h0]; exact ⟨rfl, rfl⟩
  · rw [hs]
    refine ⟨by simp only [fire_rem]; exact List.getElem?_set_ne (Ne.symm hjt), ?_⟩
    cases act <;> simp [fire, upd, hjt]
  · rw [hs]
    obtain ⟨pd, hpd⟩ := announce_eq a t act
    rw [hpd]; exact ⟨rfl, rfl⟩

theorem stepN_other (wv : WriteFn) (t j k : Nat) (a : State) (hjt : j ≠ t) :
    (stepN wv a t k).rem[j]? = a.rem[j]? ∧ (stepN wv a t k).logs j = a.logs j := by
  induction k generalizing a with
  | zero => exact ⟨rfl, rfl⟩
  | succ k ih =>
    obtain ⟨h1, h2⟩ := ih (step wv a t)
    obtain ⟨h3, h4⟩ := step_other wv a t j hjt
    exact ⟨h1.trans h3, h2.trans h4⟩

theorem getD_congr {α : Type} (xs ys : List α) (j : Nat) (d : α) (h : xs[j]? = ys[j]?) :
    xs.getD j d = ys.getD j d := by
  simp [List.getD_eq_getElem?_getD, h]


/-- a fired step of thread `t` does not change how another thread holds `l` -/
theorem mode_other (wv : WriteFn) (l : Nat) (D : Mode → Thread → Bool) (s : State) (t j : Nat) (act : Action)
    (r : Thread) (hg : GIx l D s) (hc : canFire s t act = true) (hjt : j ≠ t) :
    modeOf l (fire wv s t act r) j = modeOf l s j := by
  cases act with
  | lock l' =>
    by_cases hl : l' = l
    · subst hl
      simp only [canFire, Bool.and_eq_true, decide_eq_true_eq] at hc
      obtain ⟨⟨hfree, hnord⟩, _⟩ := hc
      have h1 : modeOf l' s j = .N := (modeOf_N l' s j).mpr ⟨by simp [hfree], by simp [hnord]⟩
      have h2 : modeOf l' (fire wv s t (.lock l') r) j = .N :=
        (modeOf_N l' _ j).mpr ⟨by simp [fire, Ne.symm hjt], by simp [fire, hnord]⟩
      rw [h1, h2]
    · exact modeOf_congr l s _ j (by simp [fire, upd, Ne.symm hl]) (by simp [fire])
  | unlock l' =>
    by_cases hl : l' = l
    · subst hl
      simp only [canFire, decide_eq_true_eq] at hc
      have hnord := hg.2.1 t hc
      have h1 : modeOf l' s j = .N := (modeOf_N l' s j).mpr ⟨by simp [hc, Ne.symm hjt], by simp [hnord]⟩
      have h2 : modeOf l' (fire wv s t (.unlock l') r) j = .N :=
        (modeOf_N l' _ j).mpr ⟨by simp [fire], by simp [fire, hnord]⟩
      rw [h1, h2]
    · exact modeOf_congr l s _ j (by simp [fire, upd, Ne.symm hl]) (by simp [fire])
  | rlock l' =>
    by_cases hl : l' = l
    · subst hl; unfold modeOf; simp [fire, hjt]
    · exact modeOf_congr l s _ j (by simp [fire]) (by simp [fire, upd, Ne.symm hl])
  | runlock l' =>
    by_cases hl : l' = l
    · subst hl; unfold modeOf; simp [fire, List.mem_erase_of_ne hjt]
    · exact modeOf_congr l s _ j (by simp [fire]) (by simp [fire, upd, Ne.symm hl])
  | read x => exact modeOf_congr l s _ j rfl rfl
  | write x => exact modeOf_congr l s _ j rfl rfl
  | tau => exact modeOf_congr l s _ j rfl rfl

/-- Thread `j` is inside a read section: running alone from the sequential state `q` for `k > 0`
steps brings it to where it is in `s`, with the same observations. -/
def InR (wv : WriteFn) (l : Nat) (s q : State) (j : Nat) : Prop :=
  ∃ (k : Nat) (ts : Thread), 0 < k ∧ s.rem[j]? = some ts ∧ (stepN wv q j k).rem[j]? = some ts ∧
    s.logs j = (stepN wv q j k).logs j ∧ opLenRW (q.rem.getD j []) = k + secLen ts ∧
    (stepN wv q j k).mem = q.mem ∧ (stepN wv q j k).owner = q.owner ∧
    (stepN wv q j k).pending = q.pending ∧ (stepN wv q j k).readers = upd q.readers l [j]

/-- Thread `j` is inside a write section: the same, and the memory is what its solo run produced. -/
def InW (wv : WriteFn) (l : Nat) (s q : State) (j : Nat) : Prop :=
  ∃ (k : Nat) (ts : Thread), 0 < k ∧ s.rem[j]? = some ts ∧ (stepN wv q j k).rem[j]? = some ts ∧
    s.logs j = (stepN wv q j k).logs j ∧ s.mem = (stepN wv q j k).mem ∧
    opLenRW (q.rem.getD j []) = k + secLen ts ∧
    (stepN wv q j k).owner l = some j ∧ (stepN wv q j k).readers l = [] ∧ (stepN wv q j k).pending l = none

/-- the concurrent state `s` against the sequential state `q` of the operations completed so far -/
structure RelRW (wv : WriteFn) (l : Nat) (s q : State) : Prop where
  qo : q.owner l = none
  qr : q.readers l = []
  qp : q.pending l = none
  mem : s.owner l = none → s.mem = q.mem
  shape : ∀ (j : Nat) (t : Thread), q.rem[j]? = some t → rwOpsShape l .N t = true
  thrN : ∀ j, modeOf l s j = .N → s.rem[j]? = q.rem[j]? ∧ s.logs j = q.logs j
  thrR : ∀ j, modeOf l s j = .R → InR wv l s q j
  thrW : ∀ j, modeOf l s j = .W → InW wv l s q j

theorem inR_frame (wv : WriteFn) (l : Nat) (s s' q : State) (j : Nat) (h1 : s'.rem[j]? = s.rem[j]?)
    (h2 : s'.logs j = s.logs j) (h : InR wv l s q j) : InR wv l s' q j := by
  obtain ⟨k, ts, hk, hs, rest⟩ := h
  exact ⟨k, ts, hk, by rw [h1]; exact hs, by rw [h2]; exact rest⟩

theorem inW_frame (wv : WriteFn) (l : Nat) (s s' q : State) (j : Nat) (h1 : s'.rem[j]? = s.rem[j]?)
    (h2 : s'.logs j = s.logs j) (h3 : s'.mem = s.mem) (h : InW wv l s q j) : InW wv l s' q j := by
  obtain ⟨k, ts, hk, hs, hu, hl, hm, rest⟩ := h
  exact ⟨k, ts, hk, by rw [h1]; exact hs, hu, by rw [h2]; exact hl, by rw [h3]; exact hm, rest⟩

theorem inR_transport (wv : WriteFn) (l : Nat) (s q q' : State) (j : Nat) (h : Agree j q q')
    (hr : InR wv l s q j) : InR wv l s q' j := by
  obtain ⟨k, ts, hk, hs, hu, hl, hlen, hm, ho, hp, hrd⟩ := hr
  have ha := stepN_agree wv j k q q' h
  exact ⟨k, ts, hk, hs, by rw [← ha.rem]; exact hu, by rw [hl, ha.logs],
    by rw [← getD_congr _ _ _ _ h.rem]; exact hlen, by rw [← ha.mem, hm, h.mem],
    by rw [← ha.owner, ho, h.owner], by rw [← ha.pending, hp, h.pending], by rw [← ha.readers, hrd, h.readers]⟩

theorem inW_transport (wv : WriteFn) (l : Nat) (s q q' : State) (j : Nat) (h : Agree j q q')
    (hr : InW wv l s q j) : InW wv l s q' j := by
  obtain ⟨k, ts, hk, hs, hu, hl, hm, hlen, ho, hrd, hp⟩ := hr
  have ha := stepN_agree wv j k q q' h
  exact ⟨k, ts, hk, hs, by rw [← ha.rem]; exact hu, by rw [hl, ha.logs], by rw [hm, ha.mem],
    by rw [← getD_congr _ _ _ _ h.rem]; exact hlen, by rw [← ha.owner]; exact ho,
    by rw [← ha.readers]; exact hrd, by rw [← ha.pending]; exact hp⟩

theorem stepN_one (wv : WriteFn) (q : State) (t : Nat) : stepN wv q t 1 = step wv q t := rfl

theorem secLen_plain (act : Action) (r : Thread) (h : act.access ≠ none ∨ act = .tau) :
    secLen (act :: r) = secLen r + 1 := by
  cases act <;> simp_all [secLen, Action.access]

theorem relRW_init (wv : WriteFn) (l : Nat) (p : Prog) (h : RWOpsProg l p) : RelRW wv l (init p) (init p) where
  qo := rfl
  qr := rfl
  qp := rfl
  mem := fun _ => rfl
  shape := fun _ t ht => h t (List.mem_of_getElem? ht)
  thrN := fun _ _ => ⟨rfl, rfl⟩
  thrR := fun j hj => by simp [modeOf, init] at hj
  thrW := fun j hj => by simp [modeOf, init] at hj


theorem fire_other (wv : WriteFn) (a : State) (t j : Nat) (act : Action) (r : Thread) (hjt : j ≠ t) :
    (fire wv a t act r).rem[j]? = a.rem[j]? ∧ (fire wv a t act r).logs j = a.logs j := by
  refine ⟨by simp only [fire_rem]; exact List.getElem?_set_ne (Ne.symm hjt), ?_⟩
  cases act <;> simp [fire, upd, hjt]

/-- a local step between operations: an operation of its own -/
theorem rel_tau (wv : WriteFn) (l : Nat) (s q : State) (t : Nat) (r : Thread) (hr : RelRW wv l s q)
    (ht : s.rem[t]? = some (.tau :: r)) (hm : modeOf l s t = .N) :
    RelRW wv l (fire wv s t .tau r) (stepOpRW wv q t) := by
  have hN := hr.thrN t hm
  have hqt : q.rem[t]? = some (.tau :: r) := by rw [← hN.1]; exact ht
  have hq' : stepOpRW wv q t = fire wv q t .tau r := by
    unfold stepOpRW
    rw [getD_of_getElem? _ _ _ _ hqt]
    show stepN wv q t 1 = _
    rw [stepN_one, step_fire wv q t _ r hqt rfl]
  rw [hq']
  have hshape_r : rwOpsShape l .N r = true := by
    have := hr.shape t _ hqt; simpa [rwOpsShape] using this
  have hmode : ∀ j, modeOf l (fire wv s t .tau r) j = modeOf l s j := fun j => modeOf_congr l s _ j rfl rfl
  have hag : ∀ j, j ≠ t → Agree j q (fire wv q t .tau r) := fun j hjt =>
    ⟨by simp only [fire_rem]; exact (List.getElem?_set_ne (Ne.symm hjt)).symm, rfl, rfl, rfl, rfl, rfl⟩
  refine ⟨hr.qo, hr.qr, hr.qp, hr.mem, ?_, ?_, ?_, ?_⟩
  · intro j tj hj
    simp only [fire_rem] at hj
    rcases getElem?_set_cases _ _ _ _ _ hj with ⟨rfl, rfl⟩ | ⟨_, hj'⟩
    · exact hshape_r
    · exact hr.shape j tj hj'
  · intro j hj
    rw [hmode] at hj
    by_cases hjt : j = t
    · subst hjt
      refine ⟨?_, hN.2⟩
      simp only [fire_rem]
      rw [set_self_getElem? _ _ _ _ ht, set_self_getElem? _ _ _ _ hqt]
    · have := hr.thrN j hj
      obtain ⟨h1, h2⟩ := fire_other wv s t j .tau r hjt
      obtain ⟨h3, h4⟩ := fire_other wv q t j .tau r hjt
      exact ⟨by rw [h1, h3]; exact this.1, by rw [h2, h4]; exact this.2⟩
  · intro j hj
    rw [hmode] at hj
    have hjt : j ≠ t := by intro e; subst e; rw [hm] at hj; cases hj
    obtain ⟨h1, h2⟩ := fire_other wv s t j .tau r hjt
    exact inR_transport wv l _ q _ j (hag j hjt) (inR_frame wv l s _ q j h1 h2 (hr.thrR j hj))
  · intro j hj
    rw [hmode] at hj
    have hjt : j ≠ t := by intro e; subst e; rw [hm] at hj; cases hj
    obtain ⟨h1, h2⟩ := fire_other wv s t j .tau r hjt
    exact inW_transport wv l _ q _ j (hag j hjt) (inW_frame wv l s _ q j h1 h2 rfl (hr.thrW j hj))

/-- entering a write section -/
theorem rel_lock (wv : WriteFn) (l : Nat) (s q : State) (t : Nat) (r : Thread)
    (hg : GIx l (rwOpsShape l) s) (hr : RelRW wv l s q)
    (ht : s.rem[t]? = some (.lock l :: r)) (hm : modeOf l s t = .N) (hc : canFire s t (.lock l) = true) :
    RelRW wv l (fire wv s t (.lock l) r) q := by
  have hN := hr.thrN t hm
  have hqt : q.rem[t]? = some (.lock l :: r) := by rw [← hN.1]; exact ht
  have hc' := hc
  simp only [canFire, Bool.and_eq_true, decide_eq_true_eq] at hc'
  obtain ⟨⟨hfree, hnord⟩, _⟩ := hc'
  have hallN : ∀ j, modeOf l s j = .N := fun j => (modeOf_N l s j).mpr ⟨by simp [hfree], by simp [hnord]⟩
  have hmodeT : modeOf l (fire wv s t (.lock l) r) t = .W := (modeOf_W ..).mpr (by simp [fire])
  have hmodeO : ∀ j, j ≠ t → modeOf l (fire wv s t (.lock l) r) j = .N := fun j hjt => by
    rw [mode_other wv l _ s t j _ r hg hc hjt]; exact hallN j
  have hcq : canFire q t (.lock l) = true := by simp [canFire, hr.qo, hr.qr, hr.qp]
  have hu : stepN wv q t 1 = fire wv q t (.lock l) r := by rw [stepN_one, step_fire _ _ _ _ _ hqt hcq]
  refine ⟨hr.qo, hr.qr, hr.qp, ?_, hr.shape, ?_, ?_, ?_⟩
  · intro h; simp [fire] at h
  · intro j hj
    by_cases hjt : j = t
    · subst hjt; rw [hmodeT] at hj; cases hj
    · obtain ⟨h1, h2⟩ := fire_other wv s t j (.lock l) r hjt
      have := hr.thrN j (hallN j)
      exact ⟨by rw [h1]; exact this.1, by rw [h2]; exact this.2⟩
  · intro j hj
    by_cases hjt : j = t
    · subst hjt; rw [hmodeT] at hj; cases hj
    · rw [hmodeO j hjt] at hj; cases hj
  · intro j hj
    by_cases hjt : j = t
    · subst hjt
      refine ⟨1, r, Nat.one_pos, by simp only [fire_rem]; exact set_self_getElem? _ _ _ _ ht,
        by rw [hu]; simp only [fire_rem]; exact set_self_getElem? _ _ _ _ hqt, ?_, ?_, ?_, ?_, ?_, ?_⟩
      · rw [hu]; exact hN.2
      · rw [hu]; exact hr.mem hfree
      · rw [getD_of_getElem? _ _ _ _ hqt]; simp only [opLenRW]; omega
      · rw [hu]; simp [fire]
      · rw [hu]; simpa [fire] using hr.qr
      · rw [hu]; simp [fire]
    · rw [hmodeO j hjt] at hj; cases hj

/-- entering a read section -/
theorem rel_rlock (wv : WriteFn) (l : Nat) (s q : State) (t : Nat) (r : Thread)
    (hg : GIx l (rwOpsShape l) s) (hr : RelRW wv l s q)
    (ht : s.rem[t]? = some (.rlock l :: r)) (hm : modeOf l s t = .N) (hc : canFire s t (.rlock l) = true) :
    RelRW wv l (fire wv s t (.rlock l) r) q := by
  have hN := hr.thrN t hm
  have hqt : q.rem[t]? = some (.rlock l :: r) := by rw [← hN.1]; exact ht
  have hc' := hc
  simp only [canFire, Bool.and_eq_true, decide_eq_true_eq] at hc'
  obtain ⟨hfree, _⟩ := hc'
  have hmodeT : modeOf l (fire wv s t (.rlock l) r) t = .R :=
    (modeOf_R ..).mpr ⟨by simp [fire, hfree], by simp [fire]⟩
  have hmodeO : ∀ j, j ≠ t → modeOf l (fire wv s t (.rlock l) r) j = modeOf l s j := fun j hjt =>
    mode_other wv l _ s t j _ r hg hc hjt
  have hcq : canFire q t (.rlock l) = true := by simp [canFire, hr.qo, hr.qp]
  have hu : stepN wv q t 1 = fire wv q t (.rlock l) r := by rw [stepN_one, step_fire _ _ _ _ _ hqt hcq]
  refine ⟨hr.qo, hr.qr, hr.qp, fun _ => hr.mem hfree, hr.shape, ?_, ?_, ?_⟩
  · intro j hj
    by_cases hjt : j = t
    · subst hjt; rw [hmodeT] at hj; cases hj
    · rw [hmodeO j hjt] at hj
      obtain ⟨h1, h2⟩ := fire_other wv s t j (.rlock l) r hjt
      have := hr.thrN j hj
      exact ⟨by rw [h1]; exact this.1, by rw [h2]; exact this.2⟩
  · intro j hj
    by_cases hjt : j = t
    · subst hjt
      refine ⟨1, r, Nat.one_pos, by simp only [fire_rem]; exact set_self_getElem? _ _ _ _ ht,
        by rw [hu]; simp only [fire_rem]; exact set_self_getElem? _ _ _ _ hqt, ?_, ?_, ?_, ?_, ?_, ?_⟩
      · rw [hu]; exact hN.2
      · rw [getD_of_getElem? _ _ _ _ hqt]; simp only [opLenRW]; omega
      · rw [hu]; rfl
      · rw [hu]; rfl
      · rw [hu]; rfl
      · rw [hu]; simp [fire, hr.qr]
    · rw [hmodeO j hjt] at hj
      obtain ⟨h1, h2⟩ := fire_other wv s t j (.rlock l) r hjt
      exact inR_frame wv l s _ q j h1 h2 (hr.thrR j hj)
  · intro j hj
    by_cases hjt : j = t
    · subst hjt; rw [hmodeT] at hj; cases hj
    · rw [hmodeO j hjt] at hj
      have := (modeOf_W ..).mp hj
      rw [hfree] at this; cases this


/-- an access or a local step inside a write section -/
theorem rel_wplain (wv : WriteFn) (l : Nat) (s q : State) (t : Nat) (act : Action) (r : Thread)
    (hg : GIx l (rwOpsShape l) s) (hr : RelRW wv l s q) (ht : s.rem[t]? = some (act :: r))
    (hm : modeOf l s t = .W) (hp : act.access ≠ none ∨ act = .tau) :
    RelRW wv l (fire wv s t act r) q := by
  obtain ⟨k, ts, hk, hsrem, hurem, hlogs, hmem, hlen, huo, hur, hup⟩ := hr.thrW t hm
  have hts : ts = act :: r := by rw [ht] at hsrem; exact (Option.some.inj hsrem).symm
  subst hts
  obtain ⟨fo, frd, _, fcan, _⟩ := fire_plain wv s t act r hp
  obtain ⟨fo', frd', fpd', fcan', _⟩ := fire_plain wv (stepN wv q t k) t act r hp
  have hu' : stepN wv q t (k + 1) = fire wv (stepN wv q t k) t act r := by
    rw [stepN_succ_right, step_fire _ _ _ _ _ hurem fcan']
  have hown : s.owner l = some t := (modeOf_W ..).mp hm
  have hnord := hg.2.1 t hown
  have hmode : ∀ j, modeOf l (fire wv s t act r) j = modeOf l s j :=
    fun j => modeOf_congr l s _ j (by rw [fo]) (by rw [frd])
  refine ⟨hr.qo, hr.qr, hr.qp, ?_, hr.shape, ?_, ?_, ?_⟩
  · intro h; rw [fo, hown] at h; cases h
  · intro j hj
    rw [hmode] at hj
    have hjt : j ≠ t := by intro e; subst e; rw [hm] at hj; cases hj
    obtain ⟨h1, h2⟩ := fire_other wv s t j act r hjt
    have := hr.thrN j hj
    exact ⟨by rw [h1]; exact this.1, by rw [h2]; exact this.2⟩
  · intro j hj
    rw [hmode] at hj
    have := (modeOf_R ..).mp hj
    rw [hnord] at this; simp at this
  · intro j hj
    rw [hmode] at hj
    have hjo := (modeOf_W ..).mp hj
    rw [hown] at hjo
    have hjt : t = j := Option.some.inj hjo
    subst hjt
    have hboth : (fire wv s t act r).logs t = (fire wv (stepN wv q t k) t act r).logs t ∧
        (fire wv s t act r).mem = (fire wv (stepN wv q t k) t act r).mem := by
      cases act <;> simp_all [fire, Action.access]
    refine ⟨k + 1, r, Nat.succ_pos _, by simp only [fire_rem]; exact set_self_getElem? _ _ _ _ ht,
      by rw [hu']; simp only [fire_rem]; exact set_self_getElem? _ _ _ _ hurem, ?_, ?_, ?_, ?_, ?_, ?_⟩
    · rw [hu']; exact hboth.1
    · rw [hu']; exact hboth.2
    · rw [secLen_plain act r hp] at hlen; omega
    · rw [hu', fo']; exact huo
    · rw [hu', frd']; exact hur
    · rw [hu', fpd']; exact hup

/-- leaving a write section: the operation is complete and joins the sequential order -/
theorem rel_unlock (wv : WriteFn) (l : Nat) (s q : State) (t : Nat) (r : Thread)
    (hg : GIx l (rwOpsShape l) s) (hr : RelRW wv l s q) (ht : s.rem[t]? = some (.unlock l :: r))
    (hm : modeOf l s t = .W) : RelRW wv l (fire wv s t (.unlock l) r) (stepOpRW wv q t) := by
  obtain ⟨k, ts, hk, hsrem, hurem, hlogs, hmem, hlen, huo, hur, hup⟩ := hr.thrW t hm
  have hts : ts = .unlock l :: r := by rw [ht] at hsrem; exact (Option.some.inj hsrem).symm
  subst hts
  have hcu : canFire (stepN wv q t k) t (.unlock l) = true := by simp [canFire, huo]
  have hq' : stepOpRW wv q t = fire wv (stepN wv q t k) t (.unlock l) r := by
    unfold stepOpRW
    have : opLenRW (q.rem.getD t []) = k + 1 := by simpa [secLen] using hlen
    rw [this, stepN_succ_right, step_fire _ _ _ _ _ hurem hcu]
  rw [hq']
  have hown : s.owner l = some t := (modeOf_W ..).mp hm
  have hnord := hg.2.1 t hown
  have hshape_r : rwOpsShape l .N r = true := by
    have := hg.1 t _ ht; rw [hm] at this; simpa [rwOpsShape] using this
  have hallN : ∀ j, modeOf l (fire wv s t (.unlock l) r) j = .N :=
    fun j => (modeOf_N ..).mpr ⟨by simp [fire], by simp [fire, hnord]⟩
  refine ⟨by simp [fire], by simpa [fire] using hur, by simpa [fire] using hup, fun _ => hmem, ?_, ?_, ?_, ?_⟩
  · intro j tj hj
    simp only [fire_rem] at hj
    rcases getElem?_set_cases _ _ _ _ _ hj with ⟨rfl, rfl⟩ | ⟨hjt, hj'⟩
    · exact hshape_r
    · rw [(stepN_other wv t j k q hjt).1] at hj'; exact hr.shape j tj hj'
  · intro j _
    by_cases hjt : j = t
    · subst hjt
      refine ⟨?_, hlogs⟩
      simp only [fire_rem]
      rw [set_self_getElem? _ _ _ _ ht, set_self_getElem? _ _ _ _ hurem]
    · have hjN : modeOf l s j = .N := (modeOf_N ..).mpr ⟨by simp [hown, Ne.symm hjt], by simp [hnord]⟩
      have := hr.thrN j hjN
      obtain ⟨h1, h2⟩ := fire_other wv s t j (.unlock l) r hjt
      obtain ⟨h3, h4⟩ := fire_other wv (stepN wv q t k) t j (.unlock l) r hjt
      obtain ⟨h5, h6⟩ := stepN_other wv t j k q hjt
      exact ⟨by rw [h1, h3, h5]; exact this.1, by rw [h2, h4, h6]; exact this.2⟩
  · intro j hj; rw [hallN j] at hj; cases hj
  · intro j hj; rw [hallN j] at hj; cases hj

/-- a read or a local step inside a read section -/
theorem rel_rplain (wv : WriteFn) (l : Nat) (s q : State) (t : Nat) (act : Action) (r : Thread)
    (hg : GIx l (rwOpsShape l) s) (hr : RelRW wv l s q) (ht : s.rem[t]? = some (act :: r))
    (hm : modeOf l s t = .R) (hp : (∃ x, act = .read x) ∨ act = .tau) :
    RelRW wv l (fire wv s t act r) q := by
  obtain ⟨k, ts, hk, hsrem, hurem, hlogs, hlen, hum, huo, hup, hurd⟩ := hr.thrR t hm
  have hts : ts = act :: r := by rw [ht] at hsrem; exact (Option.some.inj hsrem).symm
  subst hts
  have hp' : act.access ≠ none ∨ act = .tau := by
    rcases hp with ⟨x, rfl⟩ | rfl
    · left; simp [Action.access]
    · right; rfl
  obtain ⟨fo, frd, _, fcan, _⟩ := fire_plain wv s t act r hp'
  obtain ⟨fo', frd', fpd', fcan', _⟩ := fire_plain wv (stepN wv q t k) t act r hp'
  have hu' : stepN wv q t (k + 1) = fire wv (stepN wv q t k) t act r := by
    rw [stepN_succ_right, step_fire _ _ _ _ _ hurem fcan']
  have hfree : s.owner l = none := by
    cases hso : s.owner l with
    | none => rfl
    | some x =>
      have := (modeOf_R ..).mp hm
      rw [hg.2.1 x hso] at this; simp at this
  have hsm : s.mem = q.mem := hr.mem hfree
  have hmem' : (fire wv s t act r).mem = s.mem := by rcases hp with ⟨x, rfl⟩ | rfl <;> rfl
  have humem' : (fire wv (stepN wv q t k) t act r).mem = (stepN wv q t k).mem := by
    rcases hp with ⟨x, rfl⟩ | rfl <;> rfl
  have hmode : ∀ j, modeOf l (fire wv s t act r) j = modeOf l s j :=
    fun j => modeOf_congr l s _ j (by rw [fo]) (by rw [frd])
  refine ⟨hr.qo, hr.qr, hr.qp, fun _ => by rw [hmem']; exact hsm, hr.shape, ?_, ?_, ?_⟩
  · intro j hj
    rw [hmode] at hj
    have hjt : j ≠ t := by intro e; subst e; rw [hm] at hj; cases hj
    obtain ⟨h1, h2⟩ := fire_other wv s t j act r hjt
    have := hr.thrN j hj
    exact ⟨by rw [h1]; exact this.1, by rw [h2]; exact this.2⟩
  · intro j hj
    rw [hmode] at hj
    by_cases hjt : j = t
    · subst hjt
      have hl' : (fire wv s j act r).logs j = (fire wv (stepN wv q j k) j act r).logs j := by
        rcases hp with ⟨x, rfl⟩ | rfl
        · simp [fire, hlogs, hsm, hum]
        · exact hlogs
      refine ⟨k + 1, r, Nat.succ_pos _, by simp only [fire_rem]; exact set_self_getElem? _ _ _ _ ht,
        by rw [hu']; simp only [fire_rem]; exact set_self_getElem? _ _ _ _ hurem, ?_, ?_, ?_, ?_, ?_, ?_⟩
      · rw [hu']; exact hl'
      · rw [secLen_plain act r hp'] at hlen; omega
      · rw [hu', humem']; exact hum
      · rw [hu', fo']; exact huo
      · rw [hu', fpd']; exact hup
      · rw [hu', frd']; exact hurd
    · obtain ⟨h1, h2⟩ := fire_other wv s t j act r hjt
      exact inR_frame wv l s _ q j h1 h2 (hr.thrR j hj)
  · intro j hj
    rw [hmode] at hj
    have := (modeOf_W ..).mp hj
    rw [hfree] at this; cases this

/-- leaving a read section: the operation is complete and joins the sequential order; the other
readers' progress is carried over because the sequential state looks the same to them -/
theorem rel_runlock (wv : WriteFn) (l : Nat) (s q : State) (t : Nat) (r : Thread)
    (hg : GIx l (rwOpsShape l) s) (hr : RelRW wv l s q) (ht : s.rem[t]? = some (.runlock l :: r))
    (hm : modeOf l s t = .R) (hc : canFire s t (.runlock l) = true) :
    RelRW wv l (fire wv s t (.runlock l) r) (stepOpRW wv q t) := by
  obtain ⟨k, ts, hk, hsrem, hurem, hlogs, hlen, hum, huo, hup, hurd⟩ := hr.thrR t hm
  have hts : ts = .runlock l :: r := by rw [ht] at hsrem; exact (Option.some.inj hsrem).symm
  subst hts
  have hcu : canFire (stepN wv q t k) t (.runlock l) = true := by simp [canFire, hurd]
  have hq' : stepOpRW wv q t = fire wv (stepN wv q t k) t (.runlock l) r := by
    unfold stepOpRW
    have : opLenRW (q.rem.getD t []) = k + 1 := by simpa [secLen] using hlen
    rw [this, stepN_succ_right, step_fire _ _ _ _ _ hurem hcu]
  rw [hq']
  have hfree : s.owner l = none := by
    cases hso : s.owner l with
    | none => rfl
    | some x =>
      have := (modeOf_R ..).mp hm
      rw [hg.2.1 x hso] at this; simp at this
  have hsm : s.mem = q.mem := hr.mem hfree
  have hshape_r : rwOpsShape l .N r = true := by
    have := hg.1 t _ ht; rw [hm] at this; simpa [rwOpsShape] using this
  have hqrd : (fire wv (stepN wv q t k) t (.runlock l) r).readers = q.readers := by
    funext x
    by_cases hx : x = l
    · subst hx; simp [fire, hurd, hr.qr]
    · simp [fire, upd, hx, hurd]
  have hag : ∀ j, j ≠ t → Agree j q (fire wv (stepN wv q t k) t (.runlock l) r) := by
    intro j hjt
    obtain ⟨h3, h4⟩ := fire_other wv (stepN wv q t k) t j (.runlock l) r hjt
    obtain ⟨h5, h6⟩ := stepN_other wv t j k q hjt
    exact ⟨by rw [h3, h5], by rw [h4, h6], hum.symm, huo.symm, hqrd.symm, hup.symm⟩
  have hmodeT : modeOf l (fire wv s t (.runlock l) r) t = .N :=
    (modeOf_N ..).mpr ⟨by simp [fire, hfree], by simp [fire, hg.2.2.mem_erase_iff]⟩
  have hmodeO : ∀ j, j ≠ t → modeOf l (fire wv s t (.runlock l) r) j = modeOf l s j := fun j hjt =>
    mode_other wv l _ s t j _ r hg hc hjt
  refine ⟨?_, by rw [hqrd]; exact hr.qr, ?_, fun _ => hsm.trans hum.symm, ?_, ?_, ?_, ?_⟩
  · show (stepN wv q t k).owner l = none
    rw [huo]; exact hr.qo
  · show (stepN wv q t k).pending l = none
    rw [hup]; exact hr.qp
  · intro j tj hj
    simp only [fire_rem] at hj
    rcases getElem?_set_cases _ _ _ _ _ hj with ⟨rfl, rfl⟩ | ⟨hjt, hj'⟩
    · exact hshape_r
    · rw [(stepN_other wv t j k q hjt).1] at hj'; exact hr.shape j tj hj'
  · intro j hj
    by_cases hjt : j = t
    · subst hjt
      refine ⟨?_, hlogs⟩
      simp only [fire_rem]
      rw [set_self_getElem? _ _ _ _ ht, set_self_getElem? _ _ _ _ hurem]
    · rw [hmodeO j hjt] at hj
      have := hr.thrN j hj
      obtain ⟨h1, h2⟩ := fire_other wv s t j (.runlock l) r hjt
      have ha := hag j hjt
      exact ⟨by rw [h1, ← ha.rem]; exact this.1, by rw [h2, ← ha.logs]; exact this.2⟩
  · intro j hj
    by_cases hjt : j = t
    · subst hjt; rw [hmodeT] at hj; cases hj
    · rw [hmodeO j hjt] at hj
      obtain ⟨h1, h2⟩ := fire_other wv s t j (.runlock l) r hjt
      exact inR_transport wv l _ q _ j (hag j hjt) (inR_frame wv l s _ q j h1 h2 (hr.thrR j hj))
  · intro j hj
    by_cases hjt : j = t
    · subst hjt; rw [hmodeT] at hj; cases hj
    · rw [hmodeO j hjt] at hj
      have := (modeOf_W ..).mp hj
      rw [hfree] at this; cases this


/-- one step of any thread: the sequential state stays, or grows by that thread's operation -/
theorem relRW_step (wv : WriteFn) (l : Nat) (s q : State) (t : Nat) (hg : GIx l (rwOpsShape l) s)
    (hr : RelRW wv l s q) :
    ∃ q', (q' = q ∨ q' = stepOpRW wv q t) ∧ RelRW wv l (step wv s t) q' := by
  rcases step_cases wv s t with h0 | ⟨act, r, ht, hc, hs⟩ | ⟨act, r, _, _, hs⟩
  · exact ⟨q, Or.inl rfl, by rw [h0]; exact hr⟩
  · rw [hs]
    have hsh := hg.1 t _ ht
    cases hm : modeOf l s t with
    | N =>
      rw [hm] at hsh
      cases act with
      | tau => exact ⟨_, Or.inr rfl, rel_tau wv l s q t r hr ht hm⟩
      | lock l' =>
        simp only [rwOpsShape, Bool.and_eq_true, decide_eq_true_eq] at hsh
        obtain ⟨rfl, _⟩ := hsh
        exact ⟨q, Or.inl rfl, rel_lock wv l' s q t r hg hr ht hm hc⟩
      | rlock l' =>
        simp only [rwOpsShape, Bool.and_eq_true, decide_eq_true_eq] at hsh
        obtain ⟨rfl, _⟩ := hsh
        exact ⟨q, Or.inl rfl, rel_rlock wv l' s q t r hg hr ht hm hc⟩
      | unlock l' => simp [rwOpsShape] at hsh
      | runlock l' => simp [rwOpsShape] at hsh
      | read x => simp [rwOpsShape] at hsh
      | write x => simp [rwOpsShape] at hsh
    | W =>
      rw [hm] at hsh
      cases act with
      | unlock l' =>
        simp only [rwOpsShape, Bool.and_eq_true, decide_eq_true_eq] at hsh
        obtain ⟨rfl, _⟩ := hsh
        exact ⟨_, Or.inr rfl, rel_unlock wv l' s q t r hg hr ht hm⟩
      | read x => exact ⟨q, Or.inl rfl, rel_wplain wv l s q t _ r hg hr ht hm (by simp [Action.access])⟩
      | write x => exact ⟨q, Or.inl rfl, rel_wplain wv l s q t _ r hg hr ht hm (by simp [Action.access])⟩
      | tau => exact ⟨q, Or.inl rfl, rel_wplain wv l s q t _ r hg hr ht hm (by simp)⟩
      | lock l' => simp [rwOpsShape] at hsh
      | rlock l' => simp [rwOpsShape] at hsh
      | runlock l' => simp [rwOpsShape] at hsh
    | R =>
      rw [hm] at hsh
      cases act with
      | runlock l' =>
        simp only [rwOpsShape, Bool.and_eq_true, decide_eq_true_eq] at hsh
        obtain ⟨rfl, _⟩ := hsh
        exact ⟨_, Or.inr rfl, rel_runlock wv l' s q t r hg hr ht hm hc⟩
      | read x => exact ⟨q, Or.inl rfl, rel_rplain wv l s q t _ r hg hr ht hm (Or.inl ⟨x, rfl⟩)⟩
      | tau => exact ⟨q, Or.inl rfl, rel_rplain wv l s q t _ r hg hr ht hm (Or.inr rfl)⟩
      | write x => simp [rwOpsShape] at hsh
      | lock l' => simp [rwOpsShape] at hsh
      | rlock l' => simp [rwOpsShape] at hsh
      | unlock l' => simp [rwOpsShape] at hsh
  · rw [hs]
    obtain ⟨pd, hpd⟩ := announce_eq s t act
    rw [hpd]
    exact ⟨q, Or.inl rfl, ⟨hr.qo, hr.qr, hr.qp, hr.mem, hr.shape, hr.thrN, hr.thrR, hr.thrW⟩⟩

theorem relRW_runFrom (wv : WriteFn) (l : Nat) (p : Prog) (sched : List Nat) (s : State) (order : List Nat)
    (hg : GIx l (rwOpsShape l) s) (hr : RelRW wv l s (runSeqRW wv p order)) :
    ∃ order', RelRW wv l (runFrom wv s sched) (runSeqRW wv p order') := by
  induction sched generalizing s order with
  | nil => exact ⟨order, hr⟩
  | cons t rest ih =>
    obtain ⟨q', hq', hr'⟩ := relRW_step wv l s _ t hg hr
    have hg' := gix_step wv l _ (disc_rwOps l) s t hg
    rcases hq' with rfl | rfl
    · exact ih _ order hg' hr'
    · refine ih _ (order ++ [t]) hg' ?_
      simpa [runSeqRW, List.foldl_append] using hr'

/-- every reachable state against the sequential execution of the operations completed so far -/
theorem relRW_run (wv : WriteFn) (l : Nat) (p : Prog) (h : RWOpsProg l p) (sched : List Nat) :
    ∃ order, RelRW wv l (run wv p sched) (runSeqRW wv p order) :=
  relRW_runFrom wv l p sched (init p) [] (gix_init l _ p h) (relRW_init wv l p h)

/-- a completed run is a sequential execution of whole operations in the order of their completion -/
theorem rw_serialisable (wv : WriteFn) (l : Nat) (p : Prog) (h : RWOpsProg l p) (sched : List Nat)
    (hdone : AllDone (run wv p sched)) :
    ∃ order, (run wv p sched).mem = (runSeqRW wv p order).mem ∧
      (run wv p sched).logs = (runSeqRW wv p order).logs ∧
      (run wv p sched).rem = (runSeqRW wv p order).rem := by
  obtain ⟨order, hr⟩ := relRW_run wv l p h sched
  have hg : GIx l (rwOpsShape l) (run wv p sched) :=
    gix_runFrom wv l _ (disc_rwOps l) sched _ (gix_init l _ p h)
  -- nobody is inside a section: a thread inside one has something left to do
  have hallN : ∀ j, modeOf l (run wv p sched) j = .N := by
    intro j
    cases hm : modeOf l (run wv p sched) j with
    | N => rfl
    | R =>
      obtain ⟨k, ts, _, hs, _⟩ := hr.thrR j hm
      have hsh := hg.1 j ts hs
      rw [hm, hdone j ts hs] at hsh
      simp [rwOpsShape] at hsh
    | W =>
      obtain ⟨k, ts, _, hs, _⟩ := hr.thrW j hm
      have hsh := hg.1 j ts hs
      rw [hm, hdone j ts hs] at hsh
      simp [rwOpsShape] at hsh
  have hfree : (run wv p sched).owner l = none := by
    cases ho : (run wv p sched).owner l with
    | none => rfl
    | some x =>
      have := hallN x
      rw [(modeOf_W ..).mpr ho] at this; cases this
  refine ⟨order, hr.mem hfree, ?_, ?_⟩
  · funext j; exact (hr.thrN j (hallN j)).2
  · apply List.ext_getElem?
    intro j; exact (hr.thrN j (hallN j)).1

end J5V.Conc.Sched
