/-!
# Interleaving semantics of N threads over locks and shared memory (core only)

A thread is a list of atomic actions; a schedule is a list of thread ids; `step` lets the chosen
thread perform its next action if it is enabled (a `lock` of a held lock and an `unlock` by a
non-owner are not enabled: the step is a no-op, the thread stays blocked). Shared memory is a map
from locations to values; what a thread observes is the list of values it has read (`logs`); what
it writes is an arbitrary function `wv` of its identity, the location and everything it has read
so far, so a thread's behaviour is any deterministic function of its observations.

A *data race* is a state in which two different threads are both about to access the same
location, one of them writing (conflicting accesses enabled in the same state). Since at most one
thread owns a lock in any state, "with no common held lock" is automatic for co-enabled accesses.
-/
namespace J5V.Conc.Sched

inductive Action where
  | lock (l : Nat)
  | unlock (l : Nat)
  | read (x : Nat)
  | write (x : Nat)
  | tau
  deriving DecidableEq, Repr, Inhabited

abbrev Thread := List Action
abbrev Prog := List Thread

/-- value written by thread `i` to location `x` after having read `log` -/
abbrev WriteFn := Nat → Nat → List Nat → Nat

structure State where
  rem : List Thread
  owner : Nat → Option Nat
  mem : Nat → Nat
  logs : List (List Nat)

def upd {β : Type} (f : Nat → β) (k : Nat) (v : β) : Nat → β := fun x => if x = k then v else f x

@[simp] theorem upd_same {β : Type} (f : Nat → β) (k : Nat) (v : β) : upd f k v k = v := by simp [upd]
@[simp] theorem upd_other {β : Type} (f : Nat → β) (k x : Nat) (v : β) (h : x ≠ k) : upd f k v x = f x := by
  simp [upd, h]

def init (p : Prog) : State := ⟨p, fun _ => none, fun _ => 0, p.map (fun _ => [])⟩

def step (wv : WriteFn) (s : State) (i : Nat) : State :=
  match s.rem[i]? with
  | none => s
  | some [] => s
  | some (a :: r) =>
    match a with
    | .lock l => if s.owner l = none then { s with rem := s.rem.set i r, owner := upd s.owner l (some i) } else s
    | .unlock l => if s.owner l = some i then { s with rem := s.rem.set i r, owner := upd s.owner l none } else s
    | .read x => { s with rem := s.rem.set i r, logs := s.logs.set i (s.logs.getD i [] ++ [s.mem x]) }
    | .write x => { s with rem := s.rem.set i r, mem := upd s.mem x (wv i x (s.logs.getD i [])) }
    | .tau => { s with rem := s.rem.set i r }

def runFrom (wv : WriteFn) (s : State) (sched : List Nat) : State := sched.foldl (step wv) s

def run (wv : WriteFn) (p : Prog) (sched : List Nat) : State := runFrom wv (init p) sched

/-- the location and whether it is a write -/
def Action.access : Action → Option (Nat × Bool)
  | .read x => some (x, false)
  | .write x => some (x, true)
  | _ => none

/-- two different threads are about to perform conflicting accesses to the same location -/
def Race (s : State) : Prop :=
  ∃ i j : Nat, i ≠ j ∧ ∃ (ai aj : Action) (ri rj : Thread) (x : Nat) (wi wj : Bool),
    s.rem[i]? = some (ai :: ri) ∧ s.rem[j]? = some (aj :: rj) ∧
    ai.access = some (x, wi) ∧ aj.access = some (x, wj) ∧ (wi = true ∨ wj = true)

/-- Every shared access of the thread happens while it holds `l`; `l` is never re-acquired while
held and is released before the thread ends. Other locks are ignored. `h` = currently holding. -/
def guardedFrom (l : Nat) : Bool → Thread → Bool
  | h, [] => !h
  | h, .lock l' :: r => if l' = l then !h && guardedFrom l true r else guardedFrom l h r
  | h, .unlock l' :: r => if l' = l then h && guardedFrom l false r else guardedFrom l h r
  | h, .read _ :: r => h && guardedFrom l h r
  | h, .write _ :: r => h && guardedFrom l h r
  | h, .tau :: r => guardedFrom l h r

def AllGuardedBy (l : Nat) (p : Prog) : Prop := ∀ t ∈ p, guardedFrom l false t = true

instance (l : Nat) (p : Prog) : Decidable (AllGuardedBy l p) := by unfold AllGuardedBy; infer_instance

/-- No nested acquisition: a thread holds at most one lock at a time, releases what it holds,
and only what it holds. `h` = the lock currently held. -/
def flat : Option Nat → Thread → Bool
  | none, [] => true
  | some _, [] => false
  | none, .lock l :: r => flat (some l) r
  | some _, .lock _ :: _ => false
  | none, .unlock _ :: _ => false
  | some l, .unlock l' :: r => l = l' && flat none r
  | h, _ :: r => flat h r

def NoNesting (p : Prog) : Prop := ∀ t ∈ p, flat none t = true

instance (p : Prog) : Decidable (NoNesting p) := by unfold NoNesting; infer_instance

def AllDone (s : State) : Prop := ∀ (i : Nat) (t : Thread), s.rem[i]? = some t → t = []

/-- thread `i` can take a step -/
def Enabled (s : State) (i : Nat) : Prop :=
  ∃ a r, s.rem[i]? = some (a :: r) ∧
    (match a with
     | .lock l => s.owner l = none
     | .unlock l => s.owner l = some i
     | _ => True)

/-- Every operation of every thread is exactly one critical section of `l`:
`lock l; (read | write | tau)*; unlock l`, nothing outside. `h` = inside a section. -/
def opsShape (l : Nat) : Bool → Thread → Bool
  | false, [] => true
  | true, [] => false
  | false, .lock l' :: r => l' = l && opsShape l true r
  | false, _ :: _ => false
  | true, .unlock l' :: r => l' = l && opsShape l false r
  | true, .lock _ :: _ => false
  | true, _ :: r => opsShape l true r

def OpsProg (l : Nat) (p : Prog) : Prop := ∀ t ∈ p, opsShape l false t = true

instance (l : Nat) (p : Prog) : Decidable (OpsProg l p) := by unfold OpsProg; infer_instance

/-- As `opsShape`, but a thread may also take local steps (`tau`) between its operations. -/
def opsShapeT (l : Nat) : Bool → Thread → Bool
  | false, [] => true
  | true, [] => false
  | false, .lock l' :: r => l' = l && opsShapeT l true r
  | false, .tau :: r => opsShapeT l false r
  | false, _ :: _ => false
  | true, .unlock l' :: r => l' = l && opsShapeT l false r
  | true, .lock _ :: _ => false
  | true, _ :: r => opsShapeT l true r

def OpsProgT (l : Nat) (p : Prog) : Prop := ∀ t ∈ p, opsShapeT l false t = true

instance (l : Nat) (p : Prog) : Decidable (OpsProgT l p) := by unfold OpsProgT; infer_instance

/-- the thread without its local steps outside critical sections -/
def stripT : Bool → Thread → Thread
  | _, [] => []
  | false, .tau :: r => stripT false r
  | false, .lock l :: r => .lock l :: stripT true r
  | false, a :: r => a :: stripT false r
  | true, .unlock l :: r => .unlock l :: stripT false r
  | true, a :: r => a :: stripT true r

def stripProg (p : Prog) : Prog := p.map (stripT false)

/-- length of the first operation (through its `unlock`) -/
def opLen : Thread → Nat
  | [] => 0
  | .unlock _ :: _ => 1
  | _ :: r => opLen r + 1

def stepN (wv : WriteFn) (s : State) (i : Nat) : Nat → State
  | 0 => s
  | k + 1 => stepN wv (step wv s i) i k

/-- thread `i` runs its next whole operation without interruption -/
def stepOp (wv : WriteFn) (s : State) (i : Nat) : State := stepN wv s i (opLen (s.rem.getD i []))

/-- sequential execution: `order` lists whose turn it is to run one whole operation -/
def runSeq (wv : WriteFn) (p : Prog) (order : List Nat) : State := order.foldl (stepOp wv) (init p)

end J5V.Conc.Sched
