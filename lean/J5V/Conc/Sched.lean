/-!
# Interleaving semantics of N threads over locks and shared memory (core only)

A thread is a list of atomic actions; a schedule is a list of thread ids; `step` lets the chosen
thread perform its next action if it can fire (`canFire`); otherwise the step leaves the thread
where it is (blocked). Locks are reader/writer locks in the sense of Go's `sync.RWMutex`
(`lock`/`unlock` = `Lock`/`Unlock`, `rlock`/`runlock` = `RLock`/`RUnlock`); a lock on which only
`lock`/`unlock` is used is a `sync.Mutex`.

* `lock l` fires when nobody owns `l`, nobody holds a read lock on it and no *other* writer has
  announced itself;
* like Go's `RWMutex`, a writer that finds active readers announces itself (`pending l`) and from
  then on **new readers are blocked** until that writer has had its turn (writer preference). This
  is what makes a recursive read lock a deadlock in Go, and it is in the model so that the deadlock
  freedom theorem speaks about the blocking behaviour of the real lock;
* `rlock l` fires when nobody owns `l` and no writer is pending; `runlock l` when the thread holds
  a read lock (read locks are counted: `readers l` is a multiset of thread ids);
* `unlock l` fires for the owner only.

Shared memory is a map from locations to values; what a thread observes is the list of values it
has read (`logs`); what it writes is an arbitrary function `wv` of its identity, the location and
everything it has read so far, so a thread's behaviour is any deterministic function of its
observations.

Two notions of data race:

* `Race s` — two different threads are both about to access the same location in state `s`, one
  of them writing (co-enabled conflicting accesses);
* `RaceHB tr` — in the trace `tr` of the events that fired, two conflicting accesses of different
  threads are not ordered by *happens-before*: the transitive closure of program order and the
  synchronisation edges of the Go memory model for `sync.Mutex`/`sync.RWMutex` (`Unlock` → a later
  `Lock` or `RLock` of the same lock, `RUnlock` → a later `Lock`; **not** `RUnlock` → `RLock`).
-/
namespace J5V.Conc.Sched

inductive Action where
  | lock (l : Nat)
  | unlock (l : Nat)
  | rlock (l : Nat)
  | runlock (l : Nat)
  | read (x : Nat)
  | write (x : Nat)
  | tau
  deriving DecidableEq, Repr, Inhabited

abbrev Thread := List Action
abbrev Prog := List Thread

/-- value written by thread `i` to location `x` after having read `log` -/
abbrev WriteFn := Nat → Nat → List Nat → Nat

structure State where
  rem : List Thread
  /-- the thread that holds the write lock -/
  owner : Nat → Option Nat
  /-- the threads that hold a read lock (one entry per acquisition) -/
  readers : Nat → List Nat
  /-- the writer that has announced itself and waits for the readers to leave -/
  pending : Nat → Option Nat
  mem : Nat → Nat
  /-- what each thread has read so far -/
  logs : Nat → List Nat

def upd {β : Type} (f : Nat → β) (k : Nat) (v : β) : Nat → β := fun x => if x = k then v else f x

@[simp] theorem upd_same {β : Type} (f : Nat → β) (k : Nat) (v : β) : upd f k v k = v := by simp [upd]
@[simp] theorem upd_other {β : Type} (f : Nat → β) (k x : Nat) (v : β) (h : x ≠ k) : upd f k v x = f x := by
  simp [upd, h]

def init (p : Prog) : State :=
  { rem := p, owner := fun _ => none, readers := fun _ => [], pending := fun _ => none,
    mem := fun _ => 0, logs := fun _ => [] }

/-- thread `i` can perform action `a` in state `s` -/
def canFire (s : State) (i : Nat) : Action → Bool
  | .lock l => decide (s.owner l = none) && decide (s.readers l = []) &&
      (decide (s.pending l = none) || decide (s.pending l = some i))
  | .unlock l => decide (s.owner l = some i)
  | .rlock l => decide (s.owner l = none) && decide (s.pending l = none)
  | .runlock l => decide (i ∈ s.readers l)
  | _ => true

/-- the effect of action `a` of thread `i`, whose remaining program becomes `r` -/
def fire (wv : WriteFn) (s : State) (i : Nat) (a : Action) (r : Thread) : State :=
  match a with
  | .lock l => { s with rem := s.rem.set i r, owner := upd s.owner l (some i), pending := upd s.pending l none }
  | .unlock l => { s with rem := s.rem.set i r, owner := upd s.owner l none }
  | .rlock l => { s with rem := s.rem.set i r, readers := upd s.readers l (i :: s.readers l) }
  | .runlock l => { s with rem := s.rem.set i r, readers := upd s.readers l ((s.readers l).erase i) }
  | .read x => { s with rem := s.rem.set i r, logs := upd s.logs i (s.logs i ++ [s.mem x]) }
  | .write x => { s with rem := s.rem.set i r, mem := upd s.mem x (wv i x (s.logs i)) }
  | .tau => { s with rem := s.rem.set i r }

/-- what a blocked thread does: a writer that is kept out by readers only announces itself -/
def announce (s : State) (i : Nat) : Action → State
  | .lock l => if s.owner l = none ∧ s.pending l = none then { s with pending := upd s.pending l (some i) } else s
  | _ => s

def step (wv : WriteFn) (s : State) (i : Nat) : State :=
  match s.rem[i]? with
  | some (a :: r) => if canFire s i a then fire wv s i a r else announce s i a
  | _ => s

def runFrom (wv : WriteFn) (s : State) (sched : List Nat) : State := sched.foldl (step wv) s

def run (wv : WriteFn) (p : Prog) (sched : List Nat) : State := runFrom wv (init p) sched

/-- the location and whether it is a write -/
def Action.access : Action → Option (Nat × Bool)
  | .read x => some (x, false)
  | .write x => some (x, true)
  | _ => none

/-- two different threads are about to perform conflicting accesses to the same location -/
def Race (s : State) : Prop :=
  ∃ i j : Nat, i ≠ j ∧ ∃ (ai aj : Action) (ri rj : Thread) (x : Nat) (wi wj : Bool),
    s.rem[i]? = some (ai :: ri) ∧ s.rem[j]? = some (aj :: rj) ∧
    ai.access = some (x, wi) ∧ aj.access = some (x, wj) ∧ (wi = true ∨ wj = true)

/-! ## Lock disciplines (static, decidable) -/

/-- Every shared access of the thread happens while it holds `l` as a mutex; `l` is never
re-acquired while held, never used as a read lock, and is released before the thread ends. Other
locks are ignored. `h` = currently holding. -/
def guardedFrom (l : Nat) : Bool → Thread → Bool
  | h, [] => !h
  | h, .lock l' :: r => if l' = l then !h && guardedFrom l true r else guardedFrom l h r
  | h, .unlock l' :: r => if l' = l then h && guardedFrom l false r else guardedFrom l h r
  | h, .rlock l' :: r => if l' = l then false else guardedFrom l h r
  | h, .runlock l' :: r => if l' = l then false else guardedFrom l h r
  | h, .read _ :: r => h && guardedFrom l h r
  | h, .write _ :: r => h && guardedFrom l h r
  | h, .tau :: r => guardedFrom l h r

def AllGuardedBy (l : Nat) (p : Prog) : Prop := ∀ t ∈ p, guardedFrom l false t = true

instance (l : Nat) (p : Prog) : Decidable (AllGuardedBy l p) := by unfold AllGuardedBy; infer_instance

/-- how a thread holds the distinguished lock: not, as a reader, as the writer -/
inductive Mode where
  | N | R | W
  deriving DecidableEq, Repr, Inhabited

/-- The reader/writer discipline with *published* locations `X`: every write happens under the
write lock of `l`; every read of a location outside `X` under the read or the write lock; a
location in `X` may be read anywhere (it is the business of `PubOrdered` below that such reads
come after publication). `l` is not re-acquired in any mode while held (flat in `l`), and is
released before the thread ends. Other locks are ignored. -/
def pubGuardedFrom (l : Nat) (X : Nat → Bool) : Mode → Thread → Bool
  | m, [] => m == .N
  | m, .lock l' :: r => if l' = l then m == .N && pubGuardedFrom l X .W r else pubGuardedFrom l X m r
  | m, .unlock l' :: r => if l' = l then m == .W && pubGuardedFrom l X .N r else pubGuardedFrom l X m r
  | m, .rlock l' :: r => if l' = l then m == .N && pubGuardedFrom l X .R r else pubGuardedFrom l X m r
  | m, .runlock l' :: r => if l' = l then m == .R && pubGuardedFrom l X .N r else pubGuardedFrom l X m r
  | m, .read x :: r => (X x || m != .N) && pubGuardedFrom l X m r
  | m, .write _ :: r => m == .W && pubGuardedFrom l X m r
  | m, .tau :: r => pubGuardedFrom l X m r

def PubGuardedBy (l : Nat) (X : Nat → Bool) (p : Prog) : Prop := ∀ t ∈ p, pubGuardedFrom l X .N t = true

instance (l : Nat) (X : Nat → Bool) (p : Prog) : Decidable (PubGuardedBy l X p) := by
  unfold PubGuardedBy; infer_instance

/-- writes under the write lock, reads under at least the read lock, nothing published -/
def RWGuardedBy (l : Nat) (p : Prog) : Prop := PubGuardedBy l (fun _ => false) p

instance (l : Nat) (p : Prog) : Decidable (RWGuardedBy l p) := by unfold RWGuardedBy; infer_instance

/-- No nested acquisition: a thread holds at most one lock (in one mode) at a time, releases what
it holds in the mode it holds it, and only what it holds. `h` = the lock currently held and
whether it is held as a reader. -/
def flat : Option (Nat × Bool) → Thread → Bool
  | none, [] => true
  | some _, [] => false
  | none, .lock l :: r => flat (some (l, false)) r
  | none, .rlock l :: r => flat (some (l, true)) r
  | some _, .lock _ :: _ => false
  | some _, .rlock _ :: _ => false
  | none, .unlock _ :: _ => false
  | none, .runlock _ :: _ => false
  | some (l, rd), .unlock l' :: r => !rd && l = l' && flat none r
  | some (l, rd), .runlock l' :: r => rd && l = l' && flat none r
  | h, .read _ :: r => flat h r
  | h, .write _ :: r => flat h r
  | h, .tau :: r => flat h r

def NoNesting (p : Prog) : Prop := ∀ t ∈ p, flat none t = true

instance (p : Prog) : Decidable (NoNesting p) := by unfold NoNesting; infer_instance

def AllDone (s : State) : Prop := ∀ (i : Nat) (t : Thread), s.rem[i]? = some t → t = []

/-- thread `i` can take a step -/
def Enabled (s : State) (i : Nat) : Prop :=
  ∃ a r, s.rem[i]? = some (a :: r) ∧ canFire s i a = true

/-- `Enabled` as a computable check -/
def enabledB (s : State) (i : Nat) : Bool :=
  match s.rem[i]? with
  | some (a :: _) => canFire s i a
  | _ => false

/-- a deadlock: somebody is unfinished and nobody can move (computable check) -/
def stuckB (s : State) : Bool :=
  !(s.rem.all List.isEmpty) && (List.range s.rem.length).all (fun i => !enabledB s i)

/-! ## Operations as critical sections -/

/-- Every operation of every thread is exactly one critical section of the mutex `l`:
`lock l; (read | write | tau)*; unlock l`, nothing outside. `h` = inside a section. -/
def opsShape (l : Nat) : Bool → Thread → Bool
  | false, [] => true
  | true, [] => false
  | false, .lock l' :: r => l' = l && opsShape l true r
  | false, _ :: _ => false
  | true, .unlock l' :: r => l' = l && opsShape l false r
  | true, .read _ :: r => opsShape l true r
  | true, .write _ :: r => opsShape l true r
  | true, .tau :: r => opsShape l true r
  | true, _ :: _ => false

def OpsProg (l : Nat) (p : Prog) : Prop := ∀ t ∈ p, opsShape l false t = true

instance (l : Nat) (p : Prog) : Decidable (OpsProg l p) := by unfold OpsProg; infer_instance

/-- As `opsShape`, but a thread may also take local steps (`tau`) between its operations. -/
def opsShapeT (l : Nat) : Bool → Thread → Bool
  | false, [] => true
  | true, [] => false
  | false, .lock l' :: r => l' = l && opsShapeT l true r
  | false, .tau :: r => opsShapeT l false r
  | false, _ :: _ => false
  | true, .unlock l' :: r => l' = l && opsShapeT l false r
  | true, .read _ :: r => opsShapeT l true r
  | true, .write _ :: r => opsShapeT l true r
  | true, .tau :: r => opsShapeT l true r
  | true, _ :: _ => false

def OpsProgT (l : Nat) (p : Prog) : Prop := ∀ t ∈ p, opsShapeT l false t = true

instance (l : Nat) (p : Prog) : Decidable (OpsProgT l p) := by unfold OpsProgT; infer_instance

/-- Reader/writer operations: every operation is a write section `lock l; (read|write|tau)*;
unlock l` or a read section `rlock l; (read|tau)*; runlock l`; local steps between them. -/
def rwOpsShape (l : Nat) : Mode → Thread → Bool
  | .N, [] => true
  | _, [] => false
  | .N, .lock l' :: r => l' = l && rwOpsShape l .W r
  | .N, .rlock l' :: r => l' = l && rwOpsShape l .R r
  | .N, .tau :: r => rwOpsShape l .N r
  | .N, _ :: _ => false
  | .W, .unlock l' :: r => l' = l && rwOpsShape l .N r
  | .W, .read _ :: r => rwOpsShape l .W r
  | .W, .write _ :: r => rwOpsShape l .W r
  | .W, .tau :: r => rwOpsShape l .W r
  | .W, _ :: _ => false
  | .R, .runlock l' :: r => l' = l && rwOpsShape l .N r
  | .R, .read _ :: r => rwOpsShape l .R r
  | .R, .tau :: r => rwOpsShape l .R r
  | .R, _ :: _ => false

def RWOpsProg (l : Nat) (p : Prog) : Prop := ∀ t ∈ p, rwOpsShape l .N t = true

instance (l : Nat) (p : Prog) : Decidable (RWOpsProg l p) := by unfold RWOpsProg; infer_instance

/-- the thread without its local steps outside critical sections -/
def stripT : Bool → Thread → Thread
  | _, [] => []
  | false, .tau :: r => stripT false r
  | false, .lock l :: r => .lock l :: stripT true r
  | false, a :: r => a :: stripT false r
  | true, .unlock l :: r => .unlock l :: stripT false r
  | true, a :: r => a :: stripT true r

def stripProg (p : Prog) : Prog := p.map (stripT false)

/-- length of the first operation (through its `unlock`) -/
def opLen : Thread → Nat
  | [] => 0
  | .unlock _ :: _ => 1
  | _ :: r => opLen r + 1

def stepN (wv : WriteFn) (s : State) (i : Nat) : Nat → State
  | 0 => s
  | k + 1 => stepN wv (step wv s i) i k

/-- thread `i` runs its next whole operation without interruption -/
def stepOp (wv : WriteFn) (s : State) (i : Nat) : State := stepN wv s i (opLen (s.rem.getD i []))

/-- sequential execution: `order` lists whose turn it is to run one whole operation -/
def runSeq (wv : WriteFn) (p : Prog) (order : List Nat) : State := order.foldl (stepOp wv) (init p)

/-- number of steps up to and including the release that ends the section -/
def secLen : Thread → Nat
  | [] => 0
  | .unlock _ :: _ => 1
  | .runlock _ :: _ => 1
  | _ :: r => secLen r + 1

/-- length of the first reader/writer operation: one local step, or a whole section -/
def opLenRW : Thread → Nat
  | [] => 0
  | .tau :: _ => 1
  | _ :: r => secLen r + 1

/-- thread `i` runs its next whole reader/writer operation without interruption -/
def stepOpRW (wv : WriteFn) (s : State) (i : Nat) : State := stepN wv s i (opLenRW (s.rem.getD i []))

/-- sequential execution of reader/writer operations -/
def runSeqRW (wv : WriteFn) (p : Prog) (order : List Nat) : State := order.foldl (stepOpRW wv) (init p)

/-! ## Traces and happens-before -/

/-- an action that fired, and the thread that performed it -/
structure Ev where
  tid : Nat
  act : Action
  deriving DecidableEq, Repr, Inhabited

/-- a state together with the list of events that led to it (oldest first) -/
structure TState where
  st : State
  tr : List Ev

/-- the event a step of thread `i` adds to the trace: its next action if that can fire -/
def firedEv (s : State) (i : Nat) : List Ev :=
  match s.rem[i]? with
  | some (a :: _) => if canFire s i a then [⟨i, a⟩] else []
  | _ => []

def tstep (wv : WriteFn) (ts : TState) (i : Nat) : TState := ⟨step wv ts.st i, ts.tr ++ firedEv ts.st i⟩

def trunFrom (wv : WriteFn) (ts : TState) (sched : List Nat) : TState := sched.foldl (tstep wv) ts

def trun (wv : WriteFn) (p : Prog) (sched : List Nat) : TState := trunFrom wv ⟨init p, []⟩ sched

/-- the events of `run wv p sched`, in the order in which they happened -/
def trace (wv : WriteFn) (p : Prog) (sched : List Nat) : List Ev := (trun wv p sched).tr

/-- synchronisation edges of the Go memory model: the `n`-th `Unlock` is synchronised before the
`n+1`-st `Lock` returns and before every `RLock` that returns after it; an `RUnlock` is
synchronised before the next `Lock`. Two read sections are not ordered. -/
def swEdge : Action → Action → Bool
  | .unlock l, .lock l' => l == l'
  | .unlock l, .rlock l' => l == l'
  | .runlock l, .lock l' => l == l'
  | _, _ => false

/-- happens-before on the positions of a trace: program order, synchronisation, transitivity -/
inductive HB (tr : List Ev) : Nat → Nat → Prop
  | po {a b : Nat} {ea eb : Ev} : a < b → tr[a]? = some ea → tr[b]? = some eb → ea.tid = eb.tid → HB tr a b
  | sw {a b : Nat} {ea eb : Ev} : a < b → tr[a]? = some ea → tr[b]? = some eb →
      swEdge ea.act eb.act = true → HB tr a b
  | trans {a b c : Nat} : HB tr a b → HB tr b c → HB tr a c

/-- a happens-before data race: two conflicting accesses (same location, different threads, at
least one a write) of which the earlier does not happen before the later -/
def RaceHB (tr : List Ev) : Prop :=
  ∃ (a b : Nat) (ea eb : Ev) (x : Nat) (wa wb : Bool), a < b ∧ tr[a]? = some ea ∧ tr[b]? = some eb ∧
    ea.tid ≠ eb.tid ∧ ea.act.access = some (x, wa) ∧ eb.act.access = some (x, wb) ∧
    (wa = true ∨ wb = true) ∧ ¬ HB tr a b

/-- The publication rule, a property of one execution: whenever a location of `X` is written and
read by different threads, the write comes first and the reader has acquired `l` (in either
mode) in between — the reader went through the lock to learn about the location after it was
written, and it is never written again once somebody else reads it. -/
def PubOrdered (l : Nat) (X : Nat → Bool) (tr : List Ev) : Prop :=
  ∀ (a b : Nat) (i j x : Nat), tr[a]? = some ⟨i, .write x⟩ → tr[b]? = some ⟨j, .read x⟩ → X x = true → i ≠ j →
    ∃ k, a < k ∧ k < b ∧ (tr[k]? = some ⟨j, .lock l⟩ ∨ tr[k]? = some ⟨j, .rlock l⟩)

/-- the same as a computable check (for concrete traces) -/
def pubOrderedB (l : Nat) (X : Nat → Bool) (tr : List Ev) : Bool :=
  (List.range tr.length).all fun a => (List.range tr.length).all fun b =>
    match tr[a]?, tr[b]? with
    | some ⟨i, .write x⟩, some ⟨j, .read y⟩ =>
      !(x == y && X x && i != j) ||
        (List.range b).any fun k => decide (a < k) && (tr[k]? == some ⟨j, .lock l⟩ || tr[k]? == some ⟨j, .rlock l⟩)
    | _, _ => true

end J5V.Conc.Sched
