import J5V.Conc.SchedHB
/-! Happens-before is decidable (core only): since every generating edge goes forward in the trace,
`a` happens before `b` iff `b` is reachable from `a` through increasing positions; `hbB` computes
that row by row. Hence `RaceHB` of a concrete trace can be settled by evaluation (`raceHBb`). -/
namespace J5V.Conc.Sched

/-- for every position `b < n`: does `a` happen before `b`? -/
def reachRow (tr : List Ev) (a : Nat) : Nat → List Bool
  | 0 => []
  | n + 1 =>
    reachRow tr a n ++
      [decide (a < n) && (hbEdgeB tr a n || (List.range n).any fun c => (reachRow tr a n).getD c false && hbEdgeB tr c n)]

def hbB (tr : List Ev) (a b : Nat) : Bool := (reachRow tr a (b + 1)).getD b false

theorem reachRow_length (tr : List Ev) (a n : Nat) : (reachRow tr a n).length = n := by
  induction n with
  | zero => rfl
  | succ n ih => simp [reachRow, ih]

theorem reachRow_stable (tr : List Ev) (a b n : Nat) (h : b < n) :
    (reachRow tr a n).getD b false = hbB tr a b := by
  induction n with
  | zero => omega
  | succ n ih =>
    rcases Nat.lt_or_ge b n with hb | hb
    · rw [← ih hb]
      simp only [reachRow, List.getD_eq_getElem?_getD]
      rw [List.getElem?_append_left (by rw [reachRow_length]; exact hb)]
    · have : b = n := by omega
      subst this
      rfl

theorem getD_concat_length (xs : List Bool) (v d : Bool) (n : Nat) (h : xs.length = n) :
    (xs ++ [v]).getD n d = v := by
  subst h; simp [List.getD_eq_getElem?_getD]

/-- the recursion `hbB` solves -/
theorem hbB_spec (tr : List Ev) (a b : Nat) :
    hbB tr a b = true ↔ a < b ∧ (hbEdgeB tr a b = true ∨ ∃ c, c < b ∧ hbB tr a c = true ∧ hbEdgeB tr c b = true) := by
  have hlast : hbB tr a b = (decide (a < b) && (hbEdgeB tr a b ||
      (List.range b).any fun c => (reachRow tr a b).getD c false && hbEdgeB tr c b)) :=
    getD_concat_length _ _ _ _ (reachRow_length tr a b)
  rw [hlast]
  simp only [Bool.and_eq_true, decide_eq_true_eq, Bool.or_eq_true, List.any_eq_true, List.mem_range]
  constructor
  · rintro ⟨hab, h | ⟨c, hc, h1, h2⟩⟩
    · exact ⟨hab, Or.inl h⟩
    · exact ⟨hab, Or.inr ⟨c, hc, by rw [← reachRow_stable tr a c b hc]; exact h1, h2⟩⟩
  · rintro ⟨hab, h | ⟨c, hc, h1, h2⟩⟩
    · exact ⟨hab, Or.inl h⟩
    · exact ⟨hab, Or.inr ⟨c, hc, by rw [reachRow_stable tr a c b hc]; exact h1, h2⟩⟩

theorem hbEdgeB_iff (tr : List Ev) (a b : Nat) :
    hbEdgeB tr a b = true ↔ ∃ ea eb, tr[a]? = some ea ∧ tr[b]? = some eb ∧
      (ea.tid = eb.tid ∨ swEdge ea.act eb.act = true) := by
  unfold hbEdgeB
  cases ha : tr[a]? with
  | none => simp
  | some ea =>
    cases hb : tr[b]? with
    | none => simp
    | some eb => simp

theorem hb_of_edge (tr : List Ev) (a b : Nat) (hab : a < b) (h : hbEdgeB tr a b = true) : HB tr a b := by
  obtain ⟨ea, eb, ha, hb, he⟩ := (hbEdgeB_iff tr a b).mp h
  rcases he with he | he
  · exact HB.po hab ha hb he
  · exact HB.sw hab ha hb he

theorem hb_of_hbB (tr : List Ev) (a : Nat) : ∀ b, hbB tr a b = true → HB tr a b := by
  intro b
  induction b using Nat.strongRecOn with
  | _ b ih =>
    intro h
    obtain ⟨hab, h | ⟨c, hc, h1, h2⟩⟩ := (hbB_spec tr a b).mp h
    · exact hb_of_edge tr a b hab h
    · exact HB.trans (ih c hc h1) (hb_of_edge tr c b hc h2)

/-- every happens-before pair ends in a generating edge -/
theorem hb_last (tr : List Ev) (a b : Nat) (h : HB tr a b) :
    hbEdgeB tr a b = true ∨ ∃ c, HB tr a c ∧ c < b ∧ hbEdgeB tr c b = true := by
  induction h with
  | po h ha hb ht => exact Or.inl ((hbEdgeB_iff ..).mpr ⟨_, _, ha, hb, Or.inl ht⟩)
  | sw h ha hb ht => exact Or.inl ((hbEdgeB_iff ..).mpr ⟨_, _, ha, hb, Or.inr ht⟩)
  | trans h1 h2 _ ih2 =>
    rcases ih2 with he | ⟨d, hd, hdc, he⟩
    · exact Or.inr ⟨_, h1, hb_lt _ _ _ h2, he⟩
    · exact Or.inr ⟨d, HB.trans h1 hd, hdc, he⟩

theorem hbB_of_hb (tr : List Ev) (a : Nat) : ∀ b, HB tr a b → hbB tr a b = true := by
  intro b
  induction b using Nat.strongRecOn with
  | _ b ih =>
    intro h
    rcases hb_last tr a b h with he | ⟨c, hc, hcb, he⟩
    · exact (hbB_spec tr a b).mpr ⟨hb_lt _ _ _ h, Or.inl he⟩
    · exact (hbB_spec tr a b).mpr ⟨hb_lt _ _ _ h, Or.inr ⟨c, hcb, ih c hcb hc, he⟩⟩

theorem hb_iff (tr : List Ev) (a b : Nat) : HB tr a b ↔ hbB tr a b = true :=
  ⟨hbB_of_hb tr a b, hb_of_hbB tr a b⟩

instance (tr : List Ev) (a b : Nat) : Decidable (HB tr a b) := decidable_of_iff _ (hb_iff tr a b).symm

/-- two positions hold conflicting accesses of different threads -/
def conflictB (tr : List Ev) (a b : Nat) : Bool :=
  match tr[a]?, tr[b]? with
  | some ea, some eb =>
    ea.tid != eb.tid &&
      (match ea.act.access, eb.act.access with
       | some (x, wa), some (y, wb) => x == y && (wa || wb)
       | _, _ => false)
  | _, _ => false

/-- the happens-before race detector -/
def raceHBb (tr : List Ev) : Bool :=
  (List.range tr.length).any fun b => (List.range b).any fun a => conflictB tr a b && !hbB tr a b

theorem raceHB_iff (tr : List Ev) : RaceHB tr ↔ raceHBb tr = true := by
  unfold raceHBb
  simp only [List.any_eq_true, List.mem_range, Bool.and_eq_true, Bool.not_eq_true']
  constructor
  · rintro ⟨a, b, ea, eb, x, wa, wb, hab, ha, hb, htid, haa, hba, hw, hn⟩
    refine ⟨b, getElem?_lt_of_some _ _ _ hb, a, hab, ?_, ?_⟩
    · simp only [conflictB, ha, hb, haa, hba]
      rcases hw with rfl | rfl <;> simp [htid]
    · cases hh : hbB tr a b with
      | false => rfl
      | true => exact absurd (hb_of_hbB tr a b hh) hn
  · rintro ⟨b, _, a, hab, hc, hn⟩
    unfold conflictB at hc
    cases ha : tr[a]? with
    | none => simp [ha] at hc
    | some ea =>
      cases hb : tr[b]? with
      | none => simp [ha, hb] at hc
      | some eb =>
        simp only [ha, hb, Bool.and_eq_true, bne_iff_ne, ne_eq] at hc
        obtain ⟨htid, hacc⟩ := hc
        cases haa : ea.act.access with
        | none => simp [haa] at hacc
        | some pa =>
          cases hba : eb.act.access with
          | none => simp [haa, hba] at hacc
          | some pb =>
            obtain ⟨x, wa⟩ := pa
            obtain ⟨y, wb⟩ := pb
            simp only [haa, hba, Bool.and_eq_true, beq_iff_eq, Bool.or_eq_true] at hacc
            obtain ⟨rfl, hw⟩ := hacc
            refine ⟨a, b, ea, eb, x, wa, wb, hab, ha, hb, htid, haa, hba, hw, fun h => ?_⟩
            rw [hbB_of_hb tr a b h] at hn; cases hn

instance (tr : List Ev) : Decidable (RaceHB tr) := decidable_of_iff _ (raceHB_iff tr).symm

end J5V.Conc.Sched
