import J5V.Conc.Sched
/-! Lemmas for `J5V.Conc.Sched` (core only): how a step decomposes, the lock-mode invariant of the
reader/writer discipline and co-enabled race freedom. Deadlock freedom is in `SchedFlat.lean`,
serialisability in `SchedSerial.lean`, happens-before in `SchedHB.lean`. The property theorems are
restated in `J5V/Props/C10.lean`. -/
namespace J5V.Conc.Sched

theorem getElem?_set_cases {α : Type} (xs : List α) (j i : Nat) (r t : α)
    (h : (xs.set j r)[i]? = some t) : (i = j ∧ t = r) ∨ (i ≠ j ∧ xs[i]? = some t) := by
  rw [List.getElem?_set] at h
  by_cases hji : j = i
  · subst hji
    simp only [if_true] at h
    split at h
    · left; exact ⟨rfl, by simpa using h.symm⟩
    · cases h
  · simp only [hji, if_false] at h
    right; exact ⟨fun e => hji e.symm, h⟩

theorem getElem?_set_isSome {α : Type} (xs : List α) (j u : Nat) (r t : α) (h : xs[u]? = some t) :
    ∃ t', (xs.set j r)[u]? = some t' := by
  rw [List.getElem?_set]
  by_cases hju : j = u
  · subst hju
    have : j < xs.length := by
      rcases Nat.lt_or_ge j xs.length with h' | h'
      · exact h'
      · rw [List.getElem?_eq_none h'] at h; cases h
    exact ⟨r, by simp [this]⟩
  · exact ⟨t, by simp [hju, h]⟩

theorem set_self_getElem? {α : Type} (xs : List α) (j : Nat) (r t : α) (h : xs[j]? = some t) :
    (xs.set j r)[j]? = some r := by
  obtain ⟨t', ht'⟩ := getElem?_set_isSome xs j j r t h
  rcases getElem?_set_cases _ _ _ _ _ ht' with ⟨_, rfl⟩ | ⟨hne, _⟩
  · exact ht'
  · exact absurd rfl hne

/-! ## anatomy of a step -/

theorem step_fire (wv : WriteFn) (s : State) (i : Nat) (a : Action) (r : Thread)
    (h : s.rem[i]? = some (a :: r)) (hc : canFire s i a = true) : step wv s i = fire wv s i a r := by
  simp [step, h, hc]

theorem step_blocked (wv : WriteFn) (s : State) (i : Nat) (a : Action) (r : Thread)
    (h : s.rem[i]? = some (a :: r)) (hc : canFire s i a = false) : step wv s i = announce s i a := by
  simp [step, h, hc]

theorem step_cases (wv : WriteFn) (s : State) (i : Nat) :
    step wv s i = s ∨
    (∃ a r, s.rem[i]? = some (a :: r) ∧ canFire s i a = true ∧ step wv s i = fire wv s i a r) ∨
    (∃ a r, s.rem[i]? = some (a :: r) ∧ canFire s i a = false ∧ step wv s i = announce s i a) := by
  cases h : s.rem[i]? with
  | none => left; simp [step, h]
  | some t =>
    cases t with
    | nil => left; simp [step, h]
    | cons a r =>
      cases hc : canFire s i a with
      | true => right; left; exact ⟨a, r, rfl, hc, step_fire wv s i a r h hc⟩
      | false => right; right; exact ⟨a, r, rfl, hc, step_blocked wv s i a r h hc⟩

@[simp] theorem fire_rem (wv : WriteFn) (s : State) (i : Nat) (a : Action) (r : Thread) :
    (fire wv s i a r).rem = s.rem.set i r := by cases a <;> rfl

/-- a blocked step changes nothing but the writer announcement -/
theorem announce_eq (s : State) (i : Nat) (a : Action) : ∃ pd, announce s i a = { s with pending := pd } := by
  cases a with
  | lock l =>
    simp only [announce]
    split
    · exact ⟨_, rfl⟩
    · exact ⟨s.pending, rfl⟩
  | _ => exact ⟨s.pending, rfl⟩

theorem step_mem_of_not_write (wv : WriteFn) (s : State) (i : Nat)
    (h : ∀ x r, s.rem[i]? ≠ some (.write x :: r)) : (step wv s i).mem = s.mem := by
  rcases step_cases wv s i with h0 | ⟨a, r, ha, _, hs⟩ | ⟨a, r, _, _, hs⟩
  · rw [h0]
  · rw [hs]
    cases a with
    | write x => exact absurd ha (h x r)
    | _ => rfl
  · rw [hs]
    obtain ⟨pd, hpd⟩ := announce_eq s i a
    rw [hpd]

/-! ## the lock-mode invariant and co-enabled race freedom -/

/-- how thread `i` holds `l` in state `s` -/
def modeOf (l : Nat) (s : State) (i : Nat) : Mode :=
  if s.owner l = some i then .W else if i ∈ s.readers l then .R else .N

theorem modeOf_W (l : Nat) (s : State) (i : Nat) : modeOf l s i = .W ↔ s.owner l = some i := by
  unfold modeOf
  split
  · simp_all
  · split <;> simp_all

theorem modeOf_R (l : Nat) (s : State) (i : Nat) :
    modeOf l s i = .R ↔ s.owner l ≠ some i ∧ i ∈ s.readers l := by
  unfold modeOf
  split
  · simp_all
  · split <;> simp_all

theorem modeOf_N (l : Nat) (s : State) (i : Nat) :
    modeOf l s i = .N ↔ s.owner l ≠ some i ∧ i ∉ s.readers l := by
  unfold modeOf
  split
  · simp_all
  · split <;> simp_all

theorem modeOf_congr (l : Nat) (s s' : State) (i : Nat) (ho : s'.owner l = s.owner l)
    (hr : s'.readers l = s.readers l) : modeOf l s' i = modeOf l s i := by
  unfold modeOf; rw [ho, hr]

/-- what a lock discipline `D` (a predicate on the mode in which `l` is held and the remaining
program) must say about the four operations on `l`, and that it is closed under every other step -/
structure Disc (l : Nat) (D : Mode → Thread → Bool) : Prop where
  lock : ∀ m r, D m (.lock l :: r) = true → m = .N ∧ D .W r = true
  unlock : ∀ m r, D m (.unlock l :: r) = true → m = .W ∧ D .N r = true
  rlock : ∀ m r, D m (.rlock l :: r) = true → m = .N ∧ D .R r = true
  runlock : ∀ m r, D m (.runlock l :: r) = true → m = .R ∧ D .N r = true
  other : ∀ m a r, a ≠ .lock l → a ≠ .unlock l → a ≠ .rlock l → a ≠ .runlock l →
    D m (a :: r) = true → D m r = true

/-- every thread's remaining program obeys the discipline from the mode in which it holds `l`
now; a writer excludes readers; a thread holds at most one read lock -/
def GIx (l : Nat) (D : Mode → Thread → Bool) (s : State) : Prop :=
  (∀ (i : Nat) (t : Thread), s.rem[i]? = some t → D (modeOf l s i) t = true) ∧
  (∀ i, s.owner l = some i → s.readers l = []) ∧ (s.readers l).Nodup

/-- the invariant of the reader/writer discipline with published locations `X` -/
def GI (l : Nat) (X : Nat → Bool) (s : State) : Prop := GIx l (pubGuardedFrom l X) s

theorem disc_pub (l : Nat) (X : Nat → Bool) : Disc l (pubGuardedFrom l X) where
  lock := by intro m r h; simpa [pubGuardedFrom] using h
  unlock := by intro m r h; simpa [pubGuardedFrom] using h
  rlock := by intro m r h; simpa [pubGuardedFrom] using h
  runlock := by intro m r h; simpa [pubGuardedFrom] using h
  other := by
    intro m a r h1 h2 h3 h4 h
    cases a with
    | lock l' => simpa [pubGuardedFrom, show l' ≠ l from fun e => h1 (by rw [e])] using h
    | unlock l' => simpa [pubGuardedFrom, show l' ≠ l from fun e => h2 (by rw [e])] using h
    | rlock l' => simpa [pubGuardedFrom, show l' ≠ l from fun e => h3 (by rw [e])] using h
    | runlock l' => simpa [pubGuardedFrom, show l' ≠ l from fun e => h4 (by rw [e])] using h
    | read x => simp only [pubGuardedFrom, Bool.and_eq_true] at h; exact h.2
    | write x => simp only [pubGuardedFrom, Bool.and_eq_true] at h; exact h.2
    | tau => simpa [pubGuardedFrom] using h

theorem gix_init (l : Nat) (D : Mode → Thread → Bool) (p : Prog) (h : ∀ t ∈ p, D .N t = true) :
    GIx l D (init p) := by
  refine ⟨?_, ?_, ?_⟩
  · intro i t ht
    have hm : t ∈ p := List.mem_of_getElem? ht
    have : modeOf l (init p) i = .N := by simp [modeOf, init]
    rw [this]; exact h t hm
  · intro i hi; simp [init] at hi
  · simp [init]

theorem gi_init (l : Nat) (X : Nat → Bool) (p : Prog) (h : PubGuardedBy l X p) : GI l X (init p) :=
  gix_init l _ p h

/-- a step that leaves the holders of `l` alone -/
theorem gix_same (l : Nat) (D : Mode → Thread → Bool) (s s' : State) (j : Nat) (a : Action) (r : Thread)
    (h : GIx l D s) (hj : s.rem[j]? = some (a :: r)) (hrem : s'.rem = s.rem.set j r)
    (ho : s'.owner l = s.owner l) (hr : s'.readers l = s.readers l)
    (hpg : ∀ m, D m (a :: r) = true → D m r = true) : GIx l D s' := by
  obtain ⟨h1, h2, h3⟩ := h
  refine ⟨?_, ?_, ?_⟩
  · intro i t ht
    rw [hrem] at ht
    rw [modeOf_congr l s s' i ho hr]
    rcases getElem?_set_cases _ _ _ _ _ ht with ⟨rfl, rfl⟩ | ⟨_, hi⟩
    · exact hpg _ (h1 i _ hj)
    · exact h1 i t hi
  · intro i hi; rw [hr]; exact h2 i (ho ▸ hi)
  · rw [hr]; exact h3

set_option linter.unusedSimpArgs false in
theorem gix_step (wv : WriteFn) (l : Nat) (D : Mode → Thread → Bool) (hd : Disc l D) (s : State) (j : Nat)
    (h : GIx l D s) : GIx l D (step wv s j) := by
  rcases step_cases wv s j with h0 | ⟨a, r, hj, hc, hs⟩ | ⟨a, r, _, _, hs⟩
  · rw [h0]; exact h
  · rw [hs]
    have h' := h
    obtain ⟨h1, h2, h3⟩ := h
    have hjg := h1 j _ hj
    cases a with
    | lock l' =>
      by_cases hl : l' = l
      · subst hl
        simp only [canFire, Bool.and_eq_true, decide_eq_true_eq] at hc
        obtain ⟨⟨hfree, hnord⟩, _⟩ := hc
        have hN : ∀ i, modeOf l' s i = .N := fun i => (modeOf_N l' s i).mpr ⟨by simp [hfree], by simp [hnord]⟩
        refine ⟨?_, ?_, ?_⟩
        · intro i t ht
          simp only [fire] at ht
          rcases getElem?_set_cases _ _ _ _ _ ht with ⟨rfl, rfl⟩ | ⟨hij, hi⟩
          · have : modeOf l' (fire wv s i (.lock l') t) i = .W := (modeOf_W ..).mpr (by simp [fire])
            rw [this]
            exact (hd.lock _ _ hjg).2
          · have : modeOf l' (fire wv s j (.lock l') r) i = .N :=
              (modeOf_N ..).mpr ⟨by simp [fire, Ne.symm hij], by simp [fire, hnord]⟩
            rw [this, ← hN i]; exact h1 i t hi
        · intro i _; simpa [fire] using hnord
        · simpa [fire] using h3
      · exact gix_same l D s _ j _ r h' hj (by simp) (by simp [fire, upd, Ne.symm hl]) (by simp [fire])
          (fun m hm => hd.other m _ r (by simp [hl]) (by simp [hl]) (by simp [hl]) (by simp [hl]) hm)
    | unlock l' =>
      by_cases hl : l' = l
      · subst hl
        simp only [canFire, decide_eq_true_eq] at hc
        have hnord := h2 j hc
        refine ⟨?_, ?_, ?_⟩
        · intro i t ht
          simp only [fire] at ht
          have hpost : modeOf l' (fire wv s j (.unlock l') r) i = .N :=
            (modeOf_N ..).mpr ⟨by simp [fire], by simp [fire, hnord]⟩
          rw [hpost]
          rcases getElem?_set_cases _ _ _ _ _ ht with ⟨rfl, rfl⟩ | ⟨hij, hi⟩
          · exact (hd.unlock _ _ hjg).2
          · have : modeOf l' s i = .N := (modeOf_N ..).mpr ⟨by simp [hc, Ne.symm hij], by simp [hnord]⟩
            rw [← this]; exact h1 i t hi
        · intro i hi; simp [fire] at hi
        · simpa [fire] using h3
      · exact gix_same l D s _ j _ r h' hj (by simp) (by simp [fire, upd, Ne.symm hl]) (by simp [fire])
          (fun m hm => hd.other m _ r (by simp [hl]) (by simp [hl]) (by simp [hl]) (by simp [hl]) hm)
    | rlock l' =>
      by_cases hl : l' = l
      · subst hl
        simp only [canFire, Bool.and_eq_true, decide_eq_true_eq] at hc
        obtain ⟨hfree, _⟩ := hc
        have hjN : modeOf l' s j = .N := (hd.rlock _ _ hjg).1
        have hjnot : j ∉ s.readers l' := ((modeOf_N ..).mp hjN).2
        refine ⟨?_, ?_, ?_⟩
        · intro i t ht
          simp only [fire] at ht
          rcases getElem?_set_cases _ _ _ _ _ ht with ⟨rfl, rfl⟩ | ⟨hij, hi⟩
          · have : modeOf l' (fire wv s i (.rlock l') t) i = .R :=
              (modeOf_R ..).mpr ⟨by simp [fire, hfree], by simp [fire]⟩
            rw [this]
            exact (hd.rlock _ _ hjg).2
          · have : modeOf l' (fire wv s j (.rlock l') r) i = modeOf l' s i := by
              unfold modeOf; simp [fire, hij]
            rw [this]; exact h1 i t hi
        · intro i hi; simp [fire, hfree] at hi
        · simpa [fire] using ⟨hjnot, h3⟩
      · exact gix_same l D s _ j _ r h' hj (by simp) (by simp [fire]) (by simp [fire, upd, Ne.symm hl])
          (fun m hm => hd.other m _ r (by simp [hl]) (by simp [hl]) (by simp [hl]) (by simp [hl]) hm)
    | runlock l' =>
      by_cases hl : l' = l
      · subst hl
        simp only [canFire, decide_eq_true_eq] at hc
        have hfree : ∀ u, s.owner l' ≠ some u := by
          intro u hu; rw [h2 u hu] at hc; simp at hc
        have hjR : modeOf l' s j = .R := (modeOf_R ..).mpr ⟨hfree j, hc⟩
        refine ⟨?_, ?_, ?_⟩
        · intro i t ht
          simp only [fire] at ht
          rcases getElem?_set_cases _ _ _ _ _ ht with ⟨rfl, rfl⟩ | ⟨hij, hi⟩
          · have : modeOf l' (fire wv s i (.runlock l') t) i = .N :=
              (modeOf_N ..).mpr ⟨by simpa [fire] using hfree i, by simp [fire, h3.mem_erase_iff]⟩
            rw [this]
            exact (hd.runlock _ _ hjg).2
          · have : modeOf l' (fire wv s j (.runlock l') r) i = modeOf l' s i := by
              unfold modeOf; simp [fire, List.mem_erase_of_ne hij]
            rw [this]; exact h1 i t hi
        · intro i hi; exact absurd (by simpa [fire] using hi) (hfree i)
        · simpa [fire] using h3.erase j
      · exact gix_same l D s _ j _ r h' hj (by simp) (by simp [fire]) (by simp [fire, upd, Ne.symm hl])
          (fun m hm => hd.other m _ r (by simp [hl]) (by simp [hl]) (by simp [hl]) (by simp [hl]) hm)
    | read x =>
      exact gix_same l D s _ j _ r h' hj (by simp) (by simp [fire]) (by simp [fire])
        (fun m hm => hd.other m _ r (by simp) (by simp) (by simp) (by simp) hm)
    | write x =>
      exact gix_same l D s _ j _ r h' hj (by simp) (by simp [fire]) (by simp [fire])
        (fun m hm => hd.other m _ r (by simp) (by simp) (by simp) (by simp) hm)
    | tau =>
      exact gix_same l D s _ j _ r h' hj (by simp) (by simp [fire]) (by simp [fire])
        (fun m hm => hd.other m _ r (by simp) (by simp) (by simp) (by simp) hm)
  · rw [hs]
    obtain ⟨pd, hpd⟩ := announce_eq s j a
    rw [hpd]
    exact h

theorem gix_runFrom (wv : WriteFn) (l : Nat) (D : Mode → Thread → Bool) (hd : Disc l D) (sched : List Nat)
    (s : State) (h : GIx l D s) : GIx l D (runFrom wv s sched) := by
  induction sched generalizing s with
  | nil => exact h
  | cons j rest ih => exact ih _ (gix_step wv l D hd s j h)

theorem gi_step (wv : WriteFn) (l : Nat) (X : Nat → Bool) (s : State) (j : Nat) (h : GI l X s) :
    GI l X (step wv s j) := gix_step wv l _ (disc_pub l X) s j h

theorem gi_runFrom (wv : WriteFn) (l : Nat) (X : Nat → Bool) (sched : List Nat) (s : State)
    (h : GI l X s) : GI l X (runFrom wv s sched) := gix_runFrom wv l _ (disc_pub l X) sched s h

/-- what the discipline says about a thread that is about to access `x` -/
theorem gi_access (l : Nat) (X : Nat → Bool) (s : State) (h : GI l X s) (i : Nat) (a : Action)
    (r : Thread) (x : Nat) (w : Bool) (hi : s.rem[i]? = some (a :: r)) (ha : a.access = some (x, w)) :
    (w = true → s.owner l = some i) ∧
    (w = false → X x = true ∨ s.owner l = some i ∨ (i ∈ s.readers l ∧ ∀ u, s.owner l ≠ some u)) := by
  have hg := h.1 i _ hi
  cases a with
  | write y =>
    simp only [Action.access, Option.some.injEq, Prod.mk.injEq] at ha
    obtain ⟨_, rfl⟩ := ha
    simp only [pubGuardedFrom, Bool.and_eq_true, beq_iff_eq] at hg
    exact ⟨fun _ => (modeOf_W ..).mp hg.1, fun hf => by cases hf⟩
  | read y =>
    simp only [Action.access, Option.some.injEq, Prod.mk.injEq] at ha
    obtain ⟨rfl, rfl⟩ := ha
    refine ⟨fun hf => (by cases hf), fun _ => ?_⟩
    simp only [pubGuardedFrom, Bool.and_eq_true, Bool.or_eq_true, bne_iff_ne, ne_eq] at hg
    rcases hg.1 with hx | hm
    · exact Or.inl hx
    · right
      cases hmo : modeOf l s i with
      | N => exact absurd hmo hm
      | W => exact Or.inl ((modeOf_W ..).mp hmo)
      | R =>
        have := (modeOf_R ..).mp hmo
        refine Or.inr ⟨this.2, fun u hu => ?_⟩
        rw [h.2.1 u hu] at this
        simp at this
  | lock _ => simp [Action.access] at ha
  | unlock _ => simp [Action.access] at ha
  | rlock _ => simp [Action.access] at ha
  | runlock _ => simp [Action.access] at ha
  | tau => simp [Action.access] at ha

/-- under the reader/writer discipline (nothing published) no two conflicting accesses are ever
enabled together -/
theorem gi_no_race (l : Nat) (s : State) (h : GI l (fun _ => false) s) : ¬ Race s := by
  rintro ⟨i, j, hij, ai, aj, ri, rj, x, wi, wj, hi, hj, hai, haj, hw⟩
  have hI := gi_access l _ s h i ai ri x wi hi hai
  have hJ := gi_access l _ s h j aj rj x wj hj haj
  have excl : ∀ u v, s.owner l = some u → (s.owner l = some v ∨ (v ∈ s.readers l ∧ ∀ u, s.owner l ≠ some u)) → u = v := by
    intro u v hu hv
    rcases hv with hv | ⟨_, hv⟩
    · rw [hu] at hv; exact Option.some.inj hv
    · exact absurd hu (hv u)
  rcases hw with hw | hw
  · have hio := hI.1 hw
    cases wj with
    | true => exact hij (excl i j hio (Or.inl (hJ.1 rfl)))
    | false =>
      rcases hJ.2 rfl with hx | hx
      · cases hx
      · exact hij (excl i j hio hx)
  · have hjo := hJ.1 hw
    cases wi with
    | true => exact hij (excl j i hjo (Or.inl (hI.1 rfl))).symm
    | false =>
      rcases hI.2 rfl with hx | hx
      · cases hx
      · exact hij (excl j i hjo hx).symm

/-- the mutex discipline is the reader/writer discipline without read locks -/
theorem guarded_pubGuarded (l : Nat) (X : Nat → Bool) (h : Bool) (t : Thread)
    (hg : guardedFrom l h t = true) : pubGuardedFrom l X (if h then .W else .N) t = true := by
  induction t generalizing h with
  | nil => cases h <;> simp_all [guardedFrom, pubGuardedFrom]
  | cons a r ih =>
    cases a with
    | lock l' =>
      by_cases hl : l' = l
      · simp only [guardedFrom, hl, if_true, Bool.and_eq_true, Bool.not_eq_true'] at hg
        obtain ⟨rfl, hr⟩ := hg
        simpa [pubGuardedFrom, hl] using ih true hr
      · simp only [guardedFrom, hl, if_false] at hg
        simpa [pubGuardedFrom, hl] using ih h hg
    | unlock l' =>
      by_cases hl : l' = l
      · simp only [guardedFrom, hl, if_true, Bool.and_eq_true] at hg
        obtain ⟨rfl, hr⟩ := hg
        simpa [pubGuardedFrom, hl] using ih false hr
      · simp only [guardedFrom, hl, if_false] at hg
        simpa [pubGuardedFrom, hl] using ih h hg
    | rlock l' =>
      by_cases hl : l' = l
      · simp [guardedFrom, hl] at hg
      · simp only [guardedFrom, hl, if_false] at hg
        simpa [pubGuardedFrom, hl] using ih h hg
    | runlock l' =>
      by_cases hl : l' = l
      · simp [guardedFrom, hl] at hg
      · simp only [guardedFrom, hl, if_false] at hg
        simpa [pubGuardedFrom, hl] using ih h hg
    | read x =>
      simp only [guardedFrom, Bool.and_eq_true] at hg
      obtain ⟨rfl, hr⟩ := hg
      simpa [pubGuardedFrom] using ih true hr
    | write x =>
      simp only [guardedFrom, Bool.and_eq_true] at hg
      obtain ⟨rfl, hr⟩ := hg
      simpa [pubGuardedFrom] using ih true hr
    | tau =>
      simp only [guardedFrom] at hg
      simpa [pubGuardedFrom] using ih h hg

theorem allGuarded_pubGuarded (l : Nat) (X : Nat → Bool) (p : Prog) (h : AllGuardedBy l p) :
    PubGuardedBy l X p := fun t ht => by simpa using guarded_pubGuarded l X false t (h t ht)

end J5V.Conc.Sched
