import J5V.Conc.Sched
/-! Lemmas for `J5V.Conc.Sched` (core only): mutual exclusion invariant, race freedom,
deadlock freedom, serialisability. The property theorems are restated in `J5V/Props/C10.lean`. -/
namespace J5V.Conc.Sched

theorem getElem?_set_cases {α : Type} (xs : List α) (j i : Nat) (r t : α)
    (h : (xs.set j r)[i]? = some t) : (i = j ∧ t = r) ∨ (i ≠ j ∧ xs[i]? = some t) := by
  rw [List.getElem?_set] at h
  by_cases hji : j = i
  · subst hji
    simp only [if_true] at h
    split at h
    · left; exact ⟨rfl, by simpa using h.symm⟩
    · cases h
  · simp only [hji, if_false] at h
    right; exact ⟨fun e => hji e.symm, h⟩

/-! ## mutual exclusion invariant and race freedom -/

def GInv (l : Nat) (s : State) : Prop :=
  ∀ (i : Nat) (t : Thread), s.rem[i]? = some t → guardedFrom l (decide (s.owner l = some i)) t = true

theorem ginv_init (l : Nat) (p : Prog) (h : AllGuardedBy l p) : GInv l (init p) := by
  intro i t ht
  have hm : t ∈ p := List.mem_of_getElem? ht
  simpa [init] using h t hm

theorem ginv_step (wv : WriteFn) (l : Nat) (s : State) (j : Nat) (h : GInv l s) :
    GInv l (step wv s j) := by
  unfold step
  split
  · exact h
  · exact h
  · rename_i a r hj
    have hj' := h j _ hj
    cases a with
    | lock l' =>
      simp only []
      split
      · rename_i hfree
        intro i t ht
        simp only [] at ht
        rcases getElem?_set_cases _ _ _ _ _ ht with ⟨rfl, rfl⟩ | ⟨hij, hi⟩
        · by_cases hl : l' = l
          · subst hl
            simp only [guardedFrom, if_true, hfree] at hj'
            simpa using hj'
          · simp only [guardedFrom, hl, if_false] at hj'
            simpa [upd, Ne.symm hl] using hj'
        · have := h i t hi
          by_cases hl : l' = l
          · subst hl
            simp only [hfree] at this
            simpa [upd, Ne.symm hij] using this
          · simpa [upd, Ne.symm hl] using this
      · exact h
    | unlock l' =>
      simp only []
      split
      · rename_i hown
        intro i t ht
        simp only [] at ht
        rcases getElem?_set_cases _ _ _ _ _ ht with ⟨rfl, rfl⟩ | ⟨hij, hi⟩
        · by_cases hl : l' = l
          · subst hl
            simp only [guardedFrom, if_true, hown] at hj'
            simpa using hj'
          · simp only [guardedFrom, hl, if_false] at hj'
            simpa [upd, Ne.symm hl] using hj'
        · have := h i t hi
          by_cases hl : l' = l
          · subst hl
            simp only [hown] at this
            simpa [upd, hij, Ne.symm hij] using this
          · simpa [upd, Ne.symm hl] using this
      · exact h
    | read x =>
      intro i t ht
      simp only [] at ht ⊢
      rcases getElem?_set_cases _ _ _ _ _ ht with ⟨rfl, rfl⟩ | ⟨_, hi⟩
      · simp only [guardedFrom, Bool.and_eq_true] at hj'; exact hj'.2
      · exact h i t hi
    | write x =>
      intro i t ht
      simp only [] at ht ⊢
      rcases getElem?_set_cases _ _ _ _ _ ht with ⟨rfl, rfl⟩ | ⟨_, hi⟩
      · simp only [guardedFrom, Bool.and_eq_true] at hj'; exact hj'.2
      · exact h i t hi
    | tau =>
      intro i t ht
      simp only [] at ht ⊢
      rcases getElem?_set_cases _ _ _ _ _ ht with ⟨rfl, rfl⟩ | ⟨_, hi⟩
      · simpa [guardedFrom] using hj'
      · exact h i t hi

theorem ginv_runFrom (wv : WriteFn) (l : Nat) (sched : List Nat) (s : State) (h : GInv l s) :
    GInv l (runFrom wv s sched) := by
  induction sched generalizing s with
  | nil => exact h
  | cons j rest ih => exact ih _ (ginv_step wv l s j h)

theorem access_holds (l : Nat) (h : Bool) (a : Action) (r : Thread) (x : Nat) (w : Bool)
    (ha : a.access = some (x, w)) (hg : guardedFrom l h (a :: r) = true) : h = true := by
  cases a <;> simp [Action.access] at ha <;> simp [guardedFrom] at hg <;> exact hg.1

theorem ginv_no_race (l : Nat) (s : State) (h : GInv l s) : ¬ Race s := by
  rintro ⟨i, j, hij, ai, aj, ri, rj, x, wi, wj, hi, hj, hai, haj, _⟩
  have h1 := access_holds l _ ai ri x wi hai (h i _ hi)
  have h2 := access_holds l _ aj rj x wj haj (h j _ hj)
  simp only [decide_eq_true_eq] at h1 h2
  rw [h1] at h2
  exact hij (Option.some.inj h2)

/-! ## no nested acquisition ⇒ no deadlock -/

theorem getElem?_set_isSome {α : Type} (xs : List α) (j u : Nat) (r t : α) (h : xs[u]? = some t) :
    ∃ t', (xs.set j r)[u]? = some t' := by
  rw [List.getElem?_set]
  by_cases hju : j = u
  · subst hju
    have : j < xs.length := by
      rcases Nat.lt_or_ge j xs.length with h' | h'
      · exact h'
      · rw [List.getElem?_eq_none h'] at h; cases h
    exact ⟨r, by simp [this]⟩
  · exact ⟨t, by simp [hju, h]⟩

def FInv (s : State) : Prop :=
  (∀ (i : Nat) (t : Thread), s.rem[i]? = some t →
      ∃ h : Option Nat, flat h t = true ∧ ∀ l, s.owner l = some i ↔ h = some l) ∧
  (∀ (l u : Nat), s.owner l = some u → ∃ tu : Thread, s.rem[u]? = some tu)

theorem finv_init (p : Prog) (h : NoNesting p) : FInv (init p) := by
  refine ⟨?_, ?_⟩
  · intro i t ht
    exact ⟨none, h t (List.mem_of_getElem? ht), by simp [init]⟩
  · intro l u hu
    simp [init] at hu

theorem flat_lock (h : Option Nat) (l : Nat) (r : Thread) (hf : flat h (.lock l :: r) = true) :
    h = none ∧ flat (some l) r = true := by
  cases h <;> simp [flat] at hf ⊢
  exact hf

theorem flat_unlock (h : Option Nat) (l : Nat) (r : Thread) (hf : flat h (.unlock l :: r) = true) :
    h = some l ∧ flat none r = true := by
  cases h <;> simp [flat] at hf ⊢
  exact hf

theorem flat_other (h : Option Nat) (a : Action) (r : Thread) (hl : ∀ l, a ≠ .lock l)
    (hu : ∀ l, a ≠ .unlock l) (hf : flat h (a :: r) = true) : flat h r = true := by
  cases a with
  | lock l => exact absurd rfl (hl l)
  | unlock l => exact absurd rfl (hu l)
  | read x => cases h <;> simpa [flat] using hf
  | write x => cases h <;> simpa [flat] using hf
  | tau => cases h <;> simpa [flat] using hf

theorem finv_step_other (_wv : WriteFn) (s : State) (j : Nat) (a : Action) (r : Thread)
    (h : FInv s) (hj : s.rem[j]? = some (a :: r)) (hl : ∀ l, a ≠ .lock l) (hu : ∀ l, a ≠ .unlock l)
    (s' : State) (hrem : s'.rem = s.rem.set j r) (hown : s'.owner = s.owner) : FInv s' := by
  obtain ⟨h1, h2⟩ := h
  refine ⟨?_, ?_⟩
  · intro i t ht
    rw [hrem] at ht
    rw [hown]
    rcases getElem?_set_cases _ _ _ _ _ ht with ⟨rfl, rfl⟩ | ⟨_, hi⟩
    · obtain ⟨hh, hf, ho⟩ := h1 i _ hj
      exact ⟨hh, flat_other hh a _ hl hu hf, ho⟩
    · exact h1 i t hi
  · intro l u hu'
    rw [hown] at hu'
    obtain ⟨tu, htu⟩ := h2 l u hu'
    rw [hrem]
    exact getElem?_set_isSome _ _ _ _ _ htu

theorem finv_step (wv : WriteFn) (s : State) (j : Nat) (h : FInv s) : FInv (step wv s j) := by
  unfold step
  split
  · exact h
  · exact h
  · rename_i a r hj
    cases a with
    | lock l =>
      simp only []
      split
      · rename_i hfree
        obtain ⟨h1, h2⟩ := h
        obtain ⟨hh, hf, ho⟩ := h1 j _ hj
        obtain ⟨rfl, hf'⟩ := flat_lock hh l r hf
        refine ⟨?_, ?_⟩
        · intro i t ht
          simp only [] at ht ⊢
          rcases getElem?_set_cases _ _ _ _ _ ht with ⟨rfl, rfl⟩ | ⟨hij, hi⟩
          · refine ⟨some l, hf', ?_⟩
            intro l2
            by_cases hl2 : l2 = l
            · subst hl2; simp [upd]
            · have := ho l2
              simp only [reduceCtorEq, iff_false] at this
              simp [upd, hl2, this, Ne.symm hl2]
          · obtain ⟨hi', hfi, hoi⟩ := h1 i t hi
            refine ⟨hi', hfi, ?_⟩
            intro l2
            by_cases hl2 : l2 = l
            · subst hl2
              have := hoi l2
              rw [hfree] at this
              simp only [reduceCtorEq, false_iff] at this
              simp [upd, Ne.symm hij, this]
            · simpa [upd, hl2] using hoi l2
        · intro l2 u hu
          simp only [] at hu ⊢
          by_cases hl2 : l2 = l
          · subst hl2
            simp [upd] at hu
            subst hu
            exact getElem?_set_isSome _ _ _ _ _ hj
          · simp [upd, hl2] at hu
            obtain ⟨tu, htu⟩ := h2 l2 u hu
            exact getElem?_set_isSome _ _ _ _ _ htu
      · exact h
    | unlock l =>
      simp only []
      split
      · rename_i hown
        obtain ⟨h1, h2⟩ := h
        obtain ⟨hh, hf, ho⟩ := h1 j _ hj
        obtain ⟨rfl, hf'⟩ := flat_unlock hh l r hf
        refine ⟨?_, ?_⟩
        · intro i t ht
          simp only [] at ht ⊢
          rcases getElem?_set_cases _ _ _ _ _ ht with ⟨rfl, rfl⟩ | ⟨hij, hi⟩
          · refine ⟨none, hf', ?_⟩
            intro l2
            by_cases hl2 : l2 = l
            · subst hl2; simp [upd]
            · have := ho l2
              simp only [Option.some.injEq] at this
              simp [upd, hl2, this, Ne.symm hl2]
          · obtain ⟨hi', hfi, hoi⟩ := h1 i t hi
            refine ⟨hi', hfi, ?_⟩
            intro l2
            by_cases hl2 : l2 = l
            · subst hl2
              have := hoi l2
              rw [hown] at this
              simp only [Option.some.injEq] at this
              simp [upd]
              intro e
              exact hij (this.mpr e).symm
            · simpa [upd, hl2] using hoi l2
        · intro l2 u hu
          simp only [] at hu ⊢
          by_cases hl2 : l2 = l
          · subst hl2
            simp [upd] at hu
          · simp [upd, hl2] at hu
            obtain ⟨tu, htu⟩ := h2 l2 u hu
            exact getElem?_set_isSome _ _ _ _ _ htu
      · exact h
    | read x => exact finv_step_other wv s j _ r h hj (by simp) (by simp) _ rfl rfl
    | write x => exact finv_step_other wv s j _ r h hj (by simp) (by simp) _ rfl rfl
    | tau => exact finv_step_other wv s j _ r h hj (by simp) (by simp) _ rfl rfl

theorem finv_runFrom (wv : WriteFn) (sched : List Nat) (s : State) (h : FInv s) :
    FInv (runFrom wv s sched) := by
  induction sched generalizing s with
  | nil => exact h
  | cons j rest ih => exact ih _ (finv_step wv s j h)

theorem finv_enabled (s : State) (h : FInv s) (hnd : ¬ AllDone s) : ∃ i, Enabled s i := by
  obtain ⟨h1, h2⟩ := h
  unfold AllDone at hnd
  simp only [Classical.not_forall] at hnd
  obtain ⟨i, t, ht, hne⟩ := hnd
  cases t with
  | nil => exact absurd rfl hne
  | cons a r =>
    obtain ⟨hh, hf, ho⟩ := h1 i _ ht
    cases a with
    | lock l =>
      obtain ⟨rfl, _⟩ := flat_lock hh l r hf
      cases hown : s.owner l with
      | none => exact ⟨i, _, _, ht, hown⟩
      | some u =>
        obtain ⟨tu, htu⟩ := h2 l u hown
        obtain ⟨hu, hfu, hou⟩ := h1 u tu htu
        have hul : hu = some l := (hou l).mp hown
        subst hul
        cases tu with
        | nil => simp [flat] at hfu
        | cons b r' =>
          cases b with
          | lock l' => simp [flat] at hfu
          | unlock l' =>
            obtain ⟨he, _⟩ := flat_unlock _ l' r' hfu
            cases he
            exact ⟨u, _, _, htu, hown⟩
          | read x => exact ⟨u, _, _, htu, trivial⟩
          | write x => exact ⟨u, _, _, htu, trivial⟩
          | tau => exact ⟨u, _, _, htu, trivial⟩
    | unlock l =>
      obtain ⟨rfl, _⟩ := flat_unlock hh l r hf
      exact ⟨i, _, _, ht, (ho l).mpr rfl⟩
    | read x => exact ⟨i, _, _, ht, trivial⟩
    | write x => exact ⟨i, _, _, ht, trivial⟩
    | tau => exact ⟨i, _, _, ht, trivial⟩

/-! ## … and every run can be completed -/

def totalRem (s : State) : Nat := (s.rem.map List.length).sum

theorem sum_length_set {α : Type} (xs : List (List α)) (i : Nat) (a : α) (r : List α)
    (h : xs[i]? = some (a :: r)) :
    ((xs.set i r).map List.length).sum + 1 = (xs.map List.length).sum := by
  induction xs generalizing i with
  | nil => simp at h
  | cons x xs ih =>
    cases i with
    | zero =>
      simp only [List.getElem?_cons_zero, Option.some.injEq] at h
      subst h
      simp only [List.set_cons_zero, List.map_cons, List.sum_cons, List.length_cons]
      omega
    | succ i =>
      simp only [List.getElem?_cons_succ] at h
      have := ih i h
      simp only [List.set_cons_succ, List.map_cons, List.sum_cons]
      omega

theorem enabled_step_rem (wv : WriteFn) (s : State) (i : Nat) (h : Enabled s i) :
    ∃ a r, s.rem[i]? = some (a :: r) ∧ (step wv s i).rem = s.rem.set i r := by
  obtain ⟨a, r, hr, hen⟩ := h
  refine ⟨a, r, hr, ?_⟩
  cases a <;> simp_all [step]

theorem enabled_step_totalRem (wv : WriteFn) (s : State) (i : Nat) (h : Enabled s i) :
    totalRem (step wv s i) + 1 = totalRem s := by
  obtain ⟨a, r, hr, hstep⟩ := enabled_step_rem wv s i h
  unfold totalRem
  rw [hstep]
  exact sum_length_set s.rem i a r hr

theorem finv_can_finish (wv : WriteFn) (n : Nat) :
    ∀ s : State, FInv s → totalRem s = n → ∃ more : List Nat, AllDone (runFrom wv s more) := by
  induction n with
  | zero =>
    intro s hf hn
    refine ⟨[], ?_⟩
    apply Classical.byContradiction
    intro hnd
    obtain ⟨i, hi⟩ := finv_enabled s hf hnd
    have := enabled_step_totalRem wv s i hi
    omega
  | succ n ih =>
    intro s hf hn
    by_cases hd : AllDone s
    · exact ⟨[], hd⟩
    · obtain ⟨i, hi⟩ := finv_enabled s hf hd
      have hlen := enabled_step_totalRem wv s i hi
      obtain ⟨more, hmore⟩ := ih (step wv s i) (finv_step wv s i hf) (by omega)
      exact ⟨i :: more, hmore⟩

/-! ## one critical section per operation ⇒ every schedule is a sequential execution -/

def BInv (l : Nat) (s : State) : Prop :=
  s.owner l = none ∧ ∀ (j : Nat) (t : Thread), s.rem[j]? = some t → opsShape l false t = true

def MInv (l : Nat) (s : State) (i : Nat) : Prop :=
  s.owner l = some i ∧ (∃ t : Thread, s.rem[i]? = some t ∧ opsShape l true t = true) ∧
    ∀ (j : Nat) (t : Thread), j ≠ i → s.rem[j]? = some t → opsShape l false t = true

theorem stepN_succ_right (wv : WriteFn) (s : State) (i k : Nat) :
    stepN wv s i (k + 1) = step wv (stepN wv s i k) i := by
  induction k generalizing s with
  | zero => rfl
  | succ k ih => simp only [stepN] at ih ⊢; exact ih _

theorem getD_of_getElem? {α : Type} (xs : List α) (i : Nat) (t d : α) (h : xs[i]? = some t) :
    xs.getD i d = t := by
  simp [List.getD_eq_getElem?_getD, h]

theorem opsShape_true_cons (l : Nat) (t : Thread) (h : opsShape l true t = true) :
    ∃ b r, t = b :: r ∧
      ((b = .unlock l ∧ opsShape l false r = true) ∨
       ((∀ l', b ≠ .lock l') ∧ (∀ l', b ≠ .unlock l') ∧ opsShape l true r = true)) := by
  cases t with
  | nil => simp [opsShape] at h
  | cons b r =>
    refine ⟨b, r, rfl, ?_⟩
    cases b with
    | lock l' => simp [opsShape] at h
    | unlock l' =>
      simp [opsShape] at h
      left; exact ⟨by rw [h.1], h.2⟩
    | read x => right; exact ⟨by simp, by simp, by simpa [opsShape] using h⟩
    | write x => right; exact ⟨by simp, by simp, by simpa [opsShape] using h⟩
    | tau => right; exact ⟨by simp, by simp, by simpa [opsShape] using h⟩

theorem opLen_pos_of_inside (l : Nat) (t : Thread) (h : opsShape l true t = true) : 0 < opLen t := by
  obtain ⟨b, r, rfl, _⟩ := opsShape_true_cons l t h
  cases b <;> simp [opLen]

theorem opsShape_false_cons (l : Nat) (a : Action) (r : Thread) (h : opsShape l false (a :: r) = true) :
    a = .lock l ∧ opsShape l true r = true := by
  cases a <;> simp [opsShape] at h
  exact ⟨by rw [h.1], h.2⟩

/-- a state reachable by any schedule: a sequential state, or one plus a proper prefix of one
operation of one thread -/
def Good (wv : WriteFn) (l : Nat) (s s' : State) : Prop :=
  (BInv l s' ∧ ∃ order : List Nat, s' = order.foldl (stepOp wv) s) ∨
  (∃ (i : Nat) (s0 : State) (order : List Nat) (k : Nat),
      BInv l s0 ∧ s0 = order.foldl (stepOp wv) s ∧ s' = stepN wv s0 i k ∧ 0 < k ∧
      opLen (s'.rem.getD i []) + k = opLen (s0.rem.getD i []) ∧ 0 < opLen (s'.rem.getD i []) ∧
      MInv l s' i)

theorem good_step (wv : WriteFn) (l : Nat) (s s' : State) (t : Nat) (h : Good wv l s s') :
    Good wv l s (step wv s' t) := by
  rcases h with ⟨⟨hown, hshape⟩, order, hord⟩ | ⟨i, s0, order, k, hb0, hs0, hs', hk, hlen, hpos, hown, ⟨ti, hti, hshi⟩, hoth⟩
  · -- sequential state
    cases hr : s'.rem[t]? with
    | none => left; simp only [step, hr]; exact ⟨⟨hown, hshape⟩, order, hord⟩
    | some tt =>
      cases tt with
      | nil => left; simp only [step, hr]; exact ⟨⟨hown, hshape⟩, order, hord⟩
      | cons a r =>
        obtain ⟨rfl, hr'⟩ := opsShape_false_cons l a r (hshape t _ hr)
        right
        have hstep : step wv s' t = { s' with rem := s'.rem.set t r, owner := upd s'.owner l (some t) } := by
          simp only [step, hr, hown, if_true]
        have hget : (s'.rem.set t r)[t]? = some r := by
          obtain ⟨t', ht'⟩ := getElem?_set_isSome s'.rem t t r _ hr
          rcases getElem?_set_cases _ _ _ _ _ ht' with ⟨_, rfl⟩ | ⟨hne, _⟩
          · exact ht'
          · exact absurd rfl hne
        refine ⟨t, s', order, 1, ⟨hown, hshape⟩, hord, rfl, Nat.one_pos, ?_, ?_, ?_⟩
        · rw [hstep]
          simp only [getD_of_getElem? _ _ _ _ hget, getD_of_getElem? _ _ _ _ hr, opLen]
        · rw [hstep]
          simp only [getD_of_getElem? _ _ _ _ hget]
          exact opLen_pos_of_inside l r hr'
        · rw [hstep]
          refine ⟨by simp [upd], ⟨r, hget, hr'⟩, ?_⟩
          intro j tj hj hjt
          simp only [] at hjt
          rcases getElem?_set_cases _ _ _ _ _ hjt with ⟨e, _⟩ | ⟨_, hjt'⟩
          · exact absurd e hj
          · exact hshape j tj hjt'
  · -- inside an operation of thread i
    by_cases hti' : t = i
    · subst hti'
      obtain ⟨b, r, rfl, hcase⟩ := opsShape_true_cons l ti hshi
      have hget : (s'.rem.set t r)[t]? = some r := by
        obtain ⟨t', ht'⟩ := getElem?_set_isSome s'.rem t t r _ hti
        rcases getElem?_set_cases _ _ _ _ _ ht' with ⟨_, rfl⟩ | ⟨hne, _⟩
        · exact ht'
        · exact absurd rfl hne
      have hnext : step wv s' t = stepN wv s0 t (k + 1) := by rw [stepN_succ_right, ← hs']
      rcases hcase with ⟨rfl, hr'⟩ | ⟨hnl, hnu, hr'⟩
      · -- the unlock: the operation is complete
        left
        have hstep : step wv s' t = { s' with rem := s'.rem.set t r, owner := upd s'.owner l none } := by
          simp only [step, hti, hown, if_true]
        refine ⟨?_, order ++ [t], ?_⟩
        · rw [hstep]
          refine ⟨by simp [upd], ?_⟩
          intro j tj hjt
          simp only [] at hjt
          rcases getElem?_set_cases _ _ _ _ _ hjt with ⟨_, rfl⟩ | ⟨hne, hjt'⟩
          · exact hr'
          · exact hoth j tj hne hjt'
        · rw [List.foldl_append, ← hs0]
          simp only [List.foldl_cons, List.foldl_nil, stepOp]
          rw [hnext]
          simp only [getD_of_getElem? _ _ _ _ hti, opLen] at hlen
          rw [← hlen, Nat.add_comm]
      · -- an access or a local step: still inside
        right
        have hstep : (step wv s' t).rem = s'.rem.set t r ∧ (step wv s' t).owner = s'.owner := by
          cases b with
          | lock l' => exact absurd rfl (hnl l')
          | unlock l' => exact absurd rfl (hnu l')
          | read x => simp [step, hti]
          | write x => simp [step, hti]
          | tau => simp [step, hti]
        have hlen' : opLen (b :: r) = opLen r + 1 := by
          cases b with
          | lock l' => exact absurd rfl (hnl l')
          | unlock l' => exact absurd rfl (hnu l')
          | read x => rfl
          | write x => rfl
          | tau => rfl
        refine ⟨t, s0, order, k + 1, hb0, hs0, hnext, Nat.succ_pos _, ?_, ?_, ?_⟩
        · rw [hstep.1]
          simp only [getD_of_getElem? _ _ _ _ hget]
          simp only [getD_of_getElem? _ _ _ _ hti, hlen'] at hlen
          omega
        · rw [hstep.1]
          simp only [getD_of_getElem? _ _ _ _ hget]
          exact opLen_pos_of_inside l r hr'
        · refine ⟨by rw [hstep.2]; exact hown, ⟨r, by rw [hstep.1]; exact hget, hr'⟩, ?_⟩
          intro j tj hj hjt
          rw [hstep.1] at hjt
          rcases getElem?_set_cases _ _ _ _ _ hjt with ⟨e, _⟩ | ⟨_, hjt'⟩
          · exact absurd e hj
          · exact hoth j tj hj hjt'
    · -- another thread: finished or blocked on the lock
      have hnoop : step wv s' t = s' := by
        cases hr : s'.rem[t]? with
        | none => simp only [step, hr]
        | some tt =>
          cases tt with
          | nil => simp only [step, hr]
          | cons a r =>
            obtain ⟨rfl, _⟩ := opsShape_false_cons l a r (hoth t _ hti' hr)
            simp only [step, hr, hown]
            simp
      rw [hnoop]
      right
      exact ⟨i, s0, order, k, hb0, hs0, hs', hk, hlen, hpos, hown, ⟨ti, hti, hshi⟩, hoth⟩

theorem good_runFrom (wv : WriteFn) (l : Nat) (s : State) (sched : List Nat) (s' : State)
    (h : Good wv l s s') : Good wv l s (runFrom wv s' sched) := by
  induction sched generalizing s' with
  | nil => exact h
  | cons t rest ih => exact ih _ (good_step wv l s s' t h)

theorem binv_init (l : Nat) (p : Prog) (h : OpsProg l p) : BInv l (init p) :=
  ⟨rfl, fun _ t ht => h t (List.mem_of_getElem? ht)⟩

theorem good_run (wv : WriteFn) (l : Nat) (p : Prog) (h : OpsProg l p) (sched : List Nat) :
    Good wv l (init p) (run wv p sched) :=
  good_runFrom wv l (init p) sched (init p) (Or.inl ⟨binv_init l p h, [], rfl⟩)

end J5V.Conc.Sched
