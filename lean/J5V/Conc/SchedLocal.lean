import J5V.Conc.SchedProofs
/-! Serialisability when threads also take local steps between their critical sections: every
schedule of `p` is matched, step for step or by stuttering, by a schedule of `stripProg p` (the
program without those local steps) with the same lock owners, memory and observation logs. -/
namespace J5V.Conc.Sched

theorem strip_shape (l : Nat) (h : Bool) (t : Thread) (hs : opsShapeT l h t = true) :
    opsShape l h (stripT h t) = true := by
  induction t generalizing h with
  | nil => cases h <;> simp_all [opsShapeT, opsShape, stripT]
  | cons a r ih =>
    cases h <;> cases a <;> simp_all [opsShapeT, opsShape, stripT]

/-- the shape invariant of the full program -/
def TInv (l : Nat) (s : State) : Prop :=
  ∀ (i : Nat) (t : Thread), s.rem[i]? = some t → opsShapeT l (decide (s.owner l = some i)) t = true

/-- `s̃` is `s` with every thread's remaining program stripped -/
def Rel (l : Nat) (s s' : State) : Prop :=
  s'.owner = s.owner ∧ s'.mem = s.mem ∧ s'.logs = s.logs ∧ s'.rem.length = s.rem.length ∧
  ∀ (i : Nat) (t : Thread), s.rem[i]? = some t → s'.rem[i]? = some (stripT (decide (s.owner l = some i)) t)

theorem rel_init (l : Nat) (p : Prog) : Rel l (init p) (init (stripProg p)) := by
  refine ⟨rfl, rfl, by simp [init, stripProg], by simp [init, stripProg], ?_⟩
  intro i t ht
  simp only [init, stripProg] at ht ⊢
  simp [ht]

theorem tinv_init (l : Nat) (p : Prog) (h : OpsProgT l p) : TInv l (init p) := by
  intro i t ht
  simpa [init] using h t (List.mem_of_getElem? ht)

theorem getElem?_none_of_length {α : Type} (xs ys : List α) (i : Nat) (hl : ys.length = xs.length)
    (h : xs[i]? = none) : ys[i]? = none := by
  rw [List.getElem?_eq_none_iff] at h ⊢
  omega

theorem set_self_getElem? {α : Type} (xs : List α) (j : Nat) (r t : α) (h : xs[j]? = some t) :
    (xs.set j r)[j]? = some r := by
  obtain ⟨t', ht'⟩ := getElem?_set_isSome xs j j r t h
  rcases getElem?_set_cases _ _ _ _ _ ht' with ⟨_, rfl⟩ | ⟨hne, _⟩
  · exact ht'
  · exact absurd rfl hne

/-- one step of the full program is matched by zero or one step of the stripped program -/
theorem rel_step (wv : WriteFn) (l : Nat) (s s' : State) (j : Nat) (hr : Rel l s s') (ht : TInv l s) :
    (Rel l (step wv s j) s' ∨ Rel l (step wv s j) (step wv s' j)) ∧ TInv l (step wv s j) := by
  obtain ⟨ho, hm, hlg, hlen, hrem⟩ := hr
  cases hj : s.rem[j]? with
  | none =>
    have : step wv s j = s := by simp [step, hj]
    rw [this]; exact ⟨Or.inl ⟨ho, hm, hlg, hlen, hrem⟩, ht⟩
  | some tj =>
    cases tj with
    | nil =>
      have : step wv s j = s := by simp [step, hj]
      rw [this]; exact ⟨Or.inl ⟨ho, hm, hlg, hlen, hrem⟩, ht⟩
    | cons a r =>
      have hsj := hrem j _ hj
      have hshape := ht j _ hj
      -- generic facts about a step that only replaces thread j's remainder
      have others : ∀ (rem' : List Thread) (rem'' : List Thread) (r'' : Thread) (own' : Nat → Option Nat),
          rem' = s.rem.set j r → rem'' = s'.rem.set j r'' →
          (∀ i, i ≠ j → decide (own' l = some i) = decide (s.owner l = some i)) →
          r'' = stripT (decide (own' l = some j)) r →
          ∀ (i : Nat) (t : Thread), rem'[i]? = some t → rem''[i]? = some (stripT (decide (own' l = some i)) t) := by
        intro rem' rem'' r'' own' h1 h2 h3 h4 i t hit
        subst h1 h2
        rcases getElem?_set_cases _ _ _ _ _ hit with ⟨rfl, rfl⟩ | ⟨hij, hi⟩
        · rw [set_self_getElem? _ _ _ _ hsj, h4]
        · rw [List.getElem?_set_ne (Ne.symm hij), h3 i hij]
          exact hrem i t hi
      have tothers : ∀ (rem' : List Thread) (own' : Nat → Option Nat), rem' = s.rem.set j r →
          (∀ i, i ≠ j → decide (own' l = some i) = decide (s.owner l = some i)) →
          opsShapeT l (decide (own' l = some j)) r = true →
          ∀ (i : Nat) (t : Thread), rem'[i]? = some t → opsShapeT l (decide (own' l = some i)) t = true := by
        intro rem' own' h1 h3 h4 i t hit
        subst h1
        rcases getElem?_set_cases _ _ _ _ _ hit with ⟨rfl, rfl⟩ | ⟨hij, hi⟩
        · exact h4
        · rw [h3 i hij]; exact ht i t hi
      cases hh : decide (s.owner l = some j) with
      | false =>
        rw [hh] at hsj hshape
        have hnot : s.owner l ≠ some j := by simpa using hh
        cases a with
        | tau =>
          -- a local step outside: the stripped program stutters
          have hstep : step wv s j = { s with rem := s.rem.set j r } := by simp [step, hj]
          rw [hstep]
          refine ⟨Or.inl ⟨ho, hm, hlg, by simpa using hlen, ?_⟩, ?_⟩
          · intro i t hit
            simp only [] at hit ⊢
            rcases getElem?_set_cases _ _ _ _ _ hit with ⟨rfl, rfl⟩ | ⟨_, hi⟩
            · rw [hh]; simpa [stripT] using hsj
            · exact hrem i t hi
          · exact tothers _ s.owner rfl (fun _ _ => rfl) (by rw [hh]; simpa [opsShapeT] using hshape)
        | lock l' =>
          simp only [opsShapeT, Bool.and_eq_true, decide_eq_true_eq] at hshape
          obtain ⟨rfl, hshr⟩ := hshape
          simp only [stripT] at hsj
          by_cases hfree : s.owner l' = none
          · have hfree' : s'.owner l' = none := by rw [ho]; exact hfree
            have hstep : step wv s j = { s with rem := s.rem.set j r, owner := upd s.owner l' (some j) } := by
              simp [step, hj, hfree]
            have hstep' : step wv s' j = { s' with rem := s'.rem.set j (stripT true r), owner := upd s'.owner l' (some j) } := by
              simp [step, hsj, hfree']
            rw [hstep, hstep']
            have hoth : ∀ i, i ≠ j → decide (upd s.owner l' (some j) l' = some i) = decide (s.owner l' = some i) := by
              intro i hij; simp [upd, hfree, Ne.symm hij]
            refine ⟨Or.inr ⟨by simp [ho], hm, hlg, by simpa using hlen, ?_⟩, ?_⟩
            · exact others _ _ _ _ rfl rfl hoth (by simp [upd])
            · exact tothers _ _ rfl hoth (by simpa [upd] using hshr)
          · have hstep : step wv s j = s := by simp [step, hj, hfree]
            rw [hstep]; exact ⟨Or.inl ⟨ho, hm, hlg, hlen, hrem⟩, ht⟩
        | unlock l' => simp [opsShapeT] at hshape
        | read x => simp [opsShapeT] at hshape
        | write x => simp [opsShapeT] at hshape
      | true =>
        rw [hh] at hsj hshape
        have hown : s.owner l = some j := by simpa using hh
        have hown' : s'.owner l = some j := by rw [ho]; exact hown
        cases a with
        | lock l' => simp [opsShapeT] at hshape
        | unlock l' =>
          simp only [opsShapeT, Bool.and_eq_true, decide_eq_true_eq] at hshape
          obtain ⟨rfl, hshr⟩ := hshape
          simp only [stripT] at hsj
          have hstep : step wv s j = { s with rem := s.rem.set j r, owner := upd s.owner l' none } := by
            simp [step, hj, hown]
          have hstep' : step wv s' j = { s' with rem := s'.rem.set j (stripT false r), owner := upd s'.owner l' none } := by
            simp [step, hsj, hown']
          rw [hstep, hstep']
          have hoth : ∀ i, i ≠ j → decide (upd s.owner l' none l' = some i) = decide (s.owner l' = some i) := by
            intro i hij; simp [upd, hown, Ne.symm hij]
          refine ⟨Or.inr ⟨by simp [ho], hm, hlg, by simpa using hlen, ?_⟩, ?_⟩
          · exact others _ _ _ _ rfl rfl hoth (by simp [upd])
          · exact tothers _ _ rfl hoth (by simpa [upd] using hshr)
        | read x =>
          have hshr : opsShapeT l true r = true := by simpa [opsShapeT] using hshape
          simp only [stripT] at hsj
          have hstep : step wv s j = { s with rem := s.rem.set j r, logs := s.logs.set j (s.logs.getD j [] ++ [s.mem x]) } := by
            simp [step, hj]
          have hstep' : step wv s' j = { s' with rem := s'.rem.set j (stripT true r), logs := s'.logs.set j (s'.logs.getD j [] ++ [s'.mem x]) } := by
            simp [step, hsj]
          rw [hstep, hstep']
          refine ⟨Or.inr ⟨ho, hm, by simp [hlg, hm], by simpa using hlen, ?_⟩, ?_⟩
          · exact others _ _ _ s.owner rfl rfl (fun _ _ => rfl) (by rw [hh])
          · exact tothers _ s.owner rfl (fun _ _ => rfl) (by rw [hh]; exact hshr)
        | write x =>
          have hshr : opsShapeT l true r = true := by simpa [opsShapeT] using hshape
          simp only [stripT] at hsj
          have hstep : step wv s j = { s with rem := s.rem.set j r, mem := upd s.mem x (wv j x (s.logs.getD j [])) } := by
            simp [step, hj]
          have hstep' : step wv s' j = { s' with rem := s'.rem.set j (stripT true r), mem := upd s'.mem x (wv j x (s'.logs.getD j [])) } := by
            simp [step, hsj]
          rw [hstep, hstep']
          refine ⟨Or.inr ⟨ho, by simp [hlg, hm], hlg, by simpa using hlen, ?_⟩, ?_⟩
          · exact others _ _ _ s.owner rfl rfl (fun _ _ => rfl) (by rw [hh])
          · exact tothers _ s.owner rfl (fun _ _ => rfl) (by rw [hh]; exact hshr)
        | tau =>
          have hshr : opsShapeT l true r = true := by simpa [opsShapeT] using hshape
          simp only [stripT] at hsj
          have hstep : step wv s j = { s with rem := s.rem.set j r } := by simp [step, hj]
          have hstep' : step wv s' j = { s' with rem := s'.rem.set j (stripT true r) } := by simp [step, hsj]
          rw [hstep, hstep']
          refine ⟨Or.inr ⟨ho, hm, hlg, by simpa using hlen, ?_⟩, ?_⟩
          · exact others _ _ _ s.owner rfl rfl (fun _ _ => rfl) (by rw [hh])
          · exact tothers _ s.owner rfl (fun _ _ => rfl) (by rw [hh]; exact hshr)

/-- every schedule of the full program is matched by a schedule of the stripped program -/
theorem rel_runFrom (wv : WriteFn) (l : Nat) (sched : List Nat) (s s' : State) (hr : Rel l s s') (ht : TInv l s) :
    ∃ sched', Rel l (runFrom wv s sched) (runFrom wv s' sched') := by
  induction sched generalizing s s' with
  | nil => exact ⟨[], hr⟩
  | cons j rest ih =>
    obtain ⟨hstep, ht'⟩ := rel_step wv l s s' j hr ht
    rcases hstep with h | h
    · obtain ⟨sched', hs⟩ := ih _ _ h ht'
      exact ⟨sched', hs⟩
    · obtain ⟨sched', hs⟩ := ih _ _ h ht'
      exact ⟨j :: sched', hs⟩

theorem rel_allDone (l : Nat) (s s' : State) (hr : Rel l s s') (hd : AllDone s) : AllDone s' := by
  obtain ⟨_, _, _, hlen, hrem⟩ := hr
  intro i t hi
  cases hs : s.rem[i]? with
  | none => rw [getElem?_none_of_length _ _ _ hlen hs] at hi; cases hi
  | some t0 =>
    have := hd i t0 hs
    subst this
    rw [hrem i _ hs] at hi
    cases hi
    cases decide (s.owner l = some i) <;> rfl

theorem opsProg_strip (l : Nat) (p : Prog) (h : OpsProgT l p) : OpsProg l (stripProg p) := by
  intro t ht
  obtain ⟨t0, ht0, rfl⟩ := List.mem_map.mp ht
  exact strip_shape l false t0 (h t0 ht0)

end J5V.Conc.Sched
