import J5V.Conc.SchedSerial
/-! Serialisability when threads also take local steps between their critical sections: every
schedule of `p` is matched, step for step or by stuttering, by a schedule of `stripProg p` (the
program without those local steps) with the same lock state, memory and observation logs. -/
namespace J5V.Conc.Sched

theorem strip_shape (l : Nat) (h : Bool) (t : Thread) (hs : opsShapeT l h t = true) :
    opsShape l h (stripT h t) = true := by
  induction t generalizing h with
  | nil => cases h <;> simp_all [opsShapeT, opsShape, stripT]
  | cons a r ih =>
    cases h <;> cases a <;> simp_all [opsShapeT, opsShape, stripT]

/-- the shape invariant of the full program; `l` is only ever used as a mutex -/
def TInv (l : Nat) (s : State) : Prop :=
  s.readers l = [] ∧ s.pending l = none ∧
  ∀ (i : Nat) (t : Thread), s.rem[i]? = some t → opsShapeT l (decide (s.owner l = some i)) t = true

/-- `s'` is `s` with every thread's remaining program stripped -/
def Rel (l : Nat) (s s' : State) : Prop :=
  s'.owner = s.owner ∧ s'.readers = s.readers ∧ s'.pending = s.pending ∧ s'.mem = s.mem ∧ s'.logs = s.logs ∧
  s'.rem.length = s.rem.length ∧
  ∀ (i : Nat) (t : Thread), s.rem[i]? = some t → s'.rem[i]? = some (stripT (decide (s.owner l = some i)) t)

theorem rel_init (l : Nat) (p : Prog) : Rel l (init p) (init (stripProg p)) := by
  refine ⟨rfl, rfl, rfl, rfl, rfl, by simp [init, stripProg], ?_⟩
  intro i t ht
  simp only [init, stripProg] at ht ⊢
  simp [ht]

theorem tinv_init (l : Nat) (p : Prog) (h : OpsProgT l p) : TInv l (init p) := by
  refine ⟨rfl, rfl, ?_⟩
  intro i t ht
  simpa [init] using h t (List.mem_of_getElem? ht)

theorem getElem?_none_of_length {α : Type} (xs ys : List α) (i : Nat) (hl : ys.length = xs.length)
    (h : xs[i]? = none) : ys[i]? = none := by
  rw [List.getElem?_eq_none_iff] at h ⊢
  omega

/-- both programs perform the same action: the states stay related -/
theorem rel_fire (wv : WriteFn) (l : Nat) (s s' : State) (j : Nat) (a : Action) (r r' : Thread)
    (hr : Rel l s s') (hj : s.rem[j]? = some (a :: r))
    (hr' : r' = stripT (decide ((fire wv s j a r).owner l = some j)) r)
    (hoth : ∀ i, i ≠ j → decide ((fire wv s j a r).owner l = some i) = decide (s.owner l = some i)) :
    Rel l (fire wv s j a r) (fire wv s' j a r') := by
  obtain ⟨ho, hrd, hpd, hm, hlg, hlen, hrem⟩ := hr
  have hsj := hrem j _ hj
  have hremF : ∀ (i : Nat) (t : Thread), (fire wv s j a r).rem[i]? = some t →
      (fire wv s' j a r').rem[i]? = some (stripT (decide ((fire wv s j a r).owner l = some i)) t) := by
    intro i t hit
    simp only [fire_rem] at hit ⊢
    rcases getElem?_set_cases _ _ _ _ _ hit with ⟨rfl, rfl⟩ | ⟨hij, hi⟩
    · rw [set_self_getElem? _ _ _ _ hsj, hr']
    · rw [List.getElem?_set_ne (Ne.symm hij), hoth i hij]
      exact hrem i t hi
  refine ⟨?_, ?_, ?_, ?_, ?_, by simpa using hlen, hremF⟩ <;> cases a <;> simp [fire, ho, hrd, hpd, hm, hlg]

/-- one step of the full program is matched by zero or one step of the stripped program -/
theorem rel_step (wv : WriteFn) (l : Nat) (s s' : State) (j : Nat) (hr : Rel l s s') (ht : TInv l s) :
    (Rel l (step wv s j) s' ∨ Rel l (step wv s j) (step wv s' j)) ∧ TInv l (step wv s j) := by
  have hr0 := hr
  obtain ⟨ho, hrd, hpd, hm, hlg, hlen, hrem⟩ := hr
  obtain ⟨tnord, tnopd, tshape⟩ := ht
  cases hj : s.rem[j]? with
  | none =>
    have : step wv s j = s := by simp [step, hj]
    rw [this]; exact ⟨Or.inl hr0, tnord, tnopd, tshape⟩
  | some tj =>
    cases tj with
    | nil =>
      have : step wv s j = s := by simp [step, hj]
      rw [this]; exact ⟨Or.inl hr0, tnord, tnopd, tshape⟩
    | cons a r =>
      have hsj := hrem j _ hj
      have hshape := tshape j _ hj
      -- the shape invariant after a fired step of thread j
      have tfire : (fire wv s j a r).readers l = [] → (fire wv s j a r).pending l = none →
          (∀ i, i ≠ j → decide ((fire wv s j a r).owner l = some i) = decide (s.owner l = some i)) →
          opsShapeT l (decide ((fire wv s j a r).owner l = some j)) r = true → TInv l (fire wv s j a r) := by
        intro h1 h2 h3 h4
        refine ⟨h1, h2, ?_⟩
        intro i t hit
        simp only [fire_rem] at hit
        rcases getElem?_set_cases _ _ _ _ _ hit with ⟨rfl, rfl⟩ | ⟨hij, hi⟩
        · exact h4
        · rw [h3 i hij]; exact tshape i t hi
      cases hh : decide (s.owner l = some j) with
      | false =>
        rw [hh] at hsj hshape
        have hnot : s.owner l ≠ some j := by simpa using hh
        cases a with
        | tau =>
          -- a local step outside: the stripped program stutters
          rw [step_fire wv s j _ r hj rfl]
          refine ⟨Or.inl ⟨ho, hrd, hpd, hm, hlg, by simpa using hlen, ?_⟩, ?_⟩
          · intro i t hit
            simp only [fire_rem] at hit
            have hoF : (fire wv s j .tau r).owner = s.owner := rfl
            rw [hoF]
            rcases getElem?_set_cases _ _ _ _ _ hit with ⟨rfl, rfl⟩ | ⟨_, hi⟩
            · rw [hh]; simpa [stripT] using hsj
            · exact hrem i t hi
          · exact tfire tnord tnopd (fun _ _ => rfl)
              (by have hoF : (fire wv s j .tau r).owner = s.owner := rfl
                  rw [hoF, hh]; simpa [opsShapeT] using hshape)
        | lock l' =>
          simp only [opsShapeT, Bool.and_eq_true, decide_eq_true_eq] at hshape
          obtain ⟨rfl, hshr⟩ := hshape
          simp only [stripT] at hsj
          by_cases hfree : s.owner l' = none
          · have hc : canFire s j (.lock l') = true := by simp [canFire, hfree, tnord, tnopd]
            have hc' : canFire s' j (.lock l') = true := by simp [canFire, ho, hrd, hpd, hfree, tnord, tnopd]
            rw [step_fire wv s j _ r hj hc, step_fire wv s' j _ _ hsj hc']
            have hoth : ∀ i, i ≠ j → decide ((fire wv s j (.lock l') r).owner l' = some i) = decide (s.owner l' = some i) := by
              intro i hij; simp [fire, hfree, Ne.symm hij]
            refine ⟨Or.inr (rel_fire wv l' s s' j _ r _ hr0 hj (by simp [fire]) hoth), ?_⟩
            exact tfire (by simpa [fire] using tnord) (by simp [fire]) hoth (by simpa [fire] using hshr)
          · have hc : canFire s j (.lock l') = false := by simp [canFire, hfree]
            rw [step_blocked wv s j _ r hj hc]
            have : announce s j (.lock l') = s := by simp [announce, hfree]
            rw [this]; exact ⟨Or.inl hr0, tnord, tnopd, tshape⟩
        | unlock l' => simp [opsShapeT] at hshape
        | rlock l' => simp [opsShapeT] at hshape
        | runlock l' => simp [opsShapeT] at hshape
        | read x => simp [opsShapeT] at hshape
        | write x => simp [opsShapeT] at hshape
      | true =>
        rw [hh] at hsj hshape
        have hown : s.owner l = some j := by simpa using hh
        have hown' : s'.owner l = some j := by rw [ho]; exact hown
        cases a with
        | lock l' => simp [opsShapeT] at hshape
        | rlock l' => simp [opsShapeT] at hshape
        | runlock l' => simp [opsShapeT] at hshape
        | unlock l' =>
          simp only [opsShapeT, Bool.and_eq_true, decide_eq_true_eq] at hshape
          obtain ⟨rfl, hshr⟩ := hshape
          simp only [stripT] at hsj
          rw [step_fire wv s j _ r hj (by simp [canFire, hown]), step_fire wv s' j _ _ hsj (by simp [canFire, hown'])]
          have hoth : ∀ i, i ≠ j → decide ((fire wv s j (.unlock l') r).owner l' = some i) = decide (s.owner l' = some i) := by
            intro i hij; simp [fire, hown, Ne.symm hij]
          refine ⟨Or.inr (rel_fire wv l' s s' j _ r _ hr0 hj (by simp [fire]) hoth), ?_⟩
          exact tfire (by simpa [fire] using tnord) (by simpa [fire] using tnopd) hoth (by simpa [fire] using hshr)
        | read x =>
          have hshr : opsShapeT l true r = true := by simpa [opsShapeT] using hshape
          simp only [stripT] at hsj
          rw [step_fire wv s j _ r hj rfl, step_fire wv s' j _ _ hsj rfl]
          have hoF : (fire wv s j (.read x) r).owner = s.owner := rfl
          refine ⟨Or.inr (rel_fire wv l s s' j _ r _ hr0 hj (by rw [hoF, hh]) (fun _ _ => rfl)), ?_⟩
          exact tfire tnord tnopd (fun _ _ => rfl) (by rw [hoF, hh]; exact hshr)
        | write x =>
          have hshr : opsShapeT l true r = true := by simpa [opsShapeT] using hshape
          simp only [stripT] at hsj
          rw [step_fire wv s j _ r hj rfl, step_fire wv s' j _ _ hsj rfl]
          have hoF : (fire wv s j (.write x) r).owner = s.owner := rfl
          refine ⟨Or.inr (rel_fire wv l s s' j _ r _ hr0 hj (by rw [hoF, hh]) (fun _ _ => rfl)), ?_⟩
          exact tfire tnord tnopd (fun _ _ => rfl) (by rw [hoF, hh]; exact hshr)
        | tau =>
          have hshr : opsShapeT l true r = true := by simpa [opsShapeT] using hshape
          simp only [stripT] at hsj
          rw [step_fire wv s j _ r hj rfl, step_fire wv s' j _ _ hsj rfl]
          have hoF : (fire wv s j .tau r).owner = s.owner := rfl
          refine ⟨Or.inr (rel_fire wv l s s' j _ r _ hr0 hj (by rw [hoF, hh]) (fun _ _ => rfl)), ?_⟩
          exact tfire tnord tnopd (fun _ _ => rfl) (by rw [hoF, hh]; exact hshr)

/-- every schedule of the full program is matched by a schedule of the stripped program -/
theorem rel_runFrom (wv : WriteFn) (l : Nat) (sched : List Nat) (s s' : State) (hr : Rel l s s') (ht : TInv l s) :
    ∃ sched', Rel l (runFrom wv s sched) (runFrom wv s' sched') := by
  induction sched generalizing s s' with
  | nil => exact ⟨[], hr⟩
  | cons j rest ih =>
    obtain ⟨hstep, ht'⟩ := rel_step wv l s s' j hr ht
    rcases hstep with h | h
    · obtain ⟨sched', hs⟩ := ih _ _ h ht'
      exact ⟨sched', hs⟩
    · obtain ⟨sched', hs⟩ := ih _ _ h ht'
      exact ⟨j :: sched', hs⟩

theorem rel_allDone (l : Nat) (s s' : State) (hr : Rel l s s') (hd : AllDone s) : AllDone s' := by
  obtain ⟨_, _, _, _, _, hlen, hrem⟩ := hr
  intro i t hi
  cases hs : s.rem[i]? with
  | none => rw [getElem?_none_of_length _ _ _ hlen hs] at hi; cases hi
  | some t0 =>
    have := hd i t0 hs
    subst this
    rw [hrem i _ hs] at hi
    cases hi
    cases decide (s.owner l = some i) <;> rfl

theorem opsProg_strip (l : Nat) (p : Prog) (h : OpsProgT l p) : OpsProg l (stripProg p) := by
  intro t ht
  obtain ⟨t0, ht0, rfl⟩ := List.mem_map.mp ht
  exact strip_shape l false t0 (h t0 ht0)

end J5V.Conc.Sched
