/-!
# The `SchemaCache` algorithm as a state machine (model of `lib/j5schema/schema_cache.go`)

Core only. The descriptor set is an abstract graph: node = schema (object message, oneof-wrapper
message or enum), its name is its index; a field is a scalar, *bad* (the Go build of the owning
message returns an error there: unsupported `google.protobuf.*` type, non-string map key, …) or a
reference to another node, under any stack of array / map wrappers.

The cache maps a name to `none` (a registered placeholder, `RefSchema.To == nil`) or `some built`
(linked). `schemaOf` is `(*SchemaCache).Schema` under its mutex: lookup, placeholder insert,
recursive build with `refTo` semantics (an existing ref is reused whether linked or not), fill
`To`, and — on failure — removal of every ref registered by this call (`sc.building`).

What is *not* here: how a field's own schema is computed from the descriptor (that is a pure
function of the descriptor, C04/C18); packages (the two-level map `packages[pkg].Schemas[name]`
is flattened to one key, assuming `splitDescriptorName` is injective on the descriptor set);
exposed oneofs are presented by the harness as ordinary oneof nodes (see PROTOCOL-conc.md).
-/
namespace J5V.Conc.Cache

inductive Kind where
  | obj | oneof | enm
  deriving DecidableEq, Repr, Inhabited

inductive Base where
  | scalar
  | bad
  | ref (n : Nat)
  deriving DecidableEq, Repr, Inhabited

structure Field where
  num : Nat
  wrap : String
  base : Base
  deriving DecidableEq, Repr, Inhabited

structure Node where
  kind : Kind
  /-- enum: the first value ends in `UNSPECIFIED`; messages: always true in generated graphs -/
  selfOk : Bool
  fields : List Field
  deriving DecidableEq, Repr, Inhabited

abbrev Graph := List Node

inductive PBase where
  | scalar
  | obj (n : Nat)
  | oneof (n : Nat)
  | enm (n : Nat)
  deriving DecidableEq, Repr, Inhabited

structure Prop' where
  num : Nat
  wrap : String
  base : PBase
  deriving DecidableEq, Repr, Inhabited

structure Built where
  kind : Kind
  props : List Prop'
  deriving DecidableEq, Repr, Inhabited

/-- `none` = placeholder (`To == nil`), `some b` = linked -/
abbrev Entry := Option Built
abbrev Cache := List (Nat × Entry)

inductive Res where
  | ok | err
  deriving DecidableEq, Repr, Inhabited

/-! ## the content of a schema: a pure function of the descriptors -/

def propOf (G : Graph) (f : Field) : Prop' :=
  match f.base with
  | .ref m =>
    match G[m]? with
    | some nd =>
      match nd.kind with
      | .obj => ⟨f.num, f.wrap, .obj m⟩
      | .oneof => ⟨f.num, f.wrap, .oneof m⟩
      | .enm => ⟨f.num, f.wrap, .enm m⟩
    | none => ⟨f.num, f.wrap, .scalar⟩
  | _ => ⟨f.num, f.wrap, .scalar⟩

def shallow (G : Graph) (n : Nat) : Built :=
  match G[n]? with
  | some nd => ⟨nd.kind, nd.fields.map (propOf G)⟩
  | none => ⟨.obj, []⟩

/-! ## the cache -/

def find : Cache → Nat → Option Entry
  | [], _ => none
  | (k, e) :: c, n => if k = n then some e else find c n

def insert (c : Cache) (n : Nat) (e : Entry) : Cache := (n, e) :: c

/-- `ref.To = built` -/
def setTo : Cache → Nat → Built → Cache
  | [], _, _ => []
  | (k, e) :: c, n, b => (if k = n then (k, some b) else (k, e)) :: setTo c n b

/-- remove what was registered since `old` (Go: `delete(ref.Package.Schemas, ref.Schema)` for every
ref in `sc.building`) -/
def rollback (old c : Cache) : Cache := c.filter (fun p => (find old p.1).isSome)

/-! ## building -/

/-- one field of `messageProperties`: `buildSchema` → `buildMessageFieldSchema` /
`buildEnumFieldSchema` → `newRefPlaceholder` (= `refTo`), build if it did not exist, link -/
def stepField (G : Graph) (rec : Cache → Nat → Cache × Bool) (st : Cache × Bool) (f : Field) :
    Cache × Bool :=
  if st.2 then
    match f.base with
    | .scalar => st
    | .bad => (st.1, false)
    | .ref m =>
      match find st.1 m with
      | some _ => st
      | none =>
        let r := rec (insert st.1 m none) m
        if r.2 then (setTo r.1 m (shallow G m), true) else (r.1, false)
  else st

/-- `buildObjectSchema` / `buildOneofSchema` / `buildEnum` of node `n`, which is already
registered. Fuel bounds the recursion depth; `buildNode_fuel_enough` shows `G.length + 1`
is never exhausted. -/
def buildNode (G : Graph) : Nat → Cache → Nat → Cache × Bool
  | 0, c, _ => (c, false)
  | fuel + 1, c, n =>
    match G[n]? with
    | none => (c, false)
    | some nd =>
      if nd.selfOk then nd.fields.foldl (stepField G (buildNode G fuel)) (c, true) else (c, false)

/-- `(*SchemaCache).Schema(d)` (the whole critical section) -/
def schemaOf (G : Graph) (c : Cache) (d : Nat) : Cache × Res :=
  match find c d with
  | some (some _) => (c, .ok)
  | some none => (c, .err)          -- "unlinked ref"
  | none =>
    let r := buildNode G (G.length + 1) (insert c d none) d
    if r.2 then (setTo r.1 d (shallow G d), .ok) else (rollback c r.1, .err)

def emptyCache : Cache := []

/-- the cache after a sequence of requests -/
def runReqs (G : Graph) (c : Cache) (ds : List Nat) : Cache := ds.foldl (fun c d => (schemaOf G c d).1) c

/-! ## canonical dump (what the correspondence stream compares) -/

def PBase.target : PBase → Option Nat
  | .scalar => none
  | .obj n | .oneof n | .enm n => some n

def linked (c : Cache) (n : Nat) : Option Built :=
  match find c n with
  | some (some b) => some b
  | _ => none

/-- names reachable from `todo` through linked entries -/
def reachAux (c : Cache) : Nat → List Nat → List Nat → List Nat
  | 0, _, seen => seen
  | _ + 1, [], seen => seen
  | fuel + 1, n :: todo, seen =>
    if seen.contains n then reachAux c fuel todo seen
    else
      match linked c n with
      | some b => reachAux c fuel (b.props.filterMap (·.base.target) ++ todo) (n :: seen)
      | none => reachAux c fuel todo seen

def reachFuel (c : Cache) : Nat :=
  c.foldl (fun acc p => acc + 2 + (match p.2 with | some b => b.props.length | none => 0)) 2

def showKind : Kind → String
  | .obj => "o" | .oneof => "n" | .enm => "e"

def showProp (c : Cache) (p : Prop') : String :=
  let r (k : String) (m : Nat) : String := if (linked c m).isSome then k ++ toString m else "!" ++ toString m
  toString p.num ++ ":" ++ p.wrap ++
    (match p.base with
     | .scalar => "s"
     | .obj m => r "o" m
     | .oneof m => r "n" m
     | .enm m => r "e" m)

def showEntry (c : Cache) (n : Nat) (b : Built) : String :=
  toString n ++ "=" ++ showKind b.kind ++ "(" ++ ",".intercalate (b.props.map (showProp c)) ++ ")"

def dump (c : Cache) (root : Nat) : String :=
  let names := (reachAux c (reachFuel c) [root] []).mergeSort (· ≤ ·)
  let parts := names.filterMap (fun n => (linked c n).map (showEntry c n))
  toString root ++ " " ++ ";".intercalate parts

def showKeys (c : Cache) : String :=
  let ks := (c.map (·.1)).mergeSort (· ≤ ·)
  "keys " ++ " ".intercalate (ks.map (fun k => toString k ++ (if (linked c k).isSome then "+" else "-")))

/-- the result line of one `seq` op: every request's answer, then the registered keys -/
def runOp (G : Graph) (reqs : List Nat) : String :=
  let rec go (c : Cache) (reqs : List Nat) (acc : List String) : List String × Cache :=
    match reqs with
    | [] => (acc.reverse, c)
    | d :: rest =>
      let r := schemaOf G c d
      let out := match r.2 with
        | .ok => "ok " ++ dump r.1 d
        | .err => "err"
      go r.1 rest (out :: acc)
  let (outs, c) := go emptyCache reqs []
  " | ".intercalate (outs ++ [showKeys c])

end J5V.Conc.Cache
