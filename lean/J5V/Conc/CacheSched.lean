import J5V.Conc.CacheProofs
/-!
# N goroutines calling `(*SchemaCache).Schema` on one shared cache, any schedule (core only)

`J5V.Conc.Cache.schemaOf` is one whole call of `Schema` (the critical section). Here the calls of
several goroutines are interleaved by an arbitrary schedule, with the mutex explicit and with the
state a build leaves in the shared maps *while it runs* explicit:

* a goroutine that is scheduled while the mutex is free and has a request `d` left takes the mutex
  and starts: from now on the shared maps hold the placeholder of `d` (`midBuild`: the state of
  `C10_m2_mid_build_state`, which is no between-requests state) until it finishes;
* scheduled again, the owner finishes: the maps become `(schemaOf G before d).1`, the answer
  `(schemaOf G before d).2` goes to its log and to the global completion history, the mutex is freed;
* a goroutine scheduled while somebody else owns the mutex is blocked (`sync.Mutex.Lock`): nothing
  changes — this is where the overlapping first use of a type is: the second caller waits, and
  then finds what the first one built (or builds it itself when the first one failed and rolled back);
* a goroutine without requests left does nothing.

That the real `Schema` is such a critical section (every access to the maps under the one mutex,
deferred release, no nesting) is `C10_code_guarded` / `C10_code_locksites` over the regenerated
lock facts; that critical sections under one mutex behave like atomic steps is `C10_serialisable`.
This file is about what the *results* are, for every schedule.
-/
namespace J5V.Conc.CacheSched
open J5V.Conc.Cache

/-- the answer of `Schema(d)` run alone on a fresh cache -/
def alone (G : Graph) (d : Nat) : Res := (schemaOf G emptyCache d).2

theorem alone_of_reachable (G : Graph) (c : Cache) (hc : Reachable G c) (d : Nat) :
    (schemaOf G c d).2 = alone G d := by
  obtain ⟨_, v1, _, _, _⟩ := schemaOf_spec G c (reachable_inv G c hc) d
  obtain ⟨_, v2, _, _, _⟩ := schemaOf_spec G emptyCache (inv_empty G) d
  unfold alone
  cases h1 : (schemaOf G c d).2 with
  | ok => exact (v2.mpr (v1.mp h1)).symm
  | err =>
    cases h2 : (schemaOf G emptyCache d).2 with
    | ok => rw [v1.mpr (v2.mp h2)] at h1; cases h1
    | err => rfl

/-- the answers of the requests `ds` made one after the other by a single goroutine -/
def seqRes (G : Graph) : Cache → List Nat → List Res
  | _, [] => []
  | c, d :: ds => (schemaOf G c d).2 :: seqRes G (schemaOf G c d).1 ds

theorem seqRes_append (G : Graph) (c : Cache) (ds : List Nat) (d : Nat) :
    seqRes G c (ds ++ [d]) = seqRes G c ds ++ [(schemaOf G (runReqs G c ds) d).2] := by
  induction ds generalizing c with
  | nil => simp [seqRes, runReqs]
  | cons x xs ih => simp [seqRes, runReqs, ih]

theorem runReqs_append (G : Graph) (c : Cache) (ds : List Nat) (d : Nat) :
    runReqs G c (ds ++ [d]) = (schemaOf G (runReqs G c ds) d).1 := by
  simp [runReqs]

/-- one completed call: goroutine, request, answer -/
structure Done where
  thread : Nat
  req : Nat
  res : Res
  deriving DecidableEq, Repr

structure CState where
  /-- the shared maps as they are right now (mid-build while the mutex is held) -/
  cache : Cache
  /-- owner of `sc.mu`, the request it is serving, the maps as it found them -/
  holder : Option (Nat × Nat × Cache)
  /-- requests not yet started or finished, per goroutine -/
  rem : Nat → List Nat
  /-- (request, answer) of the finished calls, per goroutine, oldest first -/
  log : Nat → List (Nat × Res)
  /-- every finished call in order of completion -/
  hist : List Done

def upd {α : Type} (f : Nat → α) (i : Nat) (v : α) : Nat → α := fun j => if j = i then v else f j

/-- the maps while `d` is being built: its placeholder is registered (`RefSchema.To == nil`) -/
def midBuild (c : Cache) (d : Nat) : Cache :=
  match find c d with
  | none => insert c d none
  | some _ => c

def cstep (G : Graph) (s : CState) (i : Nat) : CState :=
  match s.holder with
  | none =>
    match s.rem i with
    | [] => s
    | d :: _ => { s with holder := some (i, d, s.cache), cache := midBuild s.cache d }
  | some (j, d, before) =>
    if j = i then
      { cache := (schemaOf G before d).1, holder := none,
        rem := upd s.rem i (s.rem i).tail,
        log := upd s.log i (s.log i ++ [(d, (schemaOf G before d).2)]),
        hist := s.hist ++ [⟨i, d, (schemaOf G before d).2⟩] }
    else s

def crun (G : Graph) (s : CState) (sched : List Nat) : CState := sched.foldl (cstep G) s

def init (c : Cache) (progs : Nat → List Nat) : CState :=
  { cache := c, holder := none, rem := progs, log := fun _ => [], hist := [] }

/-- the maps as of the last completed call -/
def CState.base (s : CState) : Cache :=
  match s.holder with
  | none => s.cache
  | some (_, _, b) => b

/-- what a lookup that does NOT take the mutex would answer right now -/
def peek (G : Graph) (s : CState) (d : Nat) : Res := (schemaOf G s.cache d).2

structure Inv (G : Graph) (c0 : Cache) (progs : Nat → List Nat) (s : CState) : Prop where
  base_eq : s.base = runReqs G c0 (s.hist.map (·.req))
  res_eq : s.hist.map (·.res) = seqRes G c0 (s.hist.map (·.req))
  held : ∀ j d b, s.holder = some (j, d, b) → s.cache = midBuild b d ∧ ∃ rest, s.rem j = d :: rest
  log_eq : ∀ i, s.log i = (s.hist.filter (fun h => h.thread = i)).map (fun h => (h.req, h.res))
  prog : ∀ i, (s.log i).map (·.1) ++ s.rem i = progs i

theorem inv_init (G : Graph) (c0 : Cache) (progs : Nat → List Nat) : Inv G c0 progs (init c0 progs) :=
  ⟨rfl, rfl, by intro j d b h; simp [init] at h, by intro i; rfl, by intro i; rfl⟩

theorem inv_step (G : Graph) (c0 : Cache) (progs : Nat → List Nat) (s : CState) (i : Nat)
    (h : Inv G c0 progs s) : Inv G c0 progs (cstep G s i) := by
  unfold cstep
  cases hh : s.holder with
  | none =>
    simp only []
    cases hr : s.rem i with
    | nil => simpa using h
    | cons d rest =>
      simp only []
      refine ⟨?_, h.res_eq, ?_, h.log_eq, h.prog⟩
      · have := h.base_eq
        simp only [CState.base, hh] at this ⊢
        exact this
      · intro j d' b e
        simp only [Option.some.injEq, Prod.mk.injEq] at e
        obtain ⟨rfl, rfl, rfl⟩ := e
        exact ⟨rfl, rest, hr⟩
  | some hd =>
    obtain ⟨j, d, before⟩ := hd
    simp only []
    by_cases hji : j = i
    · subst hji
      simp only [if_true]
      have hb : before = runReqs G c0 (s.hist.map (·.req)) := by
        have := h.base_eq
        simpa only [CState.base, hh] using this
      obtain ⟨_, rest, hrem⟩ := h.held j d before hh
      refine ⟨?_, ?_, ?_, ?_, ?_⟩
      · simp only [CState.base, List.map_append, List.map_cons, List.map_nil]
        rw [runReqs_append, ← hb]
      · simp only [List.map_append, List.map_cons, List.map_nil]
        rw [seqRes_append, ← hb, h.res_eq]
      · intro j' d' b' e; simp at e
      · intro k
        simp only [upd, List.filter_append, List.map_append]
        by_cases hk : k = j
        · subst hk
          simp [h.log_eq k]
        · have : ¬ j = k := fun e => hk e.symm
          simp [hk, this, h.log_eq k]
      · intro k
        simp only [upd]
        by_cases hk : k = j
        · subst hk
          have := h.prog k
          rw [hrem] at this
          simp only [if_true, hrem, List.tail_cons, List.map_append, List.map_cons, List.map_nil,
            List.append_assoc, List.singleton_append]
          exact this
        · simp only [hk, if_false]
          exact h.prog k
    · simp only [hji, if_false]
      exact h

theorem inv_run (G : Graph) (c0 : Cache) (progs : Nat → List Nat) (sched : List Nat) :
    ∀ s, Inv G c0 progs s → Inv G c0 progs (crun G s sched) := by
  induction sched with
  | nil => intro s h; exact h
  | cons i rest ih => intro s h; exact ih _ (inv_step G c0 progs s i h)

/-- answers of a sequential run from a reachable cache are the answers alone -/
theorem seqRes_alone (G : Graph) (c : Cache) (hc : Reachable G c) (ds : List Nat) :
    seqRes G c ds = ds.map (alone G) := by
  induction ds generalizing c with
  | nil => rfl
  | cons d ds ih =>
    simp only [seqRes, List.map_cons]
    rw [alone_of_reachable G c hc d, ih _ (Reachable.step c d hc)]

theorem hist_alone (G : Graph) (c0 : Cache) (hc : Reachable G c0) (progs : Nat → List Nat) (s : CState)
    (h : Inv G c0 progs s) : ∀ e ∈ s.hist, e.res = alone G e.req := by
  have h1 := h.res_eq
  rw [seqRes_alone G c0 hc] at h1
  generalize s.hist = hs at h1
  induction hs with
  | nil => intro e he; simp at he
  | cons x xs ih =>
    simp only [List.map_cons, List.cons.injEq] at h1
    intro e he
    rcases List.mem_cons.mp he with rfl | he
    · exact h1.1
    · exact ih h1.2 e he


/-! ## no deadlock: whoever can move makes progress, and while work is left somebody can move -/

/-- goroutine `i` can move: it owns the mutex, or the mutex is free and it has a request left -/
def enabled (s : CState) (i : Nat) : Bool :=
  match s.holder with
  | some (j, _, _) => j == i
  | none => !(s.rem i).isEmpty

/-- twice the finished calls, plus one for a call in progress -/
def CState.progress (s : CState) : Nat := 2 * s.hist.length + (if s.holder.isSome then 1 else 0)

theorem cstep_enabled (G : Graph) (s : CState) (i : Nat) (h : enabled s i = true) :
    (cstep G s i).progress = s.progress + 1 := by
  unfold enabled at h
  unfold cstep CState.progress
  cases hh : s.holder with
  | none =>
    rw [hh] at h
    simp only [] at h ⊢
    cases hr : s.rem i with
    | nil => simp [hr] at h
    | cons d rest => simp
  | some hd =>
    obtain ⟨j, d, b⟩ := hd
    rw [hh] at h
    simp only [beq_iff_eq] at h
    subst h
    simp
    omega

theorem cstep_blocked (G : Graph) (s : CState) (i : Nat) (h : enabled s i = false) : cstep G s i = s := by
  unfold enabled at h
  unfold cstep
  cases hh : s.holder with
  | none =>
    rw [hh] at h
    simp only [] at h ⊢
    cases hr : s.rem i with
    | nil => rfl
    | cons d rest => simp [hr] at h
  | some hd =>
    obtain ⟨j, d, b⟩ := hd
    rw [hh] at h
    simp only [beq_eq_false_iff_ne, ne_eq] at h
    simp [h]

theorem work_left_enabled (s : CState) (i : Nat) (hi : s.rem i ≠ []) : ∃ j, enabled s j = true := by
  cases hh : s.holder with
  | none => exact ⟨i, by simp [enabled, hh, hi]⟩
  | some hd =>
    obtain ⟨j, d, b⟩ := hd
    exact ⟨j, by simp [enabled, hh]⟩

/-- a call in progress belongs to a goroutine that still has it on its list: the owner never
vanishes with the mutex held -/
theorem holder_has_work (G : Graph) (c0 : Cache) (progs : Nat → List Nat) (s : CState)
    (h : Inv G c0 progs s) (j d : Nat) (b : Cache) (hh : s.holder = some (j, d, b)) : s.rem j ≠ [] := by
  obtain ⟨_, rest, hr⟩ := h.held j d b hh
  rw [hr]; simp

end J5V.Conc.CacheSched
