import J5V.Conc.Clash
/-! Lemmas about the collision family (core only): the owner of the colliding name can only change
through a request of the other side. -/
namespace J5V.Conc.Clash

theorem clash_step_not_T (s : St) (r : Nat) (hs : s.owner ≠ some false) (hr : touchesT r = false) :
    (req s r).1.owner ≠ some false ∧ (r < 6 → (req s r).2 = true) := by
  match r with
  | 0 =>
    unfold req; simp only []
    split
    · exact ⟨hs, fun _ => rfl⟩
    · split <;> simp_all
  | 1 => unfold req; simp only []; split <;> simp_all
  | 2 => simp [touchesT] at hr
  | 3 => simp [touchesT] at hr
  | 4 => exact ⟨hs, fun _ => rfl⟩
  | 5 => exact ⟨hs, fun _ => rfl⟩
  | n + 6 => exact ⟨hs, fun h => by omega⟩

theorem clash_step_not_N (s : St) (r : Nat) (hs : s.owner ≠ some true) (hr : touchesN r = false) :
    (req s r).1.owner ≠ some true ∧ (r < 6 → (req s r).2 = true) := by
  match r with
  | 0 => simp [touchesN] at hr
  | 1 => simp [touchesN] at hr
  | 2 => unfold req; simp only []; split <;> simp_all
  | 3 =>
    unfold req; simp only []
    split
    · exact ⟨hs, fun _ => rfl⟩
    · split <;> simp_all
  | 4 => exact ⟨hs, fun _ => rfl⟩
  | 5 => exact ⟨hs, fun _ => rfl⟩
  | n + 6 => exact ⟨hs, fun h => by omega⟩

theorem clash_owner_not_T (rs : List Nat) (s : St) (hs : s.owner ≠ some false)
    (h : ∀ r ∈ rs, touchesT r = false) : (rs.foldl (fun s r => (req s r).1) s).owner ≠ some false := by
  induction rs generalizing s with
  | nil => exact hs
  | cons r rs ih =>
    exact ih _ (clash_step_not_T s r hs (h r (List.mem_cons_self ..))).1 (fun x hx => h x (List.mem_cons_of_mem r hx))

theorem clash_owner_not_N (rs : List Nat) (s : St) (hs : s.owner ≠ some true)
    (h : ∀ r ∈ rs, touchesN r = false) : (rs.foldl (fun s r => (req s r).1) s).owner ≠ some true := by
  induction rs generalizing s with
  | nil => exact hs
  | cons r rs ih =>
    exact ih _ (clash_step_not_N s r hs (h r (List.mem_cons_self ..))).1 (fun x hx => h x (List.mem_cons_of_mem r hx))

end J5V.Conc.Clash
