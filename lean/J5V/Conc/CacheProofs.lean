import J5V.Conc.Cache
/-! Lemmas for `J5V.Conc.Cache` (core only). The property theorems are restated in
`J5V/Props/C10.lean`. -/
namespace J5V.Conc.Cache

/-! ## association-list lemmas -/

@[simp] theorem find_nil (n : Nat) : find [] n = none := rfl

theorem find_cons (k : Nat) (e : Entry) (c : Cache) (n : Nat) :
    find ((k, e) :: c) n = if k = n then some e else find c n := rfl

theorem find_insert (c : Cache) (n : Nat) (e : Entry) (m : Nat) :
    find (insert c n e) m = if n = m then some e else find c m := rfl

theorem find_setTo_ne (c : Cache) (n m : Nat) (b : Built) (h : m ≠ n) :
    find (setTo c n b) m = find c m := by
  induction c with
  | nil => rfl
  | cons p c ih =>
    obtain ⟨k, e⟩ := p
    simp only [setTo]
    by_cases hk : k = n
    · subst hk
      simp only [if_true, find_cons, Ne.symm h, if_false]
      exact ih
    · simp only [hk, if_false, find_cons]
      rw [ih]

theorem find_setTo_self (c : Cache) (n : Nat) (b : Built) :
    find (setTo c n b) n = (find c n).map (fun _ => some b) := by
  induction c with
  | nil => rfl
  | cons p c ih =>
    obtain ⟨k, e⟩ := p
    simp only [setTo]
    by_cases hk : k = n
    · subst hk; simp [find_cons]
    · simp only [hk, if_false, find_cons]
      rw [ih]

theorem find_rollback (old c : Cache) (m : Nat) :
    find (rollback old c) m = if (find old m).isSome then find c m else none := by
  induction c with
  | nil => simp [rollback]
  | cons p c ih =>
    obtain ⟨k, e⟩ := p
    simp only [rollback, List.filter_cons] at ih ⊢
    by_cases hk : (find old k).isSome = true
    · simp only [hk, if_true, find_cons]
      by_cases hkm : k = m
      · subst hkm; simp [hk]
      · simp only [hkm, if_false]; exact ih
    · simp only [hk, find_cons]
      by_cases hkm : k = m
      · subst hkm
        simp only [Bool.false_eq_true, if_false, hk] at ih ⊢
        exact ih
      · simp only [hkm, if_false, Bool.false_eq_true]
        exact ih

/-! ## what the descriptors say, independently of any cache -/

def refs (G : Graph) (n : Nat) : List Nat :=
  match G[n]? with
  | some nd => nd.fields.filterMap (fun f => match f.base with | .ref m => some m | _ => none)
  | none => []

theorem mem_refs (G : Graph) (n t : Nat) (nd : Node) (h : G[n]? = some nd) :
    t ∈ refs G n ↔ ∃ f ∈ nd.fields, f.base = .ref t := by
  simp only [refs, h, List.mem_filterMap]
  constructor
  · rintro ⟨f, hf, he⟩
    refine ⟨f, hf, ?_⟩
    cases hb : f.base <;> simp [hb] at he
    rw [he]
  · rintro ⟨f, hf, he⟩
    exact ⟨f, hf, by simp [he]⟩

/-- the Go build of this node itself does not return an error -/
def nodeOk (G : Graph) (n : Nat) : Prop :=
  ∃ nd, G[n]? = some nd ∧ nd.selfOk = true ∧ ∀ f ∈ nd.fields, f.base ≠ .bad

inductive Reach (G : Graph) : Nat → Nat → Prop where
  | refl (a : Nat) : Reach G a a
  | head (a t b : Nat) : t ∈ refs G a → Reach G t b → Reach G a b

/-- every schema the request needs can be built -/
def GoodFrom (G : Graph) (d : Nat) : Prop := ∀ m, Reach G d m → nodeOk G m

theorem goodFrom_ref (G : Graph) (n t : Nat) (h : GoodFrom G n) (ht : t ∈ refs G n) : GoodFrom G t :=
  fun m hm => h m (Reach.head n t m ht hm)

/-! ## frame and new-entry lemmas for the build -/

def Dom (c : Cache) (m : Nat) : Prop := (find c m).isSome = true

def Ext (c c' : Cache) : Prop := ∀ m e, find c m = some e → find c' m = some e

def NewOk (G : Graph) (c c' : Cache) : Prop :=
  ∀ m, find c m = none → ∀ e, find c' m = some e →
    e = some (shallow G m) ∧ nodeOk G m ∧ ∀ t ∈ refs G m, Dom c' t

theorem Ext.refl (c : Cache) : Ext c c := fun _ _ h => h
theorem Ext.trans {a b c : Cache} (h1 : Ext a b) (h2 : Ext b c) : Ext a c := fun m e h => h2 m e (h1 m e h)
theorem Ext.dom {c c' : Cache} (h : Ext c c') (m : Nat) (hd : Dom c m) : Dom c' m := by
  unfold Dom at hd ⊢
  cases hf : find c m with
  | none => simp [hf] at hd
  | some e => simp [h m e hf]

theorem NewOk.refl (G : Graph) (c : Cache) : NewOk G c c := by
  intro m hm e he; rw [hm] at he; cases he

theorem NewOk.trans {G : Graph} {a b c : Cache} (h1 : NewOk G a b) (_hab : Ext a b) (h2 : NewOk G b c) (hbc : Ext b c) :
    NewOk G a c := by
  intro m hm e he
  cases hb : find b m with
  | none => exact h2 m hb e he
  | some eb =>
    have := hbc m eb hb
    rw [this] at he
    have hee : eb = e := Option.some.inj he
    obtain ⟨p1, p2, p3⟩ := h1 m hm eb hb
    exact ⟨hee ▸ p1, p2, fun t ht => hbc.dom t (p3 t ht)⟩

theorem dom_setTo (c : Cache) (n m : Nat) (b : Built) : Dom (setTo c n b) m ↔ Dom c m := by
  unfold Dom
  by_cases h : m = n
  · subst h; rw [find_setTo_self]; cases find c m <;> simp
  · rw [find_setTo_ne c n m b h]

/-- what a recursive build call guarantees -/
def RecSpec (G : Graph) (rec : Cache → Nat → Cache × Bool) : Prop :=
  ∀ c n, Ext c (rec c n).1 ∧
    ((rec c n).2 = true → nodeOk G n ∧ (∀ t ∈ refs G n, Dom (rec c n).1 t) ∧ NewOk G c (rec c n).1)

theorem fold_false (G : Graph) (rec : Cache → Nat → Cache × Bool) (fs : List Field) (c : Cache) :
    fs.foldl (stepField G rec) (c, false) = (c, false) := by
  induction fs with
  | nil => rfl
  | cons f fs ih => simp only [List.foldl_cons, stepField]; exact ih

theorem fold_spec (G : Graph) (rec : Cache → Nat → Cache × Bool) (hrec : RecSpec G rec)
    (fs : List Field) (c : Cache) :
    Ext c (fs.foldl (stepField G rec) (c, true)).1 ∧
    ((fs.foldl (stepField G rec) (c, true)).2 = true →
      (∀ f ∈ fs, f.base ≠ .bad ∧ ∀ m, f.base = .ref m → Dom (fs.foldl (stepField G rec) (c, true)).1 m) ∧
      NewOk G c (fs.foldl (stepField G rec) (c, true)).1) := by
  induction fs generalizing c with
  | nil => exact ⟨Ext.refl c, fun _ => ⟨by simp, NewOk.refl G c⟩⟩
  | cons f fs ih =>
    simp only [List.foldl_cons]
    cases hb : f.base with
    | scalar =>
      have hs : stepField G rec (c, true) f = (c, true) := by simp [stepField, hb]
      rw [hs]
      obtain ⟨i1, i2⟩ := ih c
      refine ⟨i1, fun hok => ?_⟩
      obtain ⟨j1, j2⟩ := i2 hok
      refine ⟨?_, j2⟩
      intro g hg
      rcases List.mem_cons.mp hg with rfl | hg
      · exact ⟨by simp [hb], fun m hm => by simp [hb] at hm⟩
      · exact j1 g hg
    | bad =>
      have hs : stepField G rec (c, true) f = (c, false) := by simp [stepField, hb]
      rw [hs, fold_false]
      exact ⟨Ext.refl c, fun h => by simp at h⟩
    | ref m =>
      cases hf : find c m with
      | some e0 =>
        have hs : stepField G rec (c, true) f = (c, true) := by simp [stepField, hb, hf]
        rw [hs]
        obtain ⟨i1, i2⟩ := ih c
        refine ⟨i1, fun hok => ?_⟩
        obtain ⟨j1, j2⟩ := i2 hok
        refine ⟨?_, j2⟩
        intro g hg
        rcases List.mem_cons.mp hg with rfl | hg
        · refine ⟨by simp [hb], fun m' hm' => ?_⟩
          rw [hb] at hm'
          cases hm'
          exact i1.dom m (by simp [Dom, hf])
        · exact j1 g hg
      | none =>
        obtain ⟨r1, r2⟩ := hrec (insert c m none) m
        have hc1 : Ext c (insert c m none) := by
          intro x e hx
          rw [find_insert]
          by_cases hmx : m = x
          · subst hmx; rw [hf] at hx; cases hx
          · simp [hmx, hx]
        cases hok1 : (rec (insert c m none) m).2 with
        | false =>
          have hs : stepField G rec (c, true) f = ((rec (insert c m none) m).1, false) := by
            simp [stepField, hb, hf, hok1]
          rw [hs, fold_false]
          exact ⟨hc1.trans r1, fun h => by simp at h⟩
        | true =>
          have hs : stepField G rec (c, true) f = (setTo (rec (insert c m none) m).1 m (shallow G m), true) := by
            simp [stepField, hb, hf, hok1]
          rw [hs]
          obtain ⟨q1, q2, q3⟩ := r2 hok1
          -- the cache after linking m
          have hc3 : Ext c (setTo (rec (insert c m none) m).1 m (shallow G m)) := by
            intro x e hx
            have hxm : x ≠ m := by rintro rfl; rw [hf] at hx; cases hx
            rw [find_setTo_ne _ _ _ _ hxm]
            exact (hc1.trans r1) x e hx
          have hm2 : find (rec (insert c m none) m).1 m = some none := r1 m none (by simp [find_insert])
          have hm3 : find (setTo (rec (insert c m none) m).1 m (shallow G m)) m = some (some (shallow G m)) := by
            rw [find_setTo_self, hm2]; rfl
          have hn3 : NewOk G c (setTo (rec (insert c m none) m).1 m (shallow G m)) := by
            intro x hx e he
            by_cases hxm : x = m
            · subst hxm
              rw [hm3] at he
              cases he
              exact ⟨rfl, q1, fun t ht => (dom_setTo _ _ _ _).mpr (q2 t ht)⟩
            · rw [find_setTo_ne _ _ _ _ hxm] at he
              have hx1 : find (insert c m none) x = none := by
                rw [find_insert]; simp [Ne.symm hxm, hx]
              obtain ⟨p1, p2, p3⟩ := q3 x hx1 e he
              exact ⟨p1, p2, fun t ht => (dom_setTo _ _ _ _).mpr (p3 t ht)⟩
          obtain ⟨i1, i2⟩ := ih (setTo (rec (insert c m none) m).1 m (shallow G m))
          refine ⟨hc3.trans i1, fun hok => ?_⟩
          obtain ⟨j1, j2⟩ := i2 hok
          refine ⟨?_, hn3.trans hc3 j2 i1⟩
          intro g hg
          rcases List.mem_cons.mp hg with rfl | hg
          · refine ⟨by simp [hb], fun m' hm' => ?_⟩
            rw [hb] at hm'
            cases hm'
            exact i1.dom m (by simp [Dom, hm3])
          · exact j1 g hg

theorem buildNode_spec (G : Graph) (fuel : Nat) : RecSpec G (buildNode G fuel) := by
  induction fuel with
  | zero => intro c n; exact ⟨Ext.refl c, fun h => by simp [buildNode] at h⟩
  | succ fuel ih =>
    intro c n
    cases hn : G[n]? with
    | none =>
      have : buildNode G (fuel + 1) c n = (c, false) := by simp [buildNode, hn]
      rw [this]; exact ⟨Ext.refl c, fun h => by simp at h⟩
    | some nd =>
      cases hs : nd.selfOk with
      | false =>
        have : buildNode G (fuel + 1) c n = (c, false) := by simp [buildNode, hn, hs]
        rw [this]; exact ⟨Ext.refl c, fun h => by simp at h⟩
      | true =>
        have : buildNode G (fuel + 1) c n = nd.fields.foldl (stepField G (buildNode G fuel)) (c, true) := by
          simp [buildNode, hn, hs]
        rw [this]
        obtain ⟨i1, i2⟩ := fold_spec G _ ih nd.fields c
        refine ⟨i1, fun hok => ?_⟩
        obtain ⟨j1, j2⟩ := i2 hok
        refine ⟨⟨nd, hn, hs, fun f hf => (j1 f hf).1⟩, ?_, j2⟩
        intro t ht
        obtain ⟨f, hf, hft⟩ := (mem_refs G n t nd hn).mp ht
        exact (j1 f hf).2 t hft

/-! ## the invariant of every quiescent cache -/

/-- every registered schema is linked to the schema its descriptor denotes, can be built, and all
the schemas it references are registered too -/
def Inv (G : Graph) (c : Cache) : Prop :=
  ∀ m e, find c m = some e → e = some (shallow G m) ∧ nodeOk G m ∧ ∀ t ∈ refs G m, Dom c t

theorem inv_empty (G : Graph) : Inv G emptyCache := by
  intro m e h; simp [emptyCache] at h

theorem inv_congr (G : Graph) (c c' : Cache) (h : ∀ m, find c' m = find c m) (hi : Inv G c) : Inv G c' := by
  intro m e hm
  rw [h m] at hm
  obtain ⟨p1, p2, p3⟩ := hi m e hm
  exact ⟨p1, p2, fun t ht => by unfold Dom; rw [h t]; exact p3 t ht⟩

theorem inv_reach_dom (G : Graph) (c : Cache) (hi : Inv G c) (a b : Nat) (hr : Reach G a b)
    (ha : Dom c a) : Dom c b := by
  induction hr with
  | refl a => exact ha
  | head a t b ht _ ih =>
    apply ih
    unfold Dom at ha
    cases hf : find c a with
    | none => simp [hf] at ha
    | some e => exact (hi a e hf).2.2 t ht

theorem inv_good (G : Graph) (c : Cache) (hi : Inv G c) (d : Nat) (hd : Dom c d) : GoodFrom G d := by
  intro m hm
  have := inv_reach_dom G c hi d m hm hd
  unfold Dom at this
  cases hf : find c m with
  | none => simp [hf] at this
  | some e => exact (hi m e hf).2.1

theorem ext_insert_fresh (c : Cache) (d : Nat) (h : find c d = none) : Ext c (insert c d none) := by
  intro x e hx
  rw [find_insert]
  by_cases hdx : d = x
  · subst hdx; rw [h] at hx; cases hx
  · simp [hdx, hx]

/-- a successful build of an unregistered request on a quiescent cache -/
theorem inv_after_build (G : Graph) (c : Cache) (hi : Inv G c) (d fuel : Nat) (hd : find c d = none)
    (hok : (buildNode G fuel (insert c d none) d).2 = true) :
    Inv G (setTo (buildNode G fuel (insert c d none) d).1 d (shallow G d)) := by
  obtain ⟨r1, r2⟩ := buildNode_spec G fuel (insert c d none) d
  obtain ⟨q1, q2, q3⟩ := r2 hok
  have hc1 := ext_insert_fresh c d hd
  have hd2 : find (buildNode G fuel (insert c d none) d).1 d = some none := r1 d none (by simp [find_insert])
  intro x e hx
  by_cases hxd : x = d
  · subst hxd
    rw [find_setTo_self, hd2] at hx
    cases hx
    exact ⟨rfl, q1, fun t ht => (dom_setTo _ _ _ _).mpr (q2 t ht)⟩
  · rw [find_setTo_ne _ _ _ _ hxd] at hx
    cases hcx : find c x with
    | some e0 =>
      have := (hc1.trans r1) x e0 hcx
      rw [this] at hx
      have hee : e0 = e := Option.some.inj hx
      obtain ⟨p1, p2, p3⟩ := hi x e0 hcx
      exact ⟨hee ▸ p1, p2, fun t ht => (dom_setTo _ _ _ _).mpr ((hc1.trans r1).dom t (p3 t ht))⟩
    | none =>
      have hx1 : find (insert c d none) x = none := by rw [find_insert]; simp [Ne.symm hxd, hcx]
      obtain ⟨p1, p2, p3⟩ := q3 x hx1 e hx
      exact ⟨p1, p2, fun t ht => (dom_setTo _ _ _ _).mpr (p3 t ht)⟩

/-- a failed build leaves no trace -/
theorem find_after_failed_build (G : Graph) (c : Cache) (d fuel : Nat) (hd : find c d = none) (m : Nat) :
    find (rollback c (buildNode G fuel (insert c d none) d).1) m = find c m := by
  obtain ⟨r1, _⟩ := buildNode_spec G fuel (insert c d none) d
  rw [find_rollback]
  cases hm : find c m with
  | none => simp
  | some e => simpa using ((ext_insert_fresh c d hd).trans r1) m e hm

/-! ## the fuel is never exhausted -/

def unreg (G : Graph) (c : Cache) : Nat := (List.range G.length).countP (fun m => (find c m).isNone)

theorem unreg_le (G : Graph) (c : Cache) : unreg G c ≤ G.length := by
  unfold unreg
  exact Nat.le_trans (List.countP_le_length) (by simp)

theorem unreg_mono (G : Graph) (c c' : Cache) (h : ∀ m, Dom c m → Dom c' m) : unreg G c' ≤ unreg G c := by
  unfold unreg
  apply List.countP_mono_left
  intro m _ hm
  cases hf : find c m with
  | none => rfl
  | some e =>
    have := h m (by simp [Dom, hf])
    unfold Dom at this
    cases hf' : find c' m with
    | none => simp [hf'] at this
    | some e' => simp [hf'] at hm

theorem countP_lt_of {α : Type} (p q : α → Bool) (l : List α) (hpq : ∀ x ∈ l, p x = true → q x = true)
    (x : α) (hx : x ∈ l) (hqx : q x = true) (hpx : p x = false) : l.countP p < l.countP q := by
  induction l with
  | nil => cases hx
  | cons y l ih =>
    have hmono : l.countP p ≤ l.countP q :=
      List.countP_mono_left (fun z hz hp => hpq z (List.mem_cons_of_mem y hz) hp)
    rcases List.mem_cons.mp hx with rfl | hx'
    · simp only [List.countP_cons, hqx, hpx, if_true]
      simp
      omega
    · have := ih (fun z hz hp => hpq z (List.mem_cons_of_mem y hz) hp) hx'
      simp only [List.countP_cons]
      by_cases hpy : p y = true
      · have hqy := hpq y (List.mem_cons_self ..) hpy
        simp [hpy, hqy]; omega
      · by_cases hqy : q y = true
        · simp [hpy, hqy]; omega
        · simp [hpy, hqy]; omega

theorem unreg_insert_lt (G : Graph) (c : Cache) (m : Nat) (e : Entry) (hm : m < G.length)
    (hf : find c m = none) : unreg G (insert c m e) < unreg G c := by
  unfold unreg
  apply countP_lt_of _ _ _ _ m (List.mem_range.mpr hm)
  · simp [hf]
  · simp [find_insert]
  · intro x _ hx
    rw [find_insert] at hx
    by_cases hmx : m = x
    · simp [hmx] at hx
    · simpa [hmx] using hx

theorem fold_fuel (G : Graph) (fuel : Nat) (_n : Nat)
    (ih : ∀ c m, unreg G c < fuel → GoodFrom G m → (buildNode G fuel c m).2 = true)
    (fs : List Field) (hbad : ∀ f ∈ fs, f.base ≠ .bad) (hgood : ∀ f ∈ fs, ∀ m, f.base = .ref m → GoodFrom G m)
    (c : Cache) (hc : unreg G c ≤ fuel) :
    (fs.foldl (stepField G (buildNode G fuel)) (c, true)).2 = true := by
  induction fs generalizing c with
  | nil => rfl
  | cons f fs ihf =>
    have hbad' : ∀ g ∈ fs, g.base ≠ .bad := fun g hg => hbad g (List.mem_cons_of_mem f hg)
    have hgood' : ∀ g ∈ fs, ∀ m, g.base = .ref m → GoodFrom G m := fun g hg => hgood g (List.mem_cons_of_mem f hg)
    simp only [List.foldl_cons]
    cases hb : f.base with
    | scalar =>
      have hs : stepField G (buildNode G fuel) (c, true) f = (c, true) := by simp [stepField, hb]
      rw [hs]; exact ihf hbad' hgood' c hc
    | bad => exact absurd hb (hbad f (List.mem_cons_self ..))
    | ref m =>
      cases hf : find c m with
      | some e0 =>
        have hs : stepField G (buildNode G fuel) (c, true) f = (c, true) := by simp [stepField, hb, hf]
        rw [hs]; exact ihf hbad' hgood' c hc
      | none =>
        have hgm : GoodFrom G m := hgood f (List.mem_cons_self ..) m hb
        have hml : m < G.length := by
          obtain ⟨nd, hnd, _⟩ := hgm m (Reach.refl m)
          rcases Nat.lt_or_ge m G.length with h | h
          · exact h
          · rw [List.getElem?_eq_none h] at hnd; cases hnd
        have hlt := unreg_insert_lt G c m none hml hf
        have hok := ih (insert c m none) m (by omega) hgm
        have hs : stepField G (buildNode G fuel) (c, true) f =
            (setTo (buildNode G fuel (insert c m none) m).1 m (shallow G m), true) := by
          simp [stepField, hb, hf, hok]
        rw [hs]
        apply ihf hbad' hgood'
        obtain ⟨r1, _⟩ := buildNode_spec G fuel (insert c m none) m
        have : unreg G (setTo (buildNode G fuel (insert c m none) m).1 m (shallow G m)) ≤ unreg G (insert c m none) :=
          unreg_mono G _ _ (fun x hx => (dom_setTo _ _ _ _).mpr (r1.dom x hx))
        omega

theorem buildNode_fuel_enough (G : Graph) (fuel : Nat) :
    ∀ c n, unreg G c < fuel → GoodFrom G n → (buildNode G fuel c n).2 = true := by
  induction fuel with
  | zero => intro c n h; omega
  | succ fuel ih =>
    intro c n hc hg
    obtain ⟨nd, hn, hs, hbad⟩ := hg n (Reach.refl n)
    have : buildNode G (fuel + 1) c n = nd.fields.foldl (stepField G (buildNode G fuel)) (c, true) := by
      simp [buildNode, hn, hs]
    rw [this]
    apply fold_fuel G fuel n ih nd.fields hbad ?_ c (by omega)
    intro f hf m hm
    exact goodFrom_ref G n m hg ((mem_refs G n m nd hn).mpr ⟨f, hf, hm⟩)

/-! ## `schemaOf` on a quiescent cache -/

theorem schemaOf_spec (G : Graph) (c : Cache) (hi : Inv G c) (d : Nat) :
    Inv G (schemaOf G c d).1 ∧
    ((schemaOf G c d).2 = .ok ↔ GoodFrom G d) ∧
    ((schemaOf G c d).2 = .ok → Dom (schemaOf G c d).1 d) ∧
    (∀ m e, find c m = some e → find (schemaOf G c d).1 m = some e) ∧
    ((schemaOf G c d).2 = .err → ∀ m, find (schemaOf G c d).1 m = find c m) := by
  cases hd : find c d with
  | some e =>
    obtain ⟨rfl, _, _⟩ := hi d e hd
    have : schemaOf G c d = (c, .ok) := by simp [schemaOf, hd]
    rw [this]
    refine ⟨hi, ⟨fun _ => inv_good G c hi d (by simp [Dom, hd]), fun _ => rfl⟩, fun _ => by simp [Dom, hd],
      fun _ _ h => h, fun h => by simp at h⟩
  | none =>
    cases hok : (buildNode G (G.length + 1) (insert c d none) d).2 with
    | true =>
      have : schemaOf G c d = (setTo (buildNode G (G.length + 1) (insert c d none) d).1 d (shallow G d), .ok) := by
        simp [schemaOf, hd, hok]
      rw [this]
      have hinv := inv_after_build G c hi d _ hd hok
      obtain ⟨r1, _⟩ := buildNode_spec G (G.length + 1) (insert c d none) d
      have hdd : Dom (setTo (buildNode G (G.length + 1) (insert c d none) d).1 d (shallow G d)) d := by
        apply (dom_setTo _ _ _ _).mpr
        exact r1.dom d (by simp [Dom, find_insert])
      refine ⟨hinv, ⟨fun _ => inv_good G _ hinv d hdd, fun _ => rfl⟩, fun _ => hdd, ?_, fun h => by simp at h⟩
      intro m e hm
      have hmd : m ≠ d := by rintro rfl; rw [hd] at hm; cases hm
      rw [find_setTo_ne _ _ _ _ hmd]
      exact ((ext_insert_fresh c d hd).trans r1) m e hm
    | false =>
      have : schemaOf G c d = (rollback c (buildNode G (G.length + 1) (insert c d none) d).1, .err) := by
        simp [schemaOf, hd, hok]
      rw [this]
      have hfind := find_after_failed_build G c d (G.length + 1) hd
      refine ⟨inv_congr G c _ hfind hi, ⟨fun h => by simp at h, fun hg => ?_⟩, fun h => by simp at h,
        fun m e hm => by rw [hfind m]; exact hm, fun _ => hfind⟩
      have hlt : unreg G (insert c d none) < G.length + 1 := Nat.lt_succ_of_le (unreg_le G _)
      have := buildNode_fuel_enough G (G.length + 1) (insert c d none) d hlt hg
      rw [hok] at this
      cases this

/-- caches that arise from the empty cache by any sequence of requests (successful or not) -/
inductive Reachable (G : Graph) : Cache → Prop where
  | empty : Reachable G emptyCache
  | step (c : Cache) (d : Nat) : Reachable G c → Reachable G (schemaOf G c d).1

theorem reachable_inv (G : Graph) (c : Cache) (h : Reachable G c) : Inv G c := by
  induction h with
  | empty => exact inv_empty G
  | step c d _ ih => exact (schemaOf_spec G c ih d).1

theorem reachable_runReqs (G : Graph) (c : Cache) (h : Reachable G c) (ds : List Nat) :
    Reachable G (runReqs G c ds) := by
  induction ds generalizing c with
  | nil => exact h
  | cons d ds ih => exact ih _ (Reachable.step c d h)

end J5V.Conc.Cache
