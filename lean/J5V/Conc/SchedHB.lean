import J5V.Conc.SchedProofs
/-! Happens-before race freedom (core only). The reader/writer discipline with published locations
(`PubGuardedBy`) together with the publication rule of the execution (`PubOrdered`) orders every
pair of conflicting accesses by happens-before. The lockset theorem (mutex or reader/writer lock,
nothing published) is the special case `X = ∅`. -/
namespace J5V.Conc.Sched

/-! ## traces -/

theorem getElem?_lt_of_some {α : Type} (xs : List α) (a : Nat) (x : α) (h : xs[a]? = some x) : a < xs.length := by
  rcases Nat.lt_or_ge a xs.length with h' | h'
  · exact h'
  · rw [List.getElem?_eq_none h'] at h; cases h

theorem getElem?_append_of_some {α : Type} (xs ys : List α) (a : Nat) (x : α) (h : xs[a]? = some x) :
    (xs ++ ys)[a]? = some x := by
  rw [List.getElem?_append_left (getElem?_lt_of_some xs a x h)]; exact h

theorem getElem?_concat_cases {α : Type} (xs : List α) (e x : α) (b : Nat) (h : (xs ++ [e])[b]? = some x) :
    xs[b]? = some x ∨ (b = xs.length ∧ x = e) := by
  rcases Nat.lt_or_ge b xs.length with hb | hb
  · left; rwa [List.getElem?_append_left hb] at h
  · right
    have hlt := getElem?_lt_of_some _ b x h
    simp only [List.length_append, List.length_singleton] at hlt
    have : b = xs.length := by omega
    subst this
    simp at h
    exact ⟨rfl, h.symm⟩

theorem hb_lt (tr : List Ev) (a b : Nat) (h : HB tr a b) : a < b := by
  induction h with
  | po h _ _ _ => exact h
  | sw h _ _ _ => exact h
  | trans _ _ ih1 ih2 => exact Nat.lt_trans ih1 ih2

theorem hb_mono (tr more : List Ev) (a b : Nat) (h : HB tr a b) : HB (tr ++ more) a b := by
  induction h with
  | po h ha hb ht => exact HB.po h (getElem?_append_of_some _ _ _ _ ha) (getElem?_append_of_some _ _ _ _ hb) ht
  | sw h ha hb ht => exact HB.sw h (getElem?_append_of_some _ _ _ _ ha) (getElem?_append_of_some _ _ _ _ hb) ht
  | trans _ _ ih1 ih2 => exact HB.trans ih1 ih2

/-- a generating edge of happens-before between two positions (computable) -/
def hbEdgeB (tr : List Ev) (a b : Nat) : Bool :=
  match tr[a]?, tr[b]? with
  | some ea, some eb => ea.tid == eb.tid || swEdge ea.act eb.act
  | _, _ => false

/-- `R` contains the generating edges of the trace and is transitive (computable check) -/
def hbClosedB (tr : List Ev) (R : Nat → Nat → Bool) : Bool :=
  (List.range tr.length).all fun b => (List.range b).all fun a =>
    (!hbEdgeB tr a b || R a b) && (List.range a).all fun z => !(R z a && R a b) || R z b

/-- happens-before is contained in every relation that contains its generating edges and is
transitive (used to show that two events are *not* ordered) -/
theorem hb_sub (tr : List Ev) (R : Nat → Nat → Bool) (hcl : hbClosedB tr R = true)
    (a b : Nat) (h : HB tr a b) : R a b = true := by
  simp only [hbClosedB, List.all_eq_true, List.mem_range, Bool.and_eq_true, Bool.or_eq_true,
    Bool.not_eq_true'] at hcl
  have bound : ∀ a b, HB tr a b → b < tr.length := by
    intro a b h
    induction h with
    | po _ _ hb _ => exact getElem?_lt_of_some _ _ _ hb
    | sw _ _ hb _ => exact getElem?_lt_of_some _ _ _ hb
    | trans _ _ _ ih2 => exact ih2
  have edge : ∀ a b ea eb, a < b → tr[a]? = some ea → tr[b]? = some eb →
      (ea.tid = eb.tid ∨ swEdge ea.act eb.act = true) → R a b = true := by
    intro a b ea eb hab ha hb he
    rcases (hcl b (getElem?_lt_of_some _ _ _ hb) a hab).1 with h' | h'
    · have : hbEdgeB tr a b = true := by
        simp only [hbEdgeB, ha, hb, Bool.or_eq_true, beq_iff_eq]; exact he
      rw [this] at h'; cases h'
    · exact h'
  induction h with
  | po h ha hb ht => exact edge _ _ _ _ h ha hb (Or.inl ht)
  | sw h ha hb ht => exact edge _ _ _ _ h ha hb (Or.inr ht)
  | trans h1 h2 ih1 ih2 =>
    rcases (hcl _ (bound _ _ h2) _ (hb_lt _ _ _ h2)).2 _ (hb_lt _ _ _ h1) with h' | h'
    · rw [ih1, ih2] at h'; simp at h'
    · exact h'

theorem not_hb_of_closed (tr : List Ev) (R : Nat → Nat → Bool) (hcl : hbClosedB tr R = true)
    (a b : Nat) (hr : R a b = false) : ¬ HB tr a b := by
  intro h
  rw [hb_sub tr R hcl a b h] at hr
  cases hr

theorem trunFrom_st (wv : WriteFn) (ts : TState) (sched : List Nat) :
    (trunFrom wv ts sched).st = runFrom wv ts.st sched := by
  induction sched generalizing ts with
  | nil => rfl
  | cons i rest ih => exact ih _

theorem trun_st (wv : WriteFn) (p : Prog) (sched : List Nat) : (trun wv p sched).st = run wv p sched :=
  trunFrom_st wv _ sched

/-- a traced step either adds nothing to the trace and leaves the holders of every lock alone, or
fires the thread's next action -/
theorem tstep_cases (wv : WriteFn) (ts : TState) (i : Nat) :
    ((tstep wv ts i).tr = ts.tr ∧ (tstep wv ts i).st.owner = ts.st.owner ∧
      (tstep wv ts i).st.readers = ts.st.readers) ∨
    (∃ a r, ts.st.rem[i]? = some (a :: r) ∧ canFire ts.st i a = true ∧
      tstep wv ts i = ⟨fire wv ts.st i a r, ts.tr ++ [⟨i, a⟩]⟩) := by
  cases h : ts.st.rem[i]? with
  | none => left; simp [tstep, firedEv, step, h]
  | some t =>
    cases t with
    | nil => left; simp [tstep, firedEv, step, h]
    | cons a r =>
      cases hc : canFire ts.st i a with
      | true =>
        right
        refine ⟨a, r, rfl, hc, ?_⟩
        simp [tstep, firedEv, h, hc, step_fire wv ts.st i a r h hc]
      | false =>
        left
        obtain ⟨pd, hpd⟩ := announce_eq ts.st i a
        simp [tstep, firedEv, h, hc, step_blocked wv ts.st i a r h hc, hpd]

/-! ## how firing an action changes who holds `l` -/

theorem fire_owner_fwd (wv : WriteFn) (s : State) (j : Nat) (act : Action) (r : Thread) (l i : Nat)
    (hc : canFire s j act = true) (h : s.owner l = some i) :
    (fire wv s j act r).owner l = some i ∨ (i = j ∧ act = .unlock l) := by
  cases act with
  | lock l' =>
    by_cases hl : l' = l
    · subst hl; simp [canFire, h] at hc
    · left; simpa [fire, upd, Ne.symm hl] using h
  | unlock l' =>
    by_cases hl : l' = l
    · subst hl
      simp only [canFire, decide_eq_true_eq] at hc
      rw [h] at hc
      right; exact ⟨Option.some.inj hc, rfl⟩
    · left; simpa [fire, upd, Ne.symm hl] using h
  | _ => left; exact h

theorem fire_owner_bwd (wv : WriteFn) (s : State) (j : Nat) (act : Action) (r : Thread) (l i : Nat)
    (h : (fire wv s j act r).owner l = some i) : s.owner l = some i ∨ (i = j ∧ act = .lock l) := by
  cases act with
  | lock l' =>
    by_cases hl : l' = l
    · subst hl; right; simp [fire] at h; exact ⟨h.symm, rfl⟩
    · left; simpa [fire, upd, Ne.symm hl] using h
  | unlock l' =>
    by_cases hl : l' = l
    · subst hl; simp [fire] at h
    · left; simpa [fire, upd, Ne.symm hl] using h
  | _ => left; exact h

theorem fire_readers_fwd (wv : WriteFn) (s : State) (j : Nat) (act : Action) (r : Thread) (l i : Nat)
    (h : i ∈ s.readers l) : i ∈ (fire wv s j act r).readers l ∨ (i = j ∧ act = .runlock l) := by
  cases act with
  | rlock l' =>
    by_cases hl : l' = l
    · subst hl; left; simp [fire, h]
    · left; simpa [fire, upd, Ne.symm hl] using h
  | runlock l' =>
    by_cases hl : l' = l
    · subst hl
      by_cases hij : i = j
      · right; exact ⟨hij, rfl⟩
      · left; simpa [fire, List.mem_erase_of_ne hij] using h
    · left; simpa [fire, upd, Ne.symm hl] using h
  | _ => left; exact h

theorem fire_readers_bwd (wv : WriteFn) (s : State) (j : Nat) (act : Action) (r : Thread) (l i : Nat)
    (h : i ∈ (fire wv s j act r).readers l) : i ∈ s.readers l ∨ (i = j ∧ act = .rlock l) := by
  cases act with
  | rlock l' =>
    by_cases hl : l' = l
    · subst hl
      simp only [fire, upd_same, List.mem_cons] at h
      rcases h with h | h
      · right; exact ⟨h, rfl⟩
      · left; exact h
    · left; simpa [fire, upd, Ne.symm hl] using h
  | runlock l' =>
    by_cases hl : l' = l
    · subst hl; left; simp only [fire, upd_same] at h; exact List.mem_of_mem_erase h
    · left; simpa [fire, upd, Ne.symm hl] using h
  | _ => left; exact h

/-! ## the history invariant -/

/-- what the trace remembers about the accesses made under the discipline:
* `jw`/`jr`: a write (a protected read) was made by a thread that still holds `l` or has released
  it since;
* `kw`/`kr`: the current writer (a current reader) acquired `l` after every earlier release
  (every earlier `unlock`);
* `p`: conflicting protected accesses of different threads are ordered by happens-before;
* `q`: every write happens before every later acquisition of `l` (in either mode). -/
structure HI (l : Nat) (X : Nat → Bool) (ts : TState) : Prop where
  jw : ∀ (a i x : Nat), ts.tr[a]? = some ⟨i, .write x⟩ →
    ts.st.owner l = some i ∨ ∃ u : Nat, a < u ∧ ts.tr[u]? = some ⟨i, .unlock l⟩
  jr : ∀ (a i x : Nat), ts.tr[a]? = some ⟨i, .read x⟩ → X x = false →
    ts.st.owner l = some i ∨ i ∈ ts.st.readers l ∨
      ∃ u : Nat, a < u ∧ (ts.tr[u]? = some ⟨i, .unlock l⟩ ∨ ts.tr[u]? = some ⟨i, .runlock l⟩)
  kw : ∀ j : Nat, ts.st.owner l = some j → ∃ k : Nat, ts.tr[k]? = some ⟨j, .lock l⟩ ∧
    ∀ (u : Nat) (e : Ev), ts.tr[u]? = some e → (e.act = .unlock l ∨ e.act = .runlock l) → u < k
  kr : ∀ j : Nat, j ∈ ts.st.readers l → ∃ k : Nat, ts.tr[k]? = some ⟨j, .rlock l⟩ ∧
    ∀ (u : Nat) (e : Ev), ts.tr[u]? = some e → e.act = .unlock l → u < k
  p : ∀ (a b i j x : Nat), a < b → i ≠ j →
    ((ts.tr[a]? = some ⟨i, .write x⟩ ∧
        (ts.tr[b]? = some ⟨j, .write x⟩ ∨ (ts.tr[b]? = some ⟨j, .read x⟩ ∧ X x = false))) ∨
      (ts.tr[a]? = some ⟨i, .read x⟩ ∧ X x = false ∧ ts.tr[b]? = some ⟨j, .write x⟩)) →
    HB ts.tr a b
  q : ∀ (a k i j x : Nat), a < k → ts.tr[a]? = some ⟨i, .write x⟩ →
    (ts.tr[k]? = some ⟨j, .lock l⟩ ∨ ts.tr[k]? = some ⟨j, .rlock l⟩) → HB ts.tr a k

theorem hi_init (l : Nat) (X : Nat → Bool) (p : Prog) : HI l X ⟨init p, []⟩ where
  jw := by intro a i x h; simp at h
  jr := by intro a i x h; simp at h
  kw := by intro j h; simp [init] at h
  kr := by intro j h; simp [init] at h
  p := by intro a b i j x _ _ h; simp at h
  q := by intro a k i j x _ h; simp at h

theorem hi_congr (l : Nat) (X : Nat → Bool) (ts ts' : TState) (htr : ts'.tr = ts.tr)
    (ho : ts'.st.owner = ts.st.owner) (hr : ts'.st.readers = ts.st.readers) (h : HI l X ts) : HI l X ts' where
  jw := by rw [htr, ho]; exact h.jw
  jr := by rw [htr, ho, hr]; exact h.jr
  kw := by rw [htr, ho]; exact h.kw
  kr := by rw [htr, hr]; exact h.kr
  p := by rw [htr]; exact h.p
  q := by rw [htr]; exact h.q

/-- one more event -/
theorem hi_extend (l : Nat) (X : Nat → Bool) (ts : TState) (s' : State) (j : Nat) (act : Action)
    (h : HI l X ts) (hx : ∀ i, ts.st.owner l = some i → ts.st.readers l = [])
    (HO : ∀ i, ts.st.owner l = some i → s'.owner l = some i ∨ (i = j ∧ act = .unlock l))
    (HR : ∀ i, i ∈ ts.st.readers l → i ∈ s'.readers l ∨ (i = j ∧ act = .runlock l))
    (HO' : ∀ i, s'.owner l = some i → ts.st.owner l = some i ∨ (i = j ∧ act = .lock l))
    (HR' : ∀ i, i ∈ s'.readers l → i ∈ ts.st.readers l ∨ (i = j ∧ act = .rlock l))
    (hw : ∀ x, act = .write x → ts.st.owner l = some j)
    (hrd : ∀ x, act = .read x → X x = false → ts.st.owner l = some j ∨ j ∈ ts.st.readers l)
    (hacq : act = .lock l ∨ act = .rlock l → ∀ u, ts.st.owner l ≠ some u)
    (hun : act = .unlock l → ts.st.owner l = some j)
    (hrel' : act = .unlock l ∨ act = .runlock l → ∀ u, s'.owner l ≠ some u) :
    HI l X ⟨s', ts.tr ++ [⟨j, act⟩]⟩ := by
  have old : ∀ b eb, ts.tr[b]? = some eb → (ts.tr ++ [(⟨j, act⟩ : Ev)])[b]? = some eb :=
    fun b eb hb => getElem?_append_of_some _ _ _ _ hb
  have lt : ∀ b eb, ts.tr[b]? = some eb → b < ts.tr.length := fun b eb hb => getElem?_lt_of_some _ _ _ hb
  have new : (ts.tr ++ [(⟨j, act⟩ : Ev)])[ts.tr.length]? = some ⟨j, act⟩ := List.getElem?_concat_length
  have split : ∀ b eb, (ts.tr ++ [(⟨j, act⟩ : Ev)])[b]? = some eb →
      ts.tr[b]? = some eb ∨ (b = ts.tr.length ∧ eb = ⟨j, act⟩) := fun b eb hb => getElem?_concat_cases _ _ _ _ hb
  -- the chain  a -po-> u -sw-> k -po-> new event
  have chain : ∀ a u k (ea eu ek : Ev), a < u → u < k → ts.tr[a]? = some ea → ts.tr[u]? = some eu →
      ts.tr[k]? = some ek → ea.tid = eu.tid → swEdge eu.act ek.act = true → ek.tid = j →
      HB (ts.tr ++ [(⟨j, act⟩ : Ev)]) a ts.tr.length := by
    intro a u k ea eu ek hau huk ha hu hk h1 h2 h3
    exact HB.trans (HB.po hau (old _ _ ha) (old _ _ hu) h1)
      (HB.trans (HB.sw huk (old _ _ hu) (old _ _ hk) h2) (HB.po (lt _ _ hk) (old _ _ hk) new h3))
  refine ⟨?_, ?_, ?_, ?_, ?_, ?_⟩
  · -- jw
    intro a i x ha
    simp only at ha ⊢
    rcases split _ _ ha with hold | ⟨_, he⟩
    · rcases h.jw a i x hold with ho | ⟨u, hau, hu⟩
      · rcases HO i ho with ho' | ⟨rfl, hact⟩
        · exact Or.inl ho'
        · exact Or.inr ⟨ts.tr.length, lt _ _ hold, by rw [new, hact]⟩
      · exact Or.inr ⟨u, hau, old _ _ hu⟩
    · simp only [Ev.mk.injEq] at he
      obtain ⟨rfl, rfl⟩ := he
      rcases HO i (hw x rfl) with ho' | ⟨_, hact⟩
      · exact Or.inl ho'
      · cases hact
  · -- jr
    intro a i x ha hX
    simp only at ha ⊢
    rcases split _ _ ha with hold | ⟨_, he⟩
    · rcases h.jr a i x hold hX with ho | hr | ⟨u, hau, hu⟩
      · rcases HO i ho with ho' | ⟨rfl, hact⟩
        · exact Or.inl ho'
        · exact Or.inr (Or.inr ⟨ts.tr.length, lt _ _ hold, Or.inl (by rw [new, hact])⟩)
      · rcases HR i hr with hr' | ⟨rfl, hact⟩
        · exact Or.inr (Or.inl hr')
        · exact Or.inr (Or.inr ⟨ts.tr.length, lt _ _ hold, Or.inr (by rw [new, hact])⟩)
      · exact Or.inr (Or.inr ⟨u, hau, hu.imp (old _ _) (old _ _)⟩)
    · simp only [Ev.mk.injEq] at he
      obtain ⟨rfl, rfl⟩ := he
      rcases hrd x rfl hX with ho | hr
      · rcases HO i ho with ho' | ⟨_, hact⟩
        · exact Or.inl ho'
        · cases hact
      · rcases HR i hr with hr' | ⟨_, hact⟩
        · exact Or.inr (Or.inl hr')
        · cases hact
  · -- kw
    intro j' ho'
    simp only at ho' ⊢
    rcases HO' j' ho' with hold | ⟨rfl, hact⟩
    · obtain ⟨k, hk, hall⟩ := h.kw j' hold
      refine ⟨k, old _ _ hk, ?_⟩
      intro u e hu hrel
      rcases split _ _ hu with hu | ⟨_, rfl⟩
      · exact hall u e hu hrel
      · exact absurd ho' (hrel' hrel j')
    · refine ⟨ts.tr.length, by rw [new, hact], ?_⟩
      intro u e hu hrel
      rcases split _ _ hu with hu | ⟨_, rfl⟩
      · exact lt _ _ hu
      · simp only [hact] at hrel
        rcases hrel with hrel | hrel <;> cases hrel
  · -- kr
    intro j' hr'
    simp only at hr' ⊢
    rcases HR' j' hr' with hold | ⟨rfl, hact⟩
    · obtain ⟨k, hk, hall⟩ := h.kr j' hold
      refine ⟨k, old _ _ hk, ?_⟩
      intro u e hu hune
      rcases split _ _ hu with hu | ⟨_, rfl⟩
      · exact hall u e hu hune
      · rw [hx j (hun hune)] at hold
        simp at hold
    · refine ⟨ts.tr.length, by rw [new, hact], ?_⟩
      intro u e hu hune
      rcases split _ _ hu with hu | ⟨_, rfl⟩
      · exact lt _ _ hu
      · simp only [hact] at hune
        cases hune
  · -- p
    intro a b i j' x hab hij hcase
    simp only at hcase ⊢
    by_cases hb : b < ts.tr.length
    · have conv : ∀ c (e : Ev), c ≤ b → (ts.tr ++ [(⟨j, act⟩ : Ev)])[c]? = some e → ts.tr[c]? = some e := by
        intro c e hc hce
        rwa [List.getElem?_append_left (by omega)] at hce
      apply hb_mono
      apply h.p a b i j' x hab hij
      rcases hcase with ⟨ha, hb1 | ⟨hb2, hX⟩⟩ | ⟨ha, hX, hb3⟩
      · exact Or.inl ⟨conv _ _ (by omega) ha, Or.inl (conv _ _ (by omega) hb1)⟩
      · exact Or.inl ⟨conv _ _ (by omega) ha, Or.inr ⟨conv _ _ (by omega) hb2, hX⟩⟩
      · exact Or.inr ⟨conv _ _ (by omega) ha, hX, conv _ _ (by omega) hb3⟩
    · -- the later access is the new event
      have atNew : ∀ e, (ts.tr ++ [(⟨j, act⟩ : Ev)])[b]? = some e → b = ts.tr.length ∧ e = ⟨j, act⟩ := by
        intro e he
        rcases split _ _ he with he | he
        · exact absurd (lt _ _ he) hb
        · exact he
      have oldA : ∀ e, (ts.tr ++ [(⟨j, act⟩ : Ev)])[a]? = some e → b = ts.tr.length → ts.tr[a]? = some e := by
        intro e he hbn
        rwa [List.getElem?_append_left (by omega)] at he
      rcases hcase with ⟨ha, hb1 | ⟨hb2, hX⟩⟩ | ⟨ha, hX, hb3⟩
      · -- write, write
        obtain ⟨rfl, he⟩ := atNew _ hb1
        simp only [Ev.mk.injEq] at he
        obtain ⟨rfl, rfl⟩ := he
        have ha' := oldA _ ha rfl
        have hown := hw x rfl
        obtain ⟨k, hk, hall⟩ := h.kw j' hown
        rcases h.jw a i x ha' with ho | ⟨u, hau, hu⟩
        · rw [hown] at ho; exact absurd (Option.some.inj ho).symm hij
        · exact chain a u k _ _ _ hau (hall u _ hu (Or.inl rfl)) ha' hu hk rfl (by simp [swEdge]) rfl
      · -- write, protected read
        obtain ⟨rfl, he⟩ := atNew _ hb2
        simp only [Ev.mk.injEq] at he
        obtain ⟨rfl, rfl⟩ := he
        have ha' := oldA _ ha rfl
        rcases hrd x rfl hX with hown | hrdr
        · obtain ⟨k, hk, hall⟩ := h.kw j' hown
          rcases h.jw a i x ha' with ho | ⟨u, hau, hu⟩
          · rw [hown] at ho; exact absurd (Option.some.inj ho).symm hij
          · exact chain a u k _ _ _ hau (hall u _ hu (Or.inl rfl)) ha' hu hk rfl (by simp [swEdge]) rfl
        · obtain ⟨k, hk, hall⟩ := h.kr j' hrdr
          rcases h.jw a i x ha' with ho | ⟨u, hau, hu⟩
          · rw [hx i ho] at hrdr; simp at hrdr
          · exact chain a u k _ _ _ hau (hall u _ hu rfl) ha' hu hk rfl (by simp [swEdge]) rfl
      · -- protected read, write
        obtain ⟨rfl, he⟩ := atNew _ hb3
        simp only [Ev.mk.injEq] at he
        obtain ⟨rfl, rfl⟩ := he
        have ha' := oldA _ ha rfl
        have hown := hw x rfl
        obtain ⟨k, hk, hall⟩ := h.kw j' hown
        rcases h.jr a i x ha' hX with ho | hr | ⟨u, hau, hu | hu⟩
        · rw [hown] at ho; exact absurd (Option.some.inj ho).symm hij
        · rw [hx j' hown] at hr; simp at hr
        · exact chain a u k _ _ _ hau (hall u _ hu (Or.inl rfl)) ha' hu hk rfl (by simp [swEdge]) rfl
        · exact chain a u k _ _ _ hau (hall u _ hu (Or.inr rfl)) ha' hu hk rfl (by simp [swEdge]) rfl
  · -- q
    intro a k i j' x hak ha hk
    simp only at ha hk ⊢
    by_cases hkn : k < ts.tr.length
    · have conv : ∀ c (e : Ev), c ≤ k → (ts.tr ++ [(⟨j, act⟩ : Ev)])[c]? = some e → ts.tr[c]? = some e := by
        intro c e hc hce
        rwa [List.getElem?_append_left (by omega)] at hce
      exact hb_mono _ _ _ _ (h.q a k i j' x hak (conv _ _ (by omega) ha) (hk.imp (conv _ _ (by omega)) (conv _ _ (by omega))))
    · have hkeq : k = ts.tr.length ∧ (act = .lock l ∨ act = .rlock l) := by
        rcases hk with hk | hk
        · rcases split _ _ hk with hk | ⟨hk1, hk2⟩
          · exact absurd (lt _ _ hk) hkn
          · simp only [Ev.mk.injEq] at hk2; exact ⟨hk1, Or.inl hk2.2.symm⟩
        · rcases split _ _ hk with hk | ⟨hk1, hk2⟩
          · exact absurd (lt _ _ hk) hkn
          · simp only [Ev.mk.injEq] at hk2; exact ⟨hk1, Or.inr hk2.2.symm⟩
      obtain ⟨rfl, hact⟩ := hkeq
      have ha' : ts.tr[a]? = some ⟨i, .write x⟩ := by rwa [List.getElem?_append_left (by omega)] at ha
      rcases h.jw a i x ha' with ho | ⟨u, hau, hu⟩
      · exact absurd ho (hacq hact i)
      · refine HB.trans (HB.po hau (old _ _ ha') (old _ _ hu) rfl) (HB.sw (lt _ _ hu) (old _ _ hu) new ?_)
        rcases hact with rfl | rfl <;> simp [swEdge]

/-- the discipline invariant and the history invariant together -/
def TI (l : Nat) (X : Nat → Bool) (ts : TState) : Prop := GI l X ts.st ∧ HI l X ts

theorem ti_step (wv : WriteFn) (l : Nat) (X : Nat → Bool) (ts : TState) (i : Nat) (h : TI l X ts) :
    TI l X (tstep wv ts i) := by
  obtain ⟨hg, hh⟩ := h
  refine ⟨gi_step wv l X ts.st i hg, ?_⟩
  rcases tstep_cases wv ts i with ⟨h1, h2, h3⟩ | ⟨a, r, hi, hc, hs⟩
  · exact hi_congr l X ts _ h1 h2 h3 hh
  · rw [hs]
    have hx := hg.2.1
    refine hi_extend l X ts _ i a hh hx
      (fun u hu => fire_owner_fwd wv ts.st i a r l u hc hu)
      (fun u hu => fire_readers_fwd wv ts.st i a r l u hu)
      (fun u hu => fire_owner_bwd wv ts.st i a r l u hu)
      (fun u hu => fire_readers_bwd wv ts.st i a r l u hu) ?_ ?_ ?_ ?_ ?_
    · intro x hax
      subst hax
      exact (gi_access l X ts.st hg i _ r x true hi rfl).1 rfl
    · intro x hax hX
      subst hax
      rcases (gi_access l X ts.st hg i _ r x false hi rfl).2 rfl with h' | h' | h'
      · rw [hX] at h'; cases h'
      · exact Or.inl h'
      · exact Or.inr h'.1
    · intro hact u hu
      rcases hact with rfl | rfl <;> simp [canFire, hu] at hc
    · intro hact
      subst hact
      simpa [canFire] using hc
    · intro hact u hu
      rcases hact with rfl | rfl
      · simp [fire] at hu
      · simp only [canFire, decide_eq_true_eq] at hc
        have hu' : ts.st.owner l = some u := hu
        rw [hx u hu'] at hc
        simp at hc

theorem ti_trunFrom (wv : WriteFn) (l : Nat) (X : Nat → Bool) (sched : List Nat) (ts : TState)
    (h : TI l X ts) : TI l X (trunFrom wv ts sched) := by
  induction sched generalizing ts with
  | nil => exact h
  | cons i rest ih => exact ih _ (ti_step wv l X ts i h)

theorem ti_trun (wv : WriteFn) (l : Nat) (X : Nat → Bool) (p : Prog) (h : PubGuardedBy l X p)
    (sched : List Nat) : TI l X (trun wv p sched) :=
  ti_trunFrom wv l X sched _ ⟨gi_init l X p h, hi_init l X p⟩

theorem access_cases (act : Action) (x : Nat) (w : Bool) (h : act.access = some (x, w)) :
    (w = true ∧ act = .write x) ∨ (w = false ∧ act = .read x) := by
  cases act <;> simp [Action.access] at h
  · right; exact ⟨h.2, by rw [h.1]⟩
  · left; exact ⟨h.2, by rw [h.1]⟩

/-- **Happens-before race freedom.** Discipline (static) + publication rule (of the execution)
⇒ every two conflicting accesses are ordered by happens-before. -/
theorem hb_race_free (wv : WriteFn) (l : Nat) (X : Nat → Bool) (p : Prog) (h : PubGuardedBy l X p)
    (sched : List Nat) (hpub : PubOrdered l X (trace wv p sched)) : ¬ RaceHB (trace wv p sched) := by
  have hi := (ti_trun wv l X p h sched).2
  rintro ⟨a, b, ⟨i, acta⟩, ⟨j, actb⟩, x, wa, wb, hab, ha, hb, hij, haa, hba, hw, hn⟩
  simp only at hij haa hba
  apply hn
  unfold trace at ha hb hpub ⊢
  rcases access_cases _ _ _ haa with ⟨rfl, rfl⟩ | ⟨rfl, rfl⟩ <;>
    rcases access_cases _ _ _ hba with ⟨rfl, rfl⟩ | ⟨rfl, rfl⟩
  · exact hi.p a b i j x hab hij (Or.inl ⟨ha, Or.inl hb⟩)
  · cases hX : X x with
    | false => exact hi.p a b i j x hab hij (Or.inl ⟨ha, Or.inr ⟨hb, hX⟩⟩)
    | true =>
      obtain ⟨k, hak, hkb, hk⟩ := hpub a b i j x ha hb hX hij
      refine HB.trans (hi.q a k i j x hak ha hk) ?_
      rcases hk with hk | hk
      · exact HB.po hkb hk hb rfl
      · exact HB.po hkb hk hb rfl
  · cases hX : X x with
    | false => exact hi.p a b i j x hab hij (Or.inr ⟨ha, hX, hb⟩)
    | true =>
      obtain ⟨k, hbk, hka, _⟩ := hpub b a j i x hb ha hX (Ne.symm hij)
      omega
  · rcases hw with hw | hw <;> cases hw

theorem pubOrdered_empty (l : Nat) (tr : List Ev) : PubOrdered l (fun _ => false) tr := by
  intro a b i j x _ _ hX; cases hX

/-- the computable check implies the publication rule -/
theorem pubOrdered_of_check (l : Nat) (X : Nat → Bool) (tr : List Ev) (h : pubOrderedB l X tr = true) :
    PubOrdered l X tr := by
  intro a b i j x ha hb hX hij
  unfold pubOrderedB at h
  rw [List.all_eq_true] at h
  have h1 := h a (List.mem_range.mpr (getElem?_lt_of_some _ _ _ ha))
  rw [List.all_eq_true] at h1
  have h2 := h1 b (List.mem_range.mpr (getElem?_lt_of_some _ _ _ hb))
  simp [ha, hb, hX, hij] at h2
  obtain ⟨k, hkb, hak, hk⟩ := h2
  exact ⟨k, hak, hkb, hk⟩

end J5V.Conc.Sched
