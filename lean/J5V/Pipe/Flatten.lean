import J5V.Pipe.Walk
/-!
# C16 — `ObjectSchema.ClientProperties()` (`lib/j5schema/root_schema.go`): flattening (core only)

The client view of an object replaces every property whose object field is marked `flatten` by
the client properties of the object it refers to (each child cloned with the parent's proto field
number in front: the JSON name stays the child's). `clientProperties(flattening)` carries the
objects whose flattened fields are being expanded; a flattened field whose object is already being
expanded stays an ordinary nested object (it would expand forever otherwise).

* `clientPropsFuel` — that recursion with fuel (`none` = fuel exhausted; theorem
  `clientProps_terminates`: `|g| + 1` is always enough).
* Go's `propType.Schema()` is `Ref.To.(*ObjectSchema)`: an unlinked reference or a reference to a
  schema that is no object is a run-time panic — explicit `.panic` arms here; `FlatLinked g`
  (decidable) says no flattened property is like that, and is what the schema reader produces
  (`flatten` only exists on object fields, whose reference is to a message).
* `clientGraph` — the schema set as the client sees it: the same nodes, every object with its
  client properties. `walkSchemaFields(…, asClient = true, …)` and `collectPackageRefs`'
  `walkRefRoot` are `walk` / `collect` on this graph. Go computes `ClientProperties()` on demand,
  this computes it for every object up front: the same on `FlatLinked` graphs.
-/
namespace J5V.Pipe
open J5V.Compile J5V.Go

/-- `properties = append(properties, children...)` after the rest of the loop: the first failure
(of the part in front) wins -/
def appendO (a b : Option (Outcome (List Prop'))) : Option (Outcome (List Prop')) :=
  match a with
  | none => none
  | some (.err e) => some (.err e)
  | some (.panic w) => some (.panic w)
  | some (.ok cs) =>
    match b with
    | none => none
    | some (.err e) => some (.err e)
    | some (.panic w) => some (.panic w)
    | some (.ok rest) => some (.ok (cs ++ rest))

/-- the loop over `s.Properties`; `rec r` = client properties of the flattened object `r` -/
def expandWith (rec : Nat → Option (Outcome (List Prop'))) (flattening : List Nat) :
    List Prop' → Option (Outcome (List Prop'))
  | [] => some (.ok [])
  | p :: ps =>
    let here : Option (Outcome (List Prop')) :=
      match p.flat, p.field with
      | true, .object r => if flattening.contains r then some (.ok [p]) else rec r
      | _, _ => some (.ok [p])
    appendO here (expandWith rec flattening ps)

/-- `(*ObjectSchema).clientProperties(flattening)` for the object `i` -/
def clientPropsFuel (g : Graph) : Nat → List Nat → Nat → Option (Outcome (List Prop'))
  | 0, _, _ => none
  | fuel + 1, flattening, i =>
    match g[i]? with
    | none => some (.panic "nil-schema")
    | some node =>
      match node.kind with
      | .object =>
        expandWith (fun r => clientPropsFuel g fuel (i :: flattening) r) (i :: flattening) node.props
      | _ => some (.panic "type-assertion")

/-- `ClientProperties()` of the schema `i`: objects are flattened, oneofs keep their properties -/
def clientProps (g : Graph) (i : Nat) (node : Node) : Option (Outcome (List Prop')) :=
  match node.kind with
  | .object => clientPropsFuel g (g.length + 1) [] i
  | _ => some (.ok node.props)

/-- the schema set as the client sees it, node by node (index `i` upwards) -/
def clientNodesFrom (g : Graph) : Nat → List Node → Option (Outcome (List Node))
  | _, [] => some (.ok [])
  | i, n :: ns =>
    match clientProps g i n with
    | none => none
    | some (.err e) => some (.err e)
    | some (.panic w) => some (.panic w)
    | some (.ok ps) =>
      match clientNodesFrom g (i + 1) ns with
      | none => none
      | some (.err e) => some (.err e)
      | some (.panic w) => some (.panic w)
      | some (.ok rest) => some (.ok ({ n with props := ps } :: rest))

def clientGraph (g : Graph) : Option (Outcome Graph) := clientNodesFrom g 0 g

/-- `ToJ5ClientObject()` of a request body or response body: the client properties of an object
that is no node of the graph (the `<Method>Request` / `<Method>Response` message, or the clone
`fillRequest` makes of it) — nothing can refer back to it, so the `flattening` guard starts empty -/
def clientMessageProps (g : Graph) (props : List Prop') : Option (Outcome (List Prop')) :=
  expandWith (fun r => clientPropsFuel g (g.length + 1) [] r) [] props

/-- a flattened object field refers to an object of the graph -/
def Prop'.flatOk (g : Graph) (p : Prop') : Bool :=
  match p.flat, p.field with
  | true, .object r =>
    match g[r]? with
    | some n => n.kind == .object
    | none => false
  | _, _ => true

/-- no flattened property points outside the graph or at something that is no object -/
def FlatLinked (g : Graph) : Prop := ∀ node ∈ g, ∀ p ∈ node.props, p.flatOk g = true

instance (g : Graph) : Decidable (FlatLinked g) := by
  unfold FlatLinked
  exact List.decidableBAll _ _

end J5V.Pipe
