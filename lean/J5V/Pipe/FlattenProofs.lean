import J5V.Pipe.Flatten
import J5V.Pipe.WalkProofs
/-! # Lemmas for C16: `ClientProperties()` terminates, and is total on `FlatLinked` graphs -/
namespace J5V.Pipe
open J5V.Go J5V.Compile

/-! ## termination -/

theorem appendO_isSome (a b : Option (Outcome (List Prop'))) (ha : a.isSome = true) (hb : b.isSome = true) :
    (appendO a b).isSome = true := by
  unfold appendO
  cases a with
  | none => simp at ha
  | some o =>
    cases o with
    | err e => simp
    | panic w => simp
    | ok cs =>
      cases b with
      | none => simp at hb
      | some o2 => cases o2 <;> simp

theorem expandWith_isSome (rec : Nat → Option (Outcome (List Prop'))) (flattening : List Nat)
    (hrec : ∀ r, flattening.contains r = false → (rec r).isSome = true) (props : List Prop') :
    (expandWith rec flattening props).isSome = true := by
  induction props with
  | nil => simp [expandWith]
  | cons p ps ih =>
    unfold expandWith
    simp only []
    apply appendO_isSome _ _ _ ih
    cases hf : p.flat with
    | false => simp
    | true =>
      cases hfield : p.field with
      | object r =>
        simp only []
        cases hc : flattening.contains r with
        | true => simp
        | false => simpa using hrec r hc
      | scalar => simp
      | oneof r => simp
      | enum r => simp
      | array e => simp
      | map e => simp

/-- with the `flattening` guard, fuel `|g| + 1 - |flattening|` is enough -/
theorem clientPropsFuel_isSome (g : Graph) : ∀ fuel flattening i, PathInv g flattening →
    flattening.contains i = false → g.length + 1 ≤ fuel + flattening.length →
    (clientPropsFuel g fuel flattening i).isSome = true := by
  intro fuel
  induction fuel with
  | zero =>
    intro flattening i hinv _ hb
    have := hinv.length_le
    omega
  | succ fuel ih =>
    intro flattening i hinv hc hb
    unfold clientPropsFuel
    cases hn : g[i]? with
    | none => simp
    | some node =>
      simp only []
      cases hk : node.kind with
      | object =>
        simp only []
        apply expandWith_isSome
        intro r hr
        apply ih
        · exact hinv.cons hc hn
        · exact hr
        · simp only [List.length_cons]; omega
      | oneof => simp
      | enum => simp

theorem clientProps_isSome (g : Graph) (i : Nat) (node : Node) : (clientProps g i node).isSome = true := by
  unfold clientProps
  cases node.kind with
  | object => exact clientPropsFuel_isSome g _ [] i ⟨List.nodup_nil, by simp⟩ (by simp) (by simp)
  | oneof => simp
  | enum => simp

theorem clientNodesFrom_isSome (g : Graph) : ∀ (ns : List Node) (i : Nat), (clientNodesFrom g i ns).isSome = true := by
  intro ns
  induction ns with
  | nil => intro i; simp [clientNodesFrom]
  | cons n ns ih =>
    intro i
    unfold clientNodesFrom
    cases h1 : clientProps g i n with
    | none => have := clientProps_isSome g i n; rw [h1] at this; simp at this
    | some o =>
      cases o with
      | err e => simp
      | panic w => simp
      | ok ps =>
        simp only []
        cases h2 : clientNodesFrom g (i + 1) ns with
        | none => have := ih (i + 1); rw [h2] at this; simp at this
        | some o2 => cases o2 <;> simp

/-! ## totality on `FlatLinked` graphs: an `.ok` list, made of properties of the graph -/

/-- every property of the list is a property of some schema of the graph -/
def FromGraph (g : Graph) (ps : List Prop') : Prop := ∀ p ∈ ps, ∃ node ∈ g, p ∈ node.props

theorem expandWith_ok (g : Graph) (rec : Nat → Option (Outcome (List Prop'))) (flattening : List Nat)
    (props : List Prop') (hfrom : FromGraph g props)
    (hrec : ∀ p ∈ props, p.flat = true → ∀ r, p.field = .object r → flattening.contains r = false →
      ∃ cs, rec r = some (.ok cs) ∧ FromGraph g cs) :
    ∃ out, expandWith rec flattening props = some (.ok out) ∧ FromGraph g out := by
  induction props with
  | nil => exact ⟨[], rfl, by intro p hp; simp at hp⟩
  | cons p ps ih =>
    obtain ⟨rest, hrest, hfr⟩ := ih (fun q hq => hfrom q (List.mem_cons_of_mem _ hq))
      (fun q hq => hrec q (List.mem_cons_of_mem _ hq))
    have keep : ∃ out, appendO (some (.ok [p])) (expandWith rec flattening ps) = some (.ok out)
        ∧ FromGraph g out := by
      refine ⟨[p] ++ rest, by simp [appendO, hrest], ?_⟩
      intro q hq
      rcases List.mem_append.mp hq with h | h
      · simp at h; subst h; exact hfrom q (by simp)
      · exact hfr q h
    unfold expandWith
    simp only []
    cases hf : p.flat with
    | false => simpa using keep
    | true =>
      cases hfield : p.field with
      | object r =>
        simp only []
        cases hc : flattening.contains r with
        | true => simpa using keep
        | false =>
          obtain ⟨cs, hcs, hfc⟩ := hrec p (by simp) hf r hfield hc
          simp only [Bool.false_eq_true, if_false, hcs, hrest, appendO]
          refine ⟨cs ++ rest, rfl, ?_⟩
          intro q hq
          rcases List.mem_append.mp hq with h | h
          · exact hfc q h
          · exact hfr q h
      | scalar => simpa using keep
      | oneof r => simpa using keep
      | enum r => simpa using keep
      | array e => simpa using keep
      | map e => simpa using keep

theorem flatOk_target {g : Graph} {p : Prop'} {r : Nat} (h : p.flatOk g = true) (hf : p.flat = true)
    (hfield : p.field = .object r) : ∃ n, g[r]? = some n ∧ n.kind = .object := by
  unfold Prop'.flatOk at h
  rw [hf, hfield] at h
  simp only [] at h
  cases hn : g[r]? with
  | none => rw [hn] at h; simp at h
  | some n =>
    rw [hn] at h
    refine ⟨n, rfl, ?_⟩
    cases hk : n.kind <;> simp [hk] at h ⊢

theorem clientPropsFuel_ok (g : Graph) (hl : FlatLinked g) : ∀ fuel flattening i node, PathInv g flattening →
    flattening.contains i = false → g[i]? = some node → node.kind = .object →
    g.length + 1 ≤ fuel + flattening.length →
    ∃ ps, clientPropsFuel g fuel flattening i = some (.ok ps) ∧ FromGraph g ps := by
  intro fuel
  induction fuel with
  | zero =>
    intro flattening i node hinv _ _ _ hb
    have := hinv.length_le
    omega
  | succ fuel ih =>
    intro flattening i node hinv hc hn hk hb
    unfold clientPropsFuel
    rw [hn]
    simp only [hk]
    have hmem : node ∈ g := List.mem_of_getElem? hn
    apply expandWith_ok g
    · intro p hp; exact ⟨node, hmem, hp⟩
    · intro p hp hf r hfield hr
      obtain ⟨n, hnr, hkr⟩ := flatOk_target (hl node hmem p hp) hf hfield
      apply ih (i :: flattening) r n
      · exact hinv.cons hc hn
      · exact hr
      · exact hnr
      · exact hkr
      · simp only [List.length_cons]; omega

theorem clientProps_ok (g : Graph) (hl : FlatLinked g) (i : Nat) (node : Node) (hn : g[i]? = some node) :
    ∃ ps, clientProps g i node = some (.ok ps) ∧ FromGraph g ps := by
  unfold clientProps
  have hmem : node ∈ g := List.mem_of_getElem? hn
  cases hk : node.kind with
  | object =>
    exact clientPropsFuel_ok g hl _ [] i node ⟨List.nodup_nil, by simp⟩ (by simp) hn hk (by simp)
  | oneof => exact ⟨node.props, rfl, fun p hp => ⟨node, hmem, hp⟩⟩
  | enum => exact ⟨node.props, rfl, fun p hp => ⟨node, hmem, hp⟩⟩

/-- the client view keeps the nodes (number, order, kinds); every property is one of the graph -/
structure ClientView (g : Graph) (ns cns : List Node) : Prop where
  len : cns.length = ns.length
  kinds : ∀ (j : Nat) (n c : Node), ns[j]? = some n → cns[j]? = some c → c.kind = n.kind
  props : ∀ c ∈ cns, FromGraph g c.props

theorem clientNodesFrom_ok (g : Graph) (hl : FlatLinked g) : ∀ (ns : List Node) (i : Nat),
    (∀ j n, ns[j]? = some n → g[i + j]? = some n) →
    ∃ cns, clientNodesFrom g i ns = some (.ok cns) ∧ ClientView g ns cns := by
  intro ns
  induction ns with
  | nil => intro i _; exact ⟨[], rfl, ⟨rfl, by intro j n c h; simp at h, by intro c hc; simp at hc⟩⟩
  | cons n ns ih =>
    intro i hidx
    obtain ⟨ps, hps, hfrom⟩ := clientProps_ok g hl i n (by simpa using hidx 0 n (by simp))
    obtain ⟨rest, hrest, hv⟩ := ih (i + 1) (by
      intro j m hj
      have := hidx (j + 1) m (by simpa using hj)
      rw [← this]; congr 1; omega)
    unfold clientNodesFrom
    simp only [hps, hrest]
    refine ⟨_, rfl, ⟨by simp [hv.len], ?_, ?_⟩⟩
    · intro j m c hm hc
      cases j with
      | zero => simp at hm hc; subst hm; subst hc; rfl
      | succ j => exact hv.kinds j m c (by simpa using hm) (by simpa using hc)
    · intro c hc
      rcases List.mem_cons.mp hc with e | e
      · subst e; exact hfrom
      · exact hv.props c e

theorem clientGraph_ok (g : Graph) (hl : FlatLinked g) :
    ∃ cg, clientGraph g = some (.ok cg) ∧ ClientView g g cg :=
  clientNodesFrom_ok g hl g 0 (by intro j n h; simpa using h)

/-- resolved references stay resolved in the client view -/
theorem ClientView.linked {g cg : Graph} (hv : ClientView g g cg) (h : Linked g) : Linked cg := by
  intro node hnode p hp r hd
  obtain ⟨node', hn', hp'⟩ := hv.props node hnode p hp
  rw [hv.len]
  exact h node' hn' p hp' r hd

end J5V.Pipe
