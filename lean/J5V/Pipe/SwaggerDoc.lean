import J5V.Pipe.Swagger
import J5V.Pipe.Client
import J5V.Pipe.Split
/-!
# C16 — the OpenAPI document: `BuildSwagger` / `Document.addService` / `Document.addMethod`
(`internal/export/convert.go`, `internal/export/swagger.go`) on top of the client API (core only)

Two layers.

**The client API as `BuildSwagger` reads it** (`ClientAPI`): per declared service its methods (verb,
path, path parameters, query parameters, request body, response body) and the schema map. It is
produced by the model's client builder `buildClient`, which composes what is already modelled:
`fillRequest`'s split on the request's own properties (`splitProps`, by `pathParamNames`), the body
and the response through `ToJ5ClientObject()` (`clientMessageProps`: flattened object fields show
the client properties of their object), path and query parameters as they are (`ToJ5Proto()`), and
the schema map = `collectPackageRefs` (`clientSchemas`, whose roots are the *raw* properties of
request and response: `walkRootObject` ranges over `schema.Properties`), each schema rendered by
`ToJ5ClientRoot()` (objects with their client properties: the node of the client view).

**The document** (`Document`): `addMethod` builds one operation per method — parameters = path
parameters (`in: path`, required) then query parameters (`in: query`, required as declared), each
through `convertSchema`; request body through `convertObjectItem` when the method has one; the
`200` response with the response body through `convertObjectItem` when there is one — stopping at
the first conversion error; the operation is filed under its path (`addOperation` = `addOp` of
`Swagger.lean` on whole operations). Then every schema of the schema map goes through
`ConvertRootSchema` into `components.schemas` under `<package>.<key>`.

In the client API every object / oneof / enum field is a *reference* (`ObjectField.ToJ5Field()` …
always emit `…_Ref{Package, Schema}`; inline schemas were hoisted to named ones when the source was
read), so a field of the schema graph converts through `Field.toSField`; the graph does not
distinguish the scalar kinds, `.str` stands for the ten scalar arms of `convertSchema` (none
recurses or fails: `C16_swagger_convert_total`). A `$ref` is `#/definitions/<package>.<schema>`;
here it is the index of the node it names (`Field.target?`), and a component's key is its index.
-/
namespace J5V.Pipe
open J5V.Compile J5V.Go

/-! ## the client API -/

/-- `client_j5pb.Method` as far as `addMethod` reads it (`Request` is never nil: `Method.ToJ5Proto`
always sets it) -/
structure ApiMethod where
  name : Str
  verb : Verb
  path : Str
  pathParams : List Prop'
  queryParams : List Prop'
  body : Option (List Prop')
  response : Option (List Prop')
  deriving Repr, DecidableEq

structure ApiService where
  name : Str
  methods : List ApiMethod
  deriving Repr, DecidableEq

/-- the packages' `services` (declared services only: `BuildSwagger` does not look at the services
of state entities) and the union of their `schemas` maps: (node index, client-view node) -/
structure ClientAPI where
  services : List ApiService
  schemas : List (Nat × Node)
  deriving Repr, DecidableEq

/-! ## the model's client builder -/

/-- a declared method as the source API gives it: request and response message properties -/
structure MethodIn where
  name : Str
  verb : Verb
  path : Str
  req : List Prop'
  resp : Option (List Prop')
  deriving Repr, DecidableEq

structure ServiceIn where
  name : Str
  methods : List MethodIn
  deriving Repr, DecidableEq

def MethodIn.roots (m : MethodIn) : MethodRoots :=
  { request := m.req.map (·.field), response := m.resp.map (·.map (·.field)) }

/-- `fillRequest` on the properties themselves: (path parameters, the rest) -/
def splitProps (path : Str) (props : List Prop') : List Prop' × List Prop' :=
  let names := pathParamNames path
  (props.filter (fun p => names.contains p.name), props.filter (fun p => !names.contains p.name))

def bindOO {α β} (a : Option (Outcome α)) (f : α → Option (Outcome β)) : Option (Outcome β) :=
  match a with
  | none => none
  | some (.err e) => some (.err e)
  | some (.panic w) => some (.panic w)
  | some (.ok x) => f x

def mapMOO {α β} (f : α → Option (Outcome β)) : List α → Option (Outcome (List β))
  | [] => some (.ok [])
  | a :: as => bindOO (f a) fun b => bindOO (mapMOO f as) fun bs => some (.ok (b :: bs))

/-- `ToJ5ClientObject()` of an optional message -/
def clientMessage? (g : Graph) : Option (List Prop') → Option (Outcome (Option (List Prop')))
  | none => some (.ok none)
  | some ps => bindOO (clientMessageProps g ps) fun cs => some (.ok (some cs))

def buildMethod (g : Graph) (m : MethodIn) : Option (Outcome ApiMethod) :=
  let (pathProps, rest) := splitProps m.path m.req
  bindOO (if m.verb.hasBody then clientMessage? g (some rest) else some (.ok none)) fun body =>
  bindOO (clientMessage? g m.resp) fun response =>
  some (.ok { name := m.name, verb := m.verb, path := m.path, pathParams := pathProps,
              queryParams := if m.verb.hasBody then [] else rest, body, response })

def buildService (g : Graph) (s : ServiceIn) : Option (Outcome ApiService) :=
  bindOO (mapMOO (buildMethod g) s.methods) fun ms => some (.ok { name := s.name, methods := ms })

def packageRoots (services : List ServiceIn) (entities : List EntityRoots) : PackageRoots :=
  { entities, services := services.map fun s => s.methods.map MethodIn.roots }

/-- the client API of a package: `none` = fuel exhausted (never) -/
def buildClient (g : Graph) (services : List ServiceIn) (entities : List EntityRoots) :
    Option (Outcome ClientAPI) :=
  bindOO (mapMOO (buildService g) services) fun svcs =>
  bindOO (clientGraph g) fun cg =>
  bindOO (clientSchemas g (packageRoots services entities)) fun s =>
  some (.ok { services := svcs, schemas := s.filterMap fun i => (cg[i]?).map fun n => (i, n) })

/-! ## the document -/

/-- `ToJ5Field()`: what `convertSchema` gets for a field of the schema set -/
def Field.toSField : Field → SField
  | .scalar => .str
  | .object _ => .objRef
  | .oneof _ => .oneofRef
  | .enum _ => .enumRef
  | .array e => .array e.toSField
  | .map e => .map e.toSField

/-- a converted schema: the canonical description (`convertSchema`) and the `$ref` below it -/
structure DSchema where
  desc : String
  ref : Option Nat
  deriving Repr, DecidableEq

def convertField (f : Field) : Outcome DSchema :=
  match convertSchema f.toSField with
  | .ok d => .ok { desc := d, ref := f.target? }
  | .err e => .err e
  | .panic w => .panic w

/-- the property loop of `convertObjectItem` / `convertOneofItem`: first error wins -/
def convertPropList : List Prop' → Outcome (List (Str × DSchema))
  | [] => .ok []
  | p :: ps =>
    match convertField p.field with
    | .ok s =>
      match convertPropList ps with
      | .ok rest => .ok ((p.name, s) :: rest)
      | .err e => .err e
      | .panic w => .panic w
    | .err e => .err e
    | .panic w => .panic w

inductive ParamIn where
  | path | query
  deriving Repr, DecidableEq

structure DParam where
  name : Str
  loc : ParamIn
  required : Bool
  schema : DSchema
  deriving Repr, DecidableEq

/-- `required` of a query parameter is the property's own flag, which the graph does not carry:
`false` here, never compared -/
def convertParams (loc : ParamIn) : List Prop' → Outcome (List DParam)
  | [] => .ok []
  | p :: ps =>
    match convertField p.field with
    | .ok s =>
      match convertParams loc ps with
      | .ok rest => .ok ({ name := p.name, loc, required := loc == .path, schema := s } :: rest)
      | .err e => .err e
      | .panic w => .panic w
    | .err e => .err e
    | .panic w => .panic w

/-- `out.Properties[prop.Name] = &ObjectProperty{…}` inside the loop: `Properties` is a Go map, a
later property of the same name replaces an earlier one (it happens: a flattened field's child
may carry the JSON name of a sibling) -/
def lastWins : List (Str × DSchema) → List (Str × DSchema)
  | [] => []
  | x :: xs => if xs.any (fun y => y.1 = x.1) then lastWins xs else x :: lastWins xs

def convertBody? : Option (List Prop') → Outcome (Option (List (Str × DSchema)))
  | none => .ok none
  | some ps =>
    match convertPropList ps with
    | .ok xs => .ok (some (lastWins xs))
    | .err e => .err e
    | .panic w => .panic w

structure DOperation where
  verb : Verb
  path : Str
  service : Str
  method : Str
  params : List DParam
  body : Option (List (Str × DSchema))
  response : Option (List (Str × DSchema))
  deriving Repr, DecidableEq

/-- the part of `addMethod` in front of the path grouping -/
def buildOperation (service : Str) (m : ApiMethod) : Outcome DOperation :=
  match convertParams .path m.pathParams with
  | .err e => .err e
  | .panic w => .panic w
  | .ok pp =>
    match convertParams .query m.queryParams with
    | .err e => .err e
    | .panic w => .panic w
    | .ok qp =>
      match convertBody? m.body with
      | .err e => .err e
      | .panic w => .panic w
      | .ok body =>
        match convertBody? m.response with
        | .err e => .err e
        | .panic w => .panic w
        | .ok response =>
          .ok { verb := m.verb, path := m.path, service, method := m.name, params := pp ++ qp, body, response }

abbrev DPathItem := List DOperation

def DPathItem.key : DPathItem → Str
  | [] => []
  | op :: _ => op.path

/-- the loop at the end of `addMethod`, on whole operations -/
def addOperation : List DPathItem → DOperation → List DPathItem
  | [], op => [[op]]
  | item :: rest, op =>
    if DPathItem.key item = op.path then (item ++ [op]) :: rest else item :: addOperation rest op

/-- `ConvertRootSchema`: objects and oneofs through their property loop, enums have no fields -/
def convertRoot (n : Node) : Outcome (List (Str × DSchema)) :=
  match n.kind with
  | .enum => .ok []
  | _ =>
    match convertPropList n.props with
    | .ok xs => .ok (lastWins xs)
    | .err e => .err e
    | .panic w => .panic w

structure Document where
  paths : List DPathItem
  components : List (Nat × List (Str × DSchema))
  deriving Repr, DecidableEq

def addMethods (service : Str) : List DPathItem → List ApiMethod → Outcome (List DPathItem)
  | items, [] => .ok items
  | items, m :: ms =>
    match buildOperation service m with
    | .ok op => addMethods service (addOperation items op) ms
    | .err e => .err e
    | .panic w => .panic w

def addServices : List DPathItem → List ApiService → Outcome (List DPathItem)
  | items, [] => .ok items
  | items, s :: ss =>
    match addMethods s.name items s.methods with
    | .ok items' => addServices items' ss
    | .err e => .err e
    | .panic w => .panic w

def convertComponents : List (Nat × Node) → Outcome (List (Nat × List (Str × DSchema)))
  | [] => .ok []
  | (i, n) :: rest =>
    match convertRoot n with
    | .ok c =>
      match convertComponents rest with
      | .ok cs => .ok ((i, c) :: cs)
      | .err e => .err e
      | .panic w => .panic w
    | .err e => .err e
    | .panic w => .panic w

/-- `BuildSwagger` -/
def buildSwagger (api : ClientAPI) : Outcome Document :=
  match addServices [] api.services with
  | .err e => .err e
  | .panic w => .panic w
  | .ok paths =>
    match convertComponents api.schemas with
    | .err e => .err e
    | .panic w => .panic w
    | .ok components => .ok { paths, components }

/-! ## what the document refers to -/

def propRefs (ps : List (Str × DSchema)) : List Nat := ps.filterMap (·.2.ref)

def DOperation.refs (op : DOperation) : List Nat :=
  op.params.filterMap (·.schema.ref) ++ propRefs (op.body.getD []) ++ propRefs (op.response.getD [])

/-- every `$ref` of the document: operations (parameters, request bodies, responses) and components -/
def Document.refs (d : Document) : List Nat :=
  d.paths.flatten.flatMap DOperation.refs ++ d.components.flatMap fun c => propRefs c.2

def Document.componentKeys (d : Document) : List Nat := d.components.map (·.1)

/-- `methodShortString` -/
def Verb.lower : Verb → String
  | .get => "get" | .post => "post" | .put => "put" | .delete => "delete" | .patch => "patch"

def DOperation.toSOp (op : DOperation) : SOp := { verb := op.verb.lower, path := op.path }

/-- every reference in the graph (through arrays and maps, enum references too) points into it -/
def RefsLinked (g : Graph) : Prop :=
  ∀ node ∈ g, ∀ p ∈ node.props, ∀ r, p.field.target? = some r → r < g.length

instance (g : Graph) : Decidable (RefsLinked g) := by
  unfold RefsLinked
  exact List.decidableBAll _ _

/-- the same for a list of message properties -/
def PropsLinked (g : Graph) (ps : List Prop') : Prop :=
  ∀ p ∈ ps, ∀ r, p.field.target? = some r → r < g.length

instance (g : Graph) (ps : List Prop') : Decidable (PropsLinked g ps) := by
  unfold PropsLinked
  exact List.decidableBAll _ _

def MethodIn.linked (g : Graph) (m : MethodIn) : Prop :=
  PropsLinked g m.req ∧ PropsLinked g (m.resp.getD [])

end J5V.Pipe
