import J5V.Pipe.Flatten
/-!
# C16 — which schemas the client API of a package holds (`collectPackageRefs`, `internal/j5client/j5package.go`) (core only)

`API.ToJ5Proto` fills every package's `schemas` map with what `collectPackageRefs` returns. Its
roots, in order: per state entity the properties of the keys, state and event schemas ("add the
entity fields directly so they don't get missed through flattening"), the methods of its query
service and of its command services; then the exported (`any` member) objects; then the methods
of the declared services. A method contributes the properties of its request body, its path
parameters, its query parameters (together: every request property) and the properties of its
response body (none for a raw response). From a root field `walkRefs` / `walkRefRoot` follow every
reference, through arrays and maps, into the *client* properties of objects (`ClientProperties()`),
the properties of oneofs, and stop at enums: `collect` on the client view of the schema graph.

Not modelled: exported objects (`AnyMember`; the generators have none).
-/
namespace J5V.Pipe
open J5V.Compile J5V.Go

/-- what `walkMethod` looks at -/
structure MethodRoots where
  request : List Field
  response : Option (List Field)
  deriving Repr, DecidableEq

def MethodRoots.fields (m : MethodRoots) : List Field := m.request ++ m.response.getD []

structure EntityRoots where
  keys : List Field
  state : List Field
  event : List Field
  query : List MethodRoots
  commands : List (List MethodRoots)
  deriving Repr, DecidableEq

def EntityRoots.methods (e : EntityRoots) : List MethodRoots := e.query ++ e.commands.flatten

def EntityRoots.fields (e : EntityRoots) : List Field :=
  e.keys ++ e.state ++ e.event ++ e.methods.flatMap MethodRoots.fields

structure PackageRoots where
  entities : List EntityRoots
  services : List (List MethodRoots)
  deriving Repr, DecidableEq

/-- every method of the client package: entity services and declared services -/
def PackageRoots.methods (p : PackageRoots) : List MethodRoots :=
  p.entities.flatMap EntityRoots.methods ++ p.services.flatten

/-- the root fields in the order `collectPackageRefs` visits them -/
def PackageRoots.fields (p : PackageRoots) : List Field :=
  p.entities.flatMap EntityRoots.fields ++ p.services.flatten.flatMap MethodRoots.fields

/-- the schemas of the client API: `collect` over the client view of the graph.
`none` = fuel exhausted (never: `C16_client_schemas_terminates`) -/
def clientSchemas (g : Graph) (p : PackageRoots) : Option (Outcome (List Nat)) :=
  match clientGraph g with
  | none => none
  | some (.err e) => some (.err e)
  | some (.panic w) => some (.panic w)
  | some (.ok cg) =>
    match collect cg p.fields with
    | none => none
    | some s => some (.ok s)

end J5V.Pipe
