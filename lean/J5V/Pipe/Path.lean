import J5V.Compile.Strcase
import J5V.Go.Outcome
/-!
# C16 — the http path rewrite on both sides (core only)

* producer, `internal/j5s/j5convert/service.go` `visitServiceMethodNode`: the resolved j5s path is
  split on `/`; a part starting with `:` must name a request property (else a compile error is
  recorded) and becomes `{` ++ `strcase.ToSnake(name)` ++ `}`; other parts are copied, and (since
  `fix:` 5ac34d8) a compile error is recorded when one contains any of `{ } * :`.
* consumer, `internal/structure/build_package.go` `buildMethod`: the pattern is split on `/`;
  empty parts are copied; a part with first byte `{` and last byte `}` is looked up by *proto
  field name* in the request message and becomes `:` ++ JSON name; any other part containing one
  of `{ } * :` is an error.

Strings are byte lists (`J5V.Compile.Str`). The request message the compiler emits has, for a
property named `n`, proto name `ToSnake n` and explicit JSON name `n` (`j5convert/fields.go`).
-/
namespace J5V.Pipe
open J5V.Compile J5V.Go

/-- `strings.HasPrefix(part, ":")` and `part[1:]` -/
def paramName? : Str → Option Str
  | 58 :: name => some name
  | _ => none

/-- `strings.ContainsAny(part, "{}*:")` -/
def containsSpecial (part : Str) : Bool :=
  part.any (fun c => c == 123 || c == 125 || c == 42 || c == 58)

/-- one part on the producer side: the new part, and whether it is accepted (a parameter must
name a property; a literal part must be free of the bytes special in an http pattern) -/
def rewritePart (props : List Str) (part : Str) : Str × Bool :=
  match paramName? part with
  | some name => (b!"{" ++ toSnake name ++ b!"}", props.contains name)
  | none => (part, !containsSpecial part)

/-- producer: `:name` → `{snake}`. `err` = the compiler's "missing field … in request" or
"invalid path part". -/
def rewrite (props : List Str) (path : Str) : Outcome Str :=
  let rs := (splitOnByte 47 path).map (rewritePart props)
  if rs.all (·.2) then .ok (joinWith b!"/" (rs.map (·.1))) else .err "invalid-path"

/-- a field of the request message as the consumer sees it -/
structure PField where
  name : Str
  json : Str
  deriving Repr, DecidableEq

/-- `Fields().ByName(n)` -/
def fieldByName (fields : List PField) (n : Str) : Option PField :=
  fields.find? (fun f => f.name == n)

def isBraced (part : Str) : Bool :=
  part.head? == some 123 && part.getLast? == some 125

/-- one part on the consumer side -/
def unrewritePart (fields : List PField) (part : Str) : Outcome Str :=
  if part = [] then .ok part
  else if isBraced part then
    if part.length < 2 then .panic "slice bounds out of range"   -- `part[1:len(part)-1]`
    else
      match fieldByName fields ((part.drop 1).dropLast) with
      | none => .err "path-field-not-found"
      | some f => .ok (58 :: f.json)
  else if containsSpecial part then .err "invalid-path-part"
  else .ok part

def unrewriteParts (fields : List PField) : List Str → Outcome (List Str)
  | [] => .ok []
  | p :: ps =>
    match unrewritePart fields p with
    | .ok q =>
      match unrewriteParts fields ps with
      | .ok qs => .ok (q :: qs)
      | .err e => .err e
      | .panic w => .panic w
    | .err e => .err e
    | .panic w => .panic w

/-- consumer: `{snake}` → `:jsonName` -/
def unrewrite (fields : List PField) (pattern : Str) : Outcome Str :=
  match unrewriteParts fields (splitOnByte 47 pattern) with
  | .ok qs => .ok (joinWith b!"/" qs)
  | .err e => .err e
  | .panic w => .panic w

/-- the request message fields the compiler emits for the declared property names -/
def fieldsOf (props : List Str) : List PField :=
  props.map fun n => { name := toSnake n, json := n }

/-! ## the side conditions of the round trip, as decidable predicates -/

/-- every literal (non-parameter) part of the path is free of the four bytes the consumer gives a
meaning to. The compiler checks this since `fix:` 5ac34d8 (it did not at the pinned commit:
finding `path:literal-rejected-downstream`). -/
def LiteralsClean (path : Str) : Prop :=
  ∀ part ∈ splitOnByte 47 path, paramName? part = none → containsSpecial part = false

instance (path : Str) : Decidable (LiteralsClean path) := by unfold LiteralsClean; infer_instance

/-- distinct request properties get distinct proto field names. Holds for every package the
compiler accepts: protobuf rejects a message with two fields of one name. -/
def SnakeInjective (props : List Str) : Prop :=
  ∀ a ∈ props, ∀ b ∈ props, toSnake a = toSnake b → a = b

instance (props : List Str) : Decidable (SnakeInjective props) := by
  unfold SnakeInjective; infer_instance

end J5V.Pipe
