import J5V.Pipe.Proofs
set_option linter.unusedSimpArgs false
/-! # Lemmas for C16: path parameters of `path.Join(base, sub)` (base paths of services, the
`/<pkg>/<entity>/q` + `:key/…` paths of entity query services) -/
namespace J5V.Pipe
open J5V.Go J5V.Compile

/-- a path component `path.Clean` keeps as it is -/
def NormalPart (c : Str) : Prop := c ≠ [] ∧ c ≠ b!"." ∧ c ≠ b!".."

/-- one component processed by `cleanGo`; `stack` is the reversed result so far -/
def cleanStep (rooted : Bool) (stack : List Str) (c : Str) : List Str :=
  if c = [] || c = b!"." then stack
  else if c = b!".." then
    match stack with
    | top :: below => if top = b!".." then c :: stack else below
    | [] => if rooted then [] else [c]
  else c :: stack

/-- the stack `cleanGo` ends with (its result, before the final `reverse`) -/
def cleanStack (rooted : Bool) (stack : List Str) (cs : List Str) : List Str :=
  cs.foldl (cleanStep rooted) stack

theorem cleanGo_eq_cleanStack (rooted : Bool) : ∀ (cs stack : List Str),
    cleanGo rooted stack cs = (cleanStack rooted stack cs).reverse := by
  intro cs
  induction cs with
  | nil => intro stack; simp [cleanGo, cleanStack]
  | cons c cs ih =>
    intro stack
    unfold cleanStack at ih ⊢
    by_cases h1 : (c = [] || c = b!".") = true
    · simp only [cleanGo, List.foldl_cons, cleanStep, h1, if_true]; exact ih _
    · by_cases h2 : c = b!".."
      · cases stack with
        | nil =>
          cases rooted with
          | true => simp only [cleanGo, List.foldl_cons, cleanStep, h1, h2, if_true, if_false]; exact ih _
          | false =>
            simp only [cleanGo, List.foldl_cons, cleanStep, h1, h2, if_true, if_false, Bool.false_eq_true]
            exact ih _
        | cons top below =>
          by_cases h3 : top = b!".."
          · simp only [cleanGo, List.foldl_cons, cleanStep, h1, h2, h3, if_true, if_false]; exact ih _
          · simp only [cleanGo, List.foldl_cons, cleanStep, h1, h2, h3, if_true, if_false]; exact ih _
      · simp only [cleanGo, List.foldl_cons, cleanStep, h1, h2, if_false]; exact ih _

theorem cleanStack_append (rooted : Bool) (cs ds stack : List Str) :
    cleanStack rooted stack (cs ++ ds) = cleanStack rooted (cleanStack rooted stack cs) ds := by
  simp [cleanStack, List.foldl_append]

theorem cleanStep_normal (rooted : Bool) (stack : List Str) (d : Str) (h : NormalPart d) :
    cleanStep rooted stack d = d :: stack := by
  obtain ⟨h1, h2, h3⟩ := h
  simp [cleanStep, h1, h2, h3]

theorem cleanStack_normal (rooted : Bool) : ∀ (ds stack : List Str), (∀ d ∈ ds, NormalPart d) →
    cleanStack rooted stack ds = ds.reverse ++ stack := by
  intro ds
  induction ds with
  | nil => intro stack _; simp [cleanStack]
  | cons d ds ih =>
    intro stack h
    have := ih (d :: stack) (fun x hx => h x (List.mem_cons_of_mem _ hx))
    unfold cleanStack at this ⊢
    simp only [List.foldl_cons, cleanStep_normal rooted stack d (h d (by simp))]
    rw [this]; simp

theorem cleanStep_mem (rooted : Bool) (stack : List Str) (c : Str) :
    ∀ x ∈ cleanStep rooted stack c, x ∈ stack ∨ x = c := by
  intro x hx
  unfold cleanStep at hx
  split at hx
  · exact Or.inl hx
  · split at hx
    · cases stack with
      | nil =>
        simp only [] at hx
        split at hx
        · simp at hx
        · simp at hx; exact Or.inr hx
      | cons top below =>
        simp only [] at hx
        split at hx
        · rcases List.mem_cons.mp hx with e | e
          · exact Or.inr e
          · exact Or.inl e
        · exact Or.inl (List.mem_cons_of_mem _ hx)
    · rcases List.mem_cons.mp hx with e | e
      · exact Or.inr e
      · exact Or.inl e

/-- what is left on the stack was on it before or is one of the components -/
theorem cleanStack_mem (rooted : Bool) : ∀ (cs stack : List Str), ∀ x ∈ cleanStack rooted stack cs,
    x ∈ stack ∨ x ∈ cs := by
  intro cs
  induction cs with
  | nil => intro stack x hx; simp [cleanStack] at hx; exact Or.inl hx
  | cons c cs ih =>
    intro stack x hx
    unfold cleanStack at hx ih
    simp only [List.foldl_cons] at hx
    rcases ih _ x hx with h | h
    · rcases cleanStep_mem rooted stack c x h with h' | h'
      · exact Or.inl h'
      · exact Or.inr (by simp [h'])
    · exact Or.inr (List.mem_cons_of_mem _ h)

theorem splitOnByte_append_sep' (c : Nat) : ∀ (a b : Str),
    splitOnByte c (a ++ c :: b) = splitOnByte c a ++ splitOnByte c b := by
  intro a
  induction a with
  | nil => intro b; simp [splitOnByte]
  | cons v vs ih =>
    intro b
    simp only [List.cons_append]
    by_cases hv : v = c
    · subst hv
      rw [splitOnByte, splitOnByte]
      simp [ih b]
    · rw [splitOnByte]
      conv => rhs; rw [splitOnByte]
      simp only [hv, if_false]
      rw [ih b]
      cases hs : splitOnByte c vs with
      | nil => exact absurd hs (splitOnByte_ne_nil c vs)
      | cons p ps => simp

theorem paramName?_nil : paramName? [] = none := rfl

/-- the path parameters of a cleaned path are those of its components -/
theorem pathParamNames_of_parts (pre : Str) (comps : List Str) (hpre : pre = [] ∨ pre = b!"/")
    (hc : ∀ p ∈ comps, (47 : Nat) ∉ p) :
    pathParamNames (pre ++ joinWith b!"/" comps) = comps.filterMap paramName? := by
  unfold pathParamNames
  have hsplit : (splitOnByte 47 (joinWith b!"/" comps)).filterMap paramName? = comps.filterMap paramName? := by
    cases comps with
    | nil => simp [joinWith, splitOnByte, paramName?]
    | cons a rest => rw [show (b!"/" : Str) = [47] from rfl, splitOnByte_joinWith 47 _ (by simp) hc]
  rcases hpre with h | h
  · subst h; simpa using hsplit
  · subst h
    have : b!"/" ++ joinWith b!"/" comps = ([] : Str) ++ 47 :: joinWith b!"/" comps := rfl
    rw [this, splitOnByte_append_sep']
    simp only [splitOnByte, List.filterMap_append, List.filterMap_cons, paramName?_nil, List.filterMap_nil,
      List.nil_append]
    exact hsplit

theorem joinWith_ne_nil (sep : Str) : ∀ (ds : List Str), ds ≠ [] → (∀ d ∈ ds, d ≠ []) → joinWith sep ds ≠ [] := by
  intro ds hne hd
  cases ds with
  | nil => exact absurd rfl hne
  | cons a rest =>
    have ha := hd a (by simp)
    cases a with
    | nil => exact absurd rfl ha
    | cons x xs =>
      cases rest with
      | nil => simp [joinWith]
      | cons b bs => rw [joinWith_cons_cons]; simp

theorem joinWith_eq_nil_filterMap (comps : List Str) (h : joinWith b!"/" comps = []) :
    comps.filterMap paramName? = [] := by
  cases comps with
  | nil => rfl
  | cons a rest =>
    cases rest with
    | nil =>
      simp [joinWith] at h
      subst h; rfl
    | cons b bs =>
      rw [joinWith_cons_cons] at h
      simp at h

/-- the text `path.Clean` puts together from the components it kept -/
def cleanOut (rooted : Bool) (comps : List Str) : Str :=
  let out := (if rooted then b!"/" else []) ++ joinWith b!"/" comps
  if out = [] then b!"." else out

theorem pathClean_eq_cleanOut (p : Str) (hp : p ≠ []) :
    pathClean p = cleanOut (decide (p.head? = some 47)) (cleanGo (decide (p.head? = some 47)) [] (splitOnByte 47 p)) := by
  unfold pathClean cleanOut
  simp only [hp, if_false, decide_eq_true_eq]

theorem pathParamNames_cleanOut (rooted : Bool) (comps : List Str) (hc : ∀ p ∈ comps, (47 : Nat) ∉ p) :
    pathParamNames (cleanOut rooted comps) = comps.filterMap paramName? := by
  unfold cleanOut
  simp only []
  cases rooted with
  | true =>
    simp only [if_true]
    rw [if_neg (by simp)]
    exact pathParamNames_of_parts b!"/" comps (Or.inr rfl) hc
  | false =>
    simp only [Bool.false_eq_true, if_false, List.nil_append]
    by_cases hj : joinWith b!"/" comps = []
    · rw [if_pos hj, joinWith_eq_nil_filterMap comps hj]
      simp [pathParamNames, splitOnByte, paramName?]
    · rw [if_neg hj]
      exact pathParamNames_of_parts [] comps (Or.inl rfl) hc

/-- `path.Clean` of a non-empty path: path parameters = those of the components `cleanGo` keeps -/
theorem pathParamNames_pathClean (p : Str) (hp : p ≠ []) :
    pathParamNames (pathClean p)
      = (cleanGo (decide (p.head? = some 47)) [] (splitOnByte 47 p)).filterMap paramName? := by
  rw [pathClean_eq_cleanOut p hp]
  apply pathParamNames_cleanOut
  intro x hx
  rw [cleanGo_eq_cleanStack] at hx
  rcases cleanStack_mem _ _ _ x (List.mem_reverse.mp hx) with h | h
  · simp at h
  · exact splitOnByte_no_sep 47 p x h

/-- **path parameters of `path.Join(base, sub)`** when no component of the base path is a parameter
and the components of the sub path are ordinary (not empty, `.` or `..`): exactly the parameters of
the sub path, in order -/
theorem pathParamNames_join (base : Str) (ds : List Str) (hb : base ≠ [])
    (hds : ∀ d ∈ ds, NormalPart d ∧ (47 : Nat) ∉ d)
    (hbase : ∀ c ∈ splitOnByte 47 base, paramName? c = none) :
    pathParamNames (pathJoin [base, joinWith b!"/" ds]) = ds.filterMap paramName? := by
  have hbaseParts : ∀ (rooted : Bool) x, x ∈ cleanStack rooted [] (splitOnByte 47 base) → paramName? x = none := by
    intro rooted x hx
    rcases cleanStack_mem rooted _ _ x hx with h | h
    · simp at h
    · exact hbase x h
  cases ds with
  | nil =>
    have : pathJoin [base, joinWith b!"/" []] = pathClean base := by
      simp [pathJoin, joinWith, hb]
    rw [this, pathParamNames_pathClean base hb, cleanGo_eq_cleanStack]
    simp only [List.filterMap_nil]
    apply List.filterMap_eq_nil_iff.mpr
    intro x hx
    exact hbaseParts _ x (List.mem_reverse.mp hx)
  | cons d ds' =>
    have hsub : joinWith b!"/" (d :: ds') ≠ [] :=
      joinWith_ne_nil _ _ (by simp) (fun x hx => (hds x hx).1.1)
    have hjoin : pathJoin [base, joinWith b!"/" (d :: ds')]
        = pathClean (base ++ 47 :: joinWith b!"/" (d :: ds')) := by
      unfold pathJoin
      simp only [List.filter_cons, ne_eq, hb, not_false_eq_true, decide_true, if_true, hsub, List.filter_nil]
      simp [joinWith]
    have hne : base ++ 47 :: joinWith b!"/" (d :: ds') ≠ [] := by simp
    have hhead : (base ++ 47 :: joinWith b!"/" (d :: ds')).head? = base.head? := by
      cases base with
      | nil => exact absurd rfl hb
      | cons v vs => rfl
    rw [hjoin, pathParamNames_pathClean _ hne, splitOnByte_append_sep', cleanGo_eq_cleanStack,
      cleanStack_append, hhead]
    rw [show (b!"/" : Str) = [47] from rfl, splitOnByte_joinWith 47 (d :: ds') (by simp) (fun x hx => (hds x hx).2)]
    rw [cleanStack_normal _ _ _ (fun x hx => (hds x hx).1)]
    simp only [List.reverse_append, List.reverse_reverse, List.filterMap_append]
    have : (cleanStack (decide (base.head? = some 47)) [] (splitOnByte 47 base)).reverse.filterMap paramName? = [] := by
      apply List.filterMap_eq_nil_iff.mpr
      intro x hx
      exact hbaseParts _ x (List.mem_reverse.mp hx)
    rw [this]; simp

end J5V.Pipe

namespace J5V.Pipe
open J5V.Go J5V.Compile

/-! ## request split with flattened body properties -/

theorem filter_map_name (props : List ReqProp) (f : Str → Bool) :
    (props.filter (fun p => f p.name)).map (·.name) = (props.map (·.name)).filter f := by
  induction props with
  | nil => rfl
  | cons p ps ih =>
    simp only [List.filter_cons, List.map_cons]
    cases f p.name <;> simp [ih]

theorem bodyNames_unflat (props : List ReqProp) (h : ∀ p ∈ props, p.flat = none) :
    bodyNames props = props.map (·.name) := by
  induction props with
  | nil => rfl
  | cons p ps ih =>
    have hp := h p (by simp)
    have := ih (fun q hq => h q (List.mem_cons_of_mem _ hq))
    simp only [bodyNames, List.flatMap_cons, List.map_cons] at this ⊢
    rw [this, hp]; rfl

theorem fillRequestFlat_path (hb : Bool) (path : Str) (props : List ReqProp) :
    (fillRequestFlat hb path props).path = (fillRequest hb path (props.map (·.name))).path := by
  unfold fillRequestFlat fillRequest
  cases hb <;> simp only [if_true, Bool.false_eq_true, if_false] <;>
    exact filter_map_name props (fun n => (pathParamNames path).contains n)

theorem fillRequestFlat_query (hb : Bool) (path : Str) (props : List ReqProp) :
    (fillRequestFlat hb path props).query = (fillRequest hb path (props.map (·.name))).query := by
  unfold fillRequestFlat fillRequest
  cases hb <;> simp only [if_true, Bool.false_eq_true, if_false]
  exact filter_map_name props (fun n => !(pathParamNames path).contains n)

theorem fillRequestFlat_body (hb : Bool) (path : Str) (props : List ReqProp) :
    (fillRequestFlat hb path props).body =
      if hb then some (bodyNames (props.filter (fun p => !(pathParamNames path).contains p.name))) else none := by
  unfold fillRequestFlat
  cases hb <;> simp

theorem fillRequestFlat_unflat (hb : Bool) (path : Str) (props : List ReqProp) (h : ∀ p ∈ props, p.flat = none) :
    fillRequestFlat hb path props = fillRequest hb path (props.map (·.name)) := by
  have hrest : bodyNames (props.filter (fun p => !(pathParamNames path).contains p.name))
      = (props.map (·.name)).filter (fun n => !(pathParamNames path).contains n) := by
    rw [bodyNames_unflat _ (fun p hp => h p (List.mem_filter.mp hp).1)]
    exact filter_map_name props (fun n => !(pathParamNames path).contains n)
  have hpath := filter_map_name props (fun n => (pathParamNames path).contains n)
  have hq := filter_map_name props (fun n => !(pathParamNames path).contains n)
  unfold fillRequestFlat fillRequest
  cases hb
  · simp only [Bool.false_eq_true, if_false]
    rw [hpath, hq]
  · simp only [if_true]
    rw [hpath, hrest]

end J5V.Pipe
