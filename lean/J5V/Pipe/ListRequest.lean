import J5V.Pipe.Flatten
import J5V.Pipe.List
/-!
# C16 — `buildListRequest` (`internal/j5client/list.go`) on the schema graph (core only)

`fillRequest` calls it for every method whose request has a property of type
`j5.list.v1.QueryRequest`, with the method's response object:

1. the response has to be there (a raw `HttpBody` response: error since `fix:` d14b8cb, nil
   pointer dereference before);
2. among the response's `Properties` (not the client properties) exactly one is an array
   (`found multiple arrays` / `no array found`), and its items are an object field
   (`expected object schema`);
3. `WalkSchemaFields(item schema, asClient = true, callback)`: the callback files the property's
   path under filterable / sortable / searchable according to its kind and list rules (the rule
   table `listEffect`, carried in the property's `tag`), and fails on an enum default filter that
   names no option (`tagBadDefault`).

The walk is `walk` on the client view of the graph (`clientGraph`). `Resolves` says what it means
for a collected path to resolve in the response item schema.
-/
namespace J5V.Pipe
open J5V.Compile J5V.Go

/-- bit 8 of a property's tag: an enum field with filtering rules whose default filters fail
`defaultFiltersOk` (the callback returns `unknown enum value`) -/
def tagBadDefault (t : Nat) : Bool := t / 8 % 2 == 1

structure ListRequest where
  filter : List (List Str)
  sort : List (List Str)
  search : List (List Str)
  deriving Repr, DecidableEq

/-- the response's array properties, in order (`field.Schema.(*j5schema.ArrayField)`), among the
properties it is given: `buildListRequest` ranges over `responseObj.Properties` — the response's own
properties, a flattened object field counting as one object property — exactly like the compiler's
`checkListMethod` (`method.Response.Properties`); neither looks at `ClientProperties()` -/
def arrayElems : List Prop' → List Field
  | [] => []
  | p :: ps =>
    match p.field with
    | .array e => e :: arrayElems ps
    | _ => arrayElems ps

/-- step 2: the schema of the items -/
def listItemSchema (g : Graph) (resp : List Prop') : Outcome Nat :=
  match arrayElems resp with
  | [] => .err "no-array-found"
  | [.object r] =>
    match g[r]? with
    | none => .panic "nil-schema"
    | some n => if n.kind = .object then .ok r else .panic "type-assertion"
  | [_] => .err "expected-object-schema"
  | _ :: _ :: _ => .err "found-multiple-arrays"

/-- step 3, the callback applied to the visits in order -/
def fileVisits : List Visit → Outcome ListRequest
  | [] => .ok { filter := [], sort := [], search := [] }
  | v :: vs =>
    if tagBadDefault v.tag then .err "unknown-enum-value"
    else
      match fileVisits vs with
      | .ok lr => .ok {
          filter := if tagFilter v.tag then v.path :: lr.filter else lr.filter
          sort := if tagSort v.tag then v.path :: lr.sort else lr.sort
          search := if tagSearch v.tag then v.path :: lr.search else lr.search }
      | .err e => .err e
      | .panic w => .panic w

/-- `buildListRequest(response)`; `resp = none` is the method without response body;
`none` = fuel exhausted (never: `C16_list_request_terminates`) -/
def buildListRequest (g : Graph) (resp : Option (List Prop')) : Option (Outcome ListRequest) :=
  match resp with
  | none => some (.err "no-response-body")
  | some props =>
    match listItemSchema g props with
    | .err e => some (.err e)
    | .panic w => some (.panic w)
    | .ok root =>
      match clientGraph g with
      | none => none
      | some (.err e) => some (.err e)
      | some (.panic w) => some (.panic w)
      | some (.ok cg) =>
        match walk cg root with
        | none => none
        | some (.err e) => some (.err e)
        | some (.panic w) => some (.panic w)
        | some (.ok vs) => some (fileVisits vs)

/-- what the response of a list method has to look like: exactly one array, of objects of the graph -/
def ListShaped (g : Graph) (resp : Option (List Prop')) : Bool :=
  match resp with
  | none => false
  | some props =>
    match arrayElems props with
    | [.object r] =>
      match g[r]? with
      | some n => n.kind == .object
      | none => false
    | _ => false

/-- the producer's check (`checkListMethod` in `internal/j5s/j5convert/service.go`, since `fix:`
57821b0), run for every method whose request has a `j5.list.v1.QueryRequest` property: there is a
response, and among its declared properties exactly one is an array, whose items are an object
field (a reference or an inline object) -/
def compileListShapeOk (resp : Option (List Prop')) : Bool :=
  match resp with
  | none => false
  | some props =>
    match arrayElems props with
    | [.object _] => true
    | _ => false

/-- what the schema reader gives for the response of a compiled method: the object field of an
array's items refers to an object of the schema set (`assertRefsLink` + the reader's typing of
`ObjectField.Ref`) -/
def ItemRefsOk (g : Graph) (props : List Prop') : Prop :=
  ∀ r, .object r ∈ arrayElems props → ∃ n, g[r]? = some n ∧ n.kind = .object

/-- no property of the graph carries the "bad enum default" mark -/
def NoBadDefaults (g : Graph) : Prop := ∀ node ∈ g, ∀ p ∈ node.props, tagBadDefault p.tag = false

instance (g : Graph) : Decidable (NoBadDefaults g) := by
  unfold NoBadDefaults
  exact List.decidableBAll _ _

/-- the path `names` leads, through the (client) properties of `root` and object / oneof fields,
to a property with the field `f` and tag `t` -/
inductive Resolves (g : Graph) : Nat → List Str → Field → Nat → Prop
  | leaf {root node p} : g[root]? = some node → p ∈ node.walkProps →
      Resolves g root [p.name] p.field p.tag
  | deeper {root node p r rest f t} : g[root]? = some node → p ∈ node.walkProps →
      p.field.descend? = some r → Resolves g r rest f t → Resolves g root (p.name :: rest) f t

end J5V.Pipe
