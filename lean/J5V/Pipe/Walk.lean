import J5V.Compile.Str
import J5V.Go.Outcome
/-!
# C16 — schema walks over a graph with cycles (core only)

A schema set is a finite graph: node `i` is a root schema (object / oneof / enum) with its
properties; a property's field is a scalar, a reference to a node (as object, oneof or enum
field), or an array / map of a field. An index outside the graph is a reference that was never
linked (`Ref.To == nil`).

* `walkOld`  — `lib/j5schema/schema_walk.go` `walkSchemaFields` as it was at the pinned commit:
  no memory of the schemas being walked. Modelled with fuel; `none` = fuel exhausted.
* `walkFuel` / `walk` — the same function after the repair (`fix:` 93cab0c): the schemas on the
  current path are carried along and a schema that is already being walked is not entered again.
* `collectFuel` / `collect` — `internal/j5client/j5package.go` `collectPackageRefs`: depth-first
  over every reference (through arrays and maps too) with the result map as the visited set.
* `linkFuel` — `lib/j5schema/schema_set.go` `assertRefsLink`: the same traversal with a `seen` set,
  failing on the first unlinked reference.

`ClientProperties()` flattening (`asClient` with `flatten` object fields) is in `Flatten.lean`: the
client view of a schema set is again a graph (`clientGraph`), and the walks here run on it.
-/
namespace J5V.Pipe
open J5V.Compile J5V.Go

inductive Field where
  | scalar
  | object (ref : Nat)
  | oneof (ref : Nat)
  | enum (ref : Nat)
  | array (elem : Field)
  | map (elem : Field)
  deriving Repr, DecidableEq, Inhabited

inductive RootKind where
  | object | oneof | enum
  deriving Repr, DecidableEq

/-- `tag` stands for whatever else the property carries and the callback looks at (its list
rules); the walks never inspect it. `flat` = the object field is marked `flatten`
(`ObjectField.Flatten`): only `ClientProperties()` (`J5V.Pipe.clientProps`, `Flatten.lean`) looks at it. -/
structure Prop' where
  name : Str
  field : Field
  tag : Nat := 0
  flat : Bool := false
  deriving Repr, DecidableEq

structure Node where
  kind : RootKind
  props : List Prop'
  deriving Repr, DecidableEq

abbrev Graph := List Node

/-- one callback invocation: the path of JSON names and the property's field -/
structure Visit where
  path : List Str
  field : Field
  tag : Nat := 0
  deriving Repr, DecidableEq

/-- the properties the walk iterates over (`*EnumSchema`: none) -/
def Node.walkProps (n : Node) : List Prop' :=
  match n.kind with
  | .enum => []
  | _ => n.props

/-- the schema a property makes the field walk descend into (object and oneof fields only) -/
def Field.descend? : Field → Option Nat
  | .object r => some r
  | .oneof r => some r
  | _ => none

/-- loop over the properties; `rec` is the recursive call for a descended schema -/
def walkPropsWith (rec : Nat → List Str → Option (Outcome (List Visit))) (path : List Str) :
    List Prop' → Option (Outcome (List Visit))
  | [] => some (.ok [])
  | p :: ps =>
    let pp := path ++ [p.name]
    let here : Visit := { path := pp, field := p.field, tag := p.tag }
    let below : Option (Outcome (List Visit)) :=
      match p.field.descend? with
      | some r => rec r pp
      | none => some (.ok [])
    match below with
    | none => none
    | some (.err e) => some (.err e)
    | some (.panic w) => some (.panic w)
    | some (.ok vs) =>
      match walkPropsWith rec path ps with
      | none => none
      | some (.err e) => some (.err e)
      | some (.panic w) => some (.panic w)
      | some (.ok ws) => some (.ok (here :: vs ++ ws))

/-- the walk as it was before the repair: every object / oneof field is entered, always -/
def walkOld (g : Graph) : Nat → Nat → List Str → Option (Outcome (List Visit))
  | 0, _, _ => none
  | fuel + 1, root, path =>
    match g[root]? with
    | none => some (.err "unsupported-schema-type")
    | some node => walkPropsWith (fun r pp => walkOld g fuel r pp) path node.walkProps

/-- the repaired walk: `walking` = the schemas on the current path -/
def walkFuel (g : Graph) : Nat → Nat → List Str → List Nat → Option (Outcome (List Visit))
  | 0, _, _, _ => none
  | fuel + 1, root, path, walking =>
    if walking.contains root then some (.ok [])
    else
      match g[root]? with
      | none => some (.err "unsupported-schema-type")
      | some node =>
        walkPropsWith (fun r pp => walkFuel g fuel r pp (root :: walking)) path node.walkProps

/-- `WalkSchemaFields(root, …)`: the recursion depth never exceeds the number of schemas + 1
(theorem `C16_walk_terminates`), so this fuel is never exhausted. -/
def walk (g : Graph) (root : Nat) : Option (Outcome (List Visit)) :=
  walkFuel g (g.length + 1) root [] []

/-! ## collecting references -/

/-- the node a field refers to, looking through arrays and maps (`walkRefs`) -/
def Field.target? : Field → Option Nat
  | .scalar => none
  | .object r => some r
  | .oneof r => some r
  | .enum r => some r
  | .array e => e.target?
  | .map e => e.target?

/-- loop over a list of fields (`for _, prop := range … { walkRefs(prop.Schema) }`), threading the
visited set; `rec seen r` is `walkRefRoot` for the schema `r` -/
def collectFieldsWith (rec : List Nat → Nat → Option (List Nat)) :
    List Nat → List Field → Option (List Nat)
  | seen, [] => some seen
  | seen, f :: fs =>
    let after : Option (List Nat) :=
      match f.target? with
      | none => some seen
      | some r => rec seen r
    match after with
    | none => none
    | some seen' => collectFieldsWith rec seen' fs

/-- `collectPackageRefs` / `walkRefRoot`: `seen` is the key set of the `schemas` map. An unlinked
reference (index outside the graph) is skipped (`ref.To == nil` → "reference to another API"). -/
def collectFuel (g : Graph) : Nat → List Nat → Nat → Option (List Nat)
  | 0, _, _ => none
  | fuel + 1, seen, r =>
    if seen.contains r then some seen
    else
      match g[r]? with
      | none => some seen
      | some node =>
        collectFieldsWith (fun s r' => collectFuel g fuel s r') (r :: seen)
          (node.walkProps.map (·.field))

/-- the schemas collected from a list of root fields (method request / response properties,
entity keys / state / event properties). The nesting depth never exceeds the number of schemas
(theorem `C16_refs_terminates`), so this fuel is never exhausted. -/
def collect (g : Graph) (roots : List Field) : Option (List Nat) :=
  collectFieldsWith (fun s r => collectFuel g (g.length + 1) s r) [] roots

/-! ## `assertRefsLink` -/

/-- as `collectFieldsWith`, with errors -/
def linkFieldsWith (rec : List Nat → Nat → Option (Outcome (List Nat))) :
    List Nat → List Field → Option (Outcome (List Nat))
  | seen, [] => some (.ok seen)
  | seen, f :: fs =>
    let after : Option (Outcome (List Nat)) :=
      match f.target? with
      | none => some (.ok seen)
      | some r => rec seen r
    match after with
    | none => none
    | some (.err e) => some (.err e)
    | some (.panic w) => some (.panic w)
    | some (.ok seen') => linkFieldsWith rec seen' fs

/-- `walkRef` + `walkRootSchema` of `assertRefsLink`: an unlinked reference is an error -/
def linkFuel (g : Graph) : Nat → List Nat → Nat → Option (Outcome (List Nat))
  | 0, _, _ => none
  | fuel + 1, seen, r =>
    match g[r]? with
    | none => some (.err "unresolved-reference")
    | some node =>
      if seen.contains r then some (.ok seen)
      else linkFieldsWith (fun s r' => linkFuel g fuel s r') (r :: seen) (node.walkProps.map (·.field))

/-- `assertRefsLink` for one package: a fresh `seenSchemas`, then `walkRootSchema` for every schema
of the package (here: every node, in index order — Go ranges over a map, which changes at most
which unresolved reference is reported first). `walkRootSchema` is entered directly, so the start
nodes themselves need no link. -/
def linkRoots (g : Graph) : List Nat → List Nat → Option (Outcome (List Nat))
  | seen, [] => some (.ok seen)
  | seen, r :: rs =>
    match linkFuel g (g.length + 1) seen r with
    | none => none
    | some (.err e) => some (.err e)
    | some (.panic w) => some (.panic w)
    | some (.ok seen') => linkRoots g seen' rs

def linkAll (g : Graph) : Option (Outcome (List Nat)) :=
  linkRoots g [] (List.range g.length)

end J5V.Pipe
