import J5V.Pipe.Path
/-!
# C16 — `fillRequest` (`internal/j5client/package_from_source.go`): path / query / body

The path is split on `/`; every part starting with `:` contributes its remainder to the set of
path parameter names. The request properties are then walked in order: a property whose JSON
name is in the set is a path parameter, every other one goes to the body (verbs other than GET)
or to the query parameters (GET).
-/
namespace J5V.Pipe
open J5V.Compile

inductive Verb where
  | get | post | put | delete | patch
  deriving Repr, DecidableEq

/-- `HasBody: src.HttpMethod != client_j5pb.HTTPMethod_GET` -/
def Verb.hasBody : Verb → Bool
  | .get => false
  | _ => true

/-- names after `:` of the parameter parts, in path order -/
def pathParamNames (path : Str) : List Str :=
  (splitOnByte 47 path).filterMap paramName?

structure Request where
  path : List Str
  query : List Str
  body : Option (List Str)
  deriving Repr, DecidableEq

def fillRequest (hasBody : Bool) (path : Str) (props : List Str) : Request :=
  let names := pathParamNames path
  let pathProps := props.filter (fun p => names.contains p)
  let rest := props.filter (fun p => !names.contains p)
  if hasBody then { path := pathProps, query := [], body := some rest }
  else { path := pathProps, query := rest, body := none }

/-- every place a property can land in, flattened -/
def Request.all (r : Request) : List Str := r.path ++ r.query ++ r.body.getD []

/-! ## flattened object fields in the request

`fillRequest` sorts the request's own `Properties` (a flattened object field is one property, under
its own JSON name). Path and query parameters are emitted as they are (`ToJ5Proto`); the body is
emitted through `Body.ToJ5ClientObject()`, i.e. `ClientProperties()`: a flattened object field in
the body shows as the client properties of its object. -/

/-- a request property: its JSON name and, for a flattened object field, the JSON names of the
client properties of its object (`none` = not flattened) -/
structure ReqProp where
  name : Str
  flat : Option (List Str) := none
  deriving Repr, DecidableEq

/-- names the body shows for a list of body properties -/
def bodyNames (props : List ReqProp) : List Str :=
  props.flatMap fun p => p.flat.getD [p.name]

def fillRequestFlat (hasBody : Bool) (path : Str) (props : List ReqProp) : Request :=
  let names := pathParamNames path
  let pathProps := props.filter (fun p => names.contains p.name)
  let rest := props.filter (fun p => !names.contains p.name)
  if hasBody then { path := pathProps.map (·.name), query := [], body := some (bodyNames rest) }
  else { path := pathProps.map (·.name), query := rest.map (·.name), body := none }

end J5V.Pipe
