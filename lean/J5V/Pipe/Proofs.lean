import J5V.Pipe.Service
import J5V.Pipe.Walk
import J5V.Pipe.List
/-! # Lemmas for C16 (path rewrite, names, request split) -/
namespace J5V.Pipe
open J5V.Go J5V.Compile

/-! ## `strings.Split` / `strings.Join` on one separator byte -/

theorem splitOnByte_ne_nil (c : Nat) (s : Str) : splitOnByte c s ≠ [] := by
  induction s with
  | nil => simp [splitOnByte]
  | cons v rest ih =>
    unfold splitOnByte
    split
    · simp
    · split <;> simp

theorem splitOnByte_no_sep (c : Nat) (s : Str) : ∀ p ∈ splitOnByte c s, c ∉ p := by
  induction s with
  | nil => intro p hp; simp [splitOnByte] at hp; subst hp; simp
  | cons v rest ih =>
    intro p hp
    unfold splitOnByte at hp
    split at hp
    · rcases List.mem_cons.mp hp with h | h
      · subst h; simp
      · exact ih p h
    · rename_i hvc
      split at hp
      · rename_i hnil; exact absurd hnil (splitOnByte_ne_nil c rest)
      · rename_i q qs hq
        rcases List.mem_cons.mp hp with h | h
        · subst h
          intro hm
          rcases List.mem_cons.mp hm with h1 | h1
          · exact hvc h1.symm
          · exact ih q (by rw [hq]; simp) h1
        · exact ih p (by rw [hq]; simp [h])

theorem joinWith_cons_cons (sep a b : Str) (rest : List Str) :
    joinWith sep (a :: b :: rest) = a ++ sep ++ joinWith sep (b :: rest) := by
  simp [joinWith]

theorem joinWith_splitOnByte (c : Nat) (s : Str) : joinWith [c] (splitOnByte c s) = s := by
  induction s with
  | nil => simp [splitOnByte, joinWith]
  | cons v rest ih =>
    unfold splitOnByte
    split
    · rename_i hvc
      cases hsp : splitOnByte c rest with
      | nil => exact absurd hsp (splitOnByte_ne_nil c rest)
      | cons q qs =>
        rw [joinWith_cons_cons, ← hsp, ih]; simp [hvc]
    · split
      · rename_i hnil; exact absurd hnil (splitOnByte_ne_nil c rest)
      · rename_i q qs hq
        rw [hq] at ih
        cases qs with
        | nil => simp [joinWith] at ih ⊢; exact ih
        | cons r rs =>
          rw [joinWith_cons_cons] at ih ⊢
          simp at ih ⊢; exact ih

theorem splitOnByte_append_sep (c : Nat) (a rest : Str) (ha : c ∉ a) :
    splitOnByte c (a ++ c :: rest) = a :: splitOnByte c rest := by
  induction a with
  | nil => simp [splitOnByte]
  | cons v vs ih =>
    have hv : v ≠ c := fun h => ha (by simp [h])
    have hvs : c ∉ vs := fun h => ha (by simp [h])
    simp only [List.cons_append]
    rw [splitOnByte]
    simp [hv, ih hvs]

theorem splitOnByte_no_sep_self (c : Nat) (a : Str) (ha : c ∉ a) : splitOnByte c a = [a] := by
  induction a with
  | nil => simp [splitOnByte]
  | cons v vs ih =>
    have hv : v ≠ c := fun h => ha (by simp [h])
    have hvs : c ∉ vs := fun h => ha (by simp [h])
    rw [splitOnByte]; simp [hv, ih hvs]

/-- splitting a join gives the parts back when no part contains the separator -/
theorem splitOnByte_joinWith (c : Nat) (parts : List Str) (hne : parts ≠ [])
    (h : ∀ p ∈ parts, c ∉ p) : splitOnByte c (joinWith [c] parts) = parts := by
  induction parts with
  | nil => exact absurd rfl hne
  | cons a rest ih =>
    cases rest with
    | nil => simp [joinWith]; exact splitOnByte_no_sep_self c a (h a (by simp))
    | cons b bs =>
      rw [joinWith_cons_cons]
      have : a ++ [c] ++ joinWith [c] (b :: bs) = a ++ c :: joinWith [c] (b :: bs) := by simp
      rw [this, splitOnByte_append_sep c a _ (h a (by simp))]
      rw [ih (by simp) (fun p hp => h p (by simp [hp]))]

/-! ## `ToSnake` never produces a byte that is not in its input, except `_` and lower-cased capitals -/

theorem mem_trimLeft (s : Str) : ∀ c ∈ trimLeft s, c ∈ s := by
  induction s with
  | nil => simp [trimLeft]
  | cons v rest ih =>
    intro c hc
    unfold trimLeft at hc
    split at hc
    · exact List.mem_cons_of_mem _ (ih c hc)
    · exact hc

theorem mem_trimSpace (s : Str) : ∀ c ∈ trimSpace s, c ∈ s := by
  intro c hc
  unfold trimSpace at hc
  have h1 := mem_trimLeft _ c (List.mem_reverse.mp hc)
  exact mem_trimLeft s c (List.mem_reverse.mp h1)

theorem mem_ite_95 {b : Bool} {c : Nat} (h : c ∈ (if b = true then [95] else ([] : List Nat))) :
    c = 95 := by
  cases b <;> simp at h
  exact h

/-- every byte `snakeGo false` writes is `_`, an input byte, or the lower case of an input capital -/
theorem mem_snakeGo (s : Str) : ∀ prev c, c ∈ snakeGo false prev s →
    c = 95 ∨ c ∈ s ∨ ∃ v ∈ s, isCap v = true ∧ c = v + 32 := by
  induction s with
  | nil => intro prev c hc; simp [snakeGo] at hc
  | cons v rest ih =>
    intro prev c hc
    have hw : ∀ w, w = (if (isLow v && false) = true then v - 32 else if (isCap v && !false) = true then v + 32 else v) →
        w = v ∨ (isCap v = true ∧ w = v + 32) := by
      intro w hw
      by_cases hcap : isCap v = true <;> simp [hcap] at hw
      · right; exact ⟨hcap, hw⟩
      · left; exact hw
    have lift : (c = 95 ∨ c ∈ rest ∨ ∃ u ∈ rest, isCap u = true ∧ c = u + 32) →
        (c = 95 ∨ c ∈ v :: rest ∨ ∃ u ∈ v :: rest, isCap u = true ∧ c = u + 32) := by
      rintro (h | h | ⟨u, hu, h⟩)
      · exact Or.inl h
      · exact Or.inr (Or.inl (List.mem_cons_of_mem _ h))
      · exact Or.inr (Or.inr ⟨u, List.mem_cons_of_mem _ hu, h⟩)
    have hwc : ∀ w, (w = v ∨ (isCap v = true ∧ w = v + 32)) → c = w →
        (c = 95 ∨ c ∈ v :: rest ∨ ∃ u ∈ v :: rest, isCap u = true ∧ c = u + 32) := by
      intro w hw hcw
      rcases hw with h | ⟨h1, h2⟩
      · right; left; rw [hcw, h]; simp
      · right; right; exact ⟨v, by simp, h1, by rw [hcw, h2]⟩
    unfold snakeGo at hc
    simp only [] at hc
    cases rest with
    | nil =>
      simp only [List.mem_cons] at hc
      rcases hc with h | h
      · split at h
        · exact Or.inl h
        · exact hwc _ (hw _ rfl) h
      · exact lift (ih _ c h)
    | cons next more =>
      simp only [] at hc
      split at hc
      · rcases List.mem_append.mp hc with h | h
        · rcases List.mem_append.mp h with h | h
          · rcases List.mem_append.mp h with h | h
            · exact Or.inl (mem_ite_95 h)
            · exact hwc _ (hw _ rfl) (by simpa using h)
          · exact Or.inl (mem_ite_95 h)
        · exact lift (ih _ c h)
      · simp only [List.mem_cons] at hc
        rcases hc with h | h
        · split at h
          · exact Or.inl h
          · exact hwc _ (hw _ rfl) h
        · exact lift (ih _ c h)

theorem toSnake_no_slash (s : Str) (h : (47 : Nat) ∉ s) : (47 : Nat) ∉ toSnake s := by
  intro hm
  unfold toSnake at hm
  rcases mem_snakeGo _ none 47 hm with h1 | h1 | ⟨v, hv, hcap, h1⟩
  · omega
  · exact h (mem_trimSpace s 47 h1)
  · unfold isCap at hcap; simp at hcap; omega

/-! ## the path round trip -/

theorem fieldByName_fieldsOf (props : List Str) (name : Str) (hmem : name ∈ props)
    (hinj : SnakeInjective props) :
    fieldByName (fieldsOf props) (toSnake name) = some { name := toSnake name, json := name } := by
  induction props with
  | nil => simp at hmem
  | cons a rest ih =>
    unfold fieldByName fieldsOf
    simp only [List.map_cons, List.find?_cons]
    by_cases h : toSnake a = toSnake name
    · have : a = name := hinj a (by simp) name hmem h
      subst this; simp
    · have hne : name ≠ a := fun e => h (by rw [e])
      have hm : name ∈ rest := by
        rcases List.mem_cons.mp hmem with e | e
        · exact absurd e hne
        · exact e
      have hinj' : SnakeInjective rest := fun x hx y hy e =>
        hinj x (List.mem_cons_of_mem _ hx) y (List.mem_cons_of_mem _ hy) e
      have := ih hm hinj'
      unfold fieldByName fieldsOf at this
      have hb : (toSnake a == toSnake name) = false := by simpa using h
      simp [hb, this]

theorem unrewritePart_param (props : List Str) (name : Str) (hmem : name ∈ props)
    (hinj : SnakeInjective props) :
    unrewritePart (fieldsOf props) (b!"{" ++ toSnake name ++ b!"}") = .ok (58 :: name) := by
  have hform : (b!"{" ++ toSnake name ++ b!"}" : Str) = 123 :: (toSnake name ++ [125]) := by simp
  rw [hform]
  have hbr : isBraced (123 :: (toSnake name ++ [125])) = true := by
    unfold isBraced
    have : (123 :: (toSnake name ++ [125])).getLast? = some 125 := by
      rw [show (123 :: (toSnake name ++ [125])) = (123 :: toSnake name) ++ [125] by simp]
      exact List.getLast?_concat
    simp [this]
  have hinner : ((123 :: (toSnake name ++ [125])).drop 1).dropLast = toSnake name := by
    simp
  unfold unrewritePart
  simp only [hbr, hinner, fieldByName_fieldsOf props name hmem hinj]
  simp

theorem containsSpecial_of_head (part : Str) (h : part.head? = some 123) :
    containsSpecial part = true := by
  cases part with
  | nil => simp at h
  | cons v rest =>
    simp at h; subst h
    simp [containsSpecial]

theorem unrewritePart_literal (fields : List PField) (part : Str)
    (hclean : containsSpecial part = false) : unrewritePart fields part = .ok part := by
  unfold unrewritePart
  by_cases hnil : part = []
  · simp [hnil]
  · have hnb : isBraced part = false := by
      cases hb : isBraced part with
      | false => rfl
      | true =>
        unfold isBraced at hb
        simp only [Bool.and_eq_true, beq_iff_eq] at hb
        rw [containsSpecial_of_head part hb.1] at hclean
        exact absurd hclean (by simp)
    simp [hnil, hnb, hclean]

theorem paramName?_eq_some (part name : Str) (h : paramName? part = some name) : part = 58 :: name := by
  unfold paramName? at h
  split at h
  · simp at h; subst h; rfl
  · simp at h

/-- what `rewrite` says when it succeeds -/
theorem rewrite_ok (props : List Str) (path p' : Str) (h : rewrite props path = .ok p') :
    (∀ part ∈ splitOnByte 47 path, ∀ name, paramName? part = some name → name ∈ props)
    ∧ LiteralsClean path
    ∧ p' = joinWith b!"/" ((splitOnByte 47 path).map (fun part => (rewritePart props part).1)) := by
  unfold rewrite at h
  simp only [] at h
  split at h
  · rename_i hall
    rw [List.all_eq_true] at hall
    refine ⟨?_, ?_, ?_⟩
    · intro part hp name hn
      have := hall (rewritePart props part) (List.mem_map.mpr ⟨part, hp, rfl⟩)
      unfold rewritePart at this
      simp only [hn] at this
      simpa using this
    · intro part hp hn
      have := hall (rewritePart props part) (List.mem_map.mpr ⟨part, hp, rfl⟩)
      unfold rewritePart at this
      simp only [hn] at this
      simpa using this
    · cases h; simp [List.map_map]; rfl
  · cases h

theorem rewritePart_no_slash (props : List Str) (part : Str) (h : (47 : Nat) ∉ part) :
    (47 : Nat) ∉ (rewritePart props part).1 := by
  unfold rewritePart
  cases hn : paramName? part with
  | none => simpa using h
  | some name =>
    have hp := paramName?_eq_some part name hn
    have hname : (47 : Nat) ∉ name := fun hm => h (by rw [hp]; exact List.mem_cons_of_mem _ hm)
    have := toSnake_no_slash name hname
    simp only []
    intro hm
    simp only [List.mem_append, List.mem_cons, List.mem_nil_iff, or_false] at hm
    rcases hm with (h1 | h1) | h1
    · omega
    · exact this h1
    · omega

theorem unrewriteParts_rewritten (props : List Str) (hinj : SnakeInjective props) (parts : List Str)
    (hparam : ∀ part ∈ parts, ∀ name, paramName? part = some name → name ∈ props)
    (hlit : ∀ part ∈ parts, paramName? part = none → containsSpecial part = false) :
    unrewriteParts (fieldsOf props) (parts.map (fun part => (rewritePart props part).1)) = .ok parts := by
  induction parts with
  | nil => simp [unrewriteParts]
  | cons part rest ih =>
    have ih' := ih (fun p hp => hparam p (List.mem_cons_of_mem _ hp))
      (fun p hp => hlit p (List.mem_cons_of_mem _ hp))
    have hone : unrewritePart (fieldsOf props) (rewritePart props part).1 = .ok part := by
      unfold rewritePart
      cases hn : paramName? part with
      | none =>
        simp only []
        exact unrewritePart_literal _ part (hlit part (by simp) hn)
      | some name =>
        simp only []
        rw [unrewritePart_param props name (hparam part (by simp) name hn) hinj,
          paramName?_eq_some part name hn]
    simp only [List.map_cons, unrewriteParts, hone, ih']

theorem rewritten_parts_no_slash (props : List Str) (path : Str) :
    ∀ p ∈ (splitOnByte 47 path).map (fun part => (rewritePart props part).1), (47 : Nat) ∉ p := by
  intro p hp
  obtain ⟨part, hpart, rfl⟩ := List.mem_map.mp hp
  exact rewritePart_no_slash props part (splitOnByte_no_sep 47 path part hpart)

theorem path_roundtrip (props : List Str) (path p' : Str)
    (hinj : SnakeInjective props) (h : rewrite props path = .ok p') :
    unrewrite (fieldsOf props) p' = .ok path := by
  obtain ⟨hparam, hlit, hp'⟩ := rewrite_ok props path p' h
  subst hp'
  unfold unrewrite
  rw [splitOnByte_joinWith 47 _ (by simpa using splitOnByte_ne_nil 47 path)
    (rewritten_parts_no_slash props path)]
  rw [unrewriteParts_rewritten props hinj _ hparam hlit]
  simp only []
  rw [joinWith_splitOnByte]

/-! ### the consumer never reaches the slice expression with a bad range -/

theorem unrewritePart_no_panic (fields : List PField) (part : Str) (w : String) :
    unrewritePart fields part ≠ .panic w := by
  unfold unrewritePart
  by_cases hnil : part = []
  · simp [hnil]
  · simp only [hnil, if_false]
    by_cases hb : isBraced part = true
    · simp only [hb, if_true]
      have hlen : ¬ part.length < 2 := by
        intro hl
        match part, hnil, hl with
        | [v], _, _ =>
          unfold isBraced at hb
          simp at hb
          omega
      simp only [hlen, if_false]
      split <;> simp
    · have hb' : isBraced part = false := by simpa using hb
      simp only [hb', Bool.false_eq_true, if_false]
      split <;> simp

theorem unrewriteParts_no_panic (fields : List PField) (parts : List Str) :
    ∀ w, unrewriteParts fields parts ≠ .panic w := by
  induction parts with
  | nil => simp [unrewriteParts]
  | cons p ps ih =>
    intro w
    unfold unrewriteParts
    cases h1 : unrewritePart fields p with
    | ok q =>
      simp only []
      cases h2 : unrewriteParts fields ps with
      | ok qs => simp
      | err e => simp
      | panic w' => exact absurd h2 (ih w')
    | err e => simp
    | panic w' => exact absurd h1 (unrewritePart_no_panic fields p w')

/-! ## names -/

theorem hasSuffix_append (x suf : Str) : hasSuffix suf (x ++ suf) = true := by
  unfold hasSuffix
  exact List.isSuffixOf_iff_suffix.mpr (List.suffix_append x suf)

theorem getLast?_of_hasSuffix (suf l : Str) (h : hasSuffix suf l = true) (a : Nat)
    (ha : suf.getLast? = some a) : l.getLast? = some a := by
  unfold hasSuffix at h
  obtain ⟨t, rfl⟩ := List.isSuffixOf_iff_suffix.mp h
  rw [List.getLast?_append, ha]; rfl

theorem classify_service (n : Str) : classify (serviceName n) = .service := by
  unfold classify serviceName
  simp [hasSuffix_append]

theorem classify_topic_suffix (x : Str) : classify (x ++ b!"Topic") = .topic := by
  have hlast : (x ++ b!"Topic").getLast? = some 99 := by
    rw [List.getLast?_append]; rfl
  have no (suf : Str) (a : Nat) (ha : suf.getLast? = some a) (hne : a ≠ 99) :
      hasSuffix suf (x ++ b!"Topic") = false := by
    cases h : hasSuffix suf (x ++ b!"Topic") with
    | false => rfl
    | true =>
      have := getLast?_of_hasSuffix suf _ h a ha
      rw [hlast] at this
      cases this; exact absurd rfl hne
  unfold classify
  rw [no b!"Service" 101 rfl (by decide), no b!"Sandbox" 120 rfl (by decide),
    no b!"Events" 115 rfl (by decide), hasSuffix_append]
  simp

theorem classify_topic (n : Str) : classify (topicName n) = .topic := classify_topic_suffix _

theorem acceptMethod_produced (pkg m : Str) (hasResp : Bool) :
    acceptMethod pkg m { pkg := pkg, name := requestName m } (producedOutput pkg m hasResp) = true := by
  unfold acceptMethod producedOutput
  cases hasResp
  · simp only [Bool.false_eq_true, if_false]
    have : (MsgRef.full { pkg := b!"google.api", name := b!"HttpBody" }) = httpBodyFull := by decide
    simp [this]
  · simp

theorem acceptTopicMethod_produced (pkg m : Str) :
    acceptTopicMethod pkg m { pkg := pkg, name := messageName m }
      { pkg := b!"google.protobuf", name := b!"Empty" } = true := by
  unfold acceptTopicMethod
  have : (MsgRef.full { pkg := b!"google.protobuf", name := b!"Empty" }) = emptyFull := by decide
  simp [this]

theorem responseName_not_raw (m : Str) : isRawResponse (responseName m) = false := by
  unfold isRawResponse responseName
  cases h : (m ++ b!"Response" == b!"HttpBody") with
  | false => rfl
  | true =>
    have e : m ++ b!"Response" = b!"HttpBody" := by simpa using h
    have h1 : (m ++ b!"Response").getLast? = some 101 := by rw [List.getLast?_append]; rfl
    rw [e] at h1
    exact absurd h1 (by decide)

theorem httpBody_is_raw (pkg m : Str) : isRawResponse (producedOutput pkg m false).name = true := by
  simp [producedOutput, isRawResponse]

/-! ## request split -/

theorem fillRequest_all_perm (hb : Bool) (path : Str) (props : List Str) :
    (fillRequest hb path props).all.Perm props := by
  unfold fillRequest Request.all
  cases hb <;> simp [List.filter_append_perm]

theorem fillRequest_path (hb : Bool) (path : Str) (props : List Str) :
    (fillRequest hb path props).path = props.filter (fun p => (pathParamNames path).contains p) := by
  unfold fillRequest; cases hb <;> rfl

theorem fillRequest_rest (hb : Bool) (path : Str) (props : List Str) :
    (fillRequest hb path props).query ++ (fillRequest hb path props).body.getD [] =
      props.filter (fun p => !(pathParamNames path).contains p) := by
  unfold fillRequest; cases hb <;> simp

theorem mem_pathParamNames (path name : Str) :
    name ∈ pathParamNames path ↔ ∃ part ∈ splitOnByte 47 path, paramName? part = some name := by
  unfold pathParamNames
  exact List.mem_filterMap

theorem rewrite_ok_of_params (props : List Str) (path : Str)
    (h : ∀ n ∈ pathParamNames path, n ∈ props) (hlit : LiteralsClean path) :
    rewrite props path =
      .ok (joinWith b!"/" ((splitOnByte 47 path).map (fun part => (rewritePart props part).1))) := by
  unfold rewrite
  simp only []
  have hall : ((splitOnByte 47 path).map (rewritePart props)).all (·.2) = true := by
    rw [List.all_eq_true]
    intro x hx
    obtain ⟨part, hp, rfl⟩ := List.mem_map.mp hx
    unfold rewritePart
    cases hn : paramName? part with
    | none => simp only []; simp [hlit part hp hn]
    | some name =>
      simp only []
      exact List.contains_iff_mem.mpr (h name ((mem_pathParamNames path name).mpr ⟨part, hp, hn⟩))
  simp [hall, List.map_map]
  rfl

/-! ## the composed chain -/

theorem mapMOutcome_ok {α β} (f : α → Outcome β) (g : α → β) (l : List α)
    (h : ∀ a ∈ l, f a = .ok (g a)) : mapMOutcome f l = .ok (l.map g) := by
  induction l with
  | nil => rfl
  | cons a as ih =>
    unfold mapMOutcome
    rw [h a (by simp), ih (fun x hx => h x (List.mem_cons_of_mem _ hx))]
    rfl

theorem fieldsOf_json (props : List Str) : (fieldsOf props).map (·.json) = props := by
  induction props with
  | nil => rfl
  | cons a rest ih => unfold fieldsOf at ih ⊢; simp [ih]

/-- the descriptor-level method the compiler emits for a valid declaration -/
def compiledMethod (pkg : Str) (base : Option Str) (m : MethodDecl) : DMethod :=
  { name := m.name
    input := { pkg := pkg, name := requestName m.name }
    output := producedOutput pkg m.name m.hasResp
    verb := m.verb
    pattern := joinWith b!"/" ((splitOnByte 47 (resolvedPath base m.path)).map
      (fun part => (rewritePart m.req part).1))
    fields := fieldsOf m.req }

theorem compileMethod_valid (pkg : Str) (base : Option Str) (m : MethodDecl) (h : ValidMethod base m) :
    compileMethod pkg base m = .ok (compiledMethod pkg base m) := by
  unfold compileMethod
  rw [rewrite_ok_of_params m.req _ h.2.2 h.1]
  rfl

def structuredMethod (base : Option Str) (m : MethodDecl) (pkg : Str) : SMethod :=
  { name := m.name, verb := m.verb, path := resolvedPath base m.path,
    requestSchema := requestName m.name, responseSchema := (producedOutput pkg m.name m.hasResp).name }

theorem structureMethod_valid (pkg : Str) (base : Option Str) (m : MethodDecl) (h : ValidMethod base m) :
    structureMethod pkg (compiledMethod pkg base m) = .ok (structuredMethod base m pkg) := by
  unfold structureMethod
  have hacc : acceptMethod pkg (compiledMethod pkg base m).name (compiledMethod pkg base m).input
      (compiledMethod pkg base m).output = true := acceptMethod_produced pkg m.name m.hasResp
  simp only [hacc, Bool.not_true, Bool.false_eq_true, if_false]
  have hrt : unrewrite (compiledMethod pkg base m).fields (compiledMethod pkg base m).pattern =
      .ok (resolvedPath base m.path) :=
    path_roundtrip m.req _ _ h.2.1 (rewrite_ok_of_params m.req _ h.2.2 h.1)
  rw [hrt]
  rfl

theorem clientMethod_valid (pkg : Str) (base : Option Str) (m : MethodDecl) :
    clientMethod (structuredMethod base m pkg) ((compiledMethod pkg base m).fields.map (·.json)) =
      declaredMethod base m := by
  unfold clientMethod declaredMethod structuredMethod compiledMethod
  simp only [fieldsOf_json]
  cases hr : m.hasResp with
  | false =>
    have : isRawResponse (producedOutput pkg m.name false).name = true := httpBody_is_raw _ _
    simp [this]
  | true =>
    simp [producedOutput, responseName_not_raw]

theorem mapMOutcome_map_ok {α β γ} (f : β → Outcome γ) (c : α → β) (g : α → γ) (l : List α)
    (h : ∀ a ∈ l, f (c a) = .ok (g a)) : mapMOutcome f (l.map c) = .ok (l.map g) := by
  induction l with
  | nil => rfl
  | cons a as ih =>
    simp only [List.map_cons]
    unfold mapMOutcome
    rw [h a (by simp), ih (fun x hx => h x (List.mem_cons_of_mem _ hx))]

theorem mapMOutcome_ok_inv {α β} (f : α → Outcome β) (l : List α) (bs : List β)
    (h : mapMOutcome f l = .ok bs) : ∀ a ∈ l, ∃ b, f a = .ok b := by
  induction l generalizing bs with
  | nil => intro a ha; simp at ha
  | cons x xs ih =>
    intro a ha
    unfold mapMOutcome at h
    cases hx : f x with
    | ok b =>
      simp only [hx] at h
      cases hxs : mapMOutcome f xs with
      | ok bs' =>
        rcases List.mem_cons.mp ha with e | e
        · subst e; exact ⟨b, hx⟩
        · exact ih bs' hxs a e
      | err e => simp [hxs] at h
      | panic w => simp [hxs] at h
    | err e => simp [hx] at h
    | panic w => simp [hx] at h

/-- a method the compiler accepts satisfies the two conditions the compiler checks -/
theorem validMethod_of_compiled (pkg : Str) (base : Option Str) (m : MethodDecl) (d : DMethod)
    (hinj : SnakeInjective m.req) (h : compileMethod pkg base m = .ok d) : ValidMethod base m := by
  unfold compileMethod at h
  cases hr : rewrite m.req (resolvedPath base m.path) with
  | ok pat =>
    obtain ⟨hparam, hlit, _⟩ := rewrite_ok _ _ _ hr
    refine ⟨hlit, hinj, ?_⟩
    intro n hn
    obtain ⟨part, hp, hpn⟩ := (mem_pathParamNames _ n).mp hn
    exact hparam part hp n hpn
  | err e => simp [hr] at h
  | panic w => simp [hr] at h

theorem validService_of_compiled (pkg : Str) (s : ServiceDecl) (d : DService)
    (hinj : ∀ m ∈ s.methods, SnakeInjective m.req) (h : compileService pkg s = .ok d) :
    ValidService s := by
  unfold compileService at h
  cases hm : mapMOutcome (compileMethod pkg s.base) s.methods with
  | ok ms =>
    intro m hmem
    obtain ⟨dm, hdm⟩ := mapMOutcome_ok_inv _ _ _ hm m hmem
    exact validMethod_of_compiled pkg s.base m dm (hinj m hmem) hdm
  | err e => simp [hm] at h
  | panic w => simp [hm] at h

theorem rewrite_no_panic (props : List Str) (path : Str) (w : String) : rewrite props path ≠ .panic w := by
  unfold rewrite
  simp only []
  split <;> simp

theorem mapMOutcome_no_panic {α β} (f : α → Outcome β) (hf : ∀ a w, f a ≠ .panic w) :
    ∀ (l : List α) w, mapMOutcome f l ≠ .panic w := by
  intro l
  induction l with
  | nil => intro w; simp [mapMOutcome]
  | cons a as ih =>
    intro w
    unfold mapMOutcome
    cases ha : f a with
    | ok b =>
      simp only []
      cases has : mapMOutcome f as with
      | ok bs => simp
      | err e => simp
      | panic w2 => exact absurd has (ih w2)
    | err e => simp
    | panic w2 => exact absurd ha (hf a w2)

theorem compileMethod_no_panic (pkg : Str) (base : Option Str) (m : MethodDecl) (w : String) :
    compileMethod pkg base m ≠ .panic w := by
  unfold compileMethod
  cases hr : rewrite m.req (resolvedPath base m.path) with
  | ok pat => simp
  | err e => simp
  | panic w' => exact absurd hr (rewrite_no_panic _ _ w')

theorem compileService_no_panic (pkg : Str) (s : ServiceDecl) (w : String) :
    compileService pkg s ≠ .panic w := by
  unfold compileService
  cases hm : mapMOutcome (compileMethod pkg s.base) s.methods with
  | ok ms => simp
  | err e => simp
  | panic w' => exact absurd hm (mapMOutcome_no_panic _ (compileMethod_no_panic pkg s.base) _ w')

theorem chainService_valid (pkg : Str) (s : ServiceDecl) (h : ValidService s) :
    chainService pkg s = .ok (declaredService s) := by
  unfold chainService compileService
  rw [mapMOutcome_ok _ (compiledMethod pkg s.base) s.methods
    (fun m hm => compileMethod_valid pkg s.base m (h m hm))]
  simp only []
  unfold structureService
  simp only [classify_service]
  rw [mapMOutcome_map_ok (structureMethod pkg) (compiledMethod pkg s.base)
    (fun m => structuredMethod s.base m pkg) s.methods
    (fun m hm => structureMethod_valid pkg s.base m (h m hm))]
  simp only []
  unfold clientService declaredService
  simp only [List.zip_map', List.map_map]
  congr 2
  apply List.map_congr_left
  intro m _
  exact clientMethod_valid pkg s.base m

end J5V.Pipe
