import J5V.Pipe.Service
import J5V.Pipe.Walk
import J5V.Pipe.List
/-! # Lemmas for C16 -/
namespace J5V.Pipe
open J5V.Go J5V.Compile

end J5V.Pipe
