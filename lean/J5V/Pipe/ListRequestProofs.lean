import J5V.Pipe.ListRequest
import J5V.Pipe.FlattenProofs
/-! # Lemmas for C16: `buildListRequest` terminates, is total on list-shaped responses, and every
path it collects resolves in the item schema -/
namespace J5V.Pipe
open J5V.Go J5V.Compile

/-! ## every visit of the walk is a property at the end of its path -/

theorem walkPropsWith_mem (rec : Nat → List Str → Option (Outcome (List Visit))) (path : List Str) :
    ∀ (props : List Prop') (vs : List Visit), walkPropsWith rec path props = some (.ok vs) →
    ∀ v ∈ vs, ∃ p ∈ props,
      v = { path := path ++ [p.name], field := p.field, tag := p.tag } ∨
      ∃ r ws, p.field.descend? = some r ∧ rec r (path ++ [p.name]) = some (.ok ws) ∧ v ∈ ws := by
  intro props
  induction props with
  | nil =>
    intro vs h v hv
    simp [walkPropsWith] at h
    subst h
    simp at hv
  | cons p ps ih =>
    intro vs h v hv
    unfold walkPropsWith at h
    simp only [] at h
    cases hd : p.field.descend? with
    | none =>
      simp only [hd] at h
      cases h2 : walkPropsWith rec path ps with
      | none => simp [h2] at h
      | some o2 =>
        cases o2 with
        | err e => simp [h2] at h
        | panic w => simp [h2] at h
        | ok ws =>
          simp only [h2, Option.some.injEq, Outcome.ok.injEq] at h
          subst h
          simp only [List.cons_append, List.nil_append, List.mem_cons] at hv
          rcases hv with e | hv2
          · exact ⟨p, by simp, Or.inl e⟩
          · obtain ⟨q, hq, hqv⟩ := ih ws h2 v hv2
            exact ⟨q, List.mem_cons_of_mem _ hq, hqv⟩
    | some r =>
      simp only [hd] at h
      cases h1 : rec r (path ++ [p.name]) with
      | none => simp [h1] at h
      | some o1 =>
        cases o1 with
        | err e => simp [h1] at h
        | panic w => simp [h1] at h
        | ok vs' =>
          simp only [h1] at h
          cases h2 : walkPropsWith rec path ps with
          | none => simp [h2] at h
          | some o2 =>
            cases o2 with
            | err e => simp [h2] at h
            | panic w => simp [h2] at h
            | ok ws =>
              simp only [h2, Option.some.injEq, Outcome.ok.injEq] at h
              subst h
              simp only [List.cons_append, List.mem_cons, List.mem_append] at hv
              rcases hv with e | hv1 | hv2
              · exact ⟨p, by simp, Or.inl e⟩
              · exact ⟨p, by simp, Or.inr ⟨r, vs', hd, h1, hv1⟩⟩
              · obtain ⟨q, hq, hqv⟩ := ih ws h2 v hv2
                exact ⟨q, List.mem_cons_of_mem _ hq, hqv⟩

theorem walkFuel_resolves (g : Graph) : ∀ fuel root path walking vs,
    walkFuel g fuel root path walking = some (.ok vs) →
    ∀ v ∈ vs, ∃ suffix, v.path = path ++ suffix ∧ Resolves g root suffix v.field v.tag := by
  intro fuel
  induction fuel with
  | zero => intro root path walking vs h; simp [walkFuel] at h
  | succ fuel ih =>
    intro root path walking vs h v hv
    unfold walkFuel at h
    cases hc : walking.contains root with
    | true =>
      simp only [hc, if_true, Option.some.injEq, Outcome.ok.injEq] at h
      subst h; simp at hv
    | false =>
      simp only [hc, Bool.false_eq_true, if_false] at h
      cases hn : g[root]? with
      | none => simp [hn] at h
      | some node =>
        simp only [hn] at h
        obtain ⟨p, hp, hcase⟩ := walkPropsWith_mem _ path node.walkProps vs h v hv
        rcases hcase with e | ⟨r, ws, hd, hrec, hvw⟩
        · subst e
          exact ⟨[p.name], rfl, Resolves.leaf hn hp⟩
        · obtain ⟨suffix, hpath, hres⟩ := ih r (path ++ [p.name]) (root :: walking) ws hrec v hvw
          refine ⟨p.name :: suffix, ?_, Resolves.deeper hn hp hd hres⟩
          rw [hpath]; simp

theorem walk_resolves (g : Graph) (root : Nat) (vs : List Visit) (h : walk g root = some (.ok vs)) :
    ∀ v ∈ vs, Resolves g root v.path v.field v.tag := by
  intro v hv
  obtain ⟨suffix, hp, hr⟩ := walkFuel_resolves g _ root [] [] vs h v hv
  simp at hp
  rw [hp]; exact hr

/-- the end of a resolved path is a property of some schema of the graph -/
theorem Resolves.prop {g : Graph} {root : Nat} {path : List Str} {f : Field} {t : Nat}
    (h : Resolves g root path f t) : ∃ node ∈ g, ∃ p ∈ node.props, p.field = f ∧ p.tag = t := by
  induction h with
  | leaf hn hp => exact ⟨_, List.mem_of_getElem? hn, _, mem_walkProps _ _ hp, rfl, rfl⟩
  | deeper _ _ _ _ ih => exact ih

/-! ## filing the visits -/

theorem fileVisits_ok (vs : List Visit) (h : ∀ v ∈ vs, tagBadDefault v.tag = false) :
    ∃ lr, fileVisits vs = .ok lr := by
  induction vs with
  | nil => exact ⟨_, rfl⟩
  | cons v vs ih =>
    obtain ⟨lr, hlr⟩ := ih (fun w hw => h w (List.mem_cons_of_mem _ hw))
    unfold fileVisits
    simp [h v (by simp), hlr]

theorem fileVisits_paths (vs : List Visit) (lr : ListRequest) (h : fileVisits vs = .ok lr) :
    ∀ path ∈ lr.filter ++ lr.sort ++ lr.search, ∃ v ∈ vs, v.path = path := by
  induction vs generalizing lr with
  | nil =>
    simp [fileVisits] at h
    subst h
    intro path hp; simp at hp
  | cons v vs ih =>
    unfold fileVisits at h
    cases hb : tagBadDefault v.tag with
    | true => simp [hb] at h
    | false =>
      simp only [hb, Bool.false_eq_true, if_false] at h
      cases hr : fileVisits vs with
      | err e => simp [hr] at h
      | panic w => simp [hr] at h
      | ok lr' =>
        simp only [hr, Outcome.ok.injEq] at h
        subst h
        intro path hp
        have ih' := ih lr' hr
        simp only [List.mem_append] at hp ih'
        have hsplit : ∀ (c : Bool) (l : List (List Str)), path ∈ (if c = true then v.path :: l else l) →
            path = v.path ∨ path ∈ l := by
          intro c l hm
          cases c with
          | true => simpa using hm
          | false => right; simpa using hm
        rcases hp with (hp | hp) | hp
        · rcases hsplit _ _ hp with e | e
          · exact ⟨v, by simp, e.symm⟩
          · obtain ⟨w, hw, hwp⟩ := ih' path (Or.inl (Or.inl e)); exact ⟨w, List.mem_cons_of_mem _ hw, hwp⟩
        · rcases hsplit _ _ hp with e | e
          · exact ⟨v, by simp, e.symm⟩
          · obtain ⟨w, hw, hwp⟩ := ih' path (Or.inl (Or.inr e)); exact ⟨w, List.mem_cons_of_mem _ hw, hwp⟩
        · rcases hsplit _ _ hp with e | e
          · exact ⟨v, by simp, e.symm⟩
          · obtain ⟨w, hw, hwp⟩ := ih' path (Or.inr e); exact ⟨w, List.mem_cons_of_mem _ hw, hwp⟩

/-! ## `buildListRequest` -/

theorem buildListRequest_isSome (g : Graph) (resp : Option (List Prop')) :
    (buildListRequest g resp).isSome = true := by
  unfold buildListRequest
  cases resp with
  | none => simp
  | some props =>
    simp only []
    cases listItemSchema g props with
    | err e => simp
    | panic w => simp
    | ok root =>
      simp only []
      have hcg : (clientGraph g).isSome = true := clientNodesFrom_isSome g g 0
      cases hc : clientGraph g with
      | none => rw [hc] at hcg; simp at hcg
      | some o =>
        cases o with
        | err e => simp
        | panic w => simp
        | ok cg =>
          simp only []
          have hw := walkFuel_isSome cg (cg.length + 1) root [] [] ⟨List.nodup_nil, by simp⟩ (by simp)
          unfold walk
          cases hwk : walkFuel cg (cg.length + 1) root [] [] with
          | none => rw [hwk] at hw; simp at hw
          | some o2 => cases o2 <;> simp

theorem listItemSchema_of_shaped (g : Graph) (props : List Prop') (h : ListShaped g (some props) = true) :
    ∃ root, listItemSchema g props = .ok root ∧ root < g.length := by
  unfold ListShaped at h
  unfold listItemSchema
  simp only [] at h
  cases ha : arrayElems props with
  | nil => simp [ha] at h
  | cons e rest =>
    cases rest with
    | cons e2 rest2 => simp [ha] at h
    | nil =>
      cases e with
      | object r =>
        simp only [ha] at h ⊢
        cases hn : g[r]? with
        | none => simp [hn] at h
        | some n =>
          simp only [hn] at h
          have hk : n.kind = .object := by cases hk : n.kind <;> simp [hk] at h ⊢
          exact ⟨r, by simp [hk], getElem?_some_lt hn⟩
      | scalar => simp [ha] at h
      | oneof r => simp [ha] at h
      | enum r => simp [ha] at h
      | array e => simp [ha] at h
      | map e => simp [ha] at h

/-- whatever `checkListMethod` accepts, `buildListRequest`'s own shape checks accept -/
theorem listShaped_of_compile (g : Graph) (props : List Prop') (h : compileListShapeOk (some props) = true)
    (hk : ItemRefsOk g props) : ListShaped g (some props) = true := by
  unfold compileListShapeOk at h
  unfold ListShaped
  simp only [] at h ⊢
  cases ha : arrayElems props with
  | nil => simp [ha] at h
  | cons e rest =>
    cases rest with
    | cons e2 rest2 => simp [ha] at h
    | nil =>
      cases e with
      | object r =>
        obtain ⟨n, hn, hkind⟩ := hk r (by simp [ha])
        simp [hn, hkind]
      | scalar => simp [ha] at h
      | oneof r => simp [ha] at h
      | enum r => simp [ha] at h
      | array e => simp [ha] at h
      | map e => simp [ha] at h

theorem buildListRequest_ok (g : Graph) (resp : Option (List Prop')) (hs : ListShaped g resp = true)
    (hf : FlatLinked g) (hl : Linked g) (hb : NoBadDefaults g) :
    ∃ lr, buildListRequest g resp = some (.ok lr) := by
  cases resp with
  | none => simp [ListShaped] at hs
  | some props =>
    obtain ⟨root, hroot, hlt⟩ := listItemSchema_of_shaped g props hs
    obtain ⟨cg, hcg, hv⟩ := clientGraph_ok g hf
    obtain ⟨vs, hvs⟩ := walkFuel_ok cg (hv.linked hl) (cg.length + 1) root [] [] ⟨List.nodup_nil, by simp⟩
      (by rw [hv.len]; exact hlt) (by simp)
    have hwalk : walk cg root = some (.ok vs) := hvs
    obtain ⟨lr, hlr⟩ := fileVisits_ok vs (by
      intro v hvm
      obtain ⟨node, hnode, p, hp, _, ht⟩ := (walk_resolves cg root vs hwalk v hvm).prop
      obtain ⟨node', hn', hp'⟩ := hv.props node hnode p hp
      rw [← ht]
      exact hb node' hn' p hp')
    exact ⟨lr, by simp [buildListRequest, hroot, hcg, hwalk, hlr]⟩

theorem buildListRequest_resolves (g : Graph) (props : List Prop') (lr : ListRequest)
    (h : buildListRequest g (some props) = some (.ok lr)) :
    ∃ cg root, clientGraph g = some (.ok cg) ∧ listItemSchema g props = .ok root ∧
      ∀ path ∈ lr.filter ++ lr.sort ++ lr.search, ∃ f t, Resolves cg root path f t := by
  unfold buildListRequest at h
  simp only [] at h
  cases hr : listItemSchema g props with
  | err e => simp [hr] at h
  | panic w => simp [hr] at h
  | ok root =>
    simp only [hr] at h
    cases hc : clientGraph g with
    | none => simp [hc] at h
    | some o =>
      cases o with
      | err e => simp [hc] at h
      | panic w => simp [hc] at h
      | ok cg =>
        simp only [hc] at h
        cases hw : walk cg root with
        | none => simp [hw] at h
        | some o2 =>
          cases o2 with
          | err e => simp [hw] at h
          | panic w => simp [hw] at h
          | ok vs =>
            simp only [hw, Option.some.injEq] at h
            refine ⟨cg, root, rfl, rfl, ?_⟩
            intro path hp
            obtain ⟨v, hv, hvp⟩ := fileVisits_paths vs lr h path hp
            exact ⟨v.field, v.tag, hvp ▸ walk_resolves cg root vs hw v hv⟩

end J5V.Pipe
