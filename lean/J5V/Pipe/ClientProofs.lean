import J5V.Pipe.Client
import J5V.Pipe.FlattenProofs
/-! # Lemmas for C16: the schema set of the client API is complete -/
namespace J5V.Pipe
open J5V.Go J5V.Compile

theorem Reach.mono {g : Graph} {roots roots' : List Field} (h : ∀ f ∈ roots, f ∈ roots') {n : Nat}
    (hr : Reach g roots n) : Reach g roots' n := by
  induction hr with
  | root hf ht hlt => exact .root (h _ hf) ht hlt
  | step _ hab ih => exact .step ih hab

theorem clientSchemas_isSome (g : Graph) (p : PackageRoots) : (clientSchemas g p).isSome = true := by
  unfold clientSchemas
  have hcg : (clientGraph g).isSome = true := clientNodesFrom_isSome g g 0
  cases hc : clientGraph g with
  | none => rw [hc] at hcg; simp at hcg
  | some o =>
    cases o with
    | err e => simp
    | panic w => simp
    | ok cg =>
      simp only []
      obtain ⟨s, hs⟩ := collect_isSome cg p.fields
      simp [hs]

theorem clientSchemas_ok (g : Graph) (p : PackageRoots) (hf : FlatLinked g) :
    ∃ cg s, clientGraph g = some (.ok cg) ∧ clientSchemas g p = some (.ok s) := by
  obtain ⟨cg, hcg, _⟩ := clientGraph_ok g hf
  obtain ⟨s, hs⟩ := collect_isSome cg p.fields
  exact ⟨cg, s, hcg, by simp [clientSchemas, hcg, hs]⟩

theorem mem_fields_of_method (p : PackageRoots) (m : MethodRoots) (hm : m ∈ p.methods) :
    ∀ f ∈ m.fields, f ∈ p.fields := by
  intro f hf
  unfold PackageRoots.methods at hm
  unfold PackageRoots.fields
  rcases List.mem_append.mp hm with h | h
  · obtain ⟨e, he, hme⟩ := List.mem_flatMap.mp h
    apply List.mem_append_left
    apply List.mem_flatMap.mpr
    refine ⟨e, he, ?_⟩
    unfold EntityRoots.fields
    apply List.mem_append_right
    exact List.mem_flatMap.mpr ⟨m, hme, hf⟩
  · apply List.mem_append_right
    exact List.mem_flatMap.mpr ⟨m, h, hf⟩

theorem mem_fields_of_entity (p : PackageRoots) (e : EntityRoots) (he : e ∈ p.entities) :
    ∀ f ∈ e.keys ++ e.state ++ e.event, f ∈ p.fields := by
  intro f hf
  unfold PackageRoots.fields
  apply List.mem_append_left
  apply List.mem_flatMap.mpr
  refine ⟨e, he, ?_⟩
  unfold EntityRoots.fields
  exact List.mem_append_left _ hf

theorem clientSchemas_complete (g cg : Graph) (p : PackageRoots) (s : List Nat)
    (hcg : clientGraph g = some (.ok cg)) (h : clientSchemas g p = some (.ok s)) :
    ∀ n, Reach cg p.fields n → n ∈ s := by
  unfold clientSchemas at h
  simp only [hcg] at h
  cases hc : collect cg p.fields with
  | none => simp [hc] at h
  | some s' =>
    simp only [hc, Option.some.injEq, Outcome.ok.injEq] at h
    subst h
    exact collect_complete cg p.fields s' hc

end J5V.Pipe
