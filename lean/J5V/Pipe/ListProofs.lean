import J5V.Pipe.List
/-! # Lemmas for C16: enum default filters (producer's check ⇒ consumer's check) -/
namespace J5V.Pipe
open J5V.Go J5V.Compile

theorem hasPrefix_append (p s : Str) : hasPrefix p (p ++ s) = true := by
  unfold hasPrefix
  exact List.isPrefixOf_iff_prefix.mpr (List.prefix_append p s)

/-- trimming undoes adding: `TrimPrefix(addPrefix(d)) = TrimPrefix(d)` -/
theorem trimPrefix_addPrefix (pfx d : Str) : trimPrefix pfx (addPrefix pfx d) = trimPrefix pfx d := by
  unfold addPrefix
  by_cases h : hasPrefix pfx d = true
  · simp [h]
  · simp only [h]
    unfold trimPrefix
    simp [hasPrefix_append, h]

theorem hasSuffix_append (p s : Str) : hasSuffix s (p ++ s) = true := by
  unfold hasSuffix
  exact List.isSuffixOf_iff_suffix.mpr (List.suffix_append p s)

theorem trimSuffix_append (p s : Str) : trimSuffix (p ++ s) s = p := by
  unfold trimSuffix
  have := hasSuffix_append p s
  unfold hasSuffix at this
  simp [this]

/-- the schema reader recovers the compiler's prefix from the descriptor the compiler emits -/
theorem readEnum_enumValueNames (pfx : Str) (opts : List Str) :
    readEnum (enumValueNames pfx opts)
      = some (pfx, (enumValueNames pfx opts).map (trimPrefix pfx)) := by
  unfold enumValueNames readEnum
  simp only [hasSuffix_append, trimSuffix_append, if_true]

/-- whatever `mapValues` accepts, `OptionByName` finds (same prefix, same value names) -/
theorem defaultFiltersOk_of_compile (pfx : Str) (vs defaults : List Str)
    (h : compileDefaultsOk pfx vs defaults = true) :
    defaultFiltersOk pfx (vs.map (trimPrefix pfx)) defaults = true := by
  unfold compileDefaultsOk at h
  unfold defaultFiltersOk
  rw [List.all_eq_true] at h ⊢
  intro d hd
  have hmem := List.contains_iff_mem.mp (h d hd)
  apply List.contains_iff_mem.mpr
  rw [← trimPrefix_addPrefix]
  exact List.mem_map_of_mem hmem

theorem enumDefaultsChain_ne_false (pfx : Str) (opts defaults : List Str) :
    enumDefaultsChain pfx opts defaults ≠ some false := by
  unfold enumDefaultsChain
  simp only [readEnum_enumValueNames]
  by_cases h : compileDefaultsOk pfx (enumValueNames pfx opts) defaults = true
  · simp [h, defaultFiltersOk_of_compile pfx _ defaults h]
  · simp [h]

end J5V.Pipe
