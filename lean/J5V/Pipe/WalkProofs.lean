import J5V.Pipe.Walk
/-! # Lemmas for C16: termination and completeness of the schema walks -/
namespace J5V.Pipe
open J5V.Go J5V.Compile

/-- pigeonhole: a duplicate-free list of numbers below `n` has at most `n` elements -/
theorem nodup_length_le (n : Nat) : ∀ l : List Nat, l.Nodup → (∀ x ∈ l, x < n) → l.length ≤ n := by
  induction n with
  | zero =>
    intro l _ hb
    cases l with
    | nil => simp
    | cons a _ => exact absurd (hb a (by simp)) (by omega)
  | succ n ih =>
    intro l hnd hb
    by_cases hm : n ∈ l
    · have h1 := ih (l.erase n) (hnd.erase n) (by
        intro x hx
        have := (hnd.mem_erase_iff).mp hx
        have := hb x this.2
        omega)
      have h2 := List.length_erase_of_mem hm
      omega
    · have := ih l hnd (by
        intro x hx
        have h1 := hb x hx
        have h2 : x ≠ n := fun e => hm (e ▸ hx)
        omega)
      omega

/-- the schemas on the current path: distinct, all inside the graph -/
def PathInv (g : Graph) (walking : List Nat) : Prop :=
  walking.Nodup ∧ ∀ x ∈ walking, x < g.length

theorem PathInv.length_le {g : Graph} {w : List Nat} (h : PathInv g w) : w.length ≤ g.length :=
  nodup_length_le g.length w h.1 h.2

theorem getElem?_some_lt {g : Graph} {i : Nat} {n : Node} (h : g[i]? = some n) : i < g.length := by
  have := List.getElem?_eq_some_iff.mp h
  exact this.1

theorem PathInv.cons {g : Graph} {w : List Nat} {r : Nat} {n : Node} (h : PathInv g w)
    (hr : w.contains r = false) (hn : g[r]? = some n) : PathInv g (r :: w) := by
  refine ⟨List.nodup_cons.mpr ⟨?_, h.1⟩, ?_⟩
  · intro hm
    have : w.contains r = true := List.contains_iff_mem.mpr hm
    rw [hr] at this; exact absurd this (by simp)
  · intro x hx
    rcases List.mem_cons.mp hx with e | e
    · subst e; exact getElem?_some_lt hn
    · exact h.2 x e

/-! ## `walkSchemaFields` -/

theorem walkPropsWith_isSome (rec : Nat → List Str → Option (Outcome (List Visit)))
    (hrec : ∀ r pp, (rec r pp).isSome = true) (path : List Str) (props : List Prop') :
    (walkPropsWith rec path props).isSome = true := by
  induction props with
  | nil => simp [walkPropsWith]
  | cons p ps ih =>
    unfold walkPropsWith
    simp only []
    cases hd : p.field.descend? with
    | none =>
      simp only []
      cases h2 : walkPropsWith rec path ps with
      | none => rw [h2] at ih; simp at ih
      | some o => cases o <;> simp
    | some r =>
      simp only []
      cases h1 : rec r (path ++ [p.name]) with
      | none => have := hrec r (path ++ [p.name]); rw [h1] at this; simp at this
      | some o =>
        cases o with
        | err e => simp
        | panic w => simp
        | ok vs =>
          simp only []
          cases h2 : walkPropsWith rec path ps with
          | none => rw [h2] at ih; simp at ih
          | some o => cases o <;> simp

/-- with the guard, fuel `|g| + 1 - |walking|` is enough -/
theorem walkFuel_isSome (g : Graph) : ∀ fuel root path walking, PathInv g walking →
    g.length + 1 ≤ fuel + walking.length → (walkFuel g fuel root path walking).isSome = true := by
  intro fuel
  induction fuel with
  | zero =>
    intro root path walking hinv hb
    have := hinv.length_le
    omega
  | succ fuel ih =>
    intro root path walking hinv hb
    unfold walkFuel
    cases hc : walking.contains root with
    | true => simp
    | false =>
      simp only [Bool.false_eq_true, if_false]
      cases hn : g[root]? with
      | none => simp
      | some node =>
        simp only []
        apply walkPropsWith_isSome
        intro r pp
        apply ih
        · exact hinv.cons hc hn
        · simp only [List.length_cons]; omega

/-- every reference the field walk can follow points into the graph (`Ref.To != nil` everywhere:
what `assertRefsLink` establishes for a schema set built from a source API) -/
def Linked (g : Graph) : Prop :=
  ∀ node ∈ g, ∀ p ∈ node.props, ∀ r, p.field.descend? = some r → r < g.length

instance (g : Graph) : Decidable (Linked g) := by
  unfold Linked
  exact List.decidableBAll _ _

theorem walkPropsWith_ok (rec : Nat → List Str → Option (Outcome (List Visit))) (path : List Str)
    (props : List Prop')
    (hrec : ∀ p ∈ props, ∀ r, p.field.descend? = some r → ∀ pp, ∃ vs, rec r pp = some (.ok vs)) :
    ∃ vs, walkPropsWith rec path props = some (.ok vs) := by
  induction props with
  | nil => exact ⟨[], rfl⟩
  | cons p ps ih =>
    obtain ⟨ws, hws⟩ := ih (fun q hq => hrec q (List.mem_cons_of_mem _ hq))
    unfold walkPropsWith
    simp only []
    cases hd : p.field.descend? with
    | none => simp only [hws]; exact ⟨_, rfl⟩
    | some r =>
      obtain ⟨vs, hvs⟩ := hrec p (by simp) r hd (path ++ [p.name])
      simp only [hvs, hws]; exact ⟨_, rfl⟩

theorem mem_walkProps (n : Node) : ∀ p ∈ n.walkProps, p ∈ n.props := by
  intro p hp
  unfold Node.walkProps at hp
  cases hk : n.kind <;> simp [hk] at hp <;> exact hp

/-- on a linked graph the repaired walk returns a list of visits (no error) from every schema of
the graph -/
theorem walkFuel_ok (g : Graph) (hl : Linked g) : ∀ fuel root path walking, PathInv g walking →
    root < g.length → g.length + 1 ≤ fuel + walking.length →
    ∃ vs, walkFuel g fuel root path walking = some (.ok vs) := by
  intro fuel
  induction fuel with
  | zero =>
    intro root path walking hinv _ hb
    have := hinv.length_le
    omega
  | succ fuel ih =>
    intro root path walking hinv hroot hb
    unfold walkFuel
    cases hc : walking.contains root with
    | true => exact ⟨[], by simp⟩
    | false =>
      simp only [Bool.false_eq_true, if_false]
      have hn : g[root]? = some g[root] := List.getElem?_eq_getElem hroot
      rw [hn]
      simp only []
      apply walkPropsWith_ok
      intro p hp r hd pp
      apply ih
      · exact hinv.cons hc hn
      · exact hl g[root] (List.getElem_mem hroot) p (mem_walkProps _ p hp) r hd
      · simp only [List.length_cons]; omega

theorem walkPropsWith_mono (rec rec' : Nat → List Str → Option (Outcome (List Visit)))
    (h : ∀ r pp x, rec r pp = some x → rec' r pp = some x) (path : List Str) (props : List Prop') :
    ∀ y, walkPropsWith rec path props = some y → walkPropsWith rec' path props = some y := by
  induction props with
  | nil => intro y hy; simpa [walkPropsWith] using hy
  | cons p ps ih =>
    intro y hy
    unfold walkPropsWith at hy ⊢
    simp only [] at hy ⊢
    cases hd : p.field.descend? with
    | none =>
      simp only [hd] at hy ⊢
      cases h2 : walkPropsWith rec path ps with
      | none => simp [h2] at hy
      | some o => rw [h2] at hy; rw [ih o h2]; exact hy
    | some r =>
      simp only [hd] at hy ⊢
      cases h1 : rec r (path ++ [p.name]) with
      | none => simp [h1] at hy
      | some o =>
        rw [h1] at hy; rw [h r _ o h1]
        cases o with
        | err e => exact hy
        | panic w => exact hy
        | ok vs =>
          simp only [] at hy ⊢
          cases h2 : walkPropsWith rec path ps with
          | none => simp [h2] at hy
          | some o2 => rw [h2] at hy; rw [ih o2 h2]; exact hy

/-- more fuel never changes an answer -/
theorem walkFuel_mono (g : Graph) : ∀ fuel fuel' root path walking x, fuel ≤ fuel' →
    walkFuel g fuel root path walking = some x → walkFuel g fuel' root path walking = some x := by
  intro fuel
  induction fuel with
  | zero => intro fuel' root path walking x _ h; simp [walkFuel] at h
  | succ fuel ih =>
    intro fuel' root path walking x hle h
    cases fuel' with
    | zero => omega
    | succ fuel' =>
      unfold walkFuel at h ⊢
      cases hc : walking.contains root with
      | true => simp only [hc, if_true] at h ⊢; exact h
      | false =>
        simp only [hc, Bool.false_eq_true, if_false] at h ⊢
        cases hn : g[root]? with
        | none => simp only [hn] at h ⊢; exact h
        | some node =>
          simp only [hn] at h ⊢
          exact walkPropsWith_mono _ _ (fun r pp y hy => ih fuel' r pp _ y (by omega) hy) _ _ x h

/-- the walk before the repair, on the one-schema cycle `A { a: object A }`: no fuel is enough -/
def selfLoop : Graph := [{ kind := .object, props := [{ name := b!"a", field := .object 0 }] }]

theorem walkOld_selfLoop_diverges : ∀ fuel path, walkOld selfLoop fuel 0 path = none := by
  intro fuel
  induction fuel with
  | zero => intro path; rfl
  | succ fuel ih =>
    intro path
    unfold walkOld
    simp only [selfLoop, List.getElem?_cons_zero, Node.walkProps, walkPropsWith, Field.descend?]
    have := ih (path ++ [b!"a"])
    simp only [selfLoop] at this
    rw [this]

/-! ## `collectPackageRefs` -/

theorem collectFieldsWith_spec (P : List Nat → Prop) (rec : List Nat → Nat → Option (List Nat))
    (hrec : ∀ s r, P s → ∃ s', rec s r = some s' ∧ P s' ∧ s.length ≤ s'.length) :
    ∀ fs s, P s → ∃ s', collectFieldsWith rec s fs = some s' ∧ P s' ∧ s.length ≤ s'.length := by
  intro fs
  induction fs with
  | nil => intro s hs; exact ⟨s, by simp [collectFieldsWith], hs, Nat.le_refl _⟩
  | cons f fs ih =>
    intro s hs
    unfold collectFieldsWith
    simp only []
    cases ht : f.target? with
    | none =>
      simp only []
      exact ih s hs
    | some r =>
      simp only []
      obtain ⟨s1, h1, hp1, hl1⟩ := hrec s r hs
      rw [h1]
      simp only []
      obtain ⟨s2, h2, hp2, hl2⟩ := ih s1 hp1
      exact ⟨s2, h2, hp2, by omega⟩

theorem collectFuel_isSome (g : Graph) : ∀ fuel seen r, PathInv g seen →
    g.length + 1 ≤ fuel + seen.length →
    ∃ seen', collectFuel g fuel seen r = some seen' ∧ PathInv g seen' ∧ seen.length ≤ seen'.length := by
  intro fuel
  induction fuel with
  | zero =>
    intro seen r hinv hb
    have := hinv.length_le
    omega
  | succ fuel ih =>
    intro seen r hinv hb
    unfold collectFuel
    cases hc : seen.contains r with
    | true => exact ⟨seen, by simp, hinv, Nat.le_refl _⟩
    | false =>
      simp only [Bool.false_eq_true, if_false]
      cases hn : g[r]? with
      | none => exact ⟨seen, by simp, hinv, Nat.le_refl _⟩
      | some node =>
        simp only []
        have hstart : PathInv g (r :: seen) ∧ g.length + 1 ≤ fuel + (r :: seen).length :=
          ⟨hinv.cons hc hn, by simp only [List.length_cons]; omega⟩
        obtain ⟨s', h1, hp, hl⟩ := collectFieldsWith_spec
          (fun s => PathInv g s ∧ g.length + 1 ≤ fuel + s.length)
          (fun s r' => collectFuel g fuel s r')
          (by
            intro s r' hs
            obtain ⟨s', e, hi, hl⟩ := ih s r' hs.1 hs.2
            exact ⟨s', e, ⟨hi, by omega⟩, hl⟩)
          (node.walkProps.map (·.field)) (r :: seen) hstart
        exact ⟨s', h1, hp.1, by simp only [List.length_cons] at hl; omega⟩

theorem collect_isSome (g : Graph) (roots : List Field) : ∃ s, collect g roots = some s := by
  unfold collect
  obtain ⟨s', h, _, _⟩ := collectFieldsWith_spec
    (fun s => PathInv g s ∧ g.length + 1 ≤ (g.length + 1) + s.length)
    (fun s r => collectFuel g (g.length + 1) s r)
    (by
      intro s r hs
      obtain ⟨s', e, hi, hl⟩ := collectFuel_isSome g (g.length + 1) s r hs.1 hs.2
      exact ⟨s', e, ⟨hi, by omega⟩, hl⟩)
    roots [] ⟨⟨List.nodup_nil, by simp⟩, by omega⟩
  exact ⟨s', h⟩

/-! ## `assertRefsLink` -/

theorem linkFieldsWith_spec (P : List Nat → Prop) (rec : List Nat → Nat → Option (Outcome (List Nat)))
    (hrec : ∀ s r, P s → (∃ e, rec s r = some (.err e)) ∨
      ∃ s', rec s r = some (.ok s') ∧ P s' ∧ s.length ≤ s'.length) :
    ∀ fs s, P s → (∃ e, linkFieldsWith rec s fs = some (.err e)) ∨
      ∃ s', linkFieldsWith rec s fs = some (.ok s') ∧ P s' ∧ s.length ≤ s'.length := by
  intro fs
  induction fs with
  | nil => intro s hs; exact Or.inr ⟨s, by simp [linkFieldsWith], hs, Nat.le_refl _⟩
  | cons f fs ih =>
    intro s hs
    unfold linkFieldsWith
    simp only []
    cases ht : f.target? with
    | none => simp only []; exact ih s hs
    | some r =>
      simp only []
      rcases hrec s r hs with ⟨e, he⟩ | ⟨s1, h1, hp1, hl1⟩
      · rw [he]; exact Or.inl ⟨e, rfl⟩
      · rw [h1]
        simp only []
        rcases ih s1 hp1 with ⟨e, he⟩ | ⟨s2, h2, hp2, hl2⟩
        · exact Or.inl ⟨e, he⟩
        · exact Or.inr ⟨s2, h2, hp2, by omega⟩

theorem linkFuel_spec (g : Graph) : ∀ fuel seen r, PathInv g seen →
    g.length + 1 ≤ fuel + seen.length →
    (∃ e, linkFuel g fuel seen r = some (.err e)) ∨
      ∃ seen', linkFuel g fuel seen r = some (.ok seen') ∧ PathInv g seen' ∧ seen.length ≤ seen'.length := by
  intro fuel
  induction fuel with
  | zero =>
    intro seen r hinv hb
    have := hinv.length_le
    omega
  | succ fuel ih =>
    intro seen r hinv hb
    unfold linkFuel
    cases hn : g[r]? with
    | none => exact Or.inl ⟨_, rfl⟩
    | some node =>
      simp only []
      cases hc : seen.contains r with
      | true => exact Or.inr ⟨seen, by simp, hinv, Nat.le_refl _⟩
      | false =>
        simp only [Bool.false_eq_true, if_false]
        have hstart : PathInv g (r :: seen) ∧ g.length + 1 ≤ fuel + (r :: seen).length :=
          ⟨hinv.cons hc hn, by simp only [List.length_cons]; omega⟩
        rcases linkFieldsWith_spec
          (fun s => PathInv g s ∧ g.length + 1 ≤ fuel + s.length)
          (fun s r' => linkFuel g fuel s r')
          (by
            intro s r' hs
            rcases ih s r' hs.1 hs.2 with he | ⟨s', e, hi, hl⟩
            · exact Or.inl he
            · exact Or.inr ⟨s', e, ⟨hi, by omega⟩, hl⟩)
          (node.walkProps.map (·.field)) (r :: seen) hstart with he | ⟨s', h1, hp, hl⟩
        · exact Or.inl he
        · exact Or.inr ⟨s', h1, hp.1, by simp only [List.length_cons] at hl; omega⟩

theorem linkRoots_isSome (g : Graph) : ∀ rs seen, PathInv g seen →
    (linkRoots g seen rs).isSome = true := by
  intro rs
  induction rs with
  | nil => intro seen _; simp [linkRoots]
  | cons r rs ih =>
    intro seen hinv
    unfold linkRoots
    rcases linkFuel_spec g (g.length + 1) seen r hinv (by omega) with ⟨e, he⟩ | ⟨s', h1, hp, _⟩
    · rw [he]; rfl
    · rw [h1]; exact ih s' hp

/-! ### completeness: the collected set is closed under "refers to" -/

/-- `a` has a property whose field refers (directly, or through arrays / maps) to the schema `b`,
and `b` is in the graph -/
def Refers (g : Graph) (a b : Nat) : Prop :=
  ∃ node, g[a]? = some node ∧ ∃ p ∈ node.walkProps, p.field.target? = some b ∧ b < g.length

/-- reachable from the root fields -/
inductive Reach (g : Graph) (roots : List Field) : Nat → Prop
  | root {f r} : f ∈ roots → f.target? = some r → r < g.length → Reach g roots r
  | step {a b} : Reach g roots a → Refers g a b → Reach g roots b

/-- everything newly added between `s` and `s'` has all its references in `s'` -/
def ClosedNew (g : Graph) (s s' : List Nat) : Prop :=
  ∀ n ∈ s', n ∉ s → ∀ m, Refers g n m → m ∈ s'

structure CollectSpec (g : Graph) (s : List Nat) (targets : List Nat) (s' : List Nat) : Prop where
  sub : ∀ x ∈ s, x ∈ s'
  hit : ∀ r ∈ targets, r < g.length → r ∈ s'
  closed : ClosedNew g s s'

theorem collectFieldsWith_closed (g : Graph) (rec : List Nat → Nat → Option (List Nat))
    (hrec : ∀ s r s', rec s r = some s' → CollectSpec g s [r] s') :
    ∀ fs s s', collectFieldsWith rec s fs = some s' →
      CollectSpec g s (fs.filterMap Field.target?) s' := by
  intro fs
  induction fs with
  | nil =>
    intro s s' h
    simp [collectFieldsWith] at h
    subst h
    exact ⟨fun _ h => h, by simp, fun n hn hns => absurd hn hns⟩
  | cons f fs ih =>
    intro s s' h
    unfold collectFieldsWith at h
    simp only [] at h
    cases ht : f.target? with
    | none =>
      simp only [ht] at h
      have := ih s s' h
      exact ⟨this.sub, by simpa [List.filterMap_cons, ht] using this.hit, this.closed⟩
    | some r =>
      simp only [ht] at h
      cases h1 : rec s r with
      | none => simp [h1] at h
      | some s1 =>
        simp only [h1] at h
        have a := hrec s r s1 h1
        have b := ih s1 s' h
        refine ⟨fun x hx => b.sub x (a.sub x hx), ?_, ?_⟩
        · intro x hx hlt
          simp only [List.filterMap_cons, ht, List.mem_cons] at hx
          rcases hx with e | e
          · subst e; exact b.sub _ (a.hit x (by simp) hlt)
          · exact b.hit x e hlt
        · intro n hn hns m hm
          by_cases h1n : n ∈ s1
          · exact b.sub m (a.closed n h1n hns m hm)
          · exact b.closed n hn h1n m hm

theorem collectFuel_closed (g : Graph) : ∀ fuel s r s', collectFuel g fuel s r = some s' →
    CollectSpec g s [r] s' := by
  intro fuel
  induction fuel with
  | zero => intro s r s' h; simp [collectFuel] at h
  | succ fuel ih =>
    intro s r s' h
    unfold collectFuel at h
    cases hc : s.contains r with
    | true =>
      simp only [hc, if_true] at h
      cases h
      refine ⟨fun _ h => h, ?_, fun n hn hns => absurd hn hns⟩
      intro x hx _
      simp at hx; subst hx
      exact List.contains_iff_mem.mp hc
    | false =>
      simp only [hc, Bool.false_eq_true, if_false] at h
      cases hn : g[r]? with
      | none =>
        simp only [hn] at h
        cases h
        refine ⟨fun _ h => h, ?_, fun n hn hns => absurd hn hns⟩
        intro x hx hlt
        simp at hx; subst hx
        have : g[x]? ≠ none := by
          intro e
          have := List.getElem?_eq_none_iff.mp e
          omega
        exact absurd hn this
      | some node =>
        simp only [hn] at h
        have sp := collectFieldsWith_closed g (fun s r' => collectFuel g fuel s r')
          (fun s r' s' e => ih s r' s' e) _ _ _ h
        refine ⟨fun x hx => sp.sub x (List.mem_cons_of_mem _ hx), ?_, ?_⟩
        · intro x hx _
          simp at hx; subst hx
          exact sp.sub _ (by simp)
        · intro n hnm hns m hm
          by_cases e : n = r
          · subst e
            obtain ⟨node', hg, p, hp, htp, hlt⟩ := hm
            rw [hn] at hg; cases hg
            apply sp.hit m _ hlt
            simp only [List.filterMap_map, List.mem_filterMap]
            exact ⟨p, hp, by simpa using htp⟩
          · exact sp.closed n hnm (by simp [e, hns]) m hm

theorem collect_complete (g : Graph) (roots : List Field) (s : List Nat)
    (h : collect g roots = some s) : ∀ n, Reach g roots n → n ∈ s := by
  unfold collect at h
  have sp := collectFieldsWith_closed g (fun s r => collectFuel g (g.length + 1) s r)
    (fun s r s' e => collectFuel_closed g _ s r s' e) roots [] s h
  intro n hr
  induction hr with
  | root hf ht hlt =>
    apply sp.hit _ _ hlt
    exact List.mem_filterMap.mpr ⟨_, hf, ht⟩
  | step _ hab ih => exact sp.closed _ ih (by simp) _ hab

end J5V.Pipe
