import J5V.Pipe.SwaggerDocProofs
/-!
# C16 — `BuildSwagger` at the proto level: inputs on which the Go code errors or panics (core only)

`Pipe/SwaggerDoc.lean` builds the document from `ClientAPI`, a type that can only hold
reference-or-scalar fields and an always-present request. Here the input is what `BuildSwagger` can
really be handed: `client_j5pb.API` as far as the function reads it, with every shape a
`schema_j5pb.Field` can have (`SField`: inline objects / oneofs / enums, unset `type` or `schema`
oneofs, nil), a `Request` that may be nil, a root schema of no kind. On this type the error and
panic arms of `convertSchema`, `ConvertRootSchema` and `addMethod` are reachable (examples in
`Props/C16.lean`); `PApi.wf` says which inputs avoid them; `ClientAPI.toProto` is `API.ToJ5Proto()`
(`ToJ5Field()` of object / oneof / enum fields builds the `…_Ref` wrapper, `Method.ToJ5Proto` always
sets `Request`, `ToJ5ClientRoot()` builds the wrapper of the schema's kind) and lands in `PApi.wf`.
The result keeps what the totality statement needs: the path items as (verb, path) and the
component keys.
-/
namespace J5V.Pipe
open J5V.Compile J5V.Go

structure PProp where
  name : Str
  schema : SField
  deriving Repr

/-- `client_j5pb.Method_Request` -/
structure PRequest where
  pathParameters : List PProp
  queryParameters : List PProp
  body : Option (List PProp)
  deriving Repr

/-- `client_j5pb.Method`; `request = none` is a nil `*Method_Request` -/
structure PMethod where
  name : Str
  verb : Verb
  path : Str
  request : Option PRequest
  responseBody : Option (List PProp)
  deriving Repr

structure PService where
  name : Str
  methods : List PMethod
  deriving Repr

/-- `schema_j5pb.RootSchema.type` -/
inductive PRoot where
  | object (props : List PProp)
  | oneof (props : List PProp)
  | enum
  | unset
  deriving Repr

structure PApi where
  services : List PService
  schemas : List (Nat × PRoot)
  deriving Repr

/-- the property loop of `convertObjectItem` / `convertOneofItem` and the parameter loops of
`addMethod`: `convertSchema(prop.Schema)` for each, first failure wins -/
def convertAll : List PProp → Outcome Unit
  | [] => .ok ()
  | p :: ps =>
    match convertSchema p.schema with
    | .ok _ => convertAll ps
    | .err e => .err e
    | .panic w => .panic w

def convertAll? : Option (List PProp) → Outcome Unit
  | none => .ok ()
  | some ps => convertAll ps

/-- `addMethod` up to the grouping: `method.Request.PathParameters` on a nil request is a nil
dereference -/
def operationP (m : PMethod) : Outcome SOp :=
  match m.request with
  | none => .panic "nil-pointer"
  | some r =>
    match convertAll r.pathParameters with
    | .err e => .err e
    | .panic w => .panic w
    | .ok _ =>
      match convertAll r.queryParameters with
      | .err e => .err e
      | .panic w => .panic w
      | .ok _ =>
        match convertAll? r.body with
        | .err e => .err e
        | .panic w => .panic w
        | .ok _ =>
          match convertAll? m.responseBody with
          | .err e => .err e
          | .panic w => .panic w
          | .ok _ => .ok { verb := m.verb.lower, path := m.path }

def addMethodsP : List PathItem → List PMethod → Outcome (List PathItem)
  | items, [] => .ok items
  | items, m :: ms =>
    match operationP m with
    | .ok op => addMethodsP (addOp items op) ms
    | .err e => .err e
    | .panic w => .panic w

def addServicesP : List PathItem → List PService → Outcome (List PathItem)
  | items, [] => .ok items
  | items, s :: ss =>
    match addMethodsP items s.methods with
    | .ok items' => addServicesP items' ss
    | .err e => .err e
    | .panic w => .panic w

/-- `ConvertRootSchema` -/
def convertRootP : PRoot → Outcome Unit
  | .object ps => convertAll ps
  | .oneof ps => convertAll ps
  | .enum => .ok ()
  | .unset => .err "expected-root-schema"

def componentsP : List (Nat × PRoot) → Outcome (List Nat)
  | [] => .ok []
  | (i, r) :: rest =>
    match convertRootP r with
    | .ok _ =>
      match componentsP rest with
      | .ok ks => .ok (i :: ks)
      | .err e => .err e
      | .panic w => .panic w
    | .err e => .err e
    | .panic w => .panic w

/-- `BuildSwagger`: (path items as (verb, path), component keys) -/
def buildSwaggerP (a : PApi) : Outcome (List PathItem × List Nat) :=
  match addServicesP [] a.services with
  | .err e => .err e
  | .panic w => .panic w
  | .ok paths =>
    match componentsP a.schemas with
    | .err e => .err e
    | .panic w => .panic w
    | .ok keys => .ok (paths, keys)

/-! ## which inputs avoid every error and panic arm -/

def propsWf (ps : List PProp) : Bool := ps.all fun p => p.schema.wellFormed

def PMethod.wf (m : PMethod) : Bool :=
  match m.request with
  | none => false
  | some r =>
    propsWf r.pathParameters && propsWf r.queryParameters && propsWf (r.body.getD [])
      && propsWf (m.responseBody.getD [])

def PRoot.wf : PRoot → Bool
  | .object ps => propsWf ps
  | .oneof ps => propsWf ps
  | .enum => true
  | .unset => false

def PApi.wf (a : PApi) : Bool :=
  (a.services.all fun s => s.methods.all PMethod.wf) && a.schemas.all fun x => x.2.wf

def PMethod.toSOp (m : PMethod) : SOp := { verb := m.verb.lower, path := m.path }

theorem convertAll_ok : ∀ ps : List PProp, propsWf ps = true → convertAll ps = .ok ()
  | [], _ => rfl
  | p :: ps, h => by
    simp only [propsWf, List.all_cons, Bool.and_eq_true] at h
    obtain ⟨t, ht⟩ := convertSchema_total p.schema h.1
    simp only [convertAll, ht]
    exact convertAll_ok ps (by simpa [propsWf] using h.2)

theorem convertAll?_ok (b : Option (List PProp)) (h : propsWf (b.getD []) = true) : convertAll? b = .ok () := by
  cases b with
  | none => rfl
  | some ps => exact convertAll_ok ps (by simpa using h)

theorem operationP_ok (m : PMethod) (h : m.wf = true) : operationP m = .ok m.toSOp := by
  unfold PMethod.wf at h
  cases hr : m.request with
  | none => rw [hr] at h; simp at h
  | some r =>
    rw [hr] at h
    simp only [Bool.and_eq_true] at h
    obtain ⟨⟨⟨h1, h2⟩, h3⟩, h4⟩ := h
    simp [operationP, hr, convertAll_ok _ h1, convertAll_ok _ h2, convertAll?_ok _ h3, convertAll?_ok _ h4,
      PMethod.toSOp]

theorem addMethodsP_ok : ∀ (ms : List PMethod) (items : List PathItem), ms.all PMethod.wf = true →
    addMethodsP items ms = .ok ((ms.map PMethod.toSOp).foldl addOp items)
  | [], _, _ => rfl
  | m :: ms, items, h => by
    simp only [List.all_cons, Bool.and_eq_true] at h
    simp only [addMethodsP, operationP_ok m h.1, List.map_cons, List.foldl_cons]
    exact addMethodsP_ok ms _ h.2

theorem addServicesP_ok : ∀ (ss : List PService) (items : List PathItem),
    (ss.all fun s => s.methods.all PMethod.wf) = true →
    addServicesP items ss = .ok ((ss.flatMap fun s => s.methods.map PMethod.toSOp).foldl addOp items)
  | [], _, _ => rfl
  | s :: ss, items, h => by
    simp only [List.all_cons, Bool.and_eq_true] at h
    simp only [addServicesP, addMethodsP_ok s.methods items h.1, List.flatMap_cons, List.foldl_append]
    exact addServicesP_ok ss _ h.2

theorem convertRootP_ok (r : PRoot) (h : r.wf = true) : convertRootP r = .ok () := by
  cases r with
  | object ps => exact convertAll_ok ps h
  | oneof ps => exact convertAll_ok ps h
  | enum => rfl
  | unset => simp [PRoot.wf] at h

theorem componentsP_ok : ∀ (xs : List (Nat × PRoot)), (xs.all fun x => x.2.wf) = true →
    componentsP xs = .ok (xs.map (·.1))
  | [], _ => rfl
  | (i, r) :: rest, h => by
    simp only [List.all_cons, Bool.and_eq_true] at h
    simp [componentsP, convertRootP_ok r h.1, componentsP_ok rest h.2]

/-- on well-formed input `BuildSwagger` returns, with the paths grouped by `groupOps` -/
theorem buildSwaggerP_ok (a : PApi) (h : a.wf = true) :
    buildSwaggerP a = .ok (groupOps (a.services.flatMap fun s => s.methods.map PMethod.toSOp), a.schemas.map (·.1)) := by
  unfold PApi.wf at h
  simp only [Bool.and_eq_true] at h
  simp [buildSwaggerP, addServicesP_ok a.services [] h.1, componentsP_ok a.schemas h.2, groupOps]

/-! ## `API.ToJ5Proto()`: the client API of the builder, as a proto value -/

def Prop'.toProto (p : Prop') : PProp := { name := p.name, schema := p.field.toSField }

def ApiMethod.toProto (m : ApiMethod) : PMethod :=
  { name := m.name, verb := m.verb, path := m.path,
    request := some { pathParameters := m.pathParams.map Prop'.toProto,
                      queryParameters := m.queryParams.map Prop'.toProto,
                      body := m.body.map (·.map Prop'.toProto) },
    responseBody := m.response.map (·.map Prop'.toProto) }

/-- `ToJ5ClientRoot()` -/
def Node.toProto (n : Node) : PRoot :=
  match n.kind with
  | .object => .object (n.props.map Prop'.toProto)
  | .oneof => .oneof (n.props.map Prop'.toProto)
  | .enum => .enum

def ClientAPI.toProto (api : ClientAPI) : PApi :=
  { services := api.services.map fun s => { name := s.name, methods := s.methods.map ApiMethod.toProto },
    schemas := api.schemas.map fun x => (x.1, x.2.toProto) }

theorem propsWf_toProto (ps : List Prop') : propsWf (ps.map Prop'.toProto) = true := by
  simp only [propsWf, List.all_map, List.all_eq_true]
  intro p _
  exact Field.toSField_wf p.field

theorem ApiMethod.toProto_wf (m : ApiMethod) : m.toProto.wf = true := by
  have hb : propsWf ((m.body.map (·.map Prop'.toProto)).getD []) = true := by
    cases m.body with
    | none => rfl
    | some b => exact propsWf_toProto b
  have hr : propsWf ((m.response.map (·.map Prop'.toProto)).getD []) = true := by
    cases m.response with
    | none => rfl
    | some b => exact propsWf_toProto b
  simp [PMethod.wf, ApiMethod.toProto, propsWf_toProto, hb, hr]

theorem Node.toProto_wf (n : Node) : n.toProto.wf = true := by
  unfold Node.toProto
  cases n.kind with
  | object => exact propsWf_toProto n.props
  | oneof => exact propsWf_toProto n.props
  | enum => rfl

/-- whatever the client builder's type can hold, its proto form avoids every error and panic arm -/
theorem ClientAPI.toProto_wf (api : ClientAPI) : api.toProto.wf = true := by
  simp only [PApi.wf, ClientAPI.toProto, List.all_map, Bool.and_eq_true, List.all_eq_true]
  refine ⟨?_, ?_⟩
  · intro s _
    simp only [Function.comp, List.all_map, List.all_eq_true]
    intro m _
    exact ApiMethod.toProto_wf m
  · intro x _
    exact Node.toProto_wf x.2

theorem ClientAPI.toProto_sops (api : ClientAPI) :
    (api.toProto.services.flatMap fun s => s.methods.map PMethod.toSOp) = api.sops := by
  simp only [ClientAPI.toProto, ClientAPI.sops, List.flatMap_map]
  congr 1
  funext s
  simp only [List.map_map]
  rfl

end J5V.Pipe
