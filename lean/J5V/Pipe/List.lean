import J5V.Pipe.Walk
/-!
# C16 — `buildListRequest` (`internal/j5client/list.go`): which list rules take effect (core only)

The callback given to `WalkSchemaFields` looks at the property's schema: enum fields
(`*j5schema.EnumField`) honour a filtering rule; among the scalars (`*j5schema.ScalarSchema`) bool /
key honour filtering, float / integer / timestamp filtering and sorting, string searching; bytes,
date, decimal: "do nothing". The arms for any / array / map / object / oneof inside the scalar
switch are never reached (those fields are no `ScalarSchema`), so the list rules of a oneof field
(which the compiler does emit) have no effect on the list request.
-/
namespace J5V.Pipe
open J5V.Compile

inductive LKind where
  | enum | bool | key | oneof | float | integer | timestamp | string | other
  deriving Repr, DecidableEq

structure LRules where
  filter : Bool
  sort : Bool
  search : Bool
  deriving Repr, DecidableEq

/-- the rules that reach the list request, given the rules present on the property -/
def listEffect (k : LKind) (r : LRules) : LRules :=
  match k with
  | .enum | .bool | .key => { filter := r.filter, sort := false, search := false }
  | .oneof => { filter := false, sort := false, search := false }
  | .float | .integer | .timestamp => { filter := r.filter, sort := r.sort, search := false }
  | .string => { filter := false, sort := false, search := r.search }
  | .other => { filter := false, sort := false, search := false }

/-! ## enum default filters: the producer's check and the consumer's check

`listRules.filtering.defaultFilters` of an enum field travels verbatim from the j5s source through
the `(j5.list.v1.field).enum` annotation into `EnumField.ListRules`.

* producer (`internal/j5s/j5convert`, since `fix:` b6c593a): `buildField` runs
  `enumRef.mapValues(filtering.DefaultFilters)`; `enumTypeRef` / `visitEnumNode` name the values
  `<prefix>UNSPECIFIED`, then every declared option with the prefix added when it is not there
  (a first option spelled `UNSPECIFIED`, with or without prefix, is the zero value itself).
* consumer (`lib/j5schema` `buildEnum` + `OptionByName`, `internal/j5client/list.go`): the prefix
  is the first value's name minus the suffix `UNSPECIFIED`, option names are the value names with
  that prefix trimmed, and a default filter is looked up after trimming the prefix from it. -/

/-- `if !strings.HasPrefix(in, prefix) { in = prefix + in }` -/
def addPrefix (pfx n : Str) : Str :=
  if hasPrefix pfx n then n else pfx ++ n

/-- `strings.TrimPrefix(n, prefix)` -/
def trimPrefix (pfx n : Str) : Str :=
  if hasPrefix pfx n then n.drop pfx.length else n

def unspecified : Str := b!"UNSPECIFIED"

/-- value names of the enum descriptor the compiler emits (`visitEnumNode`) = keys of
`EnumRef.ValMap` (`enumTypeRef`), in number order -/
def enumValueNames (pfx : Str) (opts : List Str) : List Str :=
  let rest := match opts with
    | o :: os => if trimPrefix pfx o = unspecified then os else opts
    | [] => []
  (pfx ++ unspecified) :: rest.map (addPrefix pfx)

/-- `EnumRef.mapValues(defaults)` succeeds -/
def compileDefaultsOk (pfx : Str) (valueNames defaults : List Str) : Bool :=
  defaults.all (fun d => valueNames.contains (addPrefix pfx d))

/-- `Package.buildEnum`: prefix and trimmed option names read back from the descriptor's value
names; `none` = "enum does not have an unspecified value ending in UNSPECIFIED" (or no value) -/
def readEnum (valueNames : List Str) : Option (Str × List Str) :=
  match valueNames with
  | [] => none
  | v0 :: _ =>
    if hasSuffix unspecified v0 then
      let pfx := trimSuffix v0 unspecified
      some (pfx, valueNames.map (trimPrefix pfx))
    else none

/-- the enum branch of `buildListRequest`'s callback: every default filter has to name an option
of the enum (`enumSchema.OptionByName(val)` = trim the prefix, compare with the option names),
else the whole client API is refused -/
def defaultFiltersOk (pfx : Str) (options defaults : List Str) : Bool :=
  defaults.all (fun d => options.contains (trimPrefix pfx d))

/-- producer's check followed by the consumer's reading of the same enum and the same defaults:
`none` = the compiler rejects the field; `some b` = accepted, `b` = the client accepts too -/
def enumDefaultsChain (pfx : Str) (opts defaults : List Str) : Option Bool :=
  let vs := enumValueNames pfx opts
  if compileDefaultsOk pfx vs defaults then
    match readEnum vs with
    | some (p, os) => some (defaultFiltersOk p os defaults)
    | none => some false
  else none

def LRules.toTag (r : LRules) : Nat :=
  (if r.filter then 1 else 0) + (if r.sort then 2 else 0) + (if r.search then 4 else 0)

def tagFilter (t : Nat) : Bool := t % 2 == 1
def tagSort (t : Nat) : Bool := t / 2 % 2 == 1
def tagSearch (t : Nat) : Bool := t / 4 % 2 == 1

end J5V.Pipe
