import J5V.Pipe.Walk
/-!
# C16 — `buildListRequest` (`internal/j5client/list.go`): which list rules take effect (core only)

The callback given to `WalkSchemaFields` looks at the property's schema: enum fields honour a
filtering rule; among the scalars bool / key / oneof honour filtering, float / integer / timestamp
filtering and sorting, string searching; any, array, bytes, date, decimal, map, object: "do nothing".
-/
namespace J5V.Pipe

inductive LKind where
  | enum | bool | key | oneof | float | integer | timestamp | string | other
  deriving Repr, DecidableEq

structure LRules where
  filter : Bool
  sort : Bool
  search : Bool
  deriving Repr, DecidableEq

/-- the rules that reach the list request, given the rules present on the property -/
def listEffect (k : LKind) (r : LRules) : LRules :=
  match k with
  | .enum | .bool | .key | .oneof => { filter := r.filter, sort := false, search := false }
  | .float | .integer | .timestamp => { filter := r.filter, sort := r.sort, search := false }
  | .string => { filter := false, sort := false, search := r.search }
  | .other => { filter := false, sort := false, search := false }

/-- the enum branch of the callback: every default filter has to name an option of the enum
(`enumSchema.OptionByName(val)`), else the whole client API is refused -/
def defaultFiltersOk (options defaults : List J5V.Compile.Str) : Bool :=
  defaults.all (fun d => options.contains d)

def LRules.toTag (r : LRules) : Nat :=
  (if r.filter then 1 else 0) + (if r.sort then 2 else 0) + (if r.search then 4 else 0)

def tagFilter (t : Nat) : Bool := t % 2 == 1
def tagSort (t : Nat) : Bool := t / 2 % 2 == 1
def tagSearch (t : Nat) : Bool := t / 4 % 2 == 1
/-- bit 8: the property is a filterable enum whose default filters fail `defaultFiltersOk` -/
def tagBadDefault (t : Nat) : Bool := t / 8 % 2 == 1

end J5V.Pipe
