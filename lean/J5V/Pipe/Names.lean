import J5V.Compile.Strcase
/-!
# C16 — naming conventions shared by producer and consumer (core only)

Producer: `sourcewalk/service.go` (`<Name>Service`, `<M>Request`, `<M>Response` or
`google.api.HttpBody`), `sourcewalk/topic.go` (`ToCamel(name)Topic`, `<M>Message`, reply
`google.protobuf.Empty`). Consumer: `structure/build_package.go` `addStructure` (suffix tests, in
this order: `Service`, `Sandbox`, `Events`, `Topic`), `buildMethod`, `buildTopicMethod`, and
`j5client/package_from_source.go` `methodFromSource` (`ResponseSchema == "HttpBody"`).
-/
namespace J5V.Pipe
open J5V.Compile

inductive ServiceClass where
  | service | ignored | topic | unsupported
  deriving Repr, DecidableEq

/-- `addStructure`: which builder a service descriptor named `name` is given to -/
def classify (name : Str) : ServiceClass :=
  if hasSuffix b!"Service" name || hasSuffix b!"Sandbox" name then .service
  else if hasSuffix b!"Events" name then .ignored
  else if hasSuffix b!"Topic" name then .topic
  else .unsupported

/-! producer names -/
def serviceName (n : Str) : Str := n ++ b!"Service"
def topicName (n : Str) : Str := toCamel n ++ b!"Topic"
def requestName (m : Str) : Str := m ++ b!"Request"
def responseName (m : Str) : Str := m ++ b!"Response"
def messageName (m : Str) : Str := m ++ b!"Message"
def httpBodyFull : Str := b!"google.api.HttpBody"
def emptyFull : Str := b!"google.protobuf.Empty"

/-- a message reference as the consumer sees it: package, short name -/
structure MsgRef where
  pkg : Str
  name : Str
  deriving Repr, DecidableEq

def MsgRef.full (m : MsgRef) : Str := m.pkg ++ b!"." ++ m.name

/-- `buildMethod`'s checks on input and output of a service method declared in package `pkg` -/
def acceptMethod (pkg method : Str) (input output : MsgRef) : Bool :=
  (input.pkg == pkg && input.name == requestName method)
    && (output.name == responseName method || output.full == httpBodyFull)

/-- `buildTopicMethod`'s checks -/
def acceptTopicMethod (pkg method : Str) (input output : MsgRef) : Bool :=
  (input.pkg == pkg && input.name == messageName method) && output.full == emptyFull

/-- the output type the producer emits for a method (`hasResp` = the j5s method has a response) -/
def producedOutput (pkg method : Str) (hasResp : Bool) : MsgRef :=
  if hasResp then { pkg := pkg, name := responseName method }
  else { pkg := b!"google.api", name := b!"HttpBody" }

/-- `methodFromSource`: the response schema name that means "raw response" -/
def isRawResponse (responseSchema : Str) : Bool := responseSchema == b!"HttpBody"

end J5V.Pipe
