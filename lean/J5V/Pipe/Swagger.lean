import J5V.Go.Outcome
/-!
# C16 — `convertSchema` (`internal/export/convert.go`), the shape of its recursion (core only)

One constructor per member of the oneof `j5.schema.v1.Field.type` (the source-fact obligation
`C16_src_swagger_arms` checks that `convertSchema` has an arm for each), plus the three ways an input
can be malformed: a field whose `type` oneof is unset (`unset` → the `default:` arm), an enum /
object / oneof field whose `schema` oneof is unset (`…Unset` → the inner `default:` arms), and a nil
`*Field` where one is dereferenced (`nil` → run-time panic on `schema.Type`).

Inline objects and oneofs are modelled with a list of property fields; `convertObjectItem` /
`convertOneofItem` convert them in order and stop at the first error. The result is the canonical
type description the kernel op `swag` prints from the real JSON document.
-/
namespace J5V.Pipe
open J5V.Go

inductive SField where
  | any | str | int | float | bool | bytes | decimal | date | timestamp | key
  | enumRef | enumInline | enumUnset
  | objRef | objInline (props : List SField) | objUnset
  | oneofRef | oneofInline (props : List SField) | oneofUnset
  | array (items : SField) | map (items : SField)
  | unset | nil
  deriving Repr, Inhabited

mutual
  def convertSchema : SField → Outcome String
    | .any => .ok "any"
    | .str | .bytes | .decimal | .date | .timestamp | .key | .enumInline => .ok "string"
    | .int => .ok "integer"
    | .float => .ok "number"
    | .bool => .ok "boolean"
    | .enumRef | .objRef | .oneofRef => .ok "ref"
    | .enumUnset | .objUnset | .oneofUnset | .unset => .err "unknown-schema-type"
    | .nil => .panic "nil-pointer"
    | .objInline props =>
      match convertProps props with
      | .ok ts => .ok ("object{" ++ ",".intercalate ts ++ "}")
      | .err e => .err e
      | .panic w => .panic w
    | .oneofInline props =>
      match convertProps props with
      | .ok ts => .ok ("oneof{" ++ ",".intercalate ts ++ "}")
      | .err e => .err e
      | .panic w => .panic w
    | .array items =>
      match convertSchema items with
      | .ok t => .ok ("array(" ++ t ++ ")")
      | .err e => .err e
      | .panic w => .panic w
    | .map items =>
      match convertSchema items with
      | .ok t => .ok ("map(" ++ t ++ ")")
      | .err e => .err e
      | .panic w => .panic w
  def convertProps : List SField → Outcome (List String)
    | [] => .ok []
    | p :: ps =>
      match convertSchema p with
      | .ok t =>
        match convertProps ps with
        | .ok ts => .ok (t :: ts)
        | .err e => .err e
        | .panic w => .panic w
      | .err e => .err e
      | .panic w => .panic w
end

mutual
  /-- every oneof wrapper is set and no field is nil: what the schema reflection produces -/
  def SField.wellFormed : SField → Bool
    | .enumUnset | .objUnset | .oneofUnset | .unset | .nil => false
    | .objInline props => wellFormedAll props
    | .oneofInline props => wellFormedAll props
    | .array items => items.wellFormed
    | .map items => items.wellFormed
    | _ => true
  def wellFormedAll : List SField → Bool
    | [] => true
    | p :: ps => p.wellFormed && wellFormedAll ps
end

mutual
  theorem convertSchema_total : ∀ f : SField, f.wellFormed = true → ∃ t, convertSchema f = .ok t
    | .any, _ | .str, _ | .int, _ | .float, _ | .bool, _ | .bytes, _ | .decimal, _ | .date, _
    | .timestamp, _ | .key, _ | .enumRef, _ | .enumInline, _ | .objRef, _ | .oneofRef, _ => by
      simp [convertSchema]
    | .enumUnset, h | .objUnset, h | .oneofUnset, h | .unset, h | .nil, h => by
      simp [SField.wellFormed] at h
    | .objInline props, h => by
      obtain ⟨ts, hts⟩ := convertProps_total props (by simpa [SField.wellFormed] using h)
      simp [convertSchema, hts]
    | .oneofInline props, h => by
      obtain ⟨ts, hts⟩ := convertProps_total props (by simpa [SField.wellFormed] using h)
      simp [convertSchema, hts]
    | .array items, h => by
      obtain ⟨t, ht⟩ := convertSchema_total items (by simpa [SField.wellFormed] using h)
      simp [convertSchema, ht]
    | .map items, h => by
      obtain ⟨t, ht⟩ := convertSchema_total items (by simpa [SField.wellFormed] using h)
      simp [convertSchema, ht]
  theorem convertProps_total : ∀ ps : List SField, wellFormedAll ps = true → ∃ ts, convertProps ps = .ok ts
    | [], _ => ⟨[], by simp [convertProps]⟩
    | p :: ps, h => by
      simp only [wellFormedAll, Bool.and_eq_true] at h
      obtain ⟨t, ht⟩ := convertSchema_total p h.1
      obtain ⟨ts, hts⟩ := convertProps_total ps h.2
      exact ⟨t :: ts, by simp [convertProps, ht, hts]⟩
end

mutual
  theorem convertSchema_ok_wf : ∀ (f : SField) (t : String), convertSchema f = .ok t → f.wellFormed = true
    | .any, _, _ | .str, _, _ | .int, _, _ | .float, _, _ | .bool, _, _ | .bytes, _, _ | .decimal, _, _
    | .date, _, _ | .timestamp, _, _ | .key, _, _ | .enumRef, _, _ | .enumInline, _, _ | .objRef, _, _
    | .oneofRef, _, _ => by simp [SField.wellFormed]
    | .enumUnset, _, h | .objUnset, _, h | .oneofUnset, _, h | .unset, _, h | .nil, _, h => by
      simp [convertSchema] at h
    | .objInline props, _, h => by
      cases hp : convertProps props with
      | ok ts => simpa [SField.wellFormed] using convertProps_ok_wf props ts hp
      | err e => simp [convertSchema, hp] at h
      | panic w => simp [convertSchema, hp] at h
    | .oneofInline props, _, h => by
      cases hp : convertProps props with
      | ok ts => simpa [SField.wellFormed] using convertProps_ok_wf props ts hp
      | err e => simp [convertSchema, hp] at h
      | panic w => simp [convertSchema, hp] at h
    | .array items, _, h => by
      cases hp : convertSchema items with
      | ok t => simpa [SField.wellFormed] using convertSchema_ok_wf items t hp
      | err e => simp [convertSchema, hp] at h
      | panic w => simp [convertSchema, hp] at h
    | .map items, _, h => by
      cases hp : convertSchema items with
      | ok t => simpa [SField.wellFormed] using convertSchema_ok_wf items t hp
      | err e => simp [convertSchema, hp] at h
      | panic w => simp [convertSchema, hp] at h
  theorem convertProps_ok_wf : ∀ (ps : List SField) (ts : List String), convertProps ps = .ok ts →
      wellFormedAll ps = true
    | [], _, _ => by simp [wellFormedAll]
    | p :: ps, _, h => by
      cases hp : convertSchema p with
      | ok t =>
        cases hps : convertProps ps with
        | ok ts' =>
          simp only [wellFormedAll, Bool.and_eq_true]
          exact ⟨convertSchema_ok_wf p t hp, convertProps_ok_wf ps ts' hps⟩
        | err e => simp [convertProps, hp, hps] at h
        | panic w => simp [convertProps, hp, hps] at h
      | err e => simp [convertProps, hp] at h
      | panic w => simp [convertProps, hp] at h
end

/-! ## `Document.addMethod` (`internal/export/swagger.go`): operations grouped by path

`dd.Paths` is a list of path items, a path item a list of operations; `PathItem.MapKey()` is the
path of its first operation (`""` when empty). A method's operation is appended to the first path
item whose key equals the method's path, else a new path item is appended. `PathSet` and
`PathItem` are rendered by `OrderedMap.MarshalJSON` as JSON objects keyed by `MapKey()`, in list
order: `{"<path>": {"<verb>": …, …}, …}`. Paths are byte strings (`List Nat`), verbs the lower-case
method names. -/

structure SOp where
  verb : String
  path : List Nat
  deriving Repr, DecidableEq

abbrev PathItem := List SOp

/-- `PathItem.MapKey()` -/
def PathItem.key : PathItem → List Nat
  | [] => []
  | op :: _ => op.path

/-- the loop at the end of `addMethod` -/
def addOp : List PathItem → SOp → List PathItem
  | [], op => [[op]]
  | item :: rest, op =>
    if PathItem.key item = op.path then (item ++ [op]) :: rest else item :: addOp rest op

/-- `BuildSwagger`'s `doc.addService` loop over every method of every declared service -/
def groupOps (ops : List SOp) : List PathItem := ops.foldl addOp []

/-- every path item is non-empty and holds only operations of its own path; no two path items
have the same key -/
structure PathsInv (items : List PathItem) : Prop where
  nonempty : ∀ item ∈ items, item ≠ []
  same : ∀ item ∈ items, ∀ op ∈ item, op.path = PathItem.key item
  nodup : (items.map PathItem.key).Nodup

theorem PathItem.key_append (item : PathItem) (op : SOp) (h : item ≠ []) :
    PathItem.key (item ++ [op]) = PathItem.key item := by
  cases item with
  | nil => exact absurd rfl h
  | cons a rest => rfl

theorem addOp_keys (items : List PathItem) (op : SOp) (hne : ∀ item ∈ items, item ≠ []) :
    ∀ k ∈ (addOp items op).map PathItem.key, k ∈ items.map PathItem.key ∨ k = op.path := by
  induction items with
  | nil => intro k hk; simp [addOp, PathItem.key] at hk; exact Or.inr hk
  | cons item rest ih =>
    intro k hk
    unfold addOp at hk
    split at hk
    · simp only [List.map_cons, List.mem_cons] at hk ⊢
      rcases hk with e | e
      · rw [PathItem.key_append item op (hne item (by simp))] at e; exact Or.inl (Or.inl e)
      · exact Or.inl (Or.inr e)
    · simp only [List.map_cons, List.mem_cons] at hk ⊢
      rcases hk with e | e
      · exact Or.inl (Or.inl e)
      · rcases ih (fun i hi => hne i (List.mem_cons_of_mem _ hi)) k e with h | h
        · exact Or.inl (Or.inr h)
        · exact Or.inr h

theorem addOp_inv (items : List PathItem) (op : SOp) (h : PathsInv items) : PathsInv (addOp items op) := by
  induction items with
  | nil =>
    refine ⟨?_, ?_, ?_⟩
    · intro item hi; simp [addOp] at hi; subst hi; simp
    · intro item hi o ho; simp [addOp] at hi; subst hi; simp at ho; subst ho; rfl
    · simp [addOp]
  | cons item rest ih =>
    have hrest : PathsInv rest := ⟨fun i hi => h.nonempty i (List.mem_cons_of_mem _ hi),
      fun i hi => h.same i (List.mem_cons_of_mem _ hi), (List.nodup_cons.mp h.nodup).2⟩
    have hne := h.nonempty item (by simp)
    unfold addOp
    split
    · rename_i hk
      refine ⟨?_, ?_, ?_⟩
      · intro i hi
        rcases List.mem_cons.mp hi with e | e
        · subst e; simp
        · exact h.nonempty i (List.mem_cons_of_mem _ e)
      · intro i hi o ho
        rcases List.mem_cons.mp hi with e | e
        · subst e
          rw [PathItem.key_append item op hne]
          rcases List.mem_append.mp ho with ho | ho
          · exact h.same item (by simp) o ho
          · simp at ho; subst ho; exact hk.symm
        · exact h.same i (List.mem_cons_of_mem _ e) o ho
      · simp only [List.map_cons, PathItem.key_append item op hne]
        exact h.nodup
    · rename_i hk
      have ih' := ih hrest
      refine ⟨?_, ?_, ?_⟩
      · intro i hi
        rcases List.mem_cons.mp hi with e | e
        · subst e; exact hne
        · exact ih'.nonempty i e
      · intro i hi o ho
        rcases List.mem_cons.mp hi with e | e
        · subst e; exact h.same _ (by simp) o ho
        · exact ih'.same i e o ho
      · simp only [List.map_cons]
        refine List.nodup_cons.mpr ⟨?_, ih'.nodup⟩
        intro hm
        rcases addOp_keys rest op hrest.nonempty _ hm with h1 | h1
        · exact (List.nodup_cons.mp h.nodup).1 h1
        · exact hk h1

theorem addOp_mem (items : List PathItem) (op : SOp) (hne : ∀ item ∈ items, item ≠ []) :
    ∃ item ∈ addOp items op, PathItem.key item = op.path ∧ op ∈ item := by
  induction items with
  | nil => exact ⟨[op], by simp [addOp], rfl, by simp⟩
  | cons item rest ih =>
    unfold addOp
    split
    · rename_i hk
      exact ⟨item ++ [op], by simp, by rw [PathItem.key_append item op (hne item (by simp))]; exact hk, by simp⟩
    · obtain ⟨i, hi, hk, ho⟩ := ih (fun i hi => hne i (List.mem_cons_of_mem _ hi))
      exact ⟨i, List.mem_cons_of_mem _ hi, hk, ho⟩

/-- an operation that is in the document stays in it, under the same key -/
theorem addOp_keeps (items : List PathItem) (op o : SOp) (hne : ∀ item ∈ items, item ≠ [])
    (h : ∃ item ∈ items, PathItem.key item = o.path ∧ o ∈ item) :
    ∃ item ∈ addOp items op, PathItem.key item = o.path ∧ o ∈ item := by
  induction items with
  | nil => obtain ⟨i, hi, _⟩ := h; simp at hi
  | cons item rest ih =>
    obtain ⟨i, hi, hk, ho⟩ := h
    unfold addOp
    split
    · rcases List.mem_cons.mp hi with e | e
      · subst e
        exact ⟨i ++ [op], by simp, by rw [PathItem.key_append i op (hne i (by simp))]; exact hk, by simp [ho]⟩
      · exact ⟨i, by simp [e], hk, ho⟩
    · rcases List.mem_cons.mp hi with e | e
      · subst e; exact ⟨i, by simp, hk, ho⟩
      · obtain ⟨j, hj, hjk, hjo⟩ := ih (fun i hi => hne i (List.mem_cons_of_mem _ hi)) ⟨i, e, hk, ho⟩
        exact ⟨j, List.mem_cons_of_mem _ hj, hjk, hjo⟩

theorem addOp_flatten_perm (items : List PathItem) (op : SOp) :
    (addOp items op).flatten.Perm (items.flatten ++ [op]) := by
  induction items with
  | nil => simp [addOp]
  | cons item rest ih =>
    unfold addOp
    split
    · simp only [List.flatten_cons, List.append_assoc]
      apply List.Perm.append_left
      exact List.perm_append_comm
    · simp only [List.flatten_cons, List.append_assoc]
      exact List.Perm.append_left _ ih

theorem foldl_addOp_spec (ops : List SOp) : ∀ (items : List PathItem), PathsInv items →
    PathsInv (ops.foldl addOp items)
    ∧ (∀ o, (∃ item ∈ items, PathItem.key item = o.path ∧ o ∈ item) ∨ o ∈ ops →
        ∃ item ∈ ops.foldl addOp items, PathItem.key item = o.path ∧ o ∈ item)
    ∧ (ops.foldl addOp items).flatten.Perm (items.flatten ++ ops) := by
  induction ops with
  | nil =>
    intro items h
    refine ⟨h, ?_, by simp⟩
    intro o ho
    rcases ho with ho | ho
    · exact ho
    · simp at ho
  | cons op ops ih =>
    intro items h
    obtain ⟨h1, h2, h3⟩ := ih (addOp items op) (addOp_inv items op h)
    refine ⟨h1, ?_, ?_⟩
    · intro o ho
      apply h2
      rcases ho with ho | ho
      · exact Or.inl (addOp_keeps items op o h.nonempty ho)
      · rcases List.mem_cons.mp ho with e | e
        · subst e; exact Or.inl (addOp_mem items o h.nonempty)
        · exact Or.inr e
    · simp only [List.foldl_cons]
      refine h3.trans ?_
      have := (addOp_flatten_perm items op).append_right ops
      refine this.trans ?_
      simp

end J5V.Pipe
