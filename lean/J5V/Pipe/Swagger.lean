import J5V.Go.Outcome
/-!
# C16 — `convertSchema` (`internal/export/convert.go`), the shape of its recursion (core only)

One constructor per member of the oneof `j5.schema.v1.Field.type` (the source-fact obligation
`C16_swagger_total` checks that `convertSchema` has an arm for each), plus the three ways an input
can be malformed: a field whose `type` oneof is unset (`unset` → the `default:` arm), an enum /
object / oneof field whose `schema` oneof is unset (`…Unset` → the inner `default:` arms), and a nil
`*Field` where one is dereferenced (`nil` → run-time panic on `schema.Type`).

Inline objects and oneofs are modelled with a list of property fields; `convertObjectItem` /
`convertOneofItem` convert them in order and stop at the first error. The result is the canonical
type description the kernel op `swag` prints from the real JSON document.
-/
namespace J5V.Pipe
open J5V.Go

inductive SField where
  | any | str | int | float | bool | bytes | decimal | date | timestamp | key
  | enumRef | enumInline | enumUnset
  | objRef | objInline (props : List SField) | objUnset
  | oneofRef | oneofInline (props : List SField) | oneofUnset
  | array (items : SField) | map (items : SField)
  | unset | nil
  deriving Repr, Inhabited

mutual
  def convertSchema : SField → Outcome String
    | .any => .ok "any"
    | .str | .bytes | .decimal | .date | .timestamp | .key | .enumInline => .ok "string"
    | .int => .ok "integer"
    | .float => .ok "number"
    | .bool => .ok "boolean"
    | .enumRef | .objRef | .oneofRef => .ok "ref"
    | .enumUnset | .objUnset | .oneofUnset | .unset => .err "unknown-schema-type"
    | .nil => .panic "nil-pointer"
    | .objInline props =>
      match convertProps props with
      | .ok ts => .ok ("object{" ++ ",".intercalate ts ++ "}")
      | .err e => .err e
      | .panic w => .panic w
    | .oneofInline props =>
      match convertProps props with
      | .ok ts => .ok ("oneof{" ++ ",".intercalate ts ++ "}")
      | .err e => .err e
      | .panic w => .panic w
    | .array items =>
      match convertSchema items with
      | .ok t => .ok ("array(" ++ t ++ ")")
      | .err e => .err e
      | .panic w => .panic w
    | .map items =>
      match convertSchema items with
      | .ok t => .ok ("map(" ++ t ++ ")")
      | .err e => .err e
      | .panic w => .panic w
  def convertProps : List SField → Outcome (List String)
    | [] => .ok []
    | p :: ps =>
      match convertSchema p with
      | .ok t =>
        match convertProps ps with
        | .ok ts => .ok (t :: ts)
        | .err e => .err e
        | .panic w => .panic w
      | .err e => .err e
      | .panic w => .panic w
end

mutual
  /-- every oneof wrapper is set and no field is nil: what the schema reflection produces -/
  def SField.wellFormed : SField → Bool
    | .enumUnset | .objUnset | .oneofUnset | .unset | .nil => false
    | .objInline props => wellFormedAll props
    | .oneofInline props => wellFormedAll props
    | .array items => items.wellFormed
    | .map items => items.wellFormed
    | _ => true
  def wellFormedAll : List SField → Bool
    | [] => true
    | p :: ps => p.wellFormed && wellFormedAll ps
end

mutual
  theorem convertSchema_total : ∀ f : SField, f.wellFormed = true → ∃ t, convertSchema f = .ok t
    | .any, _ | .str, _ | .int, _ | .float, _ | .bool, _ | .bytes, _ | .decimal, _ | .date, _
    | .timestamp, _ | .key, _ | .enumRef, _ | .enumInline, _ | .objRef, _ | .oneofRef, _ => by
      simp [convertSchema]
    | .enumUnset, h | .objUnset, h | .oneofUnset, h | .unset, h | .nil, h => by
      simp [SField.wellFormed] at h
    | .objInline props, h => by
      obtain ⟨ts, hts⟩ := convertProps_total props (by simpa [SField.wellFormed] using h)
      simp [convertSchema, hts]
    | .oneofInline props, h => by
      obtain ⟨ts, hts⟩ := convertProps_total props (by simpa [SField.wellFormed] using h)
      simp [convertSchema, hts]
    | .array items, h => by
      obtain ⟨t, ht⟩ := convertSchema_total items (by simpa [SField.wellFormed] using h)
      simp [convertSchema, ht]
    | .map items, h => by
      obtain ⟨t, ht⟩ := convertSchema_total items (by simpa [SField.wellFormed] using h)
      simp [convertSchema, ht]
  theorem convertProps_total : ∀ ps : List SField, wellFormedAll ps = true → ∃ ts, convertProps ps = .ok ts
    | [], _ => ⟨[], by simp [convertProps]⟩
    | p :: ps, h => by
      simp only [wellFormedAll, Bool.and_eq_true] at h
      obtain ⟨t, ht⟩ := convertSchema_total p h.1
      obtain ⟨ts, hts⟩ := convertProps_total ps h.2
      exact ⟨t :: ts, by simp [convertProps, ht, hts]⟩
end

mutual
  theorem convertSchema_ok_wf : ∀ (f : SField) (t : String), convertSchema f = .ok t → f.wellFormed = true
    | .any, _, _ | .str, _, _ | .int, _, _ | .float, _, _ | .bool, _, _ | .bytes, _, _ | .decimal, _, _
    | .date, _, _ | .timestamp, _, _ | .key, _, _ | .enumRef, _, _ | .enumInline, _, _ | .objRef, _, _
    | .oneofRef, _, _ => by simp [SField.wellFormed]
    | .enumUnset, _, h | .objUnset, _, h | .oneofUnset, _, h | .unset, _, h | .nil, _, h => by
      simp [convertSchema] at h
    | .objInline props, _, h => by
      cases hp : convertProps props with
      | ok ts => simpa [SField.wellFormed] using convertProps_ok_wf props ts hp
      | err e => simp [convertSchema, hp] at h
      | panic w => simp [convertSchema, hp] at h
    | .oneofInline props, _, h => by
      cases hp : convertProps props with
      | ok ts => simpa [SField.wellFormed] using convertProps_ok_wf props ts hp
      | err e => simp [convertSchema, hp] at h
      | panic w => simp [convertSchema, hp] at h
    | .array items, _, h => by
      cases hp : convertSchema items with
      | ok t => simpa [SField.wellFormed] using convertSchema_ok_wf items t hp
      | err e => simp [convertSchema, hp] at h
      | panic w => simp [convertSchema, hp] at h
    | .map items, _, h => by
      cases hp : convertSchema items with
      | ok t => simpa [SField.wellFormed] using convertSchema_ok_wf items t hp
      | err e => simp [convertSchema, hp] at h
      | panic w => simp [convertSchema, hp] at h
  theorem convertProps_ok_wf : ∀ (ps : List SField) (ts : List String), convertProps ps = .ok ts →
      wellFormedAll ps = true
    | [], _, _ => by simp [wellFormedAll]
    | p :: ps, _, h => by
      cases hp : convertSchema p with
      | ok t =>
        cases hps : convertProps ps with
        | ok ts' =>
          simp only [wellFormedAll, Bool.and_eq_true]
          exact ⟨convertSchema_ok_wf p t hp, convertProps_ok_wf ps ts' hps⟩
        | err e => simp [convertProps, hp, hps] at h
        | panic w => simp [convertProps, hp, hps] at h
      | err e => simp [convertProps, hp] at h
      | panic w => simp [convertProps, hp] at h
end

end J5V.Pipe
