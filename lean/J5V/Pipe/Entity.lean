import J5V.Pipe.Service
import J5V.Compile.Entity
/-!
# C16 — the services an entity declaration generates, as input of the service chain (core only)

`sourcewalk/entity.go` expands `entity Foo { … }` into (among other things) the query service
`FooQuery` (`FooGet`, `FooList`, `FooEvents`, base path `/<pkg path>/<entity>/q`, the key fields as
path parameters) and one command service per `command` block. That expansion is the compile
cluster's model `J5V.Compile.Entity` (read-only here); this file only translates its
`J5V.Compile.Service` into the `ServiceDecl` the chain model (`Service.lean`) starts from, so that
`chainService` / `C16_client_exact` speak about entity-generated services too.
-/
namespace J5V.Pipe
open J5V.Go
open J5V.Compile (Str toCamel toSnake joinWith splitOnByte)

def verbOfSource : J5V.Compile.Verb → Option Verb
  | .get => some .get
  | .post => some .post
  | .put => some .put
  | .patch => some .patch
  | .delete => some .delete
  | .unspecified => none

/-- a source method as the chain model sees it: names of the request properties, presence of a
response (`request = none` / verb unspecified: the compiler rejects the method) -/
def methodDeclOfSource (m : J5V.Compile.Method) : Option MethodDecl :=
  match verbOfSource m.verb, m.request with
  | some v, some req =>
    some { name := m.name, verb := v, path := m.path, req := req.map (·.name), hasResp := m.response.isSome }
  | _, _ => none

def methodDeclsOfSource : List J5V.Compile.Method → Option (List MethodDecl)
  | [] => some []
  | m :: ms =>
    match methodDeclOfSource m, methodDeclsOfSource ms with
    | some d, some ds => some (d :: ds)
    | _, _ => none

def serviceDeclOfSource (s : J5V.Compile.Service) : Option ServiceDecl :=
  match s.name, methodDeclsOfSource s.methods with
  | some n, some ms => some { name := n, base := s.basePath, methods := ms }
  | _, _ => none

/-- the query service of an entity -/
def entityQueryDecl (pkg : Str) (e : J5V.Compile.Entity) : Option ServiceDecl :=
  serviceDeclOfSource (J5V.Compile.Entity.queryService pkg e)

/-- the command services of an entity, in declaration order -/
def entityCommandDecls (pkg : Str) (e : J5V.Compile.Entity) : List (Option ServiceDecl) :=
  e.commands.map fun c => serviceDeclOfSource (J5V.Compile.Entity.commandService pkg e c)

/-- every service the entity generates -/
def entityServiceDecls (pkg : Str) (e : J5V.Compile.Entity) : List ServiceDecl :=
  (entityQueryDecl pkg e :: entityCommandDecls pkg e).filterMap id

/-- names of a list of source properties -/
def propNames (ps : List J5V.Compile.Property) : List Str := ps.map (·.name)

/-- base path of the query service -/
def entityQueryBase (pkg : Str) (e : J5V.Compile.Entity) : Str :=
  b!"/" ++ J5V.Compile.Entity.baseUrlPath pkg e ++ b!"/q"

/-- `protodesc.NewFiles` (building the source image's registry in `structure.APIFromImage`) refuses a
message whose oneof has no member: "message oneof … must contain at least one field declaration".
The event oneof of an entity has one member per declared event. -/
def eventOneofValid (e : J5V.Compile.Entity) : Bool :=
  !(J5V.Compile.Entity.eventOneof e).props.isEmpty

end J5V.Pipe
