import J5V.Pipe.SwaggerDoc
import J5V.Pipe.ClientProofs
/-! # Lemmas for C16: the OpenAPI document is total and its references resolve (core only) -/
namespace J5V.Pipe
open J5V.Compile J5V.Go

/-! ## conversion never fails on fields of the schema set -/

theorem Field.toSField_wf : ∀ f : Field, f.toSField.wellFormed = true
  | .scalar => rfl
  | .object _ => rfl
  | .oneof _ => rfl
  | .enum _ => rfl
  | .array e => by simpa [Field.toSField, SField.wellFormed] using Field.toSField_wf e
  | .map e => by simpa [Field.toSField, SField.wellFormed] using Field.toSField_wf e

theorem convertField_ok (f : Field) : ∃ d, convertField f = .ok { desc := d, ref := f.target? } := by
  obtain ⟨t, ht⟩ := convertSchema_total f.toSField (Field.toSField_wf f)
  exact ⟨t, by simp [convertField, ht]⟩

theorem convertPropList_ok : ∀ ps : List Prop', ∃ xs, convertPropList ps = .ok xs ∧
    xs.map (·.1) = ps.map (·.name) ∧ propRefs xs = ps.filterMap (·.field.target?)
  | [] => ⟨[], rfl, rfl, rfl⟩
  | p :: ps => by
    obtain ⟨d, hd⟩ := convertField_ok p.field
    obtain ⟨xs, hxs, hn, hr⟩ := convertPropList_ok ps
    refine ⟨(p.name, { desc := d, ref := p.field.target? }) :: xs, by simp [convertPropList, hd, hxs], by simp [hn], ?_⟩
    unfold propRefs at hr ⊢
    cases ht : p.field.target? <;> simp [ht, hr]

theorem convertParams_ok (loc : ParamIn) : ∀ ps : List Prop', ∃ xs, convertParams loc ps = .ok xs ∧
    xs.map (·.name) = ps.map (·.name) ∧ (∀ x ∈ xs, x.loc = loc ∧ x.required = (loc == .path)) ∧
    xs.filterMap (·.schema.ref) = ps.filterMap (·.field.target?)
  | [] => ⟨[], rfl, rfl, by intro x hx; simp at hx, rfl⟩
  | p :: ps => by
    obtain ⟨d, hd⟩ := convertField_ok p.field
    obtain ⟨xs, hxs, hn, hl, hr⟩ := convertParams_ok loc ps
    refine ⟨{ name := p.name, loc, required := loc == .path, schema := { desc := d, ref := p.field.target? } } :: xs,
      by simp [convertParams, hd, hxs], by simp [hn], ?_, ?_⟩
    · intro x hx
      rcases List.mem_cons.mp hx with rfl | hx
      · exact ⟨rfl, rfl⟩
      · exact hl x hx
    · cases ht : p.field.target? <;> simp [ht, hr]

theorem lastWins_sub : ∀ (xs : List (Str × DSchema)), ∀ x ∈ lastWins xs, x ∈ xs
  | [], _, h => by simp [lastWins] at h
  | y :: ys, x, h => by
    unfold lastWins at h
    split at h
    · exact List.mem_cons_of_mem _ (lastWins_sub ys x h)
    · rcases List.mem_cons.mp h with rfl | h
      · simp
      · exact List.mem_cons_of_mem _ (lastWins_sub ys x h)

theorem lastWins_names : ∀ (xs : List (Str × DSchema)) (n : Str),
    n ∈ (lastWins xs).map (·.1) ↔ n ∈ xs.map (·.1)
  | [], n => by simp [lastWins]
  | y :: ys, n => by
    unfold lastWins
    split
    · rename_i hany
      rw [lastWins_names ys n]
      simp only [List.map_cons, List.mem_cons]
      constructor
      · exact Or.inr
      · rintro (rfl | h)
        · obtain ⟨z, hz, hzn⟩ := List.any_eq_true.mp hany
          exact List.mem_map.mpr ⟨z, hz, by simpa using hzn⟩
        · exact h
    · simp only [List.map_cons, List.mem_cons, lastWins_names ys n]

theorem lastWins_nodup : ∀ (xs : List (Str × DSchema)), ((lastWins xs).map (·.1)).Nodup
  | [] => by simp [lastWins]
  | y :: ys => by
    unfold lastWins
    split
    · exact lastWins_nodup ys
    · rename_i hany
      simp only [List.map_cons, List.nodup_cons]
      refine ⟨?_, lastWins_nodup ys⟩
      intro hm
      rw [lastWins_names ys y.1] at hm
      obtain ⟨z, hz, hzn⟩ := List.mem_map.mp hm
      exact hany (List.any_eq_true.mpr ⟨z, hz, by simpa using hzn⟩)

theorem propRefs_lastWins (xs : List (Str × DSchema)) : ∀ r ∈ propRefs (lastWins xs), r ∈ propRefs xs := by
  intro r hr
  unfold propRefs at hr ⊢
  obtain ⟨x, hx, hxr⟩ := List.mem_filterMap.mp hr
  exact List.mem_filterMap.mpr ⟨x, lastWins_sub xs x hx, hxr⟩

theorem convertBody?_ok (b : Option (List Prop')) : ∃ x, convertBody? b = .ok x ∧
    x.isSome = b.isSome ∧ (∀ n, n ∈ (x.getD []).map (·.1) ↔ n ∈ (b.getD []).map (·.name)) ∧
    ((x.getD []).map (·.1)).Nodup ∧
    ∀ r ∈ propRefs (x.getD []), r ∈ (b.getD []).filterMap (·.field.target?) := by
  cases b with
  | none => exact ⟨none, rfl, rfl, by intro n; simp, by simp, by intro r hr; simp [propRefs] at hr⟩
  | some ps =>
    obtain ⟨xs, hxs, hn, hr⟩ := convertPropList_ok ps
    refine ⟨some (lastWins xs), by simp [convertBody?, hxs], rfl, ?_, lastWins_nodup xs, ?_⟩
    · intro n; simp only [Option.getD_some]; rw [lastWins_names, hn]
    · intro r h; simp only [Option.getD_some] at h ⊢; rw [← hr]; exact propRefs_lastWins xs r h

/-- every field `addMethod` converts for one method -/
def ApiMethod.props (m : ApiMethod) : List Prop' :=
  m.pathParams ++ m.queryParams ++ m.body.getD [] ++ m.response.getD []

/-- what an operation is, given its method -/
structure OperationOf (service : Str) (m : ApiMethod) (op : DOperation) : Prop where
  verb : op.verb = m.verb
  path : op.path = m.path
  service : op.service = service
  method : op.method = m.name
  paramNames : op.params.map (·.name) = m.pathParams.map (·.name) ++ m.queryParams.map (·.name)
  paramIn : op.params.map (·.loc) = m.pathParams.map (fun _ => ParamIn.path) ++ m.queryParams.map (fun _ => ParamIn.query)
  pathRequired : ∀ x ∈ op.params, x.loc = .path → x.required = true
  body : op.body.isSome = m.body.isSome
  bodyNames : ∀ n, n ∈ (op.body.getD []).map (·.1) ↔ n ∈ (m.body.getD []).map (·.name)
  bodyNodup : ((op.body.getD []).map (·.1)).Nodup
  response : op.response.isSome = m.response.isSome
  responseNames : ∀ n, n ∈ (op.response.getD []).map (·.1) ↔ n ∈ (m.response.getD []).map (·.name)
  responseNodup : ((op.response.getD []).map (·.1)).Nodup
  refs : ∀ r ∈ op.refs, r ∈ m.props.filterMap (·.field.target?)

theorem map_const_of_forall {α β} (f : α → β) (c : β) : ∀ xs : List α, (∀ x ∈ xs, f x = c) →
    xs.map f = xs.map (fun _ => c)
  | [], _ => rfl
  | x :: xs, h => by
    simp only [List.map_cons]
    rw [h x (by simp), map_const_of_forall f c xs (fun y hy => h y (List.mem_cons_of_mem _ hy))]

theorem buildOperation_ok (service : Str) (m : ApiMethod) :
    ∃ op, buildOperation service m = .ok op ∧ OperationOf service m op := by
  obtain ⟨pp, hpp, hpn, hpl, hpr⟩ := convertParams_ok .path m.pathParams
  obtain ⟨qp, hqp, hqn, hql, hqr⟩ := convertParams_ok .query m.queryParams
  obtain ⟨b, hb, hbs, hbn, hbd, hbr⟩ := convertBody?_ok m.body
  obtain ⟨r, hr, hrs, hrn, hrd, hrr⟩ := convertBody?_ok m.response
  refine ⟨{ verb := m.verb, path := m.path, service, method := m.name, params := pp ++ qp, body := b, response := r },
    by simp [buildOperation, hpp, hqp, hb, hr], ⟨rfl, rfl, rfl, rfl, ?_, ?_, ?_, hbs, hbn, hbd, hrs, hrn, hrd, ?_⟩⟩
  · simp [hpn, hqn]
  · simp only [List.map_append]
    have h1 := map_const_of_forall (fun x : DParam => x.loc) ParamIn.path pp (fun x hx => (hpl x hx).1)
    have h2 := map_const_of_forall (fun x : DParam => x.loc) ParamIn.query qp (fun x hx => (hql x hx).1)
    rw [h1, h2]
    have l1 : pp.length = m.pathParams.length := by simpa using congrArg List.length hpn
    have l2 : qp.length = m.queryParams.length := by simpa using congrArg List.length hqn
    simp [List.map_const', l1, l2]
  · intro x hx hloc
    simp only [List.mem_append] at hx
    rcases hx with hx | hx
    · simpa using (hpl x hx).2
    · have := (hql x hx).1
      rw [this] at hloc; cases hloc
  · intro x hx
    simp only [DOperation.refs, ApiMethod.props, List.filterMap_append, List.mem_append, hpr, hqr] at hx ⊢
    rcases hx with ((hx | hx) | hx) | hx
    · exact Or.inl (Or.inl (Or.inl hx))
    · exact Or.inl (Or.inl (Or.inr hx))
    · exact Or.inl (Or.inr (hbr x hx))
    · exact Or.inr (hrr x hx)

/-! ## path grouping on whole operations -/

theorem addOperation_flatten_mem (items : List DPathItem) (op o : DOperation) :
    o ∈ (addOperation items op).flatten ↔ o ∈ items.flatten ∨ o = op := by
  induction items with
  | nil => simp [addOperation]
  | cons item rest ih =>
    unfold addOperation
    split
    · simp only [List.flatten_cons, List.mem_append, List.mem_cons, List.not_mem_nil, or_false]
      constructor
      · rintro ((h | h) | h)
        · exact Or.inl (Or.inl h)
        · exact Or.inr h
        · exact Or.inl (Or.inr h)
      · rintro ((h | h) | h)
        · exact Or.inl (Or.inl h)
        · exact Or.inr h
        · exact Or.inl (Or.inr h)
    · simp only [List.flatten_cons, List.mem_append, ih]
      constructor
      · rintro (h | h | h)
        · exact Or.inl (Or.inl h)
        · exact Or.inl (Or.inr h)
        · exact Or.inr h
      · rintro ((h | h) | h)
        · exact Or.inl h
        · exact Or.inr (Or.inl h)
        · exact Or.inr (Or.inr h)

/-- the grouping of whole operations is the grouping of `Swagger.lean` on (verb, path) -/
theorem addOperation_toSOp (items : List DPathItem) (op : DOperation) :
    (addOperation items op).map (·.map DOperation.toSOp) =
      addOp (items.map (·.map DOperation.toSOp)) op.toSOp := by
  induction items with
  | nil => rfl
  | cons item rest ih =>
    have hk : PathItem.key (item.map DOperation.toSOp) = DPathItem.key item := by
      cases item <;> rfl
    unfold addOperation addOp
    simp only [List.map_cons, hk]
    have hp : op.toSOp.path = op.path := rfl
    rw [hp]
    split
    · simp
    · simp [ih]

theorem addMethods_ok (service : Str) : ∀ (ms : List ApiMethod) (items : List DPathItem),
    ∃ out, addMethods service items ms = .ok out ∧
      ∀ o, o ∈ out.flatten ↔ (o ∈ items.flatten ∨ ∃ m ∈ ms, buildOperation service m = .ok o)
  | [], items => ⟨items, rfl, by intro o; simp⟩
  | m :: ms, items => by
    obtain ⟨op, hop, _⟩ := buildOperation_ok service m
    obtain ⟨out, hout, hmem⟩ := addMethods_ok service ms (addOperation items op)
    refine ⟨out, by simp [addMethods, hop, hout], ?_⟩
    intro o
    rw [hmem o, addOperation_flatten_mem]
    constructor
    · rintro ((h | h) | ⟨m', hm', h⟩)
      · exact Or.inl h
      · exact Or.inr ⟨m, by simp, by rw [h]; exact hop⟩
      · exact Or.inr ⟨m', List.mem_cons_of_mem _ hm', h⟩
    · rintro (h | ⟨m', hm', h⟩)
      · exact Or.inl (Or.inl h)
      · rcases List.mem_cons.mp hm' with rfl | hm'
        · rw [hop] at h; cases h; exact Or.inl (Or.inr rfl)
        · exact Or.inr ⟨m', hm', h⟩

theorem addServices_ok : ∀ (ss : List ApiService) (items : List DPathItem),
    ∃ out, addServices items ss = .ok out ∧
      ∀ o, o ∈ out.flatten ↔
        (o ∈ items.flatten ∨ ∃ s ∈ ss, ∃ m ∈ s.methods, buildOperation s.name m = .ok o)
  | [], items => ⟨items, rfl, by intro o; simp⟩
  | s :: ss, items => by
    obtain ⟨mid, hmid, hm1⟩ := addMethods_ok s.name s.methods items
    obtain ⟨out, hout, hm2⟩ := addServices_ok ss mid
    refine ⟨out, by simp [addServices, hmid, hout], ?_⟩
    intro o
    rw [hm2 o, hm1 o]
    constructor
    · rintro ((h | ⟨m, hm, h⟩) | ⟨s', hs', m, hm, h⟩)
      · exact Or.inl h
      · exact Or.inr ⟨s, by simp, m, hm, h⟩
      · exact Or.inr ⟨s', List.mem_cons_of_mem _ hs', m, hm, h⟩
    · rintro (h | ⟨s', hs', m, hm, h⟩)
      · exact Or.inl (Or.inl h)
      · rcases List.mem_cons.mp hs' with rfl | hs'
        · exact Or.inl (Or.inr ⟨m, hm, h⟩)
        · exact Or.inr ⟨s', hs', m, hm, h⟩

theorem convertRoot_ok (n : Node) : ∃ c, convertRoot n = .ok c ∧
    ∀ r ∈ propRefs c, r ∈ n.walkProps.filterMap (·.field.target?) := by
  unfold convertRoot Node.walkProps
  cases hk : n.kind with
  | enum => exact ⟨[], rfl, by intro r hr; simp [propRefs] at hr⟩
  | object =>
    obtain ⟨xs, h, _, hr⟩ := convertPropList_ok n.props
    exact ⟨lastWins xs, by simp [h], fun r hrr => by rw [← hr]; exact propRefs_lastWins xs r hrr⟩
  | oneof =>
    obtain ⟨xs, h, _, hr⟩ := convertPropList_ok n.props
    exact ⟨lastWins xs, by simp [h], fun r hrr => by rw [← hr]; exact propRefs_lastWins xs r hrr⟩

theorem convertComponents_ok : ∀ schemas : List (Nat × Node), ∃ cs, convertComponents schemas = .ok cs ∧
    cs.map (·.1) = schemas.map (·.1) ∧
    ∀ r, r ∈ cs.flatMap (fun c => propRefs c.2) →
      ∃ x ∈ schemas, r ∈ x.2.walkProps.filterMap (·.field.target?)
  | [] => ⟨[], rfl, rfl, by intro r hr; simp at hr⟩
  | (i, n) :: rest => by
    obtain ⟨c, hc, hcr⟩ := convertRoot_ok n
    obtain ⟨cs, hcs, hk, hr⟩ := convertComponents_ok rest
    refine ⟨(i, c) :: cs, by simp [convertComponents, hc, hcs], by simp [hk], ?_⟩
    intro r hmem
    simp only [List.flatMap_cons, List.mem_append] at hmem
    rcases hmem with h | h
    · exact ⟨(i, n), by simp, hcr r h⟩
    · obtain ⟨x, hx, hxr⟩ := hr r h
      exact ⟨x, List.mem_cons_of_mem _ hx, hxr⟩

/-- `BuildSwagger` returns a document for every client API; its operations are exactly the
operations of the methods of the declared services, its component keys the keys of the schema map -/
theorem buildSwagger_ok (api : ClientAPI) : ∃ doc, buildSwagger api = .ok doc ∧
    (∀ o, o ∈ doc.paths.flatten ↔ ∃ s ∈ api.services, ∃ m ∈ s.methods, buildOperation s.name m = .ok o) ∧
    doc.componentKeys = api.schemas.map (·.1) ∧
    (∀ r, r ∈ doc.components.flatMap (fun c => propRefs c.2) →
      ∃ x ∈ api.schemas, r ∈ x.2.walkProps.filterMap (·.field.target?)) := by
  obtain ⟨paths, hp, hmem⟩ := addServices_ok api.services []
  obtain ⟨cs, hcs, hk, hr⟩ := convertComponents_ok api.schemas
  refine ⟨{ paths, components := cs }, by simp [buildSwagger, hp, hcs], ?_, hk, hr⟩
  intro o
  rw [hmem o]
  simp

/-! ## inversion of the client builder -/

theorem bindOO_ok {α β} {a : Option (Outcome α)} {f : α → Option (Outcome β)} {y : β}
    (h : bindOO a f = some (.ok y)) : ∃ x, a = some (.ok x) ∧ f x = some (.ok y) := by
  unfold bindOO at h
  cases a with
  | none => simp at h
  | some o =>
    cases o with
    | ok x => exact ⟨x, rfl, h⟩
    | err e => simp at h
    | panic w => simp at h

theorem mapMOO_ok {α β} (f : α → Option (Outcome β)) : ∀ (as : List α) (bs : List β),
    mapMOO f as = some (.ok bs) → ∀ b ∈ bs, ∃ a ∈ as, f a = some (.ok b)
  | [], bs, h => by simp [mapMOO] at h; subst h; intro b hb; simp at hb
  | a :: as, bs, h => by
    unfold mapMOO at h
    obtain ⟨b0, hb0, h1⟩ := bindOO_ok h
    obtain ⟨bs0, hbs0, h2⟩ := bindOO_ok h1
    simp only [Option.some.injEq, Outcome.ok.injEq] at h2
    subst h2
    intro b hb
    rcases List.mem_cons.mp hb with rfl | hb
    · exact ⟨a, by simp, hb0⟩
    · obtain ⟨a', ha', hf⟩ := mapMOO_ok f as bs0 hbs0 b hb
      exact ⟨a', List.mem_cons_of_mem _ ha', hf⟩

/-- where the properties of an expansion come from: the list itself, or the client properties of
the object of one of its flattened fields -/
theorem expandWith_mem (rec : Nat → Option (Outcome (List Prop'))) (flattening : List Nat) :
    ∀ (props out : List Prop'), expandWith rec flattening props = some (.ok out) →
      ∀ q ∈ out, q ∈ props ∨ ∃ p ∈ props, ∃ r cs, p.field = .object r ∧ rec r = some (.ok cs) ∧ q ∈ cs
  | [], out, h => by simp [expandWith] at h; subst h; intro q hq; simp at hq
  | p :: ps, out, h => by
    unfold expandWith at h
    simp only [] at h
    -- the tail
    cases ht : expandWith rec flattening ps with
    | none =>
      rw [ht] at h
      unfold appendO at h
      split at h <;> simp at h
    | some ot =>
      rw [ht] at h
      cases ot with
      | err e => unfold appendO at h; split at h <;> simp at h
      | panic w => unfold appendO at h; split at h <;> simp at h
      | ok rest =>
        have ih := expandWith_mem rec flattening ps rest ht
        have key : ∀ (here : Option (Outcome (List Prop'))) (cs : List Prop'),
            here = some (.ok cs) → appendO here (some (.ok rest)) = some (.ok out) → out = cs ++ rest := by
          intro here cs e h'
          subst e
          simp [appendO] at h'
          exact h'.symm
        have tailCase : ∀ q ∈ rest, q ∈ p :: ps ∨ ∃ p' ∈ p :: ps, ∃ r cs, p'.field = .object r ∧ rec r = some (.ok cs) ∧ q ∈ cs := by
          intro q hq
          rcases ih q hq with h1 | ⟨p', hp', r, cs, h2⟩
          · exact Or.inl (List.mem_cons_of_mem _ h1)
          · exact Or.inr ⟨p', List.mem_cons_of_mem _ hp', r, cs, h2⟩
        have keepCase : appendO (some (.ok [p])) (some (.ok rest)) = some (.ok out) →
            ∀ q ∈ out, q ∈ p :: ps ∨ ∃ p' ∈ p :: ps, ∃ r cs, p'.field = .object r ∧ rec r = some (.ok cs) ∧ q ∈ cs := by
          intro h' q hq
          have := key _ [p] rfl h'
          subst this
          rcases List.mem_append.mp hq with h1 | h1
          · simp at h1; subst h1; exact Or.inl (by simp)
          · exact tailCase q h1
        cases hf : p.flat with
        | false => simp only [hf] at h; exact keepCase h
        | true =>
          cases hfield : p.field with
          | object r =>
            simp only [hf, hfield] at h
            cases hc : flattening.contains r with
            | true => simp only [hc, if_true] at h; exact keepCase h
            | false =>
              simp only [hc, Bool.false_eq_true, if_false] at h
              cases hrec : rec r with
              | none => rw [hrec] at h; simp [appendO] at h
              | some o =>
                cases o with
                | err e => rw [hrec] at h; simp [appendO] at h
                | panic w => rw [hrec] at h; simp [appendO] at h
                | ok cs =>
                  rw [hrec] at h
                  have := key _ cs rfl h
                  subst this
                  intro q hq
                  rcases List.mem_append.mp hq with h1 | h1
                  · exact Or.inr ⟨p, by simp, r, cs, hfield, hrec, h1⟩
                  · exact tailCase q h1
          | scalar => simp only [hf, hfield] at h; exact keepCase h
          | oneof r => simp only [hf, hfield] at h; exact keepCase h
          | enum r => simp only [hf, hfield] at h; exact keepCase h
          | array e => simp only [hf, hfield] at h; exact keepCase h
          | map e => simp only [hf, hfield] at h; exact keepCase h

/-- the node `i` of the client view is the node of the graph with its `ClientProperties()` -/
theorem clientNodesFrom_get (g : Graph) : ∀ (ns : List Node) (i : Nat) (cns : List Node),
    clientNodesFrom g i ns = some (.ok cns) →
    ∀ j n, ns[j]? = some n → ∃ ps, clientProps g (i + j) n = some (.ok ps) ∧ cns[j]? = some { n with props := ps }
  | [], _, _, _ => by intro j n h; simp at h
  | n0 :: ns, i, cns, h => by
    unfold clientNodesFrom at h
    cases h0 : clientProps g i n0 with
    | none => simp [h0] at h
    | some o0 =>
      cases o0 with
      | err e => simp [h0] at h
      | panic w => simp [h0] at h
      | ok ps0 =>
        simp only [h0] at h
        cases h1 : clientNodesFrom g (i + 1) ns with
        | none => simp [h1] at h
        | some o1 =>
          cases o1 with
          | err e => simp [h1] at h
          | panic w => simp [h1] at h
          | ok rest =>
            simp only [h1, Option.some.injEq, Outcome.ok.injEq] at h
            subst h
            intro j n hj
            cases j with
            | zero =>
              simp at hj; subst hj
              exact ⟨ps0, by simpa using h0, by simp⟩
            | succ j =>
              obtain ⟨ps, hps, hc⟩ := clientNodesFrom_get g ns (i + 1) rest h1 j n (by simpa using hj)
              refine ⟨ps, ?_, by simpa using hc⟩
              have : i + (j + 1) = i + 1 + j := by omega
              rw [this]; exact hps

theorem clientGraph_get (g cg : Graph) (h : clientGraph g = some (.ok cg)) (i : Nat) (n : Node)
    (hn : g[i]? = some n) : ∃ ps, clientProps g i n = some (.ok ps) ∧ cg[i]? = some { n with props := ps } := by
  have := clientNodesFrom_get g g 0 cg h i n hn
  simpa using this

/-- the client properties of a flattened field's object are the properties of an object node of the client view -/
theorem clientPropsFuel_top (g cg : Graph) (h : clientGraph g = some (.ok cg)) (r : Nat) (cs : List Prop')
    (hr : clientPropsFuel g (g.length + 1) [] r = some (.ok cs)) :
    ∃ c, cg[r]? = some c ∧ c.kind = .object ∧ c.props = cs := by
  cases hn : g[r]? with
  | none => unfold clientPropsFuel at hr; simp [hn] at hr
  | some n =>
    have hk : n.kind = .object := by
      unfold clientPropsFuel at hr
      simp only [hn] at hr
      cases hk : n.kind with
      | object => rfl
      | oneof => simp [hk] at hr
      | enum => simp [hk] at hr
    obtain ⟨ps, hps, hc⟩ := clientGraph_get g cg h r n hn
    unfold clientProps at hps
    simp only [hk] at hps
    rw [hr] at hps
    simp only [Option.some.injEq, Outcome.ok.injEq] at hps
    subst hps
    exact ⟨_, hc, hk, rfl⟩

theorem clientMessageProps_mem (g cg : Graph) (h : clientGraph g = some (.ok cg)) (props out : List Prop')
    (ho : clientMessageProps g props = some (.ok out)) :
    ∀ q ∈ out, q ∈ props ∨ ∃ p ∈ props, ∃ r c, p.field = .object r ∧ cg[r]? = some c ∧ c.kind = .object ∧ q ∈ c.props := by
  intro q hq
  rcases expandWith_mem _ [] props out ho q hq with h1 | ⟨p, hp, r, cs, hf, hrec, hqc⟩
  · exact Or.inl h1
  · obtain ⟨c, hc, hk, hps⟩ := clientPropsFuel_top g cg h r cs hrec
    exact Or.inr ⟨p, hp, r, c, hf, hc, hk, by rw [hps]; exact hqc⟩

/-! ## `collectPackageRefs`: roots are hit, the set is closed -/

theorem collect_spec (g : Graph) (roots : List Field) (s : List Nat) (h : collect g roots = some s) :
    (∀ f ∈ roots, ∀ r, f.target? = some r → r < g.length → r ∈ s) ∧
    (∀ n ∈ s, ∀ m, Refers g n m → m ∈ s) := by
  unfold collect at h
  have sp := collectFieldsWith_closed g (fun s r => collectFuel g (g.length + 1) s r)
    (fun s r s' e => collectFuel_closed g _ s r s' e) roots [] s h
  refine ⟨?_, fun n hn m hm => sp.closed n hn (by simp) m hm⟩
  intro f hf r ht hlt
  exact sp.hit r (List.mem_filterMap.mpr ⟨f, hf, ht⟩) hlt

/-- a property of the client API's method that refers to `t`: `t` is a root's target, or a target
of a property of an object node that is a root's target -/
theorem buildMethod_targets (g cg : Graph) (hcg : clientGraph g = some (.ok cg)) (m : MethodIn) (am : ApiMethod)
    (hb : buildMethod g m = some (.ok am)) :
    ∀ q ∈ am.props, q ∈ m.req ++ m.resp.getD [] ∨
      ∃ p ∈ m.req ++ m.resp.getD [], ∃ r c, p.field = .object r ∧ cg[r]? = some c ∧ c.kind = .object ∧ q ∈ c.props := by
  unfold buildMethod at hb
  simp only [] at hb
  obtain ⟨body, hbody, hb⟩ := bindOO_ok hb
  obtain ⟨resp, hresp, hb⟩ := bindOO_ok hb
  simp only [Option.some.injEq, Outcome.ok.injEq] at hb
  subst hb
  have hsplit1 : ∀ q ∈ (splitProps m.path m.req).1, q ∈ m.req := by
    intro q hq; exact (List.mem_filter.mp hq).1
  have hsplit2 : ∀ q ∈ (splitProps m.path m.req).2, q ∈ m.req := by
    intro q hq; exact (List.mem_filter.mp hq).1
  -- a client message made of a sub-list of the request / the response
  have msg : ∀ (src : Option (List Prop')) (o : Option (List Prop')),
      clientMessage? g src = some (.ok o) → (∀ q ∈ src.getD [], q ∈ m.req ++ m.resp.getD []) →
      ∀ q ∈ o.getD [], q ∈ m.req ++ m.resp.getD [] ∨
        ∃ p ∈ m.req ++ m.resp.getD [], ∃ r c, p.field = .object r ∧ cg[r]? = some c ∧ c.kind = .object ∧ q ∈ c.props := by
    intro src o ho hsub q hq
    cases src with
    | none => simp [clientMessage?] at ho; subst ho; simp at hq
    | some ps =>
      unfold clientMessage? at ho
      obtain ⟨cs, hcs, ho⟩ := bindOO_ok ho
      simp only [Option.some.injEq, Outcome.ok.injEq] at ho
      subst ho
      rcases clientMessageProps_mem g cg hcg ps cs hcs q hq with h1 | ⟨p, hp, r, c, h2⟩
      · exact Or.inl (hsub q h1)
      · exact Or.inr ⟨p, hsub p hp, r, c, h2⟩
  intro q hq
  simp only [ApiMethod.props, List.mem_append] at hq
  rcases hq with ((hq | hq) | hq) | hq
  · exact Or.inl (List.mem_append_left _ (hsplit1 q hq))
  · by_cases hv : m.verb.hasBody = true
    · simp [hv] at hq
    · simp only [hv, Bool.false_eq_true, if_false] at hq
      exact Or.inl (List.mem_append_left _ (hsplit2 q hq))
  · by_cases hv : m.verb.hasBody = true
    · simp only [hv, if_true] at hbody
      exact msg _ body hbody (fun q hq => List.mem_append_left _ (hsplit2 q hq)) q hq
    · simp only [hv, Bool.false_eq_true, if_false, Option.some.injEq, Outcome.ok.injEq] at hbody
      subst hbody; simp at hq
  · exact msg _ resp hresp (fun q hq => List.mem_append_right _ hq) q hq


/-! ## the path grouping of the document is `groupOps` of `Swagger.lean` -/

def ApiMethod.toSOp (m : ApiMethod) : SOp := { verb := m.verb.lower, path := m.path }

def ClientAPI.sops (api : ClientAPI) : List SOp := api.services.flatMap fun s => s.methods.map ApiMethod.toSOp

theorem addMethods_proj (service : Str) : ∀ (ms : List ApiMethod) (items out : List DPathItem),
    addMethods service items ms = .ok out →
    out.map (·.map DOperation.toSOp) = (ms.map ApiMethod.toSOp).foldl addOp (items.map (·.map DOperation.toSOp))
  | [], items, out, h => by simp [addMethods] at h; subst h; rfl
  | m :: ms, items, out, h => by
    obtain ⟨op, hop, hof⟩ := buildOperation_ok service m
    simp only [addMethods, hop] at h
    have ih := addMethods_proj service ms _ out h
    rw [ih, addOperation_toSOp]
    have : op.toSOp = m.toSOp := by
      unfold DOperation.toSOp ApiMethod.toSOp
      rw [hof.verb, hof.path]
    simp [this]

theorem addServices_proj : ∀ (ss : List ApiService) (items out : List DPathItem),
    addServices items ss = .ok out →
    out.map (·.map DOperation.toSOp) =
      (ss.flatMap fun s => s.methods.map ApiMethod.toSOp).foldl addOp (items.map (·.map DOperation.toSOp))
  | [], items, out, h => by simp [addServices] at h; subst h; rfl
  | s :: ss, items, out, h => by
    obtain ⟨mid, hmid, _⟩ := addMethods_ok s.name s.methods items
    simp only [addServices, hmid] at h
    rw [addServices_proj ss mid out h, addMethods_proj s.name s.methods items mid hmid]
    simp [List.foldl_append]

theorem buildSwagger_paths (api : ClientAPI) (doc : Document) (h : buildSwagger api = .ok doc) :
    doc.paths.map (·.map DOperation.toSOp) = groupOps api.sops := by
  unfold buildSwagger at h
  cases hp : addServices [] api.services with
  | err e => simp [hp] at h
  | panic w => simp [hp] at h
  | ok paths =>
    simp only [hp] at h
    cases hc : convertComponents api.schemas with
    | err e => simp [hc] at h
    | panic w => simp [hc] at h
    | ok cs =>
      simp only [hc, Outcome.ok.injEq] at h
      subst h
      simpa [groupOps, ClientAPI.sops] using addServices_proj api.services [] paths hp

/-! ## every `$ref` of the document names a component -/

theorem swagger_refs_resolve (g cg : Graph) (services : List ServiceIn) (entities : List EntityRoots)
    (api : ClientAPI) (doc : Document)
    (hcg : clientGraph g = some (.ok cg)) (hl : RefsLinked cg)
    (hm : ∀ s ∈ services, ∀ m ∈ s.methods, PropsLinked cg (m.req ++ m.resp.getD []))
    (hb : buildClient g services entities = some (.ok api)) (hd : buildSwagger api = .ok doc) :
    ∀ r ∈ doc.refs, r ∈ doc.componentKeys := by
  -- the client API
  unfold buildClient at hb
  obtain ⟨svcs, hsvcs, hb⟩ := bindOO_ok hb
  obtain ⟨cg', hcg', hb⟩ := bindOO_ok hb
  rw [hcg] at hcg'
  simp only [Option.some.injEq, Outcome.ok.injEq] at hcg'
  subst hcg'
  obtain ⟨s, hs, hb⟩ := bindOO_ok hb
  simp only [Option.some.injEq, Outcome.ok.injEq] at hb
  subst hb
  -- the collected set
  have hcol : collect cg (packageRoots services entities).fields = some s := by
    unfold clientSchemas at hs
    simp only [hcg] at hs
    cases hc : collect cg (packageRoots services entities).fields with
    | none => simp [hc] at hs
    | some s' => simpa [hc] using hs
  obtain ⟨hit, closed⟩ := collect_spec cg _ s hcol
  -- the document
  obtain ⟨doc', hdoc', hops, hkeys, hcomp⟩ := buildSwagger_ok
    { services := svcs, schemas := s.filterMap fun i => (cg[i]?).map fun n => (i, n) }
  rw [hd] at hdoc'
  simp only [Outcome.ok.injEq] at hdoc'
  subst hdoc'
  have inKeys : ∀ r, r ∈ s → r < cg.length → r ∈ doc.componentKeys := by
    intro r hr hlt
    rw [hkeys]
    simp only [List.map_filterMap, List.mem_filterMap]
    refine ⟨r, hr, ?_⟩
    have : cg[r]? = some cg[r] := List.getElem?_eq_getElem hlt
    simp [this]
  have stepTo : ∀ i c q r, i ∈ s → cg[i]? = some c → q ∈ c.walkProps → q.field.target? = some r → r ∈ s ∧ r < cg.length := by
    intro i c q r hi hc hq ht
    have hlt : r < cg.length := hl c (List.mem_of_getElem? hc) q (mem_walkProps c q hq) r ht
    exact ⟨closed i hi r ⟨c, hc, q, hq, ht, hlt⟩, hlt⟩
  intro r hr
  simp only [Document.refs, List.mem_append] at hr
  rcases hr with hr | hr
  · -- an operation
    obtain ⟨o, ho, hro⟩ := List.mem_flatMap.mp hr
    obtain ⟨as, has, am, ham, hbo⟩ := (hops o).mp ho
    obtain ⟨o', ho', hof⟩ := buildOperation_ok as.name am
    rw [hbo] at ho'
    simp only [Outcome.ok.injEq] at ho'
    subst ho'
    obtain ⟨q, hq, hqt⟩ := List.mem_filterMap.mp (hof.refs r hro)
    -- the declared method behind it
    obtain ⟨si, hsi, hbs⟩ := mapMOO_ok (buildService g) services svcs hsvcs as has
    unfold buildService at hbs
    obtain ⟨ms, hms, hbs⟩ := bindOO_ok hbs
    simp only [Option.some.injEq, Outcome.ok.injEq] at hbs
    subst hbs
    obtain ⟨mi, hmi, hbm⟩ := mapMOO_ok (buildMethod g) si.methods ms hms am ham
    have rootOf : ∀ p ∈ mi.req ++ mi.resp.getD [], ∀ t, p.field.target? = some t → t ∈ s ∧ t < cg.length := by
      intro p hp t ht
      have hlt : t < cg.length := hm si hsi mi hmi p hp t ht
      refine ⟨hit p.field ?_ t ht hlt, hlt⟩
      apply mem_fields_of_method (packageRoots services entities) mi.roots
      · unfold PackageRoots.methods packageRoots
        apply List.mem_append_right
        simp only [List.mem_flatten, List.mem_map]
        exact ⟨si.methods.map MethodIn.roots, ⟨si, hsi, rfl⟩, List.mem_map.mpr ⟨mi, hmi, rfl⟩⟩
      · unfold MethodRoots.fields MethodIn.roots
        simp only [List.mem_append] at hp ⊢
        rcases hp with hp | hp
        · exact Or.inl (List.mem_map.mpr ⟨p, hp, rfl⟩)
        · right
          cases hresp : mi.resp with
          | none => rw [hresp] at hp; simp at hp
          | some ps => rw [hresp] at hp; simp only [Option.map_some, Option.getD_some]; exact List.mem_map.mpr ⟨p, by simpa using hp, rfl⟩
    rcases buildMethod_targets g cg hcg mi am hbm q hq with h1 | ⟨p, hp, r0, c, hf, hc, hk, hqc⟩
    · obtain ⟨h1, h2⟩ := rootOf q h1 r hqt
      exact inKeys r h1 h2
    · obtain ⟨h0, _⟩ := rootOf p hp r0 (by rw [hf]; rfl)
      have hqw : q ∈ c.walkProps := by unfold Node.walkProps; rw [hk]; exact hqc
      obtain ⟨h1, h2⟩ := stepTo r0 c q r h0 hc hqw hqt
      exact inKeys r h1 h2
  · -- a component
    obtain ⟨x, hx, hrx⟩ := hcomp r hr
    obtain ⟨i, hi, hxi⟩ := List.mem_filterMap.mp hx
    cases hci : cg[i]? with
    | none => simp [hci] at hxi
    | some c =>
      simp only [hci, Option.map_some, Option.some.injEq] at hxi
      subst hxi
      obtain ⟨q, hq, hqt⟩ := List.mem_filterMap.mp hrx
      obtain ⟨h1, h2⟩ := stepTo i c q r hi hci hq hqt
      exact inKeys r h1 h2

/-- the client builder returns a client API on `FlatLinked` graphs whose message properties
flatten only objects of the graph -/
def MsgFlatOk (g : Graph) (ps : List Prop') : Prop := ∀ p ∈ ps, p.flatOk g = true

instance (g : Graph) (ps : List Prop') : Decidable (MsgFlatOk g ps) := by
  unfold MsgFlatOk
  exact List.decidableBAll _ _


/-! ## the client API itself: every reference names a schema of the schema map (what the J5 JSON
rendering of the API shows: `codec.ProtoToJSON` prints these messages field by field) -/

/-- every reference of the client API: method parameters, bodies, responses, and the properties of
the schemas of the schema map -/
def ClientAPI.refs (api : ClientAPI) : List Nat :=
  (api.services.flatMap fun s => s.methods.flatMap fun m => m.props.filterMap (·.field.target?))
    ++ api.schemas.flatMap fun x => x.2.walkProps.filterMap (·.field.target?)

def ClientAPI.schemaKeys (api : ClientAPI) : List Nat := api.schemas.map (·.1)

theorem client_refs_resolve (g cg : Graph) (services : List ServiceIn) (entities : List EntityRoots)
    (api : ClientAPI)
    (hcg : clientGraph g = some (.ok cg)) (hl : RefsLinked cg)
    (hm : ∀ s ∈ services, ∀ m ∈ s.methods, PropsLinked cg (m.req ++ m.resp.getD []))
    (hb : buildClient g services entities = some (.ok api)) :
    ∀ r ∈ api.refs, r ∈ api.schemaKeys := by
  unfold buildClient at hb
  obtain ⟨svcs, hsvcs, hb⟩ := bindOO_ok hb
  obtain ⟨cg', hcg', hb⟩ := bindOO_ok hb
  rw [hcg] at hcg'
  simp only [Option.some.injEq, Outcome.ok.injEq] at hcg'
  subst hcg'
  obtain ⟨s, hs, hb⟩ := bindOO_ok hb
  simp only [Option.some.injEq, Outcome.ok.injEq] at hb
  subst hb
  have hcol : collect cg (packageRoots services entities).fields = some s := by
    unfold clientSchemas at hs
    simp only [hcg] at hs
    cases hc : collect cg (packageRoots services entities).fields with
    | none => simp [hc] at hs
    | some s' => simpa [hc] using hs
  obtain ⟨hit, closed⟩ := collect_spec cg _ s hcol
  have inKeys : ∀ r, r ∈ s → r < cg.length →
      r ∈ ClientAPI.schemaKeys { services := svcs, schemas := s.filterMap fun i => (cg[i]?).map fun n => (i, n) } := by
    intro r hr hlt
    simp only [ClientAPI.schemaKeys, List.map_filterMap, List.mem_filterMap]
    refine ⟨r, hr, ?_⟩
    have : cg[r]? = some cg[r] := List.getElem?_eq_getElem hlt
    simp [this]
  have stepTo : ∀ i c q r, i ∈ s → cg[i]? = some c → q ∈ c.walkProps → q.field.target? = some r → r ∈ s ∧ r < cg.length := by
    intro i c q r hi hc hq ht
    have hlt : r < cg.length := hl c (List.mem_of_getElem? hc) q (mem_walkProps c q hq) r ht
    exact ⟨closed i hi r ⟨c, hc, q, hq, ht, hlt⟩, hlt⟩
  intro r hr
  simp only [ClientAPI.refs, List.mem_append] at hr
  rcases hr with hr | hr
  · obtain ⟨as, has, hr⟩ := List.mem_flatMap.mp hr
    obtain ⟨am, ham, hr⟩ := List.mem_flatMap.mp hr
    obtain ⟨q, hq, hqt⟩ := List.mem_filterMap.mp hr
    obtain ⟨si, hsi, hbs⟩ := mapMOO_ok (buildService g) services svcs hsvcs as has
    unfold buildService at hbs
    obtain ⟨ms, hms, hbs⟩ := bindOO_ok hbs
    simp only [Option.some.injEq, Outcome.ok.injEq] at hbs
    subst hbs
    obtain ⟨mi, hmi, hbm⟩ := mapMOO_ok (buildMethod g) si.methods ms hms am ham
    have rootOf : ∀ p ∈ mi.req ++ mi.resp.getD [], ∀ t, p.field.target? = some t → t ∈ s ∧ t < cg.length := by
      intro p hp t ht
      have hlt : t < cg.length := hm si hsi mi hmi p hp t ht
      refine ⟨hit p.field ?_ t ht hlt, hlt⟩
      apply mem_fields_of_method (packageRoots services entities) mi.roots
      · unfold PackageRoots.methods packageRoots
        apply List.mem_append_right
        simp only [List.mem_flatten, List.mem_map]
        exact ⟨si.methods.map MethodIn.roots, ⟨si, hsi, rfl⟩, List.mem_map.mpr ⟨mi, hmi, rfl⟩⟩
      · unfold MethodRoots.fields MethodIn.roots
        simp only [List.mem_append] at hp ⊢
        rcases hp with hp | hp
        · exact Or.inl (List.mem_map.mpr ⟨p, hp, rfl⟩)
        · right
          cases hresp : mi.resp with
          | none => rw [hresp] at hp; simp at hp
          | some ps => rw [hresp] at hp; simp only [Option.map_some, Option.getD_some]; exact List.mem_map.mpr ⟨p, by simpa using hp, rfl⟩
    rcases buildMethod_targets g cg hcg mi am hbm q hq with h1 | ⟨p, hp, r0, c, hf, hc, hk, hqc⟩
    · obtain ⟨h1, h2⟩ := rootOf q h1 r hqt
      exact inKeys r h1 h2
    · obtain ⟨h0, _⟩ := rootOf p hp r0 (by rw [hf]; rfl)
      have hqw : q ∈ c.walkProps := by unfold Node.walkProps; rw [hk]; exact hqc
      obtain ⟨h1, h2⟩ := stepTo r0 c q r h0 hc hqw hqt
      exact inKeys r h1 h2
  · obtain ⟨x, hx, hrx⟩ := List.mem_flatMap.mp hr
    obtain ⟨i, hi, hxi⟩ := List.mem_filterMap.mp hx
    cases hci : cg[i]? with
    | none => simp [hci] at hxi
    | some c =>
      simp only [hci, Option.map_some, Option.some.injEq] at hxi
      subst hxi
      obtain ⟨q, hq, hqt⟩ := List.mem_filterMap.mp hrx
      obtain ⟨h1, h2⟩ := stepTo i c q r hi hci hq hqt
      exact inKeys r h1 h2

/-! ## the client builder is total on `FlatLinked` graphs -/

/-- `expandWith` without the provenance part of `expandWith_ok` -/
theorem expandWith_ok' (rec : Nat → Option (Outcome (List Prop'))) (flattening : List Nat)
    (props : List Prop')
    (hrec : ∀ p ∈ props, p.flat = true → ∀ r, p.field = .object r → flattening.contains r = false →
      ∃ cs, rec r = some (.ok cs)) :
    ∃ out, expandWith rec flattening props = some (.ok out) := by
  induction props with
  | nil => exact ⟨[], rfl⟩
  | cons p ps ih =>
    obtain ⟨rest, hrest⟩ := ih (fun q hq => hrec q (List.mem_cons_of_mem _ hq))
    have keep : ∃ out, appendO (some (.ok [p])) (expandWith rec flattening ps) = some (.ok out) :=
      ⟨[p] ++ rest, by simp [appendO, hrest]⟩
    unfold expandWith
    simp only []
    cases hf : p.flat with
    | false => simpa using keep
    | true =>
      cases hfield : p.field with
      | object r =>
        simp only []
        cases hc : flattening.contains r with
        | true => simpa using keep
        | false =>
          obtain ⟨cs, hcs⟩ := hrec p (by simp) hf r hfield hc
          simp only [Bool.false_eq_true, if_false, hcs, hrest, appendO]
          exact ⟨cs ++ rest, rfl⟩
      | scalar => simpa using keep
      | oneof r => simpa using keep
      | enum r => simpa using keep
      | array e => simpa using keep
      | map e => simpa using keep

theorem clientMessageProps_ok (g : Graph) (hl : FlatLinked g) (props : List Prop') (hp : MsgFlatOk g props) :
    ∃ out, clientMessageProps g props = some (.ok out) := by
  unfold clientMessageProps
  apply expandWith_ok'
  intro p hpm hf r hfield _
  obtain ⟨n, hn, hk⟩ := flatOk_target (hp p hpm) hf hfield
  obtain ⟨ps, hps, _⟩ := clientPropsFuel_ok g hl (g.length + 1) [] r n ⟨List.nodup_nil, by simp⟩ (by simp) hn hk (by simp)
  exact ⟨ps, hps⟩

theorem clientMessage?_ok (g : Graph) (hl : FlatLinked g) (m : Option (List Prop')) (hp : MsgFlatOk g (m.getD [])) :
    ∃ out, clientMessage? g m = some (.ok out) ∧ out.isSome = m.isSome := by
  cases m with
  | none => exact ⟨none, rfl, rfl⟩
  | some ps =>
    obtain ⟨cs, hcs⟩ := clientMessageProps_ok g hl ps hp
    exact ⟨some cs, by simp [clientMessage?, hcs, bindOO], rfl⟩

theorem buildMethod_ok (g : Graph) (hl : FlatLinked g) (m : MethodIn)
    (hreq : MsgFlatOk g m.req) (hresp : MsgFlatOk g (m.resp.getD [])) :
    ∃ am, buildMethod g m = some (.ok am) ∧ am.name = m.name ∧ am.verb = m.verb ∧ am.path = m.path ∧
      am.pathParams.map (·.name) = (fillRequest m.verb.hasBody m.path (m.req.map (·.name))).path ∧
      am.queryParams.map (·.name) = (fillRequest m.verb.hasBody m.path (m.req.map (·.name))).query ∧
      am.body.isSome = m.verb.hasBody ∧ am.response.isSome = m.resp.isSome := by
  have hrest : MsgFlatOk g (splitProps m.path m.req).2 := fun p hp => hreq p (List.mem_filter.mp hp).1
  obtain ⟨resp, hr, hrs⟩ := clientMessage?_ok g hl m.resp hresp
  have hfm : ∀ (l : List Prop') (f : Str → Bool), (l.filter (fun p => f p.name)).map (·.name) = (l.map (·.name)).filter f := by
    intro l f
    induction l with
    | nil => rfl
    | cons a l ih =>
      simp only [List.filter_cons, List.map_cons]
      cases hfa : f a.name <;> simp [ih]
  cases hv : m.verb.hasBody with
  | true =>
    obtain ⟨body, hbd, hbs⟩ := clientMessage?_ok g hl (some (splitProps m.path m.req).2) hrest
    refine ⟨{ name := m.name, verb := m.verb, path := m.path, pathParams := (splitProps m.path m.req).1, queryParams := [], body, response := resp },
      by simp [buildMethod, hv, hbd, hr, bindOO], rfl, rfl, rfl, ?_, ?_, by simpa using hbs, hrs⟩
    · simp only [splitProps, fillRequest, if_true]
      exact hfm m.req (fun n => (pathParamNames m.path).contains n)
    · simp [fillRequest]
  | false =>
    refine ⟨{ name := m.name, verb := m.verb, path := m.path, pathParams := (splitProps m.path m.req).1, queryParams := (splitProps m.path m.req).2, body := none, response := resp },
      by simp [buildMethod, hv, hr, bindOO], rfl, rfl, rfl, ?_, ?_, rfl, hrs⟩
    · simp only [splitProps, fillRequest, Bool.false_eq_true, if_false]
      exact hfm m.req (fun n => (pathParamNames m.path).contains n)
    · simp only [splitProps, fillRequest, Bool.false_eq_true, if_false]
      exact hfm m.req (fun n => !(pathParamNames m.path).contains n)

theorem mapMOO_total {α β} (f : α → Option (Outcome β)) : ∀ (as : List α),
    (∀ a ∈ as, ∃ b, f a = some (.ok b)) → ∃ bs, mapMOO f as = some (.ok bs) ∧ bs.length = as.length
  | [], _ => ⟨[], rfl, rfl⟩
  | a :: as, h => by
    obtain ⟨b, hb⟩ := h a (by simp)
    obtain ⟨bs, hbs, hlen⟩ := mapMOO_total f as (fun x hx => h x (List.mem_cons_of_mem _ hx))
    exact ⟨b :: bs, by simp [mapMOO, hb, hbs, bindOO], by simp [hlen]⟩

/-- request and response messages flatten only objects of the graph -/
def ServicesFlatOk (g : Graph) (services : List ServiceIn) : Prop :=
  ∀ s ∈ services, ∀ m ∈ s.methods, MsgFlatOk g m.req ∧ MsgFlatOk g (m.resp.getD [])

theorem buildClient_ok (g : Graph) (hl : FlatLinked g) (services : List ServiceIn) (entities : List EntityRoots)
    (hs : ServicesFlatOk g services) :
    ∃ api, buildClient g services entities = some (.ok api) ∧ api.services.length = services.length := by
  obtain ⟨svcs, hsvcs, hlen⟩ := mapMOO_total (buildService g) services (by
    intro s hsm
    obtain ⟨ms, hms, _⟩ := mapMOO_total (buildMethod g) s.methods (by
      intro m hmm
      obtain ⟨am, ham, _⟩ := buildMethod_ok g hl m (hs s hsm m hmm).1 (hs s hsm m hmm).2
      exact ⟨am, ham⟩)
    exact ⟨{ name := s.name, methods := ms }, by simp [buildService, hms, bindOO]⟩)
  obtain ⟨cg, sch, hcg, hsch⟩ := clientSchemas_ok g (packageRoots services entities) hl
  exact ⟨{ services := svcs, schemas := sch.filterMap fun i => (cg[i]?).map fun n => (i, n) },
    by simp [buildClient, hsvcs, hcg, hsch, bindOO], hlen⟩

end J5V.Pipe
