import J5V.Pipe.Path
import J5V.Pipe.Names
import J5V.Pipe.Split
/-!
# C16 — the service part of the chain, composed (core only)

`declared service → (sourcewalk + j5convert) → descriptor → (structure.buildService) → source API
→ (j5client.methodFromSource + fillRequest) → client API`, on exactly the data the statement of C16
speaks about: service and method names, verb, path, request split, response.

Not in this model (reached by the `pipe.chain` stream only): schemas of the properties, auth,
method options, entity-generated services (C17's model), image building, JSON / OpenAPI output.
-/
namespace J5V.Pipe
open J5V.Compile J5V.Go

structure MethodDecl where
  name : Str
  verb : Verb
  path : Str
  req : List Str            -- request property names, in order
  hasResp : Bool
  deriving Repr, DecidableEq

structure ServiceDecl where
  name : Str
  base : Option Str
  methods : List MethodDecl
  deriving Repr, DecidableEq

/-- `resolvedPath` of `sourcewalk/service.go`: `path.Join(*BasePath, HttpPath)` when a base path is set -/
def resolvedPath (base : Option Str) (p : Str) : Str :=
  match base with
  | none => p
  | some b => pathJoin [b, p]

/-! ## descriptor level -/

structure DMethod where
  name : Str
  input : MsgRef
  output : MsgRef
  verb : Verb
  pattern : Str
  fields : List PField
  deriving Repr, DecidableEq

structure DService where
  pkg : Str
  name : Str
  methods : List DMethod
  deriving Repr, DecidableEq

def mapMOutcome {α β} (f : α → Outcome β) : List α → Outcome (List β)
  | [] => .ok []
  | a :: as =>
    match f a with
    | .ok b =>
      match mapMOutcome f as with
      | .ok bs => .ok (b :: bs)
      | .err e => .err e
      | .panic w => .panic w
    | .err e => .err e
    | .panic w => .panic w

/-- `visitServiceMethodNode` -/
def compileMethod (pkg : Str) (base : Option Str) (m : MethodDecl) : Outcome DMethod :=
  match rewrite m.req (resolvedPath base m.path) with
  | .ok pat => .ok {
      name := m.name
      input := { pkg := pkg, name := requestName m.name }
      output := producedOutput pkg m.name m.hasResp
      verb := m.verb
      pattern := pat
      fields := fieldsOf m.req }
  | .err e => .err e
  | .panic w => .panic w

/-- `serviceBuilder.accept` + `visitServiceNode`; `pkg` is the `…service` sub-package -/
def compileService (pkg : Str) (s : ServiceDecl) : Outcome DService :=
  match mapMOutcome (compileMethod pkg s.base) s.methods with
  | .ok ms => .ok { pkg := pkg, name := serviceName s.name, methods := ms }
  | .err e => .err e
  | .panic w => .panic w

/-! ## source API level (`structure`) -/

structure SMethod where
  name : Str
  verb : Verb
  path : Str
  requestSchema : Str
  responseSchema : Str
  deriving Repr, DecidableEq

structure SService where
  name : Str
  methods : List SMethod
  deriving Repr, DecidableEq

/-- `buildMethod` -/
def structureMethod (pkg : Str) (d : DMethod) : Outcome SMethod :=
  if !acceptMethod pkg d.name d.input d.output then .err "name-rejected"
  else
    match unrewrite d.fields d.pattern with
    | .ok p => .ok { name := d.name, verb := d.verb, path := p,
                     requestSchema := d.input.name, responseSchema := d.output.name }
    | .err e => .err e
    | .panic w => .panic w

/-- `addStructure` + `buildService` for one service descriptor -/
def structureService (d : DService) : Outcome SService :=
  match classify d.name with
  | .service =>
    match mapMOutcome (structureMethod d.pkg) d.methods with
    | .ok ms => .ok { name := d.name, methods := ms }
    | .err e => .err e
    | .panic w => .panic w
  | _ => .err "not-a-service"

/-! ## client API level (`j5client`) -/

structure CMethod where
  name : Str
  verb : Verb
  path : Str
  request : Request
  response : Option Str      -- `none` = raw response
  deriving Repr, DecidableEq

structure CService where
  name : Str
  methods : List CMethod
  deriving Repr, DecidableEq

/-- `methodFromSource` + `fillRequest`; `props` = the property names of the request schema -/
def clientMethod (s : SMethod) (props : List Str) : CMethod :=
  { name := s.name, verb := s.verb, path := s.path,
    request := fillRequest s.verb.hasBody s.path props,
    response := if isRawResponse s.responseSchema then none else some s.responseSchema }

/-- the request schema of a method holds the JSON names of the descriptor's fields, in order -/
def clientService (d : DService) (s : SService) : CService :=
  { name := s.name,
    methods := (s.methods.zip d.methods).map fun (sm, dm) => clientMethod sm (dm.fields.map (·.json)) }

/-- the whole chain for one declared service -/
def chainService (pkg : Str) (s : ServiceDecl) : Outcome CService :=
  match compileService pkg s with
  | .ok d =>
    match structureService d with
    | .ok st => .ok (clientService d st)
    | .err e => .err e
    | .panic w => .panic w
  | .err e => .err e
  | .panic w => .panic w

/-! ## what the declaration says -/

def declaredMethod (base : Option Str) (m : MethodDecl) : CMethod :=
  let p := resolvedPath base m.path
  { name := m.name, verb := m.verb, path := p,
    request := fillRequest m.verb.hasBody p m.req,
    response := if m.hasResp then some (responseName m.name) else none }

def declaredService (s : ServiceDecl) : CService :=
  { name := serviceName s.name, methods := s.methods.map (declaredMethod s.base) }

/-- what "the compiler accepts the service" amounts to on this data: literal path parts are free
of `{ } * :` (checked by `visitServiceMethodNode` since `fix:` 5ac34d8), every path parameter names
a request property (checked there too), and distinct properties have distinct proto field names
(protobuf's linker rejects the message otherwise) -/
def ValidMethod (base : Option Str) (m : MethodDecl) : Prop :=
  LiteralsClean (resolvedPath base m.path) ∧ SnakeInjective m.req
    ∧ ∀ n ∈ pathParamNames (resolvedPath base m.path), n ∈ m.req

def ValidService (s : ServiceDecl) : Prop := ∀ m ∈ s.methods, ValidMethod s.base m

instance (base : Option Str) (m : MethodDecl) : Decidable (ValidMethod base m) := by
  unfold ValidMethod; infer_instance
instance (s : ServiceDecl) : Decidable (ValidService s) := by
  unfold ValidService; infer_instance

end J5V.Pipe
