import J5V.Pipe.Entity
import J5V.Pipe.JoinProofs
/-! # Lemmas for C16: shape of the query service an entity generates, and its path parameters -/
namespace J5V.Pipe
open J5V.Go
open J5V.Compile (Str toCamel toSnake joinWith splitOnByte pathJoin)

/-- the three methods of the query service, as declarations -/
def entityGetDecl (e : J5V.Compile.Entity) : MethodDecl :=
  { name := toCamel e.name ++ b!"Get", verb := .get,
    path := joinWith b!"/" (J5V.Compile.Entity.colonPath (J5V.Compile.Entity.getKeys e)),
    req := propNames (J5V.Compile.Entity.getKeys e), hasResp := true }

def entityListDecl (e : J5V.Compile.Entity) : MethodDecl :=
  { name := toCamel e.name ++ b!"List", verb := .get,
    path := joinWith b!"/" (J5V.Compile.Entity.colonPath (J5V.Compile.Entity.listKeys e)),
    req := propNames (J5V.Compile.Entity.listKeys e) ++ [b!"page", b!"query"], hasResp := true }

def entityEventsDecl (e : J5V.Compile.Entity) : MethodDecl :=
  { name := toCamel e.name ++ b!"Events", verb := .get,
    path := joinWith b!"/" (J5V.Compile.Entity.colonPath (J5V.Compile.Entity.getKeys e) ++ [b!"events"]),
    req := propNames (J5V.Compile.Entity.getKeys e) ++ [b!"page", b!"query"], hasResp := true }

theorem entityQueryDecl_eq (pkg : Str) (e : J5V.Compile.Entity) :
    entityQueryDecl pkg e = some
      { name := toCamel e.name ++ b!"Query", base := some (entityQueryBase pkg e),
        methods := [entityGetDecl e, entityListDecl e, entityEventsDecl e] } := by
  simp [entityQueryDecl, serviceDeclOfSource, methodDeclsOfSource, methodDeclOfSource, verbOfSource,
    J5V.Compile.Entity.queryService, J5V.Compile.Entity.getMethod, J5V.Compile.Entity.listMethod,
    J5V.Compile.Entity.eventsMethod, entityGetDecl, entityListDecl, entityEventsDecl, entityQueryBase,
    propNames, J5V.Compile.Entity.pageReq, J5V.Compile.Entity.queryReq, J5V.Compile.Property.name]

theorem colonPart_normal (k : Str) (hk : (47 : Nat) ∉ k) :
    NormalPart (b!":" ++ k) ∧ (47 : Nat) ∉ (b!":" ++ k) := by
  refine ⟨⟨by simp, by simp, by simp⟩, ?_⟩
  simp; exact hk

theorem filterMap_colonPath (ps : List J5V.Compile.Property) :
    (J5V.Compile.Entity.colonPath ps).filterMap paramName? = propNames ps := by
  induction ps with
  | nil => rfl
  | cons p ps ih =>
    simp only [J5V.Compile.Entity.colonPath, propNames, List.map_cons] at ih ⊢
    simp only [List.filterMap_cons]
    have : paramName? (b!":" ++ p.name) = some p.name := rfl
    rw [this, ih]

/-- path parameters of a method of the query service = the parameters of its own path, when the
base path has no parameter component and no key name contains `/` -/
theorem entity_path_params (base : Str) (keys : List J5V.Compile.Property) (tail : List Str)
    (hb : base ≠ []) (hbase : ∀ c ∈ splitOnByte 47 base, paramName? c = none)
    (hkeys : ∀ k ∈ keys, (47 : Nat) ∉ k.name)
    (htail : ∀ t ∈ tail, (NormalPart t ∧ (47 : Nat) ∉ t) ∧ paramName? t = none) :
    pathParamNames (resolvedPath (some base) (joinWith b!"/" (J5V.Compile.Entity.colonPath keys ++ tail)))
      = propNames keys := by
  unfold resolvedPath
  simp only []
  rw [pathParamNames_join base _ hb _ hbase]
  · rw [List.filterMap_append, filterMap_colonPath]
    have : tail.filterMap paramName? = [] :=
      List.filterMap_eq_nil_iff.mpr (fun t ht => (htail t ht).2)
    rw [this]; simp
  · intro d hd
    rcases List.mem_append.mp hd with h | h
    · simp only [J5V.Compile.Entity.colonPath, List.mem_map] at h
      obtain ⟨k, hk, rfl⟩ := h
      exact colonPart_normal k.name (hkeys k hk)
    · exact (htail d h).1

theorem entityQueryBase_ne_nil (pkg : Str) (e : J5V.Compile.Entity) : entityQueryBase pkg e ≠ [] := by
  simp [entityQueryBase]

end J5V.Pipe
