/-!
# Go-semantics prelude: outcomes

Every modelled Go function returns an `Outcome`: a normal return value, a returned
`error` (classified by a small tag, never by message text), or a run-time panic.
"Never panics" is then a theorem about the model, not an artefact of a totalised definition.
-/
namespace J5V.Go

inductive Outcome (α : Type) where
  | ok (a : α)
  | err (tag : String)
  | panic (why : String)
  deriving Repr, DecidableEq, Inhabited

namespace Outcome

def isOk {α} : Outcome α → Bool
  | ok _ => true
  | _ => false

def isErr {α} : Outcome α → Bool
  | err _ => true
  | _ => false

def isPanic {α} : Outcome α → Bool
  | panic _ => true
  | _ => false

def bind {α β} (x : Outcome α) (f : α → Outcome β) : Outcome β :=
  match x with
  | ok a => f a
  | err t => err t
  | panic w => panic w

def map {α β} (f : α → β) (x : Outcome α) : Outcome β :=
  match x with
  | ok a => ok (f a)
  | err t => err t
  | panic w => panic w

instance : Monad Outcome where
  pure := ok
  bind := bind

@[simp] theorem bind_ok {α β} (a : α) (f : α → Outcome β) : (ok a >>= f) = f a := rfl
@[simp] theorem bind_err {α β} (t : String) (f : α → Outcome β) : (err t >>= f) = err t := rfl
@[simp] theorem bind_panic {α β} (t : String) (f : α → Outcome β) : (panic t >>= f) = panic t := rfl
@[simp] theorem pure_eq {α} (a : α) : (pure a : Outcome α) = ok a := rfl

/-- canonical class string used on the line protocol -/
def cls {α} : Outcome α → String
  | ok _ => "ok"
  | err _ => "err"
  | panic _ => "panic"

end Outcome
end J5V.Go
