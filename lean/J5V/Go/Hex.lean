/-!
# Line-protocol helpers: hex encoding of byte strings (core only)
-/
namespace J5V.Go

def hexDigit (n : Nat) : Char :=
  if n < 10 then Char.ofNat (48 + n) else Char.ofNat (87 + n)

def hexVal (c : Char) : Option Nat :=
  let n := c.toNat
  if 48 ≤ n ∧ n ≤ 57 then some (n - 48)
  else if 97 ≤ n ∧ n ≤ 102 then some (n - 87)
  else if 65 ≤ n ∧ n ≤ 70 then some (n - 55)
  else none

def toHex (bs : List Nat) : String :=
  String.ofList (bs.flatMap fun b => [hexDigit (b / 16 % 16), hexDigit (b % 16)])

partial def fromHexAux : List Char → List Nat → Option (List Nat)
  | [], acc => some acc.reverse
  | [_], _ => none
  | a :: b :: rest, acc =>
    match hexVal a, hexVal b with
    | some x, some y => fromHexAux rest ((x * 16 + y) :: acc)
    | _, _ => none

/-- "-" denotes the empty byte string on the wire. -/
def fromHex (s : String) : Option (List Nat) :=
  if s == "-" then some [] else fromHexAux s.toList []

def toHexW (bs : List Nat) : String := if bs.isEmpty then "-" else toHex bs

end J5V.Go
