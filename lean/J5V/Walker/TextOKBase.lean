import J5V.Walker.Print
import J5V.Bcl.TreeText
import J5V.Bcl.Utf8Proofs
/-!
# `toBcl ast` has the shape the text round trip needs: infrastructure (core only)

Generic constructors: identifier tokens from ASCII identifier names, references, tags, values,
assignments and block headers of `Print.lean` satisfy `IdentWF` / `RefWF` / `TagWF` / `TopValueWF` /
`AssignWF` / `HeaderWF` for every classifier that agrees with ASCII on ASCII (`ClsAscii`).
-/
namespace J5V.Walker
open J5V.Bcl

/-- the classifier agrees with ASCII on ASCII: letters, digits, white space of runes < 128 -/
def ClsAscii (cls : Cls) : Prop :=
  ∀ r, r < 128 → cls.isLetter r = asciiCls.isLetter r ∧ cls.isDigit r = asciiCls.isDigit r ∧
    cls.isSpace r = asciiCls.isSpace r

theorem ClsAscii.clsOK {cls : Cls} (h : ClsAscii cls) : ClsOK cls := by
  have key : ∀ r ∈ sepRunes, r < 128 ∧ asciiCls.isLetter r = false ∧ asciiCls.isDigit r = false := by
    decide
  refine ⟨?_, ?_, ?_⟩
  · rw [(h cSP (by decide)).2.2]; decide
  · rw [(h cTAB (by decide)).2.2]; decide
  · intro r hr
    obtain ⟨h1, h2, h3⟩ := key r hr
    rw [(h r h1).1, (h r h1).2.1]
    exact ⟨h2, h3⟩

theorem asciiCls_clsAscii : ClsAscii asciiCls := fun _ _ => ⟨rfl, rfl, rfl⟩

/-! ## ASCII bytes decode to themselves -/

theorem tx_decodeRunes_ascii : ∀ (s : List Nat), (∀ b ∈ s, b < 128) → decodeRunes s = s
  | [], _ => rfl
  | b :: rest, h => by
    rw [decodeRunes_cons]
    have hb : b < 0x80 := h b (by simp)
    simp only [decodeOne, hb, if_true, List.drop_succ_cons, List.drop_zero]
    rw [tx_decodeRunes_ascii rest (fun x hx => h x (by simp [hx]))]

/-! ## identifiers -/

theorem isAsciiLetter_range {c : Nat} (h : isAsciiLetter c = true) :
    (65 ≤ c ∧ c ≤ 90) ∨ (97 ≤ c ∧ c ≤ 122) := by
  simpa [isAsciiLetter] using h

theorem isAsciiDigit_range {c : Nat} (h : isAsciiDigit c = true) : 48 ≤ c ∧ c ≤ 57 := by
  simpa [isAsciiDigit] using h

theorem operatorOf_none {c : Nat} (h : (48 ≤ c ∧ c ≤ 57) ∨ (65 ≤ c ∧ c ≤ 90) ∨ (97 ≤ c ∧ c ≤ 122)) :
    operatorOf c = none := by
  unfold operatorOf
  rw [if_neg (show ¬ c = 61 by omega), if_neg (show ¬ c = 123 by omega), if_neg (show ¬ c = 125 by omega),
    if_neg (show ¬ c = 91 by omega), if_neg (show ¬ c = 93 by omega), if_neg (show ¬ c = 46 by omega),
    if_neg (show ¬ c = 44 by omega), if_neg (show ¬ c = 58 by omega), if_neg (show ¬ c = 43 by omega),
    if_neg (show ¬ c = 33 by omega), if_neg (show ¬ c = 63 by omega)]

theorem ascii_notSpace {c : Nat} (h : 33 ≤ c) : asciiCls.isSpace c = false := by
  have h1 : ¬ (c ≤ 13) := by omega
  have h2 : ¬ (c = 32) := by omega
  simp [asciiCls, h1, h2]

theorem ascii_notDigit {c : Nat} (h : c < 48 ∨ 57 < c) : asciiCls.isDigit c = false := by
  rcases h with h | h
  · have h1 : ¬ (48 ≤ c) := by omega
    simp [asciiCls, h1]
  · have h1 : ¬ (c ≤ 57) := by omega
    simp [asciiCls, h1]

theorem ascii_isDigit {c : Nat} (h : 48 ≤ c ∧ c ≤ 57) : asciiCls.isDigit c = true := by
  simp [asciiCls, h.1, h.2]

theorem identHead_of_letter {cls : Cls} (hc : ClsAscii cls) {c : Nat} (h : isAsciiLetter c = true) :
    IdentHead cls c := by
  have hr := isAsciiLetter_range h
  have h128 : c < 128 := by omega
  obtain ⟨hl, hd, hs⟩ := hc c h128
  refine ⟨operatorOf_none (Or.inr hr), ?_, ?_, ?_, ?_, ?_, ?_, ?_⟩
  · show c ≠ 47; omega
  · show c ≠ 34; omega
  · show c ≠ 124; omega
  · show c ≠ 10; omega
  · rw [hs]; exact ascii_notSpace (by omega)
  · rw [hd]; exact ascii_notDigit (by omega)
  · rw [hl]; exact h

theorem digitHead_of_digit {cls : Cls} (hc : ClsAscii cls) {c : Nat} (hr : 48 ≤ c ∧ c ≤ 57) :
    DigitHead cls c := by
  have h128 : c < 128 := by omega
  obtain ⟨hl, hd, hs⟩ := hc c h128
  refine ⟨operatorOf_none (Or.inl hr), ?_, ?_, ?_, ?_, ?_, ?_⟩
  · show c ≠ 47; omega
  · show c ≠ 34; omega
  · show c ≠ 124; omega
  · show c ≠ 10; omega
  · rw [hs]; exact ascii_notSpace (by omega)
  · rw [hd]; exact ascii_isDigit hr

theorem isDigit_of_digit {cls : Cls} (hc : ClsAscii cls) {c : Nat} (hr : 48 ≤ c ∧ c ≤ 57) :
    cls.isDigit c = true := (digitHead_of_digit hc hr).digit

theorem isIdent_body {cls : Cls} (hc : ClsAscii cls) {b : Nat}
    (h : (isAsciiLetter b || isAsciiDigit b || decide (b = 95)) = true) :
    cls.isLetter b = true ∨ cls.isDigit b = true ∨ b = cUS := by
  simp only [Bool.or_eq_true, decide_eq_true_eq] at h
  rcases h with (h | h) | h
  · exact Or.inl (identHead_of_letter hc h).letter
  · exact Or.inr (Or.inl (isDigit_of_digit hc (isAsciiDigit_range h)))
  · exact Or.inr (Or.inr h)

theorem isIdent_lt {s : Str} (h : isIdent s = true) : ∀ b ∈ s, b < 128 := by
  cases s with
  | nil => simp [isIdent] at h
  | cons c rest =>
    simp only [isIdent, Bool.and_eq_true, List.all_eq_true] at h
    intro b hb
    rcases List.mem_cons.1 hb with rfl | hb
    · have := isAsciiLetter_range h.1; omega
    · have h2 := h.2 b hb
      simp only [Bool.or_eq_true, decide_eq_true_eq] at h2
      rcases h2 with (h2 | h2) | h2
      · have := isAsciiLetter_range h2; omega
      · have := isAsciiDigit_range h2; omega
      · omega

theorem identLitWF_of_isIdent {cls : Cls} (hc : ClsAscii cls) {s : Str} (h : isIdent s = true) :
    IdentLitWF cls s := by
  cases s with
  | nil => simp [isIdent] at h
  | cons c rest =>
    simp only [isIdent, Bool.and_eq_true, List.all_eq_true] at h
    refine ⟨by simp, ?_, ?_⟩
    · intro r hr
      simp only [List.head?_cons, Option.some.injEq] at hr
      subst hr
      exact identHead_of_letter hc h.1
    · intro r hr
      exact isIdent_body hc (h.2 r hr)

theorem decodeRunes_ident {s : Str} (h : isIdent s = true) : decodeRunes s = s :=
  tx_decodeRunes_ascii s (isIdent_lt h)

theorem identWF_identOf {cls : Cls} (hc : ClsAscii cls) {s : Str} (h : isIdent s = true) :
    IdentWF cls (identOf s) := by
  refine ⟨rfl, ?_, rfl⟩
  show IdentLitWF cls (decodeRunes s)
  rw [decodeRunes_ident h]
  exact identLitWF_of_isIdent hc h

/-! ## references -/

/-- every segment is an identifier -/
def PfxOK (l : List Str) : Prop := ∀ s ∈ l, isIdent s = true

/-- a key / reference: at least one segment, all identifiers -/
def KeyOK (l : List Str) : Prop := l ≠ [] ∧ PfxOK l

theorem PfxOK.nil : PfxOK [] := fun _ h => by cases h

theorem PfxOK.cons {a : Str} {l : List Str} (ha : isIdent a = true) (hl : PfxOK l) : PfxOK (a :: l) := by
  intro s hs
  rcases List.mem_cons.1 hs with rfl | hs
  · exact ha
  · exact hl s hs

theorem PfxOK.append {a b : List Str} (ha : PfxOK a) (hb : PfxOK b) : PfxOK (a ++ b) := by
  intro s hs
  rcases List.mem_append.1 hs with hs | hs
  · exact ha s hs
  · exact hb s hs

theorem KeyOK.one {a : Str} (ha : isIdent a = true) : KeyOK [a] :=
  ⟨by simp, PfxOK.cons ha PfxOK.nil⟩

theorem KeyOK.pfx1 {pfx : List Str} (hp : PfxOK pfx) {a : Str} (ha : isIdent a = true) :
    KeyOK (pfx ++ [a]) :=
  ⟨by simp, hp.append (PfxOK.cons ha PfxOK.nil)⟩

theorem KeyOK.pfx2 {pfx : List Str} (hp : PfxOK pfx) {a b : Str} (ha : isIdent a = true)
    (hb : isIdent b = true) : KeyOK (pfx ++ [a, b]) :=
  ⟨by simp, hp.append (PfxOK.cons ha (PfxOK.cons hb PfxOK.nil))⟩

theorem KeyOK.pfx3 {pfx : List Str} (hp : PfxOK pfx) {a b c : Str} (ha : isIdent a = true)
    (hb : isIdent b = true) (hc : isIdent c = true) : KeyOK (pfx ++ [a, b, c]) :=
  ⟨by simp, hp.append (PfxOK.cons ha (PfxOK.cons hb (PfxOK.cons hc PfxOK.nil)))⟩

theorem refWF_refOf {cls : Cls} (hc : ClsAscii cls) {key : List Str} (hk : KeyOK key) :
    RefWF cls (refOf key) := by
  refine ⟨?_, ?_⟩
  · show key.map identOf ≠ []
    intro h
    exact hk.1 (List.map_eq_nil_iff.1 h)
  · intro i hi
    obtain ⟨s, hs, rfl⟩ := List.mem_map.1 hi
    exact identWF_identOf hc (hk.2 s hs)

theorem tx_splitOnByte_ne_nil (c : Nat) : ∀ s : Str, J5V.Compile.splitOnByte c s ≠ []
  | [] => by simp [J5V.Compile.splitOnByte]
  | v :: rest => by
    unfold J5V.Compile.splitOnByte
    split
    · simp
    · split <;> simp

theorem keyOK_of_isDotted {s : Str} (h : isDotted s = true) : KeyOK (J5V.Compile.splitOnByte 46 s) :=
  ⟨tx_splitOnByte_ne_nil 46 s, by
    intro x hx
    simp only [isDotted, List.all_eq_true] at h
    exact h x hx⟩

theorem refWF_dottedRef {cls : Cls} (hc : ClsAscii cls) {s : Str} (h : isDotted s = true) :
    RefWF cls (dottedRef s) := refWF_refOf hc (keyOK_of_isDotted h)

/-! ### `isDotted` of `pkg.Schema` -/

theorem tx_splitOnByte_append_sep (c : Nat) : ∀ (a b : Str),
    J5V.Compile.splitOnByte c (a ++ c :: b) = J5V.Compile.splitOnByte c a ++ J5V.Compile.splitOnByte c b
  | [], b => by simp [J5V.Compile.splitOnByte]
  | v :: rest, b => by
    have ih := tx_splitOnByte_append_sep c rest b
    simp only [List.cons_append]
    by_cases hv : v = c
    · simp only [J5V.Compile.splitOnByte, hv, if_true, ih, List.cons_append]
    · have hne := tx_splitOnByte_ne_nil c rest
      rw [J5V.Compile.splitOnByte, if_neg hv, ih]
      conv => rhs; rw [J5V.Compile.splitOnByte, if_neg hv]
      cases hs : J5V.Compile.splitOnByte c rest with
      | nil => exact absurd hs hne
      | cons p ps => simp

theorem tx_splitOnByte_no_sep (c : Nat) : ∀ (s : Str), c ∉ s → J5V.Compile.splitOnByte c s = [s]
  | [], _ => rfl
  | v :: rest, h => by
    have hv : v ≠ c := fun e => h (by simp [e])
    have ih := tx_splitOnByte_no_sep c rest (fun hm => h (by simp [hm]))
    rw [J5V.Compile.splitOnByte, if_neg hv, ih]

theorem tx_isIdent_no_dot {s : Str} (h : isIdent s = true) : 46 ∉ s := by
  intro hm
  cases s with
  | nil => cases hm
  | cons c rest =>
    simp only [isIdent, Bool.and_eq_true, List.all_eq_true] at h
    rcases List.mem_cons.1 hm with e | hm
    · have := isAsciiLetter_range h.1; omega
    · have h2 := h.2 46 hm
      revert h2; decide

theorem isDotted_of_isIdent {s : Str} (h : isIdent s = true) : isDotted s = true := by
  simp [isDotted, tx_splitOnByte_no_sep 46 s (tx_isIdent_no_dot h), h]

theorem tx_isDotted_refString {pkg schema : Str} (hs : isIdent schema = true)
    (hp : pkg = [] ∨ isDotted pkg = true) : isDotted (refString pkg schema) = true := by
  unfold refString
  split
  · exact isDotted_of_isIdent hs
  · rename_i hne
    rcases hp with hp | hp
    · exact absurd hp hne
    · have e : pkg ++ [46] ++ schema = pkg ++ 46 :: schema := by simp
      rw [e]
      simp only [isDotted, tx_splitOnByte_append_sep, List.all_append, Bool.and_eq_true]
      exact ⟨hp, isDotted_of_isIdent hs⟩

/-! ## tags -/

theorem tokLitWF_bang (cls : Cls) : TokLitWF cls (tok0 .bang [33]) := ⟨33, by decide, rfl⟩
theorem tokLitWF_question (cls : Cls) : TokLitWF cls (tok0 .question [63]) := ⟨63, by decide, rfl⟩

theorem tagWF_tagRef {cls : Cls} (mark : TagMark) {r : Reference} (hr : RefWF cls r) :
    TagWF cls (tagRef mark r) := by
  refine ⟨?_, Or.inl ⟨r, rfl, rfl, hr⟩⟩
  cases mark
  · exact rfl
  · exact ⟨rfl, tokLitWF_bang cls⟩
  · exact ⟨rfl, tokLitWF_question cls⟩

theorem tagWF_nameTag {cls : Cls} (hc : ClsAscii cls) {name : Str} (h : isIdent name = true) :
    TagWF cls (nameTag name) := tagWF_tagRef .none (refWF_refOf hc (KeyOK.one h))

theorem tagWF_word {cls : Cls} (hc : ClsAscii cls) (mark : TagMark) {w : Str} (h : isIdent w = true) :
    TagWF cls (tagRef mark (refOf [w])) := tagWF_tagRef mark (refWF_refOf hc (KeyOK.one h))

theorem tagWF_tagStr (cls : Cls) (s : Str) : TagWF cls (tagStr s) :=
  ⟨rfl, Or.inr ⟨_, _, rfl, rfl, rfl⟩⟩

/-! ## values -/

theorem scalarWF_string (cls : Cls) (l : List Rune) : ScalarWF cls (tok0 .string l) :=
  ⟨by simp [tok0], rfl, trivial⟩

theorem natDigits_range (n : Nat) : ∀ x ∈ natDigits n, 48 ≤ x ∧ x ≤ 57 := by
  intro x hx
  obtain ⟨c, hc, rfl⟩ := List.mem_map.1 hx
  have hd := Nat.isDigit_of_mem_toDigits (by decide) (by decide) hc
  simp only [Char.isDigit, Bool.and_eq_true, decide_eq_true_eq] at hd
  obtain ⟨h1, h2⟩ := hd
  have h1' := UInt32.le_iff_toNat_le.1 h1
  have h2' := UInt32.le_iff_toNat_le.1 h2
  exact ⟨h1', h2'⟩

theorem scalarWF_int {cls : Cls} (hc : ClsAscii cls) (n : Nat) : ScalarWF cls (tok0 .int (natDigits n)) := by
  refine ⟨by simp [tok0], rfl, ?_⟩
  have hr := natDigits_range n
  cases hd : natDigits n with
  | nil =>
    exfalso
    have : Nat.toDigits 10 n = [] := by
      have : (Nat.toDigits 10 n).map Char.toNat = [] := hd
      exact List.map_eq_nil_iff.1 this
    exact Nat.toDigits_ne_nil this
  | cons r ds =>
    rw [hd] at hr
    refine ⟨r, ds, rfl, digitHead_of_digit hc (hr r (by simp)), ?_⟩
    intro x hx
    exact isDigit_of_digit hc (hr x (by simp [hx]))

theorem scalarWF_bool {cls : Cls} (hc : ClsAscii cls) (b : Bool) :
    ScalarWF cls (tok0 .bool (if b then litTrue else litFalse)) := by
  refine ⟨by simp [tok0], rfl, ?_⟩
  cases b
  · exact ⟨identLitWF_of_isIdent hc (s := litFalse) (by decide), Or.inr rfl⟩
  · exact ⟨identLitWF_of_isIdent hc (s := litTrue) (by decide), Or.inl rfl⟩

theorem topWF_str (cls : Cls) (s : Str) : TopValueWF cls (strValue s) none :=
  ⟨scalarWF_string cls _, fun _ => rfl⟩

theorem topWF_int {cls : Cls} (hc : ClsAscii cls) (n : Nat) : TopValueWF cls (intValue n) none :=
  ⟨scalarWF_int hc n, fun _ => rfl⟩

theorem topWF_bool {cls : Cls} (hc : ClsAscii cls) (b : Bool) : TopValueWF cls (boolValue b) none :=
  ⟨scalarWF_bool hc b, fun _ => rfl⟩

theorem valueListWF_strs (cls : Cls) : ∀ l : List Str, ValueListWF cls (l.map strValue)
  | [] => by simp [ValueListWF]
  | s :: rest => by
    simp only [List.map_cons, ValueListWF]
    refine ⟨?_, valueListWF_strs cls rest⟩
    simp only [strValue, ValueWF]
    exact ⟨scalarWF_string cls _, by simp [tok0], by simp [tok0]⟩

theorem topWF_strs (cls : Cls) (l : List Str) : TopValueWF cls (strsValue l) none :=
  valueListWF_strs cls l

/-! ## statements -/

theorem commentWF_none : CommentNodeWF none := by
  intro cn h; cases h

theorem bodyOK_iff (cls : Cls) : ∀ l : List Statement, BodyTextOK cls l ↔ ∀ s ∈ l, StmtTextOK cls s
  | [] => by simp [BodyTextOK]
  | s :: rest => by
    simp only [BodyTextOK, List.mem_cons, forall_eq_or_imp, bodyOK_iff cls rest]

theorem bodyOK_nil (cls : Cls) : BodyTextOK cls [] := by simp [BodyTextOK]

theorem bodyOK_cons {cls : Cls} {s : Statement} {l : List Statement} (hs : StmtTextOK cls s)
    (hl : BodyTextOK cls l) : BodyTextOK cls (s :: l) := by
  simp only [BodyTextOK]; exact ⟨hs, hl⟩

theorem bodyOK_one {cls : Cls} {s : Statement} (hs : StmtTextOK cls s) : BodyTextOK cls [s] :=
  bodyOK_cons hs (bodyOK_nil cls)

theorem bodyOK_append {cls : Cls} {a b : List Statement} (ha : BodyTextOK cls a) (hb : BodyTextOK cls b) :
    BodyTextOK cls (a ++ b) := by
  rw [bodyOK_iff] at ha hb ⊢
  intro s hs
  rcases List.mem_append.1 hs with hs | hs
  · exact ha s hs
  · exact hb s hs

theorem bodyOK_map {cls : Cls} {α : Type} (f : α → Statement) (l : List α)
    (h : ∀ a ∈ l, StmtTextOK cls (f a)) : BodyTextOK cls (l.map f) := by
  rw [bodyOK_iff]
  intro s hs
  obtain ⟨a, ha, rfl⟩ := List.mem_map.1 hs
  exact h a ha

theorem bodyOK_ite {cls : Cls} (c : Prop) [Decidable c] {a : List Statement} (ha : BodyTextOK cls a) :
    BodyTextOK cls (if c then a else []) := by
  split
  · exact ha
  · exact bodyOK_nil cls

theorem bodyOK_ite' {cls : Cls} (c : Prop) [Decidable c] {a : List Statement} (ha : BodyTextOK cls a) :
    BodyTextOK cls (if c then [] else a) := by
  split
  · exact bodyOK_nil cls
  · exact ha

theorem stmtOK_assign {cls : Cls} (hc : ClsAscii cls) {key : List Str} {v : Value} (hk : KeyOK key)
    (hv : TopValueWF cls v none) : StmtTextOK cls (assignStmt key v) := by
  simp only [assignStmt, StmtTextOK]
  exact ⟨refWF_refOf hc hk, hv, commentWF_none⟩

theorem stmtOK_block {cls : Cls} (hc : ClsAscii cls) {type : Str} {tags quals : List TagValue}
    {isOpen : Bool} {body : List Statement} (htype : isIdent type = true)
    (htags : ∀ t ∈ tags, TagWF cls t) (hquals : ∀ t ∈ quals, TagWF cls t)
    (hopen : isOpen = false → body = []) (hbody : BodyTextOK cls body) :
    StmtTextOK cls (blockStmt type tags quals isOpen body) := by
  simp only [blockStmt, StmtTextOK]
  refine ⟨⟨refWF_refOf hc (KeyOK.one htype), htags, hquals, commentWF_none, fun _ h => by cases h⟩,
    hopen, hbody⟩

/-- `a = "…"`-style singletons -/
theorem bodyOK_assign {cls : Cls} (hc : ClsAscii cls) {key : List Str} {v : Value} (hk : KeyOK key)
    (hv : TopValueWF cls v none) : BodyTextOK cls [assignStmt key v] :=
  bodyOK_one (stmtOK_assign hc hk hv)

theorem forall_mem_nil {α : Type} (p : α → Prop) : ∀ t ∈ ([] : List α), p t := fun _ h => by cases h

theorem forall_mem_one {α : Type} {p : α → Prop} {a : α} (h : p a) : ∀ t ∈ [a], p t := by
  intro t ht; simp at ht; subst ht; exact h

theorem forall_mem_two {α : Type} {p : α → Prop} {a b : α} (ha : p a) (hb : p b) : ∀ t ∈ [a, b], p t := by
  intro t ht; simp at ht; rcases ht with rfl | rfl
  · exact ha
  · exact hb

end J5V.Walker
