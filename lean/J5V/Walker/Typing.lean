import J5V.Walker.WF
/-!
# The typing invariant of the tree and the validity of containers / fields / scopes

* `typeAtFrom env t a` / `env.typeAt a`: the TYPE of the slot at address `a` — a function of the schema
  and the address only (a message of schema `s` has the slot `i` of type `s.props[i].type`, the
  elements of an array / a map have the item type). The state is not involved.
* `VOK env t touched n`: the node `n` is a value of type `t` (`touched = true`: the slot has been
  touched, so a container-typed slot is not `.absent` — this is what the cached-wrapper arm of
  `propSetValue` relies on). Slots of a non-container type (scalar, enum, any) hold anything.
  `TreeOK env root` = the root is a message of the root schema.
* `Ext env st st'`: the tree only grows — every address that has a type and is valid in `st` is valid
  in `st'`, and at a container-typed address a message stays a message, a list a list, a map a map.
  (With `TreeOK` on both sides this gives: messages keep schema and length, lists / maps only grow.)
* `ContOK`, `FieldOK`, `ContainerFieldOK`, `ScopeOK`: what the interpreter holds points into the
  current tree at a slot of the right type holding a node of the right shape. All four are preserved
  along `Ext` (`*.ext`).
* consequences of `Env.WF` for slot types at the end. The triple `MSpec` is in `Hoare.lean`.
-/
namespace J5V.Walker

/-! ## `modifyNth`, `Node.get?`, `Node.set` -/

theorem modifyNth_length (f : Node → Node) (l : List Node) (i : Nat) :
    (modifyNth f l i).length = l.length := by
  induction l generalizing i with
  | nil => rfl
  | cons c cs ih => cases i <;> simp [modifyNth, ih]

theorem modifyNth_getElem? (f : Node → Node) (l : List Node) (i j : Nat) :
    (modifyNth f l i)[j]? = if j = i then l[j]?.map f else l[j]? := by
  induction l generalizing i j with
  | nil => simp [modifyNth]
  | cons c cs ih =>
    cases i with
    | zero => cases j <;> simp [modifyNth]
    | succ i => cases j <;> simp [modifyNth, ih]

theorem modifyNth_eq_set (f : Node → Node) (l : List Node) (i : Nat) (c : Node)
    (h : l[i]? = some c) : modifyNth f l i = l.set i (f c) := by
  apply List.ext_getElem?
  intro j
  rw [modifyNth_getElem?, List.getElem?_set]
  by_cases hj : j = i
  · subst hj
    obtain ⟨hlt, heq⟩ := List.getElem?_eq_some_iff.mp h
    simp [hlt, heq]
  · have : ¬ i = j := fun e => hj e.symm
    simp [hj, this]

@[simp] theorem Node.get?_nil (n : Node) : n.get? [] = some n := by
  cases n <;> rfl

theorem Node.get?_cons (n : Node) (i : Nat) (rest : Addr) :
    n.get? (i :: rest) = (n.children[i]?).bind (fun c => c.get? rest) := by
  cases n <;> simp only [Node.get?] <;> split <;> simp_all

theorem Node.get?_append (n : Node) (a b : Addr) :
    n.get? (a ++ b) = (n.get? a).bind (fun m => m.get? b) := by
  induction a generalizing n with
  | nil => simp
  | cons i rest ih =>
    rw [List.cons_append, Node.get?_cons, Node.get?_cons]
    cases n.children[i]? with
    | none => rfl
    | some c => simp [ih]

@[simp] theorem Node.set_nil (n v : Node) : n.set [] v = v := by
  cases n <;> rfl

theorem Node.set_cons (n : Node) (i : Nat) (rest : Addr) (v : Node) :
    n.set (i :: rest) v = n.withChildren (modifyNth (fun c => c.set rest v) n.children i) := by
  cases n <;> simp [Node.set, Node.withChildren, Node.children]

theorem Node.children_withChildren (n : Node) (cs : List Node) :
    (n.withChildren cs).children = match n with
      | .absent => [] | .scalar _ => [] | _ => cs := by
  cases n <;> rfl

theorem Node.children_set_cons (n : Node) (i : Nat) (rest : Addr) (v : Node) :
    (n.set (i :: rest) v).children = modifyNth (fun c => c.set rest v) n.children i := by
  cases n <;> simp [Node.set, Node.children, modifyNth]

/-- reading below the address just written -/
theorem Node.get?_set_append (n : Node) (a b : Addr) (v : Node) (h : (n.get? a).isSome) :
    (n.set a v).get? (a ++ b) = v.get? b := by
  induction a generalizing n with
  | nil => simp
  | cons i rest ih =>
    rw [Node.get?_cons] at h
    rw [List.cons_append, Node.get?_cons, Node.children_set_cons, modifyNth_getElem?]
    cases hc : n.children[i]? with
    | none => simp [hc] at h
    | some c =>
      simp only [hc, Option.bind_some] at h
      simp [ih c h]

theorem Node.get?_set_same (n : Node) (a : Addr) (v : Node) (h : (n.get? a).isSome) :
    (n.set a v).get? a = some v := by
  have := Node.get?_set_append n a [] v h
  simpa using this

/-! ## The type of an address -/

/-- the referenced schema of an object / oneof type -/
def FieldType.msgSchema (env : Env) : FieldType → Option Schema
  | .object r => some (env.schemaOf r)
  | .oneof r => some (env.schemaOf r)
  | _ => none

/-- the type of the `i`-th child slot of a value of type `t` -/
def FieldType.child (env : Env) : FieldType → Nat → Option FieldType
  | .object r, i => ((env.schemaOf r).props[i]?).map (·.type)
  | .oneof r, i => ((env.schemaOf r).props[i]?).map (·.type)
  | .array item, _ => some item
  | .map item, _ => some item
  | _, _ => none

/-- the type of the slot at address `a` below a slot of type `t` -/
def typeAtFrom (env : Env) : FieldType → Addr → Option FieldType
  | t, [] => some t
  | t, i :: rest =>
    match t.child env i with
    | some t' => typeAtFrom env t' rest
    | none => none

/-- the type of the slot at address `a` of the root message -/
def Env.typeAt (env : Env) (a : Addr) : Option FieldType := typeAtFrom env (.object env.root) a

@[simp] theorem typeAtFrom_nil (env : Env) (t : FieldType) : typeAtFrom env t [] = some t := rfl

theorem typeAtFrom_cons (env : Env) (t : FieldType) (i : Nat) (rest : Addr) :
    typeAtFrom env t (i :: rest) = (t.child env i).bind (fun t' => typeAtFrom env t' rest) := by
  simp only [typeAtFrom]; cases t.child env i <;> rfl

theorem typeAtFrom_append (env : Env) (t : FieldType) (a b : Addr) :
    typeAtFrom env t (a ++ b) = (typeAtFrom env t a).bind (fun t' => typeAtFrom env t' b) := by
  induction a generalizing t with
  | nil => simp
  | cons i rest ih =>
    rw [List.cons_append, typeAtFrom_cons, typeAtFrom_cons]
    cases t.child env i with
    | none => rfl
    | some t' => simp [ih]

theorem Env.typeAt_append (env : Env) (a b : Addr) :
    env.typeAt (a ++ b) = (env.typeAt a).bind (fun t' => typeAtFrom env t' b) :=
  typeAtFrom_append env _ a b

theorem FieldType.child_msgSchema {env : Env} {t : FieldType} {s : Schema} (h : t.msgSchema env = some s)
    (i : Nat) : t.child env i = (s.props[i]?).map (·.type) := by
  cases t <;> simp [FieldType.msgSchema] at h <;> subst h <;> rfl

theorem FieldType.isContainer_of_msgSchema {env : Env} {t : FieldType} {s : Schema}
    (h : t.msgSchema env = some s) : t.isContainer = true := by
  cases t <;> simp [FieldType.msgSchema] at h <;> rfl

theorem FieldType.child_none_of_not_container {env : Env} {t : FieldType} (h : t.isContainer = false)
    (i : Nat) : t.child env i = none := by
  cases t <;> simp [FieldType.isContainer] at h <;> rfl

/-- the type of the slot of property `i` of a message at `a` -/
theorem Env.typeAt_prop {env : Env} {a : Addr} {t : FieldType} {s : Schema} {i : Nat} {p : Property}
    (ht : env.typeAt a = some t) (hs : t.msgSchema env = some s) (hp : s.props[i]? = some p) :
    env.typeAt (a ++ [i]) = some p.type := by
  rw [Env.typeAt_append, ht]
  simp [typeAtFrom_cons, FieldType.child_msgSchema hs, hp]

/-! ## Typing -/

/-- `VOK env t touched n`: `n` is a value of type `t`; `touched`: the slot has been touched (a
container-typed slot is then not `.absent`) -/
inductive VOK (env : Env) : FieldType → Bool → Node → Prop where
  | absent (t : FieldType) : VOK env t false .absent
  | leaf (t : FieldType) (b : Bool) (n : Node) : t.isContainer = false → VOK env t b n
  | msg (t : FieldType) (s : Schema) (b : Bool) (touched : List Bool) (props : List Node) :
      t.msgSchema env = some s →
      touched.length = s.props.length →
      props.length = s.props.length →
      (∀ (i : Nat) (p : Property) (tb : Bool) (c : Node),
        s.props[i]? = some p → touched[i]? = some tb → props[i]? = some c → VOK env p.type tb c) →
      VOK env t b (.msg touched props)
  | arr (item : FieldType) (b : Bool) (xs : List Node) :
      (∀ c, c ∈ xs → VOK env item true c) → VOK env (.array item) b (.list xs)
  | map (item : FieldType) (b : Bool) (ks : List Str) (vs : List Node) :
      ks.length = vs.length →
      (∀ c, c ∈ vs → VOK env item true c) → VOK env (.map item) b (.map ks vs)

/-- `.msg touched props` is a message of schema `s` -/
def MsgOK (env : Env) (s : Schema) (touched : List Bool) (props : List Node) : Prop :=
  touched.length = s.props.length ∧ props.length = s.props.length ∧
  ∀ (i : Nat) (p : Property) (tb : Bool) (c : Node),
    s.props[i]? = some p → touched[i]? = some tb → props[i]? = some c → VOK env p.type tb c

/-- the tree is a message of the root schema -/
def TreeOK (env : Env) (root : Node) : Prop := VOK env (.object env.root) true root

theorem VOK.of_msgOK {env : Env} {t : FieldType} {s : Schema} {b : Bool} {tc : List Bool} {ps : List Node}
    (ht : t.msgSchema env = some s) (h : MsgOK env s tc ps) : VOK env t b (.msg tc ps) :=
  VOK.msg t s b tc ps ht h.1 h.2.1 h.2.2

theorem VOK.msg_inv {env : Env} {t : FieldType} {s : Schema} {b : Bool} {tc : List Bool} {ps : List Node}
    (h : VOK env t b (.msg tc ps)) (ht : t.msgSchema env = some s) : MsgOK env s tc ps := by
  cases h with
  | leaf _ _ _ hl =>
    rw [FieldType.isContainer_of_msgSchema ht] at hl; cases hl
  | msg _ s' _ _ _ ht' h1 h2 h3 =>
    rw [ht] at ht'; cases ht'
    exact ⟨h1, h2, h3⟩

theorem VOK.list_inv {env : Env} {item : FieldType} {b : Bool} {xs : List Node}
    (h : VOK env (.array item) b (.list xs)) : ∀ c, c ∈ xs → VOK env item true c := by
  cases h with
  | leaf _ _ _ hl => cases hl
  | arr _ _ _ h => exact h

theorem VOK.map_inv {env : Env} {item : FieldType} {b : Bool} {ks : List Str} {vs : List Node}
    (h : VOK env (.map item) b (.map ks vs)) :
    ks.length = vs.length ∧ ∀ c, c ∈ vs → VOK env item true c := by
  cases h with
  | leaf _ _ _ hl => cases hl
  | map _ _ _ _ h1 h2 => exact ⟨h1, h2⟩

/-- a touched value is a value -/
theorem VOK.weaken {env : Env} {t : FieldType} {b : Bool} {n : Node} (h : VOK env t true n) :
    VOK env t b n := by
  cases h with
  | leaf _ _ _ hl => exact .leaf _ _ _ hl
  | msg _ s _ _ _ h0 h1 h2 h3 => exact .msg _ s _ _ _ h0 h1 h2 h3
  | arr _ _ _ h => exact .arr _ _ _ h
  | map _ _ _ _ h1 h2 => exact .map _ _ _ _ h1 h2

/-- a value that is not `.absent` is a touched value -/
theorem VOK.strengthen {env : Env} {t : FieldType} {b : Bool} {n : Node} (h : VOK env t b n)
    (hn : n ≠ .absent) : VOK env t true n := by
  cases h with
  | absent => exact absurd rfl hn
  | leaf _ _ _ hl => exact .leaf _ _ _ hl
  | msg _ s _ _ _ h0 h1 h2 h3 => exact .msg _ s _ _ _ h0 h1 h2 h3
  | arr _ _ _ h => exact .arr _ _ _ h
  | map _ _ _ _ h1 h2 => exact .map _ _ _ _ h1 h2

/-- a new, empty message is a message -/
theorem MsgOK.fresh (env : Env) (s : Schema) :
    MsgOK env s (List.replicate s.props.length false) (List.replicate s.props.length .absent) := by
  refine ⟨by simp, by simp, ?_⟩
  intro i p tb c _ h2 h3
  rw [List.getElem?_replicate] at h2 h3
  by_cases hi : i < s.props.length
  · rw [if_pos hi] at h2 h3; cases h2; cases h3; exact .absent _
  · rw [if_neg hi] at h2; cases h2

theorem VOK.freshMsg {env : Env} {t : FieldType} {s : Schema} (b : Bool) (ht : t.msgSchema env = some s) :
    VOK env t b (freshMsg s) :=
  VOK.of_msgOK ht (MsgOK.fresh env s)

/-- the typing of a child -/
theorem VOK.child {env : Env} {t t' : FieldType} {b : Bool} {n c : Node} {i : Nat}
    (h : VOK env t b n) (ht : t.child env i = some t') (hc : n.children[i]? = some c) :
    ∃ b', VOK env t' b' c := by
  cases h with
  | absent => simp [Node.children] at hc
  | leaf _ _ _ hl => rw [FieldType.child_none_of_not_container hl] at ht; cases ht
  | msg _ s _ touched props h0 h1 h2 h3 =>
    rw [FieldType.child_msgSchema h0] at ht
    simp only [Node.children] at hc
    cases hp : s.props[i]? with
    | none => simp [hp] at ht
    | some p =>
      simp only [hp, Option.map_some, Option.some.injEq] at ht
      subst ht
      have hi : i < touched.length := by
        rw [h1]
        rcases Nat.lt_or_ge i s.props.length with h | h
        · exact h
        · rw [List.getElem?_eq_none h] at hp; cases hp
      exact ⟨touched[i], h3 i p _ c hp (List.getElem?_eq_getElem hi) hc⟩
  | arr item _ xs h =>
    simp only [FieldType.child, Option.some.injEq] at ht
    subst ht
    exact ⟨true, h c (List.mem_of_getElem? hc)⟩
  | map item _ ks vs h1 h2 =>
    simp only [FieldType.child, Option.some.injEq] at ht
    subst ht
    exact ⟨true, h2 c (List.mem_of_getElem? hc)⟩

/-- the node at a typed address is a value of that type -/
theorem VOK.get {env : Env} {t t' : FieldType} {b : Bool} {n m : Node} {a : Addr}
    (h : VOK env t b n) (ht : typeAtFrom env t a = some t') (hm : n.get? a = some m) :
    ∃ b', VOK env t' b' m := by
  induction a generalizing t b n with
  | nil =>
    simp at ht hm; subst ht; subst hm; exact ⟨b, h⟩
  | cons i rest ih =>
    rw [typeAtFrom_cons] at ht
    rw [Node.get?_cons] at hm
    cases ht1 : t.child env i with
    | none => simp [ht1] at ht
    | some t1 =>
      cases hc : n.children[i]? with
      | none => simp [hc] at hm
      | some c =>
        simp only [ht1, Option.bind_some] at ht
        simp only [hc, Option.bind_some] at hm
        obtain ⟨b1, h1⟩ := h.child ht1 hc
        exact ih h1 ht hm

theorem mem_modifyNth {f : Node → Node} {l : List Node} {i : Nat} {c : Node}
    (h : c ∈ modifyNth f l i) : c ∈ l ∨ ∃ c0, l[i]? = some c0 ∧ c = f c0 := by
  obtain ⟨j, hj⟩ := List.getElem?_of_mem h
  rw [modifyNth_getElem?] at hj
  split at hj
  · rename_i e
    subst e
    cases hl : l[j]? with
    | none => simp [hl] at hj
    | some c0 =>
      simp only [hl, Option.map_some, Option.some.injEq] at hj
      exact .inr ⟨c0, rfl, hj.symm⟩
  · exact .inl (List.mem_of_getElem? hj)

/-- changing one child into a value of the same slot keeps the typing -/
theorem VOK.modify_child {env : Env} {t : FieldType} {b : Bool} {n : Node} {i : Nat} {f : Node → Node}
    (h : VOK env t b n)
    (hf : ∀ t' b' c, t.child env i = some t' → n.children[i]? = some c → VOK env t' b' c →
      VOK env t' b' (f c)) :
    VOK env t b (n.withChildren (modifyNth f n.children i)) := by
  cases h with
  | absent => exact .absent _
  | leaf _ _ _ hl => exact .leaf _ _ _ hl
  | msg _ s _ touched props h0 h1 h2 h3 =>
    refine .msg _ s _ _ _ h0 h1 (by simp [Node.children, modifyNth_length, h2]) ?_
    intro j p tb c hp htb hc
    simp only [Node.children] at hc hf
    rw [modifyNth_getElem?] at hc
    split at hc
    · rename_i e
      subst e
      cases hl : props[j]? with
      | none => simp [hl] at hc
      | some c0 =>
        simp only [hl, Option.map_some, Option.some.injEq] at hc
        subst hc
        apply hf p.type tb c0 _ hl (h3 j p tb c0 hp htb hl)
        rw [FieldType.child_msgSchema h0, hp]; rfl
    · exact h3 j p tb c hp htb hc
  | arr item _ xs h =>
    refine .arr _ _ _ ?_
    intro c hc
    simp only [Node.children] at hc hf
    rcases mem_modifyNth hc with hc | ⟨c0, h0, rfl⟩
    · exact h c hc
    · exact hf item true c0 rfl h0 (h c0 (List.mem_of_getElem? h0))
  | map item _ ks vs h1 h2 =>
    refine .map _ _ _ _ (by simp [Node.children, modifyNth_length, h1]) ?_
    intro c hc
    simp only [Node.children] at hc hf
    rcases mem_modifyNth hc with hc | ⟨c0, h0, rfl⟩
    · exact h2 c hc
    · exact hf item true c0 rfl h0 (h2 c0 (List.mem_of_getElem? h0))

/-- writing a (touched) value of the slot's type at a typed address keeps the typing -/
theorem VOK.set {env : Env} {t t' : FieldType} {b : Bool} {n v : Node} {a : Addr}
    (h : VOK env t b n) (ht : typeAtFrom env t a = some t') (hv : VOK env t' true v) :
    VOK env t b (n.set a v) := by
  induction a generalizing t b n with
  | nil =>
    simp at ht; subst ht; simpa using hv.weaken
  | cons i rest ih =>
    rw [Node.set_cons]
    apply h.modify_child
    intro t1 b1 c ht1 _ hc
    rw [typeAtFrom_cons, ht1] at ht
    exact ih hc ht

theorem TreeOK.set {env : Env} {st v : Node} {a : Addr} {t : FieldType}
    (h : TreeOK env st) (ht : env.typeAt a = some t) (hv : VOK env t true v) :
    TreeOK env (st.set a v) :=
  VOK.set h ht hv

theorem TreeOK.get {env : Env} {st m : Node} {a : Addr} {t : FieldType}
    (h : TreeOK env st) (ht : env.typeAt a = some t) (hm : st.get? a = some m) :
    ∃ b, VOK env t b m :=
  VOK.get h ht hm

/-! ## The tree only grows -/

/-- a message stays a message, a list a list, a map a map -/
def ShapeLe (n n' : Node) : Prop :=
  match n with
  | .msg _ _ => ∃ t ps, n' = .msg t ps
  | .list _ => ∃ xs, n' = .list xs
  | .map _ _ => ∃ ks vs, n' = .map ks vs
  | _ => True

theorem ShapeLe.refl (n : Node) : ShapeLe n n := by
  cases n <;> simp [ShapeLe]

theorem ShapeLe.trans {a b c : Node} (h1 : ShapeLe a b) (h2 : ShapeLe b c) : ShapeLe a c := by
  cases a <;> simp only [ShapeLe] at h1 ⊢
  · obtain ⟨t, ps, rfl⟩ := h1; exact h2
  · obtain ⟨xs, rfl⟩ := h1; exact h2
  · obtain ⟨ks, vs, rfl⟩ := h1; exact h2

theorem ShapeLe.absent (n : Node) : ShapeLe .absent n := trivial

theorem ShapeLe.set_cons (n : Node) (i : Nat) (rest : Addr) (v : Node) :
    ShapeLe n (n.set (i :: rest) v) := by
  cases n <;> simp [ShapeLe, Node.set]

/-- below a slot of type `t`: every typed address valid in `n` is valid in `n'`, with the same
container shape -/
def ExtFrom (env : Env) (t : FieldType) (n n' : Node) : Prop :=
  ∀ a t' m, typeAtFrom env t a = some t' → n.get? a = some m →
    ∃ m', n'.get? a = some m' ∧ (t'.isContainer = true → ShapeLe m m')

/-- the tree only grows -/
def Ext (env : Env) (st st' : Node) : Prop := ExtFrom env (.object env.root) st st'

theorem ExtFrom.refl (env : Env) (t : FieldType) (n : Node) : ExtFrom env t n n :=
  fun _ _ m _ hm => ⟨m, hm, fun _ => ShapeLe.refl m⟩

theorem ExtFrom.trans {env : Env} {t : FieldType} {a b c : Node}
    (h1 : ExtFrom env t a b) (h2 : ExtFrom env t b c) : ExtFrom env t a c := by
  intro ad t' m ht hm
  obtain ⟨m1, hm1, hs1⟩ := h1 ad t' m ht hm
  obtain ⟨m2, hm2, hs2⟩ := h2 ad t' m1 ht hm1
  exact ⟨m2, hm2, fun hc => (hs1 hc).trans (hs2 hc)⟩

theorem Ext.refl (env : Env) (st : Node) : Ext env st st := ExtFrom.refl env _ st

theorem Ext.trans {env : Env} {a b c : Node} (h1 : Ext env a b) (h2 : Ext env b c) : Ext env a c :=
  ExtFrom.trans h1 h2

/-- `ExtFrom` from the same fact about the children -/
theorem ExtFrom.of_children {env : Env} {t : FieldType} {n n' : Node}
    (hs : t.isContainer = true → ShapeLe n n')
    (hc : ∀ i t' c, t.child env i = some t' → n.children[i]? = some c →
      ∃ c', n'.children[i]? = some c' ∧ ExtFrom env t' c c') :
    ExtFrom env t n n' := by
  intro a t' m ht hm
  cases a with
  | nil =>
    simp at ht hm; subst ht; subst hm
    exact ⟨n', by simp, hs⟩
  | cons i rest =>
    rw [typeAtFrom_cons] at ht
    rw [Node.get?_cons] at hm
    cases ht1 : t.child env i with
    | none => simp [ht1] at ht
    | some t1 =>
      cases hc1 : n.children[i]? with
      | none => simp [hc1] at hm
      | some c =>
        simp only [ht1, Option.bind_some] at ht
        simp only [hc1, Option.bind_some] at hm
        obtain ⟨c', hc', hext⟩ := hc i t1 c ht1 hc1
        obtain ⟨m', hm', hsh⟩ := hext rest t' m ht hm
        exact ⟨m', by rw [Node.get?_cons, hc']; simpa using hm', hsh⟩

/-- nothing is below `.absent` -/
theorem ExtFrom.absent (env : Env) (t : FieldType) (v : Node) : ExtFrom env t .absent v := by
  apply ExtFrom.of_children
  · intro _; trivial
  · intro i t' c _ hc; simp [Node.children] at hc

/-- nothing typed is below a slot of a non-container type -/
theorem ExtFrom.leaf (env : Env) {t : FieldType} (ht : t.isContainer = false) (n v : Node) :
    ExtFrom env t n v := by
  apply ExtFrom.of_children
  · intro h; rw [ht] at h; cases h
  · intro i t' c h _; rw [FieldType.child_none_of_not_container ht] at h; cases h

/-- replacing the node at `a` by one that extends it extends the tree -/
theorem ExtFrom.set {env : Env} {t t1 : FieldType} {n old v : Node} {a : Addr}
    (hold : n.get? a = some old) (ht : typeAtFrom env t a = some t1) (hv : ExtFrom env t1 old v) :
    ExtFrom env t n (n.set a v) := by
  induction a generalizing t n with
  | nil =>
    simp at hold ht; subst hold; subst ht; simpa using hv
  | cons i rest ih =>
    apply ExtFrom.of_children
    · intro _; exact ShapeLe.set_cons n i rest v
    · intro j t' c htj hcj
      rw [Node.children_set_cons, modifyNth_getElem?]
      by_cases hj : j = i
      · subst hj
        simp only [hcj, if_true, Option.map_some]
        refine ⟨_, rfl, ?_⟩
        rw [typeAtFrom_cons, htj] at ht
        rw [Node.get?_cons, hcj] at hold
        exact ih hold ht
      · simp only [hj, if_false]
        exact ⟨c, hcj, ExtFrom.refl env t' c⟩

theorem Ext.set {env : Env} {st old v : Node} {a : Addr} {t : FieldType}
    (hold : st.get? a = some old) (ht : env.typeAt a = some t) (hv : ExtFrom env t old v) :
    Ext env st (st.set a v) :=
  ExtFrom.set hold ht hv

/-- what `Ext` says about one address -/
theorem Ext.get {env : Env} {st st' m : Node} {a : Addr} {t : FieldType}
    (h : Ext env st st') (ht : env.typeAt a = some t) (hm : st.get? a = some m) :
    ∃ m', st'.get? a = some m' ∧ (t.isContainer = true → ShapeLe m m') :=
  h a t m ht hm

/-! ## Validity of what the interpreter holds -/

/-- what a map container may hold: object / oneof / scalar / enum (`classify` rejects `any`) -/
def FieldType.isMapItem : FieldType → Bool
  | .object _ => true
  | .oneof _ => true
  | .scalar _ => true
  | .enum _ => true
  | _ => false

/-- `n` is the name of the map container at `a` (`mapNode.FullTypeName()`): the map is the value of
property `p` of a message of schema `s`, and `n = s.name ++ "." ++ p.name` -/
def MapNameOK (env : Env) (a : Addr) (n : Str) : Prop :=
  ∃ c i t s p, a = c ++ [i] ∧ env.typeAt c = some t ∧ t.msgSchema env = some s ∧
    s.props[i]? = some p ∧ n = s.name ++ [46] ++ p.name

/-- the address of the container is that of a slot of the right type, which holds a message / a map -/
def ContOK (env : Env) (st : Node) (c : Cont) : Prop :=
  match c.kind with
  | .msg s =>
    (∃ t, env.typeAt c.addr = some t ∧ t.msgSchema env = some s) ∧
    ∃ tc ps, st.get? c.addr = some (.msg tc ps)
  | .map n item =>
    (env.typeAt c.addr = some (.map item) ∧ item.isMapItem = true ∧ MapNameOK env c.addr n) ∧
    ∃ ks vs, st.get? c.addr = some (.map ks vs)

/-- per `FieldKind`: the slot type and the shape of the node -/
def FieldOK (env : Env) (st : Node) (f : Field) : Prop :=
  match f.kind with
  | .container s => ContOK env st ⟨f.addr, .msg s⟩
  | .arrayOfContainer s =>
    (∃ item, env.typeAt f.addr = some (.array item) ∧ item.msgSchema env = some s) ∧
    ∃ xs, st.get? f.addr = some (.list xs)
  | .arrayOfScalar item =>
    (env.typeAt f.addr = some (.array item) ∧ item.isLeaf = true) ∧
    ∃ xs, st.get? f.addr = some (.list xs)
  | .map n item => ContOK env st ⟨f.addr, .map n item⟩
  | .scalar t _ =>
    (env.typeAt f.addr = some t ∧ t.isLeaf = true) ∧ ∃ n, st.get? f.addr = some n
  | .any => True

/-- a block: its container is valid, its name is the container's, its spec is `specOf` of the container -/
def ContainerFieldOK (env : Env) (st : Node) (cf : ContainerField) : Prop :=
  ContOK env st cf.container ∧ cf.schemaName = cf.container.schemaName ∧
  specOf env cf.container = .ok cf.spec

/-- a block as `walkPath` returns it: no spec yet -/
def ContainerFieldOK0 (env : Env) (st : Node) (cf : ContainerField) : Prop :=
  ContOK env st cf.container ∧ cf.schemaName = cf.container.schemaName

def ScopeOK (env : Env) (st : Node) (sc : Scope) : Prop :=
  sc.blockSet ≠ [] ∧ (∀ b, b ∈ sc.blockSet → ContainerFieldOK env st b) ∧
  ContainerFieldOK env st sc.leaf ∧ (∀ r, sc.root = some r → ContainerFieldOK env st r)

theorem ContOK_msg {env : Env} {st : Node} {a : Addr} {s : Schema} :
    ContOK env st ⟨a, .msg s⟩ ↔
      (∃ t, env.typeAt a = some t ∧ t.msgSchema env = some s) ∧
      ∃ tc ps, st.get? a = some (.msg tc ps) := Iff.rfl

theorem ContOK_map {env : Env} {st : Node} {a : Addr} {n : Str} {item : FieldType} :
    ContOK env st ⟨a, .map n item⟩ ↔
      (env.typeAt a = some (.map item) ∧ item.isMapItem = true ∧ MapNameOK env a n) ∧
      ∃ ks vs, st.get? a = some (.map ks vs) := Iff.rfl

theorem FieldType.isContainer_of_isLeaf {t : FieldType} (h : t.isLeaf = true) : t.isContainer = false := by
  cases t <;> simp [FieldType.isLeaf] at h <;> rfl

/-- a valid message container holds a message of its schema -/
theorem ContOK.msgOK {env : Env} {st : Node} {a : Addr} {s : Schema}
    (h : ContOK env st ⟨a, .msg s⟩) (hst : TreeOK env st) :
    ∃ tc ps, st.get? a = some (.msg tc ps) ∧ MsgOK env s tc ps := by
  obtain ⟨⟨t, ht, hs⟩, tc, ps, hg⟩ := h
  obtain ⟨b, hv⟩ := hst.get ht hg
  exact ⟨tc, ps, hg, hv.msg_inv hs⟩

theorem ext_get_msg {env : Env} {st st' : Node} {a : Addr} {t : FieldType} {tc : List Bool} {ps : List Node}
    (h : Ext env st st') (ht : env.typeAt a = some t) (hc : t.isContainer = true)
    (hg : st.get? a = some (.msg tc ps)) : ∃ tc' ps', st'.get? a = some (.msg tc' ps') := by
  obtain ⟨m', hm', hs⟩ := h.get ht hg
  obtain ⟨tc', ps', rfl⟩ := hs hc
  exact ⟨tc', ps', hm'⟩

theorem ext_get_list {env : Env} {st st' : Node} {a : Addr} {t : FieldType} {xs : List Node}
    (h : Ext env st st') (ht : env.typeAt a = some t) (hc : t.isContainer = true)
    (hg : st.get? a = some (.list xs)) : ∃ xs', st'.get? a = some (.list xs') := by
  obtain ⟨m', hm', hs⟩ := h.get ht hg
  obtain ⟨xs', rfl⟩ := hs hc
  exact ⟨xs', hm'⟩

theorem ext_get_map {env : Env} {st st' : Node} {a : Addr} {t : FieldType} {ks : List Str} {vs : List Node}
    (h : Ext env st st') (ht : env.typeAt a = some t) (hc : t.isContainer = true)
    (hg : st.get? a = some (.map ks vs)) : ∃ ks' vs', st'.get? a = some (.map ks' vs') := by
  obtain ⟨m', hm', hs⟩ := h.get ht hg
  obtain ⟨ks', vs', rfl⟩ := hs hc
  exact ⟨ks', vs', hm'⟩

theorem ContOK.ext {env : Env} {st st' : Node} {c : Cont} (h : ContOK env st c) (he : Ext env st st') :
    ContOK env st' c := by
  obtain ⟨a, k⟩ := c
  cases k with
  | msg s =>
    obtain ⟨⟨t, ht, hs⟩, tc, ps, hg⟩ := h
    exact ⟨⟨t, ht, hs⟩, ext_get_msg he ht (FieldType.isContainer_of_msgSchema hs) hg⟩
  | map n item =>
    obtain ⟨⟨ht, hi⟩, ks, vs, hg⟩ := h
    exact ⟨⟨ht, hi⟩, ext_get_map he ht rfl hg⟩

theorem FieldOK.ext {env : Env} {st st' : Node} {f : Field} (h : FieldOK env st f) (he : Ext env st st') :
    FieldOK env st' f := by
  obtain ⟨a, k⟩ := f
  cases k with
  | container s => exact ContOK.ext (c := ⟨a, .msg s⟩) h he
  | arrayOfContainer s =>
    obtain ⟨⟨item, ht, hs⟩, xs, hg⟩ := h
    exact ⟨⟨item, ht, hs⟩, ext_get_list he ht rfl hg⟩
  | arrayOfScalar item =>
    obtain ⟨⟨ht, hs⟩, xs, hg⟩ := h
    exact ⟨⟨ht, hs⟩, ext_get_list he ht rfl hg⟩
  | map n item => exact ContOK.ext (c := ⟨a, .map n item⟩) h he
  | scalar t p =>
    obtain ⟨⟨ht, hs⟩, n, hg⟩ := h
    obtain ⟨m', hm', _⟩ := he.get ht hg
    exact ⟨⟨ht, hs⟩, m', hm'⟩
  | any => trivial

theorem ContainerFieldOK.ext {env : Env} {st st' : Node} {cf : ContainerField}
    (h : ContainerFieldOK env st cf) (he : Ext env st st') : ContainerFieldOK env st' cf :=
  ⟨h.1.ext he, h.2⟩

theorem ContainerFieldOK0.ext {env : Env} {st st' : Node} {cf : ContainerField}
    (h : ContainerFieldOK0 env st cf) (he : Ext env st st') : ContainerFieldOK0 env st' cf :=
  ⟨h.1.ext he, h.2⟩

theorem ContainerFieldOK.weak {env : Env} {st : Node} {cf : ContainerField}
    (h : ContainerFieldOK env st cf) : ContainerFieldOK0 env st cf := ⟨h.1, h.2.1⟩

theorem ScopeOK.ext {env : Env} {st st' : Node} {sc : Scope} (h : ScopeOK env st sc) (he : Ext env st st') :
    ScopeOK env st' sc :=
  ⟨h.1, fun b hb => (h.2.1 b hb).ext he, h.2.2.1.ext he, fun r hr => (h.2.2.2 r hr).ext he⟩

/-! ### The scope constructors of `Scope.lean` -/

theorem ScopeOK.newChild {env : Env} {st : Node} {c : ContainerField} (h : ContainerFieldOK env st c) :
    ScopeOK env st (Scope.newChild c) := by
  refine ⟨by simp [Scope.newChild], ?_, h, ?_⟩
  · intro b hb; simp [Scope.newChild] at hb; subst hb; exact h
  · intro r hr; simp [Scope.newChild] at hr; subst hr; exact h

theorem ScopeOK.mergeScope {env : Env} {st : Node} {sw other : Scope}
    (h1 : ScopeOK env st sw) (h2 : ScopeOK env st other) : ScopeOK env st (sw.mergeScope other) := by
  refine ⟨?_, ?_, h2.2.2.1, h1.2.2.2⟩
  · simp only [Scope.mergeScope]
    intro h
    exact h1.1 (List.append_eq_nil_iff.mp h).1
  · intro b hb
    simp only [Scope.mergeScope, List.mem_append] at hb
    rcases hb with hb | hb
    · exact h1.2.1 b hb
    · exact h2.2.1 b hb

theorem ScopeOK.tailScope {env : Env} {st : Node} {sw : Scope} (h : ScopeOK env st sw) :
    ScopeOK env st sw.tailScope := by
  refine ⟨by simp [Scope.tailScope], ?_, h.2.2.1, ?_⟩
  · intro b hb; simp [Scope.tailScope] at hb; subst hb; exact h.2.2.1
  · intro r hr; simp [Scope.tailScope] at hr

/-! ## Consequences of `Env.WF` -/

theorem WF_closed {env : Env} (h : env.WF = true) : env.closed = true := by
  simp [Env.WF] at h; exact h.1.1.1.1.1
theorem WF_typesOK {env : Env} (h : env.WF = true) : env.typesOK = true := by
  simp [Env.WF] at h; exact h.1.1.1.1.2
theorem WF_rootOK {env : Env} (h : env.WF = true) : env.rootOK = true := by
  simp [Env.WF] at h; exact h.1.1.1.2
theorem WF_stubOK {env : Env} (h : env.WF = true) : env.stubOK = true := by
  simp [Env.WF] at h; exact h.1.1.2
theorem WF_splitOK {env : Env} (h : env.WF = true) : env.splitOK = true := by
  simp [Env.WF] at h; exact h.1.2
theorem WF_mapNamesFresh {env : Env} (h : env.WF = true) : env.mapNamesFresh = true := by
  simp [Env.WF] at h; exact h.2

theorem findSchema_mem {name : Str} {l : List Schema} {s : Schema} (h : findSchema name l = some s) :
    s ∈ l ∧ s.name = name := by
  induction l with
  | nil => cases h
  | cons x rest ih =>
    simp only [findSchema] at h
    split at h
    · cases h; exact ⟨List.mem_cons_self, ‹_›⟩
    · exact ⟨List.mem_cons_of_mem _ (ih h).1, (ih h).2⟩

/-- every property of every schema `schemaOf` returns has a type `classify` accepts -/
theorem WF_prop_ok {env : Env} (h : env.WF = true) (r : Str) {p : Property}
    (hp : p ∈ (env.schemaOf r).props) : p.type.ok env = true := by
  unfold Env.schemaOf at hp
  cases hf : findSchema r env.schemas with
  | none => simp [hf] at hp
  | some s =>
    simp only [hf] at hp
    have hall := WF_typesOK h
    simp only [Env.typesOK, List.all_eq_true] at hall
    have := hall s (findSchema_mem hf).1
    simp only [Schema.typesOK, List.all_eq_true] at this
    exact this p hp

theorem FieldType.ok_of_itemOK {env : Env} {t : FieldType} (h : t.itemOK env = true) : t.ok env = true := by
  cases t <;> simp [FieldType.itemOK] at h <;> simp [FieldType.ok, FieldType.itemOK, h]

theorem FieldType.child_ok {env : Env} (hwf : env.WF = true) {t t' : FieldType} {i : Nat}
    (h : t.ok env = true) (hc : t.child env i = some t') : t'.ok env = true := by
  cases t with
  | object r =>
    simp only [FieldType.child] at hc
    cases hp : (env.schemaOf r).props[i]? with
    | none => simp [hp] at hc
    | some p =>
      simp only [hp, Option.map_some, Option.some.injEq] at hc
      subst hc
      exact WF_prop_ok hwf r (List.mem_of_getElem? hp)
  | oneof r =>
    simp only [FieldType.child] at hc
    cases hp : (env.schemaOf r).props[i]? with
    | none => simp [hp] at hc
    | some p =>
      simp only [hp, Option.map_some, Option.some.injEq] at hc
      subst hc
      exact WF_prop_ok hwf r (List.mem_of_getElem? hp)
  | array item =>
    simp only [FieldType.child, Option.some.injEq] at hc
    subst hc
    exact FieldType.ok_of_itemOK (by simpa [FieldType.ok] using h)
  | map item =>
    simp only [FieldType.child, Option.some.injEq] at hc
    subst hc
    exact FieldType.ok_of_itemOK (by simpa [FieldType.ok] using h)
  | _ => simp [FieldType.child] at hc

theorem typeAtFrom_ok {env : Env} (hwf : env.WF = true) {t t' : FieldType} {a : Addr}
    (h : t.ok env = true) (ht : typeAtFrom env t a = some t') : t'.ok env = true := by
  induction a generalizing t with
  | nil => simp at ht; subst ht; exact h
  | cons i rest ih =>
    rw [typeAtFrom_cons] at ht
    cases hc : t.child env i with
    | none => simp [hc] at ht
    | some t1 =>
      simp only [hc, Option.bind_some] at ht
      exact ih (FieldType.child_ok hwf h hc) ht

/-- every slot type is one `classify` accepts -/
theorem WF_typeAt_ok {env : Env} (hwf : env.WF = true) {a : Addr} {t : FieldType}
    (ht : env.typeAt a = some t) : t.ok env = true := by
  apply typeAtFrom_ok hwf _ ht
  have := WF_rootOK hwf
  simp only [Env.rootOK, Bool.and_eq_true, Bool.not_eq_true'] at this
  simp [FieldType.ok, FieldType.itemOK, this.2]

end J5V.Walker
