import J5V.Walker.WalkRules
/-!
# Kinds along a spec path in a ONE-BLOCK scope

In a scope `Scope.newChild cf` the walk of names is determined by the KIND of `cf.container`:
`childBlock` reaches the kind `childKind` computes, `scopeField` a field of the kind `fieldKindOf`
computes, `walkScope` the kind `walkChildKinds` computes. `splitPathOK_iff` restates `splitPathOK` in
these terms. (All of this is what `Env.splitOK` was defined for.)
-/
namespace J5V.Walker

/-- `childKind` along a list of names -/
def walkChildKinds (env : Env) : ContKind → List Str → Option ContKind
  | k, [] => some k
  | k, name :: rest =>
    match childKind env k name with
    | some k' => walkChildKinds env k' rest
    | none => none

theorem splitPathOK_iff (env : Env) (k : ContKind) (path : PathSpec) :
    splitPathOK env k path = true ↔
      ∃ last k' t pr, path.getLast? = some last ∧ walkChildKinds env k path.dropLast = some k' ∧
        fieldKindOf env k' last = some (.scalar t pr) := by
  induction path generalizing k with
  | nil => simp [splitPathOK]
  | cons name rest ih =>
    cases rest with
    | nil =>
      simp only [splitPathOK, List.getLast?_singleton, Option.some.injEq, List.dropLast_singleton,
        walkChildKinds]
      constructor
      · intro h
        split at h
        · rename_i t pr hk; exact ⟨name, k, t, pr, rfl, rfl, hk⟩
        · cases h
      · rintro ⟨last, k', t, pr, rfl, hk', hf⟩
        cases hk'
        rw [hf]
    | cons name2 rest2 =>
      have hdl : (name :: name2 :: rest2).dropLast = name :: (name2 :: rest2).dropLast := rfl
      have hgl : (name :: name2 :: rest2).getLast? = (name2 :: rest2).getLast? := by
        simp [List.getLast?_cons_cons]
      rw [hdl, hgl]
      simp only [splitPathOK, walkChildKinds]
      cases hck : childKind env k name with
      | none => simp
      | some k1 => simp only; exact ih k1

/-- in a one-block scope `findBlock` is `resolveName` of the block's kind -/
theorem findBlock_newChild {env : Env} {st : Node} {cf : ContainerField} {name : Str}
    (h : ContainerFieldOK env st cf) {root : ContainerField} {path : PathSpec}
    (hf : findBlock name (Scope.newChild cf).blockSet = some (root, path)) :
    root = cf ∧ resolveName env cf.container.kind name = some path := by
  have hmem := (findBlock_some hf).1
  simp only [Scope.newChild, List.mem_singleton] at hmem
  subst hmem
  have := findBlock_single (name := name) h.2.2
  simp only [Scope.newChild] at hf
  rw [hf] at this
  exact ⟨rfl, this.symm⟩

/-- `childBlock` in a one-block scope reaches `childKind` -/
theorem childBlock_single_spec {env : Env} (hwf : env.WF = true) (cf : ContainerField) (name : Str) :
    MSpec env (childBlock env (Scope.newChild cf) name) (fun st => ContainerFieldOK env st cf)
      (fun sc _ st' => ContainerFieldOK env st' sc.leaf ∧ sc = Scope.newChild sc.leaf ∧
        childKind env cf.container.kind name = some sc.leaf.container.kind)
      NoPos := by
  intro st hst hpre
  have := childBlock_spec hwf (Scope.newChild cf) name st hst (ScopeOK.newChild hpre)
  refine this.imp ?_ (fun _ h => h)
  rintro sc st' ⟨h1, h2, h3, h4, root, path, hfb, hk⟩
  obtain ⟨rfl, hres⟩ := findBlock_newChild hpre hfb
  refine ⟨h1, h2, h3.2.2.1, h4, ?_⟩
  simp only [childKind, hres]
  exact hk

/-- `scopeField` in a one-block scope returns a field of the kind `fieldKindOf` computes -/
theorem scopeField_single_spec {env : Env} (hwf : env.WF = true) (cf : ContainerField) (name : Str)
    (existingIsOk : Bool) :
    MSpec env (scopeField env (Scope.newChild cf) name existingIsOk) (fun st => ContainerFieldOK env st cf)
      (fun f _ st' => FieldOK env st' f ∧ fieldKindOf env cf.container.kind name = some f.kind)
      NoPos := by
  intro st hst hpre
  have := scopeField_spec hwf (Scope.newChild cf) name existingIsOk st hst (ScopeOK.newChild hpre)
  -- the `hasProperty` test of `scopeField` is the one of `fieldKindOf`: a field was returned, so it passed
  refine this.imp ?_ (fun _ h => h)
  rintro f st' ⟨h1, h2, h3, root, path, final, k', hfb, hl, hwk, hkv⟩
  obtain ⟨rfl, hres⟩ := findBlock_newChild hpre hfb
  refine ⟨h1, h2, h3, ?_⟩
  simp only [fieldKindOf, hres, hl, hwk]
  split
  · exact hkv
  · -- `kindOfValue` answers `some` only for a name the container has
    rename_i hnp
    exfalso
    apply hnp
    cases k' with
    | map n item => rfl
    | msg s =>
      simp only [kindOfValue] at hkv
      simp only [Cont.hasProperty, Schema.hasProperty]
      cases hfp : findProp final 0 s.props with
      | none => rw [hfp] at hkv; cases hkv
      | some ip => rfl

/-- `walkScope` over spec-supplied names (no position) in a one-block scope: the kind reached is
`walkChildKinds`; errors carry no position -/
theorem walkScope_single_spec {env : Env} (hwf : env.WF = true) :
    ∀ (names : List Str) (cf : ContainerField),
      MSpec env (walkScope env (Scope.newChild cf) (names.map fun n => ⟨n, none⟩))
        (fun st => ContainerFieldOK env st cf)
        (fun sc _ st' => ContainerFieldOK env st' sc.leaf ∧ sc = Scope.newChild sc.leaf ∧
          walkChildKinds env cf.container.kind names = some sc.leaf.container.kind)
        NoPos := by
  intro names
  induction names with
  | nil =>
    intro cf
    exact MSpec.pure (fun _ _ h => ⟨h, rfl, rfl⟩)
  | cons name rest ih =>
    intro cf st hst hpre
    have hcb := childBlock_single_spec hwf cf name
    show (walkScope env (Scope.newChild cf) (⟨name, none⟩ :: rest.map fun n => ⟨n, none⟩) st).Sat _ _
    simp only [walkScope]
    cases hr : childBlock env (Scope.newChild cf) name st with
    | panic w => exact absurd hr (hcb.no_panic hst hpre)
    | err werr => exact (hcb.err hst hpre hr).wrapped
    | ok r =>
      obtain ⟨next, st1⟩ := r
      obtain ⟨ht1, he1, hleaf, hnew, hk⟩ := hcb.ok hst hpre hr
      have := ih next.leaf st1 ht1 hleaf
      rw [← hnew] at this
      refine this.imp ?_ (fun _ h => h)
      rintro sc st' ⟨h1, h2, h3, h4, h5⟩
      refine ⟨h1, he1.trans h2, h3, h4, ?_⟩
      simp only [walkChildKinds, hk]
      exact h5

end J5V.Walker
