import J5V.Walker.PP.PropsG
import J5V.Walker.PP.Topics
/-!
# Print/parse: the `key` blocks of an entity (`j5.sourcedef.v1.EntityKey`)

`key NAME [!|?] TYPE… { [optional = true] [shardKey = true] lines }`: a property-like block (`PropsG`) with a
seventh slot `shardKey`; a directly typed `key` field writes its entity-key options through the SHORT
aliases `primary` / `tenant` of the block (`→ schema.key.entity.primaryKey / tenantKey`: `Scope.Field`
walks three containers, `scopeField_alias4`).
-/
namespace J5V.Walker
open J5V.Bcl

/-! ## Tables -/

def sEntityKeyDecl : Schema := j5_schema_lit% "j5.sourcedef.v1.EntityKey"
def specEntityKeyDecl : BlockSpec := j5_spec_lit% "j5.sourcedef.v1.EntityKey"
theorem schemaOf_EntityKeyDecl : j5Env.schemaOf b!"j5.sourcedef.v1.EntityKey" = sEntityKeyDecl := by
  rw [j5Env_nf]; decide +kernel
theorem specOf_EntityKeyDecl (c : Addr) : specOf j5Env ⟨c, .msg sEntityKeyDecl⟩ = .ok specEntityKeyDecl := by
  apply specOf_of_nil; rw [j5Env_nf]; decide +kernel

theorem pi_EKD_schema : propInfo j5Env sEntityKeyDecl b!"schema" = some (0, none, .container sField) := by
  rw [j5Env_nf]; decide +kernel
theorem pi_EKD_name : propInfo j5Env sEntityKeyDecl wName = some (1, none, .scalar (.scalar .string) false) := by
  rw [j5Env_nf]; decide +kernel
theorem pi_EKD_required :
    propInfo j5Env sEntityKeyDecl b!"required" = some (2, none, .scalar (.scalar .bool) false) := by
  rw [j5Env_nf]; decide +kernel
theorem pi_EKD_expl :
    propInfo j5Env sEntityKeyDecl b!"explicitlyOptional" = some (3, none, .scalar (.scalar .bool) false) := by
  rw [j5Env_nf]; decide +kernel
theorem pi_EKD_shardKey :
    propInfo j5Env sEntityKeyDecl b!"shardKey" = some (6, none, .scalar (.scalar .bool) false) := by
  rw [j5Env_nf]; decide +kernel
theorem pi_Field_key : propInfo j5Env sField b!"key" = some (14, some gField, .container sKeyField) := by
  rw [j5Env_nf]; decide +kernel

theorem outerOK_EKD : OuterOK sEntityKeyDecl specEntityKeyDecl where
  pi_schema := pi_EKD_schema
  pi_name := pi_EKD_name
  pi_required := pi_EKD_required
  pi_expl := pi_EKD_expl
  spec := specOf_EntityKeyDecl
  specName := by decide +kernel
  specTS := by decide +kernel
  aSchema := by decide +kernel
  aName := by decide +kernel
  aRequired := by decide +kernel
  aOptional := by decide +kernel
  misses := by
    intro n hn
    simp only [fieldLineNames, List.mem_cons, List.not_mem_nil, or_false] at hn
    rcases hn with rfl | rfl | rfl | rfl | rfl | rfl | rfl | rfl | rfl | rfl | rfl | rfl | rfl | rfl <;>
      exact ⟨by decide +kernel, by decide +kernel⟩

/-! ## `Scope.Field` through an alias of four steps -/

/-- `Scope.Field(n)` when `n` is an alias `[c1, c2, c3, final]`: three containers, then the property -/
theorem scopeField_alias4 {env : Env} {ps : Scope} {n c1 c2 c3 final : Str} {s : Schema} {spec : BlockSpec}
    {c : Addr} {existingIsOk : Bool} {a : Addr} {X X1 X2 : Node} {f3 : Addr} {s3 : Schema} {spec3 : BlockSpec}
    {vis : List ContainerField} {more : List ContainerField} {fld : Field}
    (hfb : findBlock n ps.blockSet = some (cfOf s spec c, [c1, c2, c3, final]))
    (hwp : Exact (walkPath env (cfOf s spec c) [c1, c2, c3]) a X vis X1)
    (hss : setSpecs env vis = .ok (cfOf s3 spec3 f3 :: more))
    (hhas : s3.hasProperty final = true)
    (hval : Exact (propSetValue env f3 s3 final (!existingIsOk)) a X1 fld X2) :
    Exact (scopeField env ps n existingIsOk) a X fld X2 := by
  unfold scopeField
  rw [hfb]
  dsimp only
  rw [if_neg (by simp)]
  have hl : ([c1, c2, c3, final] : List Str).getLast? = some final := rfl
  have hd : ([c1, c2, c3, final] : List Str).dropLast = [c1, c2, c3] := rfl
  rw [hl, hd]
  dsimp only
  unfold walkToChild
  rw [if_neg (by simp)]
  refine Exact.bind (Exact.bind hwp (Exact.bind (Exact.liftRes hss) (Exact.pure _ _ _))) ?_
  have : (cfOf s3 spec3 f3).container.hasProperty final = true := hhas
  refine Exact.ite_neg (by simp [this]) ?_
  exact hval.mapErr _

/-! ## The short aliases `primary` / `tenant` -/

/-- the key block of an entity at `e` -/
abbrev ekdCF (e : Addr) : ContainerField := cfOf sEntityKeyDecl specEntityKeyDecl e

section
variable {e : Addr} {sc : Scope} {tail : List ContainerField} {t1 r o : Bool} {nm : Node} {et : List Bool}
  {ev : List Node}

/-- the walk `schema.key.entity` of the short aliases, from the key block: two cached steps, then the
`entity` container (created if `oE = none`) -/
theorem ekdWalk_exact {tK : List Bool} {vsK : List Node} (htK : tK[4]? = some false) (hvK : vsK[4]? = some .absent)
    (oE : Option Node) :
    Exact (walkPath j5Env (ekdCF e) [b!"schema", b!"key", b!"entity"]) e
      (gNode true (oneofMsg 15 14 (holder tK vsK 4 oE)) t1 nm r o et ev)
      ([cf0 sEntityKeyMsg (e ++ [0] ++ [14] ++ [4])] ++ [cf0 sKeyField (e ++ [0] ++ [14])] ++ [cf0 sField (e ++ [0])])
      (gNode true (oneofMsg 15 14 (holder tK vsK 4 (some (oE.getD (freshMsg sEntityKeyMsg))))) t1 nm r o et ev) := by
  have hlt : 4 < vsK.length := (List.getElem?_eq_some_iff.mp hvK).1
  have hltt : 4 < tK.length := (List.getElem?_eq_some_iff.mp htK).1
  have hL0 : Lens (fun Y => gNode true Y t1 nm r o et ev) [0] :=
    Lens.slot ([true, t1, r, o, false, false] ++ et)
      ([Node.absent, nm, if r then bTrue else .absent, if o then bTrue else .absent, .absent, .absent] ++ ev) (i := 0)
      (by simp)
  have hLK : Lens (fun K => gNode true (oneofMsg 15 14 K) t1 nm r o et ev) ([0] ++ [14]) :=
    gType_lens 14 (by decide) t1 nm r o et ev
  -- `schema` (cached)
  have h1 : ∀ Y, Exact (propSetValue j5Env e sEntityKeyDecl b!"schema" false) e (gNode true Y t1 nm r o et ev)
      ⟨e ++ [0], .container sField⟩ (gNode true Y t1 nm r o et ev) :=
    fun Y => propSetValue_cached pi_EKD_schema rfl
  -- `key` (cached)
  have h2 : ∀ K, Exact (propSetValue j5Env (e ++ [0]) sField b!"key" false) e
      (gNode true (oneofMsg 15 14 K) t1 nm r o et ev) ⟨e ++ [0] ++ [14], .container sKeyField⟩
      (gNode true (oneofMsg 15 14 K) t1 nm r o et ev) :=
    fun K => Exact.lens hL0 (propSetValue_cached (c := e ++ [0]) (t := (List.replicate 15 false).set 14 true)
      (vs := (List.replicate 15 Node.absent).set 14 K) pi_Field_key rfl)
  -- `entity`
  have h3 : Exact (propSetValue j5Env (e ++ [0] ++ [14]) sKeyField b!"entity" false) e
      (gNode true (oneofMsg 15 14 (holder tK vsK 4 oE)) t1 nm r o et ev)
      ⟨e ++ [0] ++ [14] ++ [4], .container sEntityKeyMsg⟩
      (gNode true (oneofMsg 15 14 (holder tK vsK 4 (some (oE.getD (freshMsg sEntityKeyMsg))))) t1 nm r o et ev) := by
    have haddr : e ++ [0] ++ [14] = e ++ ([0] ++ [14]) := List.append_assoc _ _ _
    rw [haddr]
    refine Exact.lens hLK ?_
    cases oE with
    | none =>
      have hh : holder tK vsK 4 none = .msg tK vsK := by
        show Node.msg (tK.set 4 false) (vsK.set 4 .absent) = _
        rw [list_set_self htK, list_set_self hvK]
      rw [hh]
      exact propSetValue_build false pi_KeyField_entity htK hvK (.inl rfl)
    | some M =>
      exact propSetValue_cached pi_KeyField_entity (by
        show (tK.set 4 true)[4]? = some true
        rw [List.getElem?_set_self hltt])
  exact walkPath_container (propInfo_hasProperty pi_EKD_schema) (h1 _)
    (walkRest_cons (walkPath_container (spec := BlockSpec.empty) (propInfo_hasProperty pi_Field_key) (h2 _)
      (walkRest_cons (walkPath_container (spec := BlockSpec.empty) (propInfo_hasProperty pi_KeyField_entity) h3
        (walkRest_nil _ _ _)))))

/-- a short alias line `n = val` (`primary` / `tenant`) into the scalar property `final` of the entity
message of the key field -/
theorem shortAttr_exact {n final : Str} (hna : isAscii n = true)
    (hbs : sc.blockSet = ekdCF e :: tail)
    (halias : aliasLookup n specEntityKeyDecl.aliases = some [b!"schema", b!"key", b!"entity", final])
    {i : Nat} {og : Option (Str × List Nat)} {ty : FieldType}
    (hpi : propInfo j5Env sEntityKeyMsg final = some (i, og, .scalar ty true))
    {tK : List Bool} {vsK : List Node} (htK : tK[4]? = some false) (hvK : vsK[4]? = some .absent)
    (oE : Option Node) {tE : List Bool} {vsE : List Node} (hME : oE.getD (freshMsg sEntityKeyMsg) = .msg tE vsE)
    (hti : tE[i]? = some false) (hvi : vsE[i]? = some .absent) (hconf : NoConflict og vsE)
    {val : Value} {v : Scalar}
    (hva : (AV.value val).asArray = none) (hsc : scalarFromAST j5Env ty (.value val) = .ok v) :
    Exact (doStatement j5Env sc (assignStmt [n] val)) e
      (gNode true (oneofMsg 15 14 (holder tK vsK 4 oE)) t1 nm r o et ev) ()
      (gNode true (oneofMsg 15 14 (holder tK vsK 4 (some (.msg (tE.set i true) (vsE.set i (.scalar v))))))
        t1 nm r o et ev) := by
  have hlt : 4 < vsK.length := (List.getElem?_eq_some_iff.mp hvK).1
  have hli : i < vsE.length := (List.getElem?_eq_some_iff.mp hvi).1
  have hfb : findBlock n sc.blockSet = some (ekdCF e, [b!"schema", b!"key", b!"entity", final]) := by
    rw [hbs]; exact findBlock_alias' halias
  -- the lens to the entity message
  have hLE : Lens (fun Y => gNode true (oneofMsg 15 14 (holder tK vsK 4 (some Y))) t1 nm r o et ev)
      ([0] ++ [14] ++ [4]) :=
    Lens.comp (gType_lens 14 (by decide) t1 nm r o et ev) (Lens.slot (tK.set 4 true) vsK hlt)
  have haddr : e ++ [0] ++ [14] ++ [4] = e ++ ([0] ++ [14] ++ [4]) := by simp
  have hwp := ekdWalk_exact (e := e) (t1 := t1) (nm := nm) (r := r) (o := o) (et := et) (ev := ev) htK hvK oE
  rw [hME] at hwp
  have hval : Exact (propSetValue j5Env (e ++ [0] ++ [14] ++ [4]) sEntityKeyMsg final (!false)) e
      (gNode true (oneofMsg 15 14 (holder tK vsK 4 (some (.msg tE vsE)))) t1 nm r o et ev)
      ⟨e ++ [0] ++ [14] ++ [4] ++ [i], .scalar ty true⟩
      (gNode true (oneofMsg 15 14 (holder tK vsK 4 (some (.msg (tE.set i true) (vsE.set i .absent))))) t1 nm r o
        et ev) := by
    rw [haddr]
    exact Exact.lens hLE (propSetValue_build (c := e ++ ([0] ++ [14] ++ [4])) (cur := .absent) true hpi hti hvi hconf)
  have hsf := scopeField_alias4 (existingIsOk := false) hfb hwp
    (setSpecs_cons (specOf_EntityKeyMsg _) (setSpecs_cons (specOf_of_nil specOf_KeyField0 _)
      (setSpecs_cons (specOf_Field _) (setSpecs_nil _))))
    (propInfo_hasProperty hpi) hval
  refine doStatement_assign ?_
  refine setAttribute_scalar (pre := []) (last := pathElem n) (combinePath_ident hna []) (walkScope_nil _ _ _)
    hsf hva hsc ?_
  -- the store
  have hLI : Lens (fun Y => gNode true (oneofMsg 15 14 (holder tK vsK 4
      (some (.msg (tE.set i true) (vsE.set i Y))))) t1 nm r o et ev) ([0] ++ [14] ++ [4] ++ [i]) :=
    Lens.comp hLE (Lens.slot (tE.set i true) vsE hli)
  have haddr2 : e ++ [0] ++ [14] ++ [4] ++ [i] = e ++ ([0] ++ [14] ++ [4] ++ [i]) := by simp
  rw [haddr2]
  exact Exact.lens hLI (storeScalar_exact (e ++ ([0] ++ [14] ++ [4] ++ [i])) true v .absent)

end

end J5V.Walker
