import J5V.Walker.PP.GenWalk
import J5V.Walker.PP.Strings
/-!
# Print/parse, first slice (a): the root scope, the stub, `package`
-/
namespace J5V.Walker
open J5V.Bcl

/-! ## Table facts -/

theorem pi_SourceFile_package :
    propInfo j5Env sSourceFile b!"package" = some (1, none, .container sPackage) := by
  rw [j5Env_nf]; decide +kernel
theorem pi_Package_name :
    propInfo j5Env sPackage wName = some (0, none, .scalar (.scalar .string) false) := by
  rw [j5Env_nf]; decide +kernel

/-! ## The root -/

/-- the root block -/
def rootCF : ContainerField := cfOf sSourceFile specSourceFile []

def rootScope : Scope := Scope.newChild rootCF

theorem newRootSchemaWalker_j5 : newRootSchemaWalker j5Env = .ok rootScope := by
  unfold newRootSchemaWalker wrapContainer
  rw [j5Env_root, schemaOf_SourceFile, specOf_SourceFile]
  rfl

/-- the root message while the file is walked -/
def rootNode (p pkg : Node) (ti : Bool) (imports : Node) (te : Bool) (elems loc : Node) (tp : Bool) : Node :=
  .msg [false, tp, ti, te, false] [p, pkg, imports, elems, loc]

/-- `package a.b` -/
theorem package_exact {decl : Str} (hd : isDotted decl = true) (p q I E L : Node) (ti te : Bool) :
    Exact (doStatement j5Env rootScope (packageBcl decl)) []
      (rootNode p (.msg [false] [q]) ti I te E L false) ()
      (rootNode p (.msg [true] [sStr decl]) ti I te E L true) := by
  have hfb : findBlock b!"package" rootScope.blockSet = some (rootCF, [b!"package"]) :=
    findBlock_alias (by decide +kernel)
  -- the scope of the block
  have h1 : Exact (childBlock j5Env rootScope b!"package") [] (rootNode p (.msg [false] [q]) ti I te E L false)
      (Scope.newChild (cfOf sPackage specPackage [1])) (rootNode p (.msg [false] [q]) ti I te E L true) :=
    childBlock_of_walkPath hfb
      (walkPath_container (propInfo_hasProperty pi_SourceFile_package)
        (propSetValue_build false pi_SourceFile_package (cur := .msg [false] [q]) rfl rfl (.inl rfl))
        (walkRest_nil _ _ _))
      (setSpecs_cons (specOf_Package _) (setSpecs_nil _))
  refine doStatement_block (bs := Scope.newChild (cfOf sPackage specPackage [1])) (doFullBlockHead_exact
    (buildScope_reset (combinePath_ident (by decide) []) (walkScope_cons h1 (walkScope_nil _ _ _))) ?_)
    (doBody_nil _ _ _)
  refine doBlockHead_exact (spec2 := specPackage) rfl (walkTags_name (ns := ⟨strName, none, none, true, false⟩) ?_ rfl
    (applyNameTag_exact (checkBang_none _ _ rfl) ?_)) (walkQualifiers_nil _ _ _ _)
  · decide +kernel
  · -- `name = a.b` inside the package message at `[1]`
    have h2 := setAttr_direct (env := j5Env) (sc := Scope.newChild (cfOf sPackage specPackage [1]))
      (path := [strName]) (ref := []) (val := .tag (tagRef .none (dottedRef decl))) (n := strName) (pos := none)
      (c := [1]) (t := [false]) (vs := [q]) (cur := q) (v := .str decl) rfl
      (findBlock_prop (by decide +kernel) (by decide +kernel)) pi_Package_name rfl rfl (.inl rfl)
      (asArray_tag _) (by simp only [scalarFromAST, asString_tagRef_dotted hd]; rfl)
    refine (Exact.lift (a := []) (b := [1]) h2 rfl).conv ?_
    rw [storeNode_str]; rfl

end J5V.Walker
