import J5V.Walker.PP.Exact
import J5V.Walker.PP.J5Tables
/-!
# Exact lemmas for the building blocks of the walk, generic over the schema data they consult
(print/parse proof, part 3a)

State layer (`propSetValue`, `newContainerElement`, `storeScalar`), scope layer (`walkPath`,
`childBlock`, `walkScope`, `buildScope`, `scopeField`). Hypotheses are closed table facts
(`propInfo env s name = some (i, og, kind)`, `findBlock n blocks = some (b, path)`,
`specOf env ⟨c, .msg s⟩ = .ok spec`) and the shape of the message at the address (`t[i]? = …`,
`vs[i]? = …`).
-/
namespace J5V.Walker
open J5V.Bcl

/-! ## `propInfo` -/

theorem propInfo_spec {env : Env} {s : Schema} {n : Str} {i : Nat} {og : Option (Str × List Nat)}
    {k : FieldKind} (h : propInfo env s n = some (i, og, k)) :
    ∃ p, findProp n 0 s.props = some (i, p) ∧ p.oneofGroup = og ∧ classify env s.name p = .ok k := by
  unfold propInfo at h
  split at h
  · rename_i j p hf
    split at h
    · rename_i k' hk
      simp only [Option.some.injEq, Prod.mk.injEq] at h
      obtain ⟨rfl, rfl, rfl⟩ := h
      exact ⟨p, hf, rfl, hk⟩
    · cases h
  · cases h

theorem propInfo_of {env : Env} {s : Schema} {n : Str} {i : Nat} {p : Property} {k : FieldKind}
    (hf : findProp n 0 s.props = some (i, p)) (hk : classify env s.name p = .ok k) :
    propInfo env s n = some (i, p.oneofGroup, k) := by
  unfold propInfo; rw [hf]; dsimp only; rw [hk]

theorem propInfo_hasProperty {env : Env} {s : Schema} {n : Str} {i : Nat} {og : Option (Str × List Nat)}
    {k : FieldKind} (h : propInfo env s n = some (i, og, k)) : s.hasProperty n = true := by
  obtain ⟨p, hf, _⟩ := propInfo_spec h
  simp [Schema.hasProperty, hf]

/-- a block over a message -/
def cfOf (s : Schema) (spec : BlockSpec) (c : Addr) : ContainerField := ⟨s.name, ⟨c, .msg s⟩, spec⟩

/-- a block as `walkPath` returns it: no spec yet -/
abbrev cf0 (s : Schema) (c : Addr) : ContainerField := cfOf s BlockSpec.empty c

/-! ## Oneof conflicts -/

theorem oneofConflict_unpop (g : Str × List Nat) (i : Nat) (props : List Property) (vs : List Node)
    (h : vs.all (fun v => !v.populated) = true) (j : Nat) : oneofConflict g i j props vs = false := by
  induction vs generalizing props j with
  | nil => cases props <;> rfl
  | cons v vs ih =>
    cases props with
    | nil => rfl
    | cons p ps =>
      simp only [List.all_cons, Bool.and_eq_true, Bool.not_eq_true'] at h
      simp only [oneofConflict, h.1, Bool.and_false, Bool.false_or]
      exact ih ps h.2 (j + 1)

/-- the oneof check of `buildValue` passes -/
def NoConflict (og : Option (Str × List Nat)) (vs : List Node) : Prop :=
  og = none ∨ vs.all (fun v => !v.populated) = true

theorem NoConflict.eq (og : Option (Str × List Nat)) (vs : List Node) (i : Nat) (props : List Property) :
    NoConflict og vs →
    (match og with
      | some g => oneofConflict g i 0 props vs
      | none => false) = false := by
  intro h
  rcases h with h | h
  · subst h; rfl
  · cases og with
    | none => rfl
    | some g => exact oneofConflict_unpop g i props vs h 0

/-! ## State layer -/

/-- the oneof check of `buildValue` for property `i` of schema `s` passes -/
def NoConflictAt (s : Schema) (i : Nat) (og : Option (Str × List Nat)) (vs : List Node) : Prop :=
  ∀ g, og = some g → oneofConflict g i 0 s.props vs = false

theorem NoConflict.at {og : Option (Str × List Nat)} {vs : List Node} (h : NoConflict og vs) (s : Schema)
    (i : Nat) : NoConflictAt s i og vs := by
  intro g hg
  rcases h with h | h
  · rw [h] at hg; cases hg
  · exact oneofConflict_unpop g i s.props vs h 0

/-- `buildValue` on a property without oneof conflict -/
theorem buildValue_exact' {env : Env} {c : Addr} {s : Schema} {i : Nat} {p : Property}
    {kind : FieldKind} {t : List Bool} {vs : List Node} {cur : Node}
    (hk : classify env s.name p = .ok kind) (hv : vs[i]? = some cur)
    (hconf : NoConflictAt s i p.oneofGroup vs) :
    Exact (buildValue env c s i p) c (.msg t vs) ⟨c ++ [i], kind⟩
      (.msg (t.set i true) (vs.set i (builtValue kind cur))) := by
  unfold buildValue
  refine Exact.bind Exact.getNode_self ?_
  dsimp only
  refine Exact.ite_neg ?_ ?_
  · cases hg : p.oneofGroup with
    | none => simp
    | some g => simp [hconf g hg]
  · rw [hk, hv]
    refine Exact.bind (Exact.liftRes rfl) ?_
    dsimp only
    refine Exact.bind (Exact.setNode_self _) ?_
    exact Exact.pure _ _ _

/-- `GetOrCreateValue` / `NewValue` on a property not touched yet: the wrapper is built -/
theorem propSetValue_build' {env : Env} {c : Addr} {s : Schema} {name : Str} {i : Nat}
    {og : Option (Str × List Nat)} {kind : FieldKind} {t : List Bool} {vs : List Node} {cur : Node}
    (mustBeNew : Bool)
    (hpi : propInfo env s name = some (i, og, kind)) (ht : t[i]? = some false) (hv : vs[i]? = some cur)
    (hconf : NoConflictAt s i og vs) :
    Exact (propSetValue env c s name mustBeNew) c (.msg t vs) ⟨c ++ [i], kind⟩
      (.msg (t.set i true) (vs.set i (builtValue kind cur))) := by
  obtain ⟨p, hf, hog, hk⟩ := propInfo_spec hpi
  subst hog
  unfold propSetValue
  rw [hf]
  dsimp only
  intro S hS
  rw [M.bind_apply, getNode_apply, hS]
  dsimp only
  rw [ht, if_neg (by simp)]
  exact buildValue_exact' hk hv hconf S hS

theorem propSetValue_build {env : Env} {c : Addr} {s : Schema} {name : Str} {i : Nat}
    {og : Option (Str × List Nat)} {kind : FieldKind} {t : List Bool} {vs : List Node} {cur : Node}
    (mustBeNew : Bool)
    (hpi : propInfo env s name = some (i, og, kind)) (ht : t[i]? = some false) (hv : vs[i]? = some cur)
    (hconf : NoConflict og vs) :
    Exact (propSetValue env c s name mustBeNew) c (.msg t vs) ⟨c ++ [i], kind⟩
      (.msg (t.set i true) (vs.set i (builtValue kind cur))) :=
  propSetValue_build' mustBeNew hpi ht hv (hconf.at s i)

/-- `GetOrCreateValue` on a touched property: the cached wrapper, nothing changes -/
theorem propSetValue_cached {env : Env} {c : Addr} {s : Schema} {name : Str} {i : Nat}
    {og : Option (Str × List Nat)} {kind : FieldKind} {t : List Bool} {vs : List Node}
    (hpi : propInfo env s name = some (i, og, kind)) (ht : t[i]? = some true) :
    Exact (propSetValue env c s name false) c (.msg t vs) ⟨c ++ [i], kind⟩ (.msg t vs) := by
  obtain ⟨p, hf, _, hk⟩ := propInfo_spec hpi
  intro S hS
  simp only [propSetValue, hf, M.bind_apply, getNode_apply, hS, ht, if_true, Bool.false_eq_true,
    if_false, hk, M.lift_ok, M.pure_apply, Node.set_get_self hS]

/-- `NewContainerElement` -/
theorem newContainerElement_exact (f : Addr) (s : Schema) (xs : List Node) :
    Exact (newContainerElement f s) f (.list xs) ⟨f ++ [xs.length], .msg s⟩ (.list (xs ++ [freshMsg s])) := by
  intro S hS
  simp only [newContainerElement, M.bind_apply, getNode_apply, hS, setNode_apply, M.pure_apply]

/-- the node `storeScalar` leaves -/
def storeNode (presence : Bool) (v : Scalar) : Node := if presence || !v.isZero then .scalar v else .absent

theorem storeNode_str (s : Str) : storeNode false (.str s) = sStr s := by
  cases s <;> rfl

theorem storeNode_true : storeNode false (.bool true) = bTrue := rfl

theorem storeScalar_exact (f : Addr) (presence : Bool) (v : Scalar) (X : Node) :
    Exact (storeScalar f presence v) f X () (storeNode presence v) := by
  intro S _; rfl

/-- the slot of a repeated property holding `xs` (`Print.listVal`: touched iff non-empty) -/
def listSlot (xs : List Node) : Node := if xs.isEmpty then .absent else .list xs

theorem list_set_self {α : Type} {l : List α} {i : Nat} {x : α} (h : l[i]? = some x) : l.set i x = l := by
  obtain ⟨hlt, he⟩ := List.getElem?_eq_some_iff.mp h
  rw [← he]; exact List.set_getElem_self hlt

/-- `GetOrCreateValue` of an array-of-containers property holding `xs` (first visit: built, the slot
becomes `[]`; later visits: the cached wrapper) -/
theorem propSetValue_array {env : Env} {c : Addr} {s : Schema} {name : Str} {i : Nat} {s' : Schema}
    {t : List Bool} {vs : List Node} {xs : List Node}
    (hpi : propInfo env s name = some (i, none, .arrayOfContainer s'))
    (ht : t[i]? = some (!xs.isEmpty)) (hv : vs[i]? = some (listSlot xs)) :
    Exact (propSetValue env c s name false) c (.msg t vs) ⟨c ++ [i], .arrayOfContainer s'⟩
      (.msg (t.set i true) (vs.set i (.list xs))) := by
  cases xs with
  | nil => exact propSetValue_build false hpi ht hv (.inl rfl)
  | cons x xs =>
    have hv' : vs[i]? = some (.list (x :: xs)) := hv
    rw [list_set_self (show t[i]? = some true from ht), list_set_self hv']
    exact propSetValue_cached hpi ht

/-! ## Scope layer -/

/-- the tail of `walkPath` after the child has been made -/
def walkRest (env : Env) (child : ContainerField) (rest : List Str) : M (List ContainerField) :=
  if rest.isEmpty then pure [child]
  else do
    let endField ← walkPath env child rest
    pure (endField ++ [child])

theorem walkRest_nil {env : Env} (child : ContainerField) (a : Addr) (X : Node) :
    Exact (walkRest env child []) a X [child] X := Exact.pure _ _ _

theorem walkRest_cons {env : Env} {child : ContainerField} {n : Str} {rest : List Str} {a : Addr}
    {X X1 : Node} {more : List ContainerField}
    (h : Exact (walkPath env child (n :: rest)) a X more X1) :
    Exact (walkRest env child (n :: rest)) a X (more ++ [child]) X1 := by
  unfold walkRest
  rw [if_neg (by simp)]
  exact Exact.bind h (Exact.pure _ _ _)

/-- one step of `walkPath` through a container-typed property -/
theorem walkPath_container {env : Env} {s : Schema} {spec : BlockSpec} {c : Addr} {name : Str}
    {rest : List Str} {a : Addr} {X X1 X2 : Node} {f : Addr} {s' : Schema} {res : List ContainerField}
    (hhas : s.hasProperty name = true)
    (hval : Exact (propSetValue env c s name false) a X ⟨f, .container s'⟩ X1)
    (hrest : Exact (walkRest env (cf0 s' f) rest) a X1 res X2) :
    Exact (walkPath env (cfOf s spec c) (name :: rest)) a X res X2 := by
  rw [walkPath]
  have : (cfOf s spec c).container.hasProperty name = true := hhas
  rw [this]
  dsimp only [Bool.not_true]
  rw [if_neg (by simp)]
  refine Exact.bind (hval.mapErr _) ?_
  dsimp only
  refine Exact.bind (Exact.pure _ _ _) ?_
  exact hrest

/-- one step of `walkPath` through an array of containers: a NEW element -/
theorem walkPath_array {env : Env} {s : Schema} {spec : BlockSpec} {c : Addr} {name : Str}
    {rest : List Str} {a : Addr} {X X1 X2 X3 : Node} {f f' : Addr} {s' : Schema}
    {res : List ContainerField}
    (hhas : s.hasProperty name = true)
    (hval : Exact (propSetValue env c s name false) a X ⟨f, .arrayOfContainer s'⟩ X1)
    (hnew : Exact (newContainerElement f s') a X1 ⟨f', .msg s'⟩ X2)
    (hrest : Exact (walkRest env (cf0 s' f') rest) a X2 res X3) :
    Exact (walkPath env (cfOf s spec c) (name :: rest)) a X res X3 := by
  rw [walkPath]
  have : (cfOf s spec c).container.hasProperty name = true := hhas
  rw [this]
  dsimp only [Bool.not_true]
  rw [if_neg (by simp)]
  refine Exact.bind (hval.mapErr _) ?_
  dsimp only
  refine Exact.bind hnew ?_
  exact hrest

/-- `walkPath` through an array-of-containers property: a new element is appended -/
theorem walkPath_array_exact {env : Env} {s : Schema} {spec : BlockSpec} {c : Addr} {name : Str}
    {rest : List Str} {i : Nat} {s' : Schema} {t : List Bool} {vs : List Node} {xs : List Node}
    {E' : Node} {res : List ContainerField}
    (hpi : propInfo env s name = some (i, none, .arrayOfContainer s'))
    (ht : t[i]? = some (!xs.isEmpty)) (hv : vs[i]? = some (listSlot xs))
    (hrest : Exact (walkRest env (cf0 s' (c ++ [i, xs.length])) rest) (c ++ [i, xs.length]) (freshMsg s') res E') :
    Exact (walkPath env (cfOf s spec c) (name :: rest)) c (.msg t vs) res
      (.msg (t.set i true) (vs.set i (.list (xs ++ [E'])))) := by
  have hlt : i < vs.length := (List.getElem?_eq_some_iff.mp hv).1
  have hnew : Exact (newContainerElement (c ++ [i]) s') c (.msg (t.set i true) (vs.set i (.list xs)))
      ⟨c ++ [i, xs.length], .msg s'⟩ (.msg (t.set i true) (vs.set i (.list (xs ++ [freshMsg s'])))) := by
    have h := Exact.lift_prop (t := t.set i true) (vs := vs.set i (.list xs)) (i := i) (a := c)
      (by rw [List.getElem?_set_self hlt]) (newContainerElement_exact (c ++ [i]) s' xs)
    rw [List.set_set] at h
    refine h.conv_res ?_
    rw [List.append_assoc]; rfl
  refine walkPath_array (propInfo_hasProperty hpi) (propSetValue_array hpi ht hv) hnew ?_
  have h := Exact.lift_elem (t := t.set i true) (vs := vs.set i (.list (xs ++ [freshMsg s']))) (i := i) (a := c)
    (by rw [List.getElem?_set_self hlt]) hrest
  rw [List.set_set] at h
  exact h

theorem setSpecs_nil (env : Env) : setSpecs env [] = .ok [] := rfl

theorem setSpecs_cons {env : Env} {s : Schema} {c : Addr} {spec : BlockSpec} {rest rest' : List ContainerField}
    (h : specOf env ⟨c, .msg s⟩ = .ok spec) (hr : setSpecs env rest = .ok rest') :
    setSpecs env (cf0 s c :: rest) = .ok (cfOf s spec c :: rest') := by
  have : specOf env (cf0 s c).container = .ok spec := h
  simp only [setSpecs, this, hr]
  rfl

/-- `ChildBlock` from an exact run of `walkPath` -/
theorem childBlock_of_walkPath {env : Env} {sc : Scope} {n : Str} {root : ContainerField} {p : Str}
    {path : List Str} {a : Addr} {X X1 : Node} {visited : List ContainerField} {main : ContainerField}
    {more : List ContainerField}
    (hfb : findBlock n sc.blockSet = some (root, p :: path))
    (hwp : Exact (walkPath env root (p :: path)) a X visited X1)
    (hss : setSpecs env visited = .ok (main :: more)) :
    Exact (childBlock env sc n) a X (Scope.newChild main) X1 := by
  unfold childBlock
  rw [hfb]
  dsimp only
  refine Exact.bind ?_ (Exact.pure _ _ _)
  unfold walkToChild
  rw [if_neg (by simp)]
  refine Exact.bind hwp ?_
  refine Exact.bind (Exact.liftRes hss) ?_
  exact Exact.pure _ _ _

/-! ### `findBlock` -/

theorem findBlock_alias {n : Str} {b : ContainerField} {rest : List ContainerField} {p : PathSpec}
    (h : aliasLookup n b.spec.aliases = some p) : findBlock n (b :: rest) = some (b, p) := by
  simp only [findBlock, h]

theorem findBlock_prop {n : Str} {b : ContainerField} {rest : List ContainerField}
    (h : aliasLookup n b.spec.aliases = none) (hp : b.container.hasProperty n = true) :
    findBlock n (b :: rest) = some (b, [n]) := by
  simp only [findBlock, h, hp, if_true]

theorem findBlock_skip {n : Str} {b : ContainerField} {rest : List ContainerField}
    (h : aliasLookup n b.spec.aliases = none) (hp : b.container.hasProperty n = false) :
    findBlock n (b :: rest) = findBlock n rest := by
  simp only [findBlock, h, hp, Bool.false_eq_true, if_false]

/-! ### `walkScope`, `buildScope` -/

theorem walkScope_nil {env : Env} (sc : Scope) (a : Addr) (X : Node) :
    Exact (walkScope env sc []) a X sc X := Exact.pure _ _ _

theorem walkScope_cons {env : Env} {sc next : Scope} {id : PathElement} {rest : List PathElement}
    {a : Addr} {X X1 X2 : Node} {r : Scope}
    (h1 : Exact (childBlock env sc id.name) a X next X1)
    (h2 : Exact (walkScope env next rest) a X1 r X2) :
    Exact (walkScope env sc (id :: rest)) a X r X2 := by
  intro S hS
  rw [walkScope]
  dsimp only
  rw [h1 S hS]
  dsimp only
  rw [h2 _ (Node.get?_set_self' hS X1), Node.set_set]

theorem buildScope_reset {env : Env} {sc : Scope} {sp : PathSpec} {up : List Ident} {e : PathElement}
    {es : List PathElement} {a : Addr} {X X1 : Node} {r : Scope}
    (hp : combinePath sp up = e :: es)
    (h : Exact (walkScope env sc (e :: es)) a X r X1) :
    Exact (buildScope env sc sp up .resetScope) a X r X1 := by
  unfold buildScope
  dsimp only
  rw [hp, if_neg (by simp)]
  exact Exact.bind h (Exact.pure _ _ _)

theorem buildScope_keep_run {env : Env} {sc : Scope} {sp : PathSpec} {up : List Ident} {e : PathElement}
    {es : List PathElement} {a : Addr} {X X1 : Node} {r : Scope}
    (hp : combinePath sp up = e :: es)
    (h : Exact (walkScope env sc (e :: es)) a X r X1) :
    Exact (buildScope env sc sp up .keepScope) a X (sc.mergeScope r) X1 := by
  unfold buildScope
  dsimp only
  rw [hp, if_neg (by simp)]
  exact Exact.bind h (Exact.pure _ _ _)

/-- `Scope.Field` when the block found holds the property itself (path of length one) -/
theorem scopeField_direct {env : Env} {sc : Scope} {n final : Str} {s : Schema} {spec : BlockSpec}
    {c : Addr} {existingIsOk : Bool} {a : Addr} {X X1 : Node} {f : Field}
    (hfb : findBlock n sc.blockSet = some (cfOf s spec c, [final]))
    (hhas : s.hasProperty final = true)
    (hval : Exact (propSetValue env c s final (!existingIsOk)) a X f X1) :
    Exact (scopeField env sc n existingIsOk) a X f X1 := by
  unfold scopeField
  rw [hfb]
  dsimp only [List.isEmpty_cons, Bool.false_eq_true, if_false, List.getLast?_singleton, List.dropLast_singleton]
  unfold walkToChild
  rw [if_neg (by simp)]
  refine Exact.bind (Exact.ite_pos (by simp) (Exact.pure _ _ _)) ?_
  have : (cfOf s spec c).container.hasProperty final = true := hhas
  refine Exact.ite_neg (by simp [this]) ?_
  exact hval.mapErr _

end J5V.Walker
