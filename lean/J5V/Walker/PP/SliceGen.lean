import J5V.Walker.PP.Props2
import J5V.Walker.PP.Slice1
/-!
# Print/parse: files of top-level objects, generic in the covered fields

`supportedBy fok`: `package` + imports + top-level `object` elements (no nested schemas) whose properties
have identifier names and fields accepted by `fok`. `print_parse_by`: if every field accepted by `fok` has
`FieldFacts`, the theorem holds for `supportedBy fok`; `supportedBy_supported`: if `fok` implies `fieldOk`,
`supportedBy fok` is a sub-fragment of `supported`. A slice = a predicate `fok` + its `FieldFacts`.
-/
namespace J5V.Walker
open J5V.Bcl

/-- the property is covered: its name is an identifier and its field has the facts -/
def PropHas : CProperty → Prop
  | .mk name _ _ f => isIdent name = true ∧ Nonempty (FieldFacts f)

theorem props_appendsAll2 {kw : Str} (hkw : isAscii kw = true) {sc : Scope} {s : Schema} {spec : BlockSpec}
    {c : Addr} {pn : Str} {i : Nat}
    (hfb : findBlock kw sc.blockSet = some (cfOf s spec c, [pn]))
    (hpi : propInfo j5Env s pn = some (i, none, .arrayOfContainer sObjectProperty))
    (ps : List CProperty) (hps : ∀ p ∈ ps, PropHas p) :
    AppendsAll j5Env sc c i (propsBcl kw ps) (propsMsg j5Env ps) := by
  induction ps with
  | nil => exact .nil
  | cons p ps ih =>
    simp only [propsBcl, propsMsg]
    obtain ⟨name, req, opt, f⟩ := p
    obtain ⟨hname, ⟨ff⟩⟩ := hps (.mk name req opt f) (by simp)
    exact .cons (fun xs t vs ht hv => prop_stmt_exact2 hname ff hkw hfb hpi ht hv)
      (ih (fun p hp => hps p (List.mem_cons_of_mem _ hp)))

/-- `object NAME { fields }` over covered properties -/
theorem object_appends2 {name : Str} {props : List CProperty} {psm : Option J5V.Compile.Psm}
    (hname : isIdent name = true) (hps : ∀ p ∈ props, PropHas p) :
    Appends j5Env rootScope [] 3 (elemBcl (.object (.mk name props [] psm)))
      (elemMsg j5Env (.object (.mk name props [] psm))) :=
  object_appends_of hname (fun d =>
    props_appendsAll2 (kw := wField) (by decide) (findBlock_field_objCF d) pi_Object_properties props hps)

/-! ## The fragment of a field predicate -/

section
variable (fok : CField → Bool)

def propOkBy : CProperty → Bool
  | .mk name _ _ f => isIdent name && fok f

def propsOkBy : List CProperty → Bool
  | [] => true
  | p :: ps => propOkBy fok p && propsOkBy ps

def objDeclOkBy : J5V.Compile.ObjDecl → Bool
  | .mk name props nested psm => isIdent name && psm.isNone && propsOkBy fok props && nested.isEmpty

def elemOkBy : J5V.Compile.Elem → Bool
  | .object o => objDeclOkBy fok o
  | _ => false

/-- `package` + imports + top-level objects whose fields satisfy `fok` -/
def supportedBy : J5V.Compile.SrcFile → Bool
  | .j5s _ imports elems decl => isDotted decl && imports.all importOk && elems.all (elemOkBy fok)
  | .proto .. => false

variable {fok}

theorem propsHas_of_propsOkBy (hfacts : ∀ f, fok f = true → Nonempty (FieldFacts f)) {ps : List CProperty}
    (h : propsOkBy fok ps = true) : ∀ p ∈ ps, PropHas p := by
  induction ps with
  | nil => intro p hp; cases hp
  | cons q ps ih =>
    simp only [propsOkBy, Bool.and_eq_true] at h
    intro p hp
    rcases List.mem_cons.mp hp with rfl | hp
    · obtain ⟨name, req, opt, f⟩ := p
      simp only [propOkBy, Bool.and_eq_true] at h
      exact ⟨h.1.1, hfacts f h.1.2⟩
    · exact ih h.2 p hp

theorem propsOk_of_propsOkBy (hsub : ∀ f, fok f = true → fieldOk j5Env f = true) {ps : List CProperty}
    (h : propsOkBy fok ps = true) : propsOk j5Env ps = true := by
  induction ps with
  | nil => rfl
  | cons p ps ih =>
    obtain ⟨name, req, opt, f⟩ := p
    simp only [propsOkBy, propOkBy, Bool.and_eq_true] at h
    simp only [propsOk, propOk, Bool.and_eq_true]
    exact ⟨⟨h.1.1, hsub f h.1.2⟩, ih h.2⟩

/-- the fragment of `fok` is part of the covered fragment -/
theorem supportedBy_supported (hsub : ∀ f, fok f = true → fieldOk j5Env f = true)
    {ast : J5V.Compile.SrcFile} (h : supportedBy fok ast = true) : supported ast = true := by
  cases ast with
  | j5s path imports elems decl =>
    simp only [supportedBy, Bool.and_eq_true, List.all_eq_true] at h
    simp only [supported, supportedEnv, Bool.and_eq_true, List.all_eq_true]
    refine ⟨⟨h.1.1, h.1.2⟩, fun e he => ?_⟩
    have hok := h.2 e he
    cases e with
    | object o =>
      obtain ⟨name, props, nested, psm⟩ := o
      simp only [elemOkBy, objDeclOkBy, Bool.and_eq_true, List.isEmpty_iff] at hok
      obtain ⟨⟨⟨h1, h2⟩, h3⟩, h4⟩ := hok
      subst h4
      simp only [elemOk, objDeclOk, Bool.and_eq_true, Bool.false_eq_true, if_false, nestedOk]
      exact ⟨⟨⟨h1, h2⟩, propsOk_of_propsOkBy hsub h3⟩, trivial⟩
    | _ => cases hok
  | proto _ _ _ => cases h

/-- print/parse for the fragment of `fok` -/
theorem print_parse_by (hfacts : ∀ f, fok f = true → Nonempty (FieldFacts f)) (filename : Str)
    (ast : J5V.Compile.SrcFile) (h : supportedBy fok ast = true) :
    walkSchema j5Env (toBcl ast) (stub j5Env filename) = .ok (toMsg filename ast) := by
  cases ast with
  | proto _ _ _ => cases h
  | j5s path imports elems decl =>
    simp only [supportedBy, Bool.and_eq_true, List.all_eq_true] at h
    obtain ⟨⟨hdecl, himports⟩, helems⟩ := h
    refine print_parse_of filename path decl imports elems hdecl himports ?_
    refine appendsAll_map _ _ _ (fun e he => ?_)
    have hok := helems e he
    cases e with
    | object o =>
      obtain ⟨name, props, nested, psm⟩ := o
      simp only [elemOkBy, objDeclOkBy, Bool.and_eq_true, List.isEmpty_iff] at hok
      obtain ⟨⟨⟨hname, _⟩, hprops⟩, hnested⟩ := hok
      subst hnested
      exact object_appends2 hname (propsHas_of_propsOkBy hfacts hprops)
    | _ => cases hok

end

end J5V.Walker
