import J5V.Walker.PP.Field2Refs2
import J5V.Walker.PP.Props
/-!
# Print/parse, fourth slice: `array:ITEM`, `map:ITEM` from the facts of the item type

`arrayFacts ffi`, `mapFacts ffi`: `FieldFacts` of a collection from the `FieldFacts` of its (non-collection)
item type. Qualifiers: the block qualifier `items` / `itemSchema` selects the item kind, then the item's
qualifier chain runs with the collection block added to the outer blocks. Body: the collection's own
rules, then the item's lines through the prefix `[items, KIND]` (reach = `child_touched` twice).
-/
namespace J5V.Walker
open J5V.Bcl

theorem pi_ArrayField_items : propInfo j5Env sArrayField wItems = some (1, none, .container sField) := by
  rw [j5Env_nf]; decide +kernel
theorem pi_MapField_itemSchema : propInfo j5Env sMapField wItemSchema = some (0, none, .container sField) := by
  rw [j5Env_nf]; decide +kernel

/-- the collection block misses the names an item's qualifiers look up -/
theorem arrayCF_misses (d : Addr) {n : Str} (h : n = b!"format" ∨ n = b!"ref") :
    Misses (cfOf sArrayField specArrayField d) n := by
  rcases h with rfl | rfl <;> exact misses_cfOf (by decide +kernel) (by decide +kernel)

theorem mapCF_misses (d : Addr) {n : Str} (h : n = b!"format" ∨ n = b!"ref") :
    Misses (cfOf sMapField specMapField d) n := by
  rcases h with rfl | rfl <;> exact misses_cfOf (by decide +kernel) (by decide +kernel)

theorem arrayCF_misses_option (d : Addr) : Misses (cfOf sArrayField specArrayField d) wOption :=
  misses_cfOf (by decide +kernel) (by decide +kernel)

theorem mapCF_misses_block (d : Addr) {kw : Str} (h : kw = wField ∨ kw = wOption) :
    Misses (cfOf sMapField specMapField d) kw := by
  rcases h with rfl | rfl <;> exact misses_cfOf (by decide +kernel) (by decide +kernel)

/-- the scope shape of the item type, from the shape of the collection -/
theorem scopeAt_item {sc : Scope} {sC : Schema} {specC : BlockSpec} {items : CField} (ffi : FieldFacts items)
    {d d' : Addr}
    (hCmiss : ∀ kw ∈ ffi.blockNames, Misses (cfOf sC specC d) kw)
    (h : ScopeAt sc (cfOf sC specC d) ffi.blockNames
      (fun tail => ∃ tail', tail = tcfOf items d' :: tail' ∧ ffi.tailP d' tail')) :
    ScopeAt sc (tcfOf items d') ffi.blockNames (ffi.tailP d') := by
  obtain ⟨pre, tail, hbs, hpre, tail', rfl, htail⟩ := h
  refine ⟨pre ++ [cfOf sC specC d], tail', by rw [hbs]; simp, ?_, htail⟩
  intro kw hkw o ho
  rcases List.mem_append.mp ho with ho | ho
  · exact hpre kw hkw o ho
  · simp only [List.mem_singleton] at ho; subst ho
    exact hCmiss kw hkw

/-- the block qualifier `:KIND` of a collection whose item schema is the property `wn` (slot `si`) -/
theorem collQual_exact {sC : Schema} {specC : BlockSpec} {wn : Str} {si : Nat} {items : CField}
    (ffi : FieldFacts items)
    (hq : specC.qualifier = some ⟨wn, none, none, false, true⟩)
    (halias : aliasLookup wn specC.aliases = none)
    (hpi : propInfo j5Env sC wn = some (si, none, .container sField))
    (hCmiss : ∀ d n, n = b!"format" ∨ n = b!"ref" → Misses (cfOf sC specC d) n)
    (hnc : isCollection items = false)
    {outer : List ContainerField} (root : Option ContainerField) (d : Addr)
    (hmiss : ∀ n, n = wn ∨ n ∈ ffi.qualNames → ∀ o ∈ outer, Misses o n)
    {t : List Bool} {vs : List Node} (ht : t[si]? = some false) (hv : vs[si]? = some .absent) :
    ∃ (sc2 : Scope) (spec2 : BlockSpec) (tail : List ContainerField),
      sc2.blockSet = outer ++ (cfOf sC specC d :: tail) ∧
      (∃ tail', tail = tcfOf items (d ++ [si, kindIdx items]) :: tail' ∧
        ffi.tailP (d ++ [si, kindIdx items]) tail') ∧
      Exact (walkQualifiers j5Env (tagRef .none (refOf [fieldKind items]) :: fieldQuals items)
        (typeScope outer (cfOf sC specC d) root) specC) d (.msg t vs) (sc2, spec2)
        (.msg (t.set si true) (vs.set si (oneofMsg 15 (kindIdx items) ffi.qualVal))) := by
  have hlt : si < vs.length := (List.getElem?_eq_some_iff.mp hv).1
  -- the item's qualifiers, with the collection block among the outer blocks
  obtain ⟨sc2, spec2, tail, hbs, htail, hq2⟩ := ffi.runQ (outer ++ [cfOf sC specC d]) root (d ++ [si, kindIdx items])
    (fun n hn o ho => by
      rcases List.mem_append.mp ho with ho | ho
      · exact hmiss n (.inr hn) o ho
      · simp only [List.mem_singleton] at ho; subst ho
        exact hCmiss d n (ffi.qualSub hnc n hn))
  refine ⟨sc2, spec2, tcfOf items (d ++ [si, kindIdx items]) :: tail, by rw [hbs]; simp, ⟨tail, rfl, htail⟩, ?_⟩
  -- the item schema container, then the kind
  have h1 : Exact (childBlock j5Env (typeScope outer (cfOf sC specC d) root) wn) d (.msg t vs)
      (Scope.newChild (cfOf sField specField (d ++ [si])))
      (.msg (t.set si true) (vs.set si (freshMsg sField))) :=
    childBlock_of_walkPath
      ((findBlock_skip_all (hmiss wn (.inl rfl))).trans (findBlock_prop' halias (propInfo_hasProperty hpi)))
      (walkPath_container (propInfo_hasProperty hpi)
        (propSetValue_build false hpi (cur := .absent) ht hv (.inl rfl)) (walkRest_nil _ _ _))
      (setSpecs_cons (specOf_Field _) (setSpecs_nil _))
  have h2' : Exact (childBlock j5Env (Scope.newChild (cfOf sField specField (d ++ [si]))) (fieldKind items))
      (d ++ [si]) (freshMsg sField)
      (Scope.newChild (cfOf (kindSchema items) (kindSpec items) (d ++ [si] ++ [kindIdx items])))
      (oneofMsg 15 (kindIdx items) (freshMsg (kindSchema items))) :=
    childBlock_of_walkPath
      (findBlock_prop' (show aliasLookup (fieldKind items) specField.aliases = none from rfl)
        (propInfo_hasProperty ffi.pi))
      (walkPath_container (propInfo_hasProperty ffi.pi)
        (propSetValue_build false ffi.pi (t := List.replicate 15 false) (vs := List.replicate 15 .absent)
          (cur := .absent)
          (by rw [List.getElem?_replicate, if_pos (kind_lt items)])
          (by rw [List.getElem?_replicate, if_pos (kind_lt items)]) (.inr rfl))
        (walkRest_nil _ _ _))
      (setSpecs_cons (ffi.spec _) (setSpecs_nil _))
  have h2 : Exact (childBlock j5Env (Scope.newChild (cfOf sField specField (d ++ [si]))) (fieldKind items)) d
      (.msg (t.set si true) (vs.set si (freshMsg sField)))
      (Scope.newChild (cfOf (kindSchema items) (kindSpec items) (d ++ [si, kindIdx items])))
      (.msg (t.set si true) (vs.set si (oneofMsg 15 (kindIdx items) (freshMsg (kindSchema items))))) := by
    have h := Exact.lift_prop (t := t.set si true) (vs := vs.set si (freshMsg sField)) (i := si) (a := d)
      (by rw [List.getElem?_set_self hlt]) h2'
    rw [List.append_assoc, List.set_set] at h
    exact h
  -- the item's qualifier chain, seen from the collection message
  have hq2' : Exact (walkQualifiers j5Env (fieldQuals items)
      (typeScope (outer ++ [cfOf sC specC d]) (tcfOf items (d ++ [si, kindIdx items])) root) (kindSpec items)) d
      (.msg (t.set si true) (vs.set si (oneofMsg 15 (kindIdx items) (freshMsg (kindSchema items)))))
      (sc2, spec2) (.msg (t.set si true) (vs.set si (oneofMsg 15 (kindIdx items) ffi.qualVal))) := by
    have h0 : d ++ [si, kindIdx items] = d ++ [si] ++ [kindIdx items] := by simp
    rw [h0] at hq2
    have h := Exact.lift_prop (t := t.set si true)
      (vs := vs.set si (oneofMsg 15 (kindIdx items) (freshMsg (kindSchema items)))) (i := si) (a := d)
      (by rw [List.getElem?_set_self hlt]) (Exact.lift_oneof (kind_lt items) hq2)
    rw [List.set_set] at h
    rw [h0]
    exact h
  exact walkQualifiers_block (tagSpec := ⟨wn, none, none, false, true⟩) (ref := refOf [fieldKind items]) hq rfl rfl
    (buildScope_keep_run (combinePath_ident (kind_ascii items) [wn])
      (walkScope_cons h1 (walkScope_cons h2 (walkScope_nil _ _ _))))
    (checkBang_none _ _ rfl) hq2'

/-! ## `array:ITEM` -/

/-- the facts of an array, given the run of its body -/
def arrayFactsWith {items : CField} (ffi : FieldFacts items) (hnc : isCollection items = false)
    (rules : J5V.Compile.Rules)
    (hB : FieldRunB (.array items rules) [wRules, wItems] ffi.blockNames
      (fun d tail => ∃ tail', tail = tcfOf items (d ++ [1, kindIdx items]) :: tail' ∧
        ffi.tailP (d ++ [1, kindIdx items]) tail')
      (.msg [false, true, false] [.absent, oneofMsg 15 (kindIdx items) ffi.qualVal, .absent])
      (.msg [!rules.isEmpty, true, false]
        [rulesNode sArrayRules rules, oneofMsg 15 (kindIdx items) ffi.typeVal, .absent])) :
    FieldFacts (.array items rules) where
  qualNames := wItems :: ffi.qualNames
  bodyNames := [wRules, wItems]
  blockNames := ffi.blockNames
  tailP := fun d tail => ∃ tail', tail = tcfOf items (d ++ [1, kindIdx items]) :: tail' ∧
    ffi.tailP (d ++ [1, kindIdx items]) tail'
  qualVal := .msg [false, true, false] [.absent, oneofMsg 15 (kindIdx items) ffi.qualVal, .absent]
  typeVal := .msg [!rules.isEmpty, true, false]
    [rulesNode sArrayRules rules, oneofMsg 15 (kindIdx items) ffi.typeVal, .absent]
  pi := kind_pi_c rfl
  spec := kind_spec_c rfl
  specName := kindSpec_name
  specTypeSelect := kindSpec_typeSelect
  msg := by
    simp only [fieldMsg, fieldOneof]
    rw [rulesVals_eq rulesSchema_Array schemaOf_ArrayRules, ffi.msg, mkMsg_of schemaOf_Field,
      mkMsg_of schemaOf_ArrayField]
    cases rules <;> rfl
  namesSub := by
    intro n hn
    rcases hn with hn | hn
    · rcases List.mem_cons.mp hn with rfl | hn
      · decide
      · exact ffi.namesSub n (.inl hn)
    · simp only [List.mem_cons, List.not_mem_nil, or_false] at hn
      rcases hn with rfl | rfl <;> decide
  qualSub := by intro hc; cases hc
  blockSub := ffi.blockSub
  found := by
    intro d n hn
    show (findBlock n [cfOf sArrayField specArrayField d]).isSome = true
    simp only [List.mem_cons, List.not_mem_nil, or_false] at hn
    rcases hn with rfl | rfl
    · rw [findBlock_prop' (show aliasLookup wRules specArrayField.aliases = none by decide +kernel)
        (propInfo_hasProperty pi_Array_rules)]; rfl
    · rw [findBlock_prop' (show aliasLookup wItems specArrayField.aliases = none by decide +kernel)
        (propInfo_hasProperty pi_ArrayField_items)]; rfl
  runQ := by
    intro outer root d hmiss
    exact collQual_exact (sC := sArrayField) (specC := specArrayField) (wn := wItems) (si := 1) ffi
      (by decide +kernel) (by decide +kernel) pi_ArrayField_items (fun d n => arrayCF_misses d) hnc root d
      (fun n hn => hmiss n (by
        rcases hn with rfl | hn
        · exact List.mem_cons_self
        · exact List.mem_cons_of_mem _ hn))
      (t := [false, false, false]) (vs := [.absent, .absent, .absent]) rfl rfl
  runB := hB

/-- the body of an array whose item type has no `field` blocks -/
theorem array_runB {items : CField} (ffi : FieldFacts items) (hnf : wField ∉ ffi.blockNames)
    (rules : J5V.Compile.Rules) (h : rulesOk j5Env b!"j5.schema.v1.ArrayField" rules = true) :
    FieldRunB (.array items rules) [wRules, wItems] ffi.blockNames
      (fun d tail => ∃ tail', tail = tcfOf items (d ++ [1, kindIdx items]) :: tail' ∧
        ffi.tailP (d ++ [1, kindIdx items]) tail')
      (.msg [false, true, false] [.absent, oneofMsg 15 (kindIdx items) ffi.qualVal, .absent])
      (.msg [!rules.isEmpty, true, false]
        [rulesNode sArrayRules rules, oneofMsg 15 (kindIdx items) ffi.typeVal, .absent]) := by
  intro sc pfx a b C hr hsc
  have hu := rulesOk_unpack h rulesSchema_Array schemaOf_ArrayRules
  have hfbR : findBlock wRules [cfOf sArrayField specArrayField (a ++ b)] =
      some (cfOf sArrayField specArrayField (a ++ b), [wRules]) :=
    findBlock_prop' (show aliasLookup wRules specArrayField.aliases = none by decide +kernel)
      (propInfo_hasProperty pi_Array_rules)
  have hfbI : findBlock wItems [cfOf sArrayField specArrayField (a ++ b)] =
      some (cfOf sArrayField specArrayField (a ++ b), [wItems]) :=
    findBlock_prop' (show aliasLookup wItems specArrayField.aliases = none by decide +kernel)
      (propInfo_hasProperty pi_ArrayField_items)
  -- the array's own rules
  have h1 := hr.rules (show wRules ∈ [wRules, wItems] by simp) rulesOK_Array hfbR pi_Array_rules
    specOf_ArrayRules (t := [false, true, false])
    (vs := [.absent, oneofMsg 15 (kindIdx items) ffi.qualVal, .absent]) rfl rfl rules hu.1 hu.2
  -- the item's lines, through `items.KIND`
  have hr1 := hr.child_touched [!rules.isEmpty, true, false] [rulesNode sArrayRules rules, .absent, .absent]
    (n := wItems) (show wItems ∈ [wRules, wItems] by simp) (by decide) hfbI pi_ArrayField_items specOf_Field
    rfl (by simp)
  have hfbK : findBlock (fieldKind items) [cfOf sField specField (a ++ (b ++ [1]))] =
      some (cfOf sField specField (a ++ (b ++ [1])), [fieldKind items]) :=
    findBlock_prop' (show aliasLookup (fieldKind items) specField.aliases = none from rfl)
      (propInfo_hasProperty ffi.pi)
  have hr2 := hr1.child_touched ((List.replicate 15 false).set (kindIdx items) true) (List.replicate 15 .absent)
    (n := fieldKind items) trivial (kind_ascii items) hfbK ffi.pi ffi.spec
    (by rw [List.getElem?_set_self (by simpa using kind_lt items)]) (by simpa using kind_lt items)
  have hsc' : ScopeAt sc (tcfOf items (a ++ (b ++ [1] ++ [kindIdx items]))) ffi.blockNames
      (ffi.tailP (a ++ (b ++ [1] ++ [kindIdx items]))) := by
    have e : a ++ (b ++ [1] ++ [kindIdx items]) = a ++ b ++ [1, kindIdx items] := by simp
    rw [e]
    exact scopeAt_item ffi (fun kw hkw => by
      rcases ffi.blockSub kw hkw with rfl | rfl
      · exact absurd hkw hnf
      · exact arrayCF_misses_option _) hsc
  have h2 := ffi.runB sc (pfx ++ [wItems] ++ [fieldKind items]) a (b ++ [1] ++ [kindIdx items]) _
    (hr2.mono (fun _ _ => trivial)) hsc'
  have hkey : pfx ++ [wItems] ++ [fieldKind items] = pfx ++ [wItems, fieldKind items] := by simp
  rw [hkey] at h2
  exact doBody_append h1 h2


def arrayFacts {items : CField} (ffi : FieldFacts items) (hnc : isCollection items = false)
    (hnf : wField ∉ ffi.blockNames)
    (rules : J5V.Compile.Rules) (h : rulesOk j5Env b!"j5.schema.v1.ArrayField" rules = true) :
    FieldFacts (.array items rules) :=
  arrayFactsWith ffi hnc rules (array_runB ffi hnf rules h)

/-! ## `map:ITEM` -/

def mapFacts {items : CField} (ffi : FieldFacts items) (hnc : isCollection items = false)
    (rules : J5V.Compile.Rules) (h : rulesOk j5Env b!"j5.schema.v1.MapField" rules = true) :
    FieldFacts (.map items rules) where
  qualNames := wItemSchema :: ffi.qualNames
  bodyNames := [wRules, wItemSchema]
  blockNames := ffi.blockNames
  tailP := fun d tail => ∃ tail', tail = tcfOf items (d ++ [0, kindIdx items]) :: tail' ∧
    ffi.tailP (d ++ [0, kindIdx items]) tail'
  qualVal := .msg [true, false, false, false] [oneofMsg 15 (kindIdx items) ffi.qualVal, .absent, .absent, .absent]
  typeVal := .msg [true, false, !rules.isEmpty, false]
    [oneofMsg 15 (kindIdx items) ffi.typeVal, .absent, rulesNode sMapRules rules, .absent]
  pi := kind_pi_c rfl
  spec := kind_spec_c rfl
  specName := kindSpec_name
  specTypeSelect := kindSpec_typeSelect
  msg := by
    simp only [fieldMsg, fieldOneof]
    rw [rulesVals_eq rulesSchema_Map schemaOf_MapRules, ffi.msg, mkMsg_of schemaOf_Field,
      mkMsg_of schemaOf_MapField]
    cases rules <;> rfl
  namesSub := by
    intro n hn
    rcases hn with hn | hn
    · rcases List.mem_cons.mp hn with rfl | hn
      · decide
      · exact ffi.namesSub n (.inl hn)
    · simp only [List.mem_cons, List.not_mem_nil, or_false] at hn
      rcases hn with rfl | rfl <;> decide
  qualSub := by intro hc; cases hc
  blockSub := ffi.blockSub
  found := by
    intro d n hn
    show (findBlock n [cfOf sMapField specMapField d]).isSome = true
    simp only [List.mem_cons, List.not_mem_nil, or_false] at hn
    rcases hn with rfl | rfl
    · rw [findBlock_prop' (show aliasLookup wRules specMapField.aliases = none by decide +kernel)
        (propInfo_hasProperty pi_Map_rules)]; rfl
    · rw [findBlock_prop' (show aliasLookup wItemSchema specMapField.aliases = none by decide +kernel)
        (propInfo_hasProperty pi_MapField_itemSchema)]; rfl
  runQ := by
    intro outer root d hmiss
    exact collQual_exact (sC := sMapField) (specC := specMapField) (wn := wItemSchema) (si := 0) ffi
      (by decide +kernel) (by decide +kernel) pi_MapField_itemSchema (fun d n => mapCF_misses d) hnc root d
      (fun n hn => hmiss n (by
        rcases hn with rfl | hn
        · exact List.mem_cons_self
        · exact List.mem_cons_of_mem _ hn))
      (t := [false, false, false, false]) (vs := [.absent, .absent, .absent, .absent]) rfl rfl
  runB := by
    intro sc pfx a b C hr hsc
    have hu := rulesOk_unpack h rulesSchema_Map schemaOf_MapRules
    have hfbR : findBlock wRules [cfOf sMapField specMapField (a ++ b)] =
        some (cfOf sMapField specMapField (a ++ b), [wRules]) :=
      findBlock_prop' (show aliasLookup wRules specMapField.aliases = none by decide +kernel)
        (propInfo_hasProperty pi_Map_rules)
    have hfbI : findBlock wItemSchema [cfOf sMapField specMapField (a ++ b)] =
        some (cfOf sMapField specMapField (a ++ b), [wItemSchema]) :=
      findBlock_prop' (show aliasLookup wItemSchema specMapField.aliases = none by decide +kernel)
        (propInfo_hasProperty pi_MapField_itemSchema)
    have h1 := hr.rules (show wRules ∈ [wRules, wItemSchema] by simp) rulesOK_Map hfbR pi_Map_rules
      specOf_MapRules (t := [true, false, false, false])
      (vs := [oneofMsg 15 (kindIdx items) ffi.qualVal, .absent, .absent, .absent]) rfl rfl rules hu.1 hu.2
    have hr1 := hr.child_touched [true, false, !rules.isEmpty, false]
      [.absent, .absent, rulesNode sMapRules rules, .absent]
      (n := wItemSchema) (show wItemSchema ∈ [wRules, wItemSchema] by simp) (by decide) hfbI
      pi_MapField_itemSchema specOf_Field rfl (by simp)
    have hfbK : findBlock (fieldKind items) [cfOf sField specField (a ++ (b ++ [0]))] =
        some (cfOf sField specField (a ++ (b ++ [0])), [fieldKind items]) :=
      findBlock_prop' (show aliasLookup (fieldKind items) specField.aliases = none from rfl)
        (propInfo_hasProperty ffi.pi)
    have hr2 := hr1.child_touched ((List.replicate 15 false).set (kindIdx items) true) (List.replicate 15 .absent)
      (n := fieldKind items) trivial (kind_ascii items) hfbK ffi.pi ffi.spec
      (by rw [List.getElem?_set_self (by simpa using kind_lt items)]) (by simpa using kind_lt items)
    have hsc' : ScopeAt sc (tcfOf items (a ++ (b ++ [0] ++ [kindIdx items]))) ffi.blockNames
        (ffi.tailP (a ++ (b ++ [0] ++ [kindIdx items]))) := by
      have e : a ++ (b ++ [0] ++ [kindIdx items]) = a ++ b ++ [0, kindIdx items] := by simp
      rw [e]
      exact scopeAt_item ffi (fun kw hkw => mapCF_misses_block _ (ffi.blockSub kw hkw)) hsc
    have h2 := ffi.runB sc (pfx ++ [wItemSchema] ++ [fieldKind items]) a (b ++ [0] ++ [kindIdx items]) _
      (hr2.mono (fun _ _ => trivial)) hsc'
    have hkey : pfx ++ [wItemSchema] ++ [fieldKind items] = pfx ++ [wItemSchema, fieldKind items] := by simp
    rw [hkey] at h2
    exact doBody_append h1 h2

end J5V.Walker
