import J5V.Walker.PP.Slice2
import J5V.Walker.PP.Field2Refs2
/-!
# Print/parse, third slice: + references to declared types (`object:Foo`, `oneof:p.v1.Foo`, `enum:Foo`,
dotted schema names through `ref.package` / `ref.schema`; `flatten`; enum `listRules`)
-/
namespace J5V.Walker
open J5V.Bcl

/-- scalar fields with rules, and references -/
def fieldOk3 : CField → Bool
  | .objectRef pkg schema _ rules => rulesOk j5Env b!"j5.schema.v1.ObjectField" rules && refOk pkg schema
  | .oneofRef pkg schema rules l => !l && rulesOk j5Env b!"j5.schema.v1.OneofField" rules && refOk pkg schema
  | .enumRef pkg schema rules lr =>
    rulesOk j5Env b!"j5.schema.v1.EnumField" rules && listRulesOk lr && refOk pkg schema
  | f => fieldOk2 f

theorem fieldOk_of_fieldOk3 {f : CField} (h : fieldOk3 f = true) : fieldOk j5Env f = true := by
  cases f with
  | objectRef _ _ _ _ => exact h
  | oneofRef _ _ _ _ => exact h
  | enumRef _ _ _ _ => exact h
  | string _ _ => exact fieldOk_of_fieldOk2 h
  | bool _ _ => exact fieldOk_of_fieldOk2 h
  | bytes _ => exact fieldOk_of_fieldOk2 h
  | date _ _ => exact fieldOk_of_fieldOk2 h
  | decimal _ _ => exact fieldOk_of_fieldOk2 h
  | timestamp _ => exact fieldOk_of_fieldOk2 h
  | any => rfl
  | integer _ _ _ => exact fieldOk_of_fieldOk2 h
  | float _ _ _ => exact fieldOk_of_fieldOk2 h
  | key _ _ _ _ => exact fieldOk_of_fieldOk2 h
  | _ => cases h

theorem facts3' {f : CField} (h : fieldOk3 f = true) : ∃ ff : FieldFacts f, ff.blockNames = [] := by
  cases f with
  | objectRef pkg schema flatten rules =>
    simp only [fieldOk3, Bool.and_eq_true] at h
    exact ⟨objectRefFacts pkg schema flatten rules h.1 h.2, rfl⟩
  | oneofRef pkg schema rules l =>
    simp only [fieldOk3, Bool.and_eq_true, Bool.not_eq_true'] at h
    obtain ⟨⟨hl, hr⟩, href⟩ := h
    have hu := rulesOk_unpack hr rulesSchema_Oneof schemaOf_OneofRules
    have hnil := rules_nil_of_no_props (sR := sOneofRules) (by decide +kernel) hu.1
    subst hnil
    subst hl
    exact ⟨oneofRefFacts pkg schema href, rfl⟩
  | enumRef pkg schema rules lr =>
    simp only [fieldOk3, Bool.and_eq_true] at h
    exact ⟨enumRefFacts pkg schema rules lr h.1.1 h.1.2 h.2, rfl⟩
  | string _ _ => exact scalarFacts' h
  | bool _ _ => exact scalarFacts' h
  | bytes _ => exact scalarFacts' h
  | date _ _ => exact scalarFacts' h
  | decimal _ _ => exact scalarFacts' h
  | timestamp _ => exact scalarFacts' h
  | any => exact scalarFacts' h
  | integer _ _ _ => exact scalarFacts' h
  | float _ _ _ => exact scalarFacts' h
  | key _ _ _ _ => exact scalarFacts' h
  | _ => cases h

theorem facts3 {f : CField} (h : fieldOk3 f = true) : Nonempty (FieldFacts f) :=
  let ⟨ff, _⟩ := facts3' h; ⟨ff⟩

/-- the third slice of `supported` -/
def supported3 : J5V.Compile.SrcFile → Bool := supportedBy fieldOk3

theorem supported3_supported {ast : J5V.Compile.SrcFile} (h : supported3 ast = true) : supported ast = true :=
  supportedBy_supported (fun _ => fieldOk_of_fieldOk3) h

/-- **print/parse, third slice**: `package`, imports, top-level objects whose properties are scalar fields
(with rules) or references to declared objects / oneofs / enums -/
theorem C07W_print_parse_slice3 (filename : Str) (ast : J5V.Compile.SrcFile) (h : supported3 ast = true) :
    walkSchema j5Env (toBcl ast) (stub j5Env filename) = .ok (toMsg filename ast) :=
  print_parse_by (fun _ => facts3) filename ast h

end J5V.Walker
