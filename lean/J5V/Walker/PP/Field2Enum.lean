import J5V.Walker.PP.Field2Inl
/-!
# Print/parse, fifth slice: inline enum fields (`field x enum { enum.name = … option A … }`)

`optionBlock_exact` (the block `option NAME`, also used by top-level enums), `enumInlFacts`.
-/
namespace J5V.Walker
open J5V.Bcl

/-! ## Tables: `j5.schema.v1.Enum`, `Enum_Option` -/

def sSEnum : Schema := j5_schema_lit% "j5.schema.v1.Enum"
def specSEnum : BlockSpec := j5_spec_lit% "j5.schema.v1.Enum"
def sEnumOption : Schema := j5_schema_lit% "j5.schema.v1.Enum_Option"
def specEnumOption : BlockSpec := j5_spec_lit% "j5.schema.v1.Enum_Option"
theorem schemaOf_SEnum : j5Env.schemaOf nSEnum = sSEnum := by rw [j5Env_nf]; decide +kernel
theorem schemaOf_EnumOption : j5Env.schemaOf nEnumOption = sEnumOption := by rw [j5Env_nf]; decide +kernel
theorem specOf_SEnum (c : Addr) : specOf j5Env ⟨c, .msg sSEnum⟩ = .ok specSEnum := by
  apply specOf_of_nil; rw [j5Env_nf]; decide +kernel
theorem specOf_EnumOption (c : Addr) : specOf j5Env ⟨c, .msg sEnumOption⟩ = .ok specEnumOption := by
  apply specOf_of_nil; rw [j5Env_nf]; decide +kernel
theorem pi_EnumField_enum :
    propInfo j5Env sEnumField wEnum = some (1, some gEnumFieldSchema, .container sSEnum) := by
  rw [j5Env_nf]; decide +kernel
theorem pi_SEnum_name : propInfo j5Env sSEnum wName = some (0, none, .scalar (.scalar .string) false) := by
  rw [j5Env_nf]; decide +kernel
theorem pi_SEnum_prefix : propInfo j5Env sSEnum b!"prefix" = some (2, none, .scalar (.scalar .string) false) := by
  rw [j5Env_nf]; decide +kernel
theorem pi_SEnum_options :
    propInfo j5Env sSEnum b!"options" = some (3, none, .arrayOfContainer sEnumOption) := by
  rw [j5Env_nf]; decide +kernel
theorem pi_EnumOption_name :
    propInfo j5Env sEnumOption wName = some (0, none, .scalar (.scalar .string) false) := by
  rw [j5Env_nf]; decide +kernel

theorem enumOptionMsg_eq (o : Str) :
    enumOptionMsg j5Env o = .msg [true, false, false, false] [sStr o, .absent, .absent, .absent] := by
  unfold enumOptionMsg
  rw [mkMsg_of schemaOf_EnumOption]
  rfl

/-- the block `option NAME`, given how its keyword enters a new `Enum_Option` element at `a ++ e'` -/
theorem optionBlock_exact {o : Str} (ho : isIdent o = true) {sc : Scope} {a e' : Addr} {F : Node → Node}
    (hl : Lens F e') {X : Node}
    (hcb : Exact (childBlock j5Env sc wOption) a X
      (Scope.newChild (cfOf sEnumOption specEnumOption (a ++ e'))) (F (freshMsg sEnumOption))) :
    Exact (doStatement j5Env sc (optionBcl o)) a X () (F (enumOptionMsg j5Env o)) := by
  rw [enumOptionMsg_eq]
  refine blockStmt_exact (by decide) hcb
    (Exact.lens hl (doBlockHead_exact (spec2 := specEnumOption) rfl
      (walkTags_name (ns := ⟨wName, none, none, true, false⟩)
        (show specEnumOption.name = _ by decide +kernel) (show specEnumOption.typeSelect = none by decide +kernel)
        (applyNameTag_exact (checkBang_none _ _ rfl) ?_)) (walkQualifiers_nil _ _ _ _)))
    (doBody_nil _ _ _)
  refine (setAttr_direct (n := wName) (pos := none) (t := [false, false, false, false])
    (vs := [.absent, .absent, .absent, .absent]) (cur := .absent) (v := .str o) rfl
    (findBlock_prop' (show aliasLookup wName specEnumOption.aliases = none from rfl)
      (propInfo_hasProperty pi_EnumOption_name))
    pi_EnumOption_name rfl rfl (.inl rfl) (asArray_tag _)
    (by simp only [scalarFromAST, nameTag, asString_tagRef_single (isAscii_of_isIdent ho)]; rfl)).conv ?_
  rw [storeNode_str]; rfl

/-- the `option` blocks of an inline / declared enum append the option messages to its `options` array -/
theorem enumOptions_steps {sc : Scope} {sT : Schema} {specT : BlockSpec}
    {a b : Addr} {C : Option Node → Node} (hl : Lens (fun Y => C (some Y)) b)
    {cname aname : Str} {ci ai : Nat} {og : Option (Str × List Nat)} {sI : Schema} {specI : BlockSpec}
    (hfb : findBlock wOption sc.blockSet = some (cfOf sT specT (a ++ b), [cname, aname]))
    (hpiC : propInfo j5Env sT cname = some (ci, og, .container sI))
    (hpiA : propInfo j5Env sI aname = some (ai, none, .arrayOfContainer sEnumOption))
    (hspecI : ∀ c, specOf j5Env ⟨c, .msg sI⟩ = .ok specI)
    {tT : List Bool} {vsT : List Node} (htT : tT[ci]? = some false) (hvT : vsT[ci]? = some .absent)
    (hconf : NoConflictAt sT ci og vsT)
    {oI0 : Option Node} {tI : List Bool} {vsI : List Node} (hMI : oI0.getD (freshMsg sI) = .msg tI vsI)
    (htI : tI[ai]? = some false) (hvI : vsI[ai]? = some .absent)
    (opts : List Str) (hopts : opts.all isIdent = true) :
    StepsAll j5Env sc a (fun xs => C (some (holder tT vsT ci (innerOpt oI0 tI vsI ai xs))))
      (opts.map optionBcl) (opts.map (enumOptionMsg j5Env)) := by
  have hltT : ci < vsT.length := (List.getElem?_eq_some_iff.mp hvT).1
  have hltI : ai < vsI.length := (List.getElem?_eq_some_iff.mp hvI).1
  refine stepsAll_map _ _ _ (fun o ho xs => ?_)
  have hido : isIdent o = true := List.all_eq_true.mp hopts o ho
  have hlens : Lens (fun Y => C (some (holder tT vsT ci
      (some (.msg (tI.set ai true) (vsI.set ai (.list (xs ++ [Y]))))))))
      (b ++ ([ci] ++ ([ai] ++ [xs.length]))) :=
    Lens.comp hl (Lens.comp (Lens.slot (tT.set ci true) vsT hltT)
      (Lens.comp (Lens.slot (tI.set ai true) vsI hltI) (Lens.last xs)))
  have hcb := Exact.lens hl
    (innerChildBlock_exact (specE := specEnumOption) hfb hpiC hpiA hspecI specOf_EnumOption
      htT hvT hconf hMI htI hvI xs)
  have haddr : a ++ b ++ [ci, ai, xs.length] = a ++ (b ++ ([ci] ++ ([ai] ++ [xs.length]))) := by simp
  rw [haddr] at hcb
  have h := optionBlock_exact hido hlens hcb
  rw [innerOpt_concat]
  exact h

/-! ## `enum { enum.name = … enum.prefix = … option A … }` -/

section
variable {sc : Scope} {pfx : List Str} {s : Schema} {spec : BlockSpec} {a b : Addr} {C : Option Node → Node}
  {P : Str → Prop}

/-- the optional line `pfx.n = "value"` (written iff `value ≠ ""`) into a string property without presence -/
theorem optStrLine_exact (hr : BodyReach sc pfx s spec a b C P) (o : Option Node) {t : List Bool}
    {vs : List Node} (hM : o.getD (freshMsg s) = .msg t vs) {n : Str} (hn : P n) (hna : isAscii n = true)
    (hfb : findBlock n [cfOf s spec (a ++ b)] = some (cfOf s spec (a ++ b), [n]))
    {i : Nat} (hpi : propInfo j5Env s n = some (i, none, .scalar (.scalar .string) false))
    (ht : t[i]? = some false) (hv : vs[i]? = some .absent) {value : Str} (hok : okString value = true) :
    Exact (doBody j5Env sc (if value = [] then [] else [assignStmt (pfx ++ [n]) (strValue value)])) a (C o) ()
      (C (if value = [] then o else some (.msg (t.set i true) (vs.set i (sStr value))))) := by
  by_cases hvl : value = []
  · rw [if_pos hvl, if_pos hvl]; exact doBody_nil _ _ _
  · rw [if_neg hvl, if_neg hvl]
    have h := hr.attr o hM hn hna hfb hpi ht hv (.inl rfl) (val := strValue value) (v := .str value)
      (asArray_strValue _)
      (by simp only [scalarFromAST, asString_strValue (isAscii_of_okString hok)]; rfl)
    rw [storeNode_str] at h
    exact doBody_cons h (doBody_nil _ _ _)

end

/-- the inner `j5.schema.v1.Enum` once the name and prefix lines ran -/
def inlEnumT (name pfx : Str) : List Bool := [name != [], false, pfx != [], false, false]
def inlEnumVs (name pfx : Str) : List Node :=
  [if name != [] then sStr name else .absent, .absent, if pfx != [] then sStr pfx else .absent, .absent, .absent]
def inlEnumNamed (name pfx : Str) : Option Node :=
  if name = [] ∧ pfx = [] then none else some (.msg (inlEnumT name pfx) (inlEnumVs name pfx))

theorem enumMsg_eq (e : J5V.Compile.EnumDecl) :
    (if e.name = [] ∧ e.pfx = [] ∧ e.opts = [] then none else some (enumMsg j5Env e)) =
      innerOpt (inlEnumNamed e.name e.pfx) (inlEnumT e.name e.pfx) (inlEnumVs e.name e.pfx) 3
        (e.opts.map (enumOptionMsg j5Env)) := by
  obtain ⟨name, pfx, opts⟩ := e
  simp only [enumMsg]
  rw [mkMsg_of schemaOf_SEnum]
  cases name <;> cases pfx <;> cases opts <;> rfl

def enumInlFacts (e : J5V.Compile.EnumDecl) (rules : J5V.Compile.Rules) (lr : Option (List Str))
    (h : rulesOk j5Env b!"j5.schema.v1.EnumField" rules = true) (hlr : listRulesOk lr = true)
    (he : enumDeclOk false e = true) : FieldFacts (.enumInl e rules lr) where
  qualNames := []
  bodyNames := [wRules, b!"listRules", wEnum]
  blockNames := [wOption]
  tailP := fun _ _ => True
  qualVal := .msg [false, false, false, false, false] [.absent, .absent, .absent, .absent, .absent]
  typeVal := holder [false, false, !rules.isEmpty, lr.isSome, false]
    [.absent, .absent, rulesNode sEnumRules rules, listRulesNode lr, .absent] 1
    (innerOpt (inlEnumNamed e.name e.pfx) (inlEnumT e.name e.pfx) (inlEnumVs e.name e.pfx) 3
      (e.opts.map (enumOptionMsg j5Env)))
  pi := kind_pi_c rfl
  spec := kind_spec_c rfl
  specName := kindSpec_name
  specTypeSelect := kindSpec_typeSelect
  msg := by
    simp only [fieldMsg, fieldOneof]
    rw [← enumMsg_eq, rulesVals_eq rulesSchema_Enum schemaOf_EnumRules, listRulesVals_eq, mkMsg_of schemaOf_Field,
      mkMsg_of schemaOf_EnumField]
    generalize enumMsg j5Env e = E
    obtain ⟨name, pfx, opts⟩ := e
    cases rules <;> cases lr <;> cases name <;> cases pfx <;> cases opts <;> rfl
  namesSub := by
    intro n hn
    simp only [List.mem_cons, List.not_mem_nil, or_false, false_or] at hn
    rcases hn with rfl | rfl | rfl <;> decide
  qualSub := by intro _ n hn; cases hn
  blockSub := by intro kw hkw; exact .inr (List.mem_singleton.mp hkw)
  found := by
    intro d n hn
    show (findBlock n [cfOf sEnumField specEnumField d]).isSome = true
    simp only [List.mem_cons, List.not_mem_nil, or_false] at hn
    rcases hn with rfl | rfl | rfl
    · rw [findBlock_prop' (show aliasLookup wRules specEnumField.aliases = none by decide +kernel)
        (propInfo_hasProperty pi_Enum_rules)]; rfl
    · rw [findBlock_prop' (show aliasLookup b!"listRules" specEnumField.aliases = none by decide +kernel)
        (propInfo_hasProperty pi_EnumField_listRules)]; rfl
    · rw [findBlock_prop' (show aliasLookup wEnum specEnumField.aliases = none by decide +kernel)
        (propInfo_hasProperty pi_EnumField_enum)]; rfl
  runQ := by
    intro outer root d _
    exact ⟨typeScope outer (cfOf sEnumField specEnumField d) root, specEnumField, [], rfl, trivial,
      walkQualifiers_nil _ _ _ _⟩
  runB := by
    intro sc pfx a b C hr hsc
    obtain ⟨name, epfx, opts⟩ := e
    simp only [enumDeclOk, Bool.false_eq_true, if_false, Bool.and_eq_true] at he
    obtain ⟨⟨hname, hepfx⟩, hopts⟩ := he
    have hu := rulesOk_unpack h rulesSchema_Enum schemaOf_EnumRules
    have hfbR : findBlock wRules [cfOf sEnumField specEnumField (a ++ b)] =
        some (cfOf sEnumField specEnumField (a ++ b), [wRules]) :=
      findBlock_prop' (show aliasLookup wRules specEnumField.aliases = none by decide +kernel)
        (propInfo_hasProperty pi_Enum_rules)
    have hfbL : findBlock b!"listRules" [cfOf sEnumField specEnumField (a ++ b)] =
        some (cfOf sEnumField specEnumField (a ++ b), [b!"listRules"]) :=
      findBlock_prop' (show aliasLookup b!"listRules" specEnumField.aliases = none by decide +kernel)
        (propInfo_hasProperty pi_EnumField_listRules)
    have hfbE : findBlock wEnum [cfOf sEnumField specEnumField (a ++ b)] =
        some (cfOf sEnumField specEnumField (a ++ b), [wEnum]) :=
      findBlock_prop' (show aliasLookup wEnum specEnumField.aliases = none by decide +kernel)
        (propInfo_hasProperty pi_EnumField_enum)
    let tT : List Bool := [false, false, !rules.isEmpty, lr.isSome, false]
    let vsT : List Node := [.absent, .absent, rulesNode sEnumRules rules, listRulesNode lr, .absent]
    have hconf : NoConflictAt sEnumField 1 (some gEnumFieldSchema) vsT := by
      intro g hg; cases hg; rfl
    show Exact (doBody j5Env sc (rulesBcl pfx rules ++ listRulesBcl pfx lr ++
      (inlNameBcl pfx wEnum name ++
        (if epfx = [] then [] else [assignStmt (pfx ++ [wEnum, b!"prefix"]) (strValue epfx)]) ++
        opts.map optionBcl))) _ _ _ _
    -- rules, list rules
    have h12 := doBody_append
      (hr.rules (show wRules ∈ [wRules, b!"listRules", wEnum] by simp) rulesOK_Enum hfbR pi_Enum_rules
        specOf_EnumRules (t := [false, false, false, false, false])
        (vs := [.absent, .absent, .absent, .absent, .absent]) rfl rfl rules hu.1 hu.2)
      (listRules_exact hr (show b!"listRules" ∈ [wRules, b!"listRules", wEnum] by simp) hfbL
        pi_EnumField_listRules (t := [false, false, !rules.isEmpty, false, false])
        (vs := [.absent, .absent, rulesNode sEnumRules rules, .absent, .absent]) rfl rfl lr hlr)
    -- the name and the prefix of the inline enum
    have hrE := hr.child (some (.msg tT vsT)) rfl (n := wEnum)
      (show wEnum ∈ [wRules, b!"listRules", wEnum] by simp) (by decide) hfbE pi_EnumField_enum
      specOf_SEnum rfl rfl hconf
    have hfbN : findBlock wName [cfOf sSEnum specSEnum (a ++ (b ++ [1]))] =
        some (cfOf sSEnum specSEnum (a ++ (b ++ [1])), [wName]) :=
      findBlock_prop' (show aliasLookup wName specSEnum.aliases = none by decide +kernel)
        (propInfo_hasProperty pi_SEnum_name)
    have hfbP : findBlock b!"prefix" [cfOf sSEnum specSEnum (a ++ (b ++ [1]))] =
        some (cfOf sSEnum specSEnum (a ++ (b ++ [1])), [b!"prefix"]) :=
      findBlock_prop' (show aliasLookup b!"prefix" specSEnum.aliases = none by decide +kernel)
        (propInfo_hasProperty pi_SEnum_prefix)
    have h3 := optStrLine_exact hrE none (t := [false, false, false, false, false])
      (vs := [.absent, .absent, .absent, .absent, .absent]) rfl (n := wName) trivial (by decide) hfbN
      pi_SEnum_name rfl rfl hname
    have hkeyN : pfx ++ [wEnum] ++ [wName] = pfx ++ [wEnum, wName] := by simp
    rw [hkeyN] at h3
    have h4 := optStrLine_exact hrE
      (if name = [] then none else some (.msg [true, false, false, false, false]
        [sStr name, .absent, .absent, .absent, .absent]))
      (t := [name != [], false, false, false, false])
      (vs := [if name != [] then sStr name else .absent, .absent, .absent, .absent, .absent])
      (by cases name <;> rfl) (n := b!"prefix") trivial (by decide) hfbP pi_SEnum_prefix rfl rfl hepfx
    have hkeyP : pfx ++ [wEnum] ++ [b!"prefix"] = pfx ++ [wEnum, b!"prefix"] := by simp
    rw [hkeyP] at h4
    -- the options
    have hfb := findBlock_of_scopeAt hsc (List.mem_singleton.mpr rfl)
      (show aliasLookup wOption specEnumField.aliases = some [wEnum, b!"options"] by decide +kernel)
    have hl : Lens (fun Y => C (some Y)) b := ⟨hr.get, hr.set⟩
    have hsteps := enumOptions_steps hl hfb pi_EnumField_enum pi_SEnum_options specOf_SEnum
      (tT := tT) (vsT := vsT) rfl rfl hconf (oI0 := inlEnumNamed name epfx)
      (tI := inlEnumT name epfx) (vsI := inlEnumVs name epfx)
      (by unfold inlEnumNamed; cases name <;> cases epfx <;> rfl) rfl rfl opts hopts
    have h5 := steps_fold hsteps []
    rw [List.nil_append] at h5
    refine doBody_append h12 (doBody_append (doBody_append h3 (h4.conv ?_)) h5)
    cases name <;> cases epfx <;> rfl

end J5V.Walker
