import J5V.Walker.PP.EntityKeys
/-!
# Print/parse: the block `key NAME [!|?] TYPE… { [optional = true] [shardKey = true] lines }` of an entity

`keyBlock_exact`: the block fills a fresh `j5.sourcedef.v1.EntityKey` with `keyMsg`. The field lines are
`fieldBody f [] true`: the same as `fieldBody f [] false` unless `f` is a `key` field, whose entity-key
options then go through the short aliases (`entKeyShort_exact`).
-/
namespace J5V.Walker
open J5V.Bcl

theorem fresh_EKD : freshMsg sEntityKeyDecl = gNode false .absent false .absent false false [false] [.absent] := rfl

theorem keyMsg_eq (name : Str) (req opt : Bool) (f : CField) (shard : Bool) :
    keyMsg j5Env ⟨.mk name req opt f, shard⟩ =
      gNode true (fieldMsg j5Env f) true (sStr name) req opt [shard] [if shard then bTrue else .absent] := by
  simp only [keyMsg]
  rw [mkMsg_of schemaOf_EntityKeyDecl]
  generalize fieldMsg j5Env f = F
  cases req <;> cases opt <;> cases shard <;> rfl

/-! ## Reaching the type block through a property-like block -/

section
variable {sO : Schema} {specO : BlockSpec} (hO : OuterOK sO specO)

include hO in
/-- how the body lines of the directly typed field reach the type block: through the block's message -/
theorem gReach {f : CField} (ff : FieldFacts f) {e : Addr} {sc2 : Scope} {tail : List ContainerField}
    (hbs : sc2.blockSet = [outerCF sO specO e] ++ (tcfOf f (e ++ [0, kindIdx f]) :: tail))
    (nm : Node) (rq o : Bool) (et : List Bool) (ev : List Node) :
    BodyReach sc2 [] (kindSchema f) (kindSpec f) e [0, kindIdx f]
      (fun Y => gNode true (oneofMsg 15 (kindIdx f) (Y.getD (freshMsg (kindSchema f)))) true nm rq o et ev)
      (· ∈ ff.bodyNames) where
  get := fun Y => (gType_lens (kindIdx f) (kind_lt f) true nm rq o et ev).get Y
  set := fun Y Y' => (gType_lens (kindIdx f) (kind_lt f) true nm rq o et ev).set Y Y'
  ascii := by simp
  walk := ⟨sc2, fun Y => walkScope_nil _ _ _, fun n hn => by
    rw [hbs, findBlock_skip_all (outer := [outerCF sO specO e])
      (fun o ho => by
        simp only [List.mem_singleton] at ho; subst ho
        exact outerCF_misses hO e n (ff.namesSub n (.inr hn))),
      findBlock_cons_of_isSome (ff.found _ n hn)]⟩

include hO in
theorem outerCF_misses_block {f : CField} (ff : FieldFacts f) (e : Addr) :
    ∀ kw ∈ ff.blockNames, ∀ o ∈ [outerCF sO specO e], Misses o kw := by
  intro kw hkw o ho
  simp only [List.mem_singleton] at ho; subst ho
  rcases ff.blockSub kw hkw with rfl | rfl <;> exact outerCF_misses hO e _ (by decide)

end

/-! ## The lines of the key block -/

theorem ekd_setShard {e : Addr} {sc : Scope} {tail : List ContainerField} (hbs : sc.blockSet = ekdCF e :: tail)
    (t0 : Bool) (F : Node) (t1 : Bool) (nm : Node) (r o : Bool) :
    Exact (doStatement j5Env sc (assignStmt [b!"shardKey"] (boolValue true))) e
      (gNode t0 F t1 nm r o [false] [.absent]) () (gNode t0 F t1 nm r o [true] [bTrue]) :=
  doStatement_assign
    (setAttr_direct (n := b!"shardKey") (pos := some Span.zero) (cur := .absent) (v := .bool true)
      (combinePath_ident (by decide) [])
      (by rw [hbs]; exact findBlock_prop' (show aliasLookup b!"shardKey" specEntityKeyDecl.aliases = none
        by decide +kernel) (propInfo_hasProperty pi_EKD_shardKey))
      pi_EKD_shardKey rfl rfl (.inl rfl) (asArray_boolValue _)
      (by simp only [scalarFromAST, asBool_boolValue]; rfl))

/-- only `key` fields print differently as the field of an entity key -/
theorem fieldBody_flag {f : CField} (h : ∀ fmt ek r l, f ≠ .key fmt ek r l) (pfx : List Str) :
    fieldBody f pfx true = fieldBody f pfx false := by
  cases f with
  | key fmt ek r l => exact absurd rfl (h fmt ek r l)
  | _ => simp only [fieldBody]

/-- the entity-key lines of the directly typed field of an entity key: `primary = …`, `foreign = "…"`,
`tenant = "…"` -/
theorem entKeyShort_exact {e : Addr} {sc : Scope} {tail : List ContainerField} {t1 r o : Bool} {nm : Node}
    {et : List Bool} {ev : List Node} {P : Str → Prop}
    (hbs : sc.blockSet = ekdCF e :: tail)
    (hr : BodyReach sc [] sKeyField specKeyField e [0, 14]
      (fun Y => gNode true (oneofMsg 15 14 (Y.getD (freshMsg sKeyField))) t1 nm r o et ev) P)
    (hnF : P b!"foreign") {tK : List Bool} {vsK : List Node} (ht : tK[4]? = some false)
    (hv : vsK[4]? = some .absent) {ek : J5V.Compile.EntKey} (hok : entKeyOk ek = true) :
    Exact (doBody j5Env sc (entKeyBcl [] true ek)) e (gNode true (oneofMsg 15 14 (.msg tK vsK)) t1 nm r o et ev) ()
      (gNode true (oneofMsg 15 14 (holder tK vsK 4 (entKeyNode ek))) t1 nm r o et ev) := by
  have hh : holder tK vsK 4 none = .msg tK vsK := by
    show Node.msg (tK.set 4 false) (vsK.set 4 .absent) = _
    rw [list_set_self ht, list_set_self hv]
  -- the tenant line, from any state of the entity message
  have htenant : ∀ (oE : Option Node) (t0 t1' : Bool) (v0 v1 : Node) (tn : Str), okString tn = true →
      oE.getD (freshMsg sEntityKeyMsg) = .msg [t0, t1', false] [v0, v1, .absent] →
      Exact (doStatement j5Env sc (assignStmt [b!"tenant"] (strValue tn))) e
        (gNode true (oneofMsg 15 14 (holder tK vsK 4 oE)) t1 nm r o et ev) ()
        (gNode true (oneofMsg 15 14 (holder tK vsK 4 (some (.msg [t0, t1', true] [v0, v1, pStr tn]))))
          t1 nm r o et ev) := by
    intro oE t0 t1' v0 v1 tn htn hM
    exact shortAttr_exact (n := b!"tenant") (final := b!"tenantKey") (by decide) hbs (by decide +kernel)
      pi_EntityKeyMsg_tenantKey ht hv oE hM rfl rfl (.inl rfl) (val := strValue tn) (v := .str tn)
      (asArray_strValue _) (by simp only [scalarFromAST, asString_strValue (isAscii_of_okString htn)]; rfl)
  cases ek with
  | nokey =>
    rw [show entKeyNode .nokey = none from rfl, hh]
    exact doBody_nil _ _ _
  | ek kind tenant =>
    simp only [entKeyOk, Bool.and_eq_true] at hok
    obtain ⟨hkind, hten⟩ := hok
    cases kind with
    | plain =>
      cases tenant with
      | none =>
        rw [show entKeyNode (.ek .plain none) = none from rfl, hh]
        exact doBody_nil _ _ _
      | some tn =>
        have h := htenant none false false .absent .absent tn hten rfl
        rw [hh] at h
        exact doBody_cons h (doBody_nil _ _ _)
    | primary bb =>
      have h1 : Exact (doStatement j5Env sc (assignStmt [b!"primary"] (boolValue bb))) e
          (gNode true (oneofMsg 15 14 (holder tK vsK 4 none)) t1 nm r o et ev) ()
          (gNode true (oneofMsg 15 14 (holder tK vsK 4 (some (.msg [true, false, false] [pBool bb, .absent, .absent]))))
            t1 nm r o et ev) :=
        shortAttr_exact (n := b!"primary") (final := b!"primaryKey") (by decide) hbs (by decide +kernel)
          pi_EntityKeyMsg_primaryKey ht hv none (tE := [false, false, false]) (vsE := [.absent, .absent, .absent])
          rfl rfl rfl (.inr rfl) (val := boolValue bb) (v := .bool bb) (asArray_boolValue _)
          (by simp only [scalarFromAST, asBool_boolValue]; rfl)
      rw [hh] at h1
      cases tenant with
      | none => exact doBody_cons h1 (doBody_nil _ _ _)
      | some tn =>
        exact doBody_cons h1 (doBody_cons
          (htenant (some (.msg [true, false, false] [pBool bb, .absent, .absent])) true false (pBool bb) .absent tn
            hten rfl) (doBody_nil _ _ _))
    | foreign pkg ent =>
      simp only [Bool.and_eq_true, Bool.not_eq_true'] at hkind
      obtain ⟨⟨hp, he⟩, hnd⟩ := hkind
      have h1 := foreignLine_exact hr hnF ht hv hp he hnd
      cases tenant with
      | none => exact doBody_cons h1 (doBody_nil _ _ _)
      | some tn =>
        exact doBody_cons h1 (doBody_cons
          (htenant (some (.msg [false, true, false] [.absent, .msg [true, true] [sStr pkg, sStr ent], .absent]))
            false true .absent (.msg [true, true] [sStr pkg, sStr ent]) tn hten rfl) (doBody_nil _ _ _))

/-! ## The block -/

/-- what `keyBlock_exact` needs of the field: its facts, and the run of its lines as the field of an entity
key, in the scope the head leaves -/
def KeyFieldRun (f : CField) (ff : FieldFacts f) : Prop :=
  ∀ {e : Addr} {sc2 : Scope} {tail : List ContainerField},
    sc2.blockSet = ekdCF e :: (tcfOf f (e ++ [0, kindIdx f]) :: tail) →
    ff.tailP (e ++ [0, kindIdx f]) tail → ∀ (nm : Node) (rq o : Bool) (et : List Bool) (ev : List Node),
    Exact (doBody j5Env sc2 (fieldBody f [] true)) e
      (gNode true (oneofMsg 15 (kindIdx f) ff.qualVal) true nm rq o et ev) ()
      (gNode true (fieldMsg j5Env f) true nm rq o et ev)

theorem keyFieldRun_of_ne {f : CField} (hk : ∀ fmt ek r l, f ≠ .key fmt ek r l) (ff : FieldFacts f) :
    KeyFieldRun f ff := by
  intro e sc2 tail hbs htail nm rq o et ev
  rw [fieldBody_flag hk, ff.msg]
  exact ff.runB sc2 [] e [0, kindIdx f] _ (gReach outerOK_EKD ff hbs nm rq o et ev)
    ⟨[ekdCF e], tail, hbs, outerCF_misses_block outerOK_EKD ff e, htail⟩

theorem keyFieldRun_key (fmt : J5V.Compile.KeyFmt) (ek : J5V.Compile.EntKey) (hfmt : keyFmtOk fmt = true)
    (hek : entKeyOk ek = true) : KeyFieldRun (.key fmt ek [] false) (keyFacts fmt ek hfmt hek) := by
  intro e sc2 tail hbs htail nm rq o et ev
  rw [key_fieldMsg]
  have hbody : fieldBody (.key fmt ek [] false) [] true = keyFmtBody [] fmt ++ entKeyBcl [] true ek := by
    show rulesBcl [] [] ++ keyFmtBody [] fmt ++ entKeyBcl [] true ek = _
    simp [rulesBcl]
  rw [hbody]
  -- the format line, as for a key without entity options
  let ff0 := keyFacts fmt .nokey hfmt rfl
  have hbs0 : sc2.blockSet = [ekdCF e] ++ (tcfOf (.key fmt .nokey [] false) (e ++ [0, 14]) :: tail) := hbs
  have hr' := gReach outerOK_EKD ff0 hbs0 nm rq o et ev
  have h1 := ff0.runB sc2 [] e [0, 14] _ hr'
    ⟨[ekdCF e], tail, hbs0, outerCF_misses_block outerOK_EKD ff0 e, trivial⟩
  rw [key_fieldBody, show entKeyBcl [] false .nokey = [] from rfl, List.append_nil] at h1
  -- the entity-key lines
  have h2 := entKeyShort_exact (tK := [false, fmt != .none, false, false, false])
    (vsK := [.absent, keyFmtNode fmt, .absent, .absent, .absent]) hbs hr'
    (show b!"foreign" ∈ [b!"format", b!"entity", b!"foreign"] by simp) rfl rfl hek
  exact doBody_append h1 h2

theorem keyFieldRun_all {f : CField} (hf : fieldOk j5Env f = true) : ∃ ff : FieldFacts f, KeyFieldRun f ff := by
  by_cases hk : ∀ fmt ek r l, f ≠ .key fmt ek r l
  · obtain ⟨ff, _⟩ := facts5 f (fieldOk5_of_fieldOk f hf)
    exact ⟨ff, keyFieldRun_of_ne hk ff⟩
  · have : ∃ fmt ek r l, f = .key fmt ek r l := by
      cases f with
      | key fmt ek r l => exact ⟨fmt, ek, r, l, rfl⟩
      | _ => exact absurd (fun _ _ _ _ h => by cases h) hk
    obtain ⟨fmt, ek, rules, l, rfl⟩ := this
    simp only [fieldOk, Bool.and_eq_true, Bool.not_eq_true'] at hf
    obtain ⟨⟨⟨hl, hr⟩, hfmt⟩, hek⟩ := hf
    have hu := rulesOk_unpack hr rulesSchema_Key schemaOf_KeyRules
    have hnil := rules_nil_of_no_props (sR := sKeyRules) (by decide +kernel) hu.1
    subst hnil
    subst hl
    exact ⟨keyFacts fmt ek hfmt hek, keyFieldRun_key fmt ek hfmt hek⟩

/-- the block `key NAME [!|?] TYPE:QUAL… { … }`, given how its keyword enters a new `EntityKey` element at
`a ++ e'` -/
theorem keyBlock_exact {name : Str} {req opt : Bool} {f : CField} {shard : Bool} (hname : isIdent name = true)
    (hf : fieldOk j5Env f = true) {sc : Scope} {a e' : Addr} {F : Node → Node} (hl : Lens F e') {X : Node}
    (hcb : Exact (childBlock j5Env sc b!"key") a X (Scope.newChild (ekdCF (a ++ e'))) (F (freshMsg sEntityKeyDecl))) :
    Exact (doStatement j5Env sc (keyBcl ⟨.mk name req opt f, shard⟩)) a X ()
      (F (keyMsg j5Env ⟨.mk name req opt f, shard⟩)) := by
  obtain ⟨ff, hrun⟩ := keyFieldRun_all hf
  let e : Addr := a ++ e'
  rw [keyMsg_eq]
  simp only [keyBcl]
  obtain ⟨sc2, tail, hbs, htail, hhead⟩ := gHead_exact outerOK_EKD (req := req) (opt := opt) hname ff b!"key"
    (!((if (req && opt) = true then [assignStmt [b!"optional"] (boolValue true)] else []) ++
      (if shard = true then [assignStmt [b!"shardKey"] (boolValue true)] else []) ++ fieldBody f [] true).isEmpty ||
      fieldInline f) e [false] [.absent]
  -- the lines before the field's
  have hpre1 : Exact (doBody j5Env sc2 (if (req && opt) = true then [assignStmt [b!"optional"] (boolValue true)] else []))
      e (gNode true (oneofMsg 15 (kindIdx f) ff.qualVal) true (sStr name) req (!req && opt) [false] [.absent]) ()
      (gNode true (oneofMsg 15 (kindIdx f) ff.qualVal) true (sStr name) req opt [false] [.absent]) := by
    cases req <;> cases opt
    · exact doBody_nil _ _ _
    · exact doBody_nil _ _ _
    · exact doBody_nil _ _ _
    · exact doBody_cons (g_setOptionalLine outerOK_EKD hbs _ _ _ _ _) (doBody_nil _ _ _)
  have hpre2 : Exact (doBody j5Env sc2 (if shard = true then [assignStmt [b!"shardKey"] (boolValue true)] else []))
      e (gNode true (oneofMsg 15 (kindIdx f) ff.qualVal) true (sStr name) req opt [false] [.absent]) ()
      (gNode true (oneofMsg 15 (kindIdx f) ff.qualVal) true (sStr name) req opt [shard]
        [if shard then bTrue else .absent]) := by
    cases shard
    · exact doBody_nil _ _ _
    · exact doBody_cons (ekd_setShard hbs _ _ _ _ _ _) (doBody_nil _ _ _)
  have hbody := hrun hbs htail (sStr name) req opt [shard] [if shard then bTrue else .absent]
  rw [fresh_EKD] at hcb
  exact blockStmt_exact (by decide) hcb (Exact.lens hl hhead)
    (Exact.lens hl (doBody_append (doBody_append hpre1 hpre2) hbody))

end J5V.Walker
