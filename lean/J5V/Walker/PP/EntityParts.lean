import J5V.Walker.PP.EntityTables
/-!
# Print/parse: the statements of an entity body, one `Appends` lemma per kind

In the scope of the entity block at `d`: `key` (→ `keys`), `status` (→ `status`), `event` (→ `events`),
`command` (→ `commands`), `summary` (→ `summaries`), `query { … }` (the container property), nested
`object` / `oneof` / `enum` (→ `schemas.X`).
-/
namespace J5V.Walker
open J5V.Bcl

/-- the scope of an entity body -/
abbrev entityScope (d : Addr) : Scope := Scope.newChild (entityCF d)

/-- a block without tags whose schema has an optional name tag: the head does nothing -/
theorem emptyHead_exact {kw : Str} {sD : Schema} {specD : BlockSpec} (d : Addr) {nt : Tag}
    (hname : specD.name = some nt) (hopt : nt.isOptional = true) (isOpen : Bool) (X : Node) :
    Exact (doBlockHead j5Env (Scope.newChild (cfOf sD specD d)) specD ⟨refOf [kw], [], [], none, isOpen, src0⟩) d X
      (Scope.newChild (cfOf sD specD d)) X := by
  refine doBlockHead_exact (spec2 := specD) rfl ?_ (walkQualifiers_nil _ _ _ _)
  show Exact (walkTags j5Env [] _ _ specD) _ _ _ _
  rw [walkTags, hname]
  dsimp only
  rw [hopt]
  exact Exact.pure _ _ _

/-- `n = ["x", …]` into an array-of-strings property of the first block of the scope, not touched yet -/
theorem setAttr_direct_strs {sc : Scope} {n : Str} (hn : isAscii n = true) {s : Schema} {spec : BlockSpec} {c : Addr}
    {final : Str} {i : Nat} {og : Option (Str × List Nat)} {t : List Bool} {vs : List Node} {x : Str} {xs : List Str}
    (hfb : findBlock n sc.blockSet = some (cfOf s spec c, [final]))
    (hpi : propInfo j5Env s final = some (i, og, .arrayOfScalar (.scalar .string)))
    (ht : t[i]? = some false) (hv : vs[i]? = some .absent) (hconf : NoConflict og vs)
    (hok : (x :: xs).all okString = true) :
    Exact (doStatement j5Env sc (assignStmt [n] (strsValue (x :: xs)))) c (.msg t vs) ()
      (.msg (t.set i true) (vs.set i (.list ((x :: xs).map fun s => .scalar (.str s))))) := by
  refine doStatement_assign ?_
  have h := setAttr_walk_strs (a := c) (b := []) (pre := []) (X := .msg t vs) (combinePath_ident hn [])
    (walkScope_nil _ _ _) (by rw [List.append_nil]; exact hfb) hpi (Node.get?_nil _) ht hv hconf hok
  rw [Node.set_nil] at h
  exact h

/-! ## `key` -/

theorem key_appends (d : Addr) {k : J5V.Compile.EntityKeyDecl} (hk : keyOk j5Env k = true) :
    Appends j5Env (entityScope d) d 5 (keyBcl k) (keyMsg j5Env k) := by
  obtain ⟨⟨name, req, opt, f⟩, shard⟩ := k
  simp only [keyOk, propOk, Bool.and_eq_true] at hk
  intro xs t vs ht hv
  have hlt : 5 < vs.length := (List.getElem?_eq_some_iff.mp hv).1
  have hl : Lens (fun Y => Node.msg (t.set 5 true) (vs.set 5 (.list (xs ++ [Y])))) ([5] ++ [xs.length]) :=
    Lens.comp (Lens.slot (t.set 5 true) vs hlt) (Lens.last xs)
  exact keyBlock_exact hk.1 hk.2 hl
    (childBlock_of_walkPath
      (findBlock_alias' (show aliasLookup b!"key" specEntity.aliases = some [b!"keys"] by decide +kernel))
      (walkPath_array_exact pi_Entity_keys ht hv (walkRest_nil _ _ _))
      (setSpecs_cons (specOf_EntityKeyDecl _) (setSpecs_nil _)))

/-! ## `status NAME` -/

theorem status_appends (d : Addr) {s : Str} (hs : isIdent s = true) :
    Appends j5Env (entityScope d) d 4 (statusBcl s) (enumOptionMsg j5Env s) := by
  rw [enumOptionMsg_eq]
  intro xs t vs ht hv
  refine (arrayDecl_appends (kw := b!"status") (by decide)
    (findBlock_alias' (show aliasLookup b!"status" specEntity.aliases = some [b!"status"] by decide +kernel))
    pi_Entity_status specOf_EnumOption
    (show specEnumOption.name = some ⟨wName, none, none, true, false⟩ by decide +kernel)
    (show specEnumOption.typeSelect = none by decide +kernel)
    (show aliasLookup wName specEnumOption.aliases = none from rfl) pi_EnumOption_name
    (tD := [false, false, false, false]) (vsD := [.absent, .absent, .absent, .absent]) rfl rfl rfl hs
    (fun _ => doBody_nil _ _ _) xs t vs ht hv).conv ?_
  rw [storeNode_str]
  rfl

/-! ## `event NAME { fields nested-objects }` -/

theorem event_appends (d : Addr) {o : J5V.Compile.ObjDecl} (ho : objDeclOk j5Env false o = true) :
    Appends j5Env (entityScope d) d 7 (objectBcl b!"event" wField o) (objectMsg j5Env false o) := by
  have h6 := objDeclOk6_of_objDeclOk o ho
  obtain ⟨name, props, nested, psm⟩ := o
  simp only [objDeclOk6, Bool.and_eq_true] at h6
  rw [objectMsg_eq2]
  exact arrayDecl_appends (kw := b!"event") (by decide)
    (findBlock_alias' (show aliasLookup b!"event" specEntity.aliases = some [b!"events"] by decide +kernel))
    pi_Entity_events specOf_Object
    (show specObject.name = some ⟨wName, none, none, false, false⟩ by decide +kernel)
    (show specObject.typeSelect = none by decide +kernel)
    (show aliasLookup wName specObject.aliases = none by decide +kernel) pi_Object_name
    (tD := [false, false, false, false, false, false])
    (vsD := [.absent, .absent, .absent, .absent, .absent, .absent]) rfl rfl rfl h6.1.1.1
    (fun dd => by
      rw [storeNode_str]
      exact objectBody_exact dd name (propsHas5 props h6.1.2) (nested6 nested h6.2 dd))

/-! ## `command { [name = "…"] [basePath = "…"] methods }` -/

theorem command_appends (d : Addr) {sv : J5V.Compile.Service} (hs : serviceOk j5Env false sv = true) :
    Appends j5Env (entityScope d) d 9 (commandBcl sv) (serviceMsg j5Env sv) := by
  obtain ⟨name, basePath, methods, sopt⟩ := sv
  simp only [serviceOk, Bool.and_eq_true] at hs
  obtain ⟨⟨⟨_, hname⟩, hbp⟩, hms⟩ := hs
  rw [serviceMsg_eq]
  intro xs t vs ht hv
  let dd : Addr := d ++ [9, xs.length]
  have hhead := emptyHead_exact (kw := b!"command") (sD := sService) (specD := specService) dd
    (show specService.name = some ⟨wName, none, none, true, false⟩ by decide +kernel) rfl true (freshMsg sService)
  have hbp' : ∀ p, basePath = some p → okString p = true := fun p hp => by subst hp; exact hbp
  have he : serviceBody false ⟨name, basePath, methods, sopt⟩ =
      (if (name.getD []) = [] then [] else [assignStmt [wName] (strValue (name.getD []))]) ++
        (basePathBcl basePath ++ methods.map methodBcl) := by
    unfold serviceBody
    rw [List.append_assoc]
    cases basePath <;> simp [basePathBcl]
  have hbody : Exact (doBody j5Env (Scope.newChild (serviceCF dd)) (serviceBody false ⟨name, basePath, methods, sopt⟩))
      dd (freshMsg sService) ()
      (serviceNode (name.getD [] != []) (if name.getD [] != [] then pStr (name.getD []) else .absent) basePath
        (methods.map (methodMsg j5Env))) := by
    rw [he]
    by_cases hn : name.getD [] = []
    · rw [if_pos hn, hn]
      exact doBody_append (doBody_nil _ _ _) (serviceBody_exact dd false .absent basePath methods hbp' hms)
    · rw [if_neg hn]
      have hne : (name.getD [] != []) = true := by simpa using hn
      rw [hne]
      have hok : okString (name.getD []) = true := by
        cases name with
        | none => exact absurd rfl hn
        | some n => simpa using hname
      refine doBody_append (doBody_cons (doStatement_assign ?_) (doBody_nil _ _ _))
        (serviceBody_exact dd true (pStr (name.getD [])) basePath methods hbp' hms)
      exact setAttr_direct (n := wName) (pos := some Span.zero) (t := [false, false, false, false, false])
        (vs := [.absent, .absent, .absent, .absent, .absent]) (cur := .absent) (v := .str (name.getD []))
        (combinePath_ident (by decide) [])
        (findBlock_prop' (show aliasLookup wName specService.aliases = none by decide +kernel)
          (propInfo_hasProperty pi_Service_name))
        pi_Service_name rfl rfl (.inl rfl) (asArray_strValue _)
        (by simp only [scalarFromAST, asString_strValue (isAscii_of_okString hok)]; rfl)
  exact arrayBlock_exact (kw := b!"command") (by decide)
    (findBlock_alias' (show aliasLookup b!"command" specEntity.aliases = some [b!"commands"] by decide +kernel))
    pi_Entity_commands (specOf_Service _) ht hv hhead hbody

/-! ## `summary { [name = "…"] fields }` -/

theorem summary_appends (d : Addr) {s : J5V.Compile.Summary} (hn : okString s.name = true)
    (hps : propsOk j5Env s.props = true) :
    Appends j5Env (entityScope d) d 10 (summaryBcl s) (summaryMsg j5Env s) := by
  obtain ⟨name, props⟩ := s
  rw [summaryMsg_eq]
  intro xs t vs ht hv
  let dd : Addr := d ++ [10, xs.length]
  let ssc : Scope := Scope.newChild (cfOf sEntitySummary specEntitySummary dd)
  have hhead := emptyHead_exact (kw := b!"summary") (sD := sEntitySummary) (specD := specEntitySummary) dd
    (show specEntitySummary.name = some ⟨wName, none, none, true, false⟩ by decide +kernel) rfl true
    (freshMsg sEntitySummary)
  have h1 : Exact (doBody j5Env ssc (if name = [] then [] else [assignStmt [wName] (strValue name)])) dd
      (freshMsg sEntitySummary) ()
      (.msg [name != [], false, false] [if name != [] then sStr name else .absent, .absent, .absent]) := by
    by_cases hp : name = []
    · subst hp; exact doBody_nil _ _ _
    · rw [if_neg hp]
      have hne : (name != []) = true := by simpa using hp
      rw [hne]
      refine doBody_cons (doStatement_assign ?_) (doBody_nil _ _ _)
      refine (setAttr_direct (n := wName) (pos := some Span.zero) (t := [false, false, false])
        (vs := [.absent, .absent, .absent]) (cur := .absent) (v := .str name)
        (combinePath_ident (by decide) [])
        (findBlock_prop' (show aliasLookup wName specEntitySummary.aliases = none by decide +kernel)
          (propInfo_hasProperty pi_EntitySummary_name))
        pi_EntitySummary_name rfl rfl (.inl rfl) (asArray_strValue _)
        (by simp only [scalarFromAST, asString_strValue (isAscii_of_okString hn)]; rfl)).conv ?_
      rw [storeNode_str]; rfl
  have hfields := props_appendsAll2 (kw := wField) (by decide) (sc := ssc)
    (findBlock_alias' (show aliasLookup wField specEntitySummary.aliases = some [b!"fields"] by decide +kernel))
    pi_EntitySummary_fields props (propsHas_all hps)
  have h2 := appends_fold hfields [] [name != [], false, false]
    [if name != [] then sStr name else .absent, .absent, .absent] rfl rfl
  rw [List.nil_append] at h2
  exact arrayBlock_exact (kw := b!"summary") (by decide)
    (findBlock_alias' (show aliasLookup b!"summary" specEntity.aliases = some [b!"summaries"] by decide +kernel))
    pi_Entity_summaries (specOf_EntitySummary _) ht hv hhead (doBody_append h1 h2)

/-! ## `query { [eventsInGet = true] [defaultStatusFilter = […]] }` -/

theorem query_exact (d : Addr) {q : J5V.Compile.EntityQuery} (hq : q.filters.all okString = true)
    {t : List Bool} {vs : List Node} (ht : t[3]? = some false) (hv : vs[3]? = some .absent) :
    Exact (doStatement j5Env (entityScope d) (queryBcl q)) d (.msg t vs) ()
      (.msg (t.set 3 true) (vs.set 3 (queryMsg j5Env q))) := by
  obtain ⟨eg, filters⟩ := q
  rw [queryMsg_eq]
  let dd : Addr := d ++ [3]
  let qsc : Scope := Scope.newChild (cfOf sEntityQuery specEntityQuery dd)
  have h1 : Exact (doBody j5Env qsc (if eg = true then [assignStmt [b!"eventsInGet"] (boolValue true)] else [])) dd
      (freshMsg sEntityQuery) ()
      (.msg [eg, false, false, false] [if eg then bTrue else .absent, .absent, .absent, .absent]) := by
    cases eg
    · exact doBody_nil _ _ _
    · refine doBody_cons (doStatement_assign ?_) (doBody_nil _ _ _)
      exact setAttr_direct (n := b!"eventsInGet") (pos := some Span.zero) (t := [false, false, false, false])
        (vs := [.absent, .absent, .absent, .absent]) (cur := .absent) (v := .bool true)
        (combinePath_ident (by decide) [])
        (findBlock_prop' (show aliasLookup b!"eventsInGet" specEntityQuery.aliases = none from rfl)
          (propInfo_hasProperty pi_EntityQuery_eventsInGet))
        pi_EntityQuery_eventsInGet rfl rfl (.inl rfl) (asArray_boolValue _)
        (by simp only [scalarFromAST, asBool_boolValue]; rfl)
  have h2 : Exact (doBody j5Env qsc
      (if filters = [] then [] else [assignStmt [b!"defaultStatusFilter"] (strsValue filters)])) dd
      (.msg [eg, false, false, false] [if eg then bTrue else .absent, .absent, .absent, .absent]) ()
      (.msg [eg, false, false, !filters.isEmpty]
        [if eg then bTrue else .absent, .absent, .absent, listSlot (filters.map fun s => .scalar (.str s))]) := by
    cases filters with
    | nil => exact doBody_nil _ _ _
    | cons x xs =>
      rw [if_neg (by simp)]
      refine doBody_cons ?_ (doBody_nil _ _ _)
      exact setAttr_direct_strs (n := b!"defaultStatusFilter") (by decide)
        (findBlock_prop' (show aliasLookup b!"defaultStatusFilter" specEntityQuery.aliases = none from rfl)
          (propInfo_hasProperty pi_EntityQuery_filter))
        pi_EntityQuery_filter rfl rfl (.inl rfl) hq
  exact contBlock_exact (kw := b!"query") (by decide)
    (findBlock_prop' (show aliasLookup b!"query" specEntity.aliases = none by decide +kernel)
      (propInfo_hasProperty pi_Entity_query))
    pi_Entity_query specOf_EntityQuery (by decide +kernel) (by decide +kernel) ht hv (fun g hg => by cases hg)
    (doBody_append h1 h2)

/-! ## Nested `object` / `oneof` / `enum` -/

theorem nestedE : (ns : List J5V.Compile.Nested) → nestedOk j5Env false ns = true →
    ∀ d, AppendsAll j5Env (entityScope d) d 8 (nestedBcl ns) (nestedMsg j5Env ns)
  | [], _ => fun _ => .nil
  | .object o :: rest, h => by
    simp only [nestedOk, Bool.and_eq_true] at h
    intro d
    simp only [nestedBcl, nestedMsg]
    refine .cons ?_ (nestedE rest h.2 d)
    rw [nestedOneof_object_eq]
    exact objDecl6 o (objDeclOk6_of_objDeclOk o h.1)
      (findBlock_alias' (show aliasLookup wObject specEntity.aliases = some [b!"schemas", wObject] by decide +kernel))
      pi_Entity_schemas pi_NestedSchema_object specOf_NestedSchema fresh_NestedSchema rfl rfl rfl
  | .oneof o :: rest, h => by
    simp only [nestedOk, Bool.and_eq_true, Bool.not_false, Bool.true_and] at h
    intro d
    simp only [nestedBcl, nestedMsg]
    refine .cons ?_ (nestedE rest h.2 d)
    rw [nestedOneof_oneof_eq]
    obtain ⟨name, props, nested, psm⟩ := o
    have ho := h.1
    simp only [objDeclOk, Bool.and_eq_true, if_true, List.isEmpty_iff] at ho
    obtain ⟨⟨⟨hname, _⟩, hprops⟩, hnested⟩ := ho
    subst hnested
    exact oneofDecl_appendsG hname (propsHas_all hprops)
      (findBlock_alias' (show aliasLookup wOneof specEntity.aliases = some [b!"schemas", wOneof] by decide +kernel))
      pi_Entity_schemas pi_NestedSchema_oneof specOf_NestedSchema fresh_NestedSchema rfl rfl rfl
  | .enum en :: rest, h => by
    simp only [nestedOk, Bool.and_eq_true, Bool.not_false, Bool.true_and] at h
    intro d
    simp only [nestedBcl, nestedMsg]
    refine .cons ?_ (nestedE rest h.2 d)
    rw [nestedOneof_enum_eq]
    exact enumDecl_appendsG h.1
      (findBlock_alias' (show aliasLookup wEnum specEntity.aliases = some [b!"schemas", wEnum] by decide +kernel))
      pi_Entity_schemas pi_NestedSchema_enum specOf_NestedSchema fresh_NestedSchema rfl rfl rfl

end J5V.Walker
