import J5V.Walker.PP.DeclsG
import J5V.Walker.PP.EntityKeyBlock
/-!
# Print/parse: tables of `j5.sourcedef.v1.Entity`, `EntitySummary`, `EntityQuery`; the entity message
-/
namespace J5V.Walker
open J5V.Bcl

def sEntity : Schema := j5_schema_lit% "j5.sourcedef.v1.Entity"
def specEntity : BlockSpec := j5_spec_lit% "j5.sourcedef.v1.Entity"
def sEntitySummary : Schema := j5_schema_lit% "j5.sourcedef.v1.EntitySummary"
def specEntitySummary : BlockSpec := j5_spec_lit% "j5.sourcedef.v1.EntitySummary"
def sEntityQuery : Schema := j5_schema_lit% "j5.sourcedef.v1.EntityQuery"
def specEntityQuery : BlockSpec := j5_spec_lit% "j5.sourcedef.v1.EntityQuery"

theorem schemaOf_Entity : j5Env.schemaOf b!"j5.sourcedef.v1.Entity" = sEntity := by rw [j5Env_nf]; decide +kernel
theorem schemaOf_EntitySummary : j5Env.schemaOf b!"j5.sourcedef.v1.EntitySummary" = sEntitySummary := by
  rw [j5Env_nf]; decide +kernel
theorem schemaOf_EntityQuery : j5Env.schemaOf b!"j5.sourcedef.v1.EntityQuery" = sEntityQuery := by
  rw [j5Env_nf]; decide +kernel
theorem specOf_Entity (c : Addr) : specOf j5Env ⟨c, .msg sEntity⟩ = .ok specEntity := by
  apply specOf_of_nil; rw [j5Env_nf]; decide +kernel
theorem specOf_EntitySummary (c : Addr) : specOf j5Env ⟨c, .msg sEntitySummary⟩ = .ok specEntitySummary := by
  apply specOf_of_nil; rw [j5Env_nf]; decide +kernel
theorem specOf_EntityQuery (c : Addr) : specOf j5Env ⟨c, .msg sEntityQuery⟩ = .ok specEntityQuery := by
  apply specOf_of_nil; rw [j5Env_nf]; decide +kernel

theorem pi_RootElement_entity :
    propInfo j5Env sRootElement b!"entity" = some (0, some gRootElement, .container sEntity) := by
  rw [j5Env_nf]; decide +kernel
theorem pi_Entity_name : propInfo j5Env sEntity wName = some (0, none, .scalar (.scalar .string) false) := by
  rw [j5Env_nf]; decide +kernel
theorem pi_Entity_baseUrlPath :
    propInfo j5Env sEntity b!"baseUrlPath" = some (2, none, .scalar (.scalar .string) false) := by
  rw [j5Env_nf]; decide +kernel
theorem pi_Entity_query : propInfo j5Env sEntity b!"query" = some (3, none, .container sEntityQuery) := by
  rw [j5Env_nf]; decide +kernel
theorem pi_Entity_status : propInfo j5Env sEntity b!"status" = some (4, none, .arrayOfContainer sEnumOption) := by
  rw [j5Env_nf]; decide +kernel
theorem pi_Entity_keys : propInfo j5Env sEntity b!"keys" = some (5, none, .arrayOfContainer sEntityKeyDecl) := by
  rw [j5Env_nf]; decide +kernel
theorem pi_Entity_data : propInfo j5Env sEntity b!"data" = some (6, none, .arrayOfContainer sObjectProperty) := by
  rw [j5Env_nf]; decide +kernel
theorem pi_Entity_events : propInfo j5Env sEntity b!"events" = some (7, none, .arrayOfContainer sObject) := by
  rw [j5Env_nf]; decide +kernel
theorem pi_Entity_schemas :
    propInfo j5Env sEntity b!"schemas" = some (8, none, .arrayOfContainer sNestedSchema) := by
  rw [j5Env_nf]; decide +kernel
theorem pi_Entity_commands : propInfo j5Env sEntity b!"commands" = some (9, none, .arrayOfContainer sService) := by
  rw [j5Env_nf]; decide +kernel
theorem pi_Entity_summaries :
    propInfo j5Env sEntity b!"summaries" = some (10, none, .arrayOfContainer sEntitySummary) := by
  rw [j5Env_nf]; decide +kernel
theorem pi_EntitySummary_name :
    propInfo j5Env sEntitySummary wName = some (0, none, .scalar (.scalar .string) false) := by
  rw [j5Env_nf]; decide +kernel
theorem pi_EntitySummary_fields :
    propInfo j5Env sEntitySummary b!"fields" = some (2, none, .arrayOfContainer sObjectProperty) := by
  rw [j5Env_nf]; decide +kernel
theorem pi_EntityQuery_eventsInGet :
    propInfo j5Env sEntityQuery b!"eventsInGet" = some (0, none, .scalar (.scalar .bool) false) := by
  rw [j5Env_nf]; decide +kernel
theorem pi_EntityQuery_filter :
    propInfo j5Env sEntityQuery b!"defaultStatusFilter" = some (3, none, .arrayOfScalar (.scalar .string)) := by
  rw [j5Env_nf]; decide +kernel

/-- the entity block at `d` -/
abbrev entityCF (d : Addr) : ContainerField := cfOf sEntity specEntity d

/-! ## The messages -/

/-- the `Entity` message: slots name, description, baseUrlPath, query, status, keys, data, events, schemas,
commands, summaries -/
def entityNode (name : Node) (bu : Str) (q : Option Node) (sts ks ds evs ns cs sms : List Node) : Node :=
  .msg [true, false, bu != [], q.isSome, !sts.isEmpty, !ks.isEmpty, !ds.isEmpty, !evs.isEmpty, !ns.isEmpty,
      !cs.isEmpty, !sms.isEmpty]
    [name, .absent, if bu != [] then sStr bu else .absent, q.getD .absent, listSlot sts, listSlot ks, listSlot ds,
      listSlot evs, listSlot ns, listSlot cs, listSlot sms]

/-! ### `lookupVal` through `optVal` / `listVal` (names distinct: side conditions by `decide`) -/

theorem lookupVal_cons_hit (n : Str) (v : Node) (rest : List (Str × Node)) :
    lookupVal n ((n, v) :: rest) = some v := by simp [lookupVal]
theorem lookupVal_cons_ne {k n : Str} (h : k ≠ n) (v : Node) (rest : List (Str × Node)) :
    lookupVal n ((k, v) :: rest) = lookupVal n rest := by simp [lookupVal, h]
theorem lookupVal_optVal_hit (n : Str) (c : Bool) (v : Node) (rest : List (Str × Node)) :
    lookupVal n (optVal c n v ++ rest) = if c then some v else lookupVal n rest := by
  cases c <;> simp [optVal, lookupVal]
theorem lookupVal_optVal_ne {m n : Str} (h : m ≠ n) (c : Bool) (v : Node) (rest : List (Str × Node)) :
    lookupVal n (optVal c m v ++ rest) = lookupVal n rest := by
  cases c <;> simp [optVal, lookupVal, h]
theorem lookupVal_listVal_hit (n : Str) (items : List Node) (rest : List (Str × Node)) :
    lookupVal n (listVal n items ++ rest) = if items.isEmpty then lookupVal n rest else some (.list items) := by
  cases items <;> simp [listVal, lookupVal]
theorem lookupVal_listVal_ne {m n : Str} (h : m ≠ n) (items : List Node) (rest : List (Str × Node)) :
    lookupVal n (listVal m items ++ rest) = lookupVal n rest := by
  cases items <;> simp [listVal, lookupVal, h]
theorem lookupVal_listVal_hit' (n : Str) (items : List Node) :
    lookupVal n (listVal n items) = if items.isEmpty then none else some (.list items) := by
  cases items <;> simp [listVal, lookupVal]
theorem lookupVal_listVal_ne' {m n : Str} (h : m ≠ n) (items : List Node) :
    lookupVal n (listVal m items) = none := by
  cases items <;> simp [listVal, lookupVal, h]

theorem isSome_listIte (items : List Node) :
    (if items.isEmpty then none else some (Node.list items)).isSome = !items.isEmpty := by cases items <;> rfl
theorem getD_listIte (items : List Node) :
    (if items.isEmpty then none else some (Node.list items)).getD .absent = listSlot items := by cases items <;> rfl
theorem isSome_optIte (c : Bool) (v : Node) : (if c then some v else none).isSome = c := by cases c <;> rfl
theorem getD_optIte (c : Bool) (v : Node) :
    (if c then some v else none).getD .absent = if c then v else .absent := by cases c <;> rfl

theorem mkMsg_Entity (vals : List (Str × Node)) :
    mkMsg j5Env b!"j5.sourcedef.v1.Entity" vals =
      .msg [(lookupVal wName vals).isSome, (lookupVal b!"description" vals).isSome,
          (lookupVal b!"baseUrlPath" vals).isSome, (lookupVal b!"query" vals).isSome,
          (lookupVal b!"status" vals).isSome, (lookupVal b!"keys" vals).isSome, (lookupVal b!"data" vals).isSome,
          (lookupVal b!"events" vals).isSome, (lookupVal b!"schemas" vals).isSome,
          (lookupVal b!"commands" vals).isSome, (lookupVal b!"summaries" vals).isSome]
        [(lookupVal wName vals).getD .absent, (lookupVal b!"description" vals).getD .absent,
          (lookupVal b!"baseUrlPath" vals).getD .absent, (lookupVal b!"query" vals).getD .absent,
          (lookupVal b!"status" vals).getD .absent, (lookupVal b!"keys" vals).getD .absent,
          (lookupVal b!"data" vals).getD .absent, (lookupVal b!"events" vals).getD .absent,
          (lookupVal b!"schemas" vals).getD .absent, (lookupVal b!"commands" vals).getD .absent,
          (lookupVal b!"summaries" vals).getD .absent] := by
  rw [mkMsg_of schemaOf_Entity]
  rfl

theorem entityMsg_eq (e : J5V.Compile.Entity) :
    entityMsg j5Env e = entityNode (sStr e.name) e.baseUrl (e.query.map (queryMsg j5Env))
      (e.statuses.map (enumOptionMsg j5Env)) (e.keys.map (keyMsg j5Env)) (propsMsg j5Env e.data)
      (e.events.map (objectMsg j5Env false)) (nestedMsg j5Env e.nested) (e.commands.map (serviceMsg j5Env))
      (e.summaries.map (summaryMsg j5Env)) := by
  obtain ⟨name, baseUrl, keys, data, statuses, events, commands, summaries, query, nested⟩ := e
  simp only [entityMsg]
  rw [mkMsg_Entity]
  generalize sStr name = nm
  generalize statuses.map (enumOptionMsg j5Env) = sts
  generalize keys.map (keyMsg j5Env) = ks
  generalize propsMsg j5Env data = ds
  generalize events.map (objectMsg j5Env false) = evs
  generalize nestedMsg j5Env nested = ns
  generalize commands.map (serviceMsg j5Env) = cs
  generalize summaries.map (summaryMsg j5Env) = sms
  cases query <;>
    simp (disch := decide) only [List.append_assoc, List.nil_append, List.cons_append, lookupVal_cons_hit,
      lookupVal_cons_ne, lookupVal_optVal_hit, lookupVal_optVal_ne, lookupVal_listVal_hit, lookupVal_listVal_ne,
      lookupVal_listVal_hit', lookupVal_listVal_ne', isSome_listIte, getD_listIte, isSome_optIte, getD_optIte,
      Option.isSome_some, Option.isSome_none, Option.getD_some, Option.getD_none] <;> rfl

theorem elemMsg_entity_eq (e : J5V.Compile.Entity) :
    elemMsg j5Env (.entity e) = oneofMsg 6 0 (entityMsg j5Env e) := by
  simp only [elemMsg, rootOneof]
  rw [mkMsg_of schemaOf_RootElement]
  rfl

theorem summaryMsg_eq (s : J5V.Compile.Summary) :
    summaryMsg j5Env s = .msg [s.name != [], false, !(propsMsg j5Env s.props).isEmpty]
      [if s.name != [] then sStr s.name else .absent, .absent, listSlot (propsMsg j5Env s.props)] := by
  obtain ⟨name, props⟩ := s
  simp only [summaryMsg]
  rw [mkMsg_of schemaOf_EntitySummary]
  generalize propsMsg j5Env props = ps
  cases name <;> cases ps <;> rfl

theorem queryMsg_eq (q : J5V.Compile.EntityQuery) :
    queryMsg j5Env q = .msg [q.eventsInGet, false, false, !q.filters.isEmpty]
      [if q.eventsInGet then bTrue else .absent, .absent, .absent,
        listSlot (q.filters.map fun s => .scalar (.str s))] := by
  obtain ⟨eg, filters⟩ := q
  simp only [queryMsg]
  rw [mkMsg_of schemaOf_EntityQuery]
  cases eg <;> cases filters <;> rfl

end J5V.Walker
