import J5V.Walker.PP.Strings
import J5V.Walker.PP.Gen
/-!
# Print/parse: rule literals — what the walker reads from a printed literal

`litScalar t l = some v → scalarFromAST env t (.value (litValue l)) = .ok v` (and the literal is not an
array): quoted strings, `true` / `false`, decimal integers for the unsigned / signed / float targets
(`strconv.ParseUint` / `ParseInt` / `ParseFloat` of `strconv.FormatUint`).
-/
namespace J5V.Walker
open J5V.Bcl

/-! ## Decimal digits -/

theorem digitChar_toNat : ∀ d, d < 10 → (Nat.digitChar d).toNat = 48 + d := by decide

theorem natDigits_lt {n : Nat} (h : n < 10) : natDigits n = [48 + n] := by
  unfold natDigits
  rw [Nat.toDigits_of_lt_base h]
  simp [digitChar_toNat n h]

theorem natDigits_ge {n : Nat} (h : 10 ≤ n) : natDigits n = natDigits (n / 10) ++ [48 + n % 10] := by
  unfold natDigits
  rw [Nat.toDigits_of_base_le (by decide) h]
  simp [digitChar_toNat (n % 10) (Nat.mod_lt _ (by decide))]

/-- the value of a digit string read left to right -/
def digitsVal (acc : Nat) (ds : List Nat) : Nat := ds.foldl (fun a c => a * 10 + (c - 48)) acc

def allDigits (ds : List Nat) : Bool := ds.all fun c => decide (48 ≤ c) && decide (c ≤ 57)

theorem natDigits_spec (n : Nat) : allDigits (natDigits n) = true ∧ digitsVal 0 (natDigits n) = n ∧ natDigits n ≠ [] := by
  induction n using Nat.strongRecOn with
  | _ n ih =>
    by_cases h : n < 10
    · rw [natDigits_lt h]
      refine ⟨?_, ?_, by simp⟩
      · simp only [allDigits, List.all_cons, List.all_nil, Bool.and_true, Bool.and_eq_true, decide_eq_true_eq]
        omega
      · simp only [digitsVal, List.foldl_cons, List.foldl_nil]; omega
    · have h10 : 10 ≤ n := by omega
      rw [natDigits_ge h10]
      obtain ⟨h1, h2, _⟩ := ih (n / 10) (by omega)
      refine ⟨?_, ?_, by simp⟩
      · simp only [allDigits, List.all_append, List.all_cons, List.all_nil, Bool.and_true, Bool.and_eq_true,
          decide_eq_true_eq]
        exact ⟨h1, by omega, by omega⟩
      · simp only [digitsVal, List.foldl_append, List.foldl_cons, List.foldl_nil]
        simp only [digitsVal] at h2
        rw [h2]; omega

theorem isAscii_of_allDigits {ds : List Nat} (h : allDigits ds = true) : isAscii ds = true := by
  simp only [allDigits, List.all_eq_true, Bool.and_eq_true, decide_eq_true_eq] at h
  simp only [isAscii, List.all_eq_true, decide_eq_true_eq]
  intro b hb
  have := h b hb
  omega

theorem encodeRunes_natDigits (n : Nat) : encodeRunes (natDigits n) = natDigits n :=
  encodeRunes_ascii (isAscii_of_allDigits (natDigits_spec n).1)

/-! ## strconv on digit strings -/

theorem foldl_pdStep {ds : List Nat} (h : allDigits ds = true) (acc : Nat) :
    ds.foldl J5V.Compile.pdStep (some acc) = some (digitsVal acc ds) := by
  induction ds generalizing acc with
  | nil => rfl
  | cons c rest ih =>
    simp only [allDigits, List.all_cons, Bool.and_eq_true, decide_eq_true_eq] at h
    have hc : J5V.Compile.isDigitB c = true := by
      simp only [J5V.Compile.isDigitB, Bool.and_eq_true, decide_eq_true_eq]; exact h.1
    simp only [List.foldl_cons, J5V.Compile.pdStep, hc, if_true, digitsVal]
    exact ih (by simpa [allDigits] using h.2) _

theorem parseDigits_digits {ds : List Nat} (h : allDigits ds = true) (hne : ds ≠ []) :
    J5V.Compile.parseDigits ds = some (digitsVal 0 ds) := by
  cases ds with
  | nil => exact absurd rfl hne
  | cons c rest =>
    simp only [J5V.Compile.parseDigits]
    exact foldl_pdStep h 0

theorem parseDigits_natDigits (n : Nat) : J5V.Compile.parseDigits (natDigits n) = some n := by
  obtain ⟨h1, h2, h3⟩ := natDigits_spec n
  rw [parseDigits_digits h1 h3, h2]

theorem parseUint_natDigits {n bits : Nat} (h : n < 2 ^ bits) :
    J5V.Compile.parseUint (natDigits n) bits = some n := by
  simp only [J5V.Compile.parseUint, parseDigits_natDigits, h, if_true]

theorem parseInt_natDigits {n bits : Nat} (h : n < 2 ^ (bits - 1)) :
    J5V.Compile.parseInt (natDigits n) bits = some (n : Int) := by
  obtain ⟨h1, _, h3⟩ := natDigits_spec n
  cases hds : natDigits n with
  | nil => exact absurd hds h3
  | cons c rest =>
    have hc : 48 ≤ c ∧ c ≤ 57 := by
      rw [hds] at h1
      simp only [allDigits, List.all_cons, Bool.and_eq_true, decide_eq_true_eq] at h1
      exact h1.1
    have h43 : c ≠ 43 := by intro e; rw [e] at hc; exact absurd hc.1 (by decide)
    have h45 : c ≠ 45 := by intro e; rw [e] at hc; exact absurd hc.1 (by decide)
    simp only [J5V.Compile.parseInt, h43, h45, if_false]
    rw [← hds, parseDigits_natDigits]
    simp only [Bool.false_eq_true, if_false, h, if_true]

theorem scanDecimal_digits {ds : List Nat} (h : allDigits ds = true) (acc k : Nat) (sawDigit : Bool)
    (hs : sawDigit = true ∨ ds ≠ []) :
    scanDecimal ds acc k false sawDigit = some (digitsVal acc ds, k) := by
  induction ds generalizing acc sawDigit with
  | nil =>
    rcases hs with hs | hs
    · subst hs; rfl
    · exact absurd rfl hs
  | cons c rest ih =>
    simp only [allDigits, List.all_cons, Bool.and_eq_true, decide_eq_true_eq] at h
    simp only [scanDecimal, h.1, and_self, if_true, Bool.false_eq_true, if_false, digitsVal, List.foldl_cons]
    exact ih (by simpa [allDigits] using h.2) _ true (.inl rfl)

theorem parseFloat64_natDigits (n : Nat) : parseFloat64 (natDigits n) = natF64 n := by
  obtain ⟨h1, h2, h3⟩ := natDigits_spec n
  simp only [parseFloat64, scanDecimal_digits h1 0 0 false (.inr h3), h2, natF64, Nat.pow_zero]

theorem parseFloat32_natDigits (n : Nat) : parseFloat32 (natDigits n) = natF32 n := by
  obtain ⟨h1, h2, h3⟩ := natDigits_spec n
  simp only [parseFloat32, scanDecimal_digits h1 0 0 false (.inr h3), h2, natF32, Nat.pow_zero]

/-! ## The literal as the walker reads it -/

/-- a literal that is not a string list -/
def Lit.isScalar : J5V.Compile.Lit → Bool
  | .strs _ => false
  | _ => true

theorem asArray_litValue {l : J5V.Compile.Lit} (h : Lit.isScalar l = true) :
    (AV.value (litValue l)).asArray = none := by
  cases l <;> first | rfl | cases h

theorem litScalar_isScalar {t : FieldType} {l : J5V.Compile.Lit} {v : Scalar} (h : litScalar t l = some v) :
    Lit.isScalar l = true := by
  cases l <;> first | rfl | (unfold litScalar at h; split at h <;> simp_all)

/-- the conversion of the literal by the walker is `litScalar` -/
theorem scalarFromAST_litValue (env : Env) {t : FieldType} {l : J5V.Compile.Lit} {v : Scalar}
    (h : litScalar t l = some v) (hs : strOk l = true) :
    scalarFromAST env t (.value (litValue l)) = .ok v := by
  unfold litScalar at h
  split at h
  · -- string
    cases h
    simp only [scalarFromAST, litValue, asString_strValue (isAscii_of_okString hs), Option.map_some]
  · cases h
    simp only [scalarFromAST, litValue, asString_strValue (isAscii_of_okString hs), Option.map_some]
  · cases h
    simp only [scalarFromAST, litValue, asBool_boolValue, Option.map_some]
  · -- uint64
    split at h
    · rename_i n hn
      cases h
      simp only [scalarFromAST, litValue, intValue, AV.asUint, valueToken, tok0, if_true, encodeRunes_natDigits,
        parseUint_natDigits hn, Option.map_some]
    · cases h
  · split at h
    · rename_i n hn
      cases h
      simp only [scalarFromAST, litValue, intValue, AV.asUint, valueToken, tok0, if_true, encodeRunes_natDigits,
        parseUint_natDigits hn, Option.map_some]
    · cases h
  · split at h
    · rename_i n hn
      cases h
      simp only [scalarFromAST, litValue, intValue, AV.asInt, valueToken, tok0, if_true, encodeRunes_natDigits,
        parseInt_natDigits (bits := 64) hn, Option.map_some]
    · cases h
  · split at h
    · rename_i n hn
      cases h
      simp only [scalarFromAST, litValue, intValue, AV.asInt, valueToken, tok0, if_true, encodeRunes_natDigits,
        parseInt_natDigits (bits := 32) hn, Option.map_some]
    · cases h
  · -- float64
    rename_i n
    simp only [scalarFromAST, litValue, intValue, AV.asFloatLit, valueToken, tok0, true_or, if_true,
      encodeRunes_natDigits, parseFloat64_natDigits]
    cases hf : natF64 n with
    | none => rw [hf] at h; cases h
    | some b => rw [hf] at h; cases h; rfl
  · rename_i n
    simp only [scalarFromAST, litValue, intValue, AV.asFloatLit, valueToken, tok0, true_or, if_true,
      encodeRunes_natDigits, parseFloat32_natDigits]
    cases hf : natF32 n with
    | none => rw [hf] at h; cases h
    | some b => rw [hf] at h; cases h; rfl
  · cases h

end J5V.Walker
