import J5V.Walker.PP.Field2Inl
import J5V.Walker.PP.Field2Coll
/-!
# Print/parse: arrays of inline objects (`field xs array:object { field … }`)

The `field` blocks of the item are found in the ARRAY block (it comes first in the scope), through its alias
`field → [items, object, object, properties]`: the first two steps take cached wrappers (the qualifier
`:object` created them), the last two are the steps of the item's own alias. `arrayObjInlFacts`.
-/
namespace J5V.Walker
open J5V.Bcl

/-- `ChildBlock(field)` resolved by the array block at `a ++ b`: four steps down to a new property of the
inline object of the item type (`ObjectField` at `a ++ b ++ [1, 2]`) -/
theorem arrEntry_exact {sc : Scope} {a b : Addr} {C : Option Node → Node} (hl : Lens (fun Y => C (some Y)) b)
    (hfb : findBlock wField sc.blockSet =
      some (cfOf sArrayField specArrayField (a ++ b), [wItems, wObject, wObject, b!"properties"]))
    {tp : List Bool} {vsp : List Node} (htp : tp[1]? = some true) (hlp : 1 < vsp.length)
    {tT : List Bool} {vsT : List Node} (htT : tT[1]? = some false) (hvT : vsT[1]? = some .absent)
    (hconf : NoConflictAt sObjectField 1 (some gObjectFieldSchema) vsT)
    {oI0 : Option Node} {tI : List Bool} {vsI : List Node} (hMI : oI0.getD (freshMsg sSObject) = .msg tI vsI)
    (htI : tI[3]? = some false) (hvI : vsI[3]? = some .absent) (xs : List Node) :
    Exact (childBlock j5Env sc wField) a
      (C (some (.msg tp (vsp.set 1 (oneofMsg 15 2 (holder tT vsT 1 (innerOpt oI0 tI vsI 3 xs)))))))
      (Scope.newChild (propCF (a ++ (b ++ [1] ++ [2] ++ ([1] ++ ([3] ++ [xs.length]))))))
      (C (some (.msg tp (vsp.set 1 (oneofMsg 15 2 (holder tT vsT 1
        (some (.msg (tI.set 3 true) (vsI.set 3 (.list (xs ++ [freshMsg sObjectProperty]))))))))))) := by
  -- lenses down to the `Field` oneof and to the `ObjectField`
  have hL1 : Lens (fun Y => C (some (.msg tp (vsp.set 1 Y)))) (b ++ [1]) :=
    Lens.comp hl (Lens.slot tp vsp hlp)
  have hL2 : Lens (fun Y => C (some (.msg tp (vsp.set 1 (oneofMsg 15 2 Y))))) (b ++ [1] ++ [2]) :=
    Lens.comp hL1 (Lens.slot ((List.replicate 15 false).set 2 true) (List.replicate 15 .absent) (by decide))
  have hA1 : a ++ b ++ [1] = a ++ (b ++ [1]) := List.append_assoc _ _ _
  have hA2 : a ++ b ++ [1] ++ [2] = a ++ (b ++ [1] ++ [2]) := by simp
  -- step 1: `items` (cached)
  have h1 : ∀ Y, Exact (propSetValue j5Env (a ++ b) sArrayField wItems false) a
      (C (some (.msg tp (vsp.set 1 Y)))) ⟨a ++ b ++ [1], .container sField⟩ (C (some (.msg tp (vsp.set 1 Y)))) :=
    fun Y => Exact.lens hl (propSetValue_cached (c := a ++ b) pi_ArrayField_items htp)
  -- step 2: `object` of the `Field` oneof (cached)
  have h2 : ∀ Y, Exact (propSetValue j5Env (a ++ b ++ [1]) sField wObject false) a
      (C (some (.msg tp (vsp.set 1 (oneofMsg 15 2 Y))))) ⟨a ++ b ++ [1] ++ [2], .container sObjectField⟩
      (C (some (.msg tp (vsp.set 1 (oneofMsg 15 2 Y))))) := by
    intro Y
    have h := propSetValue_cached (c := a ++ (b ++ [1])) (t := (List.replicate 15 false).set 2 true)
      (vs := (List.replicate 15 Node.absent).set 2 Y) pi_Field_object rfl
    rw [hA1]
    exact Exact.lens hL1 h
  -- steps 3, 4: the alias of the object field itself
  have h34 := innerWalkPath_exact (specT := BlockSpec.empty) (d := a ++ (b ++ [1] ++ [2])) pi_ObjectField_object
    pi_SObject_properties htT hvT hconf hMI htI hvI xs
  have h34' := Exact.lens hL2 h34
  rw [← hA2] at h34'
  have hwp : Exact (walkPath j5Env (cfOf sArrayField specArrayField (a ++ b))
      [wItems, wObject, wObject, b!"properties"]) a
      (C (some (.msg tp (vsp.set 1 (oneofMsg 15 2 (holder tT vsT 1 (innerOpt oI0 tI vsI 3 xs)))))))
      ([cf0 sObjectProperty (a ++ b ++ [1] ++ [2] ++ [1, 3, xs.length])] ++ [cf0 sSObject (a ++ b ++ [1] ++ [2] ++ [1])] ++
        [cf0 sObjectField (a ++ b ++ [1] ++ [2])] ++ [cf0 sField (a ++ b ++ [1])])
      (C (some (.msg tp (vsp.set 1 (oneofMsg 15 2 (holder tT vsT 1
        (some (.msg (tI.set 3 true) (vsI.set 3 (.list (xs ++ [freshMsg sObjectProperty]))))))))))) :=
    walkPath_container (propInfo_hasProperty pi_ArrayField_items) (h1 _)
      (walkRest_cons (walkPath_container (spec := BlockSpec.empty) (propInfo_hasProperty pi_Field_object) (h2 _)
        (walkRest_cons h34')))
  have hc := childBlock_of_walkPath hfb hwp
    (setSpecs_cons (specOf_ObjectProperty _) (setSpecs_cons (specOf_SObject _)
      (setSpecs_cons (specOf_of_nil specOf_ObjectField0 _) (setSpecs_cons (specOf_Field _) (setSpecs_nil _)))))
  have haddr : a ++ b ++ [1] ++ [2] ++ [1, 3, xs.length] =
      a ++ (b ++ [1] ++ [2] ++ ([1] ++ ([3] ++ [xs.length]))) := by simp
  rw [haddr] at hc
  exact hc

/-- an array of inline objects -/
def arrayObjInlFacts (name : Str) (props : List CProperty) (flatten : Bool) (rulesI : J5V.Compile.Rules)
    (hI : rulesOk j5Env b!"j5.schema.v1.ObjectField" rulesI = true) (hname : okString name = true)
    (hps : ∀ p ∈ props, PropHas p) (rules : J5V.Compile.Rules)
    (h : rulesOk j5Env b!"j5.schema.v1.ArrayField" rules = true) :
    FieldFacts (.array (.objectInl name props flatten rulesI) rules) :=
  arrayFactsWith (objectInlFacts name props flatten rulesI hI hname hps) rfl rules (by
    intro sc pfx a b C hr hsc
    have hu := rulesOk_unpack h rulesSchema_Array schemaOf_ArrayRules
    have hfbR : findBlock wRules [cfOf sArrayField specArrayField (a ++ b)] =
        some (cfOf sArrayField specArrayField (a ++ b), [wRules]) :=
      findBlock_prop' (show aliasLookup wRules specArrayField.aliases = none by decide +kernel)
        (propInfo_hasProperty pi_Array_rules)
    have hfbI : findBlock wItems [cfOf sArrayField specArrayField (a ++ b)] =
        some (cfOf sArrayField specArrayField (a ++ b), [wItems]) :=
      findBlock_prop' (show aliasLookup wItems specArrayField.aliases = none by decide +kernel)
        (propInfo_hasProperty pi_ArrayField_items)
    -- the array's own rules
    have h1 := hr.rules (show wRules ∈ [wRules, wItems] by simp) rulesOK_Array hfbR pi_Array_rules
      specOf_ArrayRules (t := [false, true, false])
      (vs := [.absent, oneofMsg 15 2 (objFieldNode false .absent false .absent false), .absent]) rfl rfl rules
      hu.1 hu.2
    -- the item's lines, through `items.object`
    have hr1 := hr.child_touched [!rules.isEmpty, true, false] [rulesNode sArrayRules rules, .absent, .absent]
      (n := wItems) (show wItems ∈ [wRules, wItems] by simp) (by decide) hfbI pi_ArrayField_items specOf_Field
      rfl (by simp)
    have hfbK : findBlock wObject [cfOf sField specField (a ++ (b ++ [1]))] =
        some (cfOf sField specField (a ++ (b ++ [1])), [wObject]) :=
      findBlock_prop' (show aliasLookup wObject specField.aliases = none from rfl)
        (propInfo_hasProperty pi_Field_object)
    have hr2 := hr1.child_touched ((List.replicate 15 false).set 2 true) (List.replicate 15 .absent)
      (n := wObject) trivial (by decide) hfbK pi_Field_object (fun c => specOf_of_nil specOf_ObjectField0 c)
      rfl (by decide)
    -- the `field` blocks: resolved by the array block
    have hfb := findBlock_of_scopeAt hsc (List.mem_singleton.mpr rfl)
      (show aliasLookup wField specArrayField.aliases = some [wItems, wObject, wObject, b!"properties"]
        by decide +kernel)
    have hl : Lens (fun Y => C (some Y)) b := ⟨hr.get, hr.set⟩
    have h2 := objInl_body_exact (name := name) (props := props) (flatten := flatten) hI hname hps
      (hr2.mono (fun _ _ => trivial))
      (fun oI0 tI vsI hMI htI hvI xs =>
        arrEntry_exact hl hfb (tp := [!rules.isEmpty, true, false])
          (vsp := [rulesNode sArrayRules rules, .absent, .absent]) rfl (by simp) rfl rfl
          (by intro g hg; cases hg; rfl) hMI htI hvI xs)
    have hkey : pfx ++ [wItems] ++ [wObject] = pfx ++ [wItems, wObject] := by simp
    rw [hkey] at h2
    exact doBody_append h1 h2)

end J5V.Walker
