import J5V.Walker.PP.J5Tables
import J5V.Walker.PP.MkMsg
import J5V.Walker.PP.Rules
/-!
# Print/parse: tables of the `…Field_Rules` schemas (generated layout, kernel-checked facts)

For every field type `X`: the literal `sXRules` / `specXRules`, `schemaOf_XRules`, `specOf_XRules`,
`rulesOK_X : RulesSchemaOK sXRules specXRules`, `rulesSchema_X : rulesSchema j5Env "…XField" = "…XField_Rules"`
and `pi_X_rules : propInfo j5Env sXField "rules" = some (index, none, .container sXRules)`.
-/
namespace J5V.Walker

/-! ### `StringField_Rules` -/

def sStringRules : Schema := j5_schema_lit% "j5.schema.v1.StringField_Rules"
def specStringRules : BlockSpec := j5_spec_lit% "j5.schema.v1.StringField_Rules"
theorem schemaOf_StringRules : j5Env.schemaOf b!"j5.schema.v1.StringField_Rules" = sStringRules := by
  rw [j5Env_nf]; decide +kernel
theorem specOf_StringRules (c : Addr) : specOf j5Env ⟨c, .msg sStringRules⟩ = .ok specStringRules := by
  apply specOf_of_nil; rw [j5Env_nf]; decide +kernel
theorem rulesOK_String : RulesSchemaOK sStringRules specStringRules :=
  ⟨by decide +kernel, by decide +kernel, by decide +kernel⟩
theorem rulesSchema_String : rulesSchema j5Env b!"j5.schema.v1.StringField" = b!"j5.schema.v1.StringField_Rules" := by
  rw [j5Env_nf]; decide +kernel

/-! ### `BoolField_Rules` -/

def sBoolRules : Schema := j5_schema_lit% "j5.schema.v1.BoolField_Rules"
def specBoolRules : BlockSpec := j5_spec_lit% "j5.schema.v1.BoolField_Rules"
theorem schemaOf_BoolRules : j5Env.schemaOf b!"j5.schema.v1.BoolField_Rules" = sBoolRules := by
  rw [j5Env_nf]; decide +kernel
theorem specOf_BoolRules (c : Addr) : specOf j5Env ⟨c, .msg sBoolRules⟩ = .ok specBoolRules := by
  apply specOf_of_nil; rw [j5Env_nf]; decide +kernel
theorem rulesOK_Bool : RulesSchemaOK sBoolRules specBoolRules :=
  ⟨by decide +kernel, by decide +kernel, by decide +kernel⟩
theorem rulesSchema_Bool : rulesSchema j5Env b!"j5.schema.v1.BoolField" = b!"j5.schema.v1.BoolField_Rules" := by
  rw [j5Env_nf]; decide +kernel

/-! ### `BytesField_Rules` -/

def sBytesRules : Schema := j5_schema_lit% "j5.schema.v1.BytesField_Rules"
def specBytesRules : BlockSpec := j5_spec_lit% "j5.schema.v1.BytesField_Rules"
theorem schemaOf_BytesRules : j5Env.schemaOf b!"j5.schema.v1.BytesField_Rules" = sBytesRules := by
  rw [j5Env_nf]; decide +kernel
theorem specOf_BytesRules (c : Addr) : specOf j5Env ⟨c, .msg sBytesRules⟩ = .ok specBytesRules := by
  apply specOf_of_nil; rw [j5Env_nf]; decide +kernel
theorem rulesOK_Bytes : RulesSchemaOK sBytesRules specBytesRules :=
  ⟨by decide +kernel, by decide +kernel, by decide +kernel⟩
theorem rulesSchema_Bytes : rulesSchema j5Env b!"j5.schema.v1.BytesField" = b!"j5.schema.v1.BytesField_Rules" := by
  rw [j5Env_nf]; decide +kernel

/-! ### `DateField_Rules` -/

def sDateRules : Schema := j5_schema_lit% "j5.schema.v1.DateField_Rules"
def specDateRules : BlockSpec := j5_spec_lit% "j5.schema.v1.DateField_Rules"
theorem schemaOf_DateRules : j5Env.schemaOf b!"j5.schema.v1.DateField_Rules" = sDateRules := by
  rw [j5Env_nf]; decide +kernel
theorem specOf_DateRules (c : Addr) : specOf j5Env ⟨c, .msg sDateRules⟩ = .ok specDateRules := by
  apply specOf_of_nil; rw [j5Env_nf]; decide +kernel
theorem rulesOK_Date : RulesSchemaOK sDateRules specDateRules :=
  ⟨by decide +kernel, by decide +kernel, by decide +kernel⟩
theorem rulesSchema_Date : rulesSchema j5Env b!"j5.schema.v1.DateField" = b!"j5.schema.v1.DateField_Rules" := by
  rw [j5Env_nf]; decide +kernel

/-! ### `DecimalField_Rules` -/

def sDecimalRules : Schema := j5_schema_lit% "j5.schema.v1.DecimalField_Rules"
def specDecimalRules : BlockSpec := j5_spec_lit% "j5.schema.v1.DecimalField_Rules"
theorem schemaOf_DecimalRules : j5Env.schemaOf b!"j5.schema.v1.DecimalField_Rules" = sDecimalRules := by
  rw [j5Env_nf]; decide +kernel
theorem specOf_DecimalRules (c : Addr) : specOf j5Env ⟨c, .msg sDecimalRules⟩ = .ok specDecimalRules := by
  apply specOf_of_nil; rw [j5Env_nf]; decide +kernel
theorem rulesOK_Decimal : RulesSchemaOK sDecimalRules specDecimalRules :=
  ⟨by decide +kernel, by decide +kernel, by decide +kernel⟩
theorem rulesSchema_Decimal : rulesSchema j5Env b!"j5.schema.v1.DecimalField" = b!"j5.schema.v1.DecimalField_Rules" := by
  rw [j5Env_nf]; decide +kernel

/-! ### `TimestampField_Rules` -/

def sTimestampRules : Schema := j5_schema_lit% "j5.schema.v1.TimestampField_Rules"
def specTimestampRules : BlockSpec := j5_spec_lit% "j5.schema.v1.TimestampField_Rules"
theorem schemaOf_TimestampRules : j5Env.schemaOf b!"j5.schema.v1.TimestampField_Rules" = sTimestampRules := by
  rw [j5Env_nf]; decide +kernel
theorem specOf_TimestampRules (c : Addr) : specOf j5Env ⟨c, .msg sTimestampRules⟩ = .ok specTimestampRules := by
  apply specOf_of_nil; rw [j5Env_nf]; decide +kernel
theorem rulesOK_Timestamp : RulesSchemaOK sTimestampRules specTimestampRules :=
  ⟨by decide +kernel, by decide +kernel, by decide +kernel⟩
theorem rulesSchema_Timestamp : rulesSchema j5Env b!"j5.schema.v1.TimestampField" = b!"j5.schema.v1.TimestampField_Rules" := by
  rw [j5Env_nf]; decide +kernel

/-! ### `IntegerField_Rules` -/

def sIntegerRules : Schema := j5_schema_lit% "j5.schema.v1.IntegerField_Rules"
def specIntegerRules : BlockSpec := j5_spec_lit% "j5.schema.v1.IntegerField_Rules"
theorem schemaOf_IntegerRules : j5Env.schemaOf b!"j5.schema.v1.IntegerField_Rules" = sIntegerRules := by
  rw [j5Env_nf]; decide +kernel
theorem specOf_IntegerRules (c : Addr) : specOf j5Env ⟨c, .msg sIntegerRules⟩ = .ok specIntegerRules := by
  apply specOf_of_nil; rw [j5Env_nf]; decide +kernel
theorem rulesOK_Integer : RulesSchemaOK sIntegerRules specIntegerRules :=
  ⟨by decide +kernel, by decide +kernel, by decide +kernel⟩
theorem rulesSchema_Integer : rulesSchema j5Env b!"j5.schema.v1.IntegerField" = b!"j5.schema.v1.IntegerField_Rules" := by
  rw [j5Env_nf]; decide +kernel

/-! ### `FloatField_Rules` -/

def sFloatRules : Schema := j5_schema_lit% "j5.schema.v1.FloatField_Rules"
def specFloatRules : BlockSpec := j5_spec_lit% "j5.schema.v1.FloatField_Rules"
theorem schemaOf_FloatRules : j5Env.schemaOf b!"j5.schema.v1.FloatField_Rules" = sFloatRules := by
  rw [j5Env_nf]; decide +kernel
theorem specOf_FloatRules (c : Addr) : specOf j5Env ⟨c, .msg sFloatRules⟩ = .ok specFloatRules := by
  apply specOf_of_nil; rw [j5Env_nf]; decide +kernel
theorem rulesOK_Float : RulesSchemaOK sFloatRules specFloatRules :=
  ⟨by decide +kernel, by decide +kernel, by decide +kernel⟩
theorem rulesSchema_Float : rulesSchema j5Env b!"j5.schema.v1.FloatField" = b!"j5.schema.v1.FloatField_Rules" := by
  rw [j5Env_nf]; decide +kernel

/-! ### `ObjectField_Rules` -/

def sObjectRules : Schema := j5_schema_lit% "j5.schema.v1.ObjectField_Rules"
def specObjectRules : BlockSpec := j5_spec_lit% "j5.schema.v1.ObjectField_Rules"
theorem schemaOf_ObjectRules : j5Env.schemaOf b!"j5.schema.v1.ObjectField_Rules" = sObjectRules := by
  rw [j5Env_nf]; decide +kernel
theorem specOf_ObjectRules (c : Addr) : specOf j5Env ⟨c, .msg sObjectRules⟩ = .ok specObjectRules := by
  apply specOf_of_nil; rw [j5Env_nf]; decide +kernel
theorem rulesOK_Object : RulesSchemaOK sObjectRules specObjectRules :=
  ⟨by decide +kernel, by decide +kernel, by decide +kernel⟩
theorem rulesSchema_Object : rulesSchema j5Env b!"j5.schema.v1.ObjectField" = b!"j5.schema.v1.ObjectField_Rules" := by
  rw [j5Env_nf]; decide +kernel

/-! ### `EnumField_Rules` -/

def sEnumRules : Schema := j5_schema_lit% "j5.schema.v1.EnumField_Rules"
def specEnumRules : BlockSpec := j5_spec_lit% "j5.schema.v1.EnumField_Rules"
theorem schemaOf_EnumRules : j5Env.schemaOf b!"j5.schema.v1.EnumField_Rules" = sEnumRules := by
  rw [j5Env_nf]; decide +kernel
theorem specOf_EnumRules (c : Addr) : specOf j5Env ⟨c, .msg sEnumRules⟩ = .ok specEnumRules := by
  apply specOf_of_nil; rw [j5Env_nf]; decide +kernel
theorem rulesOK_Enum : RulesSchemaOK sEnumRules specEnumRules :=
  ⟨by decide +kernel, by decide +kernel, by decide +kernel⟩
theorem rulesSchema_Enum : rulesSchema j5Env b!"j5.schema.v1.EnumField" = b!"j5.schema.v1.EnumField_Rules" := by
  rw [j5Env_nf]; decide +kernel

/-! ### `ArrayField_Rules` -/

def sArrayRules : Schema := j5_schema_lit% "j5.schema.v1.ArrayField_Rules"
def specArrayRules : BlockSpec := j5_spec_lit% "j5.schema.v1.ArrayField_Rules"
theorem schemaOf_ArrayRules : j5Env.schemaOf b!"j5.schema.v1.ArrayField_Rules" = sArrayRules := by
  rw [j5Env_nf]; decide +kernel
theorem specOf_ArrayRules (c : Addr) : specOf j5Env ⟨c, .msg sArrayRules⟩ = .ok specArrayRules := by
  apply specOf_of_nil; rw [j5Env_nf]; decide +kernel
theorem rulesOK_Array : RulesSchemaOK sArrayRules specArrayRules :=
  ⟨by decide +kernel, by decide +kernel, by decide +kernel⟩
theorem rulesSchema_Array : rulesSchema j5Env b!"j5.schema.v1.ArrayField" = b!"j5.schema.v1.ArrayField_Rules" := by
  rw [j5Env_nf]; decide +kernel

/-! ### `MapField_Rules` -/

def sMapRules : Schema := j5_schema_lit% "j5.schema.v1.MapField_Rules"
def specMapRules : BlockSpec := j5_spec_lit% "j5.schema.v1.MapField_Rules"
theorem schemaOf_MapRules : j5Env.schemaOf b!"j5.schema.v1.MapField_Rules" = sMapRules := by
  rw [j5Env_nf]; decide +kernel
theorem specOf_MapRules (c : Addr) : specOf j5Env ⟨c, .msg sMapRules⟩ = .ok specMapRules := by
  apply specOf_of_nil; rw [j5Env_nf]; decide +kernel
theorem rulesOK_Map : RulesSchemaOK sMapRules specMapRules :=
  ⟨by decide +kernel, by decide +kernel, by decide +kernel⟩
theorem rulesSchema_Map : rulesSchema j5Env b!"j5.schema.v1.MapField" = b!"j5.schema.v1.MapField_Rules" := by
  rw [j5Env_nf]; decide +kernel

/-! ### `OneofField_Rules` -/

def sOneofRules : Schema := j5_schema_lit% "j5.schema.v1.OneofField_Rules"
def specOneofRules : BlockSpec := j5_spec_lit% "j5.schema.v1.OneofField_Rules"
theorem schemaOf_OneofRules : j5Env.schemaOf b!"j5.schema.v1.OneofField_Rules" = sOneofRules := by
  rw [j5Env_nf]; decide +kernel
theorem specOf_OneofRules (c : Addr) : specOf j5Env ⟨c, .msg sOneofRules⟩ = .ok specOneofRules := by
  apply specOf_of_nil; rw [j5Env_nf]; decide +kernel
theorem rulesOK_Oneof : RulesSchemaOK sOneofRules specOneofRules :=
  ⟨by decide +kernel, by decide +kernel, by decide +kernel⟩
theorem rulesSchema_Oneof : rulesSchema j5Env b!"j5.schema.v1.OneofField" = b!"j5.schema.v1.OneofField_Rules" := by
  rw [j5Env_nf]; decide +kernel

/-! ### `KeyField_Rules` -/

def sKeyRules : Schema := j5_schema_lit% "j5.schema.v1.KeyField_Rules"
def specKeyRules : BlockSpec := j5_spec_lit% "j5.schema.v1.KeyField_Rules"
theorem schemaOf_KeyRules : j5Env.schemaOf b!"j5.schema.v1.KeyField_Rules" = sKeyRules := by
  rw [j5Env_nf]; decide +kernel
theorem specOf_KeyRules (c : Addr) : specOf j5Env ⟨c, .msg sKeyRules⟩ = .ok specKeyRules := by
  apply specOf_of_nil; rw [j5Env_nf]; decide +kernel
theorem rulesOK_Key : RulesSchemaOK sKeyRules specKeyRules :=
  ⟨by decide +kernel, by decide +kernel, by decide +kernel⟩
theorem rulesSchema_Key : rulesSchema j5Env b!"j5.schema.v1.KeyField" = b!"j5.schema.v1.KeyField_Rules" := by
  rw [j5Env_nf]; decide +kernel

theorem pi_String_rules : propInfo j5Env sStringField wRules = some (1, none, .container sStringRules) := by
  rw [j5Env_nf]; decide +kernel
theorem pi_Bool_rules : propInfo j5Env sBoolField wRules = some (0, none, .container sBoolRules) := by
  rw [j5Env_nf]; decide +kernel
theorem pi_Bytes_rules : propInfo j5Env sBytesField wRules = some (0, none, .container sBytesRules) := by
  rw [j5Env_nf]; decide +kernel
theorem pi_Date_rules : propInfo j5Env sDateField wRules = some (0, none, .container sDateRules) := by
  rw [j5Env_nf]; decide +kernel
theorem pi_Decimal_rules : propInfo j5Env sDecimalField wRules = some (0, none, .container sDecimalRules) := by
  rw [j5Env_nf]; decide +kernel
theorem pi_Timestamp_rules : propInfo j5Env sTimestampField wRules = some (0, none, .container sTimestampRules) := by
  rw [j5Env_nf]; decide +kernel
theorem pi_Integer_rules : propInfo j5Env sIntegerField wRules = some (1, none, .container sIntegerRules) := by
  rw [j5Env_nf]; decide +kernel
theorem pi_Float_rules : propInfo j5Env sFloatField wRules = some (1, none, .container sFloatRules) := by
  rw [j5Env_nf]; decide +kernel
theorem pi_Object_rules : propInfo j5Env sObjectField wRules = some (2, none, .container sObjectRules) := by
  rw [j5Env_nf]; decide +kernel
theorem pi_Enum_rules : propInfo j5Env sEnumField wRules = some (2, none, .container sEnumRules) := by
  rw [j5Env_nf]; decide +kernel
theorem pi_Array_rules : propInfo j5Env sArrayField wRules = some (0, none, .container sArrayRules) := by
  rw [j5Env_nf]; decide +kernel
theorem pi_Map_rules : propInfo j5Env sMapField wRules = some (2, none, .container sMapRules) := by
  rw [j5Env_nf]; decide +kernel
theorem pi_Oneof_rules : propInfo j5Env sOneofField wRules = some (2, none, .container sOneofRules) := by
  rw [j5Env_nf]; decide +kernel
theorem pi_Key_rules : propInfo j5Env sKeyField wRules = some (0, none, .container sKeyRules) := by
  rw [j5Env_nf]; decide +kernel

end J5V.Walker
