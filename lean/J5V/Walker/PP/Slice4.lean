import J5V.Walker.PP.Slice3
import J5V.Walker.PP.Field2Coll
/-!
# Print/parse, fourth slice: + `array:ITEM`, `map:ITEM` of the item types of the third slice
-/
namespace J5V.Walker
open J5V.Bcl

/-- the third slice, and arrays / maps of it -/
def fieldOk4 : CField → Bool
  | .array items rules => rulesOk j5Env b!"j5.schema.v1.ArrayField" rules && !isCollection items && fieldOk3 items
  | .map items rules => rulesOk j5Env b!"j5.schema.v1.MapField" rules && !isCollection items && fieldOk3 items
  | f => fieldOk3 f

theorem fieldOk_of_fieldOk4 {f : CField} (h : fieldOk4 f = true) : fieldOk j5Env f = true := by
  cases f with
  | array items rules =>
    simp only [fieldOk4, Bool.and_eq_true] at h
    simp only [fieldOk, Bool.and_eq_true]
    exact ⟨h.1, fieldOk_of_fieldOk3 h.2⟩
  | map items rules =>
    simp only [fieldOk4, Bool.and_eq_true] at h
    simp only [fieldOk, Bool.and_eq_true]
    exact ⟨h.1, fieldOk_of_fieldOk3 h.2⟩
  | objectRef _ _ _ _ => exact fieldOk_of_fieldOk3 h
  | oneofRef _ _ _ _ => exact fieldOk_of_fieldOk3 h
  | enumRef _ _ _ _ => exact fieldOk_of_fieldOk3 h
  | string _ _ => exact fieldOk_of_fieldOk3 h
  | bool _ _ => exact fieldOk_of_fieldOk3 h
  | bytes _ => exact fieldOk_of_fieldOk3 h
  | date _ _ => exact fieldOk_of_fieldOk3 h
  | decimal _ _ => exact fieldOk_of_fieldOk3 h
  | timestamp _ => exact fieldOk_of_fieldOk3 h
  | any => rfl
  | integer _ _ _ => exact fieldOk_of_fieldOk3 h
  | float _ _ _ => exact fieldOk_of_fieldOk3 h
  | key _ _ _ _ => exact fieldOk_of_fieldOk3 h
  | _ => cases h

theorem facts4 {f : CField} (h : fieldOk4 f = true) : Nonempty (FieldFacts f) := by
  cases f with
  | array items rules =>
    simp only [fieldOk4, Bool.and_eq_true, Bool.not_eq_true'] at h
    obtain ⟨⟨hr, hnc⟩, hi⟩ := h
    obtain ⟨ffi, hb⟩ := facts3' hi
    exact ⟨arrayFacts ffi hnc (by rw [hb]; simp) rules hr⟩
  | map items rules =>
    simp only [fieldOk4, Bool.and_eq_true, Bool.not_eq_true'] at h
    obtain ⟨⟨hr, hnc⟩, hi⟩ := h
    obtain ⟨ffi⟩ := facts3 hi
    exact ⟨mapFacts ffi hnc rules hr⟩
  | objectRef _ _ _ _ => exact facts3 h
  | oneofRef _ _ _ _ => exact facts3 h
  | enumRef _ _ _ _ => exact facts3 h
  | string _ _ => exact facts3 h
  | bool _ _ => exact facts3 h
  | bytes _ => exact facts3 h
  | date _ _ => exact facts3 h
  | decimal _ _ => exact facts3 h
  | timestamp _ => exact facts3 h
  | any => exact facts3 h
  | integer _ _ _ => exact facts3 h
  | float _ _ _ => exact facts3 h
  | key _ _ _ _ => exact facts3 h
  | _ => cases h

/-- the fourth slice of `supported` -/
def supported4 : J5V.Compile.SrcFile → Bool := supportedBy fieldOk4

theorem supported4_supported {ast : J5V.Compile.SrcFile} (h : supported4 ast = true) : supported ast = true :=
  supportedBy_supported (fun _ => fieldOk_of_fieldOk4) h

/-- **print/parse, fourth slice**: `package`, imports, top-level objects whose properties are scalar fields
(with rules), references, and arrays / maps of those -/
theorem C07W_print_parse_slice4 (filename : Str) (ast : J5V.Compile.SrcFile) (h : supported4 ast = true) :
    walkSchema j5Env (toBcl ast) (stub j5Env filename) = .ok (toMsg filename ast) :=
  print_parse_by (fun _ => facts4) filename ast h

end J5V.Walker
