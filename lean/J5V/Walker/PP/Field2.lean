import J5V.Walker.PP.Reach
import J5V.Walker.PP.Lens
import J5V.Walker.PP.RulesTables
import J5V.Walker.PP.FieldRun
/-!
# Print/parse, second slice: the scalar field kinds WITH rules; the general shape of a field lemma

`FieldFacts f` is what the property-level lemma (`Props2.lean`) needs to know about a field:
* the member of `j5.schema.v1.Field` it selects (`kindIdx`, `kindSchema`, `kindSpec` and their tables),
* `fieldMsg j5Env f = oneofMsg 15 (kindIdx f) (typeVal f)`,
* `runQ`: the qualifier chain runs exactly inside the type's message, from the fresh message to `qualVal f`
  (scope: `outer ++ [type block]`, `outer` missing the names `qualNames f`),
* `runB`: the body lines `fieldBody f pfx ek` run exactly, from `qualVal f` to `typeVal f`, for EVERY way the
  lines reach the type block (`BodyReach`: directly, or through the prefix of an array / map item).
Adding a field kind = proving `FieldFacts` for it.
-/
namespace J5V.Walker
open J5V.Bcl

/-! ## Kind tables for every scalar constructor (whatever the rules) -/

def isScalarKind : CField → Bool
  | .string .. => true | .bool .. => true | .bytes .. => true | .date .. => true | .decimal .. => true
  | .timestamp .. => true | .any => true | .integer .. => true | .float .. => true | .key .. => true
  | _ => false

theorem kind_pi2 {f : CField} (h : isScalarKind f = true) :
    propInfo j5Env sField (fieldKind f) = some (kindIdx f, some gField, .container (kindSchema f)) := by
  cases f with
  | string r l => exact kind_pi (f := .string [] false) rfl
  | bool r l => exact kind_pi (f := .bool [] false) rfl
  | bytes r => exact kind_pi (f := .bytes []) rfl
  | date r l => exact kind_pi (f := .date [] false) rfl
  | decimal r l => exact kind_pi (f := .decimal [] false) rfl
  | timestamp r => exact kind_pi (f := .timestamp []) rfl
  | any => exact kind_pi (f := .any) rfl
  | integer fmt r l => exact kind_pi (f := .integer fmt [] false) rfl
  | float fmt r l => exact kind_pi (f := .float fmt [] false) rfl
  | key fmt ek r l => exact kind_pi (f := .key .none .nokey [] false) rfl
  | _ => cases h

theorem kind_spec2 {f : CField} (h : isScalarKind f = true) (c : Addr) :
    specOf j5Env ⟨c, .msg (kindSchema f)⟩ = .ok (kindSpec f) := by
  cases f with
  | string r l => exact kind_spec (f := .string [] false) rfl c
  | bool r l => exact kind_spec (f := .bool [] false) rfl c
  | bytes r => exact kind_spec (f := .bytes []) rfl c
  | date r l => exact kind_spec (f := .date [] false) rfl c
  | decimal r l => exact kind_spec (f := .decimal [] false) rfl c
  | timestamp r => exact kind_spec (f := .timestamp []) rfl c
  | any => exact kind_spec (f := .any) rfl c
  | integer fmt r l => exact kind_spec (f := .integer fmt [] false) rfl c
  | float fmt r l => exact kind_spec (f := .float fmt [] false) rfl c
  | key fmt ek r l => exact kind_spec (f := .key .none .nokey [] false) rfl c
  | _ => cases h

/-! ## The general shape -/

/-- the type block of `f` at `d` -/
abbrev tcfOf (f : CField) (d : Addr) : ContainerField := cfOf (kindSchema f) (kindSpec f) d

/-- where the type block sits in the scope the body runs in: behind blocks (`pre`) that do not know the
block keywords of the field (`field`, `option`), followed by the blocks its qualifiers added (`tailP`) -/
def ScopeAt (sc : Scope) (tcf : ContainerField) (blockNames : List Str) (tailP : List ContainerField → Prop) :
    Prop :=
  ∃ pre tail, sc.blockSet = pre ++ tcf :: tail ∧ (∀ kw ∈ blockNames, ∀ o ∈ pre, Misses o kw) ∧ tailP tail

/-- the qualifier chain of `f`, from the fresh type message to `qv` -/
def FieldRunQ (f : CField) (qualNames : List Str) (tailP : Addr → List ContainerField → Prop) (qv : Node) : Prop :=
  ∀ (outer : List ContainerField) (root : Option ContainerField) (d : Addr),
    (∀ n ∈ qualNames, ∀ o ∈ outer, Misses o n) →
    ∃ (sc2 : Scope) (spec2 : BlockSpec) (tail : List ContainerField),
      sc2.blockSet = outer ++ (tcfOf f d :: tail) ∧ tailP d tail ∧
      Exact (walkQualifiers j5Env (fieldQuals f) (typeScope outer (tcfOf f d) root) (kindSpec f)) d
        (freshMsg (kindSchema f)) (sc2, spec2) qv

/-- the body lines of `f` (not as a directly typed entity key: `entityKey = false`), from `qv` to `tv`,
however they reach the type block -/
def FieldRunB (f : CField) (bodyNames blockNames : List Str) (tailP : Addr → List ContainerField → Prop)
    (qv tv : Node) : Prop :=
  ∀ (sc : Scope) (pfx : List Str) (a b : Addr) (C : Option Node → Node),
    BodyReach sc pfx (kindSchema f) (kindSpec f) a b C (· ∈ bodyNames) →
    ScopeAt sc (tcfOf f (a ++ b)) blockNames (tailP (a ++ b)) →
    Exact (doBody j5Env sc (fieldBody f pfx false)) a (C (some qv)) () (C (some tv))

/-- every name a field's qualifiers / body lines look up first (the blocks a field is written in — property,
entity key, array / map — must not know them) -/
def fieldLineNames : List Str :=
  [b!"format", wRules, b!"ref", b!"flatten", wObject, wOneof, wEnum, wItems, wItemSchema, b!"listRules",
   b!"entity", b!"foreign", wField, wOption]

/-- what the property-level lemma needs to know about the field `f` -/
structure FieldFacts (f : CField) where
  qualNames : List Str
  bodyNames : List Str
  /-- the keywords of the block statements in the body (`field`, `option`) -/
  blockNames : List Str
  /-- the blocks the qualifier chain leaves in the scope behind the type block -/
  tailP : Addr → List ContainerField → Prop
  qualVal : Node
  typeVal : Node
  pi : propInfo j5Env sField (fieldKind f) = some (kindIdx f, some gField, .container (kindSchema f))
  spec : ∀ c, specOf j5Env ⟨c, .msg (kindSchema f)⟩ = .ok (kindSpec f)
  specName : (kindSpec f).name = none
  specTypeSelect : (kindSpec f).typeSelect = none
  msg : fieldMsg j5Env f = oneofMsg 15 (kindIdx f) typeVal
  namesSub : ∀ n, n ∈ qualNames ∨ n ∈ bodyNames → n ∈ fieldLineNames
  /-- the qualifiers of a field that is not a collection only look up `format` / `ref` -/
  qualSub : isCollection f = false → ∀ n ∈ qualNames, n = b!"format" ∨ n = b!"ref"
  blockSub : ∀ kw ∈ blockNames, kw = wField ∨ kw = wOption
  /-- the names the lines use are found in the type block -/
  found : ∀ d, ∀ n ∈ bodyNames, (findBlock n [tcfOf f d]).isSome = true
  runQ : FieldRunQ f qualNames tailP qualVal
  runB : FieldRunB f bodyNames blockNames tailP qualVal typeVal

/-! ## `rulesOk` unpacked -/

theorem rulesOk_unpack {ts nR : Str} {sR : Schema} {rules : J5V.Compile.Rules}
    (h : rulesOk j5Env ts rules = true) (hn : rulesSchema j5Env ts = nR) (hs : j5Env.schemaOf nR = sR) :
    rules.all (fun r => ruleOk sR r && strOk r.lit) = true ∧ distinct (rules.map (·.name)) = true := by
  simp only [rulesOk, hn, hs, Bool.and_eq_true] at h
  exact h

theorem rulesVals_eq {ts nR : Str} {sR : Schema} (hn : rulesSchema j5Env ts = nR) (hs : j5Env.schemaOf nR = sR)
    (rules : J5V.Compile.Rules) :
    rulesVals j5Env ts rules =
      if rules.isEmpty then [] else [(wRules, mkMsgS sR (rules.map (ruleVal sR)))] := by
  simp only [rulesVals, hn, hs, mkMsg_eq_mkMsgS hs]

/-- a rules schema without properties admits no rule -/
theorem rules_nil_of_no_props {sR : Schema} (hp : sR.props = []) {rules : J5V.Compile.Rules}
    (h : rules.all (fun r => ruleOk sR r && strOk r.lit) = true) : rules = [] := by
  cases rules with
  | nil => rfl
  | cons r rest =>
    simp only [List.all_cons, Bool.and_eq_true, ruleOk, hp, findProp] at h
    exact absurd h.1.1.2 (by simp)

/-! ## The sub-fragment: scalar kinds with rules -/

def fieldOk2 : CField → Bool
  | .string rules l => !l && rulesOk j5Env (typeSchema (.string rules l)) rules
  | .bool rules l => !l && rulesOk j5Env (typeSchema (.bool rules l)) rules
  | .bytes rules => rulesOk j5Env (typeSchema (.bytes rules)) rules
  | .date rules l => !l && rulesOk j5Env (typeSchema (.date rules l)) rules
  | .decimal rules l => !l && rulesOk j5Env (typeSchema (.decimal rules l)) rules
  | .timestamp rules => rulesOk j5Env (typeSchema (.timestamp rules)) rules
  | .any => true
  | .integer fmt rules l => !l && rulesOk j5Env (typeSchema (.integer fmt rules l)) rules
  | .float fmt rules l => !l && rulesOk j5Env (typeSchema (.float fmt rules l)) rules
  | .key fmt ek rules l =>
    !l && rulesOk j5Env (typeSchema (.key fmt ek rules l)) rules && keyFmtOk fmt && entKeyOk ek
  | _ => false

/-- the slot of the `rules` property -/
abbrev rulesNode (sR : Schema) (rules : J5V.Compile.Rules) : Node := contSlot sR (rules.map (ruleVal sR))

end J5V.Walker
