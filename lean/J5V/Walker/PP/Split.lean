import J5V.Walker.PP.GenWalk
/-!
# Print/parse: a scalar assigned to a container with a scalar split (`object:foo.v1.Bar`)

* `stringsSplit s "." = splitOnByte 46 s`, `stringsJoin "." (splitOnByte 46 s) = s`, the split of
  `pkg ++ "." ++ schema`;
* `setContainerFromScalar_split1`: the split `{delimiter, rightToLeft, required = [req], optional = [],
  remainder = rem}` of `j5.schema.v1.Ref` / `EntityRef`: the LAST part goes to `req`, the parts before it,
  joined again, to `rem` (nothing if there is none);
* `setAttribute_container`: `SetAttribute` of a scalar into a container-typed property.
-/
namespace J5V.Walker
open J5V.Bcl

/-! ## `strings.Split` / `strings.Join` on one byte -/

theorem splitSepAux_byte (c : Nat) (s : Str) (cur : Str) :
    splitSepAux [c] s 0 cur =
      match J5V.Compile.splitOnByte c s with
      | p :: ps => (cur.reverse ++ p) :: ps
      | [] => [] := by
  induction s generalizing cur with
  | nil => simp [splitSepAux, J5V.Compile.splitOnByte]
  | cons v rest ih =>
    simp only [splitSepAux, J5V.Compile.splitOnByte]
    by_cases hv : v = c
    · subst hv
      have hp : ([v] : List Nat).isPrefixOf (v :: rest) = true := by simp [List.isPrefixOf]
      rw [if_pos hp, if_pos rfl]
      have := ih []
      simp only [List.length_singleton, Nat.sub_self, List.reverse_nil, List.nil_append] at this ⊢
      rw [this]
      cases hs : J5V.Compile.splitOnByte v rest with
      | nil => exact absurd hs (splitOnByte_ne_nil v rest)
      | cons p ps => simp
    · have hp : ([c] : List Nat).isPrefixOf (v :: rest) = false := by
        simp [List.isPrefixOf]
        exact fun e => hv e.symm
      rw [if_neg (by rw [hp]; simp), if_neg hv, ih (v :: cur)]
      cases hs : J5V.Compile.splitOnByte c rest with
      | nil => exact absurd hs (splitOnByte_ne_nil c rest)
      | cons p ps => simp

theorem stringsSplit_byte (c : Nat) (s : Str) : stringsSplit s [c] = J5V.Compile.splitOnByte c s := by
  simp only [stringsSplit, List.isEmpty_cons, Bool.false_eq_true, if_false]
  rw [splitSepAux_byte]
  cases hs : J5V.Compile.splitOnByte c s with
  | nil => exact absurd hs (splitOnByte_ne_nil c s)
  | cons p ps => simp

theorem stringsJoin_eq_joinWith (sep : Str) (l : List Str) : stringsJoin sep l = joinWith sep l := by
  induction l with
  | nil => rfl
  | cons a rest ih =>
    cases rest with
    | nil => rfl
    | cons b rest => simp only [stringsJoin, joinWith]; rw [ih]

theorem stringsJoin_split (c : Nat) (s : Str) : stringsJoin [c] (J5V.Compile.splitOnByte c s) = s := by
  rw [stringsJoin_eq_joinWith, joinWith_splitOnByte]

theorem splitOnByte_no_sep {c : Nat} {s : Str} (h : ∀ b ∈ s, b ≠ c) : J5V.Compile.splitOnByte c s = [s] := by
  induction s with
  | nil => rfl
  | cons v rest ih =>
    simp only [J5V.Compile.splitOnByte]
    rw [if_neg (h v (by simp)), ih (fun b hb => h b (List.mem_cons_of_mem _ hb))]

theorem splitOnByte_append_sep (c : Nat) (a b : Str) :
    J5V.Compile.splitOnByte c (a ++ c :: b) = J5V.Compile.splitOnByte c a ++ J5V.Compile.splitOnByte c b := by
  induction a with
  | nil =>
    simp only [List.nil_append, J5V.Compile.splitOnByte, if_true]
    rfl
  | cons v rest ih =>
    simp only [List.cons_append, J5V.Compile.splitOnByte]
    by_cases hv : v = c
    · rw [if_pos hv, if_pos hv, ih]; rfl
    · rw [if_neg hv, if_neg hv, ih]
      cases hs : J5V.Compile.splitOnByte c rest with
      | nil => exact absurd hs (splitOnByte_ne_nil c rest)
      | cons p ps => rfl

/-- the parts of `pkg.Schema` / `Schema` -/
theorem split_refString {pkg schema : Str} (hs : isIdent schema = true) :
    stringsSplit (refString pkg schema) [46] =
      (if pkg = [] then [] else J5V.Compile.splitOnByte 46 pkg) ++ [schema] := by
  rw [stringsSplit_byte]
  unfold refString
  by_cases hp : pkg = []
  · rw [if_pos hp, if_pos hp, List.nil_append, splitOnByte_no_sep (isIdent_no_dot hs)]
  · rw [if_neg hp, if_neg hp]
    show J5V.Compile.splitOnByte 46 (pkg ++ [46] ++ schema) = _
    rw [List.append_assoc, List.singleton_append, splitOnByte_append_sep,
      splitOnByte_no_sep (isIdent_no_dot hs)]

theorem isDotted_refString {pkg schema : Str} (hs : isIdent schema = true) (hp : pkg = [] ∨ isDotted pkg = true) :
    isDotted (refString pkg schema) = true := by
  have hsplit := split_refString (pkg := pkg) hs
  rw [stringsSplit_byte] at hsplit
  unfold isDotted
  rw [hsplit]
  by_cases hpe : pkg = []
  · simp [hpe, hs]
  · rcases hp with hp | hp
    · exact absurd hp hpe
    · simp only [if_neg hpe, List.all_append, List.all_cons, List.all_nil, Bool.and_true, Bool.and_eq_true]
      exact ⟨hp, hs⟩

/-! ## `setContainerFromScalar` with the split of `Ref` -/

theorem allAsString_strs (parts : List Str) (sp : Span) (a : Addr) (X : Node) :
    Exact (allAsString (parts.map fun s => AV.str s sp)) a X parts X := by
  induction parts with
  | nil => exact Exact.pure _ _ _
  | cons p rest ih =>
    simp only [List.map_cons, allAsString, AV.asString]
    exact Exact.bind ih (Exact.pure _ _ _)

/-- the split `{delimiter, rightToLeft, [req], [], rem}`: last part → `req`, the parts before → `rem` -/
theorem setContainerFromScalar_split1 {env : Env} {fuel : Nat} {sc : Scope} {bs : BlockSpec} {val : AV}
    {delim : Str} {req rem : PathSpec} {s : Str} {parts : List Str} {lastPart : Str} {a : Addr}
    {X X1 X2 : Node}
    (hss : bs.scalarSplit = some ⟨some delim, true, [req], [], some rem⟩)
    (hstr : val.asString = some s)
    (hsplit : stringsSplit s delim = parts ++ [lastPart])
    (hreq : Exact (setAttribute env fuel sc req [] (.str lastPart val.span) false) a X () X1)
    (hrem : if parts = [] then X2 = X1
      else ∀ sp, Exact (setAttribute env fuel sc rem [] (.str (stringsJoin delim parts) sp) false) a X1 () X2) :
    Exact (setContainerFromScalar env (fuel + 1) sc bs val) a X () X2 := by
  rw [setContainerFromScalar, hss]
  dsimp only
  rw [hstr]
  dsimp only
  refine Exact.bind (Exact.pure _ _ _) ?_
  rw [hsplit]
  simp only [List.map_append, List.map_cons, List.map_nil, List.reverse_append, List.reverse_cons,
    List.reverse_nil, List.nil_append, List.singleton_append, List.length_cons,
    List.length_nil, List.take_succ_cons, List.take_zero, List.drop_succ_cons, List.drop_zero, if_true,
    Nat.zero_add]
  rw [if_neg (by simp)]
  simp only [forEach2]
  refine Exact.bind (Exact.bind hreq (Exact.pure _ _ _)) ?_
  by_cases hp : parts = []
  · subst hp
    rw [if_pos rfl] at hrem
    subst hrem
    simp only [List.map_nil, List.reverse_nil, List.isEmpty_nil, if_true]
    exact Exact.pure _ _ _
  · rw [if_neg hp] at hrem
    have hne : (parts.map fun s => AV.str s val.span).reverse.isEmpty = false := by
      cases parts with
      | nil => exact absurd rfl hp
      | cons p rest => simp
    have hlen : (parts.map fun s => AV.str s val.span).reverse.length > 0 := by
      cases parts with
      | nil => exact absurd rfl hp
      | cons p rest => simp
    rw [if_neg (by rw [hne]; simp)]
    simp only [hlen, if_true, forEach2]
    refine Exact.bind (Exact.pure _ _ _) ?_
    rw [if_neg (by rw [hne]; simp)]
    simp only [List.reverse_reverse]
    refine Exact.bind (allAsString_strs parts val.span a X1) ?_
    cases parts with
    | nil => exact absurd rfl hp
    | cons p rest =>
      simp only [List.map_cons, List.head?_cons]
      cases hl : (AV.str p val.span :: rest.map fun s => AV.str s val.span).getLast? with
      | none => simp at hl
      | some last => exact hrem _

/-- `SetAttribute` of a scalar into a container-typed property: the container is entered (a second
walk of the name: the cached wrapper) and set from the scalar -/
theorem setAttribute_container {env : Env} {fuel : Nat} {sc ps cs : Scope} {path : PathSpec} {ref : List Ident}
    {val : AV} {pre : List PathElement} {last : PathElement} {a : Addr} {X X1 X2 X3 X4 : Node}
    {f : Addr} {s' : Schema}
    (hfp : combinePath path ref = pre ++ [last])
    (hws : Exact (walkScope env sc pre) a X ps X1)
    (hsf : Exact (scopeField env ps last.name false) a X1 ⟨f, .container s'⟩ X2)
    (hcb : Exact (childBlock env ps last.name) a X2 cs X3)
    (hset : Exact (setContainerFromScalar env fuel cs (withScopeSpec cs) val) a X3 () X4) :
    Exact (setAttribute env (fuel + 1) sc path ref val false) a X () X4 := by
  rw [setAttribute]
  dsimp only
  rw [hfp]
  rw [if_neg (by simp), List.getLast?_concat, List.dropLast_concat]
  dsimp only
  refine Exact.bind hws ?_
  refine Exact.bind (hsf.tryCatch _) ?_
  dsimp only [Bool.false_eq_true, if_false]
  refine Exact.bind (hcb.tryCatch _) ?_
  exact hset

end J5V.Walker
