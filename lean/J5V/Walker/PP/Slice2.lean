import J5V.Walker.PP.SliceGen
/-!
# Print/parse, second slice: scalar fields WITH rules

`supported2` = `supportedBy fieldOk2`: the first slice with `rules.NAME = LIT` lines on the scalar fields
(every rule a property of the type's rules schema with a literal the walker converts: `rulesOk`).
-/
namespace J5V.Walker
open J5V.Bcl

theorem fieldOk_of_fieldOk2 {f : CField} (h : fieldOk2 f = true) : fieldOk j5Env f = true := by
  cases f with
  | key fmt ek rules l => exact h
  | string _ _ => exact h
  | bool _ _ => exact h
  | bytes _ => exact h
  | date _ _ => exact h
  | decimal _ _ => exact h
  | timestamp _ => exact h
  | any => rfl
  | integer _ _ _ => exact h
  | float _ _ _ => exact h
  | _ => cases h

/-- the second slice of `supported` -/
def supported2 : J5V.Compile.SrcFile → Bool := supportedBy fieldOk2

theorem supported2_supported {ast : J5V.Compile.SrcFile} (h : supported2 ast = true) : supported ast = true :=
  supportedBy_supported (fun _ => fieldOk_of_fieldOk2) h

/-- **print/parse, second slice**: `package`, imports, top-level objects whose properties are scalar
fields with rules -/
theorem C07W_print_parse_slice2 (filename : Str) (ast : J5V.Compile.SrcFile) (h : supported2 ast = true) :
    walkSchema j5Env (toBcl ast) (stub j5Env filename) = .ok (toMsg filename ast) :=
  print_parse_by (fun _ => scalarFacts) filename ast h

end J5V.Walker
