import J5V.Walker.PP.Slice4
import J5V.Walker.PP.Field2Enum
import J5V.Walker.PP.Field2ArrObj
/-!
# Print/parse, fifth slice: + inline object / oneof / enum fields (the recursion over the nested AST)

`fieldOk5` accepts what `fieldOk j5Env` accepts (`fieldOk5_eq`); written out so that the recursion of the
proofs is the recursion of the definition.
`facts5` / `propHas5` / `propsHas5`: `FieldFacts` for every such field, by mutual structural recursion.
-/
namespace J5V.Walker
open J5V.Bcl

def isObjectInl : CField → Bool
  | .objectInl .. => true
  | _ => false

mutual
def fieldOk5 : CField → Bool
  | .objectInl name props _ rules =>
    rulesOk j5Env b!"j5.schema.v1.ObjectField" rules && okString name && propsOk5 props
  | .oneofInl name props rules l =>
    !l && rulesOk j5Env b!"j5.schema.v1.OneofField" rules && okString name && propsOk5 props
  | .enumInl e rules lr =>
    rulesOk j5Env b!"j5.schema.v1.EnumField" rules && listRulesOk lr && enumDeclOk false e
  | .array items rules =>
    rulesOk j5Env b!"j5.schema.v1.ArrayField" rules && !isCollection items && fieldOk5 items
  | .map items rules => rulesOk j5Env b!"j5.schema.v1.MapField" rules && !isCollection items && fieldOk5 items
  | .objectRef pkg schema fl rules => fieldOk3 (.objectRef pkg schema fl rules)
  | .oneofRef pkg schema rules l => fieldOk3 (.oneofRef pkg schema rules l)
  | .enumRef pkg schema rules lr => fieldOk3 (.enumRef pkg schema rules lr)
  | .string rules l => fieldOk3 (.string rules l)
  | .bool rules l => fieldOk3 (.bool rules l)
  | .bytes rules => fieldOk3 (.bytes rules)
  | .date rules l => fieldOk3 (.date rules l)
  | .decimal rules l => fieldOk3 (.decimal rules l)
  | .timestamp rules => fieldOk3 (.timestamp rules)
  | .any => true
  | .integer fmt rules l => fieldOk3 (.integer fmt rules l)
  | .float fmt rules l => fieldOk3 (.float fmt rules l)
  | .key fmt ek rules l => fieldOk3 (.key fmt ek rules l)

def propOk5 : CProperty → Bool
  | .mk name _ _ f => isIdent name && fieldOk5 f

def propsOk5 : List CProperty → Bool
  | [] => true
  | p :: ps => propOk5 p && propsOk5 ps
end

/-- the block keywords of a field -/
def blockNamesOf : CField → List Str
  | .objectInl .. => [wField]
  | .oneofInl .. => [wOption]
  | .enumInl .. => [wOption]
  | .array items _ => blockNamesOf items
  | .map items _ => blockNamesOf items
  | _ => []

theorem blockNamesOf_noField {items : CField} (hc : isCollection items = false) (ho : isObjectInl items = false) :
    wField ∉ blockNamesOf items := by
  cases items <;> first | (cases hc; done) | (cases ho; done) | (simp [blockNamesOf]; done) | (simp only [blockNamesOf, List.mem_singleton]; decide)

mutual
theorem facts5 : (f : CField) → fieldOk5 f = true → ∃ ff : FieldFacts f, ff.blockNames = blockNamesOf f
  | .objectInl name props flatten rules, h => by
    simp only [fieldOk5, Bool.and_eq_true] at h
    exact ⟨objectInlFacts name props flatten rules h.1.1 h.1.2 (propsHas5 props h.2), rfl⟩
  | .oneofInl name props rules l, h => by
    simp only [fieldOk5, Bool.and_eq_true, Bool.not_eq_true'] at h
    obtain ⟨⟨⟨hl, hr⟩, hname⟩, hps⟩ := h
    have hu := rulesOk_unpack hr rulesSchema_Oneof schemaOf_OneofRules
    have hnil := rules_nil_of_no_props (sR := sOneofRules) (by decide +kernel) hu.1
    subst hnil
    subst hl
    exact ⟨oneofInlFacts name props hname (propsHas5 props hps), rfl⟩
  | .enumInl e rules lr, h => by
    simp only [fieldOk5, Bool.and_eq_true] at h
    exact ⟨enumInlFacts e rules lr h.1.1 h.1.2 h.2, rfl⟩
  | .array items rules, h => by
    simp only [fieldOk5, Bool.and_eq_true, Bool.not_eq_true'] at h
    obtain ⟨⟨hr, hnc⟩, hi⟩ := h
    cases hio : isObjectInl items with
    | false =>
      obtain ⟨ffi, hb⟩ := facts5 items hi
      exact ⟨arrayFacts ffi hnc (by rw [hb]; exact blockNamesOf_noField hnc hio) rules hr, hb⟩
    | true =>
      cases items with
      | objectInl name props flatten rulesI =>
        simp only [fieldOk5, Bool.and_eq_true] at hi
        exact ⟨arrayObjInlFacts name props flatten rulesI hi.1.1 hi.1.2 (propsHas5 props hi.2) rules hr, rfl⟩
      | _ => cases hio
  | .map items rules, h => by
    simp only [fieldOk5, Bool.and_eq_true, Bool.not_eq_true'] at h
    obtain ⟨⟨hr, hnc⟩, hi⟩ := h
    obtain ⟨ffi, hb⟩ := facts5 items hi
    exact ⟨mapFacts ffi hnc rules hr, hb⟩
  | .objectRef pkg schema fl rules, h => facts3' (by simpa only [fieldOk5] using h)
  | .oneofRef pkg schema rules l, h => facts3' (by simpa only [fieldOk5] using h)
  | .enumRef pkg schema rules lr, h => facts3' (by simpa only [fieldOk5] using h)
  | .string rules l, h => facts3' (by simpa only [fieldOk5] using h)
  | .bool rules l, h => facts3' (by simpa only [fieldOk5] using h)
  | .bytes rules, h => facts3' (by simpa only [fieldOk5] using h)
  | .date rules l, h => facts3' (by simpa only [fieldOk5] using h)
  | .decimal rules l, h => facts3' (by simpa only [fieldOk5] using h)
  | .timestamp rules, h => facts3' (by simpa only [fieldOk5] using h)
  | .any, _ => facts3' rfl
  | .integer fmt rules l, h => facts3' (by simpa only [fieldOk5] using h)
  | .float fmt rules l, h => facts3' (by simpa only [fieldOk5] using h)
  | .key fmt ek rules l, h => facts3' (by simpa only [fieldOk5] using h)

theorem propHas5 : (p : CProperty) → propOk5 p = true → PropHas p
  | .mk name _ _ f, h => by
    simp only [propOk5, Bool.and_eq_true] at h
    obtain ⟨ff, _⟩ := facts5 f h.2
    exact ⟨h.1, ⟨ff⟩⟩

theorem propsHas5 : (ps : List CProperty) → propsOk5 ps = true → ∀ p ∈ ps, PropHas p
  | [], _ => by intro p hp; cases hp
  | q :: ps, h => by
    simp only [propsOk5, Bool.and_eq_true] at h
    intro p hp
    rcases List.mem_cons.mp hp with hpq | hp
    · rw [hpq]; exact propHas5 q h.1
    · exact propsHas5 ps h.2 p hp
end

mutual
theorem fieldOk_of_fieldOk5 : (f : CField) → fieldOk5 f = true → fieldOk j5Env f = true
  | .objectInl name props flatten rules, h => by
    simp only [fieldOk5, Bool.and_eq_true] at h
    simp only [fieldOk, Bool.and_eq_true]
    exact ⟨h.1, propsOk_of_propsOk5 props h.2⟩
  | .oneofInl name props rules l, h => by
    simp only [fieldOk5, Bool.and_eq_true] at h
    simp only [fieldOk, Bool.and_eq_true]
    exact ⟨h.1, propsOk_of_propsOk5 props h.2⟩
  | .enumInl e rules lr, h => by
    simpa only [fieldOk5, fieldOk] using h
  | .array items rules, h => by
    simp only [fieldOk5, Bool.and_eq_true] at h
    simp only [fieldOk, Bool.and_eq_true]
    exact ⟨h.1, fieldOk_of_fieldOk5 items h.2⟩
  | .map items rules, h => by
    simp only [fieldOk5, Bool.and_eq_true] at h
    simp only [fieldOk, Bool.and_eq_true]
    exact ⟨h.1, fieldOk_of_fieldOk5 items h.2⟩
  | .objectRef pkg schema fl rules, h => fieldOk_of_fieldOk3 (by simpa only [fieldOk5] using h)
  | .oneofRef pkg schema rules l, h => fieldOk_of_fieldOk3 (by simpa only [fieldOk5] using h)
  | .enumRef pkg schema rules lr, h => fieldOk_of_fieldOk3 (by simpa only [fieldOk5] using h)
  | .string rules l, h => fieldOk_of_fieldOk3 (by simpa only [fieldOk5] using h)
  | .bool rules l, h => fieldOk_of_fieldOk3 (by simpa only [fieldOk5] using h)
  | .bytes rules, h => fieldOk_of_fieldOk3 (by simpa only [fieldOk5] using h)
  | .date rules l, h => fieldOk_of_fieldOk3 (by simpa only [fieldOk5] using h)
  | .decimal rules l, h => fieldOk_of_fieldOk3 (by simpa only [fieldOk5] using h)
  | .timestamp rules, h => fieldOk_of_fieldOk3 (by simpa only [fieldOk5] using h)
  | .any, _ => rfl
  | .integer fmt rules l, h => fieldOk_of_fieldOk3 (by simpa only [fieldOk5] using h)
  | .float fmt rules l, h => fieldOk_of_fieldOk3 (by simpa only [fieldOk5] using h)
  | .key fmt ek rules l, h => fieldOk_of_fieldOk3 (by simpa only [fieldOk5] using h)

theorem propsOk_of_propsOk5 : (ps : List CProperty) → propsOk5 ps = true → propsOk j5Env ps = true
  | [], _ => rfl
  | .mk name req opt f :: ps, h => by
    simp only [propsOk5, propOk5, Bool.and_eq_true] at h
    simp only [propsOk, propOk, Bool.and_eq_true]
    exact ⟨⟨h.1.1, fieldOk_of_fieldOk5 f h.1.2⟩, propsOk_of_propsOk5 ps h.2⟩
end

mutual
/-- `fieldOk5` accepts every field of the covered fragment -/
theorem fieldOk5_of_fieldOk : (f : CField) → fieldOk j5Env f = true → fieldOk5 f = true
  | .objectInl name props flatten rules, h => by
    simp only [fieldOk, Bool.and_eq_true] at h
    simp only [fieldOk5, Bool.and_eq_true]
    exact ⟨h.1, propsOk5_of_propsOk props h.2⟩
  | .oneofInl name props rules l, h => by
    simp only [fieldOk, Bool.and_eq_true] at h
    simp only [fieldOk5, Bool.and_eq_true]
    exact ⟨h.1, propsOk5_of_propsOk props h.2⟩
  | .enumInl e rules lr, h => by simpa only [fieldOk5, fieldOk] using h
  | .array items rules, h => by
    simp only [fieldOk, Bool.and_eq_true] at h
    simp only [fieldOk5, Bool.and_eq_true]
    exact ⟨h.1, fieldOk5_of_fieldOk items h.2⟩
  | .map items rules, h => by
    simp only [fieldOk, Bool.and_eq_true] at h
    simp only [fieldOk5, Bool.and_eq_true]
    exact ⟨h.1, fieldOk5_of_fieldOk items h.2⟩
  | .objectRef pkg schema fl rules, h => h
  | .oneofRef pkg schema rules l, h => h
  | .enumRef pkg schema rules lr, h => h
  | .string rules l, h => h
  | .bool rules l, h => h
  | .bytes rules, h => h
  | .date rules l, h => h
  | .decimal rules l, h => h
  | .timestamp rules, h => h
  | .any, _ => rfl
  | .integer fmt rules l, h => h
  | .float fmt rules l, h => h
  | .key fmt ek rules l, h => h

theorem propsOk5_of_propsOk : (ps : List CProperty) → propsOk j5Env ps = true → propsOk5 ps = true
  | [], _ => rfl
  | .mk name req opt f :: ps, h => by
    simp only [propsOk, propOk, Bool.and_eq_true] at h
    simp only [propsOk5, propOk5, Bool.and_eq_true]
    exact ⟨⟨h.1.1, fieldOk5_of_fieldOk f h.1.2⟩, propsOk5_of_propsOk ps h.2⟩
end

/-- the fifth slice of `supported` -/
def supported5 : J5V.Compile.SrcFile → Bool := supportedBy fieldOk5

theorem supported5_supported {ast : J5V.Compile.SrcFile} (h : supported5 ast = true) : supported ast = true :=
  supportedBy_supported (fun f => fieldOk_of_fieldOk5 f) h

/-- **print/parse, fifth slice**: `package`, imports, top-level objects whose properties are scalar fields
(with rules), references, inline objects / oneofs / enums (recursively), and arrays / maps of those: every
field of the covered fragment (`fieldOk5_of_fieldOk`) -/
theorem C07W_print_parse_slice5 (filename : Str) (ast : J5V.Compile.SrcFile) (h : supported5 ast = true) :
    walkSchema j5Env (toBcl ast) (stub j5Env filename) = .ok (toMsg filename ast) :=
  print_parse_by (fun f hf => let ⟨ff, _⟩ := facts5 f hf; ⟨ff⟩) filename ast h

end J5V.Walker
