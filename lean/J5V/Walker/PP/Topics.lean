import J5V.Walker.PP.Services
/-!
# Print/parse, seventh slice: `topic NAME KIND { message|request|reply [NAME] { fields } }`
-/
namespace J5V.Walker
open J5V.Bcl

/-! ## Tables -/

def sTopic : Schema := j5_schema_lit% "j5.sourcedef.v1.Topic"
def specTopic : BlockSpec := j5_spec_lit% "j5.sourcedef.v1.Topic"
def sTopicType : Schema := j5_schema_lit% "j5.sourcedef.v1.TopicType"
def specTopicType : BlockSpec := j5_spec_lit% "j5.sourcedef.v1.TopicType"
def sTopicPublish : Schema := j5_schema_lit% "j5.sourcedef.v1.TopicType_Publish"
def specTopicPublish : BlockSpec := j5_spec_lit% "j5.sourcedef.v1.TopicType_Publish"
def sTopicReqRes : Schema := j5_schema_lit% "j5.sourcedef.v1.TopicType_ReqRes"
def specTopicReqRes : BlockSpec := j5_spec_lit% "j5.sourcedef.v1.TopicType_ReqRes"
def sTopicUpsert : Schema := j5_schema_lit% "j5.sourcedef.v1.TopicType_Upsert"
def specTopicUpsert : BlockSpec := j5_spec_lit% "j5.sourcedef.v1.TopicType_Upsert"
def sTopicMethod : Schema := j5_schema_lit% "j5.sourcedef.v1.TopicMethod"
def specTopicMethod : BlockSpec := j5_spec_lit% "j5.sourcedef.v1.TopicMethod"

theorem schemaOf_Topic : j5Env.schemaOf b!"j5.sourcedef.v1.Topic" = sTopic := by rw [j5Env_nf]; decide +kernel
theorem schemaOf_TopicType : j5Env.schemaOf b!"j5.sourcedef.v1.TopicType" = sTopicType := by
  rw [j5Env_nf]; decide +kernel
theorem schemaOf_TopicPublish : j5Env.schemaOf b!"j5.sourcedef.v1.TopicType_Publish" = sTopicPublish := by
  rw [j5Env_nf]; decide +kernel
theorem schemaOf_TopicReqRes : j5Env.schemaOf b!"j5.sourcedef.v1.TopicType_ReqRes" = sTopicReqRes := by
  rw [j5Env_nf]; decide +kernel
theorem schemaOf_TopicUpsert : j5Env.schemaOf b!"j5.sourcedef.v1.TopicType_Upsert" = sTopicUpsert := by
  rw [j5Env_nf]; decide +kernel
theorem schemaOf_TopicMethod : j5Env.schemaOf b!"j5.sourcedef.v1.TopicMethod" = sTopicMethod := by
  rw [j5Env_nf]; decide +kernel
theorem specOf_Topic (c : Addr) : specOf j5Env ⟨c, .msg sTopic⟩ = .ok specTopic := by
  apply specOf_of_nil; rw [j5Env_nf]; decide +kernel
theorem specOf_TopicType (c : Addr) : specOf j5Env ⟨c, .msg sTopicType⟩ = .ok specTopicType := by
  apply specOf_of_nil; rw [j5Env_nf]; decide +kernel
theorem specOf_TopicPublish (c : Addr) : specOf j5Env ⟨c, .msg sTopicPublish⟩ = .ok specTopicPublish := by
  apply specOf_of_nil; rw [j5Env_nf]; decide +kernel
theorem specOf_TopicReqRes (c : Addr) : specOf j5Env ⟨c, .msg sTopicReqRes⟩ = .ok specTopicReqRes := by
  apply specOf_of_nil; rw [j5Env_nf]; decide +kernel
theorem specOf_TopicUpsert (c : Addr) : specOf j5Env ⟨c, .msg sTopicUpsert⟩ = .ok specTopicUpsert := by
  apply specOf_of_nil; rw [j5Env_nf]; decide +kernel
theorem specOf_TopicMethod (c : Addr) : specOf j5Env ⟨c, .msg sTopicMethod⟩ = .ok specTopicMethod := by
  apply specOf_of_nil; rw [j5Env_nf]; decide +kernel

def gTopicType : Str × List Nat := (b!"j5.sourcedef.v1.TopicType.type", [])

theorem pi_RootElement_topic :
    propInfo j5Env sRootElement b!"topic" = some (4, some gRootElement, .container sTopic) := by
  rw [j5Env_nf]; decide +kernel
theorem pi_Topic_name : propInfo j5Env sTopic wName = some (0, none, .scalar (.scalar .string) false) := by
  rw [j5Env_nf]; decide +kernel
theorem pi_Topic_type : propInfo j5Env sTopic b!"type" = some (2, none, .container sTopicType) := by
  rw [j5Env_nf]; decide +kernel
theorem pi_TopicType_publish :
    propInfo j5Env sTopicType b!"publish" = some (0, some gTopicType, .container sTopicPublish) := by
  rw [j5Env_nf]; decide +kernel
theorem pi_TopicType_reqres :
    propInfo j5Env sTopicType b!"reqres" = some (1, some gTopicType, .container sTopicReqRes) := by
  rw [j5Env_nf]; decide +kernel
theorem pi_TopicType_upsert :
    propInfo j5Env sTopicType b!"upsert" = some (2, some gTopicType, .container sTopicUpsert) := by
  rw [j5Env_nf]; decide +kernel
theorem pi_TopicPublish_messages :
    propInfo j5Env sTopicPublish b!"messages" = some (0, none, .arrayOfContainer sTopicMethod) := by
  rw [j5Env_nf]; decide +kernel
theorem pi_TopicReqRes_request :
    propInfo j5Env sTopicReqRes b!"request" = some (0, none, .arrayOfContainer sTopicMethod) := by
  rw [j5Env_nf]; decide +kernel
theorem pi_TopicReqRes_reply :
    propInfo j5Env sTopicReqRes b!"reply" = some (1, none, .arrayOfContainer sTopicMethod) := by
  rw [j5Env_nf]; decide +kernel
theorem pi_TopicUpsert_message :
    propInfo j5Env sTopicUpsert b!"message" = some (1, none, .container sTopicMethod) := by
  rw [j5Env_nf]; decide +kernel
theorem pi_TopicMethod_name :
    propInfo j5Env sTopicMethod wName = some (0, none, .scalar (.scalar .string) true) := by
  rw [j5Env_nf]; decide +kernel
theorem pi_TopicMethod_fields :
    propInfo j5Env sTopicMethod b!"fields" = some (2, none, .arrayOfContainer sObjectProperty) := by
  rw [j5Env_nf]; decide +kernel

/-! ## `message [NAME] { fields }` -/

/-- the tags of a topic method block -/
def tmTags (name : Option Str) : List TagValue :=
  match name with
  | none => []
  | some n => [nameTag n]

def tmNameNode (name : Option Str) : Node :=
  match name with
  | none => .absent
  | some n => pStr n

theorem topicMsgBcl_eq (kw : Str) (m : J5V.Compile.TopicMsg) :
    topicMsgBcl kw m = blockStmt kw (tmTags m.name) [] true (propsBcl wField m.props) := by
  unfold topicMsgBcl tmTags; rfl

theorem topicMsgMsg_eq (m : J5V.Compile.TopicMsg) :
    topicMsgMsg j5Env m = .msg [m.name.isSome, false, !(propsMsg j5Env m.props).isEmpty]
      [tmNameNode m.name, .absent, listSlot (propsMsg j5Env m.props)] := by
  unfold topicMsgMsg
  rw [mkMsg_of schemaOf_TopicMethod]
  generalize propsMsg j5Env m.props = ps
  cases m.name <;> cases ps <;> rfl

/-- the topic method block at `d` -/
abbrev tmCF (d : Addr) : ContainerField := cfOf sTopicMethod specTopicMethod d

/-- head (optional name tag) and body (fields) of a topic method block, inside the fresh `TopicMethod` -/
theorem topicMethod_run (kw : Str) (d : Addr) {m : J5V.Compile.TopicMsg} (hm : topicMsgOk j5Env m = true) :
    Exact (doBlockHead j5Env (Scope.newChild (tmCF d)) specTopicMethod
      ⟨refOf [kw], tmTags m.name, [], none, true, src0⟩) d (freshMsg sTopicMethod) (Scope.newChild (tmCF d))
      (.msg [m.name.isSome, false, false] [tmNameNode m.name, .absent, .absent]) ∧
    Exact (doBody j5Env (Scope.newChild (tmCF d)) (propsBcl wField m.props)) d
      (.msg [m.name.isSome, false, false] [tmNameNode m.name, .absent, .absent]) () (topicMsgMsg j5Env m) := by
  obtain ⟨name, props⟩ := m
  simp only [topicMsgOk, Bool.and_eq_true] at hm
  obtain ⟨hname, hprops⟩ := hm
  constructor
  · cases name with
    | none =>
      refine doBlockHead_exact (spec2 := specTopicMethod) rfl ?_ (walkQualifiers_nil _ _ _ _)
      show Exact (walkTags j5Env [] _ _ specTopicMethod) _ _ _ _
      rw [walkTags]
      have : specTopicMethod.name = some ⟨wName, none, none, true, false⟩ := by decide +kernel
      rw [this]
      exact Exact.pure _ _ _
    | some n =>
      have hn : isIdent n = true := hname
      refine doBlockHead_exact (spec2 := specTopicMethod) rfl
        (walkTags_name (ns := ⟨wName, none, none, true, false⟩)
          (show specTopicMethod.name = _ by decide +kernel) (show specTopicMethod.typeSelect = none by decide +kernel)
          (applyNameTag_exact (checkBang_none _ _ rfl) ?_)) (walkQualifiers_nil _ _ _ _)
      exact setAttr_direct (n := wName) (pos := none) (t := [false, false, false])
        (vs := [.absent, .absent, .absent]) (cur := .absent) (v := .str n) rfl
        (findBlock_prop' (show aliasLookup wName specTopicMethod.aliases = none by decide +kernel)
          (propInfo_hasProperty pi_TopicMethod_name))
        pi_TopicMethod_name rfl rfl (.inl rfl) (asArray_tag _)
        (by simp only [scalarFromAST, nameTag, asString_tagRef_single (isAscii_of_isIdent hn)]; rfl)
  · rw [topicMsgMsg_eq]
    have hfields := props_appendsAll2 (kw := wField) (by decide) (sc := Scope.newChild (tmCF d))
      (findBlock_alias' (show aliasLookup wField specTopicMethod.aliases = some [b!"fields"] by decide +kernel))
      pi_TopicMethod_fields props (propsHas_all hprops)
    have h := appends_fold hfields [] [name.isSome, false, false] [tmNameNode name, .absent, .absent] rfl rfl
    rw [List.nil_append] at h
    exact h

/-- a topic method block appended to an array of `TopicMethod` (`message` of publish, `request` / `reply`) -/
theorem topicMethod_appends {sc : Scope} {kw : Str} (hkw : isAscii kw = true) {s : Schema} {spec : BlockSpec}
    {c : Addr} {arr : Str} {i : Nat}
    (hfb : findBlock kw sc.blockSet = some (cfOf s spec c, [arr]))
    (hpiA : propInfo j5Env s arr = some (i, none, .arrayOfContainer sTopicMethod))
    {m : J5V.Compile.TopicMsg} (hm : topicMsgOk j5Env m = true) :
    Appends j5Env sc c i (topicMsgBcl kw m) (topicMsgMsg j5Env m) := by
  intro xs t vs ht hv
  rw [topicMsgBcl_eq]
  obtain ⟨h1, h2⟩ := topicMethod_run kw (c ++ [i, xs.length]) hm
  exact arrayBlock_exact hkw hfb hpiA (specOf_TopicMethod _) ht hv h1 h2

/-! ## `topic NAME KIND { … }` -/

/-- the topic block at `d` -/
abbrev topicCF (d : Addr) : ContainerField := cfOf sTopic specTopic d

/-- the type-select tag of a topic block -/
def topicTypeSpec : Tag := ⟨b!"type", none, none, false, false⟩

/-- name tag and kind tag of a topic block: the scope `[topic block, kind block]`, the kind selected -/
theorem topicHead_exact {name w : Str} (hname : isIdent name = true) (hw : isAscii w = true) {k : Nat}
    {sK : Schema} {specK : BlockSpec}
    (hpiK : propInfo j5Env sTopicType w = some (k, some gTopicType, .container sK))
    (hspecK : ∀ c, specOf j5Env ⟨c, .msg sK⟩ = .ok specK)
    (hKn : specK.name = none) (hKt : specK.typeSelect = none)
    (htk : (List.replicate 4 false)[k]? = some false) (hvk : (List.replicate 4 Node.absent)[k]? = some .absent)
    (d : Addr) :
    Exact (doBlockHead j5Env (Scope.newChild (topicCF d)) specTopic
      ⟨refOf [b!"topic"], [nameTag name, tagRef .none (refOf [w])], [], none, true, src0⟩) d (freshMsg sTopic)
      ((Scope.newChild (topicCF d)).mergeScope (Scope.newChild (cfOf sK specK (d ++ [2, k]))))
      (.msg [true, false, true] [sStr name, .absent, oneofMsg 4 k (freshMsg sK)]) := by
  have hsetname : Exact (setAttribute j5Env (fuelOf j5Env) (Scope.newChild (topicCF d)) [wName] []
      (.tag (nameTag name)) false) d (freshMsg sTopic) () (.msg [true, false, false] [sStr name, .absent, .absent]) := by
    refine (setAttr_direct (n := wName) (pos := none) (t := [false, false, false])
      (vs := [.absent, .absent, .absent]) (cur := .absent) (v := .str name) rfl
      (findBlock_prop' (show aliasLookup wName specTopic.aliases = none by decide +kernel)
        (propInfo_hasProperty pi_Topic_name))
      pi_Topic_name rfl rfl (.inl rfl) (asArray_tag _)
      (by simp only [scalarFromAST, nameTag, asString_tagRef_single (isAscii_of_isIdent hname)]; rfl)).conv ?_
    rw [storeNode_str]; rfl
  have h1 : Exact (childBlock j5Env (Scope.newChild (topicCF d)) b!"type") d
      (.msg [true, false, false] [sStr name, .absent, .absent])
      (Scope.newChild (cfOf sTopicType specTopicType (d ++ [2])))
      (.msg [true, false, true] [sStr name, .absent, freshMsg sTopicType]) :=
    childBlock_of_walkPath
      (findBlock_prop' (show aliasLookup b!"type" specTopic.aliases = none by decide +kernel)
        (propInfo_hasProperty pi_Topic_type))
      (walkPath_container (propInfo_hasProperty pi_Topic_type)
        (propSetValue_build false pi_Topic_type (cur := .absent) rfl rfl (.inl rfl)) (walkRest_nil _ _ _))
      (setSpecs_cons (specOf_TopicType _) (setSpecs_nil _))
  have h2' : Exact (childBlock j5Env (Scope.newChild (cfOf sTopicType specTopicType (d ++ [2]))) w) (d ++ [2])
      (freshMsg sTopicType) (Scope.newChild (cfOf sK specK (d ++ [2] ++ [k]))) (oneofMsg 4 k (freshMsg sK)) :=
    childBlock_of_walkPath
      (findBlock_prop' (show aliasLookup w specTopicType.aliases = none from rfl) (propInfo_hasProperty hpiK))
      (walkPath_container (propInfo_hasProperty hpiK)
        (propSetValue_build false hpiK (t := List.replicate 4 false) (vs := List.replicate 4 .absent)
          (cur := .absent) htk hvk (.inr rfl)) (walkRest_nil _ _ _))
      (setSpecs_cons (hspecK _) (setSpecs_nil _))
  have h2 : Exact (childBlock j5Env (Scope.newChild (cfOf sTopicType specTopicType (d ++ [2]))) w) d
      (.msg [true, false, true] [sStr name, .absent, freshMsg sTopicType])
      (Scope.newChild (cfOf sK specK (d ++ [2, k])))
      (.msg [true, false, true] [sStr name, .absent, oneofMsg 4 k (freshMsg sK)]) := by
    have h := Exact.lift_prop (t := [true, false, true]) (vs := [sStr name, .absent, freshMsg sTopicType]) (i := 2)
      (a := d) rfl h2'
    rw [List.append_assoc] at h
    exact h
  exact doBlockHead_exact rfl
    (walkTags_name_type (ns := ⟨wName, none, none, false, false⟩) (typeSpec := topicTypeSpec)
      (show specTopic.name = _ by decide +kernel) (show specTopic.typeSelect = _ by decide +kernel)
      (applyNameTag_exact (checkBang_none _ _ rfl) hsetname)
      (selectType_exact (ref := refOf [w]) rfl
        (buildScope_keep_run (combinePath_ident hw [b!"type"]) (walkScope_cons h1 (walkScope_cons h2 (walkScope_nil _ _ _))))
        (checkBang_none _ _ rfl))
      (walkTags_nil_none _ _ hKn hKt))
    (walkQualifiers_nil _ _ _ _)

/-- the scope of the body of a topic block -/
abbrev topicBodyScope (d : Addr) (sK : Schema) (specK : BlockSpec) (k : Nat) : Scope :=
  (Scope.newChild (topicCF d)).mergeScope (Scope.newChild (cfOf sK specK (d ++ [2, k])))

theorem topicCF_misses (d : Addr) {n : Str} (h : n = b!"message" ∨ n = b!"request" ∨ n = b!"reply") :
    Misses (topicCF d) n := by
  rcases h with rfl | rfl | rfl <;> exact misses_cfOf (by decide +kernel) (by decide +kernel)

/-- a keyword of the kind block, looked up in the body scope of the topic -/
theorem findBlock_topicBody {d : Addr} {sK : Schema} {specK : BlockSpec} {k : Nat} {kw : Str} {p : PathSpec}
    (hm : kw = b!"message" ∨ kw = b!"request" ∨ kw = b!"reply")
    (h : findBlock kw [cfOf sK specK (d ++ [2, k])] = some (cfOf sK specK (d ++ [2, k]), p)) :
    findBlock kw (topicBodyScope d sK specK k).blockSet = some (cfOf sK specK (d ++ [2, k]), p) := by
  show findBlock kw ([topicCF d] ++ [cfOf sK specK (d ++ [2, k])]) = _
  rw [findBlock_skip_all (fun o ho => by
    simp only [List.mem_singleton] at ho; subst ho; exact topicCF_misses d hm)]
  exact h

theorem topicMsg_eq (t : J5V.Compile.Topic) :
    topicMsg j5Env t = .msg [true, false, true] [sStr t.name, .absent, topicTypeMsg j5Env t.type] := by
  unfold topicMsg
  rw [mkMsg_of schemaOf_Topic]
  rfl

theorem elemMsg_topic_eq (t : J5V.Compile.Topic) :
    elemMsg j5Env (.topic t) = oneofMsg 6 4 (topicMsg j5Env t) := by
  simp only [elemMsg, rootOneof]
  rw [mkMsg_of schemaOf_RootElement]
  rfl

/-- the lens from the topic message to the message of its kind -/
theorem topicKind_lens (nm : Node) (k : Nat) (hk : k < 4) :
    Lens (fun Y => Node.msg [true, false, true] [nm, .absent, oneofMsg 4 k Y]) ([2] ++ [k]) :=
  Lens.comp (Lens.slot [true, false, true] [nm, .absent, .absent] (i := 2) (by simp))
    (Lens.slot ((List.replicate 4 false).set k true) (List.replicate 4 .absent) (i := k) (by simpa using hk))

theorem topic_appends {t : J5V.Compile.Topic} (ht : topicOk j5Env t = true) :
    Appends j5Env rootScope [] 3 (elemBcl (.topic t)) (elemMsg j5Env (.topic t)) := by
  obtain ⟨name, type⟩ := t
  simp only [topicOk, Bool.and_eq_true] at ht
  obtain ⟨hname, htype⟩ := ht
  rw [elemMsg_topic_eq, topicMsg_eq]
  have hroot : findBlock b!"topic" rootScope.blockSet = some (rootCF, [b!"elements", b!"topic"]) :=
    findBlock_alias' (show aliasLookup b!"topic" specSourceFile.aliases = some [b!"elements", b!"topic"]
      by decide +kernel)
  intro xs tt vs htt hvs
  let d : Addr := [] ++ [3, xs.length, 4]
  cases type with
  | publish msgs =>
    have hmsgs : msgs.all (topicMsgOk j5Env) = true := htype
    have hhead := topicHead_exact hname (w := b!"publish") (by decide) pi_TopicType_publish specOf_TopicPublish
      (by decide +kernel) (by decide +kernel) rfl rfl d
    have hall : AppendsAll j5Env (topicBodyScope d sTopicPublish specTopicPublish 0) (d ++ [2, 0]) 0
        (msgs.map (topicMsgBcl b!"message")) (msgs.map (topicMsgMsg j5Env)) :=
      appendsAll_map _ _ _ (fun m hm => topicMethod_appends (by decide)
        (findBlock_topicBody (.inl rfl) (findBlock_alias' (show aliasLookup b!"message" specTopicPublish.aliases =
          some [b!"messages"] by decide +kernel)))
        pi_TopicPublish_messages (List.all_eq_true.mp hmsgs m hm))
    have hb := Exact.lens (topicKind_lens (sStr name) 0 (by decide)) (appends_fold hall [] [false] [.absent] rfl rfl)
    rw [List.nil_append] at hb
    refine (arrayMemberBlock_exact (kw := b!"topic") (by decide) hroot pi_SourceFile_elements pi_RootElement_topic
      (specOf_RootElement _) (specOf_Topic _) htt hvs fresh_RootElement rfl rfl rfl hhead hb).conv ?_
    simp only [topicTypeMsg]
    rw [mkMsg_of schemaOf_TopicType, mkMsg_of schemaOf_TopicPublish]
    generalize msgs.map (topicMsgMsg j5Env) = ms
    cases ms <;> rfl
  | reqres reqs reps =>
    simp only [Bool.and_eq_true] at htype
    obtain ⟨hreqs, hreps⟩ := htype
    have hhead := topicHead_exact hname (w := b!"reqres") (by decide) pi_TopicType_reqres specOf_TopicReqRes
      (by decide +kernel) (by decide +kernel) rfl rfl d
    have hall1 : AppendsAll j5Env (topicBodyScope d sTopicReqRes specTopicReqRes 1) (d ++ [2, 1]) 0
        (reqs.map (topicMsgBcl b!"request")) (reqs.map (topicMsgMsg j5Env)) :=
      appendsAll_map _ _ _ (fun m hm => topicMethod_appends (by decide)
        (findBlock_topicBody (.inr (.inl rfl)) (findBlock_alias' (show aliasLookup b!"request" specTopicReqRes.aliases =
          some [b!"request"] by decide +kernel)))
        pi_TopicReqRes_request (List.all_eq_true.mp hreqs m hm))
    have hall2 : AppendsAll j5Env (topicBodyScope d sTopicReqRes specTopicReqRes 1) (d ++ [2, 1]) 1
        (reps.map (topicMsgBcl b!"reply")) (reps.map (topicMsgMsg j5Env)) :=
      appendsAll_map _ _ _ (fun m hm => topicMethod_appends (by decide)
        (findBlock_topicBody (.inr (.inr rfl)) (findBlock_alias' (show aliasLookup b!"reply" specTopicReqRes.aliases =
          some [b!"reply"] by decide +kernel)))
        pi_TopicReqRes_reply (List.all_eq_true.mp hreps m hm))
    have hf1 := appends_fold hall1 [] [false, false] [.absent, .absent] rfl rfl
    have hf2 := appends_fold hall2 [] [!([] ++ reqs.map (topicMsgMsg j5Env)).isEmpty, false]
      [listSlot ([] ++ reqs.map (topicMsgMsg j5Env)), .absent] rfl rfl
    have hb := Exact.lens (topicKind_lens (sStr name) 1 (by decide)) (doBody_append hf1 hf2)
    rw [List.nil_append, List.nil_append] at hb
    refine (arrayMemberBlock_exact (kw := b!"topic") (by decide) hroot pi_SourceFile_elements pi_RootElement_topic
      (specOf_RootElement _) (specOf_Topic _) htt hvs fresh_RootElement rfl rfl rfl hhead hb).conv ?_
    simp only [topicTypeMsg]
    rw [mkMsg_of schemaOf_TopicType, mkMsg_of schemaOf_TopicReqRes]
    generalize reqs.map (topicMsgMsg j5Env) = ms1
    generalize reps.map (topicMsgMsg j5Env) = ms2
    cases ms1 <;> cases ms2 <;> rfl
  | upsert en msg =>
    simp only [Bool.and_eq_true, decide_eq_true_eq] at htype
    obtain ⟨_, hmsg⟩ := htype
    have hhead := topicHead_exact hname (w := b!"upsert") (by decide) pi_TopicType_upsert specOf_TopicUpsert
      (by decide +kernel) (by decide +kernel) rfl rfl d
    -- `message [NAME] { fields }`: the property `message` of the upsert kind
    obtain ⟨hm1, hm2⟩ := topicMethod_run b!"message" (d ++ [2, 2] ++ [1]) hmsg
    have hlm : Lens (fun Y => Node.msg [false, true] ([Node.absent, .absent].set 1 Y)) [1] :=
      Lens.slot [false, true] [.absent, .absent] (by decide)
    have hstmt : Exact (doStatement j5Env (topicBodyScope d sTopicUpsert specTopicUpsert 2)
        (topicMsgBcl b!"message" msg)) (d ++ [2, 2]) (freshMsg sTopicUpsert) ()
        (.msg [false, true] [.absent, topicMsgMsg j5Env msg]) := by
      rw [topicMsgBcl_eq]
      exact blockStmt_exact (by decide)
        (childBlock_of_walkPath
          (findBlock_topicBody (.inl rfl) (findBlock_prop' (show aliasLookup b!"message" specTopicUpsert.aliases = none
            by decide +kernel) (propInfo_hasProperty pi_TopicUpsert_message)))
          (walkPath_container (propInfo_hasProperty pi_TopicUpsert_message)
            (propSetValue_build false pi_TopicUpsert_message (t := [false, false]) (vs := [.absent, .absent])
              (cur := .absent) rfl rfl (.inl rfl)) (walkRest_nil _ _ _))
          (setSpecs_cons (specOf_TopicMethod _) (setSpecs_nil _)))
        (Exact.lens hlm hm1) (Exact.lens hlm hm2)
    have hb := Exact.lens (topicKind_lens (sStr name) 2 (by decide)) (doBody_cons hstmt (doBody_nil _ _ _))
    refine (arrayMemberBlock_exact (kw := b!"topic") (by decide) hroot pi_SourceFile_elements pi_RootElement_topic
      (specOf_RootElement _) (specOf_Topic _) htt hvs fresh_RootElement rfl rfl rfl hhead hb).conv ?_
    simp only [topicTypeMsg]
    rw [mkMsg_of schemaOf_TopicType, mkMsg_of schemaOf_TopicUpsert]
    rfl
  | event en msg => cases htype

end J5V.Walker
