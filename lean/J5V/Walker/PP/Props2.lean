import J5V.Walker.PP.Field2Key
import J5V.Walker.PP.Props
import J5V.Walker.PP.Fold
/-!
# Print/parse: the property block over ANY field with `FieldFacts`

`prop_stmt_exact2`: like `Props.prop_stmt_exact`, but the field is given by its `FieldFacts` (so that
new field kinds, and the recursion through inline objects, only have to supply the facts).
`props_appendsAll2`: the list level.
-/
namespace J5V.Walker
open J5V.Bcl

/-- the property block knows none of the names of field lines -/
theorem propCF_misses (e : Addr) : ∀ n ∈ fieldLineNames, Misses (propCF e) n := by
  intro n hn
  simp only [fieldLineNames, List.mem_cons, List.not_mem_nil, or_false] at hn
  rcases hn with rfl | rfl | rfl | rfl | rfl | rfl | rfl | rfl | rfl | rfl | rfl | rfl | rfl | rfl <;>
    exact misses_cfOf (by decide +kernel) (by decide +kernel)

/-- name tag + type-select tag up to (not including) the mark, from the facts of the field -/
theorem prop_select2 {name : Str} {f : CField} (hname : isIdent name = true) (ff : FieldFacts f) (e : Addr) :
    Exact (setAttribute j5Env (fuelOf j5Env) (Scope.newChild (propCF e)) [wName] [] (.tag (nameTag name)) false) e
      (freshMsg sObjectProperty) () (opNode false .absent true (sStr name) false false) ∧
    Exact (buildScope j5Env (Scope.newChild (propCF e)) (pathToType opTypeSpec) (refOf [fieldKind f]).idents .keepScope) e
      (opNode false .absent true (sStr name) false false) (propTypeScope e f)
      (opNode true (oneofMsg 15 (kindIdx f) (freshMsg (kindSchema f))) true (sStr name) false false) := by
  refine ⟨op_setName (tail := []) hname rfl false .absent false false, ?_⟩
  have h1 : Exact (childBlock j5Env (Scope.newChild (propCF e)) b!"schema") e
      (opNode false .absent true (sStr name) false false)
      (Scope.newChild (cfOf sField specField (e ++ [0])))
      (opNode true (freshMsg sField) true (sStr name) false false) :=
    childBlock_of_walkPath
      (findBlock_prop' (show aliasLookup b!"schema" specObjectProperty.aliases = none by decide +kernel)
        (propInfo_hasProperty pi_OP_schema))
      (walkPath_container (propInfo_hasProperty pi_OP_schema)
        (propSetValue_build false pi_OP_schema (cur := .absent) rfl rfl (.inl rfl)) (walkRest_nil _ _ _))
      (setSpecs_cons (specOf_Field _) (setSpecs_nil _))
  have h2' : Exact (childBlock j5Env (Scope.newChild (cfOf sField specField (e ++ [0]))) (fieldKind f)) (e ++ [0])
      (freshMsg sField)
      (Scope.newChild (cfOf (kindSchema f) (kindSpec f) (e ++ [0] ++ [kindIdx f])))
      (oneofMsg 15 (kindIdx f) (freshMsg (kindSchema f))) :=
    childBlock_of_walkPath
      (findBlock_prop' (show aliasLookup (fieldKind f) specField.aliases = none from rfl)
        (propInfo_hasProperty ff.pi))
      (walkPath_container (propInfo_hasProperty ff.pi)
        (propSetValue_build false ff.pi (t := List.replicate 15 false) (vs := List.replicate 15 .absent)
          (cur := .absent)
          (by rw [List.getElem?_replicate, if_pos (kind_lt f)])
          (by rw [List.getElem?_replicate, if_pos (kind_lt f)]) (.inr rfl))
        (walkRest_nil _ _ _))
      (setSpecs_cons (ff.spec _) (setSpecs_nil _))
  have h2 : Exact (childBlock j5Env (Scope.newChild (cfOf sField specField (e ++ [0]))) (fieldKind f)) e
      (opNode true (freshMsg sField) true (sStr name) false false)
      (Scope.newChild (cfOf (kindSchema f) (kindSpec f) (e ++ [0, kindIdx f])))
      (opNode true (oneofMsg 15 (kindIdx f) (freshMsg (kindSchema f))) true (sStr name) false false) := by
    have h := Exact.lift_prop (t := [true, true, false, false, false, false])
      (vs := [freshMsg sField, sStr name, .absent, .absent, .absent, .absent]) (i := 0) (a := e) rfl h2'
    rw [List.append_assoc] at h
    exact h
  exact buildScope_keep_run (combinePath_ident (kind_ascii f) [b!"schema"])
    (walkScope_cons h1 (walkScope_cons h2 (walkScope_nil _ _ _)))

/-- how the body lines of a directly typed property reach the type block: through the property node -/
theorem propReach {f : CField} (ff : FieldFacts f) {e : Addr} {sc2 : Scope} {tail : List ContainerField}
    (hbs : sc2.blockSet = [propCF e] ++ (tcfOf f (e ++ [0, kindIdx f]) :: tail))
    (nm : Node) (rq o : Bool) :
    BodyReach sc2 [] (kindSchema f) (kindSpec f) e [0, kindIdx f]
      (fun Y => opNode true (oneofMsg 15 (kindIdx f) (Y.getD (freshMsg (kindSchema f)))) true nm rq o)
      (· ∈ ff.bodyNames) where
  get := fun Y => by
    show (opNode true (oneofMsg 15 (kindIdx f) Y) true nm rq o).get? [0, kindIdx f] = some Y
    simp only [opNode, oneofMsg, Node.get?_msg_cons, List.getElem?_cons_zero, Option.bind_some]
    rw [List.getElem?_set_self (by simpa using kind_lt f)]
    rfl
  set := fun Y Y' => by
    show (opNode true (oneofMsg 15 (kindIdx f) Y) true nm rq o).set [0, kindIdx f] Y' = _
    have h0 : ([oneofMsg 15 (kindIdx f) Y, nm, if rq then bTrue else .absent, if o then bTrue else .absent,
        .absent, .absent] : List Node)[0]? = some (oneofMsg 15 (kindIdx f) Y) := rfl
    rw [opNode, Node.set_msg_cons _ _ _ _ _ _ h0]
    have hk : ((List.replicate 15 Node.absent).set (kindIdx f) Y)[kindIdx f]? = some Y := by
      rw [List.getElem?_set_self (by simpa using kind_lt f)]
    rw [oneofMsg, Node.set_msg_single _ _ _ Y _ hk, List.set_set]
    rfl
  ascii := by simp
  walk := ⟨sc2, fun Y => walkScope_nil _ _ _, fun n hn => by
    rw [hbs, findBlock_skip_all (outer := [propCF e])
      (fun o ho => by
        simp only [List.mem_singleton] at ho; subst ho
        exact propCF_misses e n (ff.namesSub n (.inr hn))),
      findBlock_cons_of_isSome (ff.found _ n hn)]⟩

/-- the property block knows neither `field` nor `option` -/
theorem propCF_misses_block {f : CField} (ff : FieldFacts f) (e : Addr) :
    ∀ kw ∈ ff.blockNames, ∀ o ∈ [propCF e], Misses o kw := by
  intro kw hkw o ho
  simp only [List.mem_singleton] at ho; subst ho
  rcases ff.blockSub kw hkw with rfl | rfl <;> exact propCF_misses e _ (by decide)

/-- the block `kw NAME [!|?] TYPE:QUAL… { [optional = true] lines }`, given how its keyword enters a new
`ObjectProperty` element at `a ++ e'` (`F Y` = the state below `a` when the element is `Y`) -/
theorem propBlock_exact {name : Str} {req opt : Bool} {f : CField} (hname : isIdent name = true)
    (ff : FieldFacts f) {kw : Str} (hkw : isAscii kw = true) {sc : Scope} {a e' : Addr} {F : Node → Node}
    (hl : Lens F e') {X : Node}
    (hcb : Exact (childBlock j5Env sc kw) a X (Scope.newChild (propCF (a ++ e'))) (F (freshMsg sObjectProperty))) :
    Exact (doStatement j5Env sc (propBcl kw (.mk name req opt f))) a X ()
      (F (propMsg j5Env (.mk name req opt f))) := by
  let e : Addr := a ++ e'
  obtain ⟨sc2, spec2, tail, hbs, htail, hq⟩ := ff.runQ [propCF e] (some (propCF e)) (e ++ [0, kindIdx f])
    (fun n hn o ho => by
      simp only [List.mem_singleton] at ho; subst ho
      exact propCF_misses e n (ff.namesSub n (.inl hn)))
  have hbs' : sc2.blockSet = propCF e :: (tcfOf f (e ++ [0, kindIdx f]) :: tail) := hbs
  obtain ⟨hsetname, hbuild⟩ := prop_select2 hname ff e
  rw [propMsg_eq, ff.msg]
  have hq' := fun (rq o : Bool) => Exact.lift_type (e := e) (nm := sStr name) (t1 := true) (rq := rq) (o := o)
    (kind_lt f) hq
  have hbd' := fun (rq o : Bool) =>
    ff.runB sc2 [] e [0, kindIdx f] _ (propReach ff hbs (sStr name) rq o)
      ⟨[propCF e], tail, hbs, propCF_misses_block ff e, htail⟩
  have hts : (propTypeScope e f).blockSet = propCF e :: [cfOf (kindSchema f) (kindSpec f) (e ++ [0, kindIdx f])] := rfl
  have hhead : ∀ (mark : TagMark) (rq o : Bool) (isOpen : Bool),
      Exact (checkBang j5Env (propTypeScope e f) opTypeSpec (tagRef mark (refOf [fieldKind f]))) e
        (opNode true (oneofMsg 15 (kindIdx f) (freshMsg (kindSchema f))) true (sStr name) false false) ()
        (opNode true (oneofMsg 15 (kindIdx f) (freshMsg (kindSchema f))) true (sStr name) rq o) →
      Exact (doBlockHead j5Env (Scope.newChild (propCF e)) specObjectProperty
        ⟨refOf [kw], [nameTag name, tagRef mark (refOf [fieldKind f])], fieldQuals f, none, isOpen, src0⟩) a
        (F (freshMsg sObjectProperty)) sc2
        (F (opNode true (oneofMsg 15 (kindIdx f) ff.qualVal) true (sStr name) rq o)) := by
    intro mark rq o isOpen hcb'
    exact Exact.lens hl (doBlockHead_exact rfl
      (walkTags_name_type specOP_name specOP_typeSelect
        (applyNameTag_exact (checkBang_none _ _ rfl) hsetname)
        (selectType_exact (ref := refOf [fieldKind f]) rfl hbuild hcb')
        (walkTags_nil_none _ _ ff.specName ff.specTypeSelect))
      (hq' rq o))
  unfold propBcl
  cases req <;> cases opt
  · exact blockStmt_exact hkw hcb (hhead .none false false _ (checkBang_none _ _ rfl))
      (Exact.lens hl (hbd' false false))
  · exact blockStmt_exact hkw hcb
      (hhead .question false true _ (checkBang_question rfl rfl (op_setOptionalMark hts _ _ _ _ _)))
      (Exact.lens hl (hbd' false true))
  · exact blockStmt_exact hkw hcb
      (hhead .bang true false _ (checkBang_bang rfl rfl (op_setRequired hts _ _ _ _ _)))
      (Exact.lens hl (hbd' true false))
  · exact blockStmt_exact hkw hcb
      (hhead .bang true false _ (checkBang_bang rfl rfl (op_setRequired hts _ _ _ _ _)))
      (Exact.lens hl (doBody_cons (op_setOptionalLine hbs' _ _ _ _ _) (hbd' true true)))

/-- `kw NAME [!|?] TYPE:QUAL… { … }` where `kw` is an alias `kw → [pn]` of an array of `ObjectProperty` of
the block at `c`: one element appended -/
theorem prop_stmt_exact2 {name : Str} {req opt : Bool} {f : CField} (hname : isIdent name = true)
    (ff : FieldFacts f) {kw : Str} (hkw : isAscii kw = true)
    {sc : Scope} {s : Schema} {spec : BlockSpec} {c : Addr} {pn : Str} {i : Nat} {t : List Bool}
    {vs : List Node} {xs : List Node}
    (hfb : findBlock kw sc.blockSet = some (cfOf s spec c, [pn]))
    (hpi : propInfo j5Env s pn = some (i, none, .arrayOfContainer sObjectProperty))
    (ht : t[i]? = some (!xs.isEmpty)) (hv : vs[i]? = some (listSlot xs)) :
    Exact (doStatement j5Env sc (propBcl kw (.mk name req opt f))) c (.msg t vs) ()
      (.msg (t.set i true) (vs.set i (.list (xs ++ [propMsg j5Env (.mk name req opt f)])))) := by
  have hlt : i < vs.length := (List.getElem?_eq_some_iff.mp hv).1
  have hl : Lens (fun Y => Node.msg (t.set i true) (vs.set i (.list (xs ++ [Y])))) ([i] ++ [xs.length]) :=
    Lens.comp (Lens.slot (t.set i true) vs hlt) (Lens.last xs)
  exact propBlock_exact hname ff hkw hl
    (childBlock_of_walkPath hfb (walkPath_array_exact hpi ht hv (walkRest_nil _ _ _))
      (setSpecs_cons (specOf_ObjectProperty _) (setSpecs_nil _)))

end J5V.Walker
