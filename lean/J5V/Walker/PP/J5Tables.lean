import J5V.Walker.WFj5
import J5V.Walker.SpecProofs
import J5V.Walker.Print
/-!
# Table lookups of `j5Env` as closed rewrite rules (print/parse proof, part 2)

Every schema / block spec the proof consults is written out ONCE as a literal produced by an elaborator
(`j5_schema_lit%`, `j5_spec_lit%`: the elaborator evaluates `j5Env.schemaOf …` / `specOf j5Env …` and
quotes the value; nothing is trusted) and tied to `j5Env` by a kernel-checked equation
(`rw [j5Env_nf]; decide +kernel`). Proofs with a symbolic state NEVER unfold `j5Env`: they rewrite with

* `schemaOf_X : j5Env.schemaOf n = sX`,
* `specOf_X c : specOf j5Env ⟨c, .msg sX⟩ = .ok specX` (any address: `specOf_addr`),
* `fresh_X : freshMsg sX = .msg [false, …] [.absent, …]`,
* `pi_X_name : propInfo j5Env sX name = some (index, oneof group, kind)` (`propInfo` = `findProp` +
  `classify`; `PP/Gen.lean` derives `findProp`, `hasProperty`, `classify` facts from it),

and decide `aliasLookup` / `hasProperty` questions about the LITERALS `sX`, `specX` by `decide`.
-/
namespace J5V.Walker
open Lean Elab Term Meta

deriving instance DecidableEq for FieldKind
deriving instance DecidableEq for Res

/-- `findProp` + `classify`: index, proto oneof group and wrapper kind of the property `name` -/
def propInfo (env : Env) (s : Schema) (name : Str) : Option (Nat × Option (Str × List Nat) × FieldKind) :=
  match findProp name 0 s.props with
  | some (i, p) =>
    match classify env s.name p with
    | .ok k => some (i, p.oneofGroup, k)
    | _ => none
  | none => none

elab "j5_schema_lit%" s:str : term => return toExpr (j5Env.schemaOf (str s.getString))

elab "j5_spec_lit%" s:str : term => do
  match specOf j5Env ⟨[], .msg (j5Env.schemaOf (str s.getString))⟩ with
  | .ok spec => return toExpr spec
  | _ => throwError "specOf fails"

/-! ## Schemas -/

def sSourceFile : Schema := j5_schema_lit% "j5.sourcedef.v1.SourceFile"
def sPackage : Schema := j5_schema_lit% "j5.sourcedef.v1.Package"
def sImport : Schema := j5_schema_lit% "j5.sourcedef.v1.Import"
def sRootElement : Schema := j5_schema_lit% "j5.sourcedef.v1.RootElement"
def sObject : Schema := j5_schema_lit% "j5.sourcedef.v1.Object"
def sObjectProperty : Schema := j5_schema_lit% "j5.schema.v1.ObjectProperty"
def sField : Schema := j5_schema_lit% "j5.schema.v1.Field"
def sStringField : Schema := j5_schema_lit% "j5.schema.v1.StringField"
def sBoolField : Schema := j5_schema_lit% "j5.schema.v1.BoolField"
def sBytesField : Schema := j5_schema_lit% "j5.schema.v1.BytesField"
def sDateField : Schema := j5_schema_lit% "j5.schema.v1.DateField"
def sDecimalField : Schema := j5_schema_lit% "j5.schema.v1.DecimalField"
def sTimestampField : Schema := j5_schema_lit% "j5.schema.v1.TimestampField"
def sAnyField : Schema := j5_schema_lit% "j5.schema.v1.AnyField"
def sIntegerField : Schema := j5_schema_lit% "j5.schema.v1.IntegerField"
def sFloatField : Schema := j5_schema_lit% "j5.schema.v1.FloatField"
def sKeyField : Schema := j5_schema_lit% "j5.schema.v1.KeyField"
def sKeyFormat : Schema := j5_schema_lit% "j5.schema.v1.KeyFormat"
def sKeyFormatInformal : Schema := j5_schema_lit% "j5.schema.v1.KeyFormat_Informal"
def sKeyFormatCustom : Schema := j5_schema_lit% "j5.schema.v1.KeyFormat_Custom"
def sKeyFormatUUID : Schema := j5_schema_lit% "j5.schema.v1.KeyFormat_UUID"
def sKeyFormatID62 : Schema := j5_schema_lit% "j5.schema.v1.KeyFormat_ID62"
def sSourceLocation : Schema := j5_schema_lit% "j5.bcl.v1.SourceLocation"

theorem j5Env_root : j5Env.root = b!"j5.sourcedef.v1.SourceFile" := by rw [j5Env_nf]; decide +kernel

theorem schemaOf_SourceFile : j5Env.schemaOf b!"j5.sourcedef.v1.SourceFile" = sSourceFile := by
  rw [j5Env_nf]; decide +kernel
theorem schemaOf_Package : j5Env.schemaOf b!"j5.sourcedef.v1.Package" = sPackage := by
  rw [j5Env_nf]; decide +kernel
theorem schemaOf_Import : j5Env.schemaOf b!"j5.sourcedef.v1.Import" = sImport := by
  rw [j5Env_nf]; decide +kernel
theorem schemaOf_RootElement : j5Env.schemaOf b!"j5.sourcedef.v1.RootElement" = sRootElement := by
  rw [j5Env_nf]; decide +kernel
theorem schemaOf_Object : j5Env.schemaOf b!"j5.sourcedef.v1.Object" = sObject := by
  rw [j5Env_nf]; decide +kernel
theorem schemaOf_ObjectProperty : j5Env.schemaOf nObjectProperty = sObjectProperty := by
  rw [j5Env_nf]; decide +kernel
theorem schemaOf_Field : j5Env.schemaOf nField = sField := by rw [j5Env_nf]; decide +kernel
theorem schemaOf_StringField : j5Env.schemaOf b!"j5.schema.v1.StringField" = sStringField := by
  rw [j5Env_nf]; decide +kernel
theorem schemaOf_BoolField : j5Env.schemaOf b!"j5.schema.v1.BoolField" = sBoolField := by
  rw [j5Env_nf]; decide +kernel
theorem schemaOf_BytesField : j5Env.schemaOf b!"j5.schema.v1.BytesField" = sBytesField := by
  rw [j5Env_nf]; decide +kernel
theorem schemaOf_DateField : j5Env.schemaOf b!"j5.schema.v1.DateField" = sDateField := by
  rw [j5Env_nf]; decide +kernel
theorem schemaOf_DecimalField : j5Env.schemaOf b!"j5.schema.v1.DecimalField" = sDecimalField := by
  rw [j5Env_nf]; decide +kernel
theorem schemaOf_TimestampField : j5Env.schemaOf b!"j5.schema.v1.TimestampField" = sTimestampField := by
  rw [j5Env_nf]; decide +kernel
theorem schemaOf_AnyField : j5Env.schemaOf b!"j5.schema.v1.AnyField" = sAnyField := by
  rw [j5Env_nf]; decide +kernel
theorem schemaOf_IntegerField : j5Env.schemaOf b!"j5.schema.v1.IntegerField" = sIntegerField := by
  rw [j5Env_nf]; decide +kernel
theorem schemaOf_FloatField : j5Env.schemaOf b!"j5.schema.v1.FloatField" = sFloatField := by
  rw [j5Env_nf]; decide +kernel
theorem schemaOf_KeyField : j5Env.schemaOf b!"j5.schema.v1.KeyField" = sKeyField := by
  rw [j5Env_nf]; decide +kernel
theorem schemaOf_KeyFormat : j5Env.schemaOf nKeyFormat = sKeyFormat := by rw [j5Env_nf]; decide +kernel
theorem schemaOf_KeyFormatInformal : j5Env.schemaOf b!"j5.schema.v1.KeyFormat_Informal" = sKeyFormatInformal := by
  rw [j5Env_nf]; decide +kernel
theorem schemaOf_KeyFormatCustom : j5Env.schemaOf b!"j5.schema.v1.KeyFormat_Custom" = sKeyFormatCustom := by
  rw [j5Env_nf]; decide +kernel
theorem schemaOf_KeyFormatUUID : j5Env.schemaOf b!"j5.schema.v1.KeyFormat_UUID" = sKeyFormatUUID := by
  rw [j5Env_nf]; decide +kernel
theorem schemaOf_KeyFormatID62 : j5Env.schemaOf b!"j5.schema.v1.KeyFormat_ID62" = sKeyFormatID62 := by
  rw [j5Env_nf]; decide +kernel
theorem schemaOf_SourceLocation : j5Env.schemaOf b!"j5.bcl.v1.SourceLocation" = sSourceLocation := by
  rw [j5Env_nf]; decide +kernel

/-! ## Block specs -/

def specSourceFile : BlockSpec := j5_spec_lit% "j5.sourcedef.v1.SourceFile"
def specPackage : BlockSpec := j5_spec_lit% "j5.sourcedef.v1.Package"
def specImport : BlockSpec := j5_spec_lit% "j5.sourcedef.v1.Import"
def specRootElement : BlockSpec := j5_spec_lit% "j5.sourcedef.v1.RootElement"
def specObject : BlockSpec := j5_spec_lit% "j5.sourcedef.v1.Object"
def specObjectProperty : BlockSpec := j5_spec_lit% "j5.schema.v1.ObjectProperty"
def specField : BlockSpec := j5_spec_lit% "j5.schema.v1.Field"
def specStringField : BlockSpec := j5_spec_lit% "j5.schema.v1.StringField"
def specBoolField : BlockSpec := j5_spec_lit% "j5.schema.v1.BoolField"
def specBytesField : BlockSpec := j5_spec_lit% "j5.schema.v1.BytesField"
def specDateField : BlockSpec := j5_spec_lit% "j5.schema.v1.DateField"
def specDecimalField : BlockSpec := j5_spec_lit% "j5.schema.v1.DecimalField"
def specTimestampField : BlockSpec := j5_spec_lit% "j5.schema.v1.TimestampField"
def specAnyField : BlockSpec := j5_spec_lit% "j5.schema.v1.AnyField"
def specIntegerField : BlockSpec := j5_spec_lit% "j5.schema.v1.IntegerField"
def specFloatField : BlockSpec := j5_spec_lit% "j5.schema.v1.FloatField"
def specKeyField : BlockSpec := j5_spec_lit% "j5.schema.v1.KeyField"
def specKeyFormat : BlockSpec := j5_spec_lit% "j5.schema.v1.KeyFormat"
def specKeyFormatInformal : BlockSpec := j5_spec_lit% "j5.schema.v1.KeyFormat_Informal"
def specKeyFormatCustom : BlockSpec := j5_spec_lit% "j5.schema.v1.KeyFormat_Custom"
def specKeyFormatUUID : BlockSpec := j5_spec_lit% "j5.schema.v1.KeyFormat_UUID"
def specKeyFormatID62 : BlockSpec := j5_spec_lit% "j5.schema.v1.KeyFormat_ID62"

/-- the spec does not depend on the address: a closed fact at `[]` gives the fact everywhere -/
theorem specOf_of_nil {env : Env} {s : Schema} {spec : BlockSpec}
    (h : specOf env ⟨[], .msg s⟩ = .ok spec) (c : Addr) : specOf env ⟨c, .msg s⟩ = .ok spec :=
  (specOf_addr env c [] (.msg s)).trans h

theorem specOf_SourceFile0 : specOf j5Env ⟨[], .msg sSourceFile⟩ = .ok specSourceFile := by
  rw [j5Env_nf]; decide +kernel
theorem specOf_Package0 : specOf j5Env ⟨[], .msg sPackage⟩ = .ok specPackage := by
  rw [j5Env_nf]; decide +kernel
theorem specOf_Import0 : specOf j5Env ⟨[], .msg sImport⟩ = .ok specImport := by
  rw [j5Env_nf]; decide +kernel
theorem specOf_RootElement0 : specOf j5Env ⟨[], .msg sRootElement⟩ = .ok specRootElement := by
  rw [j5Env_nf]; decide +kernel
theorem specOf_Object0 : specOf j5Env ⟨[], .msg sObject⟩ = .ok specObject := by
  rw [j5Env_nf]; decide +kernel
theorem specOf_ObjectProperty0 : specOf j5Env ⟨[], .msg sObjectProperty⟩ = .ok specObjectProperty := by
  rw [j5Env_nf]; decide +kernel
theorem specOf_Field0 : specOf j5Env ⟨[], .msg sField⟩ = .ok specField := by
  rw [j5Env_nf]; decide +kernel
theorem specOf_StringField0 : specOf j5Env ⟨[], .msg sStringField⟩ = .ok specStringField := by
  rw [j5Env_nf]; decide +kernel
theorem specOf_BoolField0 : specOf j5Env ⟨[], .msg sBoolField⟩ = .ok specBoolField := by
  rw [j5Env_nf]; decide +kernel
theorem specOf_BytesField0 : specOf j5Env ⟨[], .msg sBytesField⟩ = .ok specBytesField := by
  rw [j5Env_nf]; decide +kernel
theorem specOf_DateField0 : specOf j5Env ⟨[], .msg sDateField⟩ = .ok specDateField := by
  rw [j5Env_nf]; decide +kernel
theorem specOf_DecimalField0 : specOf j5Env ⟨[], .msg sDecimalField⟩ = .ok specDecimalField := by
  rw [j5Env_nf]; decide +kernel
theorem specOf_TimestampField0 : specOf j5Env ⟨[], .msg sTimestampField⟩ = .ok specTimestampField := by
  rw [j5Env_nf]; decide +kernel
theorem specOf_AnyField0 : specOf j5Env ⟨[], .msg sAnyField⟩ = .ok specAnyField := by
  rw [j5Env_nf]; decide +kernel
theorem specOf_IntegerField0 : specOf j5Env ⟨[], .msg sIntegerField⟩ = .ok specIntegerField := by
  rw [j5Env_nf]; decide +kernel
theorem specOf_FloatField0 : specOf j5Env ⟨[], .msg sFloatField⟩ = .ok specFloatField := by
  rw [j5Env_nf]; decide +kernel
theorem specOf_KeyField0 : specOf j5Env ⟨[], .msg sKeyField⟩ = .ok specKeyField := by
  rw [j5Env_nf]; decide +kernel
theorem specOf_KeyFormat0 : specOf j5Env ⟨[], .msg sKeyFormat⟩ = .ok specKeyFormat := by
  rw [j5Env_nf]; decide +kernel
theorem specOf_KeyFormatInformal0 : specOf j5Env ⟨[], .msg sKeyFormatInformal⟩ = .ok specKeyFormatInformal := by
  rw [j5Env_nf]; decide +kernel
theorem specOf_KeyFormatCustom0 : specOf j5Env ⟨[], .msg sKeyFormatCustom⟩ = .ok specKeyFormatCustom := by
  rw [j5Env_nf]; decide +kernel
theorem specOf_KeyFormatUUID0 : specOf j5Env ⟨[], .msg sKeyFormatUUID⟩ = .ok specKeyFormatUUID := by
  rw [j5Env_nf]; decide +kernel
theorem specOf_KeyFormatID620 : specOf j5Env ⟨[], .msg sKeyFormatID62⟩ = .ok specKeyFormatID62 := by
  rw [j5Env_nf]; decide +kernel

theorem specOf_SourceFile (c : Addr) : specOf j5Env ⟨c, .msg sSourceFile⟩ = .ok specSourceFile :=
  specOf_of_nil specOf_SourceFile0 c
theorem specOf_Package (c : Addr) : specOf j5Env ⟨c, .msg sPackage⟩ = .ok specPackage :=
  specOf_of_nil specOf_Package0 c
theorem specOf_Import (c : Addr) : specOf j5Env ⟨c, .msg sImport⟩ = .ok specImport :=
  specOf_of_nil specOf_Import0 c
theorem specOf_RootElement (c : Addr) : specOf j5Env ⟨c, .msg sRootElement⟩ = .ok specRootElement :=
  specOf_of_nil specOf_RootElement0 c
theorem specOf_Object (c : Addr) : specOf j5Env ⟨c, .msg sObject⟩ = .ok specObject :=
  specOf_of_nil specOf_Object0 c
theorem specOf_ObjectProperty (c : Addr) : specOf j5Env ⟨c, .msg sObjectProperty⟩ = .ok specObjectProperty :=
  specOf_of_nil specOf_ObjectProperty0 c
theorem specOf_Field (c : Addr) : specOf j5Env ⟨c, .msg sField⟩ = .ok specField :=
  specOf_of_nil specOf_Field0 c
theorem specOf_KeyFormat (c : Addr) : specOf j5Env ⟨c, .msg sKeyFormat⟩ = .ok specKeyFormat :=
  specOf_of_nil specOf_KeyFormat0 c

/-! ## The container field types -/

def sObjectField : Schema := j5_schema_lit% "j5.schema.v1.ObjectField"
def sOneofField : Schema := j5_schema_lit% "j5.schema.v1.OneofField"
def sEnumField : Schema := j5_schema_lit% "j5.schema.v1.EnumField"
def sArrayField : Schema := j5_schema_lit% "j5.schema.v1.ArrayField"
def sMapField : Schema := j5_schema_lit% "j5.schema.v1.MapField"
def specObjectField : BlockSpec := j5_spec_lit% "j5.schema.v1.ObjectField"
def specOneofField : BlockSpec := j5_spec_lit% "j5.schema.v1.OneofField"
def specEnumField : BlockSpec := j5_spec_lit% "j5.schema.v1.EnumField"
def specArrayField : BlockSpec := j5_spec_lit% "j5.schema.v1.ArrayField"
def specMapField : BlockSpec := j5_spec_lit% "j5.schema.v1.MapField"

theorem schemaOf_ObjectField : j5Env.schemaOf b!"j5.schema.v1.ObjectField" = sObjectField := by
  rw [j5Env_nf]; decide +kernel
theorem schemaOf_OneofField : j5Env.schemaOf b!"j5.schema.v1.OneofField" = sOneofField := by
  rw [j5Env_nf]; decide +kernel
theorem schemaOf_EnumField : j5Env.schemaOf b!"j5.schema.v1.EnumField" = sEnumField := by
  rw [j5Env_nf]; decide +kernel
theorem schemaOf_ArrayField : j5Env.schemaOf b!"j5.schema.v1.ArrayField" = sArrayField := by
  rw [j5Env_nf]; decide +kernel
theorem schemaOf_MapField : j5Env.schemaOf b!"j5.schema.v1.MapField" = sMapField := by
  rw [j5Env_nf]; decide +kernel
theorem specOf_ObjectField0 : specOf j5Env ⟨[], .msg sObjectField⟩ = .ok specObjectField := by
  rw [j5Env_nf]; decide +kernel
theorem specOf_OneofField0 : specOf j5Env ⟨[], .msg sOneofField⟩ = .ok specOneofField := by
  rw [j5Env_nf]; decide +kernel
theorem specOf_EnumField0 : specOf j5Env ⟨[], .msg sEnumField⟩ = .ok specEnumField := by
  rw [j5Env_nf]; decide +kernel
theorem specOf_ArrayField0 : specOf j5Env ⟨[], .msg sArrayField⟩ = .ok specArrayField := by
  rw [j5Env_nf]; decide +kernel
theorem specOf_MapField0 : specOf j5Env ⟨[], .msg sMapField⟩ = .ok specMapField := by
  rw [j5Env_nf]; decide +kernel

/-! ## Fresh messages -/

theorem fresh_Package : freshMsg sPackage = .msg [false] [.absent] := rfl
theorem fresh_Import : freshMsg sImport = .msg [false, false] [.absent, .absent] := rfl
theorem fresh_RootElement : freshMsg sRootElement =
    .msg (List.replicate 6 false) (List.replicate 6 .absent) := rfl
theorem fresh_Object : freshMsg sObject =
    .msg [false, false, false, false, false, false] [.absent, .absent, .absent, .absent, .absent, .absent] := rfl
theorem fresh_ObjectProperty : freshMsg sObjectProperty =
    .msg [false, false, false, false, false, false] [.absent, .absent, .absent, .absent, .absent, .absent] := rfl
theorem fresh_Field : freshMsg sField = .msg (List.replicate 15 false) (List.replicate 15 .absent) := rfl
theorem fresh_KeyFormat : freshMsg sKeyFormat = .msg (List.replicate 4 false) (List.replicate 4 .absent) := rfl

/-! ## The fuel is a successor -/

theorem fuelOf_succ (env : Env) : fuelOf env = (2 * env.given.length + env.schemas.length + 7) + 1 := rfl

end J5V.Walker
