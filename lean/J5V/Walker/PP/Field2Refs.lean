import J5V.Walker.PP.Refs
import J5V.Walker.PP.KindTables2
import J5V.Walker.PP.Field2Scalars
/-!
# Print/parse, third slice: references to declared types — `object:Foo`, `oneof:p.Foo`, `enum:Foo`

`refQual_exact` (the qualifier form), `refBody_exact` (the `ref.package` / `ref.schema` lines of a dotted
schema name), `flatten_exact`; `objectRefFacts`, `oneofRefFacts`.
-/
namespace J5V.Walker
open J5V.Bcl

/-- the qualifier `:pkg.Schema` of a field whose type has the property `ref` in slot 0 -/
theorem refQual_exact {sT : Schema} {specT : BlockSpec} {og : Option (Str × List Nat)}
    (hq : specT.qualifier = some ⟨b!"ref", none, none, false, false⟩)
    (halias : aliasLookup b!"ref" specT.aliases = none)
    (hpi : propInfo j5Env sT b!"ref" = some (0, og, .container sRef))
    {outer : List ContainerField} (root : Option ContainerField) (d : Addr)
    (hmiss : ∀ o ∈ outer, Misses o b!"ref")
    {t : List Bool} {vs : List Node} (ht : t[0]? = some false) (hv : vs[0]? = some .absent)
    (hconf : NoConflict og vs)
    {pkg schema : Str} (hs : isIdent schema = true) (hp : pkg = [] ∨ isDotted pkg = true) :
    Exact (walkQualifiers j5Env [tagRef .none (dottedRef (refString pkg schema))]
      (typeScope outer (cfOf sT specT d) root) specT) d (.msg t vs)
      (typeScope outer (cfOf sT specT d) root, specT) (.msg (t.set 0 true) (vs.set 0 (refNode pkg schema))) := by
  have hlt : 0 < vs.length := (List.getElem?_eq_some_iff.mp hv).1
  have hfb : findBlock b!"ref" (typeScope outer (cfOf sT specT d) root).blockSet =
      some (cfOf sT specT d, [b!"ref"]) :=
    (findBlock_skip_all hmiss).trans (findBlock_prop' halias (propInfo_hasProperty hpi))
  refine walkQualifiers_attr (tagSpec := ⟨b!"ref", none, none, false, false⟩) hq rfl (checkBang_none _ _ rfl) ?_
  rw [fuelOf_succ3]
  -- the field wrapper (built), the second walk (cached), the split
  have hsf := scopeField_direct (existingIsOk := false) hfb (propInfo_hasProperty hpi)
    (propSetValue_build (c := d) (cur := .absent) true hpi ht hv hconf)
  have hcb : Exact (childBlock j5Env (typeScope outer (cfOf sT specT d) root) b!"ref") d
      (.msg (t.set 0 true) (vs.set 0 (freshMsg sRef))) (Scope.newChild (refCF (d ++ [0])))
      (.msg (t.set 0 true) (vs.set 0 (freshMsg sRef))) :=
    childBlock_of_walkPath hfb
      (walkPath_container (propInfo_hasProperty hpi)
        (propSetValue_cached hpi (by
          have : 0 < t.length := (List.getElem?_eq_some_iff.mp ht).1
          rw [List.getElem?_set_self this]))
        (walkRest_nil _ _ _))
      (setSpecs_cons (specOf_Ref _) (setSpecs_nil _))
  have hsplit := Exact.lift_prop (t := t.set 0 true) (vs := vs.set 0 (freshMsg sRef)) (i := 0) (a := d)
    (by rw [List.getElem?_set_self hlt]; rfl)
    (refSplit_exact hs hp (2 * j5Env.given.length + j5Env.schemas.length + 5) .none (d ++ [0]))
  rw [List.set_set] at hsplit
  exact setAttribute_container (pre := []) (last := ⟨b!"ref", none⟩) rfl (walkScope_nil _ _ _) hsf hcb hsplit

section
variable {sc : Scope} {pfx : List Str} {sT : Schema} {specT : BlockSpec} {a b : Addr} {C : Option Node → Node}
  {P : Str → Prop}

/-- the lines `pfx.ref.package = "…"`, `pfx.ref.schema = "…"` of a DOTTED schema name -/
theorem refBody_exact (hr : BodyReach sc pfx sT specT a b C P) (hn : P b!"ref")
    (hfb : findBlock b!"ref" [cfOf sT specT (a ++ b)] = some (cfOf sT specT (a ++ b), [b!"ref"]))
    {og : Option (Str × List Nat)} (hpi : propInfo j5Env sT b!"ref" = some (0, og, .container sRef))
    {t : List Bool} {vs : List Node} (ht : t[0]? = some false) (hv : vs[0]? = some .absent)
    (hconf : NoConflictAt sT 0 og vs)
    {pkg schema : Str} (hdot : hasDot schema = true) (hoks : okString schema = true) (hokp : okString pkg = true) :
    Exact (doBody j5Env sc (refBody pfx pkg schema)) a (C (some (.msg t vs))) ()
      (C (some (.msg (t.set 0 true) (vs.set 0 (refNode pkg schema))))) := by
  have hrR := hr.child (some (.msg t vs)) rfl hn (by decide) hfb hpi specOf_Ref ht hv hconf
  have hfbS : findBlock b!"schema" [cfOf sRef specRef (a ++ (b ++ [0]))] =
      some (cfOf sRef specRef (a ++ (b ++ [0])), [b!"schema"]) :=
    findBlock_prop' (show aliasLookup b!"schema" specRef.aliases = none from rfl)
      (propInfo_hasProperty pi_Ref_schema)
  have hfbP : findBlock b!"package" [cfOf sRef specRef (a ++ (b ++ [0]))] =
      some (cfOf sRef specRef (a ++ (b ++ [0])), [b!"package"]) :=
    findBlock_prop' (show aliasLookup b!"package" specRef.aliases = none from rfl)
      (propInfo_hasProperty pi_Ref_package)
  have hscS : scalarFromAST j5Env (.scalar .string) (.value (strValue schema)) = .ok (.str schema) := by
    simp only [scalarFromAST, asString_strValue (isAscii_of_okString hoks)]; rfl
  have hscP : scalarFromAST j5Env (.scalar .string) (.value (strValue pkg)) = .ok (.str pkg) := by
    simp only [scalarFromAST, asString_strValue (isAscii_of_okString hokp)]; rfl
  have hkey : ∀ n : Str, pfx ++ [b!"ref"] ++ [n] = pfx ++ [b!"ref", n] := by intro n; simp
  unfold refBody
  rw [if_pos hdot]
  by_cases hpe : pkg = []
  · -- only `ref.schema`
    subst hpe
    rw [if_pos rfl, List.nil_append]
    have h := hrR.attr none (t := [false, false]) (vs := [.absent, .absent]) rfl (n := b!"schema") trivial
      (by decide) hfbS pi_Ref_schema (cur := .absent) rfl rfl (.inl rfl) (asArray_strValue _) hscS
    rw [hkey, storeNode_str] at h
    exact doBody_cons h (doBody_nil _ _ _)
  · -- `ref.package`, then `ref.schema`
    rw [if_neg hpe]
    have h1 := hrR.attr none (t := [false, false]) (vs := [.absent, .absent]) rfl (n := b!"package") trivial
      (by decide) hfbP pi_Ref_package (cur := .absent) rfl rfl (.inl rfl) (asArray_strValue _) hscP
    have h2 := hrR.attr (some (.msg [true, false] [sStr pkg, .absent])) rfl (n := b!"schema") trivial
      (by decide) hfbS pi_Ref_schema (cur := .absent) rfl rfl (.inl rfl) (asArray_strValue _) hscS
    rw [hkey, storeNode_str] at h1 h2
    have hne : (pkg != []) = true := by simpa using hpe
    simp only [refNode, hne, if_true]
    exact doBody_cons h1 (doBody_cons h2 (doBody_nil _ _ _))

/-- the line `pfx.flatten = true` (nothing when `flatten = false`) -/
theorem flatten_exact (hr : BodyReach sc pfx sT specT a b C P) (hn : P b!"flatten")
    (hfb : findBlock b!"flatten" [cfOf sT specT (a ++ b)] = some (cfOf sT specT (a ++ b), [b!"flatten"]))
    {i : Nat} (hpi : propInfo j5Env sT b!"flatten" = some (i, none, .scalar (.scalar .bool) false))
    {t : List Bool} {vs : List Node} (ht : t[i]? = some false) (hv : vs[i]? = some .absent) (flatten : Bool) :
    Exact (doBody j5Env sc (flattenBcl pfx flatten)) a (C (some (.msg t vs))) ()
      (C (some (.msg (t.set i flatten) (vs.set i (if flatten then bTrue else .absent))))) := by
  cases flatten with
  | false =>
    rw [list_set_self ht, list_set_self (show vs[i]? = some (if false = true then bTrue else Node.absent) from hv)]
    exact doBody_nil _ _ _
  | true =>
    refine doBody_cons ?_ (doBody_nil _ _ _)
    exact hr.attr (some (.msg t vs)) rfl hn (by decide) hfb hpi ht hv (.inl rfl) (asArray_boolValue _)
      (by simp only [scalarFromAST, asBool_boolValue]; rfl)

end

/-! ## Tables -/

def gObjectFieldSchema : Str × List Nat := (b!"j5.schema.v1.ObjectField.schema", [])
def gOneofFieldSchema : Str × List Nat := (b!"j5.schema.v1.OneofField.schema", [])
def gEnumFieldSchema : Str × List Nat := (b!"j5.schema.v1.EnumField.schema", [])

theorem pi_ObjectField_ref :
    propInfo j5Env sObjectField b!"ref" = some (0, some gObjectFieldSchema, .container sRef) := by
  rw [j5Env_nf]; decide +kernel
theorem pi_ObjectField_flatten :
    propInfo j5Env sObjectField b!"flatten" = some (4, none, .scalar (.scalar .bool) false) := by
  rw [j5Env_nf]; decide +kernel
theorem pi_OneofField_ref :
    propInfo j5Env sOneofField b!"ref" = some (0, some gOneofFieldSchema, .container sRef) := by
  rw [j5Env_nf]; decide +kernel
theorem pi_EnumField_ref :
    propInfo j5Env sEnumField b!"ref" = some (0, some gEnumFieldSchema, .container sRef) := by
  rw [j5Env_nf]; decide +kernel

theorem refOk_dot {pkg schema : Str} (h : refOk pkg schema = true) (hd : hasDot schema = true) :
    okString schema = true ∧ okString pkg = true := by
  simp only [refOk, hd, if_true, Bool.and_eq_true] at h; exact h

theorem refOk_nodot {pkg schema : Str} (h : refOk pkg schema = true) (hd : hasDot schema = false) :
    isIdent schema = true ∧ (pkg = [] ∨ isDotted pkg = true) := by
  simp only [refOk, hd, Bool.false_eq_true, if_false, Bool.and_eq_true, Bool.or_eq_true, decide_eq_true_eq] at h
  exact h

theorem refQuals_dot {pkg schema : Str} (hd : hasDot schema = true) : refQuals pkg schema = [] := by
  simp [refQuals, hd]

theorem refQuals_nodot {pkg schema : Str} (hd : hasDot schema = false) :
    refQuals pkg schema = [tagRef .none (dottedRef (refString pkg schema))] := by
  simp [refQuals, hd]

theorem refBody_nodot {pfx : List Str} {pkg schema : Str} (hd : hasDot schema = false) :
    refBody pfx pkg schema = [] := by
  simp [refBody, hd]

/-! ## `object:Foo` -/

/-- the `ObjectField` message: `ref` (slot 0), `rules` (2), `flatten` (4) -/
def objFieldNode (r0 : Bool) (R0 : Node) (r2 : Bool) (R2 : Node) (fl : Bool) : Node :=
  .msg [r0, false, r2, false, fl, false] [R0, .absent, R2, .absent, if fl then bTrue else .absent, .absent]

def objectRefFacts (pkg schema : Str) (flatten : Bool) (rules : J5V.Compile.Rules)
    (h : rulesOk j5Env b!"j5.schema.v1.ObjectField" rules = true) (href : refOk pkg schema = true) :
    FieldFacts (.objectRef pkg schema flatten rules) where
  qualNames := [b!"ref"]
  bodyNames := [wRules, b!"flatten", b!"ref"]
  blockNames := []
  tailP := fun _ _ => True
  qualVal := if hasDot schema then objFieldNode false .absent false .absent false
    else objFieldNode true (refNode pkg schema) false .absent false
  typeVal := objFieldNode true (refNode pkg schema) (!rules.isEmpty) (rulesNode sObjectRules rules) flatten
  pi := kind_pi_c rfl
  spec := kind_spec_c rfl
  specName := kindSpec_name
  specTypeSelect := kindSpec_typeSelect
  msg := by
    simp only [fieldMsg, fieldOneof]
    rw [rulesVals_eq rulesSchema_Object schemaOf_ObjectRules, refMsg_eq, mkMsg_of schemaOf_Field,
      mkMsg_of schemaOf_ObjectField]
    cases rules <;> cases flatten <;> rfl
  namesSub := by
    intro n hn
    simp only [List.mem_cons, List.not_mem_nil, or_false] at hn
    rcases hn with rfl | rfl | rfl | rfl <;> decide
  qualSub := by intro _ n hn; exact .inr (List.mem_singleton.mp hn)
  blockSub := by intro kw hkw; cases hkw
  found := by
    intro d n hn
    show (findBlock n [cfOf sObjectField specObjectField d]).isSome = true
    simp only [List.mem_cons, List.not_mem_nil, or_false] at hn
    rcases hn with rfl | rfl | rfl
    · rw [findBlock_prop' (show aliasLookup wRules specObjectField.aliases = none by decide +kernel)
        (propInfo_hasProperty pi_Object_rules)]; rfl
    · rw [findBlock_prop' (show aliasLookup b!"flatten" specObjectField.aliases = none by decide +kernel)
        (propInfo_hasProperty pi_ObjectField_flatten)]; rfl
    · rw [findBlock_prop' (show aliasLookup b!"ref" specObjectField.aliases = none by decide +kernel)
        (propInfo_hasProperty pi_ObjectField_ref)]; rfl
  runQ := by
    intro outer root d hmiss
    refine ⟨typeScope outer (cfOf sObjectField specObjectField d) root, specObjectField, [], rfl, trivial, ?_⟩
    show Exact (walkQualifiers j5Env (refQuals pkg schema) _ _) _ _ _ _
    cases hd : hasDot schema with
    | true =>
      rw [refQuals_dot hd]
      simp only [if_true]
      exact walkQualifiers_nil _ _ _ _
    | false =>
      rw [refQuals_nodot hd]
      simp only [Bool.false_eq_true, if_false]
      obtain ⟨hs, hp⟩ := refOk_nodot href hd
      exact refQual_exact (show specObjectField.qualifier = _ by decide +kernel)
        (show aliasLookup b!"ref" specObjectField.aliases = none by decide +kernel) pi_ObjectField_ref root d
        (hmiss _ (by simp)) (t := [false, false, false, false, false, false])
        (vs := [.absent, .absent, .absent, .absent, .absent, .absent]) rfl rfl (.inr rfl) hs hp
  runB := by
    intro sc pfx a b C hr _
    have hu := rulesOk_unpack h rulesSchema_Object schemaOf_ObjectRules
    have hfbR : findBlock wRules [cfOf sObjectField specObjectField (a ++ b)] =
        some (cfOf sObjectField specObjectField (a ++ b), [wRules]) :=
      findBlock_prop' (show aliasLookup wRules specObjectField.aliases = none by decide +kernel)
        (propInfo_hasProperty pi_Object_rules)
    have hfbF : findBlock b!"flatten" [cfOf sObjectField specObjectField (a ++ b)] =
        some (cfOf sObjectField specObjectField (a ++ b), [b!"flatten"]) :=
      findBlock_prop' (show aliasLookup b!"flatten" specObjectField.aliases = none by decide +kernel)
        (propInfo_hasProperty pi_ObjectField_flatten)
    have hfbRef : findBlock b!"ref" [cfOf sObjectField specObjectField (a ++ b)] =
        some (cfOf sObjectField specObjectField (a ++ b), [b!"ref"]) :=
      findBlock_prop' (show aliasLookup b!"ref" specObjectField.aliases = none by decide +kernel)
        (propInfo_hasProperty pi_ObjectField_ref)
    show Exact (doBody j5Env sc (rulesBcl pfx rules ++ flattenBcl pfx flatten ++ refBody pfx pkg schema)) _ _ _ _
    cases hd : hasDot schema with
    | false =>
      rw [refBody_nodot hd, List.append_nil]
      simp only [Bool.false_eq_true, if_false]
      exact doBody_append
        (hr.rules (show wRules ∈ [wRules, b!"flatten", b!"ref"] by simp) rulesOK_Object hfbR pi_Object_rules
          specOf_ObjectRules (t := [true, false, false, false, false, false]) rfl rfl rules hu.1 hu.2)
        (flatten_exact hr (show b!"flatten" ∈ [wRules, b!"flatten", b!"ref"] by simp) hfbF
          pi_ObjectField_flatten rfl rfl flatten)
    | true =>
      simp only [if_true]
      obtain ⟨hoks, hokp⟩ := refOk_dot href hd
      refine doBody_append (doBody_append
        (hr.rules (show wRules ∈ [wRules, b!"flatten", b!"ref"] by simp) rulesOK_Object hfbR pi_Object_rules
          specOf_ObjectRules (t := [false, false, false, false, false, false]) rfl rfl rules hu.1 hu.2)
        (flatten_exact hr (show b!"flatten" ∈ [wRules, b!"flatten", b!"ref"] by simp) hfbF
          pi_ObjectField_flatten rfl rfl flatten)) ?_
      exact refBody_exact hr (show b!"ref" ∈ [wRules, b!"flatten", b!"ref"] by simp) hfbRef
        pi_ObjectField_ref rfl rfl
        (by intro g hg; cases hg; rfl) hd hoks hokp

end J5V.Walker
