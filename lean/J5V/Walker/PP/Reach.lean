import J5V.Walker.PP.Rules
/-!
# Print/parse: how the body lines of a field reach the type's message

The body lines of a field (`fieldBody f pfx ek`) address the type's block through the prefix `pfx`:
`[]` for a directly typed property (the type block is in the scope, behind blocks that do not know the
names used), `[items, KIND]` / `[itemSchema, KIND]` for the item type of an array / a map (every line
first walks the prefix, through containers that exist already, to the singleton scope of the type block).
`BodyReach` abstracts both: where the first name of a line is looked up, and how the type's message `Y`
sits in the state below the address `a` of the statement (`C Y`, at `a ++ b`).
-/
namespace J5V.Walker
open J5V.Bcl

/-- the path element of an identifier written in the file -/
abbrev pathElem (s : Str) : PathElement := ⟨s, some Span.zero⟩

theorem walkScope_append (env : Env) (sc : Scope) (l1 l2 : List PathElement) (S : Node) :
    walkScope env sc (l1 ++ l2) S =
      match walkScope env sc l1 S with
      | .ok (s1, S1) => walkScope env s1 l2 S1
      | .err e => .err e
      | .panic w => .panic w := by
  induction l1 generalizing sc S with
  | nil => rw [List.nil_append]; rfl
  | cons id rest ih =>
    rw [List.cons_append, walkScope, walkScope]
    dsimp only
    cases childBlock env sc id.name S with
    | ok r1 =>
      obtain ⟨next, S1⟩ := r1
      exact ih next S1
    | err e =>
      dsimp only
      split
      · rfl
      · split <;> rfl
    | panic w => rfl

theorem walkScope_append_exact {env : Env} {sc s1 r : Scope} {l1 l2 : List PathElement} {a : Addr}
    {X X1 X2 : Node}
    (h1 : Exact (walkScope env sc l1) a X s1 X1) (h2 : Exact (walkScope env s1 l2) a X1 r X2) :
    Exact (walkScope env sc (l1 ++ l2)) a X r X2 := by
  intro S hS
  rw [walkScope_append, h1 S hS]
  dsimp only
  rw [h2 _ (Node.get?_set_self' hS X1), Node.set_set]

/-- how the lines of a field body (prefix `pfx`) reach the type block `tcf` at `a ++ b`; `C Y` is the state
below `a` when the type's message is `Y`; `names`: the first names of the lines -/
structure BodyReach (sc : Scope) (pfx : List Str) (tcf : ContainerField) (a b : Addr) (C : Node → Node)
    (names : List Str) : Prop where
  get : ∀ Y, (C Y).get? b = some Y
  set : ∀ Y Y', (C Y).set b Y' = C Y'
  ascii : ∀ s ∈ pfx, isAscii s = true
  first : ∃ sc' : Scope, (∀ Y, Exact (walkScope j5Env sc (pfx.map pathElem)) a (C Y) sc' (C Y)) ∧
    ∀ n ∈ names, findBlock n sc'.blockSet = findBlock n [tcf]

theorem findBlock_cons_of_isSome {n : Str} {b : ContainerField} {rest : List ContainerField}
    (h : (findBlock n [b]).isSome = true) : findBlock n (b :: rest) = findBlock n [b] := by
  simp only [findBlock] at h ⊢
  split
  · rfl
  · rename_i ha
    rw [ha] at h
    dsimp only at h
    split
    · rfl
    · rename_i hp
      rw [if_neg hp] at h
      cases h

/-- the directly typed property: the type block is in the scope, behind blocks that miss the names -/
theorem BodyReach.direct {sc : Scope} {tcf : ContainerField} {outer tail : List ContainerField} {d : Addr}
    {names : List Str}
    (hbs : sc.blockSet = outer ++ tcf :: tail)
    (hmiss : ∀ n ∈ names, ∀ o ∈ outer, Misses o n)
    (hfound : ∀ n ∈ names, (findBlock n [tcf]).isSome = true) :
    BodyReach sc [] tcf d [] id names where
  get := fun Y => Node.get?_nil Y
  set := fun Y Y' => Node.set_nil Y Y'
  ascii := by simp
  first := ⟨sc, fun Y => walkScope_nil _ _ _, fun n hn => by
    rw [hbs, findBlock_skip_all (hmiss n hn), findBlock_cons_of_isSome (hfound n hn)]⟩

theorem combinePath_refOf_concat {pfx : List Str} (hpfx : ∀ s ∈ pfx, isAscii s = true) {n : Str}
    (hn : isAscii n = true) :
    combinePath [] (refOf (pfx ++ [n])).idents = pfx.map pathElem ++ [pathElem n] := by
  rw [combinePath_refOf]
  · simp
  · intro s hs
    simp only [List.mem_append, List.mem_singleton] at hs
    rcases hs with hs | rfl
    · exact hpfx s hs
    · exact hn

section
variable {sc : Scope} {pfx : List Str} {sT : Schema} {specT : BlockSpec} {a b : Addr} {C : Node → Node}
  {names : List Str}

/-- a line `pfx.n = val` that sets the scalar property `final` (`n` is `final` or an alias of length one
of the type block), not touched yet -/
theorem BodyReach.attr (hr : BodyReach sc pfx (cfOf sT specT (a ++ b)) a b C names) {n final : Str}
    (hn : n ∈ names) (hna : isAscii n = true)
    (hfb : findBlock n [cfOf sT specT (a ++ b)] = some (cfOf sT specT (a ++ b), [final]))
    {i : Nat} {og : Option (Str × List Nat)} {ty : FieldType} {pres : Bool}
    (hpi : propInfo j5Env sT final = some (i, og, .scalar ty pres))
    {t : List Bool} {vs : List Node} {cur : Node}
    (ht : t[i]? = some false) (hv : vs[i]? = some cur) (hconf : NoConflict og vs)
    {val : Value} {v : Scalar}
    (hva : (AV.value val).asArray = none) (hsc : scalarFromAST j5Env ty (.value val) = .ok v) :
    Exact (doStatement j5Env sc (assignStmt (pfx ++ [n]) val)) a (C (.msg t vs)) ()
      (C (.msg (t.set i true) (vs.set i (storeNode pres v)))) := by
  obtain ⟨sc', hwalk, hfind⟩ := hr.first
  refine doStatement_assign ?_
  have h := setAttr_walk (combinePath_refOf_concat hr.ascii hna) (hwalk _)
    (by rw [hfind n hn]; exact hfb) hpi (hr.get _) ht hv hconf hva hsc
  rw [hr.set] at h
  exact h

/-- the lines `pfx.rules.NAME = LIT` of a field whose type message `.msg t vs` has the `rules` slot `ri`
untouched -/
theorem BodyReach.rules (hr : BodyReach sc pfx (cfOf sT specT (a ++ b)) a b C names) (hn : wRules ∈ names)
    {sR : Schema} {specR : BlockSpec} (hR : RulesSchemaOK sR specR)
    (hfb : findBlock wRules [cfOf sT specT (a ++ b)] = some (cfOf sT specT (a ++ b), [wRules]))
    {ri : Nat} (hpi : propInfo j5Env sT wRules = some (ri, none, .container sR))
    (hspec : ∀ c, specOf j5Env ⟨c, .msg sR⟩ = .ok specR)
    {t : List Bool} {vs : List Node} (ht : t[ri]? = some false) (hv : vs[ri]? = some .absent)
    (rules : J5V.Compile.Rules)
    (hok : rules.all (fun r => ruleOk sR r && strOk r.lit) = true)
    (hdist : distinct (rules.map (·.name)) = true) :
    Exact (doBody j5Env sc (rulesBcl pfx rules)) a (C (.msg t vs)) ()
      (C (.msg (t.set ri (!rules.isEmpty)) (vs.set ri (contSlot sR (rules.map (ruleVal sR)))))) := by
  obtain ⟨sc', hwalk, hfind⟩ := hr.first
  have hlt : ri < t.length := (List.getElem?_eq_some_iff.mp ht).1
  have hlv : ri < vs.length := (List.getElem?_eq_some_iff.mp hv).1
  let St : List (Str × Node) → Node := fun vals =>
    C (.msg (t.set ri (!vals.isEmpty)) (vs.set ri (contSlot sR vals)))
  let St1 : List (Str × Node) → Node := fun vals => C (.msg (t.set ri true) (vs.set ri (mkMsgS sR vals)))
  have h := rulesBody_exact hR (sc := sc) (pfx := pfx) (a := a) (b := b ++ [ri]) (St := St) (St1 := St1)
    hr.ascii ?_ ?_ ?_ rules hok hdist [] (fun _ _ => rfl)
  · have e0 : St [] = C (.msg t vs) := by
      show C (Node.msg (t.set ri (![].isEmpty)) (vs.set ri (contSlot sR []))) = _
      rw [list_set_self (show t[ri]? = some (!([] : List (Str × Node)).isEmpty) from ht),
        list_set_self (show vs[ri]? = some (contSlot sR []) from hv)]
    rw [e0, List.nil_append] at h
    have e1 : (rules.map (ruleVal sR)).isEmpty = rules.isEmpty := by cases rules <;> rfl
    rw [← e1]
    exact h
  · intro vals
    rw [List.map_append]
    refine walkScope_append_exact (hwalk _) (walkScope_cons ?_ (walkScope_nil _ _ _))
    have hps := (propSetValue_contSlot (c := a ++ b) (t := t.set ri (!vals.isEmpty))
      (vs := vs.set ri (contSlot sR vals)) (vals := vals) hpi (by rw [List.getElem?_set_self hlt])
      (by rw [List.getElem?_set_self hlv])).lift (hr.get _)
    rw [List.set_set, List.set_set, hr.set] at hps
    have hc := childBlock_of_walkPath (n := wRules) (sc := sc') (by rw [hfind _ hn]; exact hfb)
      (walkPath_container (propInfo_hasProperty hpi) hps (walkRest_nil _ _ _))
      (setSpecs_cons (hspec _) (setSpecs_nil _))
    rw [List.append_assoc] at hc
    exact hc
  · intro vals
    show (C _).get? (b ++ [ri]) = _
    rw [Node.get?_append, hr.get, Option.bind_some]
    exact Node.get?_msg_single _ _ _ _ (by rw [List.getElem?_set_self hlv])
  · intro vals kv
    show (C (Node.msg (t.set ri true) (vs.set ri (mkMsgS sR vals)))).set (b ++ [ri]) _ = _
    rw [Node.set_append (hr.get _), hr.set,
      Node.set_msg_single _ _ _ (mkMsgS sR vals) _ (by rw [List.getElem?_set_self hlv]), List.set_set]
    show _ = C (Node.msg (t.set ri (!(vals ++ [kv]).isEmpty)) (vs.set ri (contSlot sR (vals ++ [kv]))))
    have : (vals ++ [kv]).isEmpty = false := by simp
    rw [this]
    simp only [contSlot, this, Bool.not_false, Bool.false_eq_true, if_false]

/-- the walk `pfx.n` into a container property of the type block that exists already (cached wrapper) -/
theorem BodyReach.walk_cached (hr : BodyReach sc pfx (cfOf sT specT (a ++ b)) a b C names) {n pn : Str}
    (hn : n ∈ names)
    (hfb : findBlock n [cfOf sT specT (a ++ b)] = some (cfOf sT specT (a ++ b), [pn]))
    {i : Nat} {og : Option (Str × List Nat)} {s' : Schema} {spec' : BlockSpec}
    (hpi : propInfo j5Env sT pn = some (i, og, .container s'))
    (hspec : ∀ c, specOf j5Env ⟨c, .msg s'⟩ = .ok spec')
    {t : List Bool} {vs : List Node} (ht : t[i]? = some true) :
    Exact (walkScope j5Env sc ((pfx ++ [n]).map pathElem)) a (C (.msg t vs))
      (Scope.newChild (cfOf s' spec' (a ++ b ++ [i]))) (C (.msg t vs)) := by
  obtain ⟨sc', hwalk, hfind⟩ := hr.first
  rw [List.map_append]
  refine walkScope_append_exact (hwalk _) (walkScope_cons ?_ (walkScope_nil _ _ _))
  have hps := (propSetValue_cached (c := a ++ b) (vs := vs) hpi ht).lift (hr.get _)
  rw [hr.set] at hps
  exact childBlock_of_walkPath (n := n) (sc := sc') (by rw [hfind _ hn]; exact hfb)
    (walkPath_container (propInfo_hasProperty hpi) hps (walkRest_nil _ _ _))
    (setSpecs_cons (hspec _) (setSpecs_nil _))

/-- the walk `pfx.n` into a container property of the type block that is created by it -/
theorem BodyReach.walk_build (hr : BodyReach sc pfx (cfOf sT specT (a ++ b)) a b C names) {n pn : Str}
    (hn : n ∈ names)
    (hfb : findBlock n [cfOf sT specT (a ++ b)] = some (cfOf sT specT (a ++ b), [pn]))
    {i : Nat} {og : Option (Str × List Nat)} {s' : Schema} {spec' : BlockSpec}
    (hpi : propInfo j5Env sT pn = some (i, og, .container s'))
    (hspec : ∀ c, specOf j5Env ⟨c, .msg s'⟩ = .ok spec')
    {t : List Bool} {vs : List Node} {cur : Node} (ht : t[i]? = some false) (hv : vs[i]? = some cur)
    (hconf : NoConflict og vs) :
    Exact (walkScope j5Env sc ((pfx ++ [n]).map pathElem)) a (C (.msg t vs))
      (Scope.newChild (cfOf s' spec' (a ++ b ++ [i])))
      (C (.msg (t.set i true) (vs.set i (builtValue (.container s') cur)))) := by
  obtain ⟨sc', hwalk, hfind⟩ := hr.first
  rw [List.map_append]
  refine walkScope_append_exact (hwalk _) (walkScope_cons ?_ (walkScope_nil _ _ _))
  have hps := (propSetValue_build (c := a ++ b) false hpi ht hv hconf).lift (hr.get _)
  rw [hr.set] at hps
  exact childBlock_of_walkPath (n := n) (sc := sc') (by rw [hfind _ hn]; exact hfb)
    (walkPath_container (propInfo_hasProperty hpi) hps (walkRest_nil _ _ _))
    (setSpecs_cons (hspec _) (setSpecs_nil _))

/-- reach extended by one name: the lines `pfx.n.…` reach the container in slot `i` of the type message
(touched already: every line takes the cached wrapper), whatever that container holds -/
theorem BodyReach.extend_cached (hr : BodyReach sc pfx (cfOf sT specT (a ++ b)) a b C names) {n pn : Str}
    (hn : n ∈ names) (hna : isAscii n = true)
    (hfb : findBlock n [cfOf sT specT (a ++ b)] = some (cfOf sT specT (a ++ b), [pn]))
    {i : Nat} {og : Option (Str × List Nat)} {s' : Schema} {spec' : BlockSpec}
    (hpi : propInfo j5Env sT pn = some (i, og, .container s'))
    (hspec : ∀ c, specOf j5Env ⟨c, .msg s'⟩ = .ok spec')
    {t : List Bool} {vs : List Node} (ht : t[i]? = some true) (hlt : i < vs.length) (names' : List Str) :
    BodyReach sc (pfx ++ [n]) (cfOf s' spec' (a ++ (b ++ [i]))) a (b ++ [i])
      (fun Y => C (.msg t (vs.set i Y))) names' where
  get := fun Y => by
    rw [Node.get?_append, hr.get, Option.bind_some]
    exact Node.get?_msg_single _ _ _ _ (by rw [List.getElem?_set_self hlt])
  set := fun Y Y' => by
    rw [Node.set_append (hr.get _), hr.set,
      Node.set_msg_single _ _ _ Y _ (by rw [List.getElem?_set_self hlt]), List.set_set]
  ascii := by
    intro s hs
    simp only [List.mem_append, List.mem_singleton] at hs
    rcases hs with hs | rfl
    · exact hr.ascii s hs
    · exact hna
  first := ⟨Scope.newChild (cfOf s' spec' (a ++ (b ++ [i]))), fun Y => by
    have h := hr.walk_cached (vs := vs.set i Y) hn hfb hpi hspec ht
    rw [List.append_assoc] at h
    exact h, fun _ _ => rfl⟩

end

end J5V.Walker
