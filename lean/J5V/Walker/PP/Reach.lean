import J5V.Walker.PP.Rules
/-!
# Print/parse: how the body lines of a field reach the type's message

The body lines of a field (`fieldBody f pfx ek`) address the type's block through the prefix `pfx`:
`[]` for a directly typed property (the type block is in the scope, behind blocks that do not know the
names used), `[items, KIND]` / `[itemSchema, KIND]` for the item type of an array / a map (every line
first walks the prefix, through containers that exist already, to the singleton scope of the type block).
`BodyReach` abstracts both: where the first name of a line is looked up, and how the block's message sits
in the state below the address `a` of the statement (`C o`, at `a ++ b`). The message may not exist yet
(`o = none`): a container such as `rules`, `ref`, `listRules.filtering` is CREATED by the first line that
walks into it — `BodyReach.child` extends a reach into such a lazy child, `BodyReach.child_touched` into a
child that exists already.
-/
namespace J5V.Walker
open J5V.Bcl

/-- the path element of an identifier written in the file -/
abbrev pathElem (s : Str) : PathElement := ⟨s, some Span.zero⟩

theorem walkScope_append (env : Env) (sc : Scope) (l1 l2 : List PathElement) (S : Node) :
    walkScope env sc (l1 ++ l2) S =
      match walkScope env sc l1 S with
      | .ok (s1, S1) => walkScope env s1 l2 S1
      | .err e => .err e
      | .panic w => .panic w := by
  induction l1 generalizing sc S with
  | nil => rw [List.nil_append]; rfl
  | cons id rest ih =>
    rw [List.cons_append, walkScope, walkScope]
    dsimp only
    cases childBlock env sc id.name S with
    | ok r1 =>
      obtain ⟨next, S1⟩ := r1
      exact ih next S1
    | err e =>
      dsimp only
      split
      · rfl
      · split <;> rfl
    | panic w => rfl

theorem walkScope_append_exact {env : Env} {sc s1 r : Scope} {l1 l2 : List PathElement} {a : Addr}
    {X X1 X2 : Node}
    (h1 : Exact (walkScope env sc l1) a X s1 X1) (h2 : Exact (walkScope env s1 l2) a X1 r X2) :
    Exact (walkScope env sc (l1 ++ l2)) a X r X2 := by
  intro S hS
  rw [walkScope_append, h1 S hS]
  dsimp only
  rw [h2 _ (Node.get?_set_self' hS X1), Node.set_set]

/-- how the lines `pfx.NAME… = …` reach the block of schema `s` at `a ++ b`. `C o` is the state below `a`
when the block's message is `o` (`none`: not created yet). Walking the prefix creates the message if it
has to (`o.getD (freshMsg s)`). `P`: the first names of the lines. -/
structure BodyReach (sc : Scope) (pfx : List Str) (s : Schema) (spec : BlockSpec) (a b : Addr)
    (C : Option Node → Node) (P : Str → Prop) : Prop where
  ascii : ∀ x ∈ pfx, isAscii x = true
  get : ∀ Y, (C (some Y)).get? b = some Y
  set : ∀ Y Y', (C (some Y)).set b Y' = C (some Y')
  walk : ∃ sc' : Scope,
    (∀ o, Exact (walkScope j5Env sc (pfx.map pathElem)) a (C o) sc' (C (some (o.getD (freshMsg s))))) ∧
    ∀ n, P n → findBlock n sc'.blockSet = findBlock n [cfOf s spec (a ++ b)]

theorem findBlock_cons_of_isSome {n : Str} {b : ContainerField} {rest : List ContainerField}
    (h : (findBlock n [b]).isSome = true) : findBlock n (b :: rest) = findBlock n [b] := by
  simp only [findBlock] at h ⊢
  split
  · rfl
  · rename_i ha
    rw [ha] at h
    dsimp only at h
    split
    · rfl
    · rename_i hp
      rw [if_neg hp] at h
      cases h

/-- the directly typed property: the type block is in the scope, behind blocks that miss the names -/
theorem BodyReach.direct {sc : Scope} {s : Schema} {spec : BlockSpec} {outer tail : List ContainerField}
    {d : Addr} {names : List Str}
    (hbs : sc.blockSet = outer ++ cfOf s spec d :: tail)
    (hmiss : ∀ n ∈ names, ∀ o ∈ outer, Misses o n)
    (hfound : ∀ n ∈ names, (findBlock n [cfOf s spec d]).isSome = true) :
    BodyReach sc [] s spec d [] (fun o => o.getD (freshMsg s)) (· ∈ names) where
  ascii := by simp
  get := fun Y => Node.get?_nil Y
  set := fun Y Y' => Node.set_nil Y Y'
  walk := ⟨sc, fun o => walkScope_nil _ _ _, fun n hn => by
    rw [List.append_nil, hbs, findBlock_skip_all (hmiss n hn), findBlock_cons_of_isSome (hfound n hn)]⟩

theorem combinePath_refOf_concat {pfx : List Str} (hpfx : ∀ s ∈ pfx, isAscii s = true) {n : Str}
    (hn : isAscii n = true) :
    combinePath [] (refOf (pfx ++ [n])).idents = pfx.map pathElem ++ [pathElem n] := by
  rw [combinePath_refOf]
  · simp
  · intro s hs
    simp only [List.mem_append, List.mem_singleton] at hs
    rcases hs with hs | rfl
    · exact hpfx s hs
    · exact hn

section
variable {sc : Scope} {pfx : List Str} {s : Schema} {spec : BlockSpec} {a b : Addr} {C : Option Node → Node}
  {P : Str → Prop}

/-- a reach serves fewer names as well -/
theorem BodyReach.mono (hr : BodyReach sc pfx s spec a b C P) {Q : Str → Prop} (h : ∀ n, Q n → P n) :
    BodyReach sc pfx s spec a b C Q where
  ascii := hr.ascii
  get := hr.get
  set := hr.set
  walk := by
    obtain ⟨sc', hwalk, hfind⟩ := hr.walk
    exact ⟨sc', hwalk, fun n hn => hfind n (h n hn)⟩

/-- a line `pfx.n = val` that sets the scalar property `final` (`n` is `final` or an alias of length one
of the block), not touched yet -/
theorem BodyReach.attr (hr : BodyReach sc pfx s spec a b C P) (o : Option Node) {t : List Bool} {vs : List Node}
    (hM : o.getD (freshMsg s) = .msg t vs) {n final : Str} (hn : P n) (hna : isAscii n = true)
    (hfb : findBlock n [cfOf s spec (a ++ b)] = some (cfOf s spec (a ++ b), [final]))
    {i : Nat} {og : Option (Str × List Nat)} {ty : FieldType} {pres : Bool}
    (hpi : propInfo j5Env s final = some (i, og, .scalar ty pres))
    {cur : Node} (ht : t[i]? = some false) (hv : vs[i]? = some cur) (hconf : NoConflict og vs)
    {val : Value} {v : Scalar}
    (hva : (AV.value val).asArray = none) (hsc : scalarFromAST j5Env ty (.value val) = .ok v) :
    Exact (doStatement j5Env sc (assignStmt (pfx ++ [n]) val)) a (C o) ()
      (C (some (.msg (t.set i true) (vs.set i (storeNode pres v))))) := by
  obtain ⟨sc', hwalk, hfind⟩ := hr.walk
  refine doStatement_assign ?_
  have hw := hwalk o
  rw [hM] at hw
  have h := setAttr_walk (combinePath_refOf_concat hr.ascii hna) hw
    (by rw [hfind n hn]; exact hfb) hpi (hr.get _) ht hv hconf hva hsc
  rw [hr.set] at h
  exact h

/-- a line `pfx.n = ["x", …]` into an array-of-strings property, not touched yet -/
theorem BodyReach.attr_strs (hr : BodyReach sc pfx s spec a b C P) (o : Option Node) {t : List Bool}
    {vs : List Node} (hM : o.getD (freshMsg s) = .msg t vs) {n final : Str} (hn : P n) (hna : isAscii n = true)
    (hfb : findBlock n [cfOf s spec (a ++ b)] = some (cfOf s spec (a ++ b), [final]))
    {i : Nat} {og : Option (Str × List Nat)}
    (hpi : propInfo j5Env s final = some (i, og, .arrayOfScalar (.scalar .string)))
    (ht : t[i]? = some false) (hv : vs[i]? = some .absent) (hconf : NoConflict og vs)
    {x : Str} {xs : List Str} (hok : (x :: xs).all okString = true) :
    Exact (doStatement j5Env sc (assignStmt (pfx ++ [n]) (strsValue (x :: xs)))) a (C o) ()
      (C (some (.msg (t.set i true) (vs.set i (.list ((x :: xs).map fun s => .scalar (.str s))))))) := by
  obtain ⟨sc', hwalk, hfind⟩ := hr.walk
  refine doStatement_assign ?_
  have hw := hwalk o
  rw [hM] at hw
  have h := setAttr_walk_strs (combinePath_refOf_concat hr.ascii hna) hw
    (by rw [hfind n hn]; exact hfb) hpi (hr.get _) ht hv hconf hok
  rw [hr.set] at h
  exact h

/-- reach extended into a container-typed property `pn` (slot `i`) that does NOT exist yet in the block's
current message `.msg tp vsp`: the first line that walks `pfx.n` creates it -/
theorem BodyReach.child (hr : BodyReach sc pfx s spec a b C P) (op : Option Node) {tp : List Bool}
    {vsp : List Node} (hM : op.getD (freshMsg s) = .msg tp vsp) {n pn : Str} (hn : P n)
    (hna : isAscii n = true)
    (hfb : findBlock n [cfOf s spec (a ++ b)] = some (cfOf s spec (a ++ b), [pn]))
    {i : Nat} {og : Option (Str × List Nat)} {s' : Schema} {spec' : BlockSpec}
    (hpi : propInfo j5Env s pn = some (i, og, .container s'))
    (hspec : ∀ c, specOf j5Env ⟨c, .msg s'⟩ = .ok spec')
    (ht : tp[i]? = some false) (hv : vsp[i]? = some .absent) (hconf : NoConflictAt s i og vsp) :
    BodyReach sc (pfx ++ [n]) s' spec' a (b ++ [i])
      (fun o' => C (match o' with
        | none => op
        | some Y => some (.msg (tp.set i true) (vsp.set i Y)))) (fun _ => True) where
  ascii := by
    intro x hx
    simp only [List.mem_append, List.mem_singleton] at hx
    rcases hx with hx | rfl
    · exact hr.ascii x hx
    · exact hna
  get := fun Y => by
    have hlt : i < vsp.length := (List.getElem?_eq_some_iff.mp hv).1
    show (C (some _)).get? (b ++ [i]) = some Y
    rw [Node.get?_append, hr.get, Option.bind_some]
    exact Node.get?_msg_single _ _ _ _ (by rw [List.getElem?_set_self hlt])
  set := fun Y Y' => by
    have hlt : i < vsp.length := (List.getElem?_eq_some_iff.mp hv).1
    show (C (some _)).set (b ++ [i]) Y' = C (some _)
    rw [Node.set_append (hr.get _), hr.set,
      Node.set_msg_single _ _ _ Y _ (by rw [List.getElem?_set_self hlt]), List.set_set]
  walk := by
    obtain ⟨sc', hwalk, hfind⟩ := hr.walk
    have hlt : i < vsp.length := (List.getElem?_eq_some_iff.mp hv).1
    have hltt : i < tp.length := (List.getElem?_eq_some_iff.mp ht).1
    refine ⟨Scope.newChild (cfOf s' spec' (a ++ (b ++ [i]))), ?_, fun _ _ => rfl⟩
    intro o'
    rw [List.map_append]
    cases o' with
    | none =>
      -- the prefix, then the child is built
      have hw := hwalk op
      rw [hM] at hw
      refine walkScope_append_exact hw (walkScope_cons ?_ (walkScope_nil _ _ _))
      have hps := (propSetValue_build' (c := a ++ b) false hpi ht hv hconf).lift (hr.get _)
      rw [hr.set] at hps
      have hc := childBlock_of_walkPath (n := n) (sc := sc') (by rw [hfind _ hn]; exact hfb)
        (walkPath_container (propInfo_hasProperty hpi) hps (walkRest_nil _ _ _))
        (setSpecs_cons (hspec _) (setSpecs_nil _))
      rw [List.append_assoc] at hc
      exact hc
    | some Y =>
      have hw := hwalk (some (.msg (tp.set i true) (vsp.set i Y)))
      refine walkScope_append_exact hw (walkScope_cons ?_ (walkScope_nil _ _ _))
      have hps := (propSetValue_cached (c := a ++ b) (vs := vsp.set i Y) hpi
        (show (tp.set i true)[i]? = some true by rw [List.getElem?_set_self hltt])).lift (hr.get _)
      rw [hr.set] at hps
      have hc := childBlock_of_walkPath (n := n) (sc := sc') (by rw [hfind _ hn]; exact hfb)
        (walkPath_container (propInfo_hasProperty hpi) hps (walkRest_nil _ _ _))
        (setSpecs_cons (hspec _) (setSpecs_nil _))
      rw [List.append_assoc] at hc
      exact hc

/-- reach extended into a container-typed property `pn` (slot `i`) that EXISTS in the block's current
message (a qualifier created it): every line takes the cached wrapper; `C'` replaces its content -/
theorem BodyReach.child_touched (hr : BodyReach sc pfx s spec a b C P) (tp : List Bool) (vsp : List Node)
    {n pn : Str} (hn : P n) (hna : isAscii n = true)
    (hfb : findBlock n [cfOf s spec (a ++ b)] = some (cfOf s spec (a ++ b), [pn]))
    {i : Nat} {og : Option (Str × List Nat)} {s' : Schema} {spec' : BlockSpec}
    (hpi : propInfo j5Env s pn = some (i, og, .container s'))
    (hspec : ∀ c, specOf j5Env ⟨c, .msg s'⟩ = .ok spec')
    (ht : tp[i]? = some true) (hlt : i < vsp.length) :
    BodyReach sc (pfx ++ [n]) s' spec' a (b ++ [i])
      (fun o' => C (some (.msg tp (vsp.set i (o'.getD (freshMsg s')))))) (fun _ => True) where
  ascii := by
    intro x hx
    simp only [List.mem_append, List.mem_singleton] at hx
    rcases hx with hx | rfl
    · exact hr.ascii x hx
    · exact hna
  get := fun Y => by
    show (C (some _)).get? (b ++ [i]) = some Y
    rw [Node.get?_append, hr.get, Option.bind_some]
    exact Node.get?_msg_single _ _ _ _ (by rw [List.getElem?_set_self hlt]; rfl)
  set := fun Y Y' => by
    show (C (some _)).set (b ++ [i]) Y' = C (some _)
    rw [Node.set_append (hr.get _), hr.set,
      Node.set_msg_single _ _ _ Y _ (by rw [List.getElem?_set_self hlt]; rfl), List.set_set]
    rfl
  walk := by
    obtain ⟨sc', hwalk, hfind⟩ := hr.walk
    refine ⟨Scope.newChild (cfOf s' spec' (a ++ (b ++ [i]))), ?_, fun _ _ => rfl⟩
    intro o'
    rw [List.map_append]
    have hw := hwalk (some (.msg tp (vsp.set i (o'.getD (freshMsg s')))))
    refine walkScope_append_exact hw (walkScope_cons ?_ (walkScope_nil _ _ _))
    have hps := (propSetValue_cached (c := a ++ b) (vs := vsp.set i (o'.getD (freshMsg s'))) hpi ht).lift
      (hr.get _)
    rw [hr.set] at hps
    have hc := childBlock_of_walkPath (n := n) (sc := sc') (by rw [hfind _ hn]; exact hfb)
      (walkPath_container (propInfo_hasProperty hpi) hps (walkRest_nil _ _ _))
      (setSpecs_cons (hspec _) (setSpecs_nil _))
    rw [List.append_assoc] at hc
    exact hc

/-- one rule line `pfx.NAME = LIT` (`pfx` ends in `rules`), the rules message holding `vals` -/
theorem BodyReach.ruleLine {sR : Schema} {specR : BlockSpec} (hR : RulesSchemaOK sR specR)
    (hr : BodyReach sc pfx sR specR a b C (fun _ => True)) (o : Option Node) {vals : List (Str × Node)}
    (hM : o.getD (freshMsg sR) = mkMsgS sR vals) {r : J5V.Compile.Rule}
    (hok : ruleOk sR r = true) (hstr : strOk r.lit = true) (hnew : lookupVal r.name vals = none) :
    Exact (doStatement j5Env sc (assignStmt (pfx ++ [r.name]) (litValue r.lit))) a (C o) ()
      (C (some (mkMsgS sR (vals ++ [ruleVal sR r])))) := by
  obtain ⟨sc', hwalk, hfind⟩ := hr.walk
  have hident : isIdent r.name = true := by
    simp only [ruleOk, Bool.and_eq_true] at hok; exact hok.1
  have hw := hwalk o
  rw [hM] at hw
  have h := ruleLine_exact hR (combinePath_refOf_concat hr.ascii (isAscii_of_isIdent hident)) hw
    (fun n => hfind n trivial) (hr.get _) hok hstr hnew
  rw [hr.set] at h
  exact h

/-- the rule lines, with the accumulator `vals0` -/
theorem BodyReach.rulesFold {sR : Schema} {specR : BlockSpec} (hR : RulesSchemaOK sR specR)
    {pfx0 : List Str} (hr : BodyReach sc (pfx0 ++ [wRules]) sR specR a b C (fun _ => True))
    (rules : J5V.Compile.Rules)
    (hok : rules.all (fun r => ruleOk sR r && strOk r.lit) = true)
    (hdist : distinct (rules.map (·.name)) = true)
    (o : Option Node) (vals0 : List (Str × Node)) (hM : o.getD (freshMsg sR) = mkMsgS sR vals0)
    (hfresh : ∀ r ∈ rules, lookupVal r.name vals0 = none) :
    Exact (doBody j5Env sc (rulesBcl pfx0 rules)) a (C o) ()
      (C (if rules.isEmpty then o else some (mkMsgS sR (vals0 ++ rules.map (ruleVal sR))))) := by
  induction rules generalizing o vals0 with
  | nil => exact doBody_nil _ _ _
  | cons r rest ih =>
    simp only [List.all_cons, Bool.and_eq_true] at hok
    obtain ⟨⟨hrok, hrstr⟩, hrest⟩ := hok
    simp only [List.map_cons, distinct, Bool.and_eq_true, Bool.not_eq_true', List.contains_eq_mem,
      decide_eq_false_iff_not] at hdist
    have h1 := hr.ruleLine hR o hM hrok hrstr (hfresh r (by simp))
    have hkey : pfx0 ++ [wRules] ++ [r.name] = pfx0 ++ [wRules, r.name] := by simp
    rw [hkey] at h1
    have h2 := ih hrest hdist.2 (some (mkMsgS sR (vals0 ++ [ruleVal sR r]))) (vals0 ++ [ruleVal sR r]) rfl (by
      intro r' hr'
      rw [lookupVal_append_pair_ne _ _ _ (ruleVal_fst sR r)]
      · exact hfresh r' (List.mem_cons_of_mem _ hr')
      · intro e
        exact hdist.1 (by rw [← e]; exact List.mem_map_of_mem hr'))
    simp only [rulesBcl, List.map_cons, List.isEmpty_cons, Bool.false_eq_true, if_false]
    refine doBody_cons h1 (h2.conv ?_)
    cases rest with
    | nil => simp
    | cons r2 rest2 => simp

/-- the lines `pfx.rules.NAME = LIT` of a block whose current message `.msg t vs` has the `rules` slot `ri`
untouched -/
theorem BodyReach.rules (hr : BodyReach sc pfx s spec a b C P) (hn : P wRules)
    {sR : Schema} {specR : BlockSpec} (hR : RulesSchemaOK sR specR)
    (hfb : findBlock wRules [cfOf s spec (a ++ b)] = some (cfOf s spec (a ++ b), [wRules]))
    {ri : Nat} (hpi : propInfo j5Env s wRules = some (ri, none, .container sR))
    (hspec : ∀ c, specOf j5Env ⟨c, .msg sR⟩ = .ok specR)
    {t : List Bool} {vs : List Node} (ht : t[ri]? = some false) (hv : vs[ri]? = some .absent)
    (rules : J5V.Compile.Rules)
    (hok : rules.all (fun r => ruleOk sR r && strOk r.lit) = true)
    (hdist : distinct (rules.map (·.name)) = true) :
    Exact (doBody j5Env sc (rulesBcl pfx rules)) a (C (some (.msg t vs))) ()
      (C (some (.msg (t.set ri (!rules.isEmpty)) (vs.set ri (contSlot sR (rules.map (ruleVal sR))))))) := by
  have hrR := hr.child (some (.msg t vs)) rfl hn (by decide) hfb hpi hspec ht hv (fun g hg => by cases hg)
  have h := hrR.rulesFold hR rules hok hdist none [] (freshMsg_eq_mkMsgS sR) (fun _ _ => rfl)
  refine h.conv ?_
  cases rules with
  | nil =>
    show C (some (.msg t vs)) = _
    rw [list_set_self (show t[ri]? = some (!([] : J5V.Compile.Rules).isEmpty) from ht),
      list_set_self (show vs[ri]? = some (contSlot sR (([] : J5V.Compile.Rules).map (ruleVal sR))) from hv)]
  | cons r rest => rfl

end

end J5V.Walker
