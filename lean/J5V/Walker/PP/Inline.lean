import J5V.Walker.PP.SliceGen
/-!
# Print/parse: inline types — the inner declaration of an object / oneof / enum field

The type message of the field (`holder`) has a container slot `ci` (`object` / `oneof` / `enum`) for the
inner declaration, created by the first line or block that needs it; the inner declaration has an array
slot `ai` (`properties` / `options`) that the block statements (`field` / `option`) of the body append to,
through the alias `kw → [cname, aname]` of the type block.
* `holder`, `innerOpt`: the states; `innerChildBlock_exact`: `ChildBlock(kw)` appends a fresh element;
* `StepsAll` / `steps_fold`: statements that take `St xs` to `St (xs ++ [m])`, one after the other.
-/
namespace J5V.Walker
open J5V.Bcl

/-- the type message with the inner declaration `o` in slot `ci` (`tT`, `vsT`: the slot untouched) -/
def holder (tT : List Bool) (vsT : List Node) (ci : Nat) (o : Option Node) : Node :=
  .msg (tT.set ci o.isSome) (vsT.set ci (o.getD .absent))

/-- the inner declaration when its array holds `xs`: as it was (`oI0`) while `xs` is empty -/
def innerOpt (oI0 : Option Node) (tI : List Bool) (vsI : List Node) (ai : Nat) (xs : List Node) : Option Node :=
  if xs.isEmpty then oI0 else some (.msg (tI.set ai true) (vsI.set ai (.list xs)))

theorem innerOpt_concat (oI0 : Option Node) (tI : List Bool) (vsI : List Node) (ai : Nat) (xs : List Node)
    (m : Node) :
    innerOpt oI0 tI vsI ai (xs ++ [m]) = some (.msg (tI.set ai true) (vsI.set ai (.list (xs ++ [m])))) := by
  unfold innerOpt
  rw [if_neg (by simp)]

/-- `walkPath [cname, aname]` from the type block at `d`: the inner declaration is entered (created if it
has to be) and a fresh element appended to its array -/
theorem innerWalkPath_exact {sT : Schema} {specT : BlockSpec} {d : Addr}
    {cname aname : Str} {ci ai : Nat} {og : Option (Str × List Nat)} {sI sE : Schema}
    (hpiC : propInfo j5Env sT cname = some (ci, og, .container sI))
    (hpiA : propInfo j5Env sI aname = some (ai, none, .arrayOfContainer sE))
    {tT : List Bool} {vsT : List Node} (htT : tT[ci]? = some false) (hvT : vsT[ci]? = some .absent)
    (hconf : NoConflictAt sT ci og vsT)
    {oI0 : Option Node} {tI : List Bool} {vsI : List Node} (hMI : oI0.getD (freshMsg sI) = .msg tI vsI)
    (htI : tI[ai]? = some false) (hvI : vsI[ai]? = some .absent) (xs : List Node) :
    Exact (walkPath j5Env (cfOf sT specT d) [cname, aname]) d (holder tT vsT ci (innerOpt oI0 tI vsI ai xs))
      ([cf0 sE (d ++ [ci, ai, xs.length])] ++ [cf0 sI (d ++ [ci])])
      (holder tT vsT ci (some (.msg (tI.set ai true) (vsI.set ai (.list (xs ++ [freshMsg sE])))))) := by
  have hltT : ci < vsT.length := (List.getElem?_eq_some_iff.mp hvT).1
  have hlttT : ci < tT.length := (List.getElem?_eq_some_iff.mp htT).1
  have hltI : ai < vsI.length := (List.getElem?_eq_some_iff.mp hvI).1
  have hlttI : ai < tI.length := (List.getElem?_eq_some_iff.mp htI).1
  -- the inner declaration after the first step, its array slot described by `xs`
  let M' : Node := .msg (tI.set ai (!xs.isEmpty)) (vsI.set ai (listSlot xs))
  -- step 1: the container property
  have h1 : Exact (propSetValue j5Env d sT cname false) d (holder tT vsT ci (innerOpt oI0 tI vsI ai xs))
      ⟨d ++ [ci], .container sI⟩ (.msg (tT.set ci true) (vsT.set ci M')) := by
    cases xs with
    | nil =>
      have hM' : M' = .msg tI vsI := by
        show Node.msg (tI.set ai (!([] : List Node).isEmpty)) (vsI.set ai (listSlot [])) = _
        rw [list_set_self (show tI[ai]? = some (!([] : List Node).isEmpty) from htI),
          list_set_self (show vsI[ai]? = some (listSlot []) from hvI)]
      rw [hM']
      cases oI0 with
      | none =>
        have hh : holder tT vsT ci (innerOpt none tI vsI ai []) = .msg tT vsT := by
          show Node.msg (tT.set ci false) (vsT.set ci .absent) = _
          rw [list_set_self htT, list_set_self hvT]
        rw [hh]
        have hb := propSetValue_build' (c := d) false hpiC htT hvT hconf
        have hf : builtValue (.container sI) .absent = .msg tI vsI := hMI
        rw [hf] at hb
        exact hb
      | some M =>
        have hM : M = .msg tI vsI := hMI
        subst hM
        exact propSetValue_cached hpiC (by
          show (tT.set ci true)[ci]? = some true
          rw [List.getElem?_set_self hlttT])
    | cons x xs' =>
      exact propSetValue_cached hpiC (by
        show (tT.set ci (innerOpt oI0 tI vsI ai (x :: xs')).isSome)[ci]? = some true
        rw [List.getElem?_set_self hlttT]; rfl)
  -- step 2: a fresh element in the array of the inner declaration
  have h2' : Exact (walkPath j5Env (cf0 sI (d ++ [ci])) [aname]) (d ++ [ci]) M'
      [cf0 sE (d ++ [ci] ++ [ai, xs.length])]
      (.msg (tI.set ai true) (vsI.set ai (.list (xs ++ [freshMsg sE])))) := by
    have h := walkPath_array_exact (spec := BlockSpec.empty) (c := d ++ [ci]) (rest := []) hpiA
      (t := tI.set ai (!xs.isEmpty)) (vs := vsI.set ai (listSlot xs)) (xs := xs)
      (by rw [List.getElem?_set_self hlttI]) (by rw [List.getElem?_set_self hltI]) (walkRest_nil _ _ _)
    rw [List.set_set, List.set_set] at h
    exact h
  have h2 : Exact (walkPath j5Env (cf0 sI (d ++ [ci])) [aname]) d (.msg (tT.set ci true) (vsT.set ci M'))
      [cf0 sE (d ++ [ci] ++ [ai, xs.length])]
      (.msg (tT.set ci true) (vsT.set ci (.msg (tI.set ai true) (vsI.set ai (.list (xs ++ [freshMsg sE])))))) := by
    have h := Exact.lift_prop (t := tT.set ci true) (vs := vsT.set ci M') (i := ci) (a := d)
      (by rw [List.getElem?_set_self hltT]) h2'
    rw [List.set_set] at h
    exact h
  have haddr : d ++ [ci] ++ [ai, xs.length] = d ++ [ci, ai, xs.length] := by simp
  rw [haddr] at h2
  exact walkPath_container (propInfo_hasProperty hpiC) h1 (walkRest_cons h2)

/-- `ChildBlock(kw)` for an alias `kw → [cname, aname]` of the type block at `d` -/
theorem innerChildBlock_exact {sc : Scope} {kw : Str} {sT : Schema} {specT : BlockSpec} {d : Addr}
    {cname aname : Str} {ci ai : Nat} {og : Option (Str × List Nat)} {sI sE : Schema} {specI specE : BlockSpec}
    (hfb : findBlock kw sc.blockSet = some (cfOf sT specT d, [cname, aname]))
    (hpiC : propInfo j5Env sT cname = some (ci, og, .container sI))
    (hpiA : propInfo j5Env sI aname = some (ai, none, .arrayOfContainer sE))
    (hspecI : ∀ c, specOf j5Env ⟨c, .msg sI⟩ = .ok specI)
    (hspecE : ∀ c, specOf j5Env ⟨c, .msg sE⟩ = .ok specE)
    {tT : List Bool} {vsT : List Node} (htT : tT[ci]? = some false) (hvT : vsT[ci]? = some .absent)
    (hconf : NoConflictAt sT ci og vsT)
    {oI0 : Option Node} {tI : List Bool} {vsI : List Node} (hMI : oI0.getD (freshMsg sI) = .msg tI vsI)
    (htI : tI[ai]? = some false) (hvI : vsI[ai]? = some .absent) (xs : List Node) :
    Exact (childBlock j5Env sc kw) d (holder tT vsT ci (innerOpt oI0 tI vsI ai xs))
      (Scope.newChild (cfOf sE specE (d ++ [ci, ai, xs.length])))
      (holder tT vsT ci (some (.msg (tI.set ai true) (vsI.set ai (.list (xs ++ [freshMsg sE])))))) :=
  childBlock_of_walkPath hfb (innerWalkPath_exact hpiC hpiA htT hvT hconf hMI htI hvI xs)
    (setSpecs_cons (hspecE _) (setSpecs_cons (hspecI _) (setSpecs_nil _)))


/-! ## Statements that step a state indexed by a list -/

/-- pointwise: statement `st` takes `St xs` to `St (xs ++ [m])`, for every `xs` -/
inductive StepsAll (env : Env) (sc : Scope) (a : Addr) (St : List Node → Node) :
    List Statement → List Node → Prop where
  | nil : StepsAll env sc a St [] []
  | cons {st : Statement} {m : Node} {sts : List Statement} {ms : List Node} :
      (∀ xs, Exact (doStatement env sc st) a (St xs) () (St (xs ++ [m]))) →
      StepsAll env sc a St sts ms → StepsAll env sc a St (st :: sts) (m :: ms)

theorem steps_fold {env : Env} {sc : Scope} {a : Addr} {St : List Node → Node} {sts : List Statement}
    {ms : List Node} (h : StepsAll env sc a St sts ms) (xs : List Node) :
    Exact (doBody env sc sts) a (St xs) () (St (xs ++ ms)) := by
  induction h generalizing xs with
  | nil => rw [List.append_nil]; exact doBody_nil _ _ _
  | @cons st m sts ms h1 _ ih =>
    have h2 := ih (xs ++ [m])
    rw [List.append_assoc] at h2
    exact doBody_cons (h1 xs) h2

theorem stepsAll_map {env : Env} {sc : Scope} {a : Addr} {St : List Node → Node} {α : Type}
    (f : α → Statement) (g : α → Node) (l : List α)
    (h : ∀ x ∈ l, ∀ xs, Exact (doStatement env sc (f x)) a (St xs) () (St (xs ++ [g x]))) :
    StepsAll env sc a St (l.map f) (l.map g) := by
  induction l with
  | nil => exact .nil
  | cons x rest ih =>
    exact .cons (h x (by simp)) (ih (fun y hy => h y (List.mem_cons_of_mem _ hy)))

/-! ## The `field` / `option` blocks of an inline object / oneof -/

/-- the property blocks `kw NAME …` of an inline declaration append the property messages to its
`properties` array, given how the keyword enters a new element (`hcb`) -/
theorem inlProps_steps {sc : Scope} {kw : Str} (hkw : isAscii kw = true)
    {a b : Addr} {C : Option Node → Node} (hl : Lens (fun Y => C (some Y)) b) {ci ai : Nat}
    {tT : List Bool} {vsT : List Node} (hltT : ci < vsT.length)
    {oI0 : Option Node} {tI : List Bool} {vsI : List Node} (hltI : ai < vsI.length)
    (hcb : ∀ xs, Exact (childBlock j5Env sc kw) a (C (some (holder tT vsT ci (innerOpt oI0 tI vsI ai xs))))
      (Scope.newChild (propCF (a ++ (b ++ ([ci] ++ ([ai] ++ [xs.length]))))))
      (C (some (holder tT vsT ci
        (some (.msg (tI.set ai true) (vsI.set ai (.list (xs ++ [freshMsg sObjectProperty])))))))))
    (props : List CProperty) (hps : ∀ p ∈ props, PropHas p) :
    StepsAll j5Env sc a (fun xs => C (some (holder tT vsT ci (innerOpt oI0 tI vsI ai xs))))
      (propsBcl kw props) (propsMsg j5Env props) := by
  induction props with
  | nil => exact .nil
  | cons p ps ih =>
    simp only [propsBcl, propsMsg]
    obtain ⟨name, req, opt, f⟩ := p
    obtain ⟨hname, ⟨ff⟩⟩ := hps (.mk name req opt f) (by simp)
    refine .cons (fun xs => ?_) (ih (fun p hp => hps p (List.mem_cons_of_mem _ hp)))
    have hlens : Lens (fun Y => C (some (holder tT vsT ci
        (some (.msg (tI.set ai true) (vsI.set ai (.list (xs ++ [Y]))))))))
        (b ++ ([ci] ++ ([ai] ++ [xs.length]))) :=
      Lens.comp hl (Lens.comp (Lens.slot (tT.set ci true) vsT hltT)
        (Lens.comp (Lens.slot (tI.set ai true) vsI hltI) (Lens.last xs)))
    have h := propBlock_exact (req := req) (opt := opt) hname ff hkw hlens (hcb xs)
    rw [innerOpt_concat]
    exact h

/-- the entry of a block keyword that is an alias `kw → [cname, aname]` of the type block itself -/
theorem inlEntry_direct {sc : Scope} {kw : Str} {sT : Schema} {specT : BlockSpec}
    {a b : Addr} {C : Option Node → Node} (hl : Lens (fun Y => C (some Y)) b)
    {cname aname : Str} {ci ai : Nat} {og : Option (Str × List Nat)} {sI sE : Schema} {specI specE : BlockSpec}
    (hfb : findBlock kw sc.blockSet = some (cfOf sT specT (a ++ b), [cname, aname]))
    (hpiC : propInfo j5Env sT cname = some (ci, og, .container sI))
    (hpiA : propInfo j5Env sI aname = some (ai, none, .arrayOfContainer sE))
    (hspecI : ∀ c, specOf j5Env ⟨c, .msg sI⟩ = .ok specI)
    (hspecE : ∀ c, specOf j5Env ⟨c, .msg sE⟩ = .ok specE)
    {tT : List Bool} {vsT : List Node} (htT : tT[ci]? = some false) (hvT : vsT[ci]? = some .absent)
    (hconf : NoConflictAt sT ci og vsT)
    {oI0 : Option Node} {tI : List Bool} {vsI : List Node} (hMI : oI0.getD (freshMsg sI) = .msg tI vsI)
    (htI : tI[ai]? = some false) (hvI : vsI[ai]? = some .absent) (xs : List Node) :
    Exact (childBlock j5Env sc kw) a (C (some (holder tT vsT ci (innerOpt oI0 tI vsI ai xs))))
      (Scope.newChild (cfOf sE specE (a ++ (b ++ ([ci] ++ ([ai] ++ [xs.length]))))))
      (C (some (holder tT vsT ci (some (.msg (tI.set ai true) (vsI.set ai (.list (xs ++ [freshMsg sE])))))))) := by
  have h := Exact.lens hl
    (innerChildBlock_exact (specE := specE) hfb hpiC hpiA hspecI hspecE htT hvT hconf hMI htI hvI xs)
  have haddr : a ++ b ++ [ci, ai, xs.length] = a ++ (b ++ ([ci] ++ ([ai] ++ [xs.length]))) := by simp
  rw [haddr] at h
  exact h

end J5V.Walker
