import J5V.Walker.PP.Slice5
/-!
# Print/parse, sixth slice: declarations — `object` (with nested objects), `oneof`, `enum` elements

`memberDecl_appends`: a declaration block `kw NAME { body }` whose keyword is an alias `kw → [arr, member]`
of the enclosing block (top level: `elements.object`; in an object: `schemas.object`) appends one element
`<member={…}>` to the array `arr`, given the exact run of the body inside the new declaration.
`objectDecl_appends` (mutual recursion over `ObjDecl` / `Nested`), `oneofDecl_appends`, `enumDecl_appends`.
-/
namespace J5V.Walker
open J5V.Bcl

/-- the name tag of a declaration block, into the property `name` (slot 0) of the fresh declaration -/
theorem declHead_exact {kw : Str} {sD : Schema} {specD : BlockSpec} (d : Addr) {isOpt pres : Bool}
    (hname : specD.name = some ⟨wName, none, none, isOpt, false⟩) (hts : specD.typeSelect = none)
    (hna : aliasLookup wName specD.aliases = none)
    (hpiN : propInfo j5Env sD wName = some (0, none, .scalar (.scalar .string) pres))
    {tD : List Bool} {vsD : List Node} (hfreshD : freshMsg sD = .msg tD vsD)
    (ht0 : tD[0]? = some false) (hv0 : vsD[0]? = some .absent)
    {name : Str} (hid : isIdent name = true) (isOpen : Bool) :
    Exact (doBlockHead j5Env (Scope.newChild (cfOf sD specD d)) specD
      ⟨refOf [kw], [nameTag name], [], none, isOpen, src0⟩) d (freshMsg sD)
      (Scope.newChild (cfOf sD specD d)) (.msg (tD.set 0 true) (vsD.set 0 (storeNode pres (.str name)))) := by
  refine doBlockHead_exact (spec2 := specD) rfl
    (walkTags_name hname hts (applyNameTag_exact (checkBang_none _ _ rfl) ?_)) (walkQualifiers_nil _ _ _ _)
  rw [hfreshD]
  exact setAttr_direct (n := wName) (pos := none) (cur := .absent) (v := .str name) rfl
    (findBlock_prop' hna (propInfo_hasProperty hpiN)) hpiN ht0 hv0 (.inl rfl) (asArray_tag _)
    (by simp only [scalarFromAST, nameTag, asString_tagRef_single (isAscii_of_isIdent hid)]; rfl)

/-- a named declaration block appended to an array of oneofs, the member `member` selected -/
theorem memberDecl_appends' {sc : Scope} {kw : Str} (hkw : isAscii kw = true)
    {s : Schema} {spec : BlockSpec} {c : Addr} {arr member : Str} {i k : Nat} {sE sD : Schema}
    {specE specD : BlockSpec} {og : Option (Str × List Nat)} {tf : List Bool} {vf : List Node}
    (hfb : findBlock kw sc.blockSet = some (cfOf s spec c, [arr, member]))
    (hpiA : propInfo j5Env s arr = some (i, none, .arrayOfContainer sE))
    (hpiM : propInfo j5Env sE member = some (k, og, .container sD))
    (hspecE : ∀ c, specOf j5Env ⟨c, .msg sE⟩ = .ok specE) (hspecD : ∀ c, specOf j5Env ⟨c, .msg sD⟩ = .ok specD)
    (hfresh : freshMsg sE = .msg tf vf) (htf : tf[k]? = some false) (hvf : vf[k]? = some .absent)
    (hunpop : vf.all (fun v => !v.populated) = true) {isOpt pres : Bool}
    (hname : specD.name = some ⟨wName, none, none, isOpt, false⟩) (hts : specD.typeSelect = none)
    (hna : aliasLookup wName specD.aliases = none)
    (hpiN : propInfo j5Env sD wName = some (0, none, .scalar (.scalar .string) pres))
    {tD : List Bool} {vsD : List Node} (hfreshD : freshMsg sD = .msg tD vsD)
    (ht0 : tD[0]? = some false) (hv0 : vsD[0]? = some .absent)
    {name : Str} (hid : isIdent name = true) {body : List Statement} {final : Node}
    (hbody : ∀ d, Exact (doBody j5Env (Scope.newChild (cfOf sD specD d)) body) d
      (.msg (tD.set 0 true) (vsD.set 0 (storeNode pres (.str name)))) () final) :
    Appends j5Env sc c i (blockStmt kw [nameTag name] [] true body)
      (.msg (tf.set k true) (vf.set k final)) := by
  intro xs t vs ht hv
  exact arrayMemberBlock_exact hkw hfb hpiA hpiM (hspecE _) (hspecD _) ht hv hfresh htf hvf hunpop
    (declHead_exact _ hname hts hna hpiN hfreshD ht0 hv0 hid true) (hbody _)

/-- `memberDecl_appends'` for a name without presence -/
theorem memberDecl_appends {sc : Scope} {kw : Str} (hkw : isAscii kw = true)
    {s : Schema} {spec : BlockSpec} {c : Addr} {arr member : Str} {i k : Nat} {sE sD : Schema}
    {specE specD : BlockSpec} {og : Option (Str × List Nat)} {tf : List Bool} {vf : List Node}
    (hfb : findBlock kw sc.blockSet = some (cfOf s spec c, [arr, member]))
    (hpiA : propInfo j5Env s arr = some (i, none, .arrayOfContainer sE))
    (hpiM : propInfo j5Env sE member = some (k, og, .container sD))
    (hspecE : ∀ c, specOf j5Env ⟨c, .msg sE⟩ = .ok specE) (hspecD : ∀ c, specOf j5Env ⟨c, .msg sD⟩ = .ok specD)
    (hfresh : freshMsg sE = .msg tf vf) (htf : tf[k]? = some false) (hvf : vf[k]? = some .absent)
    (hunpop : vf.all (fun v => !v.populated) = true)
    (hname : specD.name = some ⟨wName, none, none, false, false⟩) (hts : specD.typeSelect = none)
    (hna : aliasLookup wName specD.aliases = none)
    (hpiN : propInfo j5Env sD wName = some (0, none, .scalar (.scalar .string) false))
    {tD : List Bool} {vsD : List Node} (hfreshD : freshMsg sD = .msg tD vsD)
    (ht0 : tD[0]? = some false) (hv0 : vsD[0]? = some .absent)
    {name : Str} (hid : isIdent name = true) {body : List Statement} {final : Node}
    (hbody : ∀ d, Exact (doBody j5Env (Scope.newChild (cfOf sD specD d)) body) d
      (.msg (tD.set 0 true) (vsD.set 0 (sStr name))) () final) :
    Appends j5Env sc c i (blockStmt kw [nameTag name] [] true body)
      (.msg (tf.set k true) (vf.set k final)) :=
  memberDecl_appends' hkw hfb hpiA hpiM hspecE hspecD hfresh htf hvf hunpop hname hts hna hpiN hfreshD ht0 hv0 hid
    (fun d => by rw [storeNode_str]; exact hbody d)

/-- a named declaration block `kw NAME { body }` appended to the array-of-containers property `arr` -/
theorem arrayDecl_appends {sc : Scope} {kw : Str} (hkw : isAscii kw = true)
    {s : Schema} {spec : BlockSpec} {c : Addr} {arr : Str} {i : Nat} {sD : Schema} {specD : BlockSpec}
    (hfb : findBlock kw sc.blockSet = some (cfOf s spec c, [arr]))
    (hpiA : propInfo j5Env s arr = some (i, none, .arrayOfContainer sD))
    (hspecD : ∀ c, specOf j5Env ⟨c, .msg sD⟩ = .ok specD) {isOpt pres : Bool}
    (hname : specD.name = some ⟨wName, none, none, isOpt, false⟩) (hts : specD.typeSelect = none)
    (hna : aliasLookup wName specD.aliases = none)
    (hpiN : propInfo j5Env sD wName = some (0, none, .scalar (.scalar .string) pres))
    {tD : List Bool} {vsD : List Node} (hfreshD : freshMsg sD = .msg tD vsD)
    (ht0 : tD[0]? = some false) (hv0 : vsD[0]? = some .absent)
    {name : Str} (hid : isIdent name = true) {isOpen : Bool} {body : List Statement} {final : Node}
    (hbody : ∀ d, Exact (doBody j5Env (Scope.newChild (cfOf sD specD d)) body) d
      (.msg (tD.set 0 true) (vsD.set 0 (storeNode pres (.str name)))) () final) :
    Appends j5Env sc c i (blockStmt kw [nameTag name] [] isOpen body) final := by
  intro xs t vs ht hv
  exact arrayBlock_exact hkw hfb hpiA (hspecD _) ht hv
    (declHead_exact _ hname hts hna hpiN hfreshD ht0 hv0 hid isOpen) (hbody _)

/-! ## Tables -/

def sOneofDecl : Schema := j5_schema_lit% "j5.sourcedef.v1.Oneof"
def specOneofDecl : BlockSpec := j5_spec_lit% "j5.sourcedef.v1.Oneof"
def sNestedSchema : Schema := j5_schema_lit% "j5.sourcedef.v1.NestedSchema"
def specNestedSchema : BlockSpec := j5_spec_lit% "j5.sourcedef.v1.NestedSchema"
theorem schemaOf_OneofDecl : j5Env.schemaOf b!"j5.sourcedef.v1.Oneof" = sOneofDecl := by
  rw [j5Env_nf]; decide +kernel
theorem schemaOf_NestedSchema : j5Env.schemaOf b!"j5.sourcedef.v1.NestedSchema" = sNestedSchema := by
  rw [j5Env_nf]; decide +kernel
theorem specOf_OneofDecl (c : Addr) : specOf j5Env ⟨c, .msg sOneofDecl⟩ = .ok specOneofDecl := by
  apply specOf_of_nil; rw [j5Env_nf]; decide +kernel
theorem specOf_NestedSchema (c : Addr) : specOf j5Env ⟨c, .msg sNestedSchema⟩ = .ok specNestedSchema := by
  apply specOf_of_nil; rw [j5Env_nf]; decide +kernel

/-- the proto oneof of `j5.sourcedef.v1.NestedSchema` -/
def gNestedSchema : Str × List Nat := (b!"j5.sourcedef.v1.NestedSchema.type", [])

theorem pi_RootElement_oneof :
    propInfo j5Env sRootElement wOneof = some (1, some gRootElement, .container sOneofDecl) := by
  rw [j5Env_nf]; decide +kernel
theorem pi_RootElement_enum :
    propInfo j5Env sRootElement wEnum = some (3, some gRootElement, .container sSEnum) := by
  rw [j5Env_nf]; decide +kernel
theorem pi_OneofDecl_name : propInfo j5Env sOneofDecl wName = some (0, none, .scalar (.scalar .string) false) := by
  rw [j5Env_nf]; decide +kernel
theorem pi_OneofDecl_properties :
    propInfo j5Env sOneofDecl b!"properties" = some (2, none, .arrayOfContainer sObjectProperty) := by
  rw [j5Env_nf]; decide +kernel
theorem pi_Object_schemas :
    propInfo j5Env sObject b!"schemas" = some (5, none, .arrayOfContainer sNestedSchema) := by
  rw [j5Env_nf]; decide +kernel
theorem pi_NestedSchema_object :
    propInfo j5Env sNestedSchema wObject = some (1, some gNestedSchema, .container sObject) := by
  rw [j5Env_nf]; decide +kernel

/-! ## `object NAME { fields nested-objects }` -/

/-- `j5.sourcedef.v1.Object` with a name, the properties `ps` and the nested schemas `ns` -/
def objNode2 (name : Str) (ps ns : List Node) : Node :=
  .msg [true, false, false, !ps.isEmpty, false, !ns.isEmpty]
    [sStr name, .absent, .absent, listSlot ps, .absent, listSlot ns]

theorem objectMsg_eq2 (name : Str) (props : List CProperty) (nested : List J5V.Compile.Nested)
    (psm : Option J5V.Compile.Psm) :
    objectMsg j5Env false (.mk name props nested psm) =
      objNode2 name (propsMsg j5Env props) (nestedMsg j5Env nested) := by
  simp only [objectMsg, Bool.false_eq_true, if_false]
  rw [mkMsg_of schemaOf_Object]
  generalize propsMsg j5Env props = ps
  generalize nestedMsg j5Env nested = ns
  cases ps <;> cases ns <;> rfl

/-- an object declaration appends `<object={…}>` wherever `object` is an alias `[arr, object]` -/
def ObjDeclAppends (o : J5V.Compile.ObjDecl) : Prop :=
  ∀ {sc : Scope} {s : Schema} {spec : BlockSpec} {c : Addr} {arr : Str} {i k : Nat} {sE : Schema}
    {specE : BlockSpec} {og : Option (Str × List Nat)} {tf : List Bool} {vf : List Node},
    findBlock wObject sc.blockSet = some (cfOf s spec c, [arr, wObject]) →
    propInfo j5Env s arr = some (i, none, .arrayOfContainer sE) →
    propInfo j5Env sE wObject = some (k, og, .container sObject) →
    (∀ c, specOf j5Env ⟨c, .msg sE⟩ = .ok specE) →
    freshMsg sE = .msg tf vf → tf[k]? = some false → vf[k]? = some .absent →
    vf.all (fun v => !v.populated) = true →
    Appends j5Env sc c i (objectBcl wObject wField o) (.msg (tf.set k true) (vf.set k (objectMsg j5Env false o)))

theorem objectDecl_appends_of {name : Str} {props : List CProperty} {nested : List J5V.Compile.Nested}
    {psm : Option J5V.Compile.Psm} (hname : isIdent name = true) (hps : ∀ p ∈ props, PropHas p)
    (hnested : ∀ d, AppendsAll j5Env (Scope.newChild (objCF d)) d 5 (nestedBcl nested) (nestedMsg j5Env nested)) :
    ObjDeclAppends (.mk name props nested psm) := by
  intro sc s spec c arr i k sE specE og tf vf hfb hpiA hpiM hspecE hfresh htf hvf hunpop
  rw [objectMsg_eq2]
  refine memberDecl_appends (kw := wObject) (by decide) hfb hpiA hpiM hspecE specOf_Object hfresh htf hvf hunpop
    (show specObject.name = _ by decide +kernel) (show specObject.typeSelect = none by decide +kernel)
    (show aliasLookup wName specObject.aliases = none by decide +kernel) pi_Object_name
    (tD := [false, false, false, false, false, false])
    (vsD := [.absent, .absent, .absent, .absent, .absent, .absent]) rfl rfl rfl hname ?_
  intro d
  have hprops := props_appendsAll2 (kw := wField) (by decide) (findBlock_field_objCF d) pi_Object_properties
    props hps
  have h1 := appends_fold hprops [] [true, false, false, false, false, false]
    [sStr name, .absent, .absent, .absent, .absent, .absent] rfl rfl
  have h2 := appends_fold (hnested d) [] [true, false, false, !([] ++ propsMsg j5Env props).isEmpty, false, false]
    [sStr name, .absent, .absent, listSlot ([] ++ propsMsg j5Env props), .absent, .absent] rfl rfl
  refine (doBody_append h1 h2).conv ?_
  rw [List.nil_append, List.nil_append]
  rfl

/-! ### The recursion over nested objects -/

mutual
def objDeclOk6 : J5V.Compile.ObjDecl → Bool
  | .mk name props nested psm => isIdent name && psm.isNone && propsOk5 props && nestedOk6 nested

def nestedOk6 : List J5V.Compile.Nested → Bool
  | [] => true
  | .object o :: rest => objDeclOk6 o && nestedOk6 rest
  | _ :: _ => false
end

theorem findBlock_object_objCF (d : Addr) :
    findBlock wObject (Scope.newChild (objCF d)).blockSet = some (objCF d, [b!"schemas", wObject]) :=
  findBlock_alias' (show aliasLookup wObject specObject.aliases = some [b!"schemas", wObject] by decide +kernel)

theorem fresh_NestedSchema : freshMsg sNestedSchema = .msg [false, false, false] [.absent, .absent, .absent] := rfl

theorem nestedOneof_object_eq (v : Node) :
    nestedOneof j5Env wObject v = .msg [false, true, false] [.absent, v, .absent] := by
  unfold nestedOneof
  rw [mkMsg_of schemaOf_NestedSchema]
  rfl

mutual
theorem objDecl6 : (o : J5V.Compile.ObjDecl) → objDeclOk6 o = true → ObjDeclAppends o
  | .mk name props nested psm, h => by
    simp only [objDeclOk6, Bool.and_eq_true] at h
    exact objectDecl_appends_of h.1.1.1 (propsHas5 props h.1.2) (nested6 nested h.2)

theorem nested6 : (ns : List J5V.Compile.Nested) → nestedOk6 ns = true →
    ∀ d, AppendsAll j5Env (Scope.newChild (objCF d)) d 5 (nestedBcl ns) (nestedMsg j5Env ns)
  | [], _ => fun _ => .nil
  | .object o :: rest, h => by
    simp only [nestedOk6, Bool.and_eq_true] at h
    intro d
    simp only [nestedBcl, nestedMsg]
    refine .cons ?_ (nested6 rest h.2 d)
    rw [nestedOneof_object_eq]
    exact objDecl6 o h.1 (findBlock_object_objCF d) pi_Object_schemas pi_NestedSchema_object
      specOf_NestedSchema fresh_NestedSchema rfl rfl rfl
  | .oneof _ :: _, h => by simp [nestedOk6] at h
  | .enum _ :: _, h => by simp [nestedOk6] at h
end

end J5V.Walker
