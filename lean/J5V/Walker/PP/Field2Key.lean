import J5V.Walker.PP.Field2KeyEnt
/-!
# Print/parse, second slice: `FieldFacts` of `key` fields (formats and entity-key options), and
`scalarFacts : fieldOk2 f → FieldFacts f`
-/
namespace J5V.Walker
open J5V.Bcl

theorem key_fieldBody (fmt : J5V.Compile.KeyFmt) (ek : J5V.Compile.EntKey) (l : Bool) (pfx : List Str) :
    fieldBody (.key fmt ek [] l) pfx false = keyFmtBody pfx fmt ++ entKeyBcl pfx false ek := by
  show rulesBcl pfx [] ++ keyFmtBody pfx fmt ++ entKeyBcl pfx false ek = _
  simp [rulesBcl]

/-- the final key message -/
def keyTypeVal (fmt : J5V.Compile.KeyFmt) (ek : J5V.Compile.EntKey) : Node :=
  .msg [false, fmt != .none, false, false, (entKeyNode ek).isSome]
    [.absent, keyFmtNode fmt, .absent, .absent, (entKeyNode ek).getD .absent]

theorem key_fieldMsg (fmt : J5V.Compile.KeyFmt) (ek : J5V.Compile.EntKey) :
    fieldMsg j5Env (.key fmt ek [] false) = oneofMsg 15 14 (keyTypeVal fmt ek) := by
  simp only [fieldMsg, fieldOneof, typeSchema, rulesVals, List.isEmpty_nil, if_true, List.nil_append]
  rw [entKeyVals_eq]
  unfold keyTypeVal
  generalize entKeyNode ek = oE
  cases fmt <;> simp only [keyFmtVals] <;>
    simp only [mkMsg_of schemaOf_Field, mkMsg_of schemaOf_KeyField, mkMsg_of schemaOf_KeyFormat,
      mkMsg_of schemaOf_KeyFormatInformal, mkMsg_of schemaOf_KeyFormatCustom,
      mkMsg_of schemaOf_KeyFormatUUID, mkMsg_of schemaOf_KeyFormatID62] <;>
    cases oE <;> rfl

/-- the key message after the qualifier -/
def keyQualVal : J5V.Compile.KeyFmt → Node
  | .none => freshMsg sKeyField
  | .informal => keyNode 0 (freshMsg sKeyFormatInformal)
  | .custom _ => keyNode 1 (freshMsg sKeyFormatCustom)
  | .uuid => keyNode 2 (freshMsg sKeyFormatUUID)
  | .id62 => keyNode 3 (freshMsg sKeyFormatID62)

theorem keyQ_of_select {fmt : J5V.Compile.KeyFmt} {ek : J5V.Compile.EntKey} {w : Str} {j : Nat} {sw : Schema}
    {specw : BlockSpec} (hq : keyFmtQuals fmt = [tagRef .none (refOf [w])])
    (hw : isAscii w = true)
    (hpi : propInfo j5Env sKeyFormat w = some (j, some gKeyFormat, .container sw))
    (hspec : ∀ c, specOf j5Env ⟨c, .msg sw⟩ = .ok specw)
    (ht : (List.replicate 4 false)[j]? = some false) (hv : (List.replicate 4 Node.absent)[j]? = some .absent) :
    FieldRunQ (.key fmt ek [] false) [b!"format"] (fun _ _ => True) (keyNode j (freshMsg sw)) := by
  intro outer root d hmiss
  have hmiss' : ∀ o ∈ outer, Misses o b!"format" := hmiss _ (by simp)
  refine ⟨(typeScope outer (keyCF d) root).mergeScope (Scope.newChild (cfOf sw specw (d ++ [1, j]))), specw,
    [cfOf sw specw (d ++ [1, j])], ?_, trivial, ?_⟩
  · simp [typeScope, Scope.mergeScope, Scope.newChild, tcfOf, kindSchema, kindSpec]
  · show Exact (walkQualifiers j5Env (keyFmtQuals fmt) _ _) _ _ _ _
    rw [hq]
    exact keyFmt_select hw hpi hspec ht hv hmiss' root d

def keyFacts (fmt : J5V.Compile.KeyFmt) (ek : J5V.Compile.EntKey) (hfmt : keyFmtOk fmt = true)
    (hek : entKeyOk ek = true) : FieldFacts (.key fmt ek [] false) where
  qualNames := [b!"format"]
  bodyNames := [b!"format", b!"entity", b!"foreign"]
  blockNames := []
  tailP := fun _ _ => True
  qualVal := keyQualVal fmt
  typeVal := keyTypeVal fmt ek
  pi := kind_pi2 rfl
  spec := kind_spec2 rfl
  specName := kindSpec_name
  specTypeSelect := kindSpec_typeSelect
  msg := key_fieldMsg fmt ek
  namesSub := by
    intro n hn
    simp only [List.mem_cons, List.not_mem_nil, or_false] at hn
    rcases hn with rfl | rfl | rfl | rfl <;> decide
  qualSub := by intro _ n hn; exact .inl (List.mem_singleton.mp hn)
  blockSub := by intro kw hkw; cases hkw
  found := by
    intro d n hn
    show (findBlock n [cfOf sKeyField specKeyField d]).isSome = true
    simp only [List.mem_cons, List.not_mem_nil, or_false] at hn
    rcases hn with rfl | rfl | rfl
    · rw [findBlock_prop' (show aliasLookup b!"format" specKeyField.aliases = none by decide +kernel)
        (show sKeyField.hasProperty b!"format" = true by decide +kernel)]
      rfl
    · rw [findBlock_prop' (show aliasLookup b!"entity" specKeyField.aliases = none by decide +kernel)
        (propInfo_hasProperty pi_KeyField_entity)]
      rfl
    · rw [findBlock_alias' (show aliasLookup b!"foreign" specKeyField.aliases = some [b!"entity", b!"foreignKey"]
        by decide +kernel)]
      rfl
  runQ := by
    cases fmt with
    | none =>
      intro outer root d _
      exact ⟨typeScope outer (keyCF d) root, specKeyField, [], rfl, trivial, walkQualifiers_nil _ _ _ _⟩
    | informal =>
      exact keyQ_of_select (w := b!"informal") rfl (by decide) pi_KeyFormat_informal specOf_KeyFormatInformal rfl rfl
    | custom p =>
      exact keyQ_of_select (w := b!"custom") rfl (by decide) pi_KeyFormat_custom specOf_KeyFormatCustom rfl rfl
    | uuid =>
      exact keyQ_of_select (w := b!"uuid") rfl (by decide) pi_KeyFormat_uuid specOf_KeyFormatUUID rfl rfl
    | id62 =>
      exact keyQ_of_select (w := b!"id62") rfl (by decide) pi_KeyFormat_id62 specOf_KeyFormatID62 rfl rfl
  runB := by
    intro sc pfx a b C hr _
    rw [key_fieldBody fmt ek false pfx]
    have hnE : b!"entity" ∈ [b!"format", b!"entity", b!"foreign"] := by simp
    have hnF : b!"foreign" ∈ [b!"format", b!"entity", b!"foreign"] := by simp
    -- the format line (custom only), then the entity-key lines
    have hfmtB : Exact (doBody j5Env sc (keyFmtBody pfx fmt)) a (C (some (keyQualVal fmt))) ()
        (C (some (.msg [false, fmt != .none, false, false, false]
          [.absent, keyFmtNode fmt, .absent, .absent, .absent]))) := by
      cases fmt with
      | none => exact doBody_nil _ _ _
      | informal => exact doBody_nil _ _ _
      | uuid => exact doBody_nil _ _ _
      | id62 => exact doBody_nil _ _ _
      | custom p =>
        have hfbF : findBlock b!"format" [cfOf sKeyField specKeyField (a ++ b)] =
            some (cfOf sKeyField specKeyField (a ++ b), [b!"format"]) :=
          findBlock_prop' (show aliasLookup b!"format" specKeyField.aliases = none by decide +kernel)
            (show sKeyField.hasProperty b!"format" = true by decide +kernel)
        have hr1 := hr.child_touched [false, true, false, false, false] [.absent, .absent, .absent, .absent, .absent]
          (n := b!"format") (show b!"format" ∈ [b!"format", b!"entity", b!"foreign"] by simp) (by decide) hfbF
          pi_KeyField_format specOf_KeyFormat rfl (by decide)
        have hfbC : findBlock b!"custom" [cfOf sKeyFormat specKeyFormat (a ++ (b ++ [1]))] =
            some (cfOf sKeyFormat specKeyFormat (a ++ (b ++ [1])), [b!"custom"]) :=
          findBlock_prop' (show aliasLookup b!"custom" specKeyFormat.aliases = none from rfl)
            (propInfo_hasProperty pi_KeyFormat_custom)
        have hr2 := hr1.child_touched ((List.replicate 4 false).set 1 true) (List.replicate 4 .absent)
          (n := b!"custom") trivial (by decide) hfbC pi_KeyFormat_custom specOf_KeyFormatCustom rfl (by decide)
        have hfbP : findBlock b!"pattern" [cfOf sKeyFormatCustom specKeyFormatCustom (a ++ (b ++ [1] ++ [1]))] =
            some (cfOf sKeyFormatCustom specKeyFormatCustom (a ++ (b ++ [1] ++ [1])), [b!"pattern"]) :=
          findBlock_prop' (show aliasLookup b!"pattern" specKeyFormatCustom.aliases = none from rfl)
            (propInfo_hasProperty pi_KeyFormatCustom_pattern)
        have hfmt' : okString p = true := hfmt
        have h3 := hr2.attr (some (.msg [false] [.absent])) rfl (n := b!"pattern") trivial (by decide) hfbP
          pi_KeyFormatCustom_pattern (cur := .absent) rfl rfl (.inl rfl)
          (val := strValue p) (v := .str p) (asArray_strValue _)
          (by simp only [scalarFromAST, asString_strValue (isAscii_of_okString hfmt')]; rfl)
        have hkey : pfx ++ [b!"format"] ++ [b!"custom"] ++ [b!"pattern"] =
            pfx ++ [b!"format", b!"custom", b!"pattern"] := by simp
        rw [hkey, storeNode_str] at h3
        exact doBody_cons h3 (doBody_nil _ _ _)
    exact doBody_append hfmtB (entKey_exact hr hnE hnF rfl rfl hek)

/-- every scalar field (with rules) has its facts -/
theorem scalarFacts' {f : CField} (h : fieldOk2 f = true) : ∃ ff : FieldFacts f, ff.blockNames = [] := by
  cases f with
  | string rules l =>
    simp only [fieldOk2, Bool.and_eq_true, Bool.not_eq_true'] at h
    exact ⟨stringFacts rules l h.2, rfl⟩
  | bool rules l =>
    simp only [fieldOk2, Bool.and_eq_true, Bool.not_eq_true'] at h
    exact ⟨boolFacts rules l h.2, rfl⟩
  | bytes rules => exact ⟨bytesFacts rules h, rfl⟩
  | date rules l =>
    simp only [fieldOk2, Bool.and_eq_true, Bool.not_eq_true'] at h
    exact ⟨dateFacts rules l h.2, rfl⟩
  | decimal rules l =>
    simp only [fieldOk2, Bool.and_eq_true, Bool.not_eq_true'] at h
    exact ⟨decimalFacts rules l h.2, rfl⟩
  | timestamp rules => exact ⟨timestampFacts rules h, rfl⟩
  | any => exact ⟨anyFacts, rfl⟩
  | integer fmt rules l =>
    simp only [fieldOk2, Bool.and_eq_true, Bool.not_eq_true'] at h
    exact ⟨integerFacts fmt rules l h.2, rfl⟩
  | float fmt rules l =>
    simp only [fieldOk2, Bool.and_eq_true, Bool.not_eq_true'] at h
    exact ⟨floatFacts fmt rules l h.2, rfl⟩
  | key fmt ek rules l =>
    simp only [fieldOk2, Bool.and_eq_true, Bool.not_eq_true'] at h
    obtain ⟨⟨⟨hl, hr⟩, hfmt⟩, hek⟩ := h
    have hu := rulesOk_unpack hr rulesSchema_Key schemaOf_KeyRules
    have hnil := rules_nil_of_no_props (sR := sKeyRules) (by decide +kernel) hu.1
    subst hnil
    subst hl
    exact ⟨keyFacts fmt ek hfmt hek, rfl⟩
  | _ => cases h

theorem scalarFacts {f : CField} (h : fieldOk2 f = true) : Nonempty (FieldFacts f) :=
  let ⟨ff, _⟩ := scalarFacts' h; ⟨ff⟩

end J5V.Walker
