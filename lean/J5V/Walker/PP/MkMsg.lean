import J5V.Walker.PP.Gen
/-!
# Print/parse: messages with a SYMBOLIC set of touched properties (`mkMsg` as a state)

`mkMsgS s vals` = `Print.mkMsg` over a schema given directly: exactly the properties named in `vals` are
touched and hold the listed values. For messages whose set of written properties depends on the AST
(the `rules` messages: one property per rule) this is the normal form of the state:
`mkMsgS_touch`: in `mkMsgS s vals` a property `n` not in `vals` is untouched and absent, and touching it
with value `v` gives `mkMsgS s (vals ++ [(n, v)])` (property names of `s` pairwise distinct).
-/
namespace J5V.Walker

/-- `mkMsg` over the schema itself -/
def mkMsgS (s : Schema) (vals : List (Str × Node)) : Node :=
  .msg (s.props.map fun p => (lookupVal p.name vals).isSome)
    (s.props.map fun p => (lookupVal p.name vals).getD .absent)

theorem mkMsg_eq_mkMsgS {env : Env} {sn : Str} {s : Schema} (h : env.schemaOf sn = s) (vals : List (Str × Node)) :
    mkMsg env sn vals = mkMsgS s vals := by
  unfold mkMsg mkMsgS; rw [h]

theorem freshMsg_eq_mkMsgS (s : Schema) : freshMsg s = mkMsgS s [] := by
  unfold freshMsg mkMsgS
  congr 1
  · apply List.ext_getElem?
    intro j
    rw [List.getElem?_replicate, List.getElem?_map]
    by_cases hj : j < s.props.length
    · rw [if_pos hj, List.getElem?_eq_getElem hj]; rfl
    · rw [if_neg hj, List.getElem?_eq_none (by omega)]; rfl
  · apply List.ext_getElem?
    intro j
    rw [List.getElem?_replicate, List.getElem?_map]
    by_cases hj : j < s.props.length
    · rw [if_pos hj, List.getElem?_eq_getElem hj]; rfl
    · rw [if_neg hj, List.getElem?_eq_none (by omega)]; rfl

theorem lookupVal_append_self {n : Str} {vals : List (Str × Node)} (h : lookupVal n vals = none) (v : Node) :
    lookupVal n (vals ++ [(n, v)]) = some v := by
  induction vals with
  | nil => simp [lookupVal]
  | cons kv rest ih =>
    obtain ⟨k, w⟩ := kv
    simp only [lookupVal] at h
    simp only [List.cons_append, lookupVal]
    split at h
    · cases h
    · rename_i hk
      rw [if_neg hk]; exact ih h

theorem lookupVal_append_ne {n m : Str} (hne : m ≠ n) (vals : List (Str × Node)) (v : Node) :
    lookupVal m (vals ++ [(n, v)]) = lookupVal m vals := by
  induction vals with
  | nil =>
    simp only [List.nil_append, lookupVal]
    rw [if_neg (fun h => hne h.symm)]
  | cons kv rest ih =>
    obtain ⟨k, w⟩ := kv
    simp only [List.cons_append, lookupVal]
    split
    · rfl
    · exact ih

/-- what `findProp` finds: the first property of that name -/
theorem findProp_spec {n : Str} {k : Nat} {props : List Property} {i : Nat} {p : Property}
    (h : findProp n k props = some (i, p)) :
    ∃ j, i = k + j ∧ props[j]? = some p ∧ p.name = n := by
  induction props generalizing k with
  | nil => cases h
  | cons q rest ih =>
    simp only [findProp] at h
    split at h
    · rename_i hq
      simp only [Option.some.injEq, Prod.mk.injEq] at h
      obtain ⟨rfl, rfl⟩ := h
      exact ⟨0, rfl, rfl, hq⟩
    · obtain ⟨j, hj, hp, hn⟩ := ih h
      exact ⟨j + 1, by omega, by simpa using hp, hn⟩

/-- the property names of a schema are pairwise distinct -/
def Schema.namesDistinct (s : Schema) : Bool := distinct (s.props.map (·.name))

theorem distinct_getElem_ne {l : List Str} (h : distinct l = true) {j j' : Nat} {a b : Str}
    (hj : l[j]? = some a) (hj' : l[j']? = some b) (hne : j ≠ j') : a ≠ b := by
  induction l generalizing j j' with
  | nil => simp at hj
  | cons x rest ih =>
    simp only [distinct, Bool.and_eq_true, Bool.not_eq_true', List.contains_eq_mem, decide_eq_false_iff_not] at h
    cases j with
    | zero =>
      cases j' with
      | zero => exact absurd rfl hne
      | succ j' =>
        simp only [List.getElem?_cons_zero, Option.some.injEq] at hj
        simp only [List.getElem?_cons_succ] at hj'
        subst hj
        intro hab
        subst hab
        exact h.1 (List.mem_of_getElem? hj')
    | succ j =>
      cases j' with
      | zero =>
        simp only [List.getElem?_cons_zero, Option.some.injEq] at hj'
        simp only [List.getElem?_cons_succ] at hj
        subst hj'
        intro hab
        subst hab
        exact h.1 (List.mem_of_getElem? hj)
      | succ j' =>
        simp only [List.getElem?_cons_succ] at hj hj'
        exact ih h.2 hj hj' (by omega)

/-- touching an untouched property of `mkMsgS s vals` -/
theorem mkMsgS_touch {s : Schema} {n : Str} {i : Nat} {p : Property} {vals : List (Str × Node)}
    (hd : s.namesDistinct = true) (hf : findProp n 0 s.props = some (i, p)) (hl : lookupVal n vals = none)
    (v : Node) :
    ∃ t vs, mkMsgS s vals = .msg t vs ∧ t[i]? = some false ∧ vs[i]? = some .absent ∧
      Node.msg (t.set i true) (vs.set i v) = mkMsgS s (vals ++ [(n, v)]) := by
  obtain ⟨j, hj, hp, hn⟩ := findProp_spec hf
  simp only [Nat.zero_add] at hj
  subst hj
  subst hn
  have hlt : i < s.props.length := (List.getElem?_eq_some_iff.mp hp).1
  refine ⟨_, _, rfl, ?_, ?_, ?_⟩
  · rw [List.getElem?_map, hp]; simp [hl]
  · rw [List.getElem?_map, hp]; simp [hl]
  · unfold mkMsgS
    congr 1
    · apply List.ext_getElem?
      intro j'
      rw [List.getElem?_set, List.getElem?_map, List.getElem?_map]
      by_cases hjj : i = j'
      · subst hjj
        rw [if_pos rfl, hp]
        simp [lookupVal_append_self hl, hlt]
      · rw [if_neg hjj]
        cases hq : s.props[j']? with
        | none => rfl
        | some q =>
          have hne : q.name ≠ p.name := by
            have h1 : (s.props.map (·.name))[j']? = some q.name := by rw [List.getElem?_map, hq]; rfl
            have h2 : (s.props.map (·.name))[i]? = some p.name := by rw [List.getElem?_map, hp]; rfl
            exact distinct_getElem_ne hd h1 h2 (fun e => hjj e.symm)
          simp [lookupVal_append_ne hne]
    · apply List.ext_getElem?
      intro j'
      rw [List.getElem?_set, List.getElem?_map, List.getElem?_map]
      by_cases hjj : i = j'
      · subst hjj
        rw [if_pos rfl, hp]
        simp [lookupVal_append_self hl, hlt]
      · rw [if_neg hjj]
        cases hq : s.props[j']? with
        | none => rfl
        | some q =>
          have hne : q.name ≠ p.name := by
            have h1 : (s.props.map (·.name))[j']? = some q.name := by rw [List.getElem?_map, hq]; rfl
            have h2 : (s.props.map (·.name))[i]? = some p.name := by rw [List.getElem?_map, hp]; rfl
            exact distinct_getElem_ne hd h1 h2 (fun e => hjj e.symm)
          simp [lookupVal_append_ne hne]

/-- the slot of a container property that is created by the first line writing into it: untouched and
absent while nothing was written (`vals = []`), then the message -/
def contSlot (s : Schema) (vals : List (Str × Node)) : Node := if vals.isEmpty then .absent else mkMsgS s vals

/-- `GetOrCreateValue` of such a container property -/
theorem propSetValue_contSlot {env : Env} {c : Addr} {s : Schema} {name : Str} {i : Nat} {s' : Schema}
    {t : List Bool} {vs : List Node} {vals : List (Str × Node)}
    (hpi : propInfo env s name = some (i, none, .container s'))
    (ht : t[i]? = some (!vals.isEmpty)) (hv : vs[i]? = some (contSlot s' vals)) :
    Exact (propSetValue env c s name false) c (.msg t vs) ⟨c ++ [i], .container s'⟩
      (.msg (t.set i true) (vs.set i (mkMsgS s' vals))) := by
  cases vals with
  | nil =>
    have h := propSetValue_build (c := c) false hpi ht hv (.inl rfl)
    rw [← freshMsg_eq_mkMsgS]
    exact h
  | cons x xs =>
    have hv' : vs[i]? = some (mkMsgS s' (x :: xs)) := hv
    rw [list_set_self (show t[i]? = some true from ht), list_set_self hv']
    exact propSetValue_cached hpi ht

end J5V.Walker
