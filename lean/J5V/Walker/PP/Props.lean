import J5V.Walker.PP.FieldRun
/-!
# Print/parse, first slice (d): one property block (`field NAME [!|?] TYPE:QUAL… { … }`)

`prop_stmt_exact`: in any scope where the keyword is an alias `kw → [pn]` of an array of
`j5.schema.v1.ObjectProperty` of the block at `c`, the statement `propBcl kw p` appends exactly
`propMsg j5Env p` to that array. Generic over the enclosing block (object, oneof, inline object, …).
-/
namespace J5V.Walker
open J5V.Bcl

/-! ## Table facts of `j5.schema.v1.ObjectProperty` -/

theorem pi_OP_schema : propInfo j5Env sObjectProperty b!"schema" = some (0, none, .container sField) := by
  rw [j5Env_nf]; decide +kernel
theorem pi_OP_name : propInfo j5Env sObjectProperty wName = some (1, none, .scalar (.scalar .string) false) := by
  rw [j5Env_nf]; decide +kernel
theorem pi_OP_required :
    propInfo j5Env sObjectProperty b!"required" = some (2, none, .scalar (.scalar .bool) false) := by
  rw [j5Env_nf]; decide +kernel
theorem pi_OP_explicitlyOptional :
    propInfo j5Env sObjectProperty b!"explicitlyOptional" = some (3, none, .scalar (.scalar .bool) false) := by
  rw [j5Env_nf]; decide +kernel

/-- the type-select tag of a property block -/
def opTypeSpec : Tag := ⟨b!"schema", some b!"required", some b!"optional", false, false⟩

theorem specOP_name : specObjectProperty.name = some ⟨wName, none, none, false, false⟩ := by decide +kernel
theorem specOP_typeSelect : specObjectProperty.typeSelect = some opTypeSpec := by decide +kernel

/-! ## The property message, explicit -/

/-- an `ObjectProperty` message: `schema` (touched `t0`), `name` (touched `t1`), `required`,
`explicitlyOptional` -/
def opNode (t0 : Bool) (F : Node) (t1 : Bool) (nm : Node) (r o : Bool) : Node :=
  .msg [t0, t1, r, o, false, false]
    [F, nm, if r then bTrue else .absent, if o then bTrue else .absent, .absent, .absent]

theorem propMsg_eq (name : Str) (req opt : Bool) (f : CField) :
    propMsg j5Env (.mk name req opt f) = opNode true (fieldMsg j5Env f) true (sStr name) req opt := by
  simp only [propMsg]
  rw [mkMsg_of schemaOf_ObjectProperty]
  cases req <;> cases opt <;> rfl

theorem fresh_OP_eq : freshMsg sObjectProperty = opNode false .absent false .absent false false := rfl

/-! ## Lifting through a oneof message -/

theorem Exact.lift_oneof {α : Type} {m : M α} {a : Addr} {n k : Nat} {Y Y' : Node} {r : α} (hk : k < n)
    (h : Exact m (a ++ [k]) Y r Y') : Exact m a (oneofMsg n k Y) r (oneofMsg n k Y') := by
  have hv : ((List.replicate n Node.absent).set k Y)[k]? = some Y := by
    rw [List.getElem?_set_self (by simpa using hk)]
  have h' := Exact.lift_prop (t := (List.replicate n false).set k true) hv h
  rw [List.set_set] at h'
  exact h'

/-! ## The attributes of the property block itself -/

section
variable {e : Addr} {sc : Scope} {tail : List ContainerField}

/-- the property block at `e` -/
abbrev propCF (e : Addr) : ContainerField := cfOf sObjectProperty specObjectProperty e

theorem findBlock_propCF_prop {n : Str} (hbs : sc.blockSet = propCF e :: tail)
    (h : aliasLookup n specObjectProperty.aliases = none) (hp : sObjectProperty.hasProperty n = true) :
    findBlock n sc.blockSet = some (propCF e, [n]) := by
  rw [hbs]; exact findBlock_prop' h hp

/-- `name` from the name tag -/
theorem op_setName {name : Str} (hname : isIdent name = true) (hbs : sc.blockSet = propCF e :: tail)
    (t0 : Bool) (F : Node) (r o : Bool) :
    Exact (setAttribute j5Env (fuelOf j5Env) sc [wName] [] (.tag (nameTag name)) false) e
      (opNode t0 F false .absent r o) () (opNode t0 F true (sStr name) r o) := by
  refine (setAttr_direct (n := wName) (pos := none) (cur := .absent) (v := .str name) rfl
    (findBlock_propCF_prop hbs (by decide +kernel) (by decide +kernel)) pi_OP_name rfl rfl (.inl rfl)
    (asArray_tag _)
    (by simp only [scalarFromAST, nameTag, asString_tagRef_single (isAscii_of_isIdent hname)]; rfl)).conv ?_
  rw [storeNode_str]; rfl

/-- `required = true` from the `!` mark -/
theorem op_setRequired (hbs : sc.blockSet = propCF e :: tail) (t0 : Bool) (F : Node) (t1 : Bool) (nm : Node)
    (o : Bool) :
    Exact (setAttribute j5Env (fuelOf j5Env) sc [b!"required"] [] (.bool true) false) e
      (opNode t0 F t1 nm false o) () (opNode t0 F t1 nm true o) :=
  setAttr_direct (n := b!"required") (pos := none) (cur := .absent) (v := .bool true) rfl
    (findBlock_propCF_prop hbs (by decide +kernel) (by decide +kernel)) pi_OP_required rfl rfl (.inl rfl)
    (asArray_bool _) rfl

/-- `explicitlyOptional = true` from the `?` mark (alias `optional`) -/
theorem op_setOptionalMark (hbs : sc.blockSet = propCF e :: tail) (t0 : Bool) (F : Node) (t1 : Bool) (nm : Node)
    (r : Bool) :
    Exact (setAttribute j5Env (fuelOf j5Env) sc [b!"optional"] [] (.bool true) false) e
      (opNode t0 F t1 nm r false) () (opNode t0 F t1 nm r true) :=
  setAttr_direct (n := b!"optional") (pos := none) (cur := .absent) (v := .bool true) rfl
    (by rw [hbs]; exact findBlock_alias' (show aliasLookup b!"optional" specObjectProperty.aliases = _ by decide +kernel))
    pi_OP_explicitlyOptional rfl rfl (.inl rfl) (asArray_bool _) rfl

/-- the body line `optional = true` -/
theorem op_setOptionalLine (hbs : sc.blockSet = propCF e :: tail) (t0 : Bool) (F : Node) (t1 : Bool) (nm : Node)
    (r : Bool) :
    Exact (doStatement j5Env sc (assignStmt [b!"optional"] (boolValue true))) e
      (opNode t0 F t1 nm r false) () (opNode t0 F t1 nm r true) :=
  doStatement_assign
    (setAttr_direct (n := b!"optional") (pos := some Span.zero) (cur := .absent) (v := .bool true)
      (combinePath_ident (by decide) [])
      (by rw [hbs]; exact findBlock_alias' (show aliasLookup b!"optional" specObjectProperty.aliases = _ by decide +kernel))
      pi_OP_explicitlyOptional rfl rfl (.inl rfl) (asArray_boolValue _)
      (by simp only [scalarFromAST, asBool_boolValue]; rfl))

end

/-! ## The property block -/

/-- a property of the first slice -/
def propOk1 : CProperty → Bool
  | .mk name _ _ f => isIdent name && fieldOk1 f

theorem misses_propCF_fieldNames (e : Addr) (f : CField) :
    ∀ n ∈ fieldNames f, ∀ o ∈ [propCF e], Misses o n := by
  have hfmt : Misses (propCF e) b!"format" := misses_cfOf (by decide +kernel) (by decide +kernel)
  intro n hn o ho
  simp only [List.mem_singleton] at ho
  subst ho
  cases f <;> simp only [fieldNames, List.mem_singleton, List.not_mem_nil] at hn <;> subst hn <;> exact hfmt

/-- the scope after the type-select tag of a property -/
abbrev propTypeScope (e : Addr) (f : CField) : Scope :=
  typeScope [propCF e] (cfOf (kindSchema f) (kindSpec f) (e ++ [0, kindIdx f])) (some (propCF e))

/-- name tag + type-select tag up to (not including) the mark -/
theorem prop_select {name : Str} {f : CField} (hname : isIdent name = true) (hf : fieldOk1 f = true)
    (e : Addr) :
    Exact (setAttribute j5Env (fuelOf j5Env) (Scope.newChild (propCF e)) [wName] [] (.tag (nameTag name)) false) e
      (freshMsg sObjectProperty) () (opNode false .absent true (sStr name) false false) ∧
    Exact (buildScope j5Env (Scope.newChild (propCF e)) (pathToType opTypeSpec) (refOf [fieldKind f]).idents .keepScope) e
      (opNode false .absent true (sStr name) false false) (propTypeScope e f)
      (opNode true (oneofMsg 15 (kindIdx f) (freshMsg (kindSchema f))) true (sStr name) false false) := by
  refine ⟨op_setName (tail := []) hname rfl false .absent false false, ?_⟩
  -- `schema`
  have h1 : Exact (childBlock j5Env (Scope.newChild (propCF e)) b!"schema") e
      (opNode false .absent true (sStr name) false false)
      (Scope.newChild (cfOf sField specField (e ++ [0])))
      (opNode true (freshMsg sField) true (sStr name) false false) :=
    childBlock_of_walkPath
      (findBlock_prop' (show aliasLookup b!"schema" specObjectProperty.aliases = none by decide +kernel)
        (propInfo_hasProperty pi_OP_schema))
      (walkPath_container (propInfo_hasProperty pi_OP_schema)
        (propSetValue_build false pi_OP_schema (cur := .absent) rfl rfl (.inl rfl)) (walkRest_nil _ _ _))
      (setSpecs_cons (specOf_Field _) (setSpecs_nil _))
  -- the kind
  have h2' : Exact (childBlock j5Env (Scope.newChild (cfOf sField specField (e ++ [0]))) (fieldKind f)) (e ++ [0])
      (freshMsg sField)
      (Scope.newChild (cfOf (kindSchema f) (kindSpec f) (e ++ [0] ++ [kindIdx f])))
      (oneofMsg 15 (kindIdx f) (freshMsg (kindSchema f))) :=
    childBlock_of_walkPath
      (findBlock_prop' (show aliasLookup (fieldKind f) specField.aliases = none from rfl)
        (propInfo_hasProperty (kind_pi hf)))
      (walkPath_container (propInfo_hasProperty (kind_pi hf))
        (propSetValue_build false (kind_pi hf) (t := List.replicate 15 false) (vs := List.replicate 15 .absent)
          (cur := .absent)
          (by rw [List.getElem?_replicate, if_pos (kind_lt f)])
          (by rw [List.getElem?_replicate, if_pos (kind_lt f)]) (.inr rfl))
        (walkRest_nil _ _ _))
      (setSpecs_cons (kind_spec hf _) (setSpecs_nil _))
  have h2 : Exact (childBlock j5Env (Scope.newChild (cfOf sField specField (e ++ [0]))) (fieldKind f)) e
      (opNode true (freshMsg sField) true (sStr name) false false)
      (Scope.newChild (cfOf (kindSchema f) (kindSpec f) (e ++ [0, kindIdx f])))
      (opNode true (oneofMsg 15 (kindIdx f) (freshMsg (kindSchema f))) true (sStr name) false false) := by
    have h := Exact.lift_prop (t := [true, true, false, false, false, false])
      (vs := [freshMsg sField, sStr name, .absent, .absent, .absent, .absent]) (i := 0) (a := e) rfl h2'
    rw [List.append_assoc] at h
    exact h
  exact buildScope_keep_run (combinePath_ident (kind_ascii f) [b!"schema"])
    (walkScope_cons h1 (walkScope_cons h2 (walkScope_nil _ _ _)))

/-- a run inside the type message of a property, seen from the property -/
theorem Exact.lift_type {α : Type} {m : M α} {e : Addr} {k : Nat} {Y Y' nm : Node} {t1 rq o : Bool} {r : α}
    (hk : k < 15) (h : Exact m (e ++ [0, k]) Y r Y') :
    Exact m e (opNode true (oneofMsg 15 k Y) t1 nm rq o) r (opNode true (oneofMsg 15 k Y') t1 nm rq o) := by
  have h0 : e ++ [0, k] = e ++ [0] ++ [k] := by simp
  rw [h0] at h
  exact Exact.lift_prop (i := 0) rfl (Exact.lift_oneof hk h)

/-- `kw NAME [!|?] TYPE:QUAL… { [optional = true] lines }`: one element appended to the property array -/
theorem prop_stmt_exact {p : CProperty} (hp : propOk1 p = true) {kw : Str} (hkw : isAscii kw = true)
    {sc : Scope} {s : Schema} {spec : BlockSpec} {c : Addr} {pn : Str} {i : Nat} {t : List Bool}
    {vs : List Node} {xs : List Node}
    (hfb : findBlock kw sc.blockSet = some (cfOf s spec c, [pn]))
    (hpi : propInfo j5Env s pn = some (i, none, .arrayOfContainer sObjectProperty))
    (ht : t[i]? = some (!xs.isEmpty)) (hv : vs[i]? = some (listSlot xs)) :
    Exact (doStatement j5Env sc (propBcl kw p)) c (.msg t vs) ()
      (.msg (t.set i true) (vs.set i (.list (xs ++ [propMsg j5Env p])))) := by
  obtain ⟨name, req, opt, f⟩ := p
  simp only [propOk1, Bool.and_eq_true] at hp
  obtain ⟨hname, hf⟩ := hp
  let e : Addr := c ++ [i, xs.length]
  obtain ⟨sc2, spec2, Q, tail, hbs, hq, hbd⟩ :=
    fieldRun hf [propCF e] (some (propCF e)) (e ++ [0, kindIdx f]) (misses_propCF_fieldNames e f)
  have hbs' : sc2.blockSet = propCF e :: tail := hbs
  obtain ⟨hsetname, hbuild⟩ := prop_select hname hf e
  rw [propMsg_eq, fieldMsg_eq hf]
  -- qualifiers and body lines of the type, seen from the property
  have hq' := fun (rq o : Bool) => Exact.lift_type (e := e) (nm := sStr name) (t1 := true) (rq := rq) (o := o)
    (kind_lt f) hq
  have hbd' := fun (rq o : Bool) => Exact.lift_type (e := e) (nm := sStr name) (t1 := true) (rq := rq) (o := o)
    (kind_lt f) hbd
  have hts : (propTypeScope e f).blockSet = propCF e :: [cfOf (kindSchema f) (kindSpec f) (e ++ [0, kindIdx f])] := rfl
  -- the head, for a given mark
  have hhead : ∀ (mark : TagMark) (rq o : Bool) (isOpen : Bool),
      Exact (checkBang j5Env (propTypeScope e f) opTypeSpec (tagRef mark (refOf [fieldKind f]))) e
        (opNode true (oneofMsg 15 (kindIdx f) (freshMsg (kindSchema f))) true (sStr name) false false) ()
        (opNode true (oneofMsg 15 (kindIdx f) (freshMsg (kindSchema f))) true (sStr name) rq o) →
      Exact (doBlockHead j5Env (Scope.newChild (propCF e)) specObjectProperty
        ⟨refOf [kw], [nameTag name, tagRef mark (refOf [fieldKind f])], fieldQuals f, none, isOpen, src0⟩) e
        (freshMsg sObjectProperty) sc2 (opNode true (oneofMsg 15 (kindIdx f) Q) true (sStr name) rq o) := by
    intro mark rq o isOpen hcb
    exact doBlockHead_exact rfl
      (walkTags_name_type specOP_name specOP_typeSelect
        (applyNameTag_exact (checkBang_none _ _ rfl) hsetname)
        (selectType_exact (ref := refOf [fieldKind f]) rfl hbuild hcb)
        (walkTags_nil_none _ _ kindSpec_name kindSpec_typeSelect))
      (hq' rq o)
  unfold propBcl
  cases req <;> cases opt
  · -- no mark
    exact arrayBlock_exact hkw hfb hpi (specOf_ObjectProperty _) ht hv
      (hhead .none false false _ (checkBang_none _ _ rfl)) (hbd' false false)
  · -- `?`
    exact arrayBlock_exact hkw hfb hpi (specOf_ObjectProperty _) ht hv
      (hhead .question false true _ (checkBang_question rfl rfl (op_setOptionalMark hts _ _ _ _ _)))
      (hbd' false true)
  · -- `!`
    exact arrayBlock_exact hkw hfb hpi (specOf_ObjectProperty _) ht hv
      (hhead .bang true false _ (checkBang_bang rfl rfl (op_setRequired hts _ _ _ _ _)))
      (hbd' true false)
  · -- `!` and the line `optional = true`
    exact arrayBlock_exact hkw hfb hpi (specOf_ObjectProperty _) ht hv
      (hhead .bang true false _ (checkBang_bang rfl rfl (op_setRequired hts _ _ _ _ _)))
      (doBody_cons (op_setOptionalLine hbs' _ _ _ _ _) (hbd' true true))

end J5V.Walker
