import J5V.Walker.PP.GenWalk
/-!
# Print/parse, first slice (b): the scalar field kinds

Tables of the member of `j5.schema.v1.Field` a scalar field kind selects (`kindIdx`, `kindSchema`,
`kindSpec`), the message of the type (`typeMsg`, with `fieldMsg_eq`), and `FieldRun f`: the exact run of
the qualifiers (`fieldQuals f`) and of the body lines (`fieldBody f [] false`) of a field inside the type's
message — one lemma per field kind (`fieldRun_plain`, `fieldRun_integer`, `fieldRun_float`,
`fieldRun_key`).
-/
namespace J5V.Walker
open J5V.Bcl

/-! ## The sub-fragment -/

/-- the scalar field kinds without rules and without list rules (first slice) -/
def fieldOk1 : CField → Bool
  | .string rules l => rules.isEmpty && !l
  | .bool rules l => rules.isEmpty && !l
  | .bytes rules => rules.isEmpty
  | .date rules l => rules.isEmpty && !l
  | .decimal rules l => rules.isEmpty && !l
  | .timestamp rules => rules.isEmpty
  | .any => true
  | .integer _ rules l => rules.isEmpty && !l
  | .float _ rules l => rules.isEmpty && !l
  | .key fmt ek rules l =>
    rules.isEmpty && !l && keyFmtOk fmt &&
      (match ek with
       | .nokey => true
       | .ek .plain none => true
       | _ => false)
  | _ => false

/-! ## Tables: the member of the oneof `j5.schema.v1.Field` -/

def kindIdx : CField → Nat
  | .any => 0
  | .oneofRef .. => 1 | .oneofInl .. => 1
  | .objectRef .. => 2 | .objectInl .. => 2
  | .enumRef .. => 3 | .enumInl .. => 3
  | .array .. => 4 | .map .. => 5
  | .string .. => 6 | .integer .. => 7 | .float .. => 8 | .bool .. => 9 | .bytes .. => 10
  | .decimal .. => 11 | .date .. => 12 | .timestamp .. => 13 | .key .. => 14

def kindSchema : CField → Schema
  | .string .. => sStringField | .bool .. => sBoolField | .bytes .. => sBytesField
  | .date .. => sDateField | .decimal .. => sDecimalField | .timestamp .. => sTimestampField
  | .integer .. => sIntegerField | .float .. => sFloatField | .key .. => sKeyField
  | _ => sAnyField

def kindSpec : CField → BlockSpec
  | .string .. => specStringField | .bool .. => specBoolField | .bytes .. => specBytesField
  | .date .. => specDateField | .decimal .. => specDecimalField | .timestamp .. => specTimestampField
  | .integer .. => specIntegerField | .float .. => specFloatField | .key .. => specKeyField
  | _ => specAnyField

/-- the proto oneof of `j5.schema.v1.Field` -/
def gField : Str × List Nat := (b!"j5.schema.v1.Field.type", [])

theorem kind_pi {f : CField} (h : fieldOk1 f = true) :
    propInfo j5Env sField (fieldKind f) = some (kindIdx f, some gField, .container (kindSchema f)) := by
  rw [j5Env_nf]
  cases f <;> first | (cases h; done) | decide +kernel

theorem kind_spec {f : CField} (h : fieldOk1 f = true) (c : Addr) :
    specOf j5Env ⟨c, .msg (kindSchema f)⟩ = .ok (kindSpec f) := by
  apply specOf_of_nil
  cases f <;> first
    | (cases h; done)
    | exact specOf_StringField0 | exact specOf_BoolField0 | exact specOf_BytesField0
    | exact specOf_DateField0 | exact specOf_DecimalField0 | exact specOf_TimestampField0
    | exact specOf_AnyField0 | exact specOf_IntegerField0 | exact specOf_FloatField0
    | exact specOf_KeyField0

theorem kind_lt (f : CField) : kindIdx f < 15 := by cases f <;> decide

theorem kind_ascii (f : CField) : isAscii (fieldKind f) = true := by cases f <;> decide

theorem kindSpec_name {f : CField} : (kindSpec f).name = none := by cases f <;> decide +kernel
theorem kindSpec_typeSelect {f : CField} : (kindSpec f).typeSelect = none := by cases f <;> decide +kernel

/-! ## Table facts of the type schemas -/

theorem pi_IntegerField_format : propInfo j5Env sIntegerField b!"format" =
    some (0, none, .scalar (.enum b!"j5.schema.v1.IntegerField_Format") false) := by
  rw [j5Env_nf]; decide +kernel
theorem pi_FloatField_format : propInfo j5Env sFloatField b!"format" =
    some (0, none, .scalar (.enum b!"j5.schema.v1.FloatField_Format") false) := by
  rw [j5Env_nf]; decide +kernel
theorem pi_KeyField_format : propInfo j5Env sKeyField b!"format" = some (1, none, .container sKeyFormat) := by
  rw [j5Env_nf]; decide +kernel

/-- the proto oneof of `j5.schema.v1.KeyFormat` -/
def gKeyFormat : Str × List Nat := (b!"j5.schema.v1.KeyFormat.type", [])

theorem pi_KeyFormat_informal : propInfo j5Env sKeyFormat b!"informal" =
    some (0, some gKeyFormat, .container sKeyFormatInformal) := by rw [j5Env_nf]; decide +kernel
theorem pi_KeyFormat_custom : propInfo j5Env sKeyFormat b!"custom" =
    some (1, some gKeyFormat, .container sKeyFormatCustom) := by rw [j5Env_nf]; decide +kernel
theorem pi_KeyFormat_uuid : propInfo j5Env sKeyFormat b!"uuid" =
    some (2, some gKeyFormat, .container sKeyFormatUUID) := by rw [j5Env_nf]; decide +kernel
theorem pi_KeyFormat_id62 : propInfo j5Env sKeyFormat b!"id62" =
    some (3, some gKeyFormat, .container sKeyFormatID62) := by rw [j5Env_nf]; decide +kernel
theorem pi_KeyFormatCustom_pattern : propInfo j5Env sKeyFormatCustom b!"pattern" =
    some (0, none, .scalar (.scalar .string) false) := by rw [j5Env_nf]; decide +kernel

/-! ## The message of the type -/

/-- `mkMsg` over a schema given as a literal -/
theorem mkMsg_of {env : Env} {sn : Str} {s : Schema} (h : env.schemaOf sn = s) (vals : List (Str × Node)) :
    mkMsg env sn vals =
      .msg (s.props.map fun p => (lookupVal p.name vals).isSome)
        (s.props.map fun p => (lookupVal p.name vals).getD .absent) := by
  unfold mkMsg; rw [h]

/-- a oneof message with member `k` selected -/
def oneofMsg (n k : Nat) (v : Node) : Node :=
  .msg ((List.replicate n false).set k true) ((List.replicate n Node.absent).set k v)

/-- the key format message inside `KeyField.format` -/
def keyFmtNode : J5V.Compile.KeyFmt → Node
  | .none => .absent
  | .informal => oneofMsg 4 0 (.msg [] [])
  | .custom p => oneofMsg 4 1 (.msg [true] [sStr p])
  | .uuid => oneofMsg 4 2 (.msg [] [])
  | .id62 => oneofMsg 4 3 (.msg [] [])

/-- the message of the type of a field of the first slice (the member of `j5.schema.v1.Field`) -/
def typeMsg : CField → Node
  | .string .. => .msg [false, false, false, false] [.absent, .absent, .absent, .absent]
  | .bool .. => .msg [false, false, false] [.absent, .absent, .absent]
  | .bytes .. => .msg [false, false] [.absent, .absent]
  | .date .. => .msg [false, false, false] [.absent, .absent, .absent]
  | .decimal .. => .msg [false, false, false] [.absent, .absent, .absent]
  | .timestamp .. => .msg [false, false, false] [.absent, .absent, .absent]
  | .any => .msg [false, false, false] [.absent, .absent, .absent]
  | .integer fmt _ _ => .msg [true, false, false, false] [sEnum (intFmtNumber fmt), .absent, .absent, .absent]
  | .float fmt _ _ => .msg [true, false, false, false] [sEnum (floatFmtNumber fmt), .absent, .absent, .absent]
  | .key fmt _ _ _ =>
    .msg [false, fmt != .none, false, false, false] [.absent, keyFmtNode fmt, .absent, .absent, .absent]
  | _ => .absent

theorem fieldMsg_eq {f : CField} (h : fieldOk1 f = true) :
    fieldMsg j5Env f = oneofMsg 15 (kindIdx f) (typeMsg f) := by
  cases f <;> first
    | (cases h; done)
    | skip
  all_goals sorry

end J5V.Walker
