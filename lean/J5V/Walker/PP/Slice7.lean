import J5V.Walker.PP.Slice6
import J5V.Walker.PP.Topics
/-!
# Print/parse, seventh slice: every element kind except `entity`

`supported7 ast` = `supported ast` and no element of the file is an `entity` (`supported7_iff`).
-/
namespace J5V.Walker
open J5V.Bcl

def isEntity : J5V.Compile.Elem → Bool
  | .entity _ => true
  | _ => false

/-- the covered fragment without `entity` elements -/
def supported7 : J5V.Compile.SrcFile → Bool
  | .j5s p imports elems decl => supported (.j5s p imports elems decl) && elems.all (fun e => !isEntity e)
  | .proto .. => false

theorem supported7_supported {ast : J5V.Compile.SrcFile} (h : supported7 ast = true) : supported ast = true := by
  cases ast with
  | j5s p imports elems decl =>
    simp only [supported7, Bool.and_eq_true] at h
    exact h.1
  | proto _ _ _ => cases h

mutual
theorem objDeclOk6_of_objDeclOk : (o : J5V.Compile.ObjDecl) → objDeclOk j5Env false o = true → objDeclOk6 o = true
  | .mk name props nested psm, h => by
    simp only [objDeclOk, Bool.and_eq_true, Bool.false_eq_true, if_false] at h
    simp only [objDeclOk6, Bool.and_eq_true]
    exact ⟨⟨h.1.1, propsOk5_of_propsOk props h.1.2⟩, nestedOk6_of_nestedOk nested h.2⟩

theorem nestedOk6_of_nestedOk : (ns : List J5V.Compile.Nested) → nestedOk j5Env true ns = true → nestedOk6 ns = true
  | [], _ => rfl
  | .object o :: rest, h => by
    simp only [nestedOk, Bool.and_eq_true] at h
    simp only [nestedOk6, Bool.and_eq_true]
    exact ⟨objDeclOk6_of_objDeclOk o h.1, nestedOk6_of_nestedOk rest h.2⟩
  | .oneof _ :: _, h => by simp [nestedOk] at h
  | .enum _ :: _, h => by simp [nestedOk] at h
end

/-- every element of the covered fragment that is not an entity appends its message to `elements` -/
theorem elem_appends {e : J5V.Compile.Elem} (hok : elemOk j5Env e = true) (hne : isEntity e = false) :
    Appends j5Env rootScope [] 3 (elemBcl e) (elemMsg j5Env e) := by
  cases e with
  | object o =>
    have h := objDecl6 o (objDeclOk6_of_objDeclOk o hok) (sc := rootScope)
      (findBlock_alias' (show aliasLookup wObject specSourceFile.aliases = some [b!"elements", wObject] by decide +kernel))
      pi_SourceFile_elements pi_RootElement_object specOf_RootElement fresh_RootElement rfl rfl rfl
    rw [elemMsg_object_eq]
    exact h
  | oneof o =>
    obtain ⟨name, props, nested, psm⟩ := o
    simp only [elemOk, objDeclOk, Bool.and_eq_true, if_true, List.isEmpty_iff] at hok
    obtain ⟨⟨⟨hname, _⟩, hprops⟩, hnested⟩ := hok
    subst hnested
    exact oneofDecl_appends hname (propsHas_all hprops)
  | enum en => exact enumDecl_appends hok
  | service sv => exact service_appends hok
  | topic t => exact topic_appends hok
  | entity en => cases hne

/-- **print/parse, seventh slice**: every file of the covered fragment without `entity` elements -/
theorem C07W_print_parse_slice7 (filename : Str) (ast : J5V.Compile.SrcFile) (h : supported7 ast = true) :
    walkSchema j5Env (toBcl ast) (stub j5Env filename) = .ok (toMsg filename ast) := by
  cases ast with
  | proto _ _ _ => cases h
  | j5s path imports elems decl =>
    simp only [supported7, supported, supportedEnv, Bool.and_eq_true, List.all_eq_true, Bool.not_eq_true'] at h
    obtain ⟨⟨⟨hdecl, himports⟩, helems⟩, hne⟩ := h
    refine print_parse_of filename path decl imports elems hdecl himports ?_
    exact appendsAll_map _ _ _ (fun e he => elem_appends (helems e he) (hne e he))

end J5V.Walker
