import J5V.Walker.PP.FieldTables
/-!
# Print/parse, first slice (b): the message of a scalar field

`typeMsg f` (the member of `j5.schema.v1.Field`, explicit), `fieldMsg_eq : fieldMsg j5Env f = oneofMsg 15
(kindIdx f) (typeMsg f)`, `propMsg_eq` (the `ObjectProperty` message, explicit).
-/
namespace J5V.Walker
open J5V.Bcl

/-! ## The message of the type -/

/-- `mkMsg` over a schema given as a literal -/
theorem mkMsg_of {env : Env} {sn : Str} {s : Schema} (h : env.schemaOf sn = s) (vals : List (Str × Node)) :
    mkMsg env sn vals =
      .msg (s.props.map fun p => (lookupVal p.name vals).isSome)
        (s.props.map fun p => (lookupVal p.name vals).getD .absent) := by
  unfold mkMsg; rw [h]

/-- a oneof message with member `k` selected -/
def oneofMsg (n k : Nat) (v : Node) : Node :=
  .msg ((List.replicate n false).set k true) ((List.replicate n Node.absent).set k v)

/-- the key format message inside `KeyField.format` -/
def keyFmtNode : J5V.Compile.KeyFmt → Node
  | .none => .absent
  | .informal => oneofMsg 4 0 (.msg [] [])
  | .custom p => oneofMsg 4 1 (.msg [true] [sStr p])
  | .uuid => oneofMsg 4 2 (.msg [] [])
  | .id62 => oneofMsg 4 3 (.msg [] [])

/-- the message of the type of a field of the first slice (the member of `j5.schema.v1.Field`) -/
def typeMsg : CField → Node
  | .string .. => .msg [false, false, false, false] [.absent, .absent, .absent, .absent]
  | .bool .. => .msg [false, false, false] [.absent, .absent, .absent]
  | .bytes .. => .msg [false, false] [.absent, .absent]
  | .date .. => .msg [false, false, false] [.absent, .absent, .absent]
  | .decimal .. => .msg [false, false, false] [.absent, .absent, .absent]
  | .timestamp .. => .msg [false, false, false] [.absent, .absent, .absent]
  | .any => .msg [false, false, false] [.absent, .absent, .absent]
  | .integer fmt _ _ => .msg [true, false, false, false] [sEnum (intFmtNumber fmt), .absent, .absent, .absent]
  | .float fmt _ _ => .msg [true, false, false, false] [sEnum (floatFmtNumber fmt), .absent, .absent, .absent]
  | .key fmt _ _ _ =>
    .msg [false, fmt != .none, false, false, false] [.absent, keyFmtNode fmt, .absent, .absent, .absent]
  | _ => .absent

theorem rules_nil_of_isEmpty {r : J5V.Compile.Rules} (h : r.isEmpty = true) : r = [] := by
  cases r with
  | nil => rfl
  | cons a b => cases h

theorem fieldMsg_eq {f : CField} (h : fieldOk1 f = true) :
    fieldMsg j5Env f = oneofMsg 15 (kindIdx f) (typeMsg f) := by
  cases f with
  | string rules l =>
    simp only [fieldOk1, Bool.and_eq_true, Bool.not_eq_true'] at h
    obtain ⟨h1, h2⟩ := h
    cases rules_nil_of_isEmpty h1; subst h2
    simp only [fieldMsg, fieldOneof, typeSchema, rulesVals, List.isEmpty_nil, if_true]
    rw [mkMsg_of schemaOf_Field, mkMsg_of schemaOf_StringField]
    rfl
  | bool rules l =>
    simp only [fieldOk1, Bool.and_eq_true, Bool.not_eq_true'] at h
    obtain ⟨h1, h2⟩ := h
    cases rules_nil_of_isEmpty h1; subst h2
    simp only [fieldMsg, fieldOneof, typeSchema, rulesVals, List.isEmpty_nil, if_true]
    rw [mkMsg_of schemaOf_Field, mkMsg_of schemaOf_BoolField]
    rfl
  | bytes rules =>
    simp only [fieldOk1] at h
    cases rules_nil_of_isEmpty h
    simp only [fieldMsg, fieldOneof, typeSchema, rulesVals, List.isEmpty_nil, if_true]
    rw [mkMsg_of schemaOf_Field, mkMsg_of schemaOf_BytesField]
    rfl
  | date rules l =>
    simp only [fieldOk1, Bool.and_eq_true, Bool.not_eq_true'] at h
    obtain ⟨h1, h2⟩ := h
    cases rules_nil_of_isEmpty h1; subst h2
    simp only [fieldMsg, fieldOneof, typeSchema, rulesVals, List.isEmpty_nil, if_true]
    rw [mkMsg_of schemaOf_Field, mkMsg_of schemaOf_DateField]
    rfl
  | decimal rules l =>
    simp only [fieldOk1, Bool.and_eq_true, Bool.not_eq_true'] at h
    obtain ⟨h1, h2⟩ := h
    cases rules_nil_of_isEmpty h1; subst h2
    simp only [fieldMsg, fieldOneof, typeSchema, rulesVals, List.isEmpty_nil, if_true]
    rw [mkMsg_of schemaOf_Field, mkMsg_of schemaOf_DecimalField]
    rfl
  | timestamp rules =>
    simp only [fieldOk1] at h
    cases rules_nil_of_isEmpty h
    simp only [fieldMsg, fieldOneof, typeSchema, rulesVals, List.isEmpty_nil, if_true]
    rw [mkMsg_of schemaOf_Field, mkMsg_of schemaOf_TimestampField]
    rfl
  | any =>
    simp only [fieldMsg, fieldOneof, typeSchema]
    rw [mkMsg_of schemaOf_Field, mkMsg_of schemaOf_AnyField]
    rfl
  | integer fmt rules l =>
    simp only [fieldOk1, Bool.and_eq_true, Bool.not_eq_true'] at h
    obtain ⟨h1, h2⟩ := h
    cases rules_nil_of_isEmpty h1; subst h2
    simp only [fieldMsg, fieldOneof, typeSchema, rulesVals, List.isEmpty_nil, if_true]
    rw [mkMsg_of schemaOf_Field, mkMsg_of schemaOf_IntegerField]
    rfl
  | float fmt rules l =>
    simp only [fieldOk1, Bool.and_eq_true, Bool.not_eq_true'] at h
    obtain ⟨h1, h2⟩ := h
    cases rules_nil_of_isEmpty h1; subst h2
    simp only [fieldMsg, fieldOneof, typeSchema, rulesVals, List.isEmpty_nil, if_true]
    rw [mkMsg_of schemaOf_Field, mkMsg_of schemaOf_FloatField]
    rfl
  | key fmt ek rules l =>
    simp only [fieldOk1, Bool.and_eq_true, Bool.not_eq_true'] at h
    obtain ⟨⟨⟨h1, h2⟩, _⟩, h4⟩ := h
    cases rules_nil_of_isEmpty h1; subst h2
    have hek : entKeyVals j5Env ek = [] := by
      cases ek with
      | nokey => rfl
      | ek k t => cases k <;> cases t <;> first | rfl | cases h4
    simp only [fieldMsg, fieldOneof, typeSchema, rulesVals, List.isEmpty_nil, if_true, hek,
      List.append_nil, List.nil_append]
    cases fmt <;> simp only [keyFmtVals] <;>
      simp only [mkMsg_of schemaOf_Field, mkMsg_of schemaOf_KeyField, mkMsg_of schemaOf_KeyFormat,
        mkMsg_of schemaOf_KeyFormatInformal, mkMsg_of schemaOf_KeyFormatCustom,
        mkMsg_of schemaOf_KeyFormatUUID, mkMsg_of schemaOf_KeyFormatID62] <;> rfl
  | _ => cases h

end J5V.Walker
