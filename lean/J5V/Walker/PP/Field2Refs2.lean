import J5V.Walker.PP.Field2Refs
/-!
# Print/parse, third slice: `oneof:Foo`, `enum:Foo` (with `listRules.filtering.…`), and
`refFacts : fieldOk3 f → FieldFacts f` for the three reference kinds
-/
namespace J5V.Walker
open J5V.Bcl

/-! ## Tables: `j5.list.v1.EnumRules`, `FilteringConstraint` -/

def sEnumListRules : Schema := j5_schema_lit% "j5.list.v1.EnumRules"
def specEnumListRules : BlockSpec := j5_spec_lit% "j5.list.v1.EnumRules"
def sFiltering : Schema := j5_schema_lit% "j5.list.v1.FilteringConstraint"
def specFiltering : BlockSpec := j5_spec_lit% "j5.list.v1.FilteringConstraint"
theorem schemaOf_EnumListRules : j5Env.schemaOf nEnumRules = sEnumListRules := by rw [j5Env_nf]; decide +kernel
theorem schemaOf_Filtering : j5Env.schemaOf nFiltering = sFiltering := by rw [j5Env_nf]; decide +kernel
theorem specOf_EnumListRules (c : Addr) : specOf j5Env ⟨c, .msg sEnumListRules⟩ = .ok specEnumListRules := by
  apply specOf_of_nil; rw [j5Env_nf]; decide +kernel
theorem specOf_Filtering (c : Addr) : specOf j5Env ⟨c, .msg sFiltering⟩ = .ok specFiltering := by
  apply specOf_of_nil; rw [j5Env_nf]; decide +kernel
theorem pi_EnumField_listRules :
    propInfo j5Env sEnumField b!"listRules" = some (3, none, .container sEnumListRules) := by
  rw [j5Env_nf]; decide +kernel
theorem pi_EnumListRules_filtering :
    propInfo j5Env sEnumListRules b!"filtering" = some (0, none, .container sFiltering) := by
  rw [j5Env_nf]; decide +kernel
theorem pi_Filtering_filterable :
    propInfo j5Env sFiltering b!"filterable" = some (0, none, .scalar (.scalar .bool) false) := by
  rw [j5Env_nf]; decide +kernel
theorem pi_Filtering_defaultFilters :
    propInfo j5Env sFiltering b!"defaultFilters" = some (1, none, .arrayOfScalar (.scalar .string)) := by
  rw [j5Env_nf]; decide +kernel

/-- the `listRules` message of an enum field -/
def listRulesNode : Option (List Str) → Node
  | none => .absent
  | some fs => .msg [true] [.msg [true, !fs.isEmpty] [bTrue, listSlot (fs.map fun s => .scalar (.str s))]]

section
variable {sc : Scope} {pfx : List Str} {sT : Schema} {specT : BlockSpec} {a b : Addr} {C : Option Node → Node}
  {P : Str → Prop}

/-- `pfx.listRules.filtering.filterable = true` [+ `defaultFilters = […]`] -/
theorem listRules_exact (hr : BodyReach sc pfx sT specT a b C P) (hn : P b!"listRules")
    (hfb : findBlock b!"listRules" [cfOf sT specT (a ++ b)] = some (cfOf sT specT (a ++ b), [b!"listRules"]))
    {i : Nat} (hpi : propInfo j5Env sT b!"listRules" = some (i, none, .container sEnumListRules))
    {t : List Bool} {vs : List Node} (ht : t[i]? = some false) (hv : vs[i]? = some .absent)
    (lr : Option (List Str)) (hok : listRulesOk lr = true) :
    Exact (doBody j5Env sc (listRulesBcl pfx lr)) a (C (some (.msg t vs))) ()
      (C (some (.msg (t.set i lr.isSome) (vs.set i (listRulesNode lr))))) := by
  cases lr with
  | none =>
    rw [list_set_self (show t[i]? = some (none : Option (List Str)).isSome from ht),
      list_set_self (show vs[i]? = some (listRulesNode none) from hv)]
    exact doBody_nil _ _ _
  | some fs =>
    have hrL := hr.child (some (.msg t vs)) rfl hn (by decide) hfb hpi specOf_EnumListRules ht hv
      (fun g hg => by cases hg)
    have hfbF : findBlock b!"filtering" [cfOf sEnumListRules specEnumListRules (a ++ (b ++ [i]))] =
        some (cfOf sEnumListRules specEnumListRules (a ++ (b ++ [i])), [b!"filtering"]) :=
      findBlock_prop' (show aliasLookup b!"filtering" specEnumListRules.aliases = none from rfl)
        (propInfo_hasProperty pi_EnumListRules_filtering)
    have hrF := hrL.child none (tp := [false]) (vsp := [.absent]) rfl (n := b!"filtering") trivial (by decide)
      hfbF pi_EnumListRules_filtering specOf_Filtering rfl rfl (fun g hg => by cases hg)
    have hfb1 : findBlock b!"filterable" [cfOf sFiltering specFiltering (a ++ (b ++ [i] ++ [0]))] =
        some (cfOf sFiltering specFiltering (a ++ (b ++ [i] ++ [0])), [b!"filterable"]) :=
      findBlock_prop' (show aliasLookup b!"filterable" specFiltering.aliases = none from rfl)
        (propInfo_hasProperty pi_Filtering_filterable)
    have hfb2 : findBlock b!"defaultFilters" [cfOf sFiltering specFiltering (a ++ (b ++ [i] ++ [0]))] =
        some (cfOf sFiltering specFiltering (a ++ (b ++ [i] ++ [0])), [b!"defaultFilters"]) :=
      findBlock_prop' (show aliasLookup b!"defaultFilters" specFiltering.aliases = none from rfl)
        (propInfo_hasProperty pi_Filtering_defaultFilters)
    have h1 := hrF.attr none (t := [false, false]) (vs := [.absent, .absent]) rfl (n := b!"filterable") trivial
      (by decide) hfb1 pi_Filtering_filterable (cur := .absent) rfl rfl (.inl rfl) (asArray_boolValue true)
      (by simp only [scalarFromAST, asBool_boolValue]; rfl)
    have hkey : ∀ n : Str, pfx ++ [b!"listRules"] ++ [b!"filtering"] ++ [n] =
        pfx ++ [b!"listRules", b!"filtering", n] := by intro n; simp
    rw [hkey] at h1
    cases fs with
    | nil => exact doBody_cons h1 (doBody_nil _ _ _)
    | cons x xs =>
      have h2 := hrF.attr_strs (some (.msg [true, false] [bTrue, .absent])) rfl (n := b!"defaultFilters") trivial
        (by decide) hfb2 pi_Filtering_defaultFilters rfl rfl (.inl rfl) (x := x) (xs := xs) hok
      rw [hkey] at h2
      exact doBody_cons h1 (doBody_cons h2 (doBody_nil _ _ _))

end

theorem listRulesVals_eq (lr : Option (List Str)) :
    listRulesVals j5Env lr = match lr with
      | none => []
      | some fs => [(b!"listRules", listRulesNode (some fs))] := by
  cases lr with
  | none => rfl
  | some fs =>
    simp only [listRulesVals]
    rw [mkMsg_of schemaOf_EnumListRules, mkMsg_of schemaOf_Filtering]
    cases fs <;> rfl

/-! ## `oneof:Foo` -/

def oneofRefFacts (pkg schema : Str) (href : refOk pkg schema = true) :
    FieldFacts (.oneofRef pkg schema [] false) where
  qualNames := [b!"ref"]
  bodyNames := [b!"ref"]
  blockNames := []
  tailP := fun _ _ => True
  qualVal := if hasDot schema then .msg [false, false, false, false, false] [.absent, .absent, .absent, .absent, .absent]
    else .msg [true, false, false, false, false] [refNode pkg schema, .absent, .absent, .absent, .absent]
  typeVal := .msg [true, false, false, false, false] [refNode pkg schema, .absent, .absent, .absent, .absent]
  pi := kind_pi_c rfl
  spec := kind_spec_c rfl
  specName := kindSpec_name
  specTypeSelect := kindSpec_typeSelect
  msg := by
    simp only [fieldMsg, fieldOneof]
    rw [rulesVals_eq rulesSchema_Oneof schemaOf_OneofRules, refMsg_eq, mkMsg_of schemaOf_Field,
      mkMsg_of schemaOf_OneofField]
    rfl
  namesSub := by
    intro n hn
    simp only [List.mem_singleton, or_self] at hn
    subst hn; decide
  qualSub := by intro _ n hn; exact .inr (List.mem_singleton.mp hn)
  blockSub := by intro kw hkw; cases hkw
  found := by
    intro d n hn
    show (findBlock n [cfOf sOneofField specOneofField d]).isSome = true
    simp only [List.mem_singleton] at hn
    subst hn
    rw [findBlock_prop' (show aliasLookup b!"ref" specOneofField.aliases = none by decide +kernel)
      (propInfo_hasProperty pi_OneofField_ref)]; rfl
  runQ := by
    intro outer root d hmiss
    refine ⟨typeScope outer (cfOf sOneofField specOneofField d) root, specOneofField, [], rfl, trivial, ?_⟩
    show Exact (walkQualifiers j5Env (refQuals pkg schema) _ _) _ _ _ _
    cases hd : hasDot schema with
    | true =>
      rw [refQuals_dot hd]
      simp only [if_true]
      exact walkQualifiers_nil _ _ _ _
    | false =>
      rw [refQuals_nodot hd]
      simp only [Bool.false_eq_true, if_false]
      obtain ⟨hs, hp⟩ := refOk_nodot href hd
      exact refQual_exact (show specOneofField.qualifier = _ by decide +kernel)
        (show aliasLookup b!"ref" specOneofField.aliases = none by decide +kernel) pi_OneofField_ref root d
        (hmiss _ (by simp)) (t := [false, false, false, false, false])
        (vs := [.absent, .absent, .absent, .absent, .absent]) rfl rfl (.inr rfl) hs hp
  runB := by
    intro sc pfx a b C hr _
    have hfbRef : findBlock b!"ref" [cfOf sOneofField specOneofField (a ++ b)] =
        some (cfOf sOneofField specOneofField (a ++ b), [b!"ref"]) :=
      findBlock_prop' (show aliasLookup b!"ref" specOneofField.aliases = none by decide +kernel)
        (propInfo_hasProperty pi_OneofField_ref)
    show Exact (doBody j5Env sc (rulesBcl pfx [] ++ refBody pfx pkg schema)) _ _ _ _
    rw [show rulesBcl pfx [] = [] from rfl, List.nil_append]
    cases hd : hasDot schema with
    | false =>
      rw [refBody_nodot hd]
      simp only [Bool.false_eq_true, if_false]
      exact doBody_nil _ _ _
    | true =>
      simp only [if_true]
      obtain ⟨hoks, hokp⟩ := refOk_dot href hd
      exact refBody_exact hr (List.mem_singleton.mpr rfl) hfbRef pi_OneofField_ref rfl rfl
        (by intro g hg; cases hg; rfl) hd hoks hokp

/-! ## `enum:Foo` -/

def enumRefFacts (pkg schema : Str) (rules : J5V.Compile.Rules) (lr : Option (List Str))
    (h : rulesOk j5Env b!"j5.schema.v1.EnumField" rules = true) (hlr : listRulesOk lr = true)
    (href : refOk pkg schema = true) : FieldFacts (.enumRef pkg schema rules lr) where
  qualNames := [b!"ref"]
  bodyNames := [wRules, b!"listRules", b!"ref"]
  blockNames := []
  tailP := fun _ _ => True
  qualVal := if hasDot schema then .msg [false, false, false, false, false] [.absent, .absent, .absent, .absent, .absent]
    else .msg [true, false, false, false, false] [refNode pkg schema, .absent, .absent, .absent, .absent]
  typeVal := .msg [true, false, !rules.isEmpty, lr.isSome, false]
    [refNode pkg schema, .absent, rulesNode sEnumRules rules, listRulesNode lr, .absent]
  pi := kind_pi_c rfl
  spec := kind_spec_c rfl
  specName := kindSpec_name
  specTypeSelect := kindSpec_typeSelect
  msg := by
    simp only [fieldMsg, fieldOneof]
    rw [rulesVals_eq rulesSchema_Enum schemaOf_EnumRules, refMsg_eq, listRulesVals_eq, mkMsg_of schemaOf_Field,
      mkMsg_of schemaOf_EnumField]
    cases rules <;> cases lr <;> rfl
  namesSub := by
    intro n hn
    simp only [List.mem_cons, List.not_mem_nil, or_false] at hn
    rcases hn with rfl | rfl | rfl | rfl <;> decide
  qualSub := by intro _ n hn; exact .inr (List.mem_singleton.mp hn)
  blockSub := by intro kw hkw; cases hkw
  found := by
    intro d n hn
    show (findBlock n [cfOf sEnumField specEnumField d]).isSome = true
    simp only [List.mem_cons, List.not_mem_nil, or_false] at hn
    rcases hn with rfl | rfl | rfl
    · rw [findBlock_prop' (show aliasLookup wRules specEnumField.aliases = none by decide +kernel)
        (propInfo_hasProperty pi_Enum_rules)]; rfl
    · rw [findBlock_prop' (show aliasLookup b!"listRules" specEnumField.aliases = none by decide +kernel)
        (propInfo_hasProperty pi_EnumField_listRules)]; rfl
    · rw [findBlock_prop' (show aliasLookup b!"ref" specEnumField.aliases = none by decide +kernel)
        (propInfo_hasProperty pi_EnumField_ref)]; rfl
  runQ := by
    intro outer root d hmiss
    refine ⟨typeScope outer (cfOf sEnumField specEnumField d) root, specEnumField, [], rfl, trivial, ?_⟩
    show Exact (walkQualifiers j5Env (refQuals pkg schema) _ _) _ _ _ _
    cases hd : hasDot schema with
    | true =>
      rw [refQuals_dot hd]
      simp only [if_true]
      exact walkQualifiers_nil _ _ _ _
    | false =>
      rw [refQuals_nodot hd]
      simp only [Bool.false_eq_true, if_false]
      obtain ⟨hs, hp⟩ := refOk_nodot href hd
      exact refQual_exact (show specEnumField.qualifier = _ by decide +kernel)
        (show aliasLookup b!"ref" specEnumField.aliases = none by decide +kernel) pi_EnumField_ref root d
        (hmiss _ (by simp)) (t := [false, false, false, false, false])
        (vs := [.absent, .absent, .absent, .absent, .absent]) rfl rfl (.inr rfl) hs hp
  runB := by
    intro sc pfx a b C hr _
    have hu := rulesOk_unpack h rulesSchema_Enum schemaOf_EnumRules
    have hfbR : findBlock wRules [cfOf sEnumField specEnumField (a ++ b)] =
        some (cfOf sEnumField specEnumField (a ++ b), [wRules]) :=
      findBlock_prop' (show aliasLookup wRules specEnumField.aliases = none by decide +kernel)
        (propInfo_hasProperty pi_Enum_rules)
    have hfbL : findBlock b!"listRules" [cfOf sEnumField specEnumField (a ++ b)] =
        some (cfOf sEnumField specEnumField (a ++ b), [b!"listRules"]) :=
      findBlock_prop' (show aliasLookup b!"listRules" specEnumField.aliases = none by decide +kernel)
        (propInfo_hasProperty pi_EnumField_listRules)
    have hfbRef : findBlock b!"ref" [cfOf sEnumField specEnumField (a ++ b)] =
        some (cfOf sEnumField specEnumField (a ++ b), [b!"ref"]) :=
      findBlock_prop' (show aliasLookup b!"ref" specEnumField.aliases = none by decide +kernel)
        (propInfo_hasProperty pi_EnumField_ref)
    show Exact (doBody j5Env sc (rulesBcl pfx rules ++ listRulesBcl pfx lr ++ refBody pfx pkg schema)) _ _ _ _
    cases hd : hasDot schema with
    | false =>
      rw [refBody_nodot hd, List.append_nil]
      simp only [Bool.false_eq_true, if_false]
      exact doBody_append
        (hr.rules (show wRules ∈ [wRules, b!"listRules", b!"ref"] by simp) rulesOK_Enum hfbR pi_Enum_rules
          specOf_EnumRules (t := [true, false, false, false, false]) rfl rfl rules hu.1 hu.2)
        (listRules_exact hr (show b!"listRules" ∈ [wRules, b!"listRules", b!"ref"] by simp) hfbL
          pi_EnumField_listRules rfl rfl lr hlr)
    | true =>
      simp only [if_true]
      obtain ⟨hoks, hokp⟩ := refOk_dot href hd
      refine doBody_append (doBody_append
        (hr.rules (show wRules ∈ [wRules, b!"listRules", b!"ref"] by simp) rulesOK_Enum hfbR pi_Enum_rules
          specOf_EnumRules (t := [false, false, false, false, false]) rfl rfl rules hu.1 hu.2)
        (listRules_exact hr (show b!"listRules" ∈ [wRules, b!"listRules", b!"ref"] by simp) hfbL
          pi_EnumField_listRules rfl rfl lr hlr)) ?_
      exact refBody_exact hr (show b!"ref" ∈ [wRules, b!"listRules", b!"ref"] by simp) hfbRef
        pi_EnumField_ref rfl rfl (by intro g hg; cases hg; rfl) hd hoks hokp

end J5V.Walker
