import J5V.Walker.PP.Exact
/-!
# Print/parse: lenses — how a subtree sits in a larger one

`Lens F b`: `F Y` is a tree whose subtree at `b` is `Y`, and writing `Y'` there gives `F Y'`.
`Exact.lens`: a run inside the subtree is a run inside the tree. Composition (`Lens.comp`), a message
slot (`Lens.slot`), the last element of a list (`Lens.last`).
-/
namespace J5V.Walker

structure Lens (F : Node → Node) (b : Addr) : Prop where
  get : ∀ Y, (F Y).get? b = some Y
  set : ∀ Y Y', (F Y).set b Y' = F Y'

theorem Lens.id : Lens (fun Y => Y) [] := ⟨fun Y => Node.get?_nil Y, fun Y Y' => Node.set_nil Y Y'⟩

theorem Lens.comp {F G : Node → Node} {b1 b2 : Addr} (h1 : Lens F b1) (h2 : Lens G b2) :
    Lens (fun Y => F (G Y)) (b1 ++ b2) where
  get := fun Y => by rw [Node.get?_append, h1.get, Option.bind_some, h2.get]
  set := fun Y Y' => by rw [Node.set_append (h1.get _), h2.set, h1.set]

/-- slot `i` of a message -/
theorem Lens.slot (t : List Bool) (vs : List Node) {i : Nat} (hlt : i < vs.length) :
    Lens (fun Y => Node.msg t (vs.set i Y)) [i] where
  get := fun Y => Node.get?_msg_single _ _ _ _ (by rw [List.getElem?_set_self hlt])
  set := fun Y Y' => by
    rw [Node.set_msg_single _ _ _ Y _ (by rw [List.getElem?_set_self hlt]), List.set_set]

/-- the last element of a list -/
theorem Lens.last (xs : List Node) : Lens (fun Y => Node.list (xs ++ [Y])) [xs.length] where
  get := fun Y => by rw [Node.get?_list_concat]; rfl
  set := fun Y Y' => by rw [Node.set_list_concat, Node.set_nil]

/-- a run inside the subtree is a run inside the tree -/
theorem Exact.lens {α : Type} {m : M α} {F : Node → Node} {a b : Addr} {Y Y' : Node} {r : α}
    (hl : Lens F b) (h : Exact m (a ++ b) Y r Y') : Exact m a (F Y) r (F Y') :=
  (h.lift (hl.get Y)).conv (hl.set Y Y')

end J5V.Walker
