import J5V.Walker.PP.GenWalk
/-!
# Print/parse: statements that append to one repeated property (the list-level lemma)

`Appends env sc c i st m`: whatever the array in slot `i` of the message at `c` holds (`xs`), the statement
`st` appends exactly `m`. `appends_fold`: a list of such statements appends the list of their messages
("the array holds `xs`; after the statements it holds `xs ++ ms`") — by induction with the accumulator
`xs`. The slot of an EMPTY array is untouched and `.absent` (`listSlot`), as in `Print.listVal`.
-/
namespace J5V.Walker
open J5V.Bcl

/-- the statement `st`, run in `sc`, appends `m` to the array in slot `i` of the message at `c` -/
def Appends (env : Env) (sc : Scope) (c : Addr) (i : Nat) (st : Statement) (m : Node) : Prop :=
  ∀ (xs : List Node) (t : List Bool) (vs : List Node),
    t[i]? = some (!xs.isEmpty) → vs[i]? = some (listSlot xs) →
    Exact (doStatement env sc st) c (.msg t vs) () (.msg (t.set i true) (vs.set i (.list (xs ++ [m]))))

theorem listSlot_concat (xs : List Node) (m : Node) : listSlot (xs ++ [m]) = .list (xs ++ [m]) := by
  unfold listSlot
  rw [if_neg (by simp)]

/-- pointwise `Appends` of a list of statements and a list of messages -/
inductive AppendsAll (env : Env) (sc : Scope) (c : Addr) (i : Nat) : List Statement → List Node → Prop where
  | nil : AppendsAll env sc c i [] []
  | cons {st : Statement} {m : Node} {sts : List Statement} {ms : List Node} :
      Appends env sc c i st m → AppendsAll env sc c i sts ms → AppendsAll env sc c i (st :: sts) (m :: ms)

/-- statements that append, one after the other -/
theorem appends_fold {env : Env} {sc : Scope} {c : Addr} {i : Nat} {sts : List Statement} {ms : List Node}
    (h : AppendsAll env sc c i sts ms)
    (xs : List Node) (t : List Bool) (vs : List Node)
    (ht : t[i]? = some (!xs.isEmpty)) (hv : vs[i]? = some (listSlot xs)) :
    Exact (doBody env sc sts) c (.msg t vs) ()
      (.msg (t.set i (!(xs ++ ms).isEmpty)) (vs.set i (listSlot (xs ++ ms)))) := by
  induction h generalizing xs t vs with
  | nil =>
    rw [List.append_nil, list_set_self ht, list_set_self hv]
    exact doBody_nil _ _ _
  | @cons st m sts ms h1 _ ih =>
    have hlt : i < t.length := (List.getElem?_eq_some_iff.mp ht).1
    have hlv : i < vs.length := (List.getElem?_eq_some_iff.mp hv).1
    have h2 := ih (xs ++ [m]) (t.set i true) (vs.set i (.list (xs ++ [m])))
      (by rw [List.getElem?_set_self hlt]; simp)
      (by rw [List.getElem?_set_self hlv, listSlot_concat])
    rw [List.set_set, List.set_set, List.append_assoc] at h2
    exact doBody_cons (h1 xs t vs ht hv) h2

/-- `AppendsAll` over `map` on both sides -/
theorem appendsAll_map {env : Env} {sc : Scope} {c : Addr} {i : Nat} {α : Type} (f : α → Statement)
    (g : α → Node) (l : List α) (h : ∀ a ∈ l, Appends env sc c i (f a) (g a)) :
    AppendsAll env sc c i (l.map f) (l.map g) := by
  induction l with
  | nil => exact .nil
  | cons a rest ih =>
    exact .cons (h a (by simp)) (ih (fun b hb => h b (List.mem_cons_of_mem _ hb)))

end J5V.Walker
