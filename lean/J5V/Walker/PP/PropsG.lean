import J5V.Walker.PP.Props2
/-!
# Print/parse: the head of a property-like block, generic in the block's schema

`ObjectProperty` and `j5.sourcedef.v1.EntityKey` (the `key` blocks of an entity) start with the same four
properties (`schema`, `name`, `required`, `explicitlyOptional`) and have the same tags (name, type-select
with `!` → `required`, `?` → `optional`). `OuterOK sO specO` collects the table facts; `gNode` is the
message with a tail of further slots; `gHead_exact` is the exact run of the block head (name tag,
type-select tag with its mark, qualifier chain of the field).
-/
namespace J5V.Walker
open J5V.Bcl

/-- the table facts of a property-like block schema -/
structure OuterOK (sO : Schema) (specO : BlockSpec) : Prop where
  pi_schema : propInfo j5Env sO b!"schema" = some (0, none, .container sField)
  pi_name : propInfo j5Env sO wName = some (1, none, .scalar (.scalar .string) false)
  pi_required : propInfo j5Env sO b!"required" = some (2, none, .scalar (.scalar .bool) false)
  pi_expl : propInfo j5Env sO b!"explicitlyOptional" = some (3, none, .scalar (.scalar .bool) false)
  spec : ∀ c, specOf j5Env ⟨c, .msg sO⟩ = .ok specO
  specName : specO.name = some ⟨wName, none, none, false, false⟩
  specTS : specO.typeSelect = some opTypeSpec
  aSchema : aliasLookup b!"schema" specO.aliases = none
  aName : aliasLookup wName specO.aliases = none
  aRequired : aliasLookup b!"required" specO.aliases = none
  aOptional : aliasLookup b!"optional" specO.aliases = some [b!"explicitlyOptional"]
  misses : ∀ n ∈ fieldLineNames, aliasLookup n specO.aliases = none ∧ sO.hasProperty n = false

/-- the message of a property-like block: the six common slots, then `et` / `ev` -/
def gNode (t0 : Bool) (F : Node) (t1 : Bool) (nm : Node) (r o : Bool) (et : List Bool) (ev : List Node) : Node :=
  .msg ([t0, t1, r, o, false, false] ++ et)
    ([F, nm, if r then bTrue else .absent, if o then bTrue else .absent, .absent, .absent] ++ ev)

section
variable {sO : Schema} {specO : BlockSpec} (hO : OuterOK sO specO) {e : Addr} {sc : Scope}
  {tail : List ContainerField} {et : List Bool} {ev : List Node}

/-- the block at `e` -/
abbrev outerCF (sO : Schema) (specO : BlockSpec) (e : Addr) : ContainerField := cfOf sO specO e

include hO in
theorem g_setName {name : Str} (hname : isIdent name = true) (hbs : sc.blockSet = outerCF sO specO e :: tail)
    (t0 : Bool) (F : Node) (r o : Bool) :
    Exact (setAttribute j5Env (fuelOf j5Env) sc [wName] [] (.tag (nameTag name)) false) e
      (gNode t0 F false .absent r o et ev) () (gNode t0 F true (sStr name) r o et ev) := by
  refine (setAttr_direct (n := wName) (pos := none) (cur := .absent) (v := .str name) rfl
    (by rw [hbs]; exact findBlock_prop' hO.aName (propInfo_hasProperty hO.pi_name)) hO.pi_name rfl rfl (.inl rfl)
    (asArray_tag _)
    (by simp only [scalarFromAST, nameTag, asString_tagRef_single (isAscii_of_isIdent hname)]; rfl)).conv ?_
  rw [storeNode_str]; rfl

include hO in
theorem g_setRequired (hbs : sc.blockSet = outerCF sO specO e :: tail) (t0 : Bool) (F : Node) (t1 : Bool)
    (nm : Node) (o : Bool) :
    Exact (setAttribute j5Env (fuelOf j5Env) sc [b!"required"] [] (.bool true) false) e
      (gNode t0 F t1 nm false o et ev) () (gNode t0 F t1 nm true o et ev) :=
  setAttr_direct (n := b!"required") (pos := none) (cur := .absent) (v := .bool true) rfl
    (by rw [hbs]; exact findBlock_prop' hO.aRequired (propInfo_hasProperty hO.pi_required)) hO.pi_required
    rfl rfl (.inl rfl) (asArray_bool _) rfl

include hO in
theorem g_setOptionalMark (hbs : sc.blockSet = outerCF sO specO e :: tail) (t0 : Bool) (F : Node) (t1 : Bool)
    (nm : Node) (r : Bool) :
    Exact (setAttribute j5Env (fuelOf j5Env) sc [b!"optional"] [] (.bool true) false) e
      (gNode t0 F t1 nm r false et ev) () (gNode t0 F t1 nm r true et ev) :=
  setAttr_direct (n := b!"optional") (pos := none) (cur := .absent) (v := .bool true) rfl
    (by rw [hbs]; exact findBlock_alias' hO.aOptional) hO.pi_expl rfl rfl (.inl rfl) (asArray_bool _) rfl

include hO in
theorem g_setOptionalLine (hbs : sc.blockSet = outerCF sO specO e :: tail) (t0 : Bool) (F : Node) (t1 : Bool)
    (nm : Node) (r : Bool) :
    Exact (doStatement j5Env sc (assignStmt [b!"optional"] (boolValue true))) e
      (gNode t0 F t1 nm r false et ev) () (gNode t0 F t1 nm r true et ev) :=
  doStatement_assign
    (setAttr_direct (n := b!"optional") (pos := some Span.zero) (cur := .absent) (v := .bool true)
      (combinePath_ident (by decide) [])
      (by rw [hbs]; exact findBlock_alias' hO.aOptional) hO.pi_expl rfl rfl (.inl rfl) (asArray_boolValue _)
      (by simp only [scalarFromAST, asBool_boolValue]; rfl))

include hO in
theorem outerCF_misses (e : Addr) : ∀ n ∈ fieldLineNames, Misses (outerCF sO specO e) n :=
  fun n hn => ⟨(hO.misses n hn).1, (hO.misses n hn).2⟩

/-- the lens from the block's message to the type message of its field -/
theorem gType_lens (k : Nat) (hk : k < 15) (t1 : Bool) (nm : Node) (r o : Bool) (et : List Bool) (ev : List Node) :
    Lens (fun Y => gNode true (oneofMsg 15 k Y) t1 nm r o et ev) ([0] ++ [k]) :=
  Lens.comp
    (Lens.slot ([true, t1, r, o, false, false] ++ et)
      ([Node.absent, nm, if r then bTrue else .absent, if o then bTrue else .absent, .absent, .absent] ++ ev) (i := 0)
      (by simp))
    (Lens.slot ((List.replicate 15 false).set k true) (List.replicate 15 .absent) (i := k) (by simpa using hk))

/-- the scope after the type-select tag -/
abbrev gTypeScope (sO : Schema) (specO : BlockSpec) (e : Addr) (f : CField) : Scope :=
  typeScope [outerCF sO specO e] (cfOf (kindSchema f) (kindSpec f) (e ++ [0, kindIdx f])) (some (outerCF sO specO e))

include hO in
/-- name tag + type-select tag up to (not including) the mark -/
theorem g_select {name : Str} {f : CField} (hname : isIdent name = true) (ff : FieldFacts f) (e : Addr)
    (et : List Bool) (ev : List Node) :
    Exact (setAttribute j5Env (fuelOf j5Env) (Scope.newChild (outerCF sO specO e)) [wName] []
      (.tag (nameTag name)) false) e (gNode false .absent false .absent false false et ev) ()
      (gNode false .absent true (sStr name) false false et ev) ∧
    Exact (buildScope j5Env (Scope.newChild (outerCF sO specO e)) (pathToType opTypeSpec)
      (refOf [fieldKind f]).idents .keepScope) e
      (gNode false .absent true (sStr name) false false et ev) (gTypeScope sO specO e f)
      (gNode true (oneofMsg 15 (kindIdx f) (freshMsg (kindSchema f))) true (sStr name) false false et ev) := by
  refine ⟨g_setName hO (tail := []) hname rfl false .absent false false, ?_⟩
  have h1 : Exact (childBlock j5Env (Scope.newChild (outerCF sO specO e)) b!"schema") e
      (gNode false .absent true (sStr name) false false et ev)
      (Scope.newChild (cfOf sField specField (e ++ [0])))
      (gNode true (freshMsg sField) true (sStr name) false false et ev) :=
    childBlock_of_walkPath
      (findBlock_prop' hO.aSchema (propInfo_hasProperty hO.pi_schema))
      (walkPath_container (propInfo_hasProperty hO.pi_schema)
        (propSetValue_build false hO.pi_schema (cur := .absent) rfl rfl (.inl rfl)) (walkRest_nil _ _ _))
      (setSpecs_cons (specOf_Field _) (setSpecs_nil _))
  have h2' : Exact (childBlock j5Env (Scope.newChild (cfOf sField specField (e ++ [0]))) (fieldKind f)) (e ++ [0])
      (freshMsg sField)
      (Scope.newChild (cfOf (kindSchema f) (kindSpec f) (e ++ [0] ++ [kindIdx f])))
      (oneofMsg 15 (kindIdx f) (freshMsg (kindSchema f))) :=
    childBlock_of_walkPath
      (findBlock_prop' (show aliasLookup (fieldKind f) specField.aliases = none from rfl)
        (propInfo_hasProperty ff.pi))
      (walkPath_container (propInfo_hasProperty ff.pi)
        (propSetValue_build false ff.pi (t := List.replicate 15 false) (vs := List.replicate 15 .absent)
          (cur := .absent)
          (by rw [List.getElem?_replicate, if_pos (kind_lt f)])
          (by rw [List.getElem?_replicate, if_pos (kind_lt f)]) (.inr rfl))
        (walkRest_nil _ _ _))
      (setSpecs_cons (ff.spec _) (setSpecs_nil _))
  have h2 : Exact (childBlock j5Env (Scope.newChild (cfOf sField specField (e ++ [0]))) (fieldKind f)) e
      (gNode true (freshMsg sField) true (sStr name) false false et ev)
      (Scope.newChild (cfOf (kindSchema f) (kindSpec f) (e ++ [0, kindIdx f])))
      (gNode true (oneofMsg 15 (kindIdx f) (freshMsg (kindSchema f))) true (sStr name) false false et ev) := by
    have h := Exact.lift_prop (t := [true, true, false, false, false, false] ++ et)
      (vs := [freshMsg sField, sStr name, .absent, .absent, .absent, .absent] ++ ev) (i := 0) (a := e) rfl h2'
    rw [List.append_assoc] at h
    exact h
  exact buildScope_keep_run (combinePath_ident (kind_ascii f) [b!"schema"])
    (walkScope_cons h1 (walkScope_cons h2 (walkScope_nil _ _ _)))

/-- the mark of the type-select tag of a property-like block -/
def propMark (req opt : Bool) : TagMark := if req then .bang else if opt then .question else .none

include hO in
/-- the head of a property-like block: name tag, type-select tag with its mark, the field's qualifiers.
`required` is set by `!`, `explicitlyOptional` by `?` (only when not `!`) -/
theorem gHead_exact {name : Str} {req opt : Bool} {f : CField} (hname : isIdent name = true) (ff : FieldFacts f)
    (kw : Str) (isOpen : Bool) (e : Addr) (et : List Bool) (ev : List Node) :
    ∃ (sc2 : Scope) (tail : List ContainerField),
      sc2.blockSet = outerCF sO specO e :: (tcfOf f (e ++ [0, kindIdx f]) :: tail) ∧
      ff.tailP (e ++ [0, kindIdx f]) tail ∧
      Exact (doBlockHead j5Env (Scope.newChild (outerCF sO specO e)) specO
        ⟨refOf [kw], [nameTag name, tagRef (propMark req opt) (refOf [fieldKind f])], fieldQuals f, none, isOpen,
          src0⟩) e (gNode false .absent false .absent false false et ev) sc2
        (gNode true (oneofMsg 15 (kindIdx f) ff.qualVal) true (sStr name) req (!req && opt) et ev) := by
  obtain ⟨sc2, spec2, tail, hbs, htail, hq⟩ := ff.runQ [outerCF sO specO e] (some (outerCF sO specO e))
    (e ++ [0, kindIdx f])
    (fun n hn o ho => by
      simp only [List.mem_singleton] at ho; subst ho
      exact outerCF_misses hO e n (ff.namesSub n (.inl hn)))
  refine ⟨sc2, tail, hbs, htail, ?_⟩
  obtain ⟨hsetname, hbuild⟩ := g_select hO hname ff e et ev
  have hq' := fun (rq o : Bool) => Exact.lens (gType_lens (kindIdx f) (kind_lt f) true (sStr name) rq o et ev)
    (a := e) (by simpa using hq)
  have hts : (gTypeScope sO specO e f).blockSet =
      outerCF sO specO e :: [cfOf (kindSchema f) (kindSpec f) (e ++ [0, kindIdx f])] := rfl
  have hhead : ∀ (mark : TagMark) (rq o : Bool),
      Exact (checkBang j5Env (gTypeScope sO specO e f) opTypeSpec (tagRef mark (refOf [fieldKind f]))) e
        (gNode true (oneofMsg 15 (kindIdx f) (freshMsg (kindSchema f))) true (sStr name) false false et ev) ()
        (gNode true (oneofMsg 15 (kindIdx f) (freshMsg (kindSchema f))) true (sStr name) rq o et ev) →
      Exact (doBlockHead j5Env (Scope.newChild (outerCF sO specO e)) specO
        ⟨refOf [kw], [nameTag name, tagRef mark (refOf [fieldKind f])], fieldQuals f, none, isOpen, src0⟩) e
        (gNode false .absent false .absent false false et ev) sc2
        (gNode true (oneofMsg 15 (kindIdx f) ff.qualVal) true (sStr name) rq o et ev) := by
    intro mark rq o hcb
    exact doBlockHead_exact rfl
      (walkTags_name_type hO.specName hO.specTS
        (applyNameTag_exact (checkBang_none _ _ rfl) hsetname)
        (selectType_exact (ref := refOf [fieldKind f]) rfl hbuild hcb)
        (walkTags_nil_none _ _ ff.specName ff.specTypeSelect))
      (hq' rq o)
  cases req <;> cases opt
  · exact hhead .none false false (checkBang_none _ _ rfl)
  · exact hhead .question false true (checkBang_question rfl rfl (g_setOptionalMark hO hts _ _ _ _ _))
  · exact hhead .bang true false (checkBang_bang rfl rfl (g_setRequired hO hts _ _ _ _ _))
  · exact hhead .bang true false (checkBang_bang rfl rfl (g_setRequired hO hts _ _ _ _ _))

end

end J5V.Walker
