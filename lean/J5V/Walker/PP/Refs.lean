import J5V.Walker.PP.Split
import J5V.Walker.PP.Field2
/-!
# Print/parse: references to declared types (`object:foo.v1.Bar`, `ref.package` / `ref.schema`)

`refNode pkg schema` = `j5.schema.v1.Ref` as `Print.refMsg` writes it. `refSplit_exact`: the qualifier
string set into the `Ref` container through its scalar split. `refQual_exact`: the qualifier
`:pkg.Schema` of an object / oneof / enum field (property `ref`, slot 0, of the field's type).
-/
namespace J5V.Walker
open J5V.Bcl

def sRef : Schema := j5_schema_lit% "j5.schema.v1.Ref"
def specRef : BlockSpec := j5_spec_lit% "j5.schema.v1.Ref"
theorem schemaOf_Ref : j5Env.schemaOf nRef = sRef := by rw [j5Env_nf]; decide +kernel
theorem specOf_Ref (c : Addr) : specOf j5Env ⟨c, .msg sRef⟩ = .ok specRef := by
  apply specOf_of_nil; rw [j5Env_nf]; decide +kernel
theorem pi_Ref_package : propInfo j5Env sRef b!"package" = some (0, none, .scalar (.scalar .string) false) := by
  rw [j5Env_nf]; decide +kernel
theorem pi_Ref_schema : propInfo j5Env sRef b!"schema" = some (1, none, .scalar (.scalar .string) false) := by
  rw [j5Env_nf]; decide +kernel

/-- `j5.schema.v1.Ref`: `package` touched only when there is one -/
def refNode (pkg schema : Str) : Node :=
  .msg [pkg != [], true] [if pkg != [] then sStr pkg else .absent, sStr schema]

theorem refMsg_eq (pkg schema : Str) : refMsg j5Env pkg schema = refNode pkg schema := by
  unfold refMsg
  rw [mkMsg_of schemaOf_Ref]
  cases pkg <;> rfl

/-- the fuel of the walk leaves room for the levels of a scalar split -/
theorem fuelOf_succ3 (env : Env) :
    fuelOf env = (2 * env.given.length + env.schemas.length + 5) + 1 + 1 + 1 := rfl

/-- the `Ref` block at `r` -/
abbrev refCF (r : Addr) : ContainerField := cfOf sRef specRef r

/-- the qualifier string `pkg.Schema` / `Schema` set into a fresh `Ref` -/
theorem refSplit_exact {pkg schema : Str} (hs : isIdent schema = true) (hp : pkg = [] ∨ isDotted pkg = true)
    (fuel : Nat) (mark : TagMark) (r : Addr) :
    Exact (setContainerFromScalar j5Env (fuel + 1 + 1) (Scope.newChild (refCF r)) specRef
      (.tag (tagRef mark (dottedRef (refString pkg schema))))) r (.msg [false, false] [.absent, .absent]) ()
      (refNode pkg schema) := by
  have hfbS : findBlock b!"schema" (Scope.newChild (refCF r)).blockSet = some (refCF r, [b!"schema"]) :=
    findBlock_prop' (show aliasLookup b!"schema" specRef.aliases = none from rfl)
      (propInfo_hasProperty pi_Ref_schema)
  have hfbP : findBlock b!"package" (Scope.newChild (refCF r)).blockSet = some (refCF r, [b!"package"]) :=
    findBlock_prop' (show aliasLookup b!"package" specRef.aliases = none from rfl)
      (propInfo_hasProperty pi_Ref_package)
  refine setContainerFromScalar_split1 (delim := [46]) (req := [b!"schema"]) (rem := [b!"package"])
    (parts := if pkg = [] then [] else J5V.Compile.splitOnByte 46 pkg) (lastPart := schema)
    (X1 := .msg [false, true] [.absent, sStr schema])
    (show specRef.scalarSplit = _ by decide +kernel)
    (asString_tagRef_dotted (isDotted_refString hs hp) mark) (split_refString hs) ?_ ?_
  · refine (setAttr_direct' (n := b!"schema") (pos := none) (cur := .absent) (v := .str schema) rfl hfbS
      pi_Ref_schema rfl rfl (.inl rfl) rfl rfl).conv ?_
    rw [storeNode_str]; rfl
  · by_cases hpe : pkg = []
    · subst hpe
      rw [if_pos rfl, if_pos rfl]
      rfl
    · rw [if_neg hpe]
      have hne : J5V.Compile.splitOnByte 46 pkg ≠ [] := splitOnByte_ne_nil 46 pkg
      rw [if_neg hne]
      intro sp
      rw [stringsJoin_split]
      refine (setAttr_direct' (n := b!"package") (pos := none) (cur := .absent) (v := .str pkg) rfl hfbP
        pi_Ref_package rfl rfl (.inl rfl) rfl rfl).conv ?_
      rw [storeNode_str]
      have : (pkg != []) = true := by simpa using hpe
      simp only [refNode, this, if_true]
      rfl

end J5V.Walker
