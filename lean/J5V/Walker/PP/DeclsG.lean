import J5V.Walker.PP.Slice7
/-!
# Print/parse: `oneof` / `enum` declarations and object bodies wherever they are written

`Slice6.oneofDecl_appends` / `enumDecl_appends` are stated at the top level (`elements.oneof`); inside an
entity the same blocks append to `schemas` (`oneof → [schemas, oneof]`). Here: the statements over ANY block
whose alias for the keyword is `[arr, member]` (as `Elems.ObjDeclAppends` for objects), and the body of an
object declaration (`event NAME { … }` of an entity is an object declaration under another keyword).
-/
namespace J5V.Walker
open J5V.Bcl

/-- a oneof declaration appends `<oneof={…}>` wherever `oneof` is an alias `[arr, oneof]` -/
theorem oneofDecl_appendsG {name : Str} {props : List CProperty} {psm : Option J5V.Compile.Psm}
    (hname : isIdent name = true) (hps : ∀ p ∈ props, PropHas p)
    {sc : Scope} {s : Schema} {spec : BlockSpec} {c : Addr} {arr : Str} {i k : Nat} {sE : Schema}
    {specE : BlockSpec} {og : Option (Str × List Nat)} {tf : List Bool} {vf : List Node}
    (hfb : findBlock wOneof sc.blockSet = some (cfOf s spec c, [arr, wOneof]))
    (hpiA : propInfo j5Env s arr = some (i, none, .arrayOfContainer sE))
    (hpiM : propInfo j5Env sE wOneof = some (k, og, .container sOneofDecl))
    (hspecE : ∀ c, specOf j5Env ⟨c, .msg sE⟩ = .ok specE)
    (hfresh : freshMsg sE = .msg tf vf) (htf : tf[k]? = some false) (hvf : vf[k]? = some .absent)
    (hunpop : vf.all (fun v => !v.populated) = true) :
    Appends j5Env sc c i (objectBcl wOneof wOption (.mk name props [] psm))
      (.msg (tf.set k true) (vf.set k (objectMsg j5Env true (.mk name props [] psm)))) := by
  rw [oneofDeclMsg_eq]
  refine memberDecl_appends (kw := wOneof) (by decide) hfb hpiA hpiM hspecE specOf_OneofDecl hfresh htf hvf hunpop
    (show specOneofDecl.name = _ by decide +kernel) (show specOneofDecl.typeSelect = none by decide +kernel)
    (show aliasLookup wName specOneofDecl.aliases = none by decide +kernel) pi_OneofDecl_name
    (tD := [false, false, false, false]) (vsD := [.absent, .absent, .absent, .absent]) rfl rfl rfl hname ?_
  intro d
  have hprops := props_appendsAll2 (kw := wOption) (by decide)
    (sc := Scope.newChild (cfOf sOneofDecl specOneofDecl d))
    (findBlock_alias' (show aliasLookup wOption specOneofDecl.aliases = some [b!"properties"] by decide +kernel))
    pi_OneofDecl_properties props hps
  have h1 := appends_fold hprops [] [true, false, false, false] [sStr name, .absent, .absent, .absent] rfl rfl
  refine (doBody_append h1 (doBody_nil _ _ _)).conv ?_
  rw [List.nil_append]
  rfl

/-- the body of an enum declaration at `d`, after the name -/
theorem enumBody_exact (d : Addr) (name pfx : Str) (opts : List Str) (hpfx : okString pfx = true)
    (hopts : opts.all isIdent = true) :
    Exact (doBody j5Env (Scope.newChild (enumCF d))
      ((if pfx = [] then [] else [assignStmt [b!"prefix"] (strValue pfx)]) ++ opts.map optionBcl)) d
      (.msg [true, false, false, false, false] [sStr name, .absent, .absent, .absent, .absent]) ()
      (.msg [true, false, pfx != [], !(opts.map (enumOptionMsg j5Env)).isEmpty, false]
        [sStr name, .absent, if pfx != [] then sStr pfx else .absent,
          listSlot (opts.map (enumOptionMsg j5Env)), .absent]) := by
  have h1 : Exact (doBody j5Env (Scope.newChild (enumCF d))
      (if pfx = [] then [] else [assignStmt [b!"prefix"] (strValue pfx)])) d
      (.msg [true, false, false, false, false] [sStr name, .absent, .absent, .absent, .absent]) ()
      (.msg [true, false, pfx != [], false, false]
        [sStr name, .absent, if pfx != [] then sStr pfx else .absent, .absent, .absent]) := by
    by_cases hp : pfx = []
    · subst hp; exact doBody_nil _ _ _
    · rw [if_neg hp]
      have hne : (pfx != []) = true := by simpa using hp
      rw [hne]
      refine doBody_cons (doStatement_assign ?_) (doBody_nil _ _ _)
      refine (setAttr_direct (n := b!"prefix") (pos := some Span.zero) (cur := .absent) (v := .str pfx)
        (combinePath_ident (by decide) [])
        (findBlock_prop' (show aliasLookup b!"prefix" specSEnum.aliases = none by decide +kernel)
          (propInfo_hasProperty pi_SEnum_prefix))
        pi_SEnum_prefix rfl rfl (.inl rfl) (asArray_strValue _)
        (by simp only [scalarFromAST, asString_strValue (isAscii_of_okString hpfx)]; rfl)).conv ?_
      rw [storeNode_str]; rfl
  have hopt : AppendsAll j5Env (Scope.newChild (enumCF d)) d 3 (opts.map optionBcl)
      (opts.map (enumOptionMsg j5Env)) :=
    appendsAll_map _ _ _ (fun o ho => option_appends d (List.all_eq_true.mp hopts o ho))
  have h2 := appends_fold hopt [] [true, false, pfx != [], false, false]
    [sStr name, .absent, if pfx != [] then sStr pfx else .absent, .absent, .absent] rfl rfl
  refine (doBody_append h1 h2).conv ?_
  rw [List.nil_append]
  rfl

/-- an enum declaration appends `<enum={…}>` wherever `enum` is an alias `[arr, enum]` -/
theorem enumDecl_appendsG {e : J5V.Compile.EnumDecl} (he : enumDeclOk true e = true)
    {sc : Scope} {s : Schema} {spec : BlockSpec} {c : Addr} {arr : Str} {i k : Nat} {sE : Schema}
    {specE : BlockSpec} {og : Option (Str × List Nat)} {tf : List Bool} {vf : List Node}
    (hfb : findBlock wEnum sc.blockSet = some (cfOf s spec c, [arr, wEnum]))
    (hpiA : propInfo j5Env s arr = some (i, none, .arrayOfContainer sE))
    (hpiM : propInfo j5Env sE wEnum = some (k, og, .container sSEnum))
    (hspecE : ∀ c, specOf j5Env ⟨c, .msg sE⟩ = .ok specE)
    (hfresh : freshMsg sE = .msg tf vf) (htf : tf[k]? = some false) (hvf : vf[k]? = some .absent)
    (hunpop : vf.all (fun v => !v.populated) = true) :
    Appends j5Env sc c i (enumBcl e) (.msg (tf.set k true) (vf.set k (enumMsg j5Env e))) := by
  obtain ⟨name, pfx, opts⟩ := e
  simp only [enumDeclOk, if_true, Bool.and_eq_true] at he
  obtain ⟨⟨hname, hpfx⟩, hopts⟩ := he
  rw [enumDeclMsg_eq name pfx opts hname]
  exact memberDecl_appends (kw := wEnum) (by decide) hfb hpiA hpiM hspecE specOf_SEnum hfresh htf hvf hunpop
    (show specSEnum.name = _ by decide +kernel) (show specSEnum.typeSelect = none by decide +kernel)
    (show aliasLookup wName specSEnum.aliases = none by decide +kernel) pi_SEnum_name
    (tD := [false, false, false, false, false]) (vsD := [.absent, .absent, .absent, .absent, .absent])
    rfl rfl rfl hname (fun d => enumBody_exact d name pfx opts hpfx hopts)

/-- the body of an object declaration at `d`, after the name -/
theorem objectBody_exact (d : Addr) (name : Str) {props : List CProperty} {nested : List J5V.Compile.Nested}
    (hps : ∀ p ∈ props, PropHas p)
    (hnested : AppendsAll j5Env (Scope.newChild (objCF d)) d 5 (nestedBcl nested) (nestedMsg j5Env nested)) :
    Exact (doBody j5Env (Scope.newChild (objCF d)) (propsBcl wField props ++ nestedBcl nested)) d
      (.msg [true, false, false, false, false, false] [sStr name, .absent, .absent, .absent, .absent, .absent]) ()
      (objNode2 name (propsMsg j5Env props) (nestedMsg j5Env nested)) := by
  have hprops := props_appendsAll2 (kw := wField) (by decide) (findBlock_field_objCF d) pi_Object_properties
    props hps
  have h1 := appends_fold hprops [] [true, false, false, false, false, false]
    [sStr name, .absent, .absent, .absent, .absent, .absent] rfl rfl
  have h2 := appends_fold hnested [] [true, false, false, !([] ++ propsMsg j5Env props).isEmpty, false, false]
    [sStr name, .absent, .absent, listSlot ([] ++ propsMsg j5Env props), .absent, .absent] rfl rfl
  refine (doBody_append h1 h2).conv ?_
  rw [List.nil_append, List.nil_append]
  rfl

theorem nestedOneof_oneof_eq (v : Node) :
    nestedOneof j5Env wOneof v = .msg [true, false, false] [v, .absent, .absent] := by
  unfold nestedOneof
  rw [mkMsg_of schemaOf_NestedSchema]
  rfl

theorem nestedOneof_enum_eq (v : Node) :
    nestedOneof j5Env wEnum v = .msg [false, false, true] [.absent, .absent, v] := by
  unfold nestedOneof
  rw [mkMsg_of schemaOf_NestedSchema]
  rfl

theorem pi_NestedSchema_oneof :
    propInfo j5Env sNestedSchema wOneof = some (0, some gNestedSchema, .container sOneofDecl) := by
  rw [j5Env_nf]; decide +kernel
theorem pi_NestedSchema_enum :
    propInfo j5Env sNestedSchema wEnum = some (2, some gNestedSchema, .container sSEnum) := by
  rw [j5Env_nf]; decide +kernel

end J5V.Walker
