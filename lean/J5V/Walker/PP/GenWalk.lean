import J5V.Walker.PP.Gen
import J5V.Walker.PP.Strings
/-!
# Exact lemmas for the walk layer (`walk_context.go`, `c2.go`), generic over the spec data
(print/parse proof, part 3b)

`setAttribute` into a scalar field, `checkBang`, `applyNameTag`, `selectType`, `walkTags` (name tag,
name tag + type select, no tag), `walkQualifiers` (none, one attribute qualifier, one block qualifier),
`doBlockHead`, `doFullBlockHead`, `doStatement` on a block / an assignment, `doBody` on `++`.
-/
namespace J5V.Walker
open J5V.Bcl

/-- `SetAttribute` on a path that ends in a scalar field -/
theorem setAttribute_scalar' {env : Env} {fuel : Nat} {sc : Scope} {path : PathSpec} {ref : List Ident}
    {val : AV} {pre : List PathElement} {last : PathElement} {a : Addr} {X X1 X2 X3 : Node} {ps : Scope}
    {f : Addr} {ty : FieldType} {pres : Bool} {v : Scalar}
    (hfp : combinePath path ref = pre ++ [last])
    (hws : Exact (walkScope env sc pre) a X ps X1)
    (hsf : Exact (scopeField env ps last.name false) a X1 ⟨f, .scalar ty pres⟩ X2)
    (hna : val.asArray = none) (hsc : scalarFromAST env ty val = .ok v)
    (hst : Exact (storeScalar f pres v) a X2 () X3) :
    Exact (setAttribute env (fuel + 1) sc path ref val false) a X () X3 := by
  rw [setAttribute]
  dsimp only
  rw [hfp]
  rw [if_neg (by simp), List.getLast?_concat, List.dropLast_concat]
  dsimp only
  refine Exact.bind hws ?_
  refine Exact.bind (hsf.tryCatch _) ?_
  dsimp only
  rw [hna]
  dsimp only [Bool.false_eq_true, if_false]
  rw [hsc]
  exact hst

theorem setAttribute_scalar {env : Env} {sc : Scope} {path : PathSpec} {ref : List Ident}
    {val : AV} {pre : List PathElement} {last : PathElement} {a : Addr} {X X1 X2 X3 : Node} {ps : Scope}
    {f : Addr} {ty : FieldType} {pres : Bool} {v : Scalar}
    (hfp : combinePath path ref = pre ++ [last])
    (hws : Exact (walkScope env sc pre) a X ps X1)
    (hsf : Exact (scopeField env ps last.name false) a X1 ⟨f, .scalar ty pres⟩ X2)
    (hna : val.asArray = none) (hsc : scalarFromAST env ty val = .ok v)
    (hst : Exact (storeScalar f pres v) a X2 () X3) :
    Exact (setAttribute env (fuelOf env) sc path ref val false) a X () X3 := by
  rw [fuelOf_succ]; exact setAttribute_scalar' hfp hws hsf hna hsc hst

/-- `SetAttribute` whose last name is found (alias of length one, or the property itself) in a block at
`a ++ b`, into a scalar property not touched yet; `pre` = the part of the path walked before -/
theorem setAttr_walk' {env : Env} {fuel : Nat} {sc ps : Scope} {path : PathSpec} {ref : List Ident} {val : AV}
    {pre : List PathElement} {n : Str} {pos : Option Span} {s : Schema} {spec : BlockSpec} {a b : Addr}
    {final : Str} {i : Nat} {og : Option (Str × List Nat)} {ty : FieldType} {pres : Bool} {X X1 : Node}
    {t : List Bool} {vs : List Node} {cur : Node} {v : Scalar}
    (hfp : combinePath path ref = pre ++ [⟨n, pos⟩])
    (hws : Exact (walkScope env sc pre) a X ps X1)
    (hfb : findBlock n ps.blockSet = some (cfOf s spec (a ++ b), [final]))
    (hpi : propInfo env s final = some (i, og, .scalar ty pres))
    (hX1 : X1.get? b = some (.msg t vs))
    (ht : t[i]? = some false) (hv : vs[i]? = some cur) (hconf : NoConflict og vs)
    (hna : val.asArray = none) (hsc : scalarFromAST env ty val = .ok v) :
    Exact (setAttribute env (fuel + 1) sc path ref val false) a X ()
      (X1.set b (.msg (t.set i true) (vs.set i (storeNode pres v)))) := by
  have hlt : i < vs.length := (List.getElem?_eq_some_iff.mp hv).1
  refine setAttribute_scalar' (last := ⟨n, pos⟩) hfp hws
    ((scopeField_direct hfb (propInfo_hasProperty hpi) (propSetValue_build _ hpi ht hv hconf)).lift hX1)
    hna hsc ?_
  have h := Exact.setNode (a := a) (b := b ++ [i])
    (X := X1.set b (.msg (t.set i true) (vs.set i (builtValue (.scalar ty pres) cur)))) (storeNode pres v)
  rw [← List.append_assoc] at h
  refine h.conv ?_
  rw [Node.set_append (Node.get?_set_self' hX1 _), Node.set_set,
    Node.set_msg_single _ _ _ cur _ (by rw [List.getElem?_set_self hlt]; rfl), List.set_set]

theorem setAttr_walk {env : Env} {sc ps : Scope} {path : PathSpec} {ref : List Ident} {val : AV}
    {pre : List PathElement} {n : Str} {pos : Option Span} {s : Schema} {spec : BlockSpec} {a b : Addr}
    {final : Str} {i : Nat} {og : Option (Str × List Nat)} {ty : FieldType} {pres : Bool} {X X1 : Node}
    {t : List Bool} {vs : List Node} {cur : Node} {v : Scalar}
    (hfp : combinePath path ref = pre ++ [⟨n, pos⟩])
    (hws : Exact (walkScope env sc pre) a X ps X1)
    (hfb : findBlock n ps.blockSet = some (cfOf s spec (a ++ b), [final]))
    (hpi : propInfo env s final = some (i, og, .scalar ty pres))
    (hX1 : X1.get? b = some (.msg t vs))
    (ht : t[i]? = some false) (hv : vs[i]? = some cur) (hconf : NoConflict og vs)
    (hna : val.asArray = none) (hsc : scalarFromAST env ty val = .ok v) :
    Exact (setAttribute env (fuelOf env) sc path ref val false) a X ()
      (X1.set b (.msg (t.set i true) (vs.set i (storeNode pres v)))) := by
  rw [fuelOf_succ]; exact setAttr_walk' hfp hws hfb hpi hX1 ht hv hconf hna hsc

/-- `setAttr_direct` for any fuel -/
theorem setAttr_direct' {env : Env} {fuel : Nat} {sc : Scope} {path : PathSpec} {ref : List Ident} {val : AV}
    {n : Str} {pos : Option Span} {s : Schema} {spec : BlockSpec} {c : Addr} {final : Str} {i : Nat}
    {og : Option (Str × List Nat)} {ty : FieldType} {pres : Bool} {t : List Bool} {vs : List Node}
    {cur : Node} {v : Scalar}
    (hfp : combinePath path ref = [⟨n, pos⟩])
    (hfb : findBlock n sc.blockSet = some (cfOf s spec c, [final]))
    (hpi : propInfo env s final = some (i, og, .scalar ty pres))
    (ht : t[i]? = some false) (hv : vs[i]? = some cur) (hconf : NoConflict og vs)
    (hna : val.asArray = none) (hsc : scalarFromAST env ty val = .ok v) :
    Exact (setAttribute env (fuel + 1) sc path ref val false) c (.msg t vs) ()
      (.msg (t.set i true) (vs.set i (storeNode pres v))) := by
  have h := setAttr_walk' (fuel := fuel) (a := c) (b := []) (pre := []) (X := .msg t vs) hfp (walkScope_nil _ _ _)
    (by rw [List.append_nil]; exact hfb) hpi (Node.get?_nil _) ht hv hconf hna hsc
  exact h.conv (Node.set_nil _ _)

/-- `SetAttribute` by ONE name (an alias of length one or the property itself) into a scalar property,
not touched yet, of the message at `c` -/
theorem setAttr_direct {env : Env} {sc : Scope} {path : PathSpec} {ref : List Ident} {val : AV}
    {n : Str} {pos : Option Span} {s : Schema} {spec : BlockSpec} {c : Addr} {final : Str} {i : Nat}
    {og : Option (Str × List Nat)} {ty : FieldType} {pres : Bool} {t : List Bool} {vs : List Node}
    {cur : Node} {v : Scalar}
    (hfp : combinePath path ref = [⟨n, pos⟩])
    (hfb : findBlock n sc.blockSet = some (cfOf s spec c, [final]))
    (hpi : propInfo env s final = some (i, og, .scalar ty pres))
    (ht : t[i]? = some false) (hv : vs[i]? = some cur) (hconf : NoConflict og vs)
    (hna : val.asArray = none) (hsc : scalarFromAST env ty val = .ok v) :
    Exact (setAttribute env (fuelOf env) sc path ref val false) c (.msg t vs) ()
      (.msg (t.set i true) (vs.set i (storeNode pres v))) := by
  have h := setAttr_walk (a := c) (b := []) (pre := []) (X := .msg t vs) hfp (walkScope_nil _ _ _)
    (by rw [List.append_nil]; exact hfb) hpi (Node.get?_nil _) ht hv hconf hna hsc
  exact h.conv (Node.set_nil _ _)

/-- an attribute of a block at `c ++ b`, run below `c` -/
theorem setAttr_in {env : Env} {sc : Scope} {path : PathSpec} {ref : List Ident} {val : AV}
    {n : Str} {pos : Option Span} {s : Schema} {spec : BlockSpec} {c b : Addr} {final : Str} {i : Nat}
    {og : Option (Str × List Nat)} {ty : FieldType} {pres : Bool} {X : Node} {t : List Bool} {vs : List Node}
    {cur : Node} {v : Scalar}
    (hfp : combinePath path ref = [⟨n, pos⟩])
    (hfb : findBlock n sc.blockSet = some (cfOf s spec (c ++ b), [final]))
    (hpi : propInfo env s final = some (i, og, .scalar ty pres))
    (hX : X.get? b = some (.msg t vs))
    (ht : t[i]? = some false) (hv : vs[i]? = some cur) (hconf : NoConflict og vs)
    (hna : val.asArray = none) (hsc : scalarFromAST env ty val = .ok v) :
    Exact (setAttribute env (fuelOf env) sc path ref val false) c X ()
      (X.set b (.msg (t.set i true) (vs.set i (storeNode pres v)))) :=
  setAttr_walk (pre := []) hfp (walkScope_nil _ _ _) hfb hpi hX ht hv hconf hna hsc

/-! ## `SetAttribute` of a string list into an array of scalars -/

theorem appendScalar_exact (f : Addr) (v : Scalar) (xs : List Node) :
    Exact (appendScalar f v) f (.list xs) () (.list (xs ++ [.scalar v])) := by
  intro S hS
  simp only [appendScalar, M.bind_apply, getNode_apply, hS, setNode_apply]

theorem listLength_exact (f : Addr) (xs : List Node) :
    Exact (listLength f) f (.list xs) xs.length (.list xs) := by
  intro S hS
  simp only [listLength, M.bind_apply, getNode_apply, hS, M.pure_apply, Node.set_get_self hS]

/-- `AppendASTValue` of quoted strings -/
theorem appendValues_strs (env : Env) (f : Addr) (ss : List Str) (h : ss.all okString = true) (xs : List Node) :
    Exact (appendValues env f (.scalar .string) ((ss.map strValue).map .value)) f (.list xs) ()
      (.list (xs ++ ss.map fun s => .scalar (.str s))) := by
  induction ss generalizing xs with
  | nil => simp only [List.map_nil, List.append_nil]; exact Exact.pure _ _ _
  | cons s rest ih =>
    simp only [List.all_cons, Bool.and_eq_true] at h
    simp only [List.map_cons, appendValues, scalarFromAST, asString_strValue (isAscii_of_okString h.1),
      Option.map_some]
    refine Exact.bind (appendScalar_exact f _ xs) ?_
    have := ih h.2 (xs ++ [.scalar (.str s)])
    rw [List.append_assoc] at this
    exact this

/-- `SetAttribute` on a path that ends in an array-of-scalars field, with an array value -/
theorem setAttribute_array {env : Env} {sc : Scope} {path : PathSpec} {ref : List Ident}
    {val : AV} {pre : List PathElement} {last : PathElement} {a : Addr} {X X1 X2 X3 : Node} {ps : Scope}
    {f : Addr} {item : FieldType} {avs : List AV}
    (hfp : combinePath path ref = pre ++ [last])
    (hws : Exact (walkScope env sc pre) a X ps X1)
    (hsf : Exact (scopeField env ps last.name false) a X1 ⟨f, .arrayOfScalar item⟩ X2)
    (hva : val.asArray = some avs)
    (hlen : Exact (listLength f) a X2 0 X2)
    (happ : Exact (appendValues env f item avs) a X2 () X3) :
    Exact (setAttribute env (fuelOf env) sc path ref val false) a X () X3 := by
  rw [fuelOf_succ, setAttribute]
  dsimp only
  rw [hfp]
  rw [if_neg (by simp), List.getLast?_concat, List.dropLast_concat]
  dsimp only
  refine Exact.bind hws ?_
  refine Exact.bind (hsf.tryCatch _) ?_
  dsimp only
  rw [hva]
  dsimp only
  refine Exact.bind hlen ?_
  rw [if_neg (by simp)]
  exact happ

/-- a string list into an array-of-strings property, not touched yet, of a block at `a ++ b` -/
theorem setAttr_walk_strs {env : Env} {sc ps : Scope} {path : PathSpec} {ref : List Ident}
    {pre : List PathElement} {n : Str} {pos : Option Span} {s : Schema} {spec : BlockSpec} {a b : Addr}
    {final : Str} {i : Nat} {og : Option (Str × List Nat)} {X X1 : Node}
    {t : List Bool} {vs : List Node} {x : Str} {xs : List Str}
    (hfp : combinePath path ref = pre ++ [⟨n, pos⟩])
    (hws : Exact (walkScope env sc pre) a X ps X1)
    (hfb : findBlock n ps.blockSet = some (cfOf s spec (a ++ b), [final]))
    (hpi : propInfo env s final = some (i, og, .arrayOfScalar (.scalar .string)))
    (hX1 : X1.get? b = some (.msg t vs))
    (ht : t[i]? = some false) (hv : vs[i]? = some .absent) (hconf : NoConflict og vs)
    (hok : (x :: xs).all okString = true) :
    Exact (setAttribute env (fuelOf env) sc path ref (.value (strsValue (x :: xs))) false) a X ()
      (X1.set b (.msg (t.set i true) (vs.set i (.list ((x :: xs).map fun s => .scalar (.str s)))))) := by
  have hlt : i < vs.length := (List.getElem?_eq_some_iff.mp hv).1
  have hM : (X1.set b (Node.msg (t.set i true) (vs.set i (.list [])))).get? b =
      some (Node.msg (t.set i true) (vs.set i (.list []))) := Node.get?_set_self' hX1 _
  have hX2 : (X1.set b (.msg (t.set i true) (vs.set i (.list [])))).get? (b ++ [i]) = some (.list []) := by
    rw [Node.get?_append, hM, Option.bind_some, Node.get?_msg_single _ _ _ (.list [])]
    rw [List.getElem?_set_self hlt]
  have hsf := (scopeField_direct (existingIsOk := false) hfb (propInfo_hasProperty hpi)
    (propSetValue_build (c := a ++ b) (cur := .absent) true hpi ht hv hconf)).lift hX1
  have hf : a ++ b ++ [i] = a ++ (b ++ [i]) := List.append_assoc _ _ _
  refine setAttribute_array (last := ⟨n, pos⟩) (avs := ((x :: xs).map strValue).map .value) hfp hws hsf rfl ?_ ?_
  · have h := (listLength_exact (a ++ (b ++ [i])) []).lift (a := a) (b := b ++ [i]) hX2
    rw [Node.set_get_self hX2] at h
    rw [hf]
    exact h
  · have h := (appendValues_strs env (a ++ (b ++ [i])) (x :: xs) hok []).lift (a := a) (b := b ++ [i]) hX2
    rw [hf]
    refine h.conv ?_
    rw [Node.set_append hM, Node.set_set,
      Node.set_msg_single _ _ _ (.list []) _ (by rw [List.getElem?_set_self hlt]), List.set_set, List.nil_append]

/-! ## `checkBang`, name tag, type select -/

theorem checkBang_none {env : Env} {sc : Scope} {tagSpec : Tag} {gotTag : TagValue} (a : Addr) (X : Node)
    (hm : gotTag.mark = .none) : Exact (checkBang env sc tagSpec gotTag) a X () X := by
  unfold checkBang; rw [hm]; exact Exact.pure _ _ _

theorem checkBang_bang {env : Env} {sc : Scope} {tagSpec : Tag} {gotTag : TagValue} {a : Addr}
    {X X1 : Node} {f : Str} (hm : gotTag.mark = .bang) (hf : tagSpec.bangFieldName = some f)
    (h : Exact (setAttribute env (fuelOf env) sc [f] [] (.bool true) false) a X () X1) :
    Exact (checkBang env sc tagSpec gotTag) a X () X1 := by
  unfold checkBang; rw [hm]; dsimp only; rw [hf]; exact h

theorem checkBang_question {env : Env} {sc : Scope} {tagSpec : Tag} {gotTag : TagValue} {a : Addr}
    {X X1 : Node} {f : Str} (hm : gotTag.mark = .question) (hf : tagSpec.questionFieldName = some f)
    (h : Exact (setAttribute env (fuelOf env) sc [f] [] (.bool true) false) a X () X1) :
    Exact (checkBang env sc tagSpec gotTag) a X () X1 := by
  unfold checkBang; rw [hm]; dsimp only; rw [hf]; exact h

theorem applyNameTag_exact {env : Env} {sc : Scope} {tagSpec : Tag} {gotTag : TagValue} {a : Addr}
    {X X1 X2 : Node}
    (hcb : Exact (checkBang env sc tagSpec gotTag) a X () X1)
    (hset : Exact (setAttribute env (fuelOf env) sc [tagSpec.fieldName] [] (.tag gotTag) false) a X1 () X2) :
    Exact (applyNameTag env sc tagSpec gotTag) a X () X2 := by
  unfold applyNameTag
  exact Exact.bind hcb hset

/-- the schema path of a type-select tag -/
def pathToType (tagSpec : Tag) : PathSpec :=
  if tagSpec.fieldName = [] ∨ tagSpec.fieldName = [46] then [] else [tagSpec.fieldName]

theorem selectType_exact {env : Env} {sc ts : Scope} {tagSpec : Tag} {gotTag : TagValue} {ref : Reference}
    {a : Addr} {X X1 X2 : Node}
    (href : gotTag.reference = some ref)
    (hbs : Exact (buildScope env sc (pathToType tagSpec) ref.idents .keepScope) a X ts X1)
    (hcb : Exact (checkBang env ts tagSpec gotTag) a X1 () X2) :
    Exact (selectType env sc tagSpec gotTag) a X ts X2 := by
  unfold selectType
  rw [href]
  dsimp only
  refine Exact.bind hbs ?_
  refine Exact.bind hcb ?_
  exact Exact.pure _ _ _

/-! ## `walkTags` -/

/-- no tag expected, none given -/
theorem walkTags_nil_none {env : Env} {pos : Pos} {sc : Scope} {spec : BlockSpec} (a : Addr) (X : Node)
    (hn : spec.name = none) (ht : spec.typeSelect = none) :
    Exact (walkTags env [] pos sc spec) a X (sc, spec) X := by
  rw [walkTags, hn]; dsimp only; rw [ht]; dsimp only
  unfold finishTags
  exact Exact.pure _ _ _

/-- a name tag, no type select -/
theorem walkTags_name {env : Env} {g : TagValue} {pos : Pos} {sc : Scope} {spec : BlockSpec} {ns : Tag}
    {a : Addr} {X X1 : Node}
    (hn : spec.name = some ns) (ht : spec.typeSelect = none)
    (hname : Exact (applyNameTag env sc ns g) a X () X1) :
    Exact (walkTags env [g] pos sc spec) a X (sc, spec) X1 := by
  rw [walkTags, hn]; dsimp only
  refine Exact.bind hname ?_
  rw [ht]; dsimp only
  unfold finishTags
  exact Exact.pure _ _ _

/-- a name tag and a type-select tag; the rest of the tags is walked in the type's scope -/
theorem walkTags_name_type {env : Env} {g tt : TagValue} {rest : List TagValue} {pos : Pos}
    {sc ts : Scope} {spec : BlockSpec} {ns typeSpec : Tag} {a : Addr} {X X1 X2 X3 : Node}
    {r : Scope × BlockSpec}
    (hn : spec.name = some ns) (ht : spec.typeSelect = some typeSpec)
    (hname : Exact (applyNameTag env sc ns g) a X () X1)
    (hsel : Exact (selectType env sc typeSpec tt) a X1 ts X2)
    (hrest : Exact (walkTags env rest tt.span.end_ ts (withScopeSpec ts)) a X2 r X3) :
    Exact (walkTags env (g :: tt :: rest) pos sc spec) a X r X3 := by
  rw [walkTags, hn]; dsimp only
  refine Exact.bind hname ?_
  rw [ht]; dsimp only
  refine Exact.bind hsel ?_
  exact hrest

/-! ## `walkQualifiers` -/

theorem walkQualifiers_nil {env : Env} (sc : Scope) (spec : BlockSpec) (a : Addr) (X : Node) :
    Exact (walkQualifiers env [] sc spec) a X (sc, spec) X := by
  rw [walkQualifiers]; exact Exact.pure _ _ _

/-- one qualifier that is an attribute (`integer:INT32`, `import p:alias`) -/
theorem walkQualifiers_attr {env : Env} {q : TagValue} {sc : Scope} {spec : BlockSpec} {tagSpec : Tag}
    {a : Addr} {X X1 X2 : Node}
    (hq : spec.qualifier = some tagSpec) (hb : tagSpec.isBlock = false)
    (hcb : Exact (checkBang env sc tagSpec q) a X () X1)
    (hset : Exact (setAttribute env (fuelOf env) sc [tagSpec.fieldName] [] (.tag q) false) a X1 () X2) :
    Exact (walkQualifiers env [q] sc spec) a X (sc, spec) X2 := by
  rw [walkQualifiers, hq]; dsimp only
  refine Exact.ite_pos (by simp [hb]) ?_
  refine Exact.bind hcb ?_
  refine Exact.bind hset ?_
  dsimp only [List.isEmpty_nil, if_true]
  exact Exact.pure _ _ _

/-- a qualifier that selects a block (`key:id62`, `array:string`); the rest is walked inside -/
theorem walkQualifiers_block {env : Env} {q : TagValue} {rest : List TagValue} {sc ns : Scope}
    {spec : BlockSpec} {tagSpec : Tag} {ref : Reference} {a : Addr} {X X1 X2 X3 : Node}
    {r : Scope × BlockSpec}
    (hq : spec.qualifier = some tagSpec) (hb : tagSpec.isBlock = true)
    (href : q.reference = some ref)
    (hbs : Exact (buildScope env sc [tagSpec.fieldName] ref.idents .keepScope) a X ns X1)
    (hcb : Exact (checkBang env ns tagSpec q) a X1 () X2)
    (hrest : Exact (walkQualifiers env rest ns (withScopeSpec ns)) a X2 r X3) :
    Exact (walkQualifiers env (q :: rest) sc spec) a X r X3 := by
  rw [walkQualifiers, hq]; dsimp only
  refine Exact.ite_neg (by simp [hb]) ?_
  rw [href]; dsimp only
  refine Exact.bind hbs ?_
  refine Exact.bind hcb ?_
  exact hrest

/-! ## Blocks, assignments, bodies -/

theorem doBlockHead_exact {env : Env} {sc sc1 sc2 : Scope} {spec spec1 spec2 : BlockSpec} {h : BlockHeader}
    {a : Addr} {X X1 X2 : Node}
    (hd : h.description = none)
    (ht : Exact (walkTags env h.tags h.type.span.end_ sc spec) a X (sc1, spec1) X1)
    (hq : Exact (walkQualifiers env h.qualifiers sc1 spec1) a X1 (sc2, spec2) X2) :
    Exact (doBlockHead env sc spec h) a X sc2 X2 := by
  unfold doBlockHead
  refine Exact.bind ht ?_
  dsimp only
  refine Exact.bind hq ?_
  dsimp only
  unfold doBlockDescription
  rw [hd]; dsimp only
  refine Exact.bind (Exact.pure _ _ _) ?_
  exact Exact.pure _ _ _

theorem doFullBlockHead_exact {env : Env} {sc ns sc2 : Scope} {h : BlockHeader} {a : Addr} {X X1 X2 : Node}
    (hbs : Exact (buildScope env sc [] h.type.idents .resetScope) a X ns X1)
    (hh : Exact (doBlockHead env ns (withScopeSpec ns) h) a X1 sc2 X2) :
    Exact (doFullBlockHead env sc h) a X sc2 X2 := by
  unfold doFullBlockHead
  exact Exact.bind hbs hh

theorem doStatement_block {env : Env} {sc bs : Scope} {h : BlockHeader} {body : List Statement} {a : Addr}
    {X X1 X2 : Node}
    (hh : Exact (doFullBlockHead env sc h) a X bs X1)
    (hb : Exact (doBody env bs body) a X1 () X2) :
    Exact (doStatement env sc (.block h body)) a X () X2 := by
  rw [doStatement]
  exact (Exact.bind hh hb).addPosition _

theorem doStatement_assign {env : Env} {sc : Scope} {d : Assignment} {a : Addr} {X X1 : Node}
    (h : Exact (setAttribute env (fuelOf env) sc [] d.key.idents (.value d.value) d.append) a X () X1) :
    Exact (doStatement env sc (.assign d)) a X () X1 := by
  rw [doStatement]
  exact Exact.addPosition h _

theorem doBody_nil {env : Env} (sc : Scope) (a : Addr) (X : Node) : Exact (doBody env sc []) a X () X := by
  rw [doBody]; exact Exact.pure _ _ _

theorem doBody_cons {env : Env} {sc : Scope} {st : Statement} {rest : List Statement} {a : Addr}
    {X X1 X2 : Node}
    (h1 : Exact (doStatement env sc st) a X () X1) (h2 : Exact (doBody env sc rest) a X1 () X2) :
    Exact (doBody env sc (st :: rest)) a X () X2 := by
  rw [doBody]; exact Exact.bind h1 h2

theorem doBody_append_eq (env : Env) (sc : Scope) (l1 l2 : List Statement) :
    doBody env sc (l1 ++ l2) = (doBody env sc l1 >>= fun _ => doBody env sc l2) := by
  induction l1 with
  | nil =>
    funext S
    rw [List.nil_append, M.bind_apply, doBody]
    rfl
  | cons st rest ih =>
    funext S
    rw [List.cons_append, doBody, doBody, M.bind_apply, M.bind_apply, M.bind_apply, ih]
    cases doStatement env sc st S with
    | ok r => rfl
    | err e => rfl
    | panic w => rfl

theorem doBody_append {env : Env} {sc : Scope} {l1 l2 : List Statement} {a : Addr} {X X1 X2 : Node}
    (h1 : Exact (doBody env sc l1) a X () X1) (h2 : Exact (doBody env sc l2) a X1 () X2) :
    Exact (doBody env sc (l1 ++ l2)) a X () X2 := by
  rw [doBody_append_eq]
  exact Exact.bind h1 h2

/-! ## Blocks of the scope that do not know a name -/

/-- the block `o` has neither an alias nor a property `n` -/
def Misses (o : ContainerField) (n : Str) : Prop :=
  aliasLookup n o.spec.aliases = none ∧ o.container.hasProperty n = false

theorem findBlock_skip_all {n : Str} {outer rest : List ContainerField} (h : ∀ o ∈ outer, Misses o n) :
    findBlock n (outer ++ rest) = findBlock n rest := by
  induction outer with
  | nil => rfl
  | cons o os ih =>
    rw [List.cons_append, findBlock_skip (h o (by simp)).1 (h o (by simp)).2]
    exact ih (fun o' ho' => h o' (List.mem_cons_of_mem _ ho'))

theorem findBlock_prop' {n : Str} {s : Schema} {spec : BlockSpec} {c : Addr} {rest : List ContainerField}
    (h : aliasLookup n spec.aliases = none) (hp : s.hasProperty n = true) :
    findBlock n (cfOf s spec c :: rest) = some (cfOf s spec c, [n]) :=
  findBlock_prop (b := cfOf s spec c) h hp

theorem findBlock_alias' {n : Str} {s : Schema} {spec : BlockSpec} {c : Addr} {rest : List ContainerField}
    {p : PathSpec} (h : aliasLookup n spec.aliases = some p) :
    findBlock n (cfOf s spec c :: rest) = some (cfOf s spec c, p) :=
  findBlock_alias (b := cfOf s spec c) h

theorem misses_cfOf {n : Str} {s : Schema} {spec : BlockSpec} {c : Addr}
    (h : aliasLookup n spec.aliases = none) (hp : s.hasProperty n = false) : Misses (cfOf s spec c) n :=
  ⟨h, hp⟩

/-! ## Block statements of the printed tree -/

/-- `kw tags… :quals… { body }` -/
theorem blockStmt_exact {env : Env} {sc ns bs : Scope} {kw : Str} {tags quals : List TagValue} {isOpen : Bool}
    {body : List Statement} {a : Addr} {X X1 X2 X3 : Node}
    (hkw : isAscii kw = true)
    (hcb : Exact (childBlock env sc kw) a X ns X1)
    (hhead : Exact (doBlockHead env ns (withScopeSpec ns) ⟨refOf [kw], tags, quals, none, isOpen, src0⟩) a X1 bs X2)
    (hbody : Exact (doBody env bs body) a X2 () X3) :
    Exact (doStatement env sc (blockStmt kw tags quals isOpen body)) a X () X3 :=
  doStatement_block (doFullBlockHead_exact
    (buildScope_reset (combinePath_ident hkw []) (walkScope_cons hcb (walkScope_nil _ _ _))) hhead) hbody

/-- a block that appends ONE element to the array-of-containers property `name` of the message at `c`
(alias `kw → [name]`) and fills it: head and body run inside the new element -/
theorem arrayBlock_exact {env : Env} {sc bs : Scope} {kw : Str} {tags quals : List TagValue} {isOpen : Bool}
    {body : List Statement} {s : Schema} {spec : BlockSpec} {c : Addr} {name : Str} {i : Nat}
    {s' : Schema} {spec' : BlockSpec} {t : List Bool} {vs : List Node} {xs : List Node} {E1 E2 : Node}
    (hkw : isAscii kw = true)
    (hfb : findBlock kw sc.blockSet = some (cfOf s spec c, [name]))
    (hpi : propInfo env s name = some (i, none, .arrayOfContainer s'))
    (hspec : specOf env ⟨c ++ [i, xs.length], .msg s'⟩ = .ok spec')
    (ht : t[i]? = some (!xs.isEmpty)) (hv : vs[i]? = some (listSlot xs))
    (hhead : Exact (doBlockHead env (Scope.newChild (cfOf s' spec' (c ++ [i, xs.length]))) spec'
      ⟨refOf [kw], tags, quals, none, isOpen, src0⟩) (c ++ [i, xs.length]) (freshMsg s') bs E1)
    (hbody : Exact (doBody env bs body) (c ++ [i, xs.length]) E1 () E2) :
    Exact (doStatement env sc (blockStmt kw tags quals isOpen body)) c (.msg t vs) ()
      (.msg (t.set i true) (vs.set i (.list (xs ++ [E2])))) := by
  have hlt : i < vs.length := (List.getElem?_eq_some_iff.mp hv).1
  have hg : ∀ E, (vs.set i (Node.list (xs ++ [E])))[i]? = some (Node.list (xs ++ [E])) := by
    intro E; rw [List.getElem?_set_self hlt]
  refine blockStmt_exact (bs := bs) (X2 := .msg (t.set i true) (vs.set i (.list (xs ++ [E1])))) hkw
    (childBlock_of_walkPath hfb (walkPath_array_exact hpi ht hv (walkRest_nil _ _ _))
      (setSpecs_cons hspec (setSpecs_nil _))) ?_ ?_
  · have h := Exact.lift_elem (t := t.set i true) (a := c) (hg _) hhead
    rw [List.set_set] at h
    exact h
  · have h := Exact.lift_elem (t := t.set i true) (a := c) (hg _) hbody
    rw [List.set_set] at h
    exact h

/-- a block that appends one element to the array-of-oneofs property `name` and selects the member
`member` of the new element (alias `kw → [name, member]`): head and body run inside the member -/
theorem arrayMemberBlock_exact {env : Env} {sc bs : Scope} {kw : Str} {tags quals : List TagValue}
    {isOpen : Bool} {body : List Statement} {s : Schema} {spec : BlockSpec} {c : Addr} {name member : Str}
    {i k : Nat} {s' s'' : Schema} {spec' spec'' : BlockSpec} {og : Option (Str × List Nat)}
    {t : List Bool} {vs : List Node} {xs : List Node} {tf : List Bool} {vf : List Node} {D1 D2 : Node}
    (hkw : isAscii kw = true)
    (hfb : findBlock kw sc.blockSet = some (cfOf s spec c, [name, member]))
    (hpi : propInfo env s name = some (i, none, .arrayOfContainer s'))
    (hpm : propInfo env s' member = some (k, og, .container s''))
    (hspec' : specOf env ⟨c ++ [i, xs.length], .msg s'⟩ = .ok spec')
    (hspec'' : specOf env ⟨c ++ [i, xs.length, k], .msg s''⟩ = .ok spec'')
    (ht : t[i]? = some (!xs.isEmpty)) (hv : vs[i]? = some (listSlot xs))
    (hfresh : freshMsg s' = .msg tf vf) (htf : tf[k]? = some false) (hvf : vf[k]? = some .absent)
    (hunpop : vf.all (fun v => !v.populated) = true)
    (hhead : Exact (doBlockHead env (Scope.newChild (cfOf s'' spec'' (c ++ [i, xs.length, k]))) spec''
      ⟨refOf [kw], tags, quals, none, isOpen, src0⟩) (c ++ [i, xs.length, k]) (freshMsg s'') bs D1)
    (hbody : Exact (doBody env bs body) (c ++ [i, xs.length, k]) D1 () D2) :
    Exact (doStatement env sc (blockStmt kw tags quals isOpen body)) c (.msg t vs) ()
      (.msg (t.set i true) (vs.set i (.list (xs ++ [.msg (tf.set k true) (vf.set k D2)])))) := by
  have hlt : i < vs.length := (List.getElem?_eq_some_iff.mp hv).1
  have hklt : k < vf.length := (List.getElem?_eq_some_iff.mp hvf).1
  have hg : ∀ E, (vs.set i (Node.list (xs ++ [E])))[i]? = some (Node.list (xs ++ [E])) := by
    intro E; rw [List.getElem?_set_self hlt]
  have hgk : ∀ D, (vf.set k D)[k]? = some D := by
    intro D; rw [List.getElem?_set_self hklt]
  have haddr : c ++ [i, xs.length] ++ [k] = c ++ [i, xs.length, k] := by simp
  -- the member of the new element
  have hmem : Exact (walkPath env (cf0 s' (c ++ [i, xs.length])) [member]) (c ++ [i, xs.length]) (freshMsg s')
      [cf0 s'' (c ++ [i, xs.length, k])] (.msg (tf.set k true) (vf.set k (freshMsg s''))) := by
    rw [hfresh, ← haddr]
    exact walkPath_container (propInfo_hasProperty hpm)
      (propSetValue_build false hpm htf hvf (.inr hunpop)) (walkRest_nil _ _ _)
  refine blockStmt_exact (bs := bs)
    (X2 := .msg (t.set i true) (vs.set i (.list (xs ++ [.msg (tf.set k true) (vf.set k D1)])))) hkw
    (childBlock_of_walkPath hfb (walkPath_array_exact hpi ht hv (walkRest_cons hmem))
      (setSpecs_cons hspec'' (setSpecs_cons hspec' (setSpecs_nil _)))) ?_ ?_
  · rw [← haddr] at hhead
    have h := Exact.lift_elem (t := t.set i true) (a := c) (hg _)
      (Exact.lift_prop (t := tf.set k true) (hgk _) hhead)
    rw [List.set_set, List.set_set] at h
    rw [← haddr]
    exact h
  · rw [← haddr] at hbody
    have h := Exact.lift_elem (t := t.set i true) (a := c) (hg _)
      (Exact.lift_prop (t := tf.set k true) (hgk _) hbody)
    rw [List.set_set, List.set_set] at h
    exact h

end J5V.Walker
